// extract_c08add: reads api/add.go of the repository (go/ast) and prints lean/ClusterVerif/Gen/C08Add.lean:
// the parameter table of the add endpoint's query form, as the CODE has it today —
//   reads    : the steps of AddParamsFromQuery in source order (kind, query key, struct field, accepted values)
//   writes   : the steps of AddParams.ToQueryString in source order (kind, query key, struct field)
//   defaults : the composite literal of DefaultAddParams (field path, value text)
//   equals   : the conjuncts of AddParams.Equals
//   fields   : the fields of AddParams and IPFSAddParams (struct, field, type)
//   helpers  : whether parseBoolParam / parseIntParam have the body the model transcribes
// A statement is recognised from its printed, whitespace-normalised text by anchored patterns; anything else
// becomes an ("unknown", <text>) step, which no theorem of Props/C08 accepts (fail-closed). A harmless
// rewrite that keeps the statement texts (comments, blank lines, error messages) changes nothing.
package main

import (
	"bytes"
	"fmt"
	"go/ast"
	"go/parser"
	"go/printer"
	"go/token"
	"os"
	"path/filepath"
	"regexp"
	"strconv"
	"strings"
)

var fset = token.NewFileSet()

func text(n ast.Node) string {
	var b bytes.Buffer
	printer.Fprint(&b, fset, n)
	return strings.Join(strings.Fields(b.String()), " ")
}

func lq(s string) string { return strconv.Quote(s) }

func lstr(l []string) string {
	q := make([]string, len(l))
	for i, s := range l {
		q[i] = lq(s)
	}
	return "[" + strings.Join(q, ", ") + "]"
}

type step struct {
	kind, key, field string
	vals             []string
}

func (s step) lean() string {
	return fmt.Sprintf("(%s, %s, %s, %s)", lq(s.kind), lq(s.key), lq(s.field), lstr(s.vals))
}

func findFunc(f *ast.File, recv, name string) *ast.FuncDecl {
	for _, d := range f.Decls {
		fd, ok := d.(*ast.FuncDecl)
		if !ok || fd.Name.Name != name {
			continue
		}
		r := ""
		if fd.Recv != nil && len(fd.Recv.List) == 1 {
			r = text(fd.Recv.List[0].Type)
		}
		if r == recv {
			return fd
		}
	}
	return nil
}

var (
	reGet      = regexp.MustCompile(`^(\w+) := query\.Get\("([^"]+)"\)$`)
	reSwitch   = regexp.MustCompile(`^switch (\w+) \{ case ((?:"[^"]*"(?:, )?)+): default: return nil, errors\.New\("[^"]*"\) \}$`)
	reAssign   = regexp.MustCompile(`^params\.(\w+) = (\w+)$`)
	reStrDef   = regexp.MustCompile(`^if (\w+) != "" \{ params\.(\w+) = (\w+) \}$`)
	reParse    = regexp.MustCompile(`^err = parse(Bool|Int)Param\(query, "([^"]+)", &params\.(\w+)\)$`)
	reSetFmt   = regexp.MustCompile(`^query\.Set\("([^"]+)", fmt\.Sprintf\("(%t|%d)", p\.(\w+)\)\)$`)
	reSetStr   = regexp.MustCompile(`^query\.Set\("([^"]+)", p\.(\w+)\)$`)
	reEqField  = regexp.MustCompile(`^p\.(\w+) == p2\.(\w+)$`)
	errCheck   = `if err != nil { return nil, err }`
	errCheckW  = `if err != nil { return "", err }`
	hashCidTxt = `if strings.ToLower(params.HashFun) != "sha2-256" && params.CidVersion == 0 { if query.Get("cid-version") != "" { return nil, errors.New("CIDv0 only supports the sha2-256 hash function") } params.CidVersion = 1 }`
	rawLeavTxt = `if params.CidVersion > 0 { params.RawLeaves = true }`
	boolBody   = `{ if v := q.Get(name); v != "" { b, err := strconv.ParseBool(v) if err != nil { return fmt.Errorf("parameter %s invalid", name) } *dest = b } return nil }`
	intBody    = `{ if v := q.Get(name); v != "" { i, err := strconv.Atoi(v) if err != nil { return fmt.Errorf("parameter %s invalid", name) } *dest = i } return nil }`
)

func unknown(t string) step { return step{"unknown", t, "", nil} }

// the steps of AddParamsFromQuery
func readSteps(fd *ast.FuncDecl) []step {
	var ts []string
	for _, s := range fd.Body.List {
		ts = append(ts, text(s))
	}
	var out []step
	at := func(i int) string {
		if i < len(ts) {
			return ts[i]
		}
		return ""
	}
	for i := 0; i < len(ts); {
		t := ts[i]
		switch {
		case t == "params := DefaultAddParams()":
			out = append(out, step{"defaults", "", "", nil})
			i++
		case t == "opts := &PinOptions{}" && at(i+1) == "err := opts.FromQuery(query)" && at(i+2) == errCheck && at(i+3) == "params.PinOptions = *opts":
			out = append(out, step{"pinOptions", "", "PinOptions", nil})
			i += 4
		case t == "params.PinUpdate = cid.Undef":
			out = append(out, step{"pinUpdateUndef", "", "PinUpdate", nil})
			i++
		case reGet.MatchString(t):
			m := reGet.FindStringSubmatch(t)
			v, key := m[1], m[2]
			if sw := reSwitch.FindStringSubmatch(at(i + 1)); sw != nil && sw[1] == v {
				if as := reAssign.FindStringSubmatch(at(i + 2)); as != nil && as[2] == v {
					var vals []string
					for _, q := range strings.Split(sw[2], ", ") {
						u, _ := strconv.Unquote(q)
						vals = append(vals, u)
					}
					out = append(out, step{"enum", key, as[1], vals})
					i += 3
					continue
				}
			}
			if sd := reStrDef.FindStringSubmatch(at(i + 1)); sd != nil && sd[1] == v && sd[3] == v {
				out = append(out, step{"strDefault", key, sd[2], nil})
				i += 2
				continue
			}
			out = append(out, unknown(t))
			i++
		case reParse.MatchString(t) && at(i+1) == errCheck:
			m := reParse.FindStringSubmatch(t)
			out = append(out, step{strings.ToLower(m[1]), m[2], m[3], nil})
			i += 2
		case t == hashCidTxt:
			out = append(out, step{"hashCidRule", "cid-version", "CidVersion", nil})
			i++
		case t == rawLeavTxt:
			out = append(out, step{"rawLeavesRule", "", "RawLeaves", nil})
			i++
		case t == "return params, nil" && i == len(ts)-1:
			out = append(out, step{"return", "", "", nil})
			i++
		default:
			out = append(out, unknown(t))
			i++
		}
	}
	return out
}

// the steps of ToQueryString
func writeSteps(fd *ast.FuncDecl) []step {
	var ts []string
	for _, s := range fd.Body.List {
		ts = append(ts, text(s))
	}
	at := func(i int) string {
		if i < len(ts) {
			return ts[i]
		}
		return ""
	}
	var out []step
	for i := 0; i < len(ts); {
		t := ts[i]
		switch {
		case t == "pinOptsQuery, err := p.PinOptions.ToQuery()" && at(i+1) == errCheckW &&
			at(i+2) == "query, err := url.ParseQuery(pinOptsQuery)" && at(i+3) == errCheckW:
			out = append(out, step{"pinOptions", "", "PinOptions", nil})
			i += 4
		case reSetFmt.MatchString(t):
			m := reSetFmt.FindStringSubmatch(t)
			k := "bool"
			if m[2] == "%d" {
				k = "int"
			}
			out = append(out, step{k, m[1], m[3], nil})
			i++
		case reSetStr.MatchString(t):
			m := reSetStr.FindStringSubmatch(t)
			out = append(out, step{"str", m[1], m[2], nil})
			i++
		case t == "return query.Encode(), nil" && i == len(ts)-1:
			out = append(out, step{"return", "", "", nil})
			i++
		default:
			out = append(out, unknown(t))
			i++
		}
	}
	return out
}

func litFields(prefix string, cl *ast.CompositeLit, rows *[]string) {
	for _, e := range cl.Elts {
		kv, ok := e.(*ast.KeyValueExpr)
		if !ok {
			*rows = append(*rows, fmt.Sprintf("(%s, %s)", lq(prefix+"?"), lq(text(e))))
			continue
		}
		name := text(kv.Key)
		if inner, ok := kv.Value.(*ast.CompositeLit); ok {
			litFields(prefix+name+".", inner, rows)
			continue
		}
		*rows = append(*rows, fmt.Sprintf("(%s, %s)", lq(prefix+name), lq(text(kv.Value))))
	}
}

func conjuncts(e ast.Expr, out *[]string) {
	if b, ok := e.(*ast.BinaryExpr); ok && b.Op == token.LAND {
		conjuncts(b.X, out)
		conjuncts(b.Y, out)
		return
	}
	t := text(e)
	if t == "p.PinOptions.Equals(&p2.PinOptions)" {
		*out = append(*out, "PinOptions")
		return
	}
	if m := reEqField.FindStringSubmatch(t); m != nil && m[1] == m[2] {
		*out = append(*out, m[1])
		return
	}
	*out = append(*out, "?"+t)
}

func main() {
	repo := os.Getenv("VERIF_REPO")
	if repo == "" {
		repo = "/repo"
	}
	f, err := parser.ParseFile(fset, filepath.Join(repo, "api", "add.go"), nil, 0)
	if err != nil {
		fmt.Fprintln(os.Stderr, err)
		os.Exit(1)
	}
	need := func(recv, name string) *ast.FuncDecl {
		fd := findFunc(f, recv, name)
		if fd == nil || fd.Body == nil {
			fmt.Fprintln(os.Stderr, "function not found in api/add.go:", recv, name)
			os.Exit(1)
		}
		return fd
	}
	var reads, writes []string
	for _, s := range readSteps(need("", "AddParamsFromQuery")) {
		reads = append(reads, s.lean())
	}
	for _, s := range writeSteps(need("*AddParams", "ToQueryString")) {
		writes = append(writes, s.lean())
	}

	// DefaultAddParams: `return &AddParams{...}`
	var defaults []string
	def := need("", "DefaultAddParams")
	okDef := false
	if len(def.Body.List) == 1 {
		if ret, ok := def.Body.List[0].(*ast.ReturnStmt); ok && len(ret.Results) == 1 {
			if u, ok := ret.Results[0].(*ast.UnaryExpr); ok && u.Op == token.AND {
				if cl, ok := u.X.(*ast.CompositeLit); ok && text(cl.Type) == "AddParams" {
					litFields("", cl, &defaults)
					okDef = true
				}
			}
		}
	}
	if !okDef {
		defaults = append(defaults, fmt.Sprintf("(%s, %s)", lq("?"), lq(text(def.Body))))
	}

	// AddParams.Equals: `return a && b && ...`
	var eq []string
	eqf := need("*AddParams", "Equals")
	if len(eqf.Body.List) == 1 {
		if ret, ok := eqf.Body.List[0].(*ast.ReturnStmt); ok && len(ret.Results) == 1 {
			conjuncts(ret.Results[0], &eq)
		}
	}
	if len(eq) == 0 {
		eq = append(eq, "?"+text(eqf.Body))
	}

	// struct fields
	var fields []string
	for _, sn := range []string{"AddParams", "IPFSAddParams"} {
		found := false
		ast.Inspect(f, func(n ast.Node) bool {
			ts, ok := n.(*ast.TypeSpec)
			if !ok || ts.Name.Name != sn {
				return true
			}
			st, ok := ts.Type.(*ast.StructType)
			if !ok {
				return true
			}
			found = true
			for _, fl := range st.Fields.List {
				if len(fl.Names) == 0 {
					fields = append(fields, fmt.Sprintf("(%s, %s, %s)", lq(sn), lq(text(fl.Type)), lq("embedded")))
				}
				for _, nm := range fl.Names {
					fields = append(fields, fmt.Sprintf("(%s, %s, %s)", lq(sn), lq(nm.Name), lq(text(fl.Type))))
				}
			}
			return false
		})
		if !found {
			fmt.Fprintln(os.Stderr, "struct not found:", sn)
			os.Exit(1)
		}
	}

	helper := func(name, want string) string {
		got := text(need("", name).Body)
		if got == want {
			return "ok"
		}
		return got
	}

	fmt.Println("/- GENERATED by harness/extract_c08add from api/add.go — do not edit. -/")
	fmt.Println("namespace CV.C08.Gen.Add")
	fmt.Println("/-- AddParamsFromQuery, in source order: (kind, query key, field, accepted values) -/")
	fmt.Println("def reads : List (String × String × String × List String) := [\n  " + strings.Join(reads, ",\n  ") + "\n]")
	fmt.Println("/-- AddParams.ToQueryString, in source order: (kind, query key, field, -) -/")
	fmt.Println("def writes : List (String × String × String × List String) := [\n  " + strings.Join(writes, ",\n  ") + "\n]")
	fmt.Println("/-- DefaultAddParams: (field path, value text) -/")
	fmt.Println("def defaults : List (String × String) := [\n  " + strings.Join(defaults, ",\n  ") + "\n]")
	fmt.Println("/-- the conjuncts of AddParams.Equals -/")
	fmt.Println("def equalsFields : List String := " + lstr(eq))
	fmt.Println("/-- (struct, field, type) -/")
	fmt.Println("def fields : List (String × String × String) := [\n  " + strings.Join(fields, ",\n  ") + "\n]")
	fmt.Println("/-- \"ok\" = the helper has the body the model transcribes (Get, non-empty, strconv.ParseBool / Atoi, error or assignment) -/")
	fmt.Printf("def helpers : List (String × String) := [(\"parseBoolParam\", %s), (\"parseIntParam\", %s)]\n",
		lq(helper("parseBoolParam", boolBody)), lq(helper("parseIntParam", intBody)))
	fmt.Println("end CV.C08.Gen.Add")
}
