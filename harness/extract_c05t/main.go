// extract_c05t regenerates lean/ClusterVerif/Gen/C05T.lean: DECISION TABLES of the operation tracker read from the Go syntax
// tree (go/ast), not source text. Per function: every path through the body as (literals that select it, actions executed on it).
// `&&`, `||`, `!`, `!=` are expanded in short-circuit order, a tag switch gives one literal per case expression (Go rejects
// duplicate constant cases, so one literal selects the clause), a select on a Done channel gives the literal ctxDone.
// Expressions and statements are mapped to the constructors of CV.C05.T.Atom / Act through the small per-function vocabularies
// below; anything else becomes `.unknown` (fail-closed: the theorems over the table fail). Logging, tracing and mutex calls are dropped.
// Round 8c: also the tracker's entry points `enqueue` (nil = ongoing / channel by type / non-blocking send or ErrFullQueue + SetError + Cancel),
// `Track` (meta / remote-synchronous / local), `Untrack`, `Recover`; a select of one communication + default is read as the literal
// "communication ready" (a send is also an action).
// Standard output is the Lean file.
package main

import (
	"fmt"
	"go/ast"
	"go/token"
	"strings"

	"verifharness/skel"
)

const prog = "extract_c05t"

type lit struct {
	atom string // source form "a == b" or an expression
	val  bool
}

type path struct {
	lits  []string
	acts  []string
	calls int
	done  bool
	errAt string // round 8c: what `err == nil` means here (set by the last statement that assigned err; "" = the vocabulary's atom)
}

type vocab struct {
	atoms  map[string]string
	acts   map[string]string
	ignore map[string]bool
	prefix [][2]string
}

var phases = map[string]string{"PhaseError": ".error", "PhaseQueued": ".queued", "PhaseInProgress": ".inProgress", "PhaseDone": ".done"}
var types = map[string]string{"OperationUnknown": ".unknown", "OperationPin": ".pin", "OperationUnpin": ".unpin", "OperationRemote": ".remote", "OperationShard": ".shard"}
var statuses = map[string]string{
	"api.TrackerStatusPinned": ".pinned", "api.TrackerStatusPinning": ".pinning", "api.TrackerStatusPinQueued": ".pinQueued", "api.TrackerStatusPinError": ".pinError",
	"api.TrackerStatusUnpinned": ".unpinned", "api.TrackerStatusUnpinning": ".unpinning", "api.TrackerStatusUnpinQueued": ".unpinQueued", "api.TrackerStatusUnpinError": ".unpinError",
	"api.TrackerStatusRemote": ".remote", "api.TrackerStatusSharded": ".sharded", "api.TrackerStatusUnexpectedlyUnpinned": ".unexpectedlyUnpinned",
	"api.TrackerStatusClusterError": ".clusterError", "api.TrackerStatusUndefined": ".undefined",
}

var commonIgnore = []string{
	"opt.mu.Lock()", "defer opt.mu.Unlock()", "opt.mu.RLock()", "defer opt.mu.RUnlock()", "op.mu.Lock()", "op.mu.Unlock()", "op.mu.RLock()", "op.mu.RUnlock()",
	"span.End()", "_ = ctx", "ctx = trace.NewContext(opt.ctx, trace.FromContext(ctx))", "var err error",
}

func mk(atoms, acts map[string]string, ignore ...string) *vocab {
	v := &vocab{atoms: atoms, acts: acts, ignore: map[string]bool{}}
	for _, s := range commonIgnore {
		v.ignore[s] = true
	}
	for _, s := range ignore {
		v.ignore[s] = true
	}
	if v.atoms == nil {
		v.atoms = map[string]string{}
	}
	for k, c := range phases {
		v.atoms["op.Phase() == "+k] = ".phaseIs " + c
		v.atoms["op.Phase() == optracker."+k] = ".phaseIs " + c
		v.atoms["ph == "+k] = ".phIs " + c
		v.acts["op.SetPhase(optracker."+k+")"] = ".setPhase " + c
		v.acts["op.SetPhase("+k+")"] = ".setPhase " + c
		v.acts["op.phase = "+k] = ".setPhase " + c
	}
	for k, c := range types {
		v.atoms["typ == "+k] = ".typIs " + c
		v.atoms["typ == optracker."+k] = ".typIs " + c
	}
	if _, ok := v.acts["return"]; !ok {
		v.acts["return"] = ".retVoid"
	}
	for k, c := range statuses {
		v.atoms["pi.Status == "+k] = ".statusIs " + c
		v.acts["return "+k] = ".retStatus " + c
	}
	return v
}

// atomOf maps a source-level test to a Lean atom; symmetric forms of == are tried both ways.
func (v *vocab) atomOf(s string, p *path) string {
	if s == "op.Cancelled()" {
		return fmt.Sprintf(".cancelled %d", p.calls)
	}
	if (s == "err == nil" || s == "nil == err") && p.errAt != "" {
		return p.errAt
	}
	if a, ok := v.atoms[s]; ok {
		return a
	}
	if i := strings.Index(s, " == "); i > 0 {
		if a, ok := v.atoms[s[i+4:]+" == "+s[:i]]; ok {
			return a
		}
	}
	return ".unknown /- " + strings.ReplaceAll(s, "-/", "- /") + " -/"
}

// expand: the conjunctions of literals under which e evaluates to want, in short-circuit order.
func expand(e ast.Expr, want bool) [][]lit {
	switch x := e.(type) {
	case *ast.ParenExpr:
		return expand(x.X, want)
	case *ast.UnaryExpr:
		if x.Op == token.NOT {
			return expand(x.X, !want)
		}
	case *ast.BinaryExpr:
		switch x.Op {
		case token.LAND, token.LOR:
			// a && b true: a true and b true.  false: a false | a true and b false.   || is the dual.
			and := x.Op == token.LAND
			if and == want {
				var out [][]lit
				for _, l := range expand(x.X, want) {
					for _, r := range expand(x.Y, want) {
						out = append(out, append(append([]lit{}, l...), r...))
					}
				}
				return out
			}
			out := expand(x.X, want)
			for _, l := range expand(x.X, !want) {
				for _, r := range expand(x.Y, want) {
					out = append(out, append(append([]lit{}, l...), r...))
				}
			}
			return out
		case token.NEQ:
			return [][]lit{{{skel.Src(x.X) + " == " + skel.Src(x.Y), !want}}}
		}
	}
	return [][]lit{{{skel.Src(e), want}}}
}

func clone(p path) path {
	return path{lits: append([]string{}, p.lits...), acts: append([]string{}, p.acts...), calls: p.calls, done: p.done, errAt: p.errAt}
}

func (v *vocab) withLits(p path, ls []lit) path {
	q := clone(p)
	for _, l := range ls {
		q.lits = append(q.lits, fmt.Sprintf("(%s, %v)", v.atomOf(l.atom, &q), l.val))
	}
	return q
}

func (v *vocab) act(p path, s string) path {
	if v.ignore[s] {
		return p
	}
	q := clone(p)
	a, ok := v.acts[s]
	if !ok {
		for _, pf := range v.prefix {
			if strings.HasPrefix(s, pf[0]) {
				a, ok = pf[1], true
			}
		}
	}
	if !ok {
		a = ".unknown /- " + strings.ReplaceAll(s, "-/", "- /") + " -/"
	}
	// "acts@atom": from here on `err == nil` on this path is that atom (the statement assigned err)
	if i := strings.Index(a, "@"); i >= 0 {
		q.errAt = a[i+1:]
		a = a[:i]
	}
	for _, one := range strings.Split(a, ";") {
		one = strings.TrimSpace(one)
		if one == "" {
			continue
		}
		q.acts = append(q.acts, one)
		if one == ".call" {
			q.calls++
		}
	}
	return q
}

func (v *vocab) stmts(l []ast.Stmt, in []path) []path {
	for _, s := range l {
		in = v.stmt(s, in)
	}
	return in
}

func (v *vocab) stmt(s ast.Stmt, in []path) []path {
	var out []path
	for _, p := range in {
		if p.done {
			out = append(out, p)
			continue
		}
		out = append(out, v.one(s, p)...)
	}
	return out
}

func (v *vocab) one(s ast.Stmt, p path) []path {
	switch x := s.(type) {
	case *ast.BlockStmt:
		return v.stmts(x.List, []path{p})
	case *ast.ReturnStmt:
		q := v.act(p, skel.Src(x))
		q.done = true
		return []path{q}
	case *ast.IfStmt:
		ps := []path{p}
		if x.Init != nil {
			ps = v.stmt(x.Init, ps)
		}
		var out []path
		for _, q := range ps {
			for _, ls := range expand(x.Cond, true) {
				out = append(out, v.stmts(x.Body.List, []path{v.withLits(q, ls)})...)
			}
			for _, ls := range expand(x.Cond, false) {
				r := v.withLits(q, ls)
				if x.Else != nil {
					out = append(out, v.one(x.Else, r)...)
				} else {
					out = append(out, r)
				}
			}
		}
		return out
	case *ast.BranchStmt:
		if x.Tok == token.CONTINUE && x.Label == nil {
			q := v.act(p, "continue")
			q.done = true
			return []path{q}
		}
	case *ast.SwitchStmt:
		if x.Tag == nil && x.Init == nil {
			// tagless switch = if / else-if chain: clause k under the negation of the earlier conditions
			ps := []path{p}
			var out []path
			var def *ast.CaseClause
			for _, c := range x.Body.List {
				cc := c.(*ast.CaseClause)
				if cc.List == nil {
					def = cc
					continue
				}
				if len(cc.List) != 1 {
					return []path{v.act(p, "tagless switch case with several expressions")}
				}
				var next []path
				for _, q := range ps {
					for _, ls := range expand(cc.List[0], true) {
						out = append(out, v.stmts(cc.Body, []path{v.withLits(q, ls)})...)
					}
					for _, ls := range expand(cc.List[0], false) {
						next = append(next, v.withLits(q, ls))
					}
				}
				ps = next
			}
			for _, q := range ps {
				if def != nil {
					out = append(out, v.stmts(def.Body, []path{q})...)
				} else {
					out = append(out, q)
				}
			}
			return out
		}
		if x.Tag == nil || x.Init != nil {
			break
		}
		tag := skel.Src(x.Tag)
		var out []path
		var all []lit
		var def *ast.CaseClause
		for _, c := range x.Body.List {
			cc := c.(*ast.CaseClause)
			if cc.List == nil {
				def = cc
				continue
			}
			for _, e := range cc.List {
				a := tag + " == " + skel.Src(e)
				all = append(all, lit{a, false})
				out = append(out, v.stmts(cc.Body, []path{v.withLits(p, []lit{{a, true}})})...)
			}
		}
		r := v.withLits(p, all)
		if def != nil {
			out = append(out, v.stmts(def.Body, []path{r})...)
		} else {
			out = append(out, r)
		}
		return out
	case *ast.RangeStmt:
		// a loop is ONE action of the enclosing table; its body is a table of its own (tableBody)
		return []path{v.act(p, "range "+skel.Src(x.X))}
	case *ast.SelectStmt:
		// exactly one communication + default: the literal is "the communication is ready"; a send is also an action.
		// (round 8c: the non-blocking send of `enqueue`; before, only `<-op.ctx.Done()` was read.)
		var comm, def *ast.CommClause
		for _, c := range x.Body.List {
			cc := c.(*ast.CommClause)
			if cc.Comm == nil {
				def = cc
			} else if comm == nil {
				comm = cc
			} else {
				return []path{v.act(p, "select with several communications")}
			}
		}
		if comm == nil || def == nil {
			return []path{v.act(p, "select without default")}
		}
		a := skel.Src(comm.Comm)
		yes := v.withLits(p, []lit{{a, true}})
		if _, send := comm.Comm.(*ast.SendStmt); send {
			yes = v.act(yes, "select "+a)
		}
		out := v.stmts(comm.Body, []path{yes})
		out = append(out, v.stmts(def.Body, []path{v.withLits(p, []lit{{a, false}})})...)
		return out
	}
	return []path{v.act(p, stmtKey(s))}
}

// stmtKey: the source of a statement; an RPC call keeps its service and method names (skel.Src replaces string literals)
func stmtKey(s ast.Stmt) string {
	if as, ok := s.(*ast.AssignStmt); ok && len(as.Rhs) == 1 {
		if ce, ok := as.Rhs[0].(*ast.CallExpr); ok && skel.Src(ce.Fun) == "spt.rpcClient.CallContext" && len(ce.Args) == 6 {
			var parts []string
			for _, a := range ce.Args[1:] {
				if bl, ok := a.(*ast.BasicLit); ok {
					parts = append(parts, bl.Value)
				} else {
					parts = append(parts, skel.Src(a))
				}
			}
			return skel.Src(as.Lhs[0]) + " " + as.Tok.String() + " rpc " + strings.Join(parts, " ")
		}
	}
	return skel.Src(s)
}

func table(b *strings.Builder, name, doc, file, recv, fn string, v *vocab) {
	f := skel.Parse(prog, file)
	fd := skel.Func(prog, f, recv, fn)
	skel.Lines(fd) // strips logging / tracing in place
	ps := v.stmts(fd.Body.List, []path{{}})
	fmt.Fprintf(b, "/-- %s -/\ndef %s : Table := [\n", doc, name)
	for i, p := range ps {
		if !p.done {
			p.acts = append(p.acts, ".retVoid")
		}
		sep := ","
		if i == len(ps)-1 {
			sep = ""
		}
		fmt.Fprintf(b, "  { lits := [%s], acts := [%s] }%s\n", strings.Join(p.lits, ", "), strings.Join(p.acts, ", "), sep)
	}
	b.WriteString("]\n\n")
}

// tableBody: the paths through the body of the first `for … range` of the function (one iteration; a path that does not return goes on
// with the next element: `.retVoid`).
func tableBody(b *strings.Builder, name, doc, file, recv, fn string, v *vocab) {
	tableBodyN(b, name, doc, file, recv, fn, v, 0)
}

// tableBodyN: the body of the idx-th top-level range loop
func tableBodyN(b *strings.Builder, name, doc, file, recv, fn string, v *vocab, idx int) {
	f := skel.Parse(prog, file)
	fd := skel.Func(prog, f, recv, fn)
	skel.Lines(fd)
	var body []ast.Stmt
	for _, s := range fd.Body.List {
		if rs, ok := s.(*ast.RangeStmt); ok {
			if idx == 0 && body == nil {
				body = rs.Body.List
			}
			idx--
		}
	}
	ps := []path{{acts: []string{".unknown /- no range loop -/"}, done: true}}
	if body != nil {
		ps = v.stmts(body, []path{{}})
	}
	fmt.Fprintf(b, "/-- %s -/\ndef %s : Table := [\n", doc, name)
	for i, p := range ps {
		if !p.done {
			p.acts = append(p.acts, ".retVoid")
		}
		sep := ","
		if i == len(ps)-1 {
			sep = ""
		}
		fmt.Fprintf(b, "  { lits := [%s], acts := [%s] }%s\n", strings.Join(p.lits, ", "), strings.Join(p.acts, ", "), sep)
	}
	b.WriteString("]\n\n")
}

// consts prints the names of a typed iota block in order.
func consts(b *strings.Builder, name, file, typ string) {
	f := skel.Parse(prog, file)
	var names []string
	for _, d := range f.Decls {
		gd, ok := d.(*ast.GenDecl)
		if !ok || gd.Tok != token.CONST || len(gd.Specs) == 0 {
			continue
		}
		first := gd.Specs[0].(*ast.ValueSpec)
		if first.Type == nil || skel.Src(first.Type) != typ || len(first.Values) != 1 || skel.Src(first.Values[0]) != "iota" {
			continue
		}
		for _, sp := range gd.Specs {
			vs := sp.(*ast.ValueSpec)
			for _, n := range vs.Names {
				names = append(names, fmt.Sprintf("%q", n.Name))
			}
			if vs != first && (vs.Type != nil || vs.Values != nil) {
				names = append(names, `"?explicit"`)
			}
		}
	}
	fmt.Fprintf(b, "def %s : List String := [%s]\n\n", name, strings.Join(names, ", "))
}

func main() {
	var b strings.Builder
	b.WriteString("/- GENERATED by harness/extract_c05t (go/ast) from pintracker/optracker/*.go and pintracker/stateless/stateless.go; do not edit. -/\n")
	b.WriteString("import ClusterVerif.Model.C05T\nnamespace CV.C05.Gen.Sem\nopen CV.C05 CV.C05.T\n\n")
	const ot = "pintracker/optracker/operationtracker.go"
	const op = "pintracker/optracker/operation.go"
	const st = "pintracker/stateless/stateless.go"

	table(&b, "trackNew", "OperationTracker.TrackNewOperation", ot, "*OperationTracker", "TrackNewOperation", mk(
		map[string]string{"ok": ".found", "op.Type() == typ": ".typeEq"},
		map[string]string{
			"op, ok := opt.operations[pin.Cid]": ".lookup", "return nil": ".retNil", "op.Cancel()": ".cancelOld",
			"op2 := NewOperation(ctx, pin, typ, ph)": ".newOp", "opt.operations[pin.Cid] = op2": ".store", "return op2": ".retNew",
		}))
	table(&b, "clean", "OperationTracker.Clean", ot, "*OperationTracker", "Clean", mk(
		map[string]string{"ok": ".found", "op == op2": ".samePtr"},
		map[string]string{"op2, ok := opt.operations[op.Cid()]": ".lookup", "delete(opt.operations, op.Cid())": ".delete"}))
	table(&b, "applyPinF", "applyPinF (stateless.go): the worker's handling of one received operation", st, "", "applyPinF", mk(
		map[string]string{"err == nil": ".errNil"},
		map[string]string{"err := pinF(op)": ".call", "op.SetError(err)": ".setError", "op.Cancel()": ".cancel", "return true": ".retBool true", "return false": ".retBool false"}))
	table(&b, "trackerStatus", "trackerStatus (operation.go)", op, "", "trackerStatus", mk(nil, map[string]string{}))
	table(&b, "setPhase", "Operation.SetPhase", op, "*Operation", "SetPhase", mk(nil,
		map[string]string{"op.phase = ph": ".setPhaseArg", "op.ts = time.Now()": ".stamp"}))
	table(&b, "setError", "Operation.SetError", op, "*Operation", "SetError", mk(nil,
		map[string]string{"op.error = err.Error()": ".setErrMsg", "op.ts = time.Now()": ".stamp"}))
	table(&b, "cancel", "Operation.Cancel", op, "*Operation", "Cancel", mk(nil, map[string]string{"op.cancel()": ".cancelCtx"}))
	table(&b, "cancelled", "Operation.Cancelled", op, "*Operation", "Cancelled", mk(
		map[string]string{"<-op.ctx.Done()": ".ctxDone"},
		map[string]string{"return true": ".retBool true", "return false": ".retBool false"}))
	table(&b, "recoverWith", "Tracker.recoverWithPinInfo", st, "*Tracker", "recoverWithPinInfo", mk(
		map[string]string{"stErr == nil": ".stateOk", "getErr == nil": ".getOk", "err == nil": ".errNil"},
		map[string]string{
			"pin := api.PinCid(pi.Cid)": ".pinDefault", "st, stErr := spt.getState(ctx)": "", "statePin, getErr := st.Get(ctx, pi.Cid)": "",
			"pin = statePin": ".pinRecorded", "err = spt.enqueue(ctx, pin, optracker.OperationPin)": ".enqueuePin",
			"err = spt.enqueue(ctx, api.PinCid(pi.Cid), optracker.OperationUnpin)": ".enqueueUnpin",
			"return spt.Status(ctx, pi.Cid), err": ".retStatusErr", "return spt.Status(ctx, pi.Cid), nil": ".retNil",
		}))
	// round 8c: the entry points of the tracker
	table(&b, "enqueue", "Tracker.enqueue", st, "*Tracker", "enqueue", mk(
		map[string]string{"op == nil": ".opNil", "ch <- op": ".sendOk"},
		map[string]string{
			"op := spt.optracker.TrackNewOperation(ctx, c, typ, optracker.PhaseQueued)": ".trackNewQ", "return nil": ".retNil",
			"var ch chan *optracker.Operation": "", "ch = spt.pinCh": ".chPin", "ch = spt.unpinCh": ".chUnpin", "select ch <- op": ".send",
			"err := ErrFullQueue": ".errFull", "op.SetError(err)": ".setError", "op.Cancel()": ".cancel", "return err": ".retErr",
		}))
	table(&b, "track", "Tracker.Track", st, "*Tracker", "Track", mk(
		map[string]string{"c.Type == api.MetaType": ".isMeta", "c.IsRemotePin(spt.peerID)": ".isRemote", "op == nil": ".opNil", "err == nil": ".errNil"},
		map[string]string{
			"op := spt.optracker.TrackNewOperation(ctx, c, optracker.OperationRemote, optracker.PhaseInProgress)": ".trackNewRemote",
			"return nil": ".retNil", "err := spt.unpin(op)": ".call", "op.Cancel()": ".cancel", "op.SetError(err)": ".setError",
			"spt.optracker.Clean(ctx, op)": ".clean", "return spt.enqueue(ctx, c, optracker.OperationPin)": ".retEnqueuePin",
		}))
	table(&b, "untrack", "Tracker.Untrack", st, "*Tracker", "Untrack", mk(nil,
		map[string]string{"return spt.enqueue(ctx, api.PinCid(c), optracker.OperationUnpin)": ".retEnqueueUnpinCid"}))
	table(&b, "recover", "Tracker.Recover", st, "*Tracker", "Recover", mk(
		map[string]string{"ok": ".found"},
		map[string]string{
			"pi, ok := spt.optracker.GetExists(ctx, c)": ".getExists", "return spt.recoverWithPinInfo(ctx, pi)": ".retRecOp",
			"return spt.recoverWithPinInfo(ctx, spt.Status(ctx, c))": ".retRecStatus",
		}))
	stv := mk(
		map[string]string{"ok": ".found", "err == state.ErrNotFound": ".notFound", "gpin.Type == api.MetaType": ".isMeta",
			"gpin.IsRemotePin(spt.peerID)": ".isRemote", "ipfsStatus == api.TrackerStatusUnpinned": ".ipfsUnpinned"},
		map[string]string{
			"oppi, ok := spt.optracker.GetExists(ctx, c)": ".getExists", "return oppi": ".retOp", "var gpin *api.Pin": "",
			"st, err := spt.getState(ctx)": "@.stateOk", "addError(pinInfo, err)": ".addError", "return pinInfo": ".retInfo",
			"gpin, err = st.Get(ctx, c)": "@.getOk", "pinInfo.Name = gpin.Name": "", "var ips api.IPFSPinStatus": "",
			`err = rpc "" "IPFSConnector" "PinLsCid" gpin &ips`: ".pinLsCid@.lsOk", "ipfsStatus := ips.ToTrackerStatus()": "",
			"pinInfo.Error = errUnexpectedlyUnpinned.Error()": "", "pinInfo.Status = ipfsStatus": ".setIpfs",
		})
	stv.prefix = [][2]string{{"pinInfo := &api.PinInfo{ Cid: c, Peer: spt.peerID,", ""}}
	for k, c := range statuses {
		stv.acts["pinInfo.Status = "+k] = ".setStatus " + c
	}
	table(&b, "status", "Tracker.Status", st, "*Tracker", "Status", stv)
	aev := mk(nil, map[string]string{"pinInfo.Error = err.Error()": ""})
	for k, c := range statuses {
		aev.acts["pinInfo.Status = "+k] = ".setStatus " + c
	}
	table(&b, "addError", "addError (stateless.go)", st, "", "addError", aev)
	rav := func() *vocab {
		return mk(map[string]string{"err == nil": ".errNil"}, map[string]string{
			"statuses, err := spt.statusAll(ctx, api.TrackerStatusUndefined)": ".listAll", "return nil, err": ".retErr",
			"resp := make([]*api.PinInfo, 0)": "", "range statuses": ".forEach", "return resp, nil": ".retNil",
			"r, err := spt.recoverWithPinInfo(ctx, st)": ".recEntry", "return resp, err": ".retErr", "resp = append(resp, r)": ".appendResp",
		})
	}
	table(&b, "recoverAll", "Tracker.RecoverAll (the loop is one action)", st, "*Tracker", "RecoverAll", rav())
	tableBody(&b, "recoverAllBody", "Tracker.RecoverAll: one iteration of its loop", st, "*Tracker", "RecoverAll", rav())
	lsv := mk(
		map[string]string{"p.Type == api.MetaType": ".isMeta", "p.IsRemotePin(spt.peerID)": ".isRemote", "pinnedInIpfs": ".pinnedInIpfs", "incExtra": ".incExtra",
			"filter.Match(api.TrackerStatusSharded)": ".fMatch .sharded", "filter.Match(api.TrackerStatusRemote)": ".fMatch .remote"},
		map[string]string{
			"ipfsInfo, pinnedInIpfs := localpis[p.MaxDepth.ToPinMode()][p.Cid]": ".lookupOwnMode", "continue": ".skip",
			"pininfos[p.Cid] = &pinInfo": ".putInfo", "ipfsInfo.Name = p.Name": "", "pininfos[p.Cid] = ipfsInfo": ".putIpfs",
			"pinInfo.Error = errUnexpectedlyUnpinned.Error()": "",
		})
	lsv.prefix = [][2]string{{"pinInfo := api.PinInfo{ Cid: p.Cid, Name: p.Name, Peer: spt.peerID,", ""}}
	for k, c := range statuses {
		lsv.acts["pinInfo.Status = "+k] = ".setStatus " + c
	}
	tableBody(&b, "localBody", "Tracker.localStatus: one pin of the pinset (the listing StatusAll / RecoverAll start from)", st, "*Tracker", "localStatus", lsv)
	sav := func() *vocab {
		return mk(map[string]string{"err == nil": ".errNil", "pi.Status.Match(filter)": ".fMatchSelf"}, map[string]string{
			"pininfos, err := spt.localStatus(ctx, true, filter)": ".localAll", "return nil, err": ".retErr",
			"range spt.optracker.GetAll(ctx)": ".overlayOps", "var pis []*api.PinInfo": "", "range pininfos": ".filterLoop", "return pis, nil": ".retNil",
			"pininfos[infop.Cid] = infop": ".putOp", "pis = append(pis, pi)": ".appendResp",
		})
	}
	table(&b, "statusAll", "Tracker.statusAll (each loop is one action)", st, "*Tracker", "statusAll", sav())
	tableBodyN(&b, "statusAllOverlay", "Tracker.statusAll: the overlay of the operation table", st, "*Tracker", "statusAll", sav(), 0)
	tableBodyN(&b, "statusAllFilter", "Tracker.statusAll: the last filter", st, "*Tracker", "statusAll", sav(), 1)
	consts(&b, "phaseConsts", op, "Phase")
	consts(&b, "typeConsts", op, "OperationType")
	b.WriteString("end CV.C05.Gen.Sem\n")
	fmt.Print(b.String())
}
