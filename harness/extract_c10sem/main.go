// extract_c10sem regenerates lean/ClusterVerif/Gen/C10Sem.lean: a SEMANTIC
// reading (go/ast) of the code that decides who is a candidate for "closest
// peer" and how closeness is computed: Cluster.getTrustedPeers,
// Cluster.distances, distanceChecker.isClosest, xor and the two callers
// (alertsHandler, StateSync). Local names, logging, statement layout do not
// matter; guards, operands, operators, what is read from the receiver and which
// list reaches the checker do. Whatever is not recognised is emitted as an
// `other "<source>"` value or in an `extra` list, which the Lean side refuses
// (fail-closed). Its standard output is the Lean file.
package main

import (
	"fmt"
	"go/ast"
	"go/token"
	"sort"
	"strings"

	"verifharness/skel"
)

const prog = "extract_c10sem"

func src(n ast.Node) string { return skel.Src(n) }
func q(s string) string {
	return `"` + strings.ReplaceAll(strings.ReplaceAll(s, `\`, `\\`), `"`, `\"`) + `"`
}
func qs(l []string) string {
	o := make([]string, len(l))
	for i, s := range l {
		o[i] = q(s)
	}
	return "[" + strings.Join(o, ", ") + "]"
}
func b(x bool) string {
	if x {
		return "true"
	}
	return "false"
}

// body without logging / tracing
func stmts(fd *ast.FuncDecl) []ast.Stmt {
	var out []ast.Stmt
	for _, s := range fd.Body.List {
		t := src(s)
		if strings.HasPrefix(t, "logger.") || strings.Contains(t, "trace.StartSpan(") || t == "defer span.End()" || strings.HasPrefix(t, "ctx = trace.") {
			continue
		}
		out = append(out, s)
	}
	return out
}

func clean(l []ast.Stmt) []ast.Stmt {
	var out []ast.Stmt
	for _, s := range l {
		if !strings.HasPrefix(src(s), "logger.") {
			out = append(out, s)
		}
	}
	return out
}

func recvName(fd *ast.FuncDecl) string { return fd.Recv.List[0].Names[0].Name }
func paramName(fd *ast.FuncDecl, i int) string {
	k := 0
	for _, f := range fd.Type.Params.List {
		for _, n := range f.Names {
			if k == i {
				return n.Name
			}
			k++
		}
	}
	return ""
}

// `x, err := CALL` or `x := CALL`: name and call
func defineCall(s ast.Stmt) (string, *ast.CallExpr, bool) {
	a, ok := s.(*ast.AssignStmt)
	if !ok || a.Tok != token.DEFINE || len(a.Rhs) != 1 {
		return "", nil, false
	}
	c, ok := a.Rhs[0].(*ast.CallExpr)
	if !ok {
		return "", nil, false
	}
	id, ok := a.Lhs[0].(*ast.Ident)
	if !ok {
		return "", nil, false
	}
	return id.Name, c, true
}

// `if err != nil { …; return …, err }` / `continue`: the error arm of the call before it
func errArm(s ast.Stmt) bool {
	i, ok := s.(*ast.IfStmt)
	return ok && i.Init == nil && src(i.Cond) == "err != nil" && i.Else == nil
}

func split(e ast.Expr, op token.Token) []ast.Expr {
	if p, ok := e.(*ast.ParenExpr); ok {
		return split(p.X, op)
	}
	if be, ok := e.(*ast.BinaryExpr); ok && be.Op == op {
		return append(split(be.X, op), split(be.Y, op)...)
	}
	return []ast.Expr{e}
}

// `out = append(out, v)`
func isAppend(s ast.Stmt, v string) (string, bool) {
	a, ok := s.(*ast.AssignStmt)
	if !ok || a.Tok != token.ASSIGN || len(a.Lhs) != 1 || len(a.Rhs) != 1 {
		return "", false
	}
	o := src(a.Lhs[0])
	return o, src(a.Rhs[0]) == "append("+o+", "+v+")"
}

func emptySlice(c *ast.CallExpr) bool {
	return src(c.Fun) == "make" && len(c.Args) >= 2 && strings.HasPrefix(src(c.Args[0]), "[]") && src(c.Args[1]) == "0"
}

func rangeVar(r *ast.RangeStmt) string {
	if r.Value != nil {
		return src(r.Value)
	}
	return ""
}

// ---------------------------------------------------------------- getTrustedPeers
func getTrustedPeers(fd *ast.FuncDecl) string {
	c, excl := recvName(fd), paramName(fd, 1)
	srcOf := map[string]string{}
	out, outEmpty := "", false
	var extra, atoms []string
	source, appends, returns, loops := "Src.other \"\"", false, false, 0
	for _, s := range stmts(fd) {
		if n, call, ok := defineCall(s); ok {
			if src(call) == c+".consensus.Peers(ctx)" {
				srcOf[n] = ".consensusPeers"
				continue
			}
			if emptySlice(call) {
				out, outEmpty = n, true
				continue
			}
		}
		if errArm(s) {
			continue
		}
		if r, ok := s.(*ast.RangeStmt); ok && loops == 0 {
			loops++
			v := rangeVar(r)
			if k, ok := srcOf[src(r.X)]; ok {
				source = k
			} else {
				source = ".other " + q(src(r.X))
			}
			body := clean(r.Body.List)
			if len(body) == 2 {
				if i, ok := body[0].(*ast.IfStmt); ok && i.Init == nil && i.Else == nil && len(i.Body.List) == 1 && src(i.Body.List[0]) == "continue" {
					for _, a := range split(i.Cond, token.LOR) {
						switch t := src(a); t {
						case v + " == " + c + ".id", c + ".id == " + v:
							atoms = append(atoms, ".eqSelf")
						case v + " == " + excl, excl + " == " + v:
							atoms = append(atoms, ".eqExclude")
						case "!" + c + ".consensus.IsTrustedPeer(ctx, " + v + ")":
							atoms = append(atoms, ".notTrusted")
						default:
							if strings.Contains(t, c+".monitor") {
								atoms = append(atoms, ".notSeen")
							} else {
								atoms = append(atoms, ".other "+q(t))
							}
						}
					}
					if o, ok := isAppend(body[1], v); ok && o == out {
						appends = true
					}
					continue
				}
			}
			extra = append(extra, src(s))
			continue
		}
		if r, ok := s.(*ast.ReturnStmt); ok && len(r.Results) == 2 && src(r.Results[1]) == "nil" {
			returns = outEmpty && src(r.Results[0]) == out
			continue
		}
		extra = append(extra, src(s))
	}
	return fmt.Sprintf("/-- Cluster.getTrustedPeers -/\ndef getTrustedPeers : Filter :=\n  { src := %s, skip := [%s], appendsLoopVar := %s, returnsOut := %s, extra := %s }\n\n",
		source, strings.Join(atoms, ", "), b(appends), b(returns), qs(extra))
}

// ---------------------------------------------------------------- distances
func arg(e ast.Expr, c, excl string) string {
	switch t := src(e); {
	case excl != "" && t == excl:
		return ".param"
	case t == c+".id":
		return ".selfId"
	case t == "alrt.Peer":
		return ".alertPeer"
	case t == "S": // skel.Src reduces string literals; "" is the only literal passed here
		if l, ok := e.(*ast.BasicLit); ok && l.Value == `""` {
			return ".noPeer"
		}
		return ".other " + q(t)
	default:
		return ".other " + q(t)
	}
}

func reads(fd *ast.FuncDecl) []string {
	c := recvName(fd)
	set := map[string]bool{}
	ast.Inspect(fd.Body, func(n ast.Node) bool {
		if e, ok := n.(ast.Expr); ok {
			if _, ok := e.(*ast.SelectorExpr); ok {
				if t := src(e); strings.HasPrefix(t, c+".") && !strings.ContainsAny(t, "(") {
					set[t] = true
					return false
				}
			}
		}
		if s, ok := n.(ast.Stmt); ok && strings.HasPrefix(src(s), "logger.") {
			return false
		}
		return true
	})
	var l []string
	for k := range set {
		l = append(l, k)
	}
	sort.Strings(l)
	return l
}

func distances(fd *ast.FuncDecl) string {
	c, excl := recvName(fd), paramName(fd, 1)
	bind := map[string]string{}
	empty := map[string]bool{}
	var extra []string
	local, others, fresh := ".other \"\"", ".other \"\"", false
	for _, s := range stmts(fd) {
		if n, call, ok := defineCall(s); ok {
			if src(call.Fun) == c+".getTrustedPeers" && len(call.Args) == 2 {
				bind[n] = "(.trustedOf " + arg(call.Args[1], c, excl) + ")"
				continue
			}
			if emptySlice(call) {
				empty[n] = true
				continue
			}
		}
		if errArm(s) {
			continue
		}
		// for _, m := range <c.something(…)> { if containsPeer(BASE, m.Peer) { OUT = append(OUT, m.Peer) } }
		if r, ok := s.(*ast.RangeStmt); ok {
			v := rangeVar(r)
			body := clean(r.Body.List)
			if call, ok := r.X.(*ast.CallExpr); ok && strings.HasPrefix(src(call), c+".") && len(body) == 1 {
				if i, ok := body[0].(*ast.IfStmt); ok && i.Else == nil && len(i.Body.List) == 1 {
					if t, ok := i.Cond.(*ast.CallExpr); ok && src(t.Fun) == "containsPeer" && len(t.Args) == 2 && src(t.Args[1]) == v+".Peer" {
						if o, ok := isAppend(i.Body.List[0], v+".Peer"); ok && empty[o] && bind[src(t.Args[0])] != "" {
							bind[o] = "(.keepSeenBy " + q(src(call)) + " " + bind[src(t.Args[0])] + ")"
							continue
						}
					}
				}
			}
		}
		if r, ok := s.(*ast.ReturnStmt); ok && len(r.Results) == 2 && src(r.Results[1]) == "nil" {
			if u, ok := r.Results[0].(*ast.UnaryExpr); ok && u.Op == token.AND {
				if lit, ok := u.X.(*ast.CompositeLit); ok && src(lit.Type) == "distanceChecker" {
					for _, el := range lit.Elts {
						kv, ok := el.(*ast.KeyValueExpr)
						if !ok {
							extra = append(extra, src(el))
							continue
						}
						switch src(kv.Key) {
						case "local":
							local = arg(kv.Value, c, excl)
						case "otherPeers":
							if k, ok := bind[src(kv.Value)]; ok {
								others = k
							} else {
								others = "(.other " + q(src(kv.Value)) + ")"
							}
						case "cache":
							mk, ok := kv.Value.(*ast.CallExpr)
							fresh = ok && src(mk.Fun) == "make" && len(mk.Args) >= 1 && src(mk.Args[0]) == "map[peer.ID]distance"
						default:
							extra = append(extra, src(el))
						}
					}
					continue
				}
			}
		}
		extra = append(extra, src(s))
	}
	return fmt.Sprintf("/-- Cluster.distances -/\ndef distances : Ctor :=\n  { localId := %s, others := %s, cacheFresh := %s,\n    reads := %s, extra := %s }\n\n",
		local, others, b(fresh), qs(reads(fd)), qs(extra))
}

// ---------------------------------------------------------------- isClosest
func isClosest(fd *ast.FuncDecl) string {
	dc := recvName(fd)
	kind := map[string]string{}
	opnd := func(e ast.Expr) string {
		if k, ok := kind[src(e)]; ok {
			return k
		}
		return "(.other " + q(src(e)) + ")"
	}
	whole := func(e ast.Expr) string {
		if s, ok := e.(*ast.SliceExpr); ok && s.Low == nil && s.High == nil && s.Max == nil {
			return opnd(s.X)
		}
		return "(.other " + q(src(e)) + ")"
	}
	pair := func(c *ast.CallExpr) string { return "(" + opnd(c.Args[0]) + ", " + opnd(c.Args[1]) + ")" }
	ciFrom, locFrom, rng, peerFrom := "", "", "", ""
	my, dist, cmp, op, onHit, otherwise := `(.other "", .other "")`, `(.other "", .other "")`, `(.other "", .other "")`, `.other ""`, "true", "false"
	var extra []string
	xorDef := func(s ast.Stmt, name string) (string, bool) {
		n, call, ok := defineCall(s)
		if ok && src(call.Fun) == "xor" && len(call.Args) == 2 {
			p := pair(call)
			kind[n] = name
			return p, true
		}
		return "", false
	}
	for _, s := range stmts(fd) {
		if n, call, ok := defineCall(s); ok && len(call.Args) == 1 {
			if src(call.Fun) == "convertKey" && ciFrom == "" {
				ciFrom = src(call.Args[0])
				kind[n] = ".ci"
				continue
			}
			if src(call.Fun) == dc+".convertPeerID" && locFrom == "" {
				locFrom = src(call.Args[0])
				kind[n] = ".loc"
				continue
			}
		}
		if p, ok := xorDef(s, ".my"); ok {
			my = p
			continue
		}
		if r, ok := s.(*ast.RangeStmt); ok && rng == "" {
			rng = src(r.X)
			v := rangeVar(r)
			for _, t := range clean(r.Body.List) {
				if n, call, ok := defineCall(t); ok && len(call.Args) == 1 && src(call.Fun) == dc+".convertPeerID" && peerFrom == "" {
					peerFrom = src(call.Args[0])
					if peerFrom == v {
						peerFrom = "<loop var>"
					}
					kind[n] = ".peer"
					continue
				}
				if p, ok := xorDef(t, ".dist"); ok {
					dist = p
					continue
				}
				if i, ok := t.(*ast.IfStmt); ok && i.Init == nil && i.Else == nil && len(i.Body.List) == 1 {
					be, ok1 := i.Cond.(*ast.BinaryExpr)
					ret, ok2 := i.Body.List[0].(*ast.ReturnStmt)
					if ok1 && ok2 && src(be.Y) == "0" && len(ret.Results) == 1 {
						if call, ok := be.X.(*ast.CallExpr); ok && src(call.Fun) == "bytes.Compare" && len(call.Args) == 2 {
							cmp = "(" + whole(call.Args[0]) + ", " + whole(call.Args[1]) + ")"
							switch be.Op {
							case token.GTR:
								op = ".gt"
							case token.GEQ:
								op = ".ge"
							case token.LSS:
								op = ".lt"
							case token.LEQ:
								op = ".le"
							case token.EQL:
								op = ".eq"
							case token.NEQ:
								op = ".ne"
							default:
								op = ".other " + q(be.Op.String())
							}
							onHit = src(ret.Results[0])
							continue
						}
					}
				}
				extra = append(extra, src(t))
			}
			continue
		}
		if r, ok := s.(*ast.ReturnStmt); ok && len(r.Results) == 1 {
			otherwise = src(r.Results[0])
			continue
		}
		extra = append(extra, src(s))
	}
	if onHit != "true" && onHit != "false" {
		extra = append(extra, "return "+onHit)
		onHit = "true"
	}
	if otherwise != "true" && otherwise != "false" {
		extra = append(extra, "return "+otherwise)
		otherwise = "false"
	}
	return fmt.Sprintf("/-- distanceChecker.isClosest -/\ndef isClosest : Closest :=\n  { hashesCidKey := %s, hashesOwnId := %s, rangesOtherPeers := %s, hashesLoopPeer := %s,\n    names := %s,\n    my := %s, dist := %s, cmp := %s, op := %s, onHit := %s, otherwise := %s, extra := %s }\n\n",
		b(ciFrom == "ci.KeyString()"), b(locFrom == dc+".local"), b(rng == dc+".otherPeers"), b(peerFrom == "<loop var>"), qs([]string{ciFrom, locFrom, rng, peerFrom}), my, dist, cmp, op, onHit, otherwise, qs(extra))
}

// ---------------------------------------------------------------- callers
func site(fd *ast.FuncDecl, name, doc string) string {
	c := recvName(fd)
	builds := 0
	excl, same, call := `.other ""`, false, ""
	var cond []string
	ast.Inspect(fd.Body, func(n ast.Node) bool {
		if ce, ok := n.(*ast.CallExpr); ok && src(ce.Fun) == c+".distances" {
			builds++
		}
		var list []ast.Stmt
		switch x := n.(type) {
		case *ast.BlockStmt:
			list = x.List
		case *ast.CaseClause:
			list = x.Body
		case *ast.CommClause:
			list = x.Body
		default:
			return true
		}
		dv := ""
		for _, s := range list {
			if nme, ce, ok := defineCall(s); ok && src(ce.Fun) == c+".distances" && len(ce.Args) == 2 {
				dv = nme
				excl = arg(ce.Args[1], c, "")
				continue
			}
			r, ok := s.(*ast.RangeStmt)
			if !ok || dv == "" {
				continue
			}
			v := rangeVar(r)
			body := clean(r.Body.List)
			if len(body) != 1 {
				continue
			}
			i, ok := body[0].(*ast.IfStmt)
			if !ok || i.Else != nil || i.Init != nil {
				continue
			}
			uses := false
			for _, a := range split(i.Cond, token.LAND) {
				switch t := src(a); t {
				case "containsPeer(" + v + ".Allocations, alrt.Peer)":
					cond = append(cond, "heldBy(alrt.Peer)")
				case dv + ".isClosest(" + v + ".Cid)":
					cond = append(cond, "isClosest(pin.Cid)")
					uses = true
				case v + ".ExpiredAt(timeNow)":
					cond = append(cond, "expiredAt(timeNow)")
				default:
					cond = append(cond, "other: "+t)
				}
			}
			same = uses
			calls := 0
			for _, t := range clean(i.Body.List) {
				ast.Inspect(t, func(m ast.Node) bool {
					if ce, ok := m.(*ast.CallExpr); ok && strings.HasPrefix(src(ce.Fun), c+".") {
						calls++
						call = strings.ReplaceAll(src(ce), v+".", "pin.")
						call = strings.ReplaceAll(call, ", "+v+")", ", pin)")
						return false
					}
					return true
				})
			}
			if calls != 1 {
				call = fmt.Sprintf("other: %d calls", calls)
			}
		}
		return true
	})
	return fmt.Sprintf("/-- %s -/\ndef %s : Site :=\n  { excl := %s, builds := %d, sameBlock := %s, cond := %s,\n    call := %s }\n\n", doc, name, excl, builds, b(same), qs(cond), q(call))
}

func main() {
	cl := skel.Parse(prog, "cluster.go")
	ut := skel.Parse(prog, "util.go")
	var o strings.Builder
	o.WriteString("/- GENERATED by harness/extract_c10sem from cluster.go and util.go (go/ast, semantic form); do not edit. -/\nimport ClusterVerif.Model.C10Sem\nnamespace CV.C10.GenSem\nopen CV.C10.Sem\n\n")
	o.WriteString(getTrustedPeers(skel.Func(prog, cl, "*Cluster", "getTrustedPeers")))
	o.WriteString(distances(skel.Func(prog, cl, "*Cluster", "distances")))
	o.WriteString(isClosest(skel.Func(prog, ut, "distanceChecker", "isClosest")))
	o.WriteString(site(skel.Func(prog, cl, "*Cluster", "alertsHandler"), "alertSite", "Cluster.alertsHandler: the checker and the sweep"))
	o.WriteString(site(skel.Func(prog, cl, "*Cluster", "StateSync"), "syncSite", "Cluster.StateSync: the checker and the sweep"))
	o.WriteString(skel.LeanList("xor", "xor", skel.Lines(skel.Func(prog, ut, "", "xor"))))
	o.WriteString("end CV.C10.GenSem\n")
	fmt.Print(o.String())
}
