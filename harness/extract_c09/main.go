// extract_c09 prints lean/ClusterVerif/Gen/C09.lean: the facts of today's
// source that the C09 model and theorems take as constants.
//
//   - metrics.DefaultWindowCap, metrics.MaxAlertThreshold, metrics.AlertChannelCap:
//     the initial values of the exported variables of the linked package;
//   - accrualMetricsNum (unexported) and whether Store.AllMetrics filters on
//     Metric.Valid: read from monitor/metrics/{checker,store}.go under VERIF_REPO.
//
// A source shape that is not recognised yields the value 0 / `true`, which makes
// the `decide` theorem `generated_constants` of Props/C09 fail.
package main

import (
	"fmt"
	"go/ast"
	"go/parser"
	"go/printer"
	"go/token"
	"io/ioutil"
	"os"
	"path/filepath"
	"regexp"
	"strconv"
	"strings"

	"github.com/ipfs/ipfs-cluster/monitor/metrics"

	"verifharness/skel"
)

const prog = "extract_c09"

func repo() string {
	if r := os.Getenv("VERIF_REPO"); r != "" {
		return r
	}
	return "/repo"
}

func read(rel string) string {
	b, err := ioutil.ReadFile(filepath.Join(repo(), rel))
	if err != nil {
		return ""
	}
	return string(b)
}

// funcBody returns the text of the method `recv.name` up to the next top-level func.
func funcBody(src, header string) string {
	i := strings.Index(src, header)
	if i < 0 {
		return ""
	}
	rest := src[i:]
	j := strings.Index(rest[1:], "\nfunc ")
	if j < 0 {
		return rest
	}
	return rest[:j+1]
}

func nat(v int) int {
	if v < 0 {
		return 0
	}
	return v
}

// alertOrder reads Checker.alert (go/ast): where is the alert count raised relative to the
// non-blocking send into mc.alertCh?
//
//	"before"  `failedMetrics[...]++` is a statement of the function body that precedes the `select`
//	          whose send clause writes to alertCh (the count is raised even when the send is refused)
//	"after"   the `++` is inside the send clause, or follows a select whose default clause returns
//	"unknown" anything else (no / several selects or increments, other nesting): fail closed
func alertOrder() string {
	fset := token.NewFileSet()
	f, err := parser.ParseFile(fset, filepath.Join(repo(), "monitor/metrics/checker.go"), nil, 0)
	if err != nil {
		return "unknown"
	}
	isInc := func(st ast.Stmt) bool {
		inc, ok := st.(*ast.IncDecStmt)
		if !ok || inc.Tok != token.INC {
			return false
		}
		ix, ok := inc.X.(*ast.IndexExpr)
		if !ok {
			return false
		}
		id, ok := ix.X.(*ast.Ident)
		return ok && id.Name == "failedMetrics"
	}
	for _, d := range f.Decls {
		fd, ok := d.(*ast.FuncDecl)
		if !ok || fd.Name.Name != "alert" || fd.Recv == nil || fd.Body == nil {
			continue
		}
		total := 0
		ast.Inspect(fd.Body, func(n ast.Node) bool {
			if st, ok := n.(ast.Stmt); ok && isInc(st) {
				total++
			}
			return true
		})
		incTop, selTop, nSel := -1, -1, 0
		incInSend, defaultReturns := false, false
		for i, st := range fd.Body.List {
			if isInc(st) {
				incTop = i
			}
			sel, ok := st.(*ast.SelectStmt)
			if !ok {
				continue
			}
			nSel++
			selTop = i
			for _, c := range sel.Body.List {
				cc := c.(*ast.CommClause)
				if cc.Comm == nil {
					for _, b := range cc.Body {
						if _, ok := b.(*ast.ReturnStmt); ok {
							defaultReturns = true
						}
					}
					continue
				}
				send, ok := cc.Comm.(*ast.SendStmt)
				if !ok {
					return "unknown"
				}
				if se, ok := send.Chan.(*ast.SelectorExpr); !ok || se.Sel.Name != "alertCh" {
					return "unknown"
				}
				for _, b := range cc.Body {
					if isInc(b) {
						incInSend = true
					}
				}
			}
		}
		switch {
		case total != 1 || nSel != 1:
			return "unknown"
		case incInSend:
			return "after"
		case incTop >= 0 && incTop < selTop:
			return "before"
		case incTop > selTop && defaultReturns:
			return "after"
		}
		return "unknown"
	}
	return "unknown"
}

// ---- round 8b: tiny statement translators (go/ast -> token lists the Lean model INTERPRETS) ----
//
// Every statement of the function body is printed (go/printer), white space removed, and matched against the
// few shapes the interpreter of Model/C09Glue.lean knows; locking, tracing and declarations are skipped; any
// other statement becomes the token "?" which the interpreter refuses (fail closed).

func stmtText(fset *token.FileSet, st ast.Stmt) string {
	var b strings.Builder
	printer.Fprint(&b, fset, st)
	return strings.Join(strings.Fields(b.String()), "")
}

type rule struct {
	re  *regexp.Regexp
	tok string // "" = skip
}

func translate(file, recv, name string, rules []rule) []string {
	fset := token.NewFileSet()
	f, err := parser.ParseFile(fset, filepath.Join(repo(), file), nil, 0)
	if err != nil {
		return []string{"?"}
	}
	for _, d := range f.Decls {
		fd, ok := d.(*ast.FuncDecl)
		if !ok || fd.Name.Name != name || fd.Recv == nil || fd.Body == nil || len(fd.Recv.List) != 1 {
			continue
		}
		var rb strings.Builder
		printer.Fprint(&rb, fset, fd.Recv.List[0].Type)
		if rb.String() != recv {
			continue
		}
		var out []string
	stmts:
		for _, st := range fd.Body.List {
			t := stmtText(fset, st)
			for _, r := range rules {
				if r.re.MatchString(t) {
					if r.tok != "" {
						out = append(out, r.tok)
					}
					continue stmts
				}
			}
			out = append(out, "?")
		}
		return out
	}
	return []string{"?"}
}

func rx(s string) *regexp.Regexp { return regexp.MustCompile("^(?:" + s + ")$") }

var skipRules = []rule{
	{rx(`\w+\.\w+\.R?(Lock|Unlock)\(\)`), ""},
	{rx(`defer\w+\.\w+\.R?Unlock\(\)`), ""},
	{rx(`(ctx|_),span:=trace\.StartSpan\(.*\)`), ""},
	{rx(`deferspan\.End\(\)`), ""},
	{rx(`var\w+\*?[\w.]+`), ""},
}

func windowAdd() []string {
	return translate("monitor/metrics/window.go", "*Window", "Add", append([]rule{
		{rx(`m\.ReceivedAt=time\.Now\(\)\.UnixNano\(\)`), "stamp"},
		{rx(`mw\.window\.Value=m`), "set"},
		{rx(`mw\.window=mw\.window\.Next\(\)`), "next"},
		{rx(`mw\.window=mw\.window\.Prev\(\)`), "prev"},
	}, skipRules...))
}

func windowLatest() []string {
	return translate("monitor/metrics/window.go", "*Window", "Latest", append([]rule{
		{rx(`prevRing:=mw\.window\.Prev\(\)`), "r=prev"},
		{rx(`prevRing:=mw\.window\.Next\(\)`), "r=next"},
		{rx(`prevRing:=mw\.window`), "r=cur"},
		{rx(`last,ok=prevRing\.Value\.\(\*api\.Metric\)`), "read-r"},
		{rx(`last,ok=mw\.window\.Value\.\(\*api\.Metric\)`), "read-cur"},
		{rx(`if!ok\|\|last==nil\{returnnil,ErrNoMetrics\}`), "nil?err"},
		{rx(`returnlast,nil`), "ret"},
	}, skipRules...))
}

// windowAllOrder: how `All` puts each value the forward walk `Do` meets into the result.
func windowAllOrder() string {
	src := funcBody(read("monitor/metrics/window.go"), "func (mw *Window) All(")
	t := strings.Join(strings.Fields(src), "")
	pre := strings.Count(t, "values=append([]*api.Metric{i},values...)")
	app := strings.Count(t, "values=append(values,i)")
	do := strings.Count(t, "mw.window.Do(func(vinterface{}){")
	switch {
	case do == 1 && pre == 1 && app == 0 && strings.Count(t, "append(") == 1:
		return "prepend"
	case do == 1 && pre == 0 && app == 1 && strings.Count(t, "append(") == 1:
		return "append"
	}
	return "?"
}

func latestMetricsProg() []string {
	return translate("monitor/pubsubmon/pubsubmon.go", "*Monitor", "LatestMetrics", append([]rule{
		{rx(`latest:=mon\.metrics\.LatestValid\(name\)`), "latest=valid"},
		{rx(`ifmon\.peers==nil\{returnlatest\}`), "nil?latest"},
		{rx(`peers,err:=mon\.peers\(ctx\)`), "peers=call"},
		{rx(`peers,err:=mon\.\w+,error\(nil\)`), "peers=field"},
		{rx(`peers:=mon\.\w+`), "peers=field"},
		{rx(`iferr!=nil\{return\[\]\*api\.Metric\{\}\}`), "err?empty"},
		{rx(`iferr!=nil\{returnlatest\}`), "err?latest"},
		{rx(`returnmetrics\.PeersetFilter\(latest,peers\)`), "ret=filter"},
		{rx(`returnlatest`), "ret=latest"},
	}, skipRules...))
}

// publishProg: the guard of PublishMetric before anything is encoded or sent.
func publishProg() []string {
	return translate("monitor/pubsubmon/pubsubmon.go", "*Monitor", "PublishMetric", append([]rule{
		{rx(`ifm\.Discard\(\)\{(logger\.\w+\(.*\))?returnnil\}`), "discard?nil"},
		{rx(`ifm\.Discard\(\)\{(logger\.\w+\(.*\))?return\w+\}`), "discard?err"},
		{rx(`varbbytes\.Buffer`), ""},
		{rx(`enc:=gocodec\.NewEncoder\(&b,msgpackHandle\)`), ""},
		{rx(`err:=enc\.Encode\(m\)`), "encode"},
		{rx(`err=mon\.topic\.Publish\(ctx,b\.Bytes\(\)\)`), "publish"},
		{rx(`iferr!=nil\{logger\.Error\(err\)returnerr\}`), "err?ret"},
		{rx(`logger\.Debugf\(.*\)`), ""},
		{rx(`returnnil`), "ret"},
	}, skipRules...))
}

// rearmProg (round 8c): the body of the `for` loop of `Cluster.pushInformerMetrics` (cluster.go) - what is sent,
// which condition takes the "retry sooner" branch and the two divisors of `metric.GetTTL()`.
func rearmProg() []string {
	fset := token.NewFileSet()
	f, err := parser.ParseFile(fset, filepath.Join(repo(), "cluster.go"), nil, 0)
	if err != nil {
		return []string{"?"}
	}
	reset := regexp.MustCompile(`^timer\.Reset\(metric\.GetTTL\(\)/(\d+)\)$`)
	for _, d := range f.Decls {
		fd, ok := d.(*ast.FuncDecl)
		if !ok || fd.Name.Name != "pushInformerMetrics" || fd.Recv == nil || fd.Body == nil {
			continue
		}
		var loop *ast.ForStmt
		for _, st := range fd.Body.List {
			if l, ok := st.(*ast.ForStmt); ok {
				if loop != nil {
					return []string{"?"}
				}
				loop = l
			}
		}
		if loop == nil || loop.Cond != nil || loop.Init != nil || loop.Post != nil {
			return []string{"?"}
		}
		var out []string
		for _, st := range loop.Body.List {
			t := stmtText(fset, st)
			switch s := st.(type) {
			case *ast.SelectStmt:
				if t == "select{case<-ctx.Done():returncase<-timer.C:}" {
					continue
				}
				out = append(out, "?")
			case *ast.IfStmt:
				if s.Init != nil || s.Else != nil {
					out = append(out, "?")
					continue
				}
				cond := stmtText(fset, &ast.ExprStmt{X: s.Cond})
				body := s.Body.List
				// `if err == nil && metric.Discard() { err = <anything> }`: an invalid metric counts as an error
				if (cond == "err==nil&&metric.Discard()" || cond == "err==nil&&!metric.Valid") && len(body) == 1 {
					if as, ok := body[0].(*ast.AssignStmt); ok && as.Tok == token.ASSIGN && len(as.Lhs) == 1 && stmtText(fset, &ast.ExprStmt{X: as.Lhs[0]}) == "err" {
						out = append(out, "discard=err")
						continue
					}
				}
				var kind string
				switch cond {
				case "err!=nil":
					kind = "err?retry/"
				case "err!=nil||metric.Discard()", "err!=nil||!metric.Valid":
					kind = "bad?retry/"
				}
				// the branch: logging, exactly one timer.Reset(metric.GetTTL()/N), `continue` last
				div, resets, okShape := "", 0, kind != "" && len(body) >= 2
				if okShape {
					if b, isB := body[len(body)-1].(*ast.BranchStmt); !isB || b.Tok != token.CONTINUE {
						okShape = false
					}
					for _, bs := range body[:len(body)-1] {
						bt := stmtText(fset, bs)
						if m := reset.FindStringSubmatch(bt); m != nil {
							div = m[1]
							resets++
						} else if strings.Contains(bt, "timer") || strings.Contains(bt, "return") || strings.Contains(bt, "break") || strings.Contains(bt, "continue") {
							okShape = false
						}
					}
				}
				if okShape && resets == 1 {
					out = append(out, kind+div)
				} else {
					out = append(out, "?")
				}
			default:
				switch {
				case t == "metric,err:=c.sendInformerMetric(ctx,informer)":
					out = append(out, "send")
				case t == "retries=0":
				case reset.MatchString(t):
					out = append(out, "rearm/"+reset.FindStringSubmatch(t)[1])
				default:
					out = append(out, "?")
				}
			}
		}
		return out
	}
	return []string{"?"}
}

func leanStrs(name, doc string, l []string) string {
	q := make([]string, len(l))
	for i, s := range l {
		q[i] = strconv.Quote(s)
	}
	return fmt.Sprintf("/-- %s -/\ndef %s : List String := [%s]\n", doc, name, strings.Join(q, ", "))
}

func main() {
	accrual := 0
	if m := regexp.MustCompile(`(?m)^var accrualMetricsNum = (\d+)\s*$`).FindStringSubmatch(read("monitor/metrics/checker.go")); m != nil {
		accrual, _ = strconv.Atoi(m[1])
	}
	all := funcBody(read("monitor/metrics/store.go"), "func (mtrs *Store) AllMetrics(")
	skipsInvalid := all == "" || strings.Contains(all, ".Valid") || strings.Contains(all, "Discard(")

	fmt.Println("/- GENERATED by harness/extract_c09 (./check C09) from the linked package monitor/metrics and")
	fmt.Println("   monitor/metrics/{checker,store}.go. Do not edit. -/")
	fmt.Println("namespace CV.C09.Gen")
	fmt.Println()
	fmt.Println("/-- `metrics.DefaultWindowCap` -/")
	fmt.Printf("def defaultWindowCap : Nat := %d\n", nat(metrics.DefaultWindowCap))
	fmt.Println("/-- `metrics.MaxAlertThreshold` -/")
	fmt.Printf("def maxAlertThreshold : Nat := %d\n", nat(metrics.MaxAlertThreshold))
	fmt.Println("/-- `metrics.AlertChannelCap` -/")
	fmt.Printf("def alertChannelCap : Nat := %d\n", nat(metrics.AlertChannelCap))
	fmt.Println("/-- `accrualMetricsNum` (monitor/metrics/checker.go) -/")
	fmt.Printf("def accrualMetricsNum : Nat := %d\n", accrual)
	fmt.Println("/-- `Store.AllMetrics` mentions `Valid` / `Discard` (it filters the snapshot `CheckAll` walks) -/")
	fmt.Printf("def allMetricsFiltersValidity : Bool := %v\n", skipsInvalid)
	order := alertOrder()
	fmt.Println("/-- `Checker.alert` (go/ast): the shape of count-and-send was recognised -/")
	fmt.Printf("def alertOrderKnown : Bool := %v\n", order != "unknown")
	fmt.Println("/-- `Checker.alert`: `failedMetrics[name]++` precedes the non-blocking send into `alertCh` (a refused alert is counted) -/")
	fmt.Printf("def alertCountsBeforeSend : Bool := %v\n", order != "after")
	fmt.Println()
	fmt.Println("/-! round 8b: statement programs the model interprets (Model/C09Glue.lean); \"?\" = unrecognised statement -/")
	fmt.Print(leanStrs("windowAddProg", "`Window.Add` (monitor/metrics/window.go): ring statements in program order", windowAdd()))
	fmt.Print(leanStrs("windowLatestProg", "`Window.Latest`", windowLatest()))
	fmt.Printf("/-- `Window.All`: how a value met by the forward walk `Do` is added to the result -/\ndef windowAllOrder : String := %q\n", windowAllOrder())
	fmt.Print(leanStrs("latestMetricsProg", "`Monitor.LatestMetrics` (monitor/pubsubmon/pubsubmon.go): where the peerset comes from and what is returned", latestMetricsProg()))
	fmt.Print(leanStrs("publishProg", "`Monitor.PublishMetric`: guard, encode, publish", publishProg()))
	fmt.Print(leanStrs("rearmProg", "`Cluster.pushInformerMetrics` (cluster.go), body of the loop: send, the retry-sooner branch, the regular re-arm", rearmProg()))
	fmt.Println()
	// Source text of three small functions whose exact shape no timed run can observe (the
	// strictness of the expiry comparison) or that the model transcribes line by line
	// (the Watch loop, the receive loop): one entry per source line, logging left out.
	ty := skel.Parse(prog, "api/types.go")
	ck := skel.Parse(prog, "monitor/metrics/checker.go")
	pm := skel.Parse(prog, "monitor/pubsubmon/pubsubmon.go")
	fmt.Print(skel.LeanList("srcExpired", "Metric.Expired (api/types.go)", skel.Lines(skel.Func(prog, ty, "*Metric", "Expired"))))
	fmt.Print(skel.LeanList("srcDiscard", "Metric.Discard (api/types.go)", skel.Lines(skel.Func(prog, ty, "*Metric", "Discard"))))
	fmt.Print(skel.LeanList("srcWatch", "Checker.Watch (monitor/metrics/checker.go)", skel.Lines(skel.Func(prog, ck, "*Checker", "Watch"))))
	fmt.Print(skel.LeanList("srcLogFromPubsub", "Monitor.logFromPubsub (monitor/pubsubmon/pubsubmon.go)", skel.Lines(skel.Func(prog, pm, "*Monitor", "logFromPubsub"))))
	fmt.Print(skel.LeanList("srcLogMetric", "Monitor.LogMetric (monitor/pubsubmon/pubsubmon.go)", skel.Lines(skel.Func(prog, pm, "*Monitor", "LogMetric"))))
	fmt.Println("end CV.C09.Gen")
}
