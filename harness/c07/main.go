// C07 harness: RPC authorization and peer trust on the real code.
//
// One serving peer (index 0) is a real libp2p host on loopback TCP whose RPC
// server is built by the real newRPCServer (through VerifNewRPCServer) around a
// Cluster holding a REAL consensus component (consensus/crdt configured through
// its JSON loader, or consensus/raft). Three more real hosts (indices 1..3) are
// remote callers; indices >= 4 are peers that exist only as ids.
//
// Suite "auth": per configuration k (trust configuration x Trust/Distrust calls x
// policy table) every caller (self, r1, r2, r3) calls every registered endpoint
// (plus some unregistered names):
//
//	C07 rpc <shipped|follower|custom> <tr0|tr1> <raft|crdt> <raw> <ops> <self> <self|rN> <overrides> <Svc.Method> => <refused|passed> <detail>
//	C07 trust <raft|crdt> <raw> <ops> <self> <p> => <0|1>          (IsTrustedPeer of the real consensus)
//	C07 valid <overrides> => <ok|err>                               (Config.Validate -> isRPCPolicyValid)
//
// refused = rpc.IsAuthorizationError(err). Remote calls carry an argument that
// no endpoint can decode (a msgpack bool), so a call that passes authorization
// stops at argument decoding and no handler ever runs; local calls use an
// argument of the wrong pointer-ness for the same effect. Calls marked "raw"
// are made by a hand-rolled client that sends only the service id.
//
// Suite "rep": real crdt replicas; an observer with a trust configuration, three
// publishers and a witness that trusts everyone:
//
//	C07 rep <raw> <ops> <self> <before> <signer:pin:+|-,...> => <observer pinset>
package main

import (
	"bufio"
	"context"
	crand "crypto/rand"
	"fmt"
	"os"
	"path/filepath"
	"reflect"
	"sort"
	"strconv"
	"strings"
	"time"

	ipfscluster "github.com/ipfs/ipfs-cluster"
	"github.com/ipfs/ipfs-cluster/api"
	"github.com/ipfs/ipfs-cluster/consensus/crdt"
	"github.com/ipfs/ipfs-cluster/consensus/raft"
	"github.com/ipfs/ipfs-cluster/datastore/inmem"
	"github.com/ipfs/ipfs-cluster/test"
	"github.com/ipfs/ipfs-cluster/version"

	ipns "github.com/ipfs/go-ipns"
	libp2p "github.com/libp2p/go-libp2p"
	crypto "github.com/libp2p/go-libp2p-core/crypto"
	host "github.com/libp2p/go-libp2p-core/host"
	peer "github.com/libp2p/go-libp2p-core/peer"
	peerstore "github.com/libp2p/go-libp2p-core/peerstore"
	rpc "github.com/libp2p/go-libp2p-gorpc"
	dht "github.com/libp2p/go-libp2p-kad-dht"
	dual "github.com/libp2p/go-libp2p-kad-dht/dual"
	pubsub "github.com/libp2p/go-libp2p-pubsub"
	record "github.com/libp2p/go-libp2p-record"
	routedhost "github.com/libp2p/go-libp2p/p2p/host/routed"
	"github.com/ugorji/go/codec"

	"verifharness/common"
)

const (
	nClients = 3 // remote callers r1..r3
	universe = 7 // peer indices 0..6 appear in configurations and calls
)

var ctx = context.Background()

// ---------------------------------------------------------------- case description

type override struct {
	key string
	val *int // nil: delete the entry
}

type config struct {
	tracing bool     // Config.Tracing of the serving peer: newRPCServer builds its server differently
	kind    string   // shipped | follower | custom
	mode    string   // raft | crdt
	raw     []int    // -1 is "*"
	srcs    []source // nil: one file with trusted_peers = raw; else the configuration sources (sources.go)
	ops     []int    // +(p+1) Trust(p), -(p+1) Distrust(p)
	ovs     []override
	// suite pol: the cluster Config built from configuration steps (pol.go); nil: Default() plus the table of `kind`
	cfgOverride *ipfscluster.Config
}

func rawStr(raw []int) string {
	if len(raw) == 0 {
		return "-"
	}
	s := make([]string, len(raw))
	for i, v := range raw {
		if v < 0 {
			s[i] = "*"
		} else {
			s[i] = strconv.Itoa(v)
		}
	}
	return strings.Join(s, ",")
}

// hsBase + p encodes the op "peer p (one of the real remote hosts) performed the join handshake": it called the
// OPEN endpoints remotely with decodable arguments, so that their handlers really ran.
const hsBase = 1000

func opsStr(ops []int) string {
	if len(ops) == 0 {
		return "-"
	}
	s := make([]string, len(ops))
	for i, v := range ops {
		if v >= hsBase {
			s[i] = "H" + strconv.Itoa(v-hsBase)
		} else if v > 0 {
			s[i] = "T" + strconv.Itoa(v-1)
		} else {
			s[i] = "D" + strconv.Itoa(-v-1)
		}
	}
	return strings.Join(s, ",")
}

func ovsStr(ovs []override) string {
	if len(ovs) == 0 {
		return "-"
	}
	s := make([]string, len(ovs))
	for i, o := range ovs {
		if o.val == nil {
			s[i] = o.key + ":-"
		} else {
			s[i] = o.key + ":" + strconv.Itoa(*o.val)
		}
	}
	return strings.Join(s, ",")
}

func parseRaw(s string) ([]int, error) {
	if s == "-" {
		return nil, nil
	}
	var out []int
	for _, t := range strings.Split(s, ",") {
		if t == "*" {
			out = append(out, -1)
			continue
		}
		v, err := strconv.Atoi(t)
		if err != nil || v < 0 {
			return nil, fmt.Errorf("raw %q", t)
		}
		out = append(out, v)
	}
	return out, nil
}

func parseOps(s string) ([]int, error) {
	if s == "-" {
		return nil, nil
	}
	var out []int
	for _, t := range strings.Split(s, ",") {
		if len(t) < 2 {
			return nil, fmt.Errorf("op %q", t)
		}
		v, err := strconv.Atoi(t[1:])
		if err != nil || v < 0 {
			return nil, fmt.Errorf("op %q", t)
		}
		switch t[0] {
		case 'T':
			out = append(out, v+1)
		case 'D':
			out = append(out, -(v + 1))
		case 'H':
			if v < 1 || v > nClients {
				return nil, fmt.Errorf("op %q: only the real remote hosts can shake hands", t)
			}
			out = append(out, hsBase+v)
		default:
			return nil, fmt.Errorf("op %q", t)
		}
	}
	return out, nil
}

func parseOvs(s string) ([]override, error) {
	if s == "-" {
		return nil, nil
	}
	var out []override
	for _, t := range strings.Split(s, ",") {
		i := strings.LastIndex(t, ":")
		if i < 0 {
			return nil, fmt.Errorf("override %q", t)
		}
		o := override{key: t[:i]}
		if t[i+1:] != "-" {
			v, err := strconv.Atoi(t[i+1:])
			if err != nil {
				return nil, fmt.Errorf("override %q", t)
			}
			o.val = &v
		}
		out = append(out, o)
	}
	return out, nil
}

// ---------------------------------------------------------------- hosts

type node struct {
	h    host.Host
	psub *pubsub.PubSub
	dht  *dual.DHT
}

// newNode makes a libp2p host on loopback TCP the way the crdt consensus tests do.
func newNode(ctx context.Context, full bool) (*node, error) {
	priv, _, err := crypto.GenerateEd25519Key(crand.Reader)
	if err != nil {
		return nil, err
	}
	h, err := libp2p.New(ctx, libp2p.Identity(priv), libp2p.ListenAddrStrings("/ip4/127.0.0.1/tcp/0"))
	if err != nil {
		return nil, err
	}
	if !full {
		return &node{h: h}, nil
	}
	psub, err := pubsub.NewGossipSub(ctx, h, pubsub.WithMessageSigning(true), pubsub.WithStrictSignatureVerification(true))
	if err != nil {
		h.Close()
		return nil, err
	}
	idht, err := dual.New(ctx, h,
		dual.DHTOption(dht.NamespacedValidator("pk", record.PublicKeyValidator{})),
		dual.DHTOption(dht.NamespacedValidator("ipns", ipns.Validator{KeyBook: h.Peerstore()})),
		dual.DHTOption(dht.Concurrency(10)),
	)
	if err != nil {
		h.Close()
		return nil, err
	}
	return &node{h: routedhost.Wrap(h, idht), psub: psub, dht: idht}, nil
}

func connect(a, b host.Host) error {
	a.Peerstore().AddAddrs(b.ID(), b.Addrs(), peerstore.PermanentAddrTTL)
	b.Peerstore().AddAddrs(a.ID(), a.Addrs(), peerstore.PermanentAddrTTL)
	_, err := a.Network().DialPeer(ctx, b.ID())
	return err
}

// ---------------------------------------------------------------- the auth world

type endpoint struct {
	svc, method string
	argPtr      bool         // the handler takes a pointer argument
	reply       reflect.Type // *T
}

type world struct {
	server  *node
	clients []*node
	rclient []*rpc.Client
	ids     []peer.ID
	eps     []endpoint // registered endpoints by reflection, sorted, then unregistered names
	nReg    int
	raftC   *raft.Consensus
	seq     int
	scratch string
	cancel  context.CancelFunc
	raftDir string
	rec     *recorder // round 8c: calls recorded by the components behind the served cluster
	hsLines []string  // `hs` lines of the handshakes made while serving the current configuration
}

func (w *world) pid(i int) peer.ID { return w.ids[i] }

func reflectEndpoints() []endpoint {
	comps := []interface{}{
		&ipfscluster.ClusterRPCAPI{}, &ipfscluster.PinTrackerRPCAPI{}, &ipfscluster.IPFSConnectorRPCAPI{},
		&ipfscluster.ConsensusRPCAPI{}, &ipfscluster.PeerMonitorRPCAPI{},
	}
	var eps []endpoint
	for _, c := range comps {
		t := reflect.TypeOf(c)
		for i := 0; i < t.NumMethod(); i++ {
			m := t.Method(i)
			if m.Type.NumIn() != 4 {
				continue
			}
			eps = append(eps, endpoint{svc: ipfscluster.RPCServiceID(c), method: m.Name,
				argPtr: m.Type.In(2).Kind() == reflect.Ptr, reply: m.Type.In(3)})
		}
	}
	sort.Slice(eps, func(i, j int) bool { return eps[i].svc+"."+eps[i].method < eps[j].svc+"."+eps[j].method })
	return eps
}

var unregistered = []endpoint{
	{svc: "Cluster", method: "Nope"}, {svc: "Cluster", method: "pin"}, {svc: "Nope", method: "ID"},
	{svc: "PinTracker", method: "Pin"}, {svc: "cluster", method: "ID"},
}

var worldSeq int

func newWorld() (*world, error) {
	ctx, cancel := context.WithCancel(ctx)
	worldSeq++
	w := &world{scratch: os.Getenv("VERIF_SCRATCH"), cancel: cancel}
	if w.scratch == "" {
		w.scratch = filepath.Join(os.TempDir(), "verif-C07")
	}
	var err error
	if w.server, err = newNode(ctx, true); err != nil {
		return nil, err
	}
	w.ids = append(w.ids, w.server.h.ID())
	for i := 0; i < nClients; i++ {
		c, err := newNode(ctx, false)
		if err != nil {
			return nil, err
		}
		if err := connect(c.h, w.server.h); err != nil {
			return nil, err
		}
		w.clients = append(w.clients, c)
		w.rclient = append(w.rclient, rpc.NewClient(c.h, version.RPCProtocol))
		w.ids = append(w.ids, c.h.ID())
	}
	for i := len(w.ids); i < universe; i++ {
		w.ids = append(w.ids, common.PeerN(i))
	}
	w.eps = reflectEndpoints()
	w.nReg = len(w.eps)
	for _, u := range unregistered {
		u.reply = reflect.TypeOf(&struct{}{})
		w.eps = append(w.eps, u)
	}
	return w, nil
}

func (w *world) close() {
	if w.raftC != nil {
		w.raftC.Shutdown(ctx)
		os.RemoveAll(w.raftDir)
	}
	for _, c := range w.clients {
		c.h.Close()
	}
	w.server.h.Close()
	w.cancel()
}

// errConfig: the component rejected a configuration the harness considers valid
// (a list of peer ids and "*"). That is an observation, not an infrastructure failure.
type errConfig struct{ err error }

func (e errConfig) Error() string { return "configuration rejected: " + e.err.Error() }

// newCRDTWith starts a real crdt consensus on a node with a configuration (see sources.go).
func newCRDTWith(n *node, cfg *crdt.Config) (*crdt.Consensus, error) {
	cc, err := crdt.New(n.h, n.dht, n.psub, cfg, inmem.New())
	if err != nil {
		return nil, err
	}
	cc.SetClient(test.NewMockRPCClientWithHost(nil, n.h))
	select {
	case <-cc.Ready(ctx):
	case <-time.After(30 * time.Second):
		return nil, fmt.Errorf("crdt consensus not ready after 30s")
	}
	return cc, nil
}

// consensusFor returns the real consensus component in the state the configuration describes.
func (w *world) consensusFor(c config) (ipfscluster.Consensus, func(), error) {
	var cons ipfscluster.Consensus
	cleanup := func() {}
	switch c.mode {
	case "raft":
		if w.raftC == nil {
			cfg := &raft.Config{}
			cfg.Default()
			cfg.DataFolder = filepath.Join(w.scratch, fmt.Sprintf("raft-%d-%d", os.Getpid(), worldSeq))
			os.RemoveAll(cfg.DataFolder)
			w.raftDir = cfg.DataFolder
			rc, err := raft.NewConsensus(w.server.h, cfg, inmem.New(), false)
			if err != nil {
				return nil, nil, err
			}
			rc.SetClient(test.NewMockRPCClientWithHost(nil, w.server.h))
			w.raftC = rc
		}
		cons = w.raftC
	case "crdt":
		w.seq++
		cc, err := startCRDT(w.server, w.ids, fmt.Sprintf("c07-%d-%d-%d", os.Getpid(), worldSeq, w.seq), c.raw, c.srcs)
		if err != nil {
			return nil, nil, err
		}
		cons = cc
		cleanup = func() { cc.Shutdown(ctx) }
	default:
		return nil, nil, fmt.Errorf("mode %q", c.mode)
	}
	if hasHandshake(c.ops) {
		// the calls are made in order once the RPC server runs (serve)
		return cons, cleanup, nil
	}
	if err := w.applyOps(cons, c.ops, nil); err != nil {
		cleanup()
		return nil, nil, err
	}
	return cons, cleanup, nil
}

// flushHs prints the `hs` lines collected while the current configuration was being served.
func (w *world) flushHs(out *common.Out) {
	for _, l := range w.hsLines {
		out.Line("%s", l)
	}
	w.hsLines = nil
}

func hasHandshake(ops []int) bool {
	for _, o := range ops {
		if o >= hsBase {
			return true
		}
	}
	return false
}

// applyOps makes the Trust/Distrust calls in order; a handshake op is carried out by hs.
func (w *world) applyOps(cons ipfscluster.Consensus, ops []int, hs func(caller int) error) error {
	for _, o := range ops {
		var err error
		switch {
		case o >= hsBase:
			err = hs(o - hsBase)
		case o > 0:
			err = cons.Trust(ctx, w.pid(o-1))
		default:
			err = cons.Distrust(ctx, w.pid(-o-1))
		}
		if err != nil {
			return err
		}
	}
	return nil
}

// handshake: the remote host `caller` calls the open endpoints of the served peer with arguments that decode, so
// that the real handlers run: Cluster.Version, then Cluster.PeerAdd with its own ID (what Join() does at the
// bootstrap peer). Cluster.ID is left out: its handler needs components this cluster does not have and only reads.
// The answers do not matter (PeerAdd ends in an error when it asks the caller for its ID: the caller serves no RPC);
// an authorization error would mean the endpoint is not open, which the rpc lines report.
func (w *world) handshake(s *served, caller int) error {
	cctx, cancel := context.WithTimeout(ctx, 20*time.Second)
	defer cancel()
	cl := w.rclient[caller-1]
	untrusted := !s.cons.IsTrustedPeer(cctx, w.pid(caller))
	w.rec.take()
	var v api.Version
	cl.CallContext(cctx, w.server.h.ID(), "Cluster", "Version", struct{}{}, &v)
	var id0 api.ID
	cl.CallContext(cctx, w.server.h.ID(), "Cluster", "ID", struct{}{}, &id0)
	var id api.ID
	cl.CallContext(cctx, w.server.h.ID(), "Cluster", "PeerAdd", w.pid(caller), &id)
	// what the components behind the server saw while the three open handlers ran for a caller the consensus does not
	// trust (for a trusted caller nothing is claimed: it may call the trusted endpoints anyway)
	if calls := w.rec.take(); untrusted {
		w.hsLines = append(w.hsLines, fmt.Sprintf("C07 hs %s %d => %s", s.mode, caller, calls))
	}
	return nil
}

// clusterConfig is the cluster configuration section with the policy table of the case.
func clusterConfig(c config) (*ipfscluster.Config, error) {
	if c.cfgOverride != nil {
		return c.cfgOverride, nil
	}
	cfg := &ipfscluster.Config{}
	if err := cfg.Default(); err != nil {
		return nil, err
	}
	// the two fields of the cluster configuration that newRPCServer reads: Tracing and RPCPolicy
	cfg.Tracing = c.tracing
	if c.kind == "shipped" {
		return cfg, nil // the table Config.Default() installs, untouched
	}
	pol := map[string]ipfscluster.RPCEndpointType{}
	for k, v := range cfg.RPCPolicy {
		pol[k] = v
	}
	cfg.RPCPolicy = pol
	if c.kind == "follower" {
		// what cmd/ipfs-cluster-follow does to its configuration
		cfg.RPCPolicy["Cluster.RepoGCLocal"] = ipfscluster.RPCClosed
		return cfg, nil
	}
	for _, o := range c.ovs {
		if o.val == nil {
			delete(cfg.RPCPolicy, o.key)
		} else {
			cfg.RPCPolicy[o.key] = ipfscluster.RPCEndpointType(*o.val)
		}
	}
	return cfg, nil
}

type served struct {
	mode    string
	cons    ipfscluster.Consensus
	cluster *ipfscluster.Cluster
	local   *rpc.Client
	cleanup func()
}

func (w *world) serve(c config) (*served, error) {
	cons, cleanup, err := w.consensusFor(c)
	if err != nil {
		return nil, err
	}
	cfg, err := clusterConfig(c)
	if err != nil {
		cleanup()
		return nil, err
	}
	// NewCluster's first statement: whatever Validate does to the Config happens before the server is built
	// (a table Validate rejects is served all the same: the closure's missing-entry arm is part of the cases)
	func() {
		defer func() { recover() }()
		cfg.Validate()
	}()
	// round 8c: recording tracker / IPFS connector / allocator and a recording wrapper around the real consensus, so that a
	// handler that drives a component on behalf of a remote caller leaves a trace (handshake op -> `hs` lines)
	rec := &recorder{}
	w.rec = rec
	cl := ipfscluster.VerifNewCluster(ctx, ipfscluster.VerifComponents{
		ID: w.server.h.ID(), Config: cfg, Host: w.server.h, Consensus: recConsensus{cons, rec}, Monitor: common.NewStoreMonitor(),
		IPFS: recIPFS{rec}, Tracker: recTracker{rec}, Allocator: recAlloc{rec},
	})
	cl.VerifC18Prepare() // a peer manager on the host (Cluster.ID reads it) and a no-op tracer
	srv, err := ipfscluster.VerifNewRPCServer(cl)
	if err != nil {
		cleanup()
		return nil, err
	}
	local := rpc.NewClientWithServer(w.server.h, version.RPCProtocol, srv)
	cl.VerifSetRPC(srv, local)
	sv := &served{mode: c.mode, cons: cons, cluster: cl, local: local, cleanup: func() { cl.VerifCancel(); cleanup() }}
	if hasHandshake(c.ops) {
		if err := w.applyOps(cons, c.ops, func(caller int) error { return w.handshake(sv, caller) }); err != nil {
			sv.cleanup()
			return nil, err
		}
	}
	return sv, nil
}

func classify(err error) string {
	switch {
	case err == nil:
		return "passed ok"
	case rpc.IsAuthorizationError(err):
		return "refused auth"
	case rpc.IsServerError(err):
		return "passed srv"
	case rpc.IsClientError(err):
		return "inconclusive client"
	default:
		return "passed other"
	}
}

// call makes one RPC; caller 0 is the serving peer itself.
func (w *world) call(s *served, caller int, ep endpoint) string {
	reply := reflect.New(ep.reply.Elem()).Interface()
	cctx, cancel := context.WithTimeout(ctx, 20*time.Second)
	defer cancel()
	if caller == 0 {
		// in-process: an argument of the wrong pointer-ness is rejected before the handler
		var arg interface{} = true
		if !ep.argPtr {
			b := true
			arg = &b
		}
		return classify(s.local.CallContext(cctx, "", ep.svc, ep.method, arg, reply))
	}
	out := ""
	for attempt := 0; attempt < 3; attempt++ {
		out = classify(w.rclient[caller-1].CallContext(cctx, w.server.h.ID(), ep.svc, ep.method, true, reply))
		if !strings.HasPrefix(out, "inconclusive") {
			break
		}
		connect(w.clients[caller-1].h, w.server.h)
	}
	return out
}

// junk opens an RPC stream and writes bytes that are not a request; the server must survive it
// (the calls that follow on the same connection show that it did).
func (w *world) junk(caller int, b []byte) {
	cctx, cancel := context.WithTimeout(ctx, 5*time.Second)
	defer cancel()
	st, err := w.clients[caller-1].h.NewStream(cctx, w.server.h.ID(), version.RPCProtocol)
	if err != nil {
		return
	}
	st.SetDeadline(time.Now().Add(5 * time.Second))
	st.Write(b)
	st.CloseWrite()
	buf := make([]byte, 256)
	st.Read(buf)
	st.Reset()
}

// rawCall speaks the wire protocol by hand: service id, then garbage (or nothing) and end of stream.
func (w *world) rawCall(caller int, ep endpoint, garbage []byte) string {
	cctx, cancel := context.WithTimeout(ctx, 20*time.Second)
	defer cancel()
	st, err := w.clients[caller-1].h.NewStream(cctx, w.server.h.ID(), version.RPCProtocol)
	if err != nil {
		return "inconclusive stream"
	}
	defer st.Reset()
	st.SetDeadline(time.Now().Add(20 * time.Second))
	h := &codec.MsgpackHandle{}
	bw := bufio.NewWriter(st)
	if err := codec.NewEncoder(bw, h).Encode(rpc.ServiceID{Name: ep.svc, Method: ep.method}); err != nil {
		return "inconclusive encode"
	}
	bw.Write(garbage)
	if err := bw.Flush(); err != nil {
		return "inconclusive flush"
	}
	st.CloseWrite()
	var resp map[string]interface{}
	if err := codec.NewDecoder(bufio.NewReader(st), h).Decode(&resp); err != nil {
		return "inconclusive decode"
	}
	et, _ := resp["ErrType"]
	n := reflect.ValueOf(et)
	var v int64 = -1
	switch n.Kind() {
	case reflect.Int, reflect.Int8, reflect.Int16, reflect.Int32, reflect.Int64:
		v = n.Int()
	case reflect.Uint, reflect.Uint8, reflect.Uint16, reflect.Uint32, reflect.Uint64:
		v = int64(n.Uint())
	}
	switch v {
	case 3:
		return "refused raw"
	case 0, 1, 2:
		return "passed raw"
	}
	return "inconclusive errtype"
}

func (c config) prefix() string {
	tr := "tr0"
	if c.tracing {
		tr = "tr1"
	}
	return fmt.Sprintf("%s %s %s %s %s", c.kind, tr, c.mode, srcsStr(c.raw, c.srcs), opsStr(c.ops))
}

func callerStr(i int) string {
	if i == 0 {
		return "self"
	}
	return "r" + strconv.Itoa(i)
}

func epName(e endpoint) string { return e.svc + "." + e.method }

func emit(out *common.Out, line, res string) {
	if strings.HasPrefix(res, "inconclusive") {
		out.Line("# inconclusive %s (%s)", line, res)
		return
	}
	out.Line("%s => %s", line, res)
}

// runConfig emits every line of one configuration.
func (w *world) runConfig(out *common.Out, c config, rpcLines bool, rawEvery int, r *common.Rng) error {
	s, err := w.serve(c)
	if err != nil {
		return err
	}
	defer s.cleanup()
	w.flushHs(out)
	for p := 0; p < universe; p++ {
		b := 0
		if s.cons.IsTrustedPeer(ctx, w.pid(p)) {
			b = 1
		}
		out.Line("C07 trust %s %s %s 0 %d => %d", c.mode, srcsStr(c.raw, c.srcs), opsStr(c.ops), p, b)
	}
	if c.mode == "crdt" {
		out.Line("%s", cfgLine(w.ids, c.raw, c.srcs))
	}
	if c.kind == "custom" {
		out.Line("C07 valid %s => %s", ovsStr(c.ovs), validate(s.cluster, c))
	}
	if !rpcLines {
		return nil
	}
	n := 0
	for caller := 0; caller <= nClients; caller++ {
		if caller > 0 {
			// malformed streams first: random bytes, and a service id cut short
			junk := make([]byte, r.Range(1, 40))
			for i := range junk {
				junk[i] = byte(r.Next())
			}
			w.junk(caller, junk)
			w.junk(caller, []byte{0x82, 0xa4, 'N', 'a', 'm', 'e', 0xa7, 'C', 'l', 'u'})
		}
		for _, ep := range w.eps {
			line := fmt.Sprintf("C07 rpc %s 0 %s %s %s", c.prefix(), callerStr(caller), ovsStr(c.ovs), epName(ep))
			emit(out, line, w.call(s, caller, ep))
			n++
			if caller > 0 && rawEvery > 0 && n%rawEvery == 0 {
				// 0xc1 is the one byte msgpack never uses: whatever follows, no argument type decodes it
				// (random bytes alone could decode as an empty map, i.e. a valid struct{} argument)
				var g []byte
				if r.Bool() {
					g = make([]byte, r.Range(1, 24))
					for i := range g {
						g[i] = byte(r.Next())
					}
					g[0] = 0xc1
				}
				emit(out, line, w.rawCall(caller, ep, g))
			}
		}
	}
	return nil
}

func validate(_ *ipfscluster.Cluster, c config) string {
	cfg, err := clusterConfig(c)
	if err != nil {
		return "err"
	}
	if cfg.Validate() != nil {
		// only the policy table differs from the default configuration, which validates
		return "err"
	}
	return "ok"
}

// ---------------------------------------------------------------- generator

var boundary = []config{
	{kind: "shipped", mode: "raft"},
	{kind: "shipped", mode: "crdt", raw: []int{1}},
	{kind: "shipped", mode: "crdt"},
	{kind: "shipped", mode: "crdt", raw: []int{-1}},
	{kind: "shipped", mode: "crdt", raw: []int{1, 2}, ops: []int{-2, 4}},
	{kind: "follower", mode: "crdt", raw: []int{1}},
	{kind: "shipped", mode: "crdt", raw: []int{2, -1, 3}, ops: []int{-3}},
	{kind: "shipped", mode: "raft", raw: nil, ops: []int{-2, -3}},
	{kind: "shipped", mode: "crdt", raw: []int{0}, ops: []int{-1, 2, -2, 3}},
	{kind: "follower", mode: "raft"},
	{tracing: true, kind: "shipped", mode: "crdt", raw: []int{1}},
	{tracing: true, kind: "shipped", mode: "raft"},
	{tracing: true, kind: "follower", mode: "crdt", raw: []int{2}, ops: []int{-3, 2}},
	{tracing: true, kind: "shipped", mode: "crdt"},
	// configuration from several sources: an environment list over the defaults / over a file with "*"
	{kind: "shipped", mode: "crdt", srcs: []source{{kind: 'D'}, {kind: 'E', list: []int{1}}}},
	{kind: "shipped", mode: "crdt", srcs: []source{{kind: 'L', list: []int{-1}}, {kind: 'E', list: []int{2}}}},
	{kind: "shipped", mode: "crdt", srcs: []source{{kind: 'D'}}},
	{kind: "shipped", mode: "crdt", srcs: []source{{kind: 'L', list: []int{1}}, {kind: 'A'}}, ops: []int{-2}},
	{kind: "shipped", mode: "crdt", srcs: []source{{kind: 'L', list: []int{1}}, {kind: 'E', list: []int{-1}}}},
	{kind: "shipped", mode: "crdt", srcs: []source{{kind: 'L', list: []int{1, 2}}, {kind: 'E', list: nil}}},
}

var ovVals = []int{0, 1, 2, 2, 1, 0, 3, -1, 7}

// followerOvs is how the follower table is written on a case line.
func followerOvs() []override {
	v := int(ipfscluster.RPCClosed)
	return []override{{key: "Cluster.RepoGCLocal", val: &v}}
}

func genConfig(r *common.Rng, w *world, k int) config {
	c := genConfig0(r, w, k)
	if c.kind == "follower" {
		c.ovs = followerOvs()
	}
	return c
}

// genList draws a configured list: mostly the callers, sometimes id-only peers, the serving peer, "*", repeats
func genList(r *common.Rng) []int {
	var l []int
	for n := r.Intn(5); n > 0; n-- {
		switch x := r.Intn(20); {
		case x == 0:
			l = append(l, -1)
		case x < 14:
			l = append(l, r.Range(1, nClients))
		default:
			l = append(l, r.Intn(universe))
		}
	}
	return l
}

func genConfig0(r *common.Rng, w *world, k int) config {
	if k < len(boundary) {
		return boundary[k]
	}
	var c config
	switch x := r.Intn(20); {
	case x < 10:
		c.kind = "shipped"
	case x < 13:
		c.kind = "follower"
	default:
		c.kind = "custom"
	}
	c.mode = "crdt"
	if r.Chance(1, 6) {
		c.mode = "raft"
	}
	c.tracing = r.Chance(2, 5)
	c.raw = genList(r)
	if c.mode == "raft" && r.Bool() {
		c.raw = nil
	}
	if c.mode == "crdt" && r.Chance(2, 5) {
		// the configuration comes from several sources (defaults, file, environment)
		c.srcs = genSrcs(r, func() []int { return genList(r) })
		c.raw = nil
	}
	nops := r.Intn(6)
	if r.Chance(1, 10) {
		nops = r.Range(6, 12)
	}
	for n := nops; n > 0; n-- {
		p := r.Range(1, nClients)
		if r.Chance(1, 5) {
			p = r.Intn(universe)
		}
		if r.Bool() {
			c.ops = append(c.ops, p+1)
		} else {
			c.ops = append(c.ops, -(p + 1))
		}
	}
	if c.mode == "crdt" && r.Chance(1, 3) {
		// join handshakes by remote hosts, anywhere among the calls: they must not change anybody's trust
		for n := r.Range(1, 2); n > 0; n-- {
			at := r.Intn(len(c.ops) + 1)
			c.ops = append(c.ops[:at], append([]int{hsBase + r.Range(1, nClients)}, c.ops[at:]...)...)
		}
	}
	if c.kind == "custom" {
		for n := r.Range(1, 6); n > 0; n-- {
			o := override{key: epName(w.eps[r.Intn(len(w.eps))])}
			if !r.Chance(1, 5) {
				v := ovVals[r.Intn(len(ovVals))]
				o.val = &v
			}
			c.ovs = append(c.ovs, o)
		}
	}
	return c
}

// ---------------------------------------------------------------- stdin replay

func configOfLine(f []string) (config, error) {
	// f: tokens after "C07"
	var c config
	var err error
	switch f[0] {
	case "rpc":
		if len(f) < 10 || (f[2] != "tr0" && f[2] != "tr1") {
			return c, fmt.Errorf("rpc arity")
		}
		c.kind, c.tracing, c.mode = f[1], f[2] == "tr1", f[3]
		if c.raw, c.srcs, err = parseSrcs(f[4]); err != nil {
			return c, err
		}
		if c.ops, err = parseOps(f[5]); err != nil {
			return c, err
		}
		if c.ovs, err = parseOvs(f[8]); err != nil {
			return c, err
		}
	case "trust":
		if len(f) < 6 {
			return c, fmt.Errorf("trust arity")
		}
		c.kind, c.mode = "shipped", f[1]
		if c.raw, c.srcs, err = parseSrcs(f[2]); err != nil {
			return c, err
		}
		if c.ops, err = parseOps(f[3]); err != nil {
			return c, err
		}
	case "valid":
		if len(f) < 2 {
			return c, fmt.Errorf("valid arity")
		}
		c.kind, c.mode = "custom", "raft"
		if c.ovs, err = parseOvs(f[1]); err != nil {
			return c, err
		}
	default:
		return c, fmt.Errorf("kind %q", f[0])
	}
	for _, v := range append(srcPeerIdx(c.raw, c.srcs), absAll(c.ops)...) {
		if v >= universe {
			return c, fmt.Errorf("peer index %d out of range", v)
		}
	}
	return c, nil
}

func absAll(ops []int) []int {
	var out []int
	for _, o := range ops {
		if o >= hsBase {
			out = append(out, o-hsBase)
			continue
		}
		if o < 0 {
			o = -o
		}
		out = append(out, o-1)
	}
	return out
}

func (w *world) replayAuth(out *common.Out) {
	sc := bufio.NewScanner(os.Stdin)
	sc.Buffer(make([]byte, 1<<20), 1<<20)
	var cur *served
	curKey := ""
	defer func() {
		if cur != nil {
			cur.cleanup()
		}
	}()
	for sc.Scan() {
		line := strings.TrimSpace(sc.Text())
		if line == "" || strings.HasPrefix(line, "#") {
			continue
		}
		if i := strings.Index(line, " => "); i >= 0 {
			line = line[:i]
		}
		f := strings.Fields(line)
		if len(f) > 0 && f[0] == "C07" {
			f = f[1:]
		}
		if len(f) == 0 {
			continue
		}
		if f[0] == "cfg" {
			if len(f) < 2 {
				out.Line("C07 %s => unparsable", strings.Join(f, " "))
				continue
			}
			raw, srcs, err := parseSrcs(f[1])
			bad := err != nil
			for _, v := range srcPeerIdx(raw, srcs) {
				bad = bad || v >= universe
			}
			if bad {
				out.Line("C07 %s => unparsable", strings.Join(f, " "))
				continue
			}
			out.Line("%s", cfgLine(w.ids, raw, srcs))
			continue
		}
		if f[0] == "hs" {
			caller := 0
			if len(f) >= 3 {
				caller, _ = strconv.Atoi(f[2])
			}
			if len(f) < 3 || f[1] != "crdt" || caller < 1 || caller > nClients {
				out.Line("C07 %s => unparsable", strings.Join(f, " "))
				continue
			}
			if cur != nil {
				cur.cleanup()
				cur, curKey = nil, ""
			}
			// crdt peer that lists nobody: the caller is not trusted; one handshake by it
			s, err := w.serve(config{kind: "shipped", mode: "crdt", raw: []int{}, ops: []int{hsBase + caller}})
			if err != nil {
				out.Line("# inconclusive C07 %s (setup: %v)", strings.Join(f, " "), err)
				continue
			}
			w.flushHs(out)
			s.cleanup()
			continue
		}
		c, err := configOfLine(f)
		if err != nil {
			out.Line("C07 %s => unparsable", strings.Join(f, " "))
			continue
		}
		key := c.prefix() + " " + ovsStr(c.ovs)
		if cur == nil || key != curKey {
			if cur != nil {
				cur.cleanup()
				cur = nil
			}
			s, err := w.serve(c)
			if err != nil {
				if _, ok := err.(errConfig); ok {
					out.Line("C07 %s => cfgerr", strings.Join(f, " "))
				} else {
					out.Line("# inconclusive C07 %s (setup: %v)", strings.Join(f, " "), err)
				}
				continue
			}
			cur, curKey = s, key
		}
		in := "C07 " + strings.Join(f, " ")
		switch f[0] {
		case "trust":
			p, err := strconv.Atoi(f[5])
			if err != nil || p < 0 || p >= universe || f[4] != "0" {
				out.Line("%s => unparsable", in)
				continue
			}
			b := 0
			if cur.cons.IsTrustedPeer(ctx, w.pid(p)) {
				b = 1
			}
			out.Line("%s => %d", in, b)
		case "valid":
			out.Line("%s => %s", in, validate(cur.cluster, c))
		case "rpc":
			caller := -1
			if f[7] == "self" {
				caller = 0
			} else if strings.HasPrefix(f[7], "r") {
				if v, err := strconv.Atoi(f[7][1:]); err == nil && v >= 1 && v <= nClients {
					caller = v
				}
			}
			name := strings.Join(f[9:], " ")
			var ep *endpoint
			for i := range w.eps {
				if epName(w.eps[i]) == name {
					ep = &w.eps[i]
				}
			}
			if caller < 0 || f[6] != "0" {
				out.Line("%s => unparsable", in)
				continue
			}
			if ep == nil {
				d := strings.Index(name, ".")
				if d < 0 {
					out.Line("%s => unparsable", in)
					continue
				}
				ep = &endpoint{svc: name[:d], method: name[d+1:], reply: reflect.TypeOf(&struct{}{})}
			}
			emit(out, in, w.call(cur, caller, *ep))
			if caller > 0 {
				emit(out, in, w.rawCall(caller, *ep, nil))
				emit(out, in, w.rawCall(caller, *ep, []byte{0xc1, 0xff, 0x00, 0x93}))
			}
		}
	}
}

// ---------------------------------------------------------------- main

func main() {
	args := common.ParseArgs()
	out := common.NewOut()
	defer out.Flush()
	suite := args.Extra["suite"]
	if suite == "" {
		suite = "auth"
	}
	if suite == "rep" {
		runRep(out, args)
		return
	}
	if suite == "pol" {
		runPol(out, args)
		return
	}
	if suite == "dmn" {
		runDmn(out, args)
		return
	}
	w, err := newWorld()
	if err != nil {
		out.Line("# inconclusive C07 auth (world setup: %v)", err)
		return
	}
	defer func() { w.close() }()
	if args.Extra["stdin"] == "1" {
		w.replayAuth(out)
		return
	}
	n := args.N
	if n < 0 {
		n = 40
	}
	// one configuration in four makes every call; the others only ask the consensus component
	root := common.NewRng(common.Seed())
	for k := 0; k < n; k++ {
		if args.Only >= 0 && k != args.Only {
			continue
		}
		if w.seq >= 150 {
			// a shut-down crdt component leaves memory and background work behind on its host: start over
			w.close()
			if w, err = newWorld(); err != nil {
				out.Line("# inconclusive C07 auth (world setup: %v)", err)
				return
			}
		}
		r := root.Fork(uint64(k))
		c := genConfig(r, w, k)
		full := k < len(boundary) || k%4 == 0
		if err := w.runConfig(out, c, full, 7, r); err != nil {
			if _, ok := err.(errConfig); ok {
				out.Line("C07 trust %s %s %s 0 0 => cfgerr", c.mode, srcsStr(c.raw, c.srcs), opsStr(c.ops))
			} else {
				out.Line("# inconclusive C07 config %d %s (setup: %v)", k, c.prefix(), err)
			}
		}
		out.Flush()
	}
}
