package main

// Suite "rep": pinset updates published by untrusted peers are ignored.
//
// Five real crdt consensus components on five real hosts (loopback TCP, gossipsub
// with signed messages), fully connected and sharing one cluster name:
//
//   0      the observer, configured with the case's trusted_peers and then
//          given the case's Trust/Distrust calls;
//   1..3   publishers: each trusts only the observer, so none of them merges (and
//          re-publishes) what another publisher wrote;
//   W      a witness that trusts everyone; it is never named in a configuration.
//          Its only job is to show that every published update did travel.
//
// The observer first logs its own pins (`before`); when all publishers have them
// the messages are logged by their signers in order (LogPin / LogUnpin). The
// case waits until the witness holds what all messages together produce and the
// observer holds what the messages of the peers it trusts produce, waits a grace
// period, and prints the observer's pinset. If the updates do not travel in time
// the case is inconclusive (liveness is not this property).
//
// Generated messages never conflict (fresh pins are added, only observer pins
// are removed, each pin is touched once) so the outcome does not depend on CRDT
// merge order.

import (
	"bufio"
	"context"
	"fmt"
	"os"
	"sort"
	"strconv"
	"strings"
	"time"

	"github.com/ipfs/ipfs-cluster/api"
	"github.com/ipfs/ipfs-cluster/consensus/crdt"

	peer "github.com/libp2p/go-libp2p-core/peer"

	"verifharness/common"
)

const nPub = 3

type msg struct {
	signer, pin int
	add         bool
}

type repCase struct {
	srcs   []source // nil: one file with trusted_peers = raw
	raw    []int
	ops    []int
	before []int
	msgs   []msg
}

func msgsStr(ms []msg) string {
	if len(ms) == 0 {
		return "-"
	}
	s := make([]string, len(ms))
	for i, m := range ms {
		sign := "-"
		if m.add {
			sign = "+"
		}
		s[i] = fmt.Sprintf("%d:%d:%s", m.signer, m.pin, sign)
	}
	return strings.Join(s, ",")
}

func (c repCase) String() string {
	return fmt.Sprintf("C07 rep %s %s 0 %s %s", srcsStr(c.raw, c.srcs), opsStr(c.ops), common.Ints(c.before), msgsStr(c.msgs))
}

type repWorld struct {
	nodes  []*node // 0 observer, 1..3 publishers, 4 witness
	ids    []peer.ID
	seq    int
	cancel context.CancelFunc
}

var repSeq int

func newRepWorld() (*repWorld, error) {
	wctx, cancel := context.WithCancel(ctx)
	w := &repWorld{cancel: cancel}
	for i := 0; i < nPub+2; i++ {
		n, err := newNode(wctx, true)
		if err != nil {
			return nil, err
		}
		w.nodes = append(w.nodes, n)
	}
	for i := 0; i <= nPub; i++ {
		w.ids = append(w.ids, w.nodes[i].h.ID())
	}
	for i := len(w.ids); i < universe; i++ {
		w.ids = append(w.ids, common.PeerN(i))
	}
	return w, nil
}

// reconnect drops every connection and dials the full mesh again: bitswap (created
// with each consensus component) only learns about peers that connect after it exists.
func (w *repWorld) disconnect() {
	for _, a := range w.nodes {
		for _, b := range w.nodes {
			if a != b {
				a.h.Network().ClosePeer(b.h.ID())
			}
		}
	}
}

func (w *repWorld) connectAll() error {
	for i := range w.nodes {
		for j := i + 1; j < len(w.nodes); j++ {
			if err := connect(w.nodes[i].h, w.nodes[j].h); err != nil {
				return err
			}
		}
	}
	return nil
}

func (w *repWorld) close() {
	for _, n := range w.nodes {
		n.h.Close()
	}
	w.cancel()
}

func pinset(cc *crdt.Consensus) ([]int, error) {
	st, err := cc.State(ctx)
	if err != nil {
		return nil, err
	}
	pins, err := st.List(ctx)
	if err != nil {
		return nil, err
	}
	var out []int
	for _, p := range pins {
		out = append(out, common.CidIndex(p.Cid, 64))
	}
	sort.Ints(out)
	return out, nil
}

func hasAll(set, want []int) bool {
	m := map[int]bool{}
	for _, v := range set {
		m[v] = true
	}
	for _, v := range want {
		if !m[v] {
			return false
		}
	}
	return true
}

func hasNone(set, not []int) bool {
	m := map[int]bool{}
	for _, v := range set {
		m[v] = true
	}
	for _, v := range not {
		if m[v] {
			return false
		}
	}
	return true
}

func waitFor(d time.Duration, f func() bool) bool {
	end := time.Now().Add(d)
	for {
		if f() {
			return true
		}
		if time.Now().After(end) {
			return false
		}
		time.Sleep(40 * time.Millisecond)
	}
}

func testPin(n int) *api.Pin {
	p := api.PinCid(common.CidN(n))
	p.ReplicationFactorMin = -1
	p.ReplicationFactorMax = -1
	return p
}

// run executes one case; returns the observer's pinset or a reason why it is inconclusive.
func (w *repWorld) run(c repCase, grace time.Duration) ([]int, string) {
	w.seq++
	repSeq++
	name := fmt.Sprintf("c07rep-%d-%d", os.Getpid(), repSeq)
	var ccs []*crdt.Consensus
	w.disconnect()
	defer func() {
		for _, cc := range ccs {
			cc.Shutdown(ctx)
		}
	}()
	for i, n := range w.nodes {
		var cc *crdt.Consensus
		var err error
		switch {
		case i == 0:
			cc, err = startCRDT(n, w.ids, name, c.raw, c.srcs)
		case i <= nPub:
			cc, err = startCRDT(n, w.ids, name, []int{0}, nil)
		default:
			cc, err = startCRDT(n, w.ids, name, []int{-1}, nil)
		}
		if err != nil {
			return nil, "setup: " + err.Error()
		}
		ccs = append(ccs, cc)
	}
	if err := w.connectAll(); err != nil {
		return nil, "connect: " + err.Error()
	}
	obs, wit := ccs[0], ccs[nPub+1]
	for _, o := range c.ops {
		if o >= hsBase {
			continue // handshakes are exercised by the auth suite (needs an RPC server)
		}
		if o > 0 {
			obs.Trust(ctx, w.ids[o-1])
		} else {
			obs.Distrust(ctx, w.ids[-o-1])
		}
	}
	time.Sleep(300 * time.Millisecond) // let gossipsub learn who subscribes
	for _, b := range c.before {
		if err := obs.LogPin(ctx, testPin(b)); err != nil {
			return nil, "observer LogPin: " + err.Error()
		}
	}
	ok := waitFor(20*time.Second, func() bool {
		for _, cc := range ccs {
			s, err := pinset(cc)
			if err != nil || !hasAll(s, c.before) {
				return false
			}
		}
		return true
	})
	if !ok {
		return nil, "the observer's own pins did not reach every replica"
	}
	// what the messages produce at the witness, and the trusted part at the observer
	var allAdd, allDel, trAdd, trDel []int
	for _, m := range c.msgs {
		var err error
		if m.add {
			err = ccs[m.signer].LogPin(ctx, testPin(m.pin))
		} else {
			err = ccs[m.signer].LogUnpin(ctx, testPin(m.pin))
		}
		if err != nil {
			return nil, "publisher log: " + err.Error()
		}
		tr := obs.IsTrustedPeer(ctx, w.ids[m.signer])
		if m.add {
			allAdd = append(allAdd, m.pin)
			if tr {
				trAdd = append(trAdd, m.pin)
			}
		} else {
			allDel = append(allDel, m.pin)
			if tr {
				trDel = append(trDel, m.pin)
			}
		}
		time.Sleep(30 * time.Millisecond)
	}
	ok = waitFor(20*time.Second, func() bool {
		s, err := pinset(wit)
		if err != nil || !hasAll(s, allAdd) || !hasNone(s, allDel) {
			return false
		}
		s, err = pinset(obs)
		return err == nil && hasAll(s, trAdd) && hasNone(s, trDel)
	})
	if !ok {
		return nil, "published updates did not travel in 20s"
	}
	time.Sleep(grace)
	s, err := pinset(obs)
	if err != nil {
		return nil, "observer state: " + err.Error()
	}
	return s, ""
}

func genRep(r *common.Rng, k int) repCase {
	var c repCase
	switch k {
	case 0: // the observer trusts 1 only: 2's pin must not appear, 1's must
		return repCase{raw: []int{1}, msgs: []msg{{2, 20, true}, {1, 21, true}}}
	case 1: // Distrust after configuration; an untrusted peer tries to remove an observer pin
		return repCase{raw: []int{1, 2}, ops: []int{-3}, before: []int{10}, msgs: []msg{{2, 10, false}, {1, 22, true}}}
	case 2: // nobody trusted
		return repCase{before: []int{11}, msgs: []msg{{1, 20, true}, {3, 11, false}}}
	case 3: // everyone trusted
		return repCase{raw: []int{-1}, before: []int{10}, msgs: []msg{{2, 20, true}, {3, 10, false}}}
	case 4: // the defaults (trust everyone) restricted by an environment list
		return repCase{srcs: []source{{kind: 'D'}, {kind: 'E', list: []int{1}}}, msgs: []msg{{2, 20, true}, {1, 21, true}}}
	case 5: // a file with "*" restricted by an environment list
		return repCase{srcs: []source{{kind: 'L', list: []int{-1}}, {kind: 'E', list: []int{2}}}, before: []int{10},
			msgs: []msg{{3, 10, false}, {2, 20, true}}}
	}
	for n := r.Intn(3); n > 0; n-- {
		if r.Chance(1, 14) {
			c.raw = append(c.raw, -1)
		} else if r.Chance(1, 6) {
			c.raw = append(c.raw, r.Intn(universe))
		} else {
			c.raw = append(c.raw, r.Range(1, nPub))
		}
	}
	if r.Chance(2, 5) {
		// the observer's configuration comes from several sources
		c.srcs = genSrcs(r, func() []int {
			var l []int
			for n := r.Intn(3); n > 0; n-- {
				if r.Chance(1, 10) {
					l = append(l, -1)
				} else {
					l = append(l, r.Range(1, nPub))
				}
			}
			return l
		})
		c.raw = nil
	}
	for n := r.Intn(4); n > 0; n-- {
		p := r.Range(1, nPub)
		if r.Bool() {
			c.ops = append(c.ops, p+1)
		} else {
			c.ops = append(c.ops, -(p + 1))
		}
	}
	nb := r.Intn(3)
	for i := 0; i < nb; i++ {
		c.before = append(c.before, 10+i)
	}
	free := append([]int{}, c.before...)
	next := 20
	for n := r.Range(1, 4); n > 0; n-- {
		s := r.Range(1, nPub)
		if len(free) > 0 && r.Chance(1, 3) {
			i := r.Intn(len(free))
			c.msgs = append(c.msgs, msg{s, free[i], false})
			free = append(free[:i], free[i+1:]...)
		} else {
			c.msgs = append(c.msgs, msg{s, next, true})
			next++
		}
	}
	return c
}

func parseRep(f []string) (repCase, error) {
	// f: tokens after "C07 rep"
	var c repCase
	var err error
	if len(f) < 5 || f[2] != "0" {
		return c, fmt.Errorf("rep arity")
	}
	if c.raw, c.srcs, err = parseSrcs(f[0]); err != nil {
		return c, err
	}
	if c.ops, err = parseOps(f[1]); err != nil {
		return c, err
	}
	for _, v := range append(srcPeerIdx(c.raw, c.srcs), absAll(c.ops)...) {
		if v >= universe {
			return c, fmt.Errorf("peer index out of range")
		}
	}
	if f[3] != "-" {
		for _, t := range strings.Split(f[3], ",") {
			v, err := strconv.Atoi(t)
			if err != nil || v < 0 || v >= 64 {
				return c, fmt.Errorf("before %q", t)
			}
			c.before = append(c.before, v)
		}
	}
	if f[4] != "-" {
		for _, t := range strings.Split(f[4], ",") {
			p := strings.Split(t, ":")
			if len(p) != 3 || (p[2] != "+" && p[2] != "-") {
				return c, fmt.Errorf("msg %q", t)
			}
			s, e1 := strconv.Atoi(p[0])
			pin, e2 := strconv.Atoi(p[1])
			if e1 != nil || e2 != nil || s < 1 || s > nPub || pin < 0 || pin >= 64 {
				return c, fmt.Errorf("msg %q", t)
			}
			c.msgs = append(c.msgs, msg{s, pin, p[2] == "+"})
		}
	}
	return c, nil
}

func runRep(out *common.Out, args common.Args) {
	grace := 400 * time.Millisecond
	if args.Tier == "thorough" {
		grace = 1200 * time.Millisecond
	}
	// fresh hosts for every case: a shut-down crdt component leaves subscriptions, bitswap and
	// background loops behind on its host, and later cases on the same hosts lose updates
	var w *repWorld
	defer func() {
		if w != nil {
			w.close()
		}
	}()
	do := func(c repCase) {
		var s []int
		why := ""
		for attempt := 0; attempt < 2; attempt++ {
			if w != nil { // fresh hosts for every case
				w.close()
				w = nil
			}
			if w == nil {
				var err error
				if w, err = newRepWorld(); err != nil {
					w = nil
					why = "world setup: " + err.Error()
					continue
				}
			}
			if s, why = w.run(c, grace); why == "" {
				break
			}
		}
		if why != "" {
			fmt.Fprintf(os.Stderr, "inconclusive %s (%s)\n", c, why)
			out.Line("# inconclusive %s (%s)", c, why)
		} else {
			out.Line("%s => %s", c, common.Ints(s))
		}
		out.Flush()
	}
	if args.Extra["stdin"] == "1" {
		sc := bufio.NewScanner(os.Stdin)
		for sc.Scan() {
			line := strings.TrimSpace(sc.Text())
			if line == "" || strings.HasPrefix(line, "#") {
				continue
			}
			if i := strings.Index(line, " => "); i >= 0 {
				line = line[:i]
			}
			f := strings.Fields(line)
			if len(f) > 0 && f[0] == "C07" {
				f = f[1:]
			}
			if len(f) == 0 || f[0] != "rep" {
				continue
			}
			c, err := parseRep(f[1:])
			if err != nil {
				out.Line("C07 %s => unparsable", strings.Join(f, " "))
				continue
			}
			do(c)
		}
		return
	}
	n := args.N
	if n < 0 {
		n = 4
	}
	root := common.NewRng(common.Seed() ^ 0x7e9)
	for k := 0; k < n; k++ {
		if args.Only >= 0 && k != args.Only {
			continue
		}
		do(genRep(root.Fork(uint64(k)), k))
	}
}
