// Suite "pol": where the RPC policy table of a cluster Config comes from.
//
// One case = a sequence of configuration steps on a zero ipfscluster.Config:
//
//	D          cfg.Default()
//	L[entries] cfg.LoadJSON(valid service JSON that ALSO carries an object with policy entries, under the key
//	           spellings "rpc_policy", "rpcpolicy", "RPCPolicy")
//	E[entries] cfg.ApplyEnvVars() with CLUSTER_RPCPOLICY / CLUSTER_RPC_POLICY set to "Name:<int>,…" (envconfig's map syntax)
//	F          what cmd/ipfs-cluster-follow does after loading: cfg.RPCPolicy["Cluster.RepoGCLocal"] = RPCClosed
//	H[entries] (round 8b) the daemon's path through package cmdutils: a FRESH Config loaded by NewLoadedConfigHelper from a
//	           service.json on disk (written by a ConfigHelper; its cluster section also carries the entries under the
//	           three key spellings), then SetupTracing; the case goes on with Configs().Cluster
//
// Output `C07 pol <steps> => <nil | differences of cfg.RPCPolicy against the shipped table> <Validate ok|err>`, and, when the
// configuration validates, `C07 polrpc <steps> <t|u> <Svc.Method> => …`: the real newRPCServer built from THAT Config
// (crdt consensus trusting r1 only) is called over libp2p by r1 (trusted) and r2 (untrusted) on the endpoints the entries name
// and on a fixed sample. Config.Default() installs the package-level map itself, so F edits DefaultRPCPolicy: the
// shipped values are put back after every case.
package main

import (
	"bufio"
	"encoding/json"
	"fmt"
	"os"
	"path/filepath"
	"sort"
	"strconv"
	"strings"

	ipfscluster "github.com/ipfs/ipfs-cluster"
	"github.com/ipfs/ipfs-cluster/cmdutils"

	"verifharness/common"
)

type pentry struct {
	key string
	val int
}

type pstep struct {
	kind    byte
	entries []pentry
}

func pstepsStr(steps []pstep) string {
	if len(steps) == 0 {
		return "-"
	}
	var parts []string
	for _, s := range steps {
		p := string(s.kind)
		var es []string
		for _, e := range s.entries {
			es = append(es, e.key+":"+strconv.Itoa(e.val))
		}
		parts = append(parts, p+strings.Join(es, ","))
	}
	return strings.Join(parts, "/")
}

func parsePsteps(tok string) ([]pstep, error) {
	if tok == "-" {
		return nil, nil
	}
	var out []pstep
	for _, p := range strings.Split(tok, "/") {
		if p == "" {
			return nil, fmt.Errorf("empty step")
		}
		s := pstep{kind: p[0]}
		switch p[0] {
		case 'D', 'F':
			if len(p) != 1 {
				return nil, fmt.Errorf("step %q", p)
			}
		case 'L', 'E', 'H':
			if len(p) > 1 {
				for _, e := range strings.Split(p[1:], ",") {
					kv := strings.Split(e, ":")
					if len(kv) != 2 {
						return nil, fmt.Errorf("entry %q", e)
					}
					v, err := strconv.Atoi(kv[1])
					if err != nil {
						return nil, err
					}
					s.entries = append(s.entries, pentry{kv[0], v})
				}
			}
		default:
			return nil, fmt.Errorf("step %q", p)
		}
		out = append(out, s)
	}
	return out, nil
}

var shippedPolicy = func() map[string]ipfscluster.RPCEndpointType {
	m := map[string]ipfscluster.RPCEndpointType{}
	for k, v := range ipfscluster.DefaultRPCPolicy {
		m[k] = v
	}
	return m
}()

func restoreShipped() {
	for k := range ipfscluster.DefaultRPCPolicy {
		if _, ok := shippedPolicy[k]; !ok {
			delete(ipfscluster.DefaultRPCPolicy, k)
		}
	}
	for k, v := range shippedPolicy {
		ipfscluster.DefaultRPCPolicy[k] = v
	}
}

var injectedKeys = []string{"rpc_policy", "rpcpolicy", "RPCPolicy"}
var injectedEnv = []string{"CLUSTER_RPCPOLICY", "CLUSTER_RPC_POLICY"}

// baselineJSON is the service JSON of a default configuration, as a generic object.
func baselineJSON() (map[string]interface{}, error) {
	d := &ipfscluster.Config{}
	if err := d.Default(); err != nil {
		return nil, err
	}
	raw, err := d.ToJSON()
	if err != nil {
		return nil, err
	}
	m := map[string]interface{}{}
	return m, json.Unmarshal(raw, &m)
}

func guard(f func() error) (err error) {
	defer func() {
		if r := recover(); r != nil {
			err = fmt.Errorf("panic: %v", r)
		}
	}()
	return f()
}

// buildPolicyConfig takes a zero Config through the steps; step errors are kept as comments, not verdicts.
func buildPolicyConfig(steps []pstep) (*ipfscluster.Config, []string) {
	cfg := &ipfscluster.Config{}
	var notes []string
	for _, s := range steps {
		var err error
		switch s.kind {
		case 'D':
			err = guard(cfg.Default)
		case 'L':
			err = guard(func() error {
				m, err := baselineJSON()
				if err != nil {
					return err
				}
				if len(s.entries) > 0 {
					obj := map[string]int{}
					for _, e := range s.entries {
						obj[e.key] = e.val
					}
					for _, k := range injectedKeys {
						m[k] = obj
					}
				}
				raw, err := json.Marshal(m)
				if err != nil {
					return err
				}
				return cfg.LoadJSON(raw)
			})
		case 'E':
			var es []string
			for _, e := range s.entries {
				es = append(es, e.key+":"+strconv.Itoa(e.val))
			}
			if len(es) > 0 {
				for _, k := range injectedEnv {
					os.Setenv(k, strings.Join(es, ","))
				}
			}
			err = guard(cfg.ApplyEnvVars)
			for _, k := range injectedEnv {
				os.Unsetenv(k)
			}
		case 'F':
			err = guard(func() error {
				cfg.RPCPolicy["Cluster.RepoGCLocal"] = ipfscluster.RPCClosed
				return nil
			})
		case 'H':
			var loaded *ipfscluster.Config
			err = guard(func() error {
				var e error
				loaded, e = daemonConfig(s.entries)
				return e
			})
			if loaded != nil {
				cfg = loaded // what the daemon hands to NewCluster: a fresh Config, loaded by the helper
			}
		}
		if err != nil {
			notes = append(notes, string(s.kind)+": "+err.Error())
		}
	}
	return cfg, notes
}

// daemonConfig is the configuration path of ipfs-cluster-service / ipfs-cluster-follow (cmdutils): a service.json and an
// identity.json written by a ConfigHelper (Manager.Default + SaveJSON), the cluster section of the file extended by the
// injected policy objects, then NewLoadedConfigHelper (config.Manager.LoadJSONFileAndEnv: LoadJSON + ApplyEnvVars of
// every registered component) and SetupTracing; the daemon passes Configs().Cluster to NewCluster.
func daemonConfig(entries []pentry) (*ipfscluster.Config, error) {
	base := os.Getenv("VERIF_SCRATCH")
	if base == "" {
		base = os.TempDir()
	}
	dir, err := os.MkdirTemp(base, "c07-helper-")
	if err != nil {
		return nil, err
	}
	defer os.RemoveAll(dir)
	cfgPath, idPath := filepath.Join(dir, "service.json"), filepath.Join(dir, "identity.json")
	w := cmdutils.NewConfigHelper(cfgPath, idPath, "crdt", "leveldb")
	defer w.Manager().Shutdown()
	if err := w.Manager().Default(); err != nil {
		return nil, err
	}
	if err := w.Identity().Default(); err != nil {
		return nil, err
	}
	if err := w.SaveConfigToDisk(); err != nil {
		return nil, err
	}
	if err := w.SaveIdentityToDisk(); err != nil {
		return nil, err
	}
	if len(entries) > 0 {
		raw, err := os.ReadFile(cfgPath)
		if err != nil {
			return nil, err
		}
		m := map[string]interface{}{}
		if err := json.Unmarshal(raw, &m); err != nil {
			return nil, err
		}
		sec, ok := m["cluster"].(map[string]interface{})
		if !ok {
			return nil, fmt.Errorf("service.json without a cluster section")
		}
		obj := map[string]int{}
		for _, e := range entries {
			obj[e.key] = e.val
		}
		for _, k := range injectedKeys {
			sec[k] = obj
			m[k] = obj // and at the top level, next to the sections
		}
		raw, err = json.MarshalIndent(m, "", "  ")
		if err != nil {
			return nil, err
		}
		if err := os.WriteFile(cfgPath, raw, 0600); err != nil {
			return nil, err
		}
	}
	ch, err := cmdutils.NewLoadedConfigHelper(cfgPath, idPath)
	if err != nil {
		return nil, err
	}
	defer ch.Manager().Shutdown()
	ch.SetupTracing(false)
	return ch.Configs().Cluster, nil
}

func policyDiff(t map[string]ipfscluster.RPCEndpointType) string {
	if t == nil {
		return "nil"
	}
	keys := map[string]bool{}
	for k := range t {
		keys[k] = true
	}
	for k := range shippedPolicy {
		keys[k] = true
	}
	var ks []string
	for k := range keys {
		ks = append(ks, k)
	}
	sort.Strings(ks)
	var out []string
	for _, k := range ks {
		v, ok := t[k]
		sv, sok := shippedPolicy[k]
		switch {
		case !ok:
			out = append(out, k+":-")
		case !sok || v != sv:
			out = append(out, k+":"+strconv.Itoa(int(v)))
		}
	}
	if len(out) == 0 {
		return "-"
	}
	return strings.Join(out, ",")
}

var polSample = []string{"Cluster.ID", "Cluster.Version", "Cluster.PeerAdd", "Cluster.Pin", "Cluster.Pins", "Cluster.RepoGCLocal",
	"Cluster.RepoGC", "Consensus.LogPin", "IPFSConnector.Pin", "IPFSConnector.BlockPut", "PinTracker.Track", "PinTracker.Status",
	"PeerMonitor.LatestMetrics"}

func (w *world) runPolCase(out *common.Out, steps []pstep, withRPC bool) {
	defer restoreShipped()
	cfg, notes := buildPolicyConfig(steps)
	for _, n := range notes {
		out.Line("# note pol %s: %s", pstepsStr(steps), n)
	}
	valid := "ok"
	if err := guard(cfg.Validate); err != nil {
		valid = "err"
	}
	out.Line("C07 pol %s => %s %s", pstepsStr(steps), policyDiff(cfg.RPCPolicy), valid)
	if !withRPC || valid != "ok" {
		return
	}
	s, err := w.serve(config{kind: "shipped", mode: "crdt", raw: []int{1}, cfgOverride: cfg})
	if err != nil {
		out.Line("# inconclusive C07 polrpc %s (setup: %v)", pstepsStr(steps), err)
		return
	}
	defer s.cleanup()
	want := map[string]bool{}
	for _, n := range polSample {
		want[n] = true
	}
	for _, st := range steps {
		for _, e := range st.entries {
			want[e.key] = true
		}
	}
	for _, ep := range w.eps[:w.nReg] {
		if !want[epName(ep)] {
			continue
		}
		for caller, cls := range map[int]string{1: "t", 2: "u"} {
			emit(out, fmt.Sprintf("C07 polrpc %s %s %s", pstepsStr(steps), cls, epName(ep)), w.call(s, caller, ep))
		}
	}
}

var polBoundary = []string{
	"D", "L", "D/L", "D/E", "D/L/E/F", "L/F", "-", "E", "F", "D/F/D", "F/D",
	"H", "HCluster.Pin:2", "H/F", "D/F/H", "HCluster.RepoGCLocal:2/F/HConsensus.LogPin:2,Cluster.Pins:1",
	"D/LCluster.Pin:2", "LCluster.Pin:2,IPFSConnector.Pin:1", "D/ECluster.Pin:2", "L/ECluster.Pins:2,Consensus.LogPin:2",
	"LCluster.RepoGCLocal:2/F", "L/F/ECluster.RepoGCLocal:2", "D/LCluster.Secrets:2", "LPinTracker.Track:7/ECluster.ID:0",
	"LCluster.Pin:2/L", "D/LIPFSConnector.BlockPut:2/EPinTracker.RecoverAll:1/F",
}

func genPsteps(r *common.Rng, eps []endpoint) []pstep {
	n := r.Range(1, 5)
	var steps []pstep
	genEntries := func() []pentry {
		if r.Range(0, 3) == 0 {
			return nil
		}
		var es []pentry
		for i := r.Range(1, 4); i > 0; i-- {
			es = append(es, pentry{epName(eps[r.Range(0, len(eps)-1)]), []int{2, 2, 1, 0, 3, -1}[r.Range(0, 5)]})
		}
		return es
	}
	for i := 0; i < n; i++ {
		switch r.Range(0, 6) {
		case 6:
			steps = append(steps, pstep{kind: 'H', entries: genEntries()})
		case 0:
			steps = append(steps, pstep{kind: 'D'})
		case 1, 2:
			steps = append(steps, pstep{kind: 'L', entries: genEntries()})
		case 3, 4:
			steps = append(steps, pstep{kind: 'E', entries: genEntries()})
		default:
			steps = append(steps, pstep{kind: 'F'})
		}
	}
	if steps[0].kind != 'D' && steps[0].kind != 'L' && steps[0].kind != 'H' && r.Range(0, 4) != 0 {
		steps = append([]pstep{{kind: 'D'}}, steps...)
	}
	return steps
}

func runPol(out *common.Out, args common.Args) {
	w, err := newWorld()
	if err != nil {
		out.Line("# inconclusive C07 pol (world setup: %v)", err)
		return
	}
	defer func() { w.close() }()
	if args.Extra["stdin"] == "1" {
		replayPol(w, out)
		return
	}
	n := args.N
	if n < 0 {
		n = 30
	}
	root := common.NewRng(common.Seed())
	for k := 0; k < n; k++ {
		if args.Only >= 0 && k != args.Only {
			continue
		}
		r := root.Fork(uint64(k))
		var steps []pstep
		if k < len(polBoundary) {
			steps, _ = parsePsteps(polBoundary[k])
		} else {
			steps = genPsteps(r, w.eps[:w.nReg])
		}
		w.runPolCase(out, steps, k < len(polBoundary) || k%3 == 0)
		out.Flush()
	}
}

// replayPol re-executes the input parts of `pol` / `polrpc` case lines read from stdin.
func replayPol(w *world, out *common.Out) {
	sc := bufio.NewScanner(os.Stdin)
	sc.Buffer(make([]byte, 1<<20), 1<<20)
	for sc.Scan() {
		line := strings.TrimSpace(sc.Text())
		if line == "" || strings.HasPrefix(line, "#") {
			continue
		}
		if i := strings.Index(line, " => "); i >= 0 {
			line = line[:i]
		}
		f := strings.Fields(line)
		if len(f) > 0 && f[0] == "C07" {
			f = f[1:]
		}
		if len(f) < 2 {
			continue
		}
		steps, err := parsePsteps(f[1])
		switch {
		case err != nil:
			out.Line("C07 %s => unparsable", strings.Join(f, " "))
		case f[0] == "pol" && len(f) == 2:
			w.runPolCase(out, steps, false)
		case f[0] == "polrpc" && len(f) == 4 && (f[2] == "t" || f[2] == "u"):
			w.replayPolRPC(out, steps, f[2], f[3])
		default:
			out.Line("C07 %s => unparsable", strings.Join(f, " "))
		}
		out.Flush()
	}
}

func (w *world) replayPolRPC(out *common.Out, steps []pstep, cls, name string) {
	defer restoreShipped()
	line := fmt.Sprintf("C07 polrpc %s %s %s", pstepsStr(steps), cls, name)
	cfg, _ := buildPolicyConfig(steps)
	if err := guard(cfg.Validate); err != nil {
		out.Line("# inconclusive %s (configuration does not validate: %v)", line, err)
		return
	}
	s, err := w.serve(config{kind: "shipped", mode: "crdt", raw: []int{1}, cfgOverride: cfg})
	if err != nil {
		out.Line("# inconclusive %s (setup: %v)", line, err)
		return
	}
	defer s.cleanup()
	caller := 1
	if cls == "u" {
		caller = 2
	}
	for _, ep := range w.eps[:w.nReg] {
		if epName(ep) == name {
			emit(out, line, w.call(s, caller, ep))
			return
		}
	}
	out.Line("%s => unparsable", line)
}
