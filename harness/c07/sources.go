package main

// Where the crdt configuration of a case comes from: a sequence of sources applied to a
// zero crdt.Config with the real methods —
//
//   D        cfg.Default()
//   L<list>  cfg.LoadJSON(file whose trusted_peers is <list>)
//   E<list>  CLUSTER_CRDT_TRUSTEDPEERS=<list> ; cfg.ApplyEnvVars()      (E- : set to the empty string)
//   A        the variable unset            ; cfg.ApplyEnvVars()
//
// written `D/E1,2`, `L*/E3`, `L1/A` on a case line; a bare `<list>` is `L<list>` (one file).
// The first source must be D or L (a zero Config does not validate).

import (
	"encoding/json"
	"fmt"
	"os"
	"strings"
	"time"

	"github.com/ipfs/ipfs-cluster/consensus/crdt"

	peer "github.com/libp2p/go-libp2p-core/peer"

	"verifharness/common"
)

const trustedPeersEnv = "CLUSTER_CRDT_TRUSTEDPEERS"

type source struct {
	kind byte // D L E A
	list []int
}

func srcsStr(raw []int, srcs []source) string {
	if srcs == nil {
		return rawStr(raw)
	}
	s := make([]string, len(srcs))
	for i, x := range srcs {
		switch x.kind {
		case 'D', 'A':
			s[i] = string(x.kind)
		default:
			s[i] = string(x.kind) + rawStr(x.list)
		}
	}
	return strings.Join(s, "/")
}

func parseSrcs(tok string) (raw []int, srcs []source, err error) {
	if !strings.ContainsAny(tok, "/DLEA") {
		raw, err = parseRaw(tok)
		return
	}
	srcs = []source{}
	for _, t := range strings.Split(tok, "/") {
		if t == "" {
			return nil, nil, fmt.Errorf("empty source")
		}
		x := source{kind: t[0]}
		switch t[0] {
		case 'D', 'A':
			if len(t) != 1 {
				return nil, nil, fmt.Errorf("source %q", t)
			}
		case 'L', 'E':
			if x.list, err = parseRaw(t[1:]); err != nil {
				return nil, nil, err
			}
		default:
			x.kind = 'L'
			if x.list, err = parseRaw(t); err != nil {
				return nil, nil, err
			}
		}
		srcs = append(srcs, x)
	}
	if srcs[0].kind != 'D' && srcs[0].kind != 'L' {
		return nil, nil, fmt.Errorf("the first source must be D or L")
	}
	return
}

func srcPeerIdx(raw []int, srcs []source) []int {
	out := append([]int{}, raw...)
	for _, s := range srcs {
		out = append(out, s.list...)
	}
	return out
}

func peerStrings(ids []peer.ID, list []int) []string {
	out := []string{}
	for _, v := range list {
		if v < 0 {
			out = append(out, "*")
		} else {
			out = append(out, peer.Encode(ids[v]))
		}
	}
	return out
}

// buildCRDTConfig runs the sources on a zero Config with the real methods.
func buildCRDTConfig(ids []peer.ID, name string, raw []int, srcs []source) (*crdt.Config, error) {
	if srcs == nil {
		srcs = []source{{kind: 'L', list: raw}}
	}
	cfg := &crdt.Config{}
	os.Unsetenv(trustedPeersEnv)
	for _, s := range srcs {
		var err error
		switch s.kind {
		case 'D':
			err = cfg.Default()
		case 'L':
			js, _ := json.Marshal(map[string]interface{}{"cluster_name": name, "trusted_peers": peerStrings(ids, s.list), "rebroadcast_interval": "1s"})
			err = cfg.LoadJSON(js)
		case 'E':
			os.Setenv(trustedPeersEnv, strings.Join(peerStrings(ids, s.list), ","))
			err = cfg.ApplyEnvVars()
			os.Unsetenv(trustedPeersEnv)
		case 'A':
			err = cfg.ApplyEnvVars()
		default:
			err = fmt.Errorf("source kind %q", s.kind)
		}
		if err != nil {
			return nil, errConfig{err}
		}
	}
	return cfg, nil
}

func idxOf(ids []peer.ID, p peer.ID) int {
	for i, q := range ids {
		if p == q {
			return i
		}
	}
	return 99
}

// cfgLine observes the Config itself: TrustAll, TrustedPeers and what ToJSON prints.
func cfgLine(ids []peer.ID, raw []int, srcs []source) string {
	in := "C07 cfg " + srcsStr(raw, srcs)
	cfg, err := buildCRDTConfig(ids, "c07cfg", raw, srcs)
	if err != nil {
		return in + " => cfgerr"
	}
	ta := 0
	if cfg.TrustAll {
		ta = 1
	}
	var peers []int
	for _, p := range cfg.TrustedPeers {
		peers = append(peers, idxOf(ids, p))
	}
	js, err := cfg.ToJSON()
	if err != nil {
		return in + " => tojsonerr"
	}
	var back struct {
		TrustedPeers []string `json:"trusted_peers"`
	}
	if err := json.Unmarshal(js, &back); err != nil {
		return in + " => tojsonerr"
	}
	var printed []int
	for _, s := range back.TrustedPeers {
		if s == "*" {
			printed = append(printed, -1)
			continue
		}
		p, err := peer.Decode(s)
		if err != nil {
			return in + " => tojsonerr"
		}
		printed = append(printed, idxOf(ids, p))
	}
	return fmt.Sprintf("%s => %d %s %s", in, ta, common.Ints(peers), rawStr(printed))
}

// genSrcs draws a source sequence; genList draws a trusted_peers list.
func genSrcs(r *common.Rng, genList func() []int) []source {
	var out []source
	if r.Bool() {
		out = append(out, source{kind: 'D'})
	} else {
		out = append(out, source{kind: 'L', list: genList()})
	}
	for n := r.Range(1, 3); n > 0; n-- {
		switch x := r.Intn(10); {
		case x < 6:
			out = append(out, source{kind: 'E', list: genList()})
		case x < 8:
			out = append(out, source{kind: 'A'})
		case x < 9:
			out = append(out, source{kind: 'L', list: genList()})
		default:
			out = append(out, source{kind: 'D'})
		}
	}
	return out
}

// startCRDT starts a real crdt consensus component with the configuration the sources produce.
func startCRDT(n *node, ids []peer.ID, name string, raw []int, srcs []source) (*crdt.Consensus, error) {
	cfg, err := buildCRDTConfig(ids, name, raw, srcs)
	if err != nil {
		return nil, err
	}
	cfg.ClusterName = name
	cfg.DatastoreNamespace = "/" + name
	cfg.RebroadcastInterval = time.Second
	return newCRDTWith(n, cfg)
}
