package main

// Round 8c.
//
// Suite `dmn`: the REST API over libp2p. For each daemon (service, follower) x consensus x (libp2p_listen_multiaddress set?) x
// (basic_auth_credentials set?) x (is the calling swarm peer listed as trusted?) the REAL rest.API is built the way the daemon's
// source says today (common.C07DaemonFacts reads cmd/*: which constructor, which host, under which consensus guard) with a
// real libp2p host standing for the cluster host, and a second real host - a swarm peer holding nothing but a connection to the
// cluster host, no credentials - sends `POST /pins/<cid>` over a libp2p stream to the CLUSTER host.
//   C07 dmn <svc|follow> <raft|crdt> <addr> <auth> <listed> => <ctor> <nil|cluster|other> <none|own|cluster> <noproto|status>
//
// Recording components (handshake op of suite auth): a tracker / IPFS connector / allocator that record every call, put behind
// the real server, so that an open handler that drives a component leaves a trace:
//   C07 hs <raft|crdt> <caller> => <component.method,…|->

import (
	"bufio"
	"context"
	crand "crypto/rand"
	"fmt"
	"net/http"
	"os"
	"sort"
	"strings"
	"sync"
	"time"

	ipfscluster "github.com/ipfs/ipfs-cluster"
	"github.com/ipfs/ipfs-cluster/api"
	"github.com/ipfs/ipfs-cluster/api/rest"
	"github.com/ipfs/ipfs-cluster/test"

	cid "github.com/ipfs/go-cid"
	crypto "github.com/libp2p/go-libp2p-core/crypto"
	host "github.com/libp2p/go-libp2p-core/host"
	peer "github.com/libp2p/go-libp2p-core/peer"
	rpc "github.com/libp2p/go-libp2p-gorpc"
	p2phttp "github.com/libp2p/go-libp2p-http"
	ma "github.com/multiformats/go-multiaddr"

	"verifharness/common"
)

// ---------------------------------------------------------------- recording components

type recorder struct {
	mu    sync.Mutex
	calls map[string]bool
}

func (r *recorder) add(c string) {
	r.mu.Lock()
	if r.calls == nil {
		r.calls = map[string]bool{}
	}
	r.calls[c] = true
	r.mu.Unlock()
}

func (r *recorder) take() string {
	r.mu.Lock()
	defer r.mu.Unlock()
	var l []string
	for c := range r.calls {
		l = append(l, c)
	}
	r.calls = nil
	sort.Strings(l)
	if len(l) == 0 {
		return "-"
	}
	return strings.Join(l, ",")
}

type recIPFS struct{ r *recorder }

func (x recIPFS) SetClient(*rpc.Client)          {}
func (x recIPFS) Shutdown(context.Context) error { return nil }
func (x recIPFS) ID(context.Context) (*api.IPFSID, error) {
	x.r.add("ipfs.ID")
	return &api.IPFSID{}, nil
}
func (x recIPFS) Pin(context.Context, *api.Pin) error { x.r.add("ipfs.Pin"); return nil }
func (x recIPFS) Unpin(context.Context, cid.Cid) error { x.r.add("ipfs.Unpin"); return nil }
func (x recIPFS) PinLsCid(context.Context, *api.Pin) (api.IPFSPinStatus, error) {
	x.r.add("ipfs.PinLsCid")
	return api.IPFSPinStatusUnpinned, nil
}
func (x recIPFS) PinLs(context.Context, string) (map[string]api.IPFSPinStatus, error) {
	x.r.add("ipfs.PinLs")
	return map[string]api.IPFSPinStatus{}, nil
}
func (x recIPFS) ConnectSwarms(context.Context) error { x.r.add("ipfs.ConnectSwarms"); return nil }
func (x recIPFS) SwarmPeers(context.Context) ([]peer.ID, error) {
	x.r.add("ipfs.SwarmPeers")
	return nil, nil
}
func (x recIPFS) ConfigKey(string) (interface{}, error) { x.r.add("ipfs.ConfigKey"); return nil, nil }
func (x recIPFS) RepoStat(context.Context) (*api.IPFSRepoStat, error) {
	x.r.add("ipfs.RepoStat")
	return &api.IPFSRepoStat{}, nil
}
func (x recIPFS) RepoGC(context.Context) (*api.RepoGC, error) {
	x.r.add("ipfs.RepoGC")
	return &api.RepoGC{}, nil
}
func (x recIPFS) Resolve(context.Context, string) (cid.Cid, error) {
	x.r.add("ipfs.Resolve")
	return cid.Undef, nil
}
func (x recIPFS) BlockPut(context.Context, *api.NodeWithMeta) error { x.r.add("ipfs.BlockPut"); return nil }
func (x recIPFS) BlockGet(context.Context, cid.Cid) ([]byte, error) {
	x.r.add("ipfs.BlockGet")
	return nil, nil
}

type recTracker struct{ r *recorder }

func (x recTracker) SetClient(*rpc.Client)                 {}
func (x recTracker) Shutdown(context.Context) error        { return nil }
func (x recTracker) Track(context.Context, *api.Pin) error { x.r.add("tracker.Track"); return nil }
func (x recTracker) Untrack(context.Context, cid.Cid) error {
	x.r.add("tracker.Untrack")
	return nil
}
func (x recTracker) StatusAll(context.Context, api.TrackerStatus) []*api.PinInfo {
	x.r.add("tracker.StatusAll")
	return nil
}
func (x recTracker) Status(context.Context, cid.Cid) *api.PinInfo {
	x.r.add("tracker.Status")
	return &api.PinInfo{}
}
func (x recTracker) RecoverAll(context.Context) ([]*api.PinInfo, error) {
	x.r.add("tracker.RecoverAll")
	return nil, nil
}
func (x recTracker) Recover(context.Context, cid.Cid) (*api.PinInfo, error) {
	x.r.add("tracker.Recover")
	return &api.PinInfo{}, nil
}

type recAlloc struct{ r *recorder }

func (x recAlloc) SetClient(*rpc.Client)          {}
func (x recAlloc) Shutdown(context.Context) error { return nil }
func (x recAlloc) Allocate(ctx context.Context, c cid.Cid, current, candidates, priority map[peer.ID]*api.Metric) ([]peer.ID, error) {
	x.r.add("allocator.Allocate")
	return nil, nil
}

// recConsensus records the calls that write: the pinset (LogPin/LogUnpin), membership beyond the join (RmPeer) and trust.
type recConsensus struct {
	ipfscluster.Consensus
	r *recorder
}

func (x recConsensus) LogPin(ctx context.Context, p *api.Pin) error {
	x.r.add("consensus.LogPin")
	return x.Consensus.LogPin(ctx, p)
}
func (x recConsensus) LogUnpin(ctx context.Context, p *api.Pin) error {
	x.r.add("consensus.LogUnpin")
	return x.Consensus.LogUnpin(ctx, p)
}
func (x recConsensus) RmPeer(ctx context.Context, p peer.ID) error {
	x.r.add("consensus.RmPeer")
	return x.Consensus.RmPeer(ctx, p)
}
func (x recConsensus) AddPeer(ctx context.Context, p peer.ID) error {
	x.r.add("consensus.AddPeer")
	return x.Consensus.AddPeer(ctx, p)
}
func (x recConsensus) Peers(ctx context.Context) ([]peer.ID, error) {
	x.r.add("consensus.Peers")
	return x.Consensus.Peers(ctx)
}
func (x recConsensus) Trust(ctx context.Context, p peer.ID) error {
	x.r.add("consensus.Trust")
	return x.Consensus.Trust(ctx, p)
}
func (x recConsensus) Distrust(ctx context.Context, p peer.ID) error {
	x.r.add("consensus.Distrust")
	return x.Consensus.Distrust(ctx, p)
}

// ---------------------------------------------------------------- suite dmn

type dmnCase struct {
	dir, mode          string
	addr, auth, listed bool
}

func b01(b bool) string {
	if b {
		return "1"
	}
	return "0"
}

func (c dmnCase) in() string {
	return fmt.Sprintf("C07 dmn %s %s %s %s %s", c.dir, c.mode, b01(c.addr), b01(c.auth), b01(c.listed))
}

func allDmnCases() []dmnCase {
	var l []dmnCase
	for _, dm := range [][2]string{{"svc", "crdt"}, {"svc", "raft"}, {"follow", "crdt"}} {
		for i := 0; i < 8; i++ {
			l = append(l, dmnCase{dm[0], dm[1], i&1 != 0, i&2 != 0, i&4 != 0})
		}
	}
	return l
}

var dmnDirs = map[string]string{"svc": "cmd/ipfs-cluster-service", "follow": "cmd/ipfs-cluster-follow"}

func runDmnCase(out *common.Out, facts *common.C07Daemon, cluster, _ host.Host, c dmnCase) {
	// a fresh swarm peer per case: a host remembers which protocols a peer answered before and then negotiates lazily
	sn, err0 := newNode(ctx, false)
	if err0 != nil {
		out.Line("# inconclusive %s (host: %v)", c.in(), err0)
		return
	}
	defer sn.h.Close()
	if err0 = connect(sn.h, cluster); err0 != nil {
		out.Line("# inconclusive %s (connect: %v)", c.in(), err0)
		return
	}
	swarm := sn.h
	ctor, hostKind, err := facts.RestCtorFor(dmnDirs[c.dir], c.mode)
	if err != nil {
		out.Line("%s => ? other unknown err", c.in())
		return
	}
	cfg := &rest.Config{}
	cfg.Default()
	laddr, _ := ma.NewMultiaddr("/ip4/127.0.0.1/tcp/0")
	cfg.HTTPListenAddr = []ma.Multiaddr{laddr}
	if c.addr {
		priv, pub, _ := crypto.GenerateEd25519Key(crand.Reader)
		id, _ := peer.IDFromPublicKey(pub)
		cfg.ID, cfg.PrivateKey, cfg.Libp2pListenAddr = id, priv, []ma.Multiaddr{laddr}
	}
	if c.auth {
		cfg.BasicAuthCredentials = map[string]string{"operator": "secret"}
	}
	var a *rest.API
	hk := "other"
	switch {
	case ctor == "NewAPI":
		hk = "nil"
		a, err = rest.NewAPI(ctx, cfg)
	case ctor == "NewAPIWithHost" && hostKind == "clusterhost":
		hk = "cluster"
		a, err = rest.NewAPIWithHost(ctx, cfg, cluster)
	case ctor == "NewAPIWithHost" && hostKind == "nil":
		hk = "nil"
		a, err = rest.NewAPIWithHost(ctx, cfg, nil)
	default:
		out.Line("%s => %s other unknown err", c.in(), ctor)
		return
	}
	if err != nil {
		out.Line("# inconclusive %s (rest constructor: %v)", c.in(), err)
		return
	}
	a.SetClient(test.NewMockRPCClientWithHost(nil, cluster))
	defer a.Shutdown(ctx)
	listener := "own"
	switch h := a.Host(); {
	case h == nil:
		listener = "none"
	case h.ID() == cluster.ID():
		listener = "cluster"
	}
	tr := &http.Transport{}
	tr.RegisterProtocol("libp2p", p2phttp.NewTransport(swarm))
	cl := &http.Client{Transport: tr, Timeout: 20 * time.Second}
	status := "err"
	resp, err := cl.Post(fmt.Sprintf("libp2p://%s/pins/%s", cluster.ID().Pretty(), test.Cid1.String()), "application/json", nil)
	if err != nil {
		if strings.Contains(err.Error(), "not supported") {
			status = "noproto"
		} else {
			fmt.Fprintf(os.Stderr, "dmn request: %v\n", err)
		}
	} else {
		status = fmt.Sprint(resp.StatusCode)
		resp.Body.Close()
	}
	out.Line("%s => %s %s %s %s", c.in(), ctor, hk, listener, status)
}

func runDmn(out *common.Out, args common.Args) {
	repo := os.Getenv("VERIF_REPO")
	if repo == "" {
		repo = "/repo"
	}
	facts, err := common.C07DaemonFacts(repo)
	if err != nil {
		fmt.Fprintf(os.Stderr, "daemon facts: %v\n", err)
		os.Exit(1)
	}
	cn, err := newNode(ctx, false)
	if err != nil {
		out.Line("# inconclusive C07 dmn (host: %v)", err)
		return
	}
	defer cn.h.Close()
	sn, err := newNode(ctx, false)
	if err != nil {
		out.Line("# inconclusive C07 dmn (host: %v)", err)
		return
	}
	defer sn.h.Close()
	if err := connect(sn.h, cn.h); err != nil {
		out.Line("# inconclusive C07 dmn (connect: %v)", err)
		return
	}
	if args.Extra["stdin"] == "1" {
		sc := bufio.NewScanner(os.Stdin)
		for sc.Scan() {
			line := strings.TrimSpace(sc.Text())
			if i := strings.Index(line, " => "); i >= 0 {
				line = line[:i]
			}
			f := strings.Fields(line)
			if len(f) > 0 && f[0] != "C07" {
				f = append([]string{"C07"}, f...)
			}
			if len(f) < 7 || f[1] != "dmn" || strings.HasPrefix(line, "#") {
				continue
			}
			runDmnCase(out, facts, cn.h, sn.h, dmnCase{f[2], f[3], f[4] == "1", f[5] == "1", f[6] == "1"})
			out.Flush()
		}
		return
	}
	cases := allDmnCases()
	n := args.N
	if n < 0 || n > len(cases) {
		n = len(cases)
	}
	for k := 0; k < n; k++ {
		if args.Only >= 0 && k != args.Only {
			continue
		}
		runDmnCase(out, facts, cn.h, sn.h, cases[k])
		out.Flush()
	}
}
