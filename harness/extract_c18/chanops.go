package main

// Round 8b: channel operations of the ANCHORED FILES as facts (semantic tie of the synchronisation models).
// Every send statement and every close(ch) call in a function of one of the anchored files becomes a row
//   (function, "send" | "close", channel expression, class)
// class of a send: "blocking" (a plain statement), "default" (a case of a select that has a default clause),
// "select" (a case of a select without default). Function literals belong to the enclosing declaration.
// Model/C18ChanOps.lean maps every row to the instruction of the transcribed program and checks the shape
// (tryOp vs plain send, presence of the close); an unknown row fails closed.

import (
	"fmt"
	"go/ast"
	"path/filepath"
	"strings"

	"verifharness/skel"
)

var anchoredFiles = map[string][]string{
	".":                    {"cluster.go"},
	"pintracker/optracker": {"operationtracker.go", "operation.go"},
	"pintracker/stateless": {"stateless.go"},
	"monitor/metrics":      {"store.go", "window.go", "checker.go"},
	"informer/disk":        {"disk.go"},
	"informer/numpin":      {"numpin.go"},
	"consensus/crdt":       {"consensus.go"},
}

func chanOpsLean() string {
	var rows []string
	for _, d := range pkgDirs {
		p := pkgs[d]
		for _, f := range p.files {
			base := filepath.Base(p.fset.Position(f.Pos()).Filename)
			ok := false
			for _, a := range anchoredFiles[d] {
				if a == base {
					ok = true
				}
			}
			if !ok {
				continue
			}
			for _, decl := range f.Decls {
				fd, isF := decl.(*ast.FuncDecl)
				if !isF || fd.Body == nil {
					continue
				}
				name := fd.Name.Name
				if fd.Recv != nil && len(fd.Recv.List) == 1 {
					t := fd.Recv.List[0].Type
					if se, ok := t.(*ast.StarExpr); ok {
						t = se.X
					}
					if id, ok := t.(*ast.Ident); ok {
						name = id.Name + "." + name
					}
				}
				fn := d + "|" + name
				var stack []ast.Node
				ast.Inspect(fd.Body, func(n ast.Node) bool {
					if n == nil {
						stack = stack[:len(stack)-1]
						return true
					}
					switch x := n.(type) {
					case *ast.SendStmt:
						class := "blocking"
						if len(stack) >= 3 {
							if cc, ok := stack[len(stack)-1].(*ast.CommClause); ok && cc.Comm == ast.Stmt(x) {
								if sel, ok := stack[len(stack)-3].(*ast.SelectStmt); ok {
									class = "select"
									for _, c := range sel.Body.List {
										if c.(*ast.CommClause).Comm == nil {
											class = "default"
										}
									}
								} else {
									class = "unknown"
								}
							}
						}
						rows = append(rows, fmt.Sprintf("(%s, \"send\", %s, %s)", leanStr(fn), leanStr(skel.Src(x.Chan)), leanStr(class)))
					case *ast.CallExpr:
						if id, ok := x.Fun.(*ast.Ident); ok && id.Name == "close" && len(x.Args) == 1 {
							rows = append(rows, fmt.Sprintf("(%s, \"close\", %s, \"-\")", leanStr(fn), leanStr(skel.Src(x.Args[0]))))
						}
					}
					stack = append(stack, n)
					return true
				})
			}
		}
	}
	return "/-- every channel send / close in a function of the anchored files: function `pkg|Recv.name`, operation, channel expression,\nclass of a send (`blocking`: plain statement; `default`: case of a select with a default clause; `select`: case of a select without) -/\n" +
		"def chanOps : List (String × String × String × String) := [\n  " + strings.Join(rows, ",\n  ") + "\n]\n\n"
}
