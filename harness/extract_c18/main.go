// extract_c18: the C18 translator. A purely syntactic (go/ast, no type
// checker) lockset extractor over the packages anchored by property C18.
//
// It prints a Lean file (lean/ClusterVerif/Gen/C18.lean) with
//   * the discipline: every designated field with the mutex designated for it,
//   * every access (read/write) to a designated field in every function of the
//     analysed packages, with the locks held at that point,
//   * every nested lock acquisition (direct, or through a resolved call),
//   * every `go` statement that starts a method of an analysed type,
//   * every construct the extractor did not understand in a function that
//     touches a designated field or a mutex (fail closed: a non-empty list
//     makes a Lean theorem fail).
//
// Recognised lock shapes: `B.m.Lock()` / `RLock()` (shared) followed in the
// same function by `B.m.Unlock()` / `RUnlock()` or `defer B.m.Unlock()`, where
// `B.m` is a struct field of type sync.Mutex / sync.RWMutex. Branches must
// agree on what they hold where they join.
//
// Exemption rule (the only one): key/value initialisers inside a composite
// literal of the owning struct type are not accesses (the object is not yet
// published to any other goroutine).
//
// Not tracked (named in notes/C18.md and CHECK["assumptions"]): pointers to
// guarded data handed to other functions as arguments or return values, RPC
// dispatch, channel / WaitGroup / context ordering.
package main

import (
	"fmt"
	"go/ast"
	"go/parser"
	"go/printer"
	"go/token"
	"os"
	"path/filepath"
	"sort"
	"strings"

	"verifharness/skel"
)

const modPath = "github.com/ipfs/ipfs-cluster"

// analysed packages (directories relative to the repository root)
var pkgDirs = []string{".", "pintracker/optracker", "pintracker/stateless", "monitor/metrics",
	"informer/disk", "informer/numpin", "consensus/crdt"}

// kind of discipline
const (
	kLocked    = "locked"    // every access inside a hold of the mutex, writes exclusive
	kImmutable = "immutable" // never written outside the composite literal that creates the object
	kPublished = "published" // written only in `writer` before it starts `reader` with a go statement; read only by those two
)

type guard struct {
	pkg, typ, field string
	kind            string
	mutex           string // kLocked
	deep            bool   // the mutex also guards what the field points to (map/slice/ring contents)
	writer, reader  string // kPublished
}

// The discipline L. deep=true: the guarded thing is the structure behind the
// field (map, slice backing array, ring), so local aliases into it count.
var guards = []guard{
	{pkg: ".", typ: "Cluster", field: "alerts", kind: kLocked, mutex: "alertsMux", deep: true},
	{pkg: ".", typ: "Cluster", field: "shutdownB", kind: kLocked, mutex: "shutdownLock"},
	{pkg: ".", typ: "Cluster", field: "readyB", kind: kLocked, mutex: "stateLock"},   // since /repo 87856f0 (before: shutdownLock)
	{pkg: ".", typ: "Cluster", field: "removed", kind: kLocked, mutex: "stateLock"},  // since /repo 87856f0
	{pkg: "pintracker/optracker", typ: "OperationTracker", field: "operations", kind: kLocked, mutex: "mu", deep: true},
	{pkg: "pintracker/optracker", typ: "Operation", field: "phase", kind: kLocked, mutex: "mu"},
	{pkg: "pintracker/optracker", typ: "Operation", field: "error", kind: kLocked, mutex: "mu"},
	{pkg: "pintracker/optracker", typ: "Operation", field: "ts", kind: kLocked, mutex: "mu"},
	{pkg: "pintracker/stateless", typ: "Tracker", field: "shutdown", kind: kLocked, mutex: "shutdownMu"},
	{pkg: "monitor/metrics", typ: "Store", field: "byName", kind: kLocked, mutex: "mux", deep: true},
	{pkg: "monitor/metrics", typ: "Window", field: "window", kind: kLocked, mutex: "wMu", deep: true},
	{pkg: "monitor/metrics", typ: "Checker", field: "failedPeers", kind: kLocked, mutex: "failedPeersMu", deep: true},
	{pkg: "monitor/metrics", typ: "Checker", field: "alertedFor", kind: kLocked, mutex: "failedPeersMu", deep: true},
	{pkg: "informer/disk", typ: "Informer", field: "rpcClient", kind: kLocked, mutex: "mu"},
	{pkg: "informer/numpin", typ: "Informer", field: "rpcClient", kind: kLocked, mutex: "mu"},
	{pkg: "consensus/crdt", typ: "Consensus", field: "shutdown", kind: kLocked, mutex: "shutdownLock"},
	{pkg: "consensus/crdt", typ: "Consensus", field: "batchItemCh", kind: kImmutable},
	{pkg: "consensus/crdt", typ: "Consensus", field: "batchingState", kind: kPublished, writer: "setup", reader: "batchWorker"},
}

// ---------------------------------------------------------------- packages

type pkgInfo struct {
	dir     string
	fset    *token.FileSet
	files   []*ast.File
	types   map[string]*ast.TypeSpec
	funcs   map[string]*ast.FuncDecl // package functions
	methods map[string]*ast.FuncDecl // "Type.Method"
	imports map[string]string        // alias -> analysed package dir ("" = external)
	vars    map[string]*T            // package-level variables with a known (or known-external) type
}

var pkgs = map[string]*pkgInfo{}

func importDir(path string) (string, bool) {
	if path == modPath {
		return ".", true
	}
	if strings.HasPrefix(path, modPath+"/") {
		d := strings.TrimPrefix(path, modPath+"/")
		for _, p := range pkgDirs {
			if p == d {
				return d, true
			}
		}
	}
	return "", false
}

func loadPkg(root, dir string) (*pkgInfo, error) {
	p := &pkgInfo{dir: dir, fset: token.NewFileSet(), types: map[string]*ast.TypeSpec{},
		funcs: map[string]*ast.FuncDecl{}, methods: map[string]*ast.FuncDecl{}, imports: map[string]string{}, vars: map[string]*T{}}
	ents, err := os.ReadDir(filepath.Join(root, dir))
	if err != nil {
		return nil, err
	}
	var names []string
	for _, e := range ents {
		n := e.Name()
		if e.IsDir() || !strings.HasSuffix(n, ".go") || strings.HasSuffix(n, "_test.go") {
			continue
		}
		names = append(names, n)
	}
	sort.Strings(names)
	for _, n := range names {
		f, err := parser.ParseFile(p.fset, filepath.Join(root, dir, n), nil, 0)
		if err != nil {
			return nil, err
		}
		if f.Name.Name == "main" {
			continue
		}
		p.files = append(p.files, f)
		for _, im := range f.Imports {
			path := strings.Trim(im.Path.Value, "\"")
			alias := filepath.Base(path)
			if im.Name != nil {
				alias = im.Name.Name
			}
			d, ok := importDir(path)
			if ok {
				p.imports[alias] = d
			} else if _, seen := p.imports[alias]; !seen {
				p.imports[alias] = ""
			}
		}
		for _, d := range f.Decls {
			switch d := d.(type) {
			case *ast.GenDecl:
				for _, s := range d.Specs {
					if ts, ok := s.(*ast.TypeSpec); ok {
						p.types[ts.Name.Name] = ts
					}
					if vs, ok := s.(*ast.ValueSpec); ok && d.Tok == token.VAR {
						for i, n := range vs.Names {
							if vs.Type != nil {
								p.vars[n.Name] = &T{dir, vs.Type}
							} else if i < len(vs.Values) {
								if call, ok := vs.Values[i].(*ast.CallExpr); ok {
									if sel, ok := call.Fun.(*ast.SelectorExpr); ok {
										if x, ok := sel.X.(*ast.Ident); ok {
											if dd, isImp := p.imports[x.Name]; isImp && dd == "" {
												p.vars[n.Name] = ext(dir)
											}
										}
									}
								}
							}
						}
					}
				}
			case *ast.FuncDecl:
				if d.Recv == nil {
					p.funcs[d.Name.Name] = d
				} else if len(d.Recv.List) == 1 {
					p.methods[recvTypeName(d.Recv.List[0].Type)+"."+d.Name.Name] = d
				}
			}
		}
	}
	return p, nil
}

func recvTypeName(e ast.Expr) string {
	switch e := e.(type) {
	case *ast.StarExpr:
		return recvTypeName(e.X)
	case *ast.Ident:
		return e.Name
	case *ast.IndexExpr:
		return recvTypeName(e.X)
	}
	return "?"
}

// ---------------------------------------------------------------- types

// T is a type expression interpreted in a package.
type T struct {
	pkg string
	e   ast.Expr
}

var externalT = ast.NewIdent("_external")

// ext is the marker for "a value of a type declared outside the analysed packages".
func ext(pkg string) *T { return &T{pkg, externalT} }

func isExternal(t *T) bool {
	if t == nil {
		return false
	}
	if t.e == externalT {
		return true
	}
	switch e := t.e.(type) {
	case *ast.StarExpr:
		return isExternal(&T{t.pkg, e.X})
	case *ast.SelectorExpr:
		if x, ok := e.X.(*ast.Ident); ok {
			if p := pkgs[t.pkg]; p != nil {
				if d, ok := p.imports[x.Name]; ok && d == "" {
					return true
				}
			}
		}
	}
	return false
}

func isSync(t *T, name string) bool {
	if t == nil {
		return false
	}
	if s, ok := t.e.(*ast.SelectorExpr); ok {
		if x, ok := s.X.(*ast.Ident); ok && x.Name == "sync" && s.Sel.Name == name {
			return true
		}
	}
	return false
}

func isMutexType(t *T) (bool, bool) { // (is mutex, is RW)
	if isSync(t, "Mutex") {
		return true, false
	}
	if isSync(t, "RWMutex") {
		return true, true
	}
	return false, false
}

// named resolves t (through pointers) to a type declared in an analysed package.
func named(t *T) (string, string, bool) {
	for i := 0; t != nil && i < 8; i++ {
		switch e := t.e.(type) {
		case *ast.StarExpr:
			t = &T{t.pkg, e.X}
		case *ast.ParenExpr:
			t = &T{t.pkg, e.X}
		case *ast.Ident:
			if p := pkgs[t.pkg]; p != nil {
				if _, ok := p.types[e.Name]; ok {
					return t.pkg, e.Name, true
				}
			}
			return "", "", false
		case *ast.SelectorExpr:
			x, ok := e.X.(*ast.Ident)
			if !ok {
				return "", "", false
			}
			if p := pkgs[t.pkg]; p != nil {
				if d, ok := p.imports[x.Name]; ok && d != "" {
					if _, ok := pkgs[d].types[e.Sel.Name]; ok {
						return d, e.Sel.Name, true
					}
				}
			}
			return "", "", false
		default:
			return "", "", false
		}
	}
	return "", "", false
}

// underlying unfolds named non-struct types (PeerMetrics -> map[...]...).
func underlying(t *T) *T {
	for i := 0; t != nil && i < 8; i++ {
		switch e := t.e.(type) {
		case *ast.ParenExpr:
			t = &T{t.pkg, e.X}
			continue
		case *ast.Ident, *ast.SelectorExpr:
			pk, n, ok := named(t)
			if !ok {
				return t
			}
			t = &T{pk, pkgs[pk].types[n].Type}
			continue
		}
		return t
	}
	return t
}

func structOf(t *T) (*ast.StructType, string, string) {
	pk, n, ok := named(t)
	if !ok {
		return nil, "", ""
	}
	u := underlying(&T{pk, ast.NewIdent(n)})
	if u == nil {
		return nil, "", ""
	}
	if st, ok := u.e.(*ast.StructType); ok {
		return st, pk, n
	}
	return nil, pk, n
}

func fieldType(st *ast.StructType, pk, name string) *T {
	for _, f := range st.Fields.List {
		for _, n := range f.Names {
			if n.Name == name {
				return &T{pk, f.Type}
			}
		}
	}
	return nil
}

func ifaceOf(t *T) (*ast.InterfaceType, string, string) {
	pk, n, ok := named(t)
	if !ok {
		return nil, "", ""
	}
	if it, ok := pkgs[pk].types[n].Type.(*ast.InterfaceType); ok {
		return it, pk, n
	}
	return nil, "", ""
}

func ifaceMethods(pk string, it *ast.InterfaceType, out map[string]bool, depth int) {
	if depth > 6 {
		return
	}
	for _, m := range it.Methods.List {
		if len(m.Names) > 0 {
			for _, n := range m.Names {
				out[n.Name] = true
			}
			continue
		}
		// embedded interface
		if it2, pk2, _ := ifaceOf(&T{pk, m.Type}); it2 != nil {
			ifaceMethods(pk2, it2, out, depth+1)
		}
	}
}

// implementers: analysed struct types whose method names include the interface's.
func implementers(pk string, it *ast.InterfaceType) []string {
	want := map[string]bool{}
	ifaceMethods(pk, it, want, 0)
	var res []string
	for _, d := range pkgDirs {
		p := pkgs[d]
		var tn []string
		for n := range p.types {
			tn = append(tn, n)
		}
		sort.Strings(tn)
		for _, n := range tn {
			if _, ok := p.types[n].Type.(*ast.StructType); !ok {
				continue
			}
			all := true
			for m := range want {
				if _, ok := p.methods[n+"."+m]; !ok {
					all = false
					break
				}
			}
			if all && len(want) > 0 {
				res = append(res, d+"|"+n)
			}
		}
	}
	return res
}

// ---------------------------------------------------------------- analysis state

type lock struct {
	id       int    // instance of the hold (one per Lock()/RLock() statement reached)
	base     string // printed base expression
	key      string // pkg|Type.field  or local:<func>:<expr>
	excl     bool
	deferred bool
}

type access struct {
	holdID int // id of the hold of the designated mutex on the same base, 0 if none
	param  int // 0: direct access to guards[guard]; i+1: through formal parameter i (guard = -1)
	fn    string
	guard int
	write bool
	base  string
	held  []lock
	pos   int
	what  string
}

type edge struct{ from, to, fn string }

type argBind struct {
	param     int    // callee parameter index
	fromParam int    // >= 0: the caller's own formal alias of that index is passed on; -1: a guarded field is passed directly
	guard     int    // guard index (fromParam < 0)
	base      string // base expression of the guarded field in the caller (fromParam < 0)
}

type callRec struct {
	fn      string
	callees []string // candidate function keys
	held    []lock
	recv    string   // printed receiver expression ("" for plain functions)
	args    []string // printed argument expressions ("" = not a simple path)
	binds   []argBind
	pos     int
	deferCl bool // synthetic edge: function -> its deferred closure
}

type fnInfo struct {
	recv     string
	params   []string
	exported bool
}

type escape struct {
	fn    string
	guard int
	kind  string // value | copy | ownlock | payload | raw
	pos   int
	what  string
}

// element types that are never written after they were stored into a guarded structure (trusted, listed in the notes)
var immutablePayload = map[string]bool{"api.Metric": true, "Metric": false}

var (
	fnInfos     = map[string]*fnInfo{}
	usedAsValue = map[string]bool{}
	escapes     []escape
)

// atomic groups: fields of one object that are written together in one critical section and
// must be read together (one critical section) by the functions that build a snapshot of them.
type atomicGroup struct {
	pkg, typ string
	fields   []string
	// functions of the package whose result type mentions this name are snapshot builders
	resultMentions string
}

var atomicGroups = []atomicGroup{
	{pkg: "pintracker/optracker", typ: "Operation", fields: []string{"phase", "error", "ts"}, resultMentions: "PinInfo"},
}

var lockSeq int
var resultTypes = map[string]string{}

type spawn struct {
	fn, callee string
	pos        int
}

var (
	accesses []access
	edges    []edge
	calls    []callRec
	spawns   []spawn
	problems = map[string][]string{} // fn -> problems
	directAq = map[string]map[string]bool{}
	touches  = map[string]bool{} // fn touches a guarded field or a mutex
)

func guardIndex(pk, typ, field string) int {
	for i, g := range guards {
		if g.pkg == pk && g.typ == typ && g.field == field {
			return i
		}
	}
	return -1
}

func guardedName(pk, field string) bool {
	for _, g := range guards {
		if g.pkg == pk && g.field == field {
			return true
		}
	}
	return false
}

type alias struct {
	guard int // >= 0: index into guards; <= -2: formal parameter -(guard+2) of the analysed function (bound at call sites)
	base  string
}

func formalGuard(i int) int { return -(i + 2) }
func isFormal(gi int) bool  { return gi <= -2 }
func formalIdx(gi int) int  { return -gi - 2 }
func gDeep(gi int) bool {
	if gi < 0 {
		return true
	}
	return guards[gi].deep
}

type fctx struct {
	p       *pkgInfo
	fn      string
	env     map[string]*T
	aliases map[string]alias
	results []*T           // declared result types of the function (literal) being analysed
	derived map[string]int // locals holding references taken out of a guarded structure (not aliases into it): name -> guard
	held    []lock
	loops   [][]lock
	pos     int
	nclos   int
}

func (c *fctx) problem(format string, a ...interface{}) {
	problems[c.fn] = append(problems[c.fn], fmt.Sprintf(format, a...))
}

func (c *fctx) str(e ast.Expr) string {
	var b strings.Builder
	printer.Fprint(&b, c.p.fset, e)
	return strings.Join(strings.Fields(b.String()), " ")
}

func copyLocks(l []lock) []lock { return append([]lock(nil), l...) }

func sameLocks(a, b []lock) bool {
	if len(a) != len(b) {
		return false
	}
	x := map[string]int{}
	for _, l := range a {
		x[fmt.Sprintf("%s|%s|%v", l.base, l.key, l.excl)]++
	}
	for _, l := range b {
		x[fmt.Sprintf("%s|%s|%v", l.base, l.key, l.excl)]--
	}
	for _, v := range x {
		if v != 0 {
			return false
		}
	}
	return true
}

// ---------------------------------------------------------------- type inference

func (c *fctx) typeOf(e ast.Expr) *T {
	switch e := e.(type) {
	case *ast.Ident:
		if t, ok := c.env[e.Name]; ok {
			return t
		}
		if t, ok := c.p.vars[e.Name]; ok {
			return t
		}
		return nil
	case *ast.ParenExpr:
		return c.typeOf(e.X)
	case *ast.StarExpr:
		t := c.typeOf(e.X)
		if t == nil {
			return nil
		}
		if s, ok := t.e.(*ast.StarExpr); ok {
			return &T{t.pkg, s.X}
		}
		return nil
	case *ast.UnaryExpr:
		if e.Op == token.AND {
			t := c.typeOf(e.X)
			if t == nil {
				return nil
			}
			return &T{t.pkg, &ast.StarExpr{X: t.e}}
		}
		if e.Op == token.ARROW {
			t := underlying(c.typeOf(e.X))
			if t != nil {
				if ch, ok := t.e.(*ast.ChanType); ok {
					return &T{t.pkg, ch.Value}
				}
			}
		}
		return nil
	case *ast.CompositeLit:
		if e.Type == nil {
			return nil
		}
		return &T{c.p.dir, e.Type}
	case *ast.TypeAssertExpr:
		if e.Type == nil {
			return nil
		}
		return &T{c.p.dir, e.Type}
	case *ast.SelectorExpr:
		if x, ok := e.X.(*ast.Ident); ok {
			if _, isLocal := c.env[x.Name]; !isLocal {
				if d, isImp := c.p.imports[x.Name]; isImp {
					if d == "" {
						return ext(c.p.dir) // package-level variable of a package outside the analysed set
					}
					if t, ok := pkgs[d].vars[e.Sel.Name]; ok {
						return t
					}
					return nil
				}
			}
		}
		bt := c.typeOf(e.X)
		if bt == nil {
			return nil
		}
		if isExternal(bt) {
			return ext(c.p.dir)
		}
		st, pk, _ := structOf(bt)
		if st == nil {
			return nil
		}
		return fieldType(st, pk, e.Sel.Name)
	case *ast.IndexExpr:
		t := underlying(c.typeOf(e.X))
		if t == nil {
			return nil
		}
		switch u := t.e.(type) {
		case *ast.MapType:
			return &T{t.pkg, u.Value}
		case *ast.ArrayType:
			return &T{t.pkg, u.Elt}
		}
		return nil
	case *ast.SliceExpr:
		return c.typeOf(e.X)
	case *ast.CallExpr:
		rs := c.callResults(e)
		if len(rs) > 0 {
			return rs[0]
		}
		return nil
	}
	return nil
}

func resultsOf(pk string, fd *ast.FuncDecl) []*T {
	var rs []*T
	if fd.Type.Results == nil {
		return nil
	}
	for _, f := range fd.Type.Results.List {
		n := len(f.Names)
		if n == 0 {
			n = 1
		}
		for i := 0; i < n; i++ {
			rs = append(rs, &T{pk, f.Type})
		}
	}
	return rs
}

func (c *fctx) callResults(e *ast.CallExpr) []*T {
	switch f := e.Fun.(type) {
	case *ast.Ident:
		switch f.Name {
		case "make", "new":
			if len(e.Args) > 0 {
				if f.Name == "new" {
					return []*T{{c.p.dir, &ast.StarExpr{X: e.Args[0]}}}
				}
				return []*T{{c.p.dir, e.Args[0]}}
			}
		case "append":
			if len(e.Args) > 0 {
				return []*T{c.typeOf(e.Args[0])}
			}
		}
		if fd, ok := c.p.funcs[f.Name]; ok {
			return resultsOf(c.p.dir, fd)
		}
		if _, ok := c.p.types[f.Name]; ok && len(e.Args) == 1 {
			return []*T{{c.p.dir, f}} // conversion
		}
	case *ast.SelectorExpr:
		if x, ok := f.X.(*ast.Ident); ok {
			if _, isLocal := c.env[x.Name]; !isLocal {
				if d, isImp := c.p.imports[x.Name]; isImp {
					if d == "" {
						return []*T{ext(c.p.dir)}
					}
					if fd, ok := pkgs[d].funcs[f.Sel.Name]; ok {
						return resultsOf(d, fd)
					}
					if _, ok := pkgs[d].types[f.Sel.Name]; ok && len(e.Args) == 1 {
						return []*T{{c.p.dir, f}}
					}
					return nil
				}
			}
		}
		bt := c.typeOf(f.X)
		if isExternal(bt) {
			return []*T{ext(c.p.dir)}
		}
		if pk, n, ok := named(bt); ok {
			if fd, ok := pkgs[pk].methods[n+"."+f.Sel.Name]; ok {
				return resultsOf(pk, fd)
			}
			if it, ipk, _ := ifaceOf(bt); it != nil {
				return ifaceMethodResults(ipk, it, f.Sel.Name, 0)
			}
		}
	}
	return nil
}

func ifaceMethodResults(ipk string, it *ast.InterfaceType, name string, depth int) []*T {
	if depth > 6 {
		return nil
	}
	for _, m := range it.Methods.List {
		if len(m.Names) == 0 {
			if it2, pk2, _ := ifaceOf(&T{ipk, m.Type}); it2 != nil {
				if rs := ifaceMethodResults(pk2, it2, name, depth+1); rs != nil {
					return rs
				}
			}
			continue
		}
		for _, mn := range m.Names {
			if mn.Name == name {
				if ft, ok := m.Type.(*ast.FuncType); ok && ft.Results != nil {
					var rs []*T
					for _, r := range ft.Results.List {
						k := len(r.Names)
						if k == 0 {
							k = 1
						}
						for i := 0; i < k; i++ {
							rs = append(rs, &T{ipk, r.Type})
						}
					}
					return rs
				}
			}
		}
	}
	return nil
}

// callees resolves the functions a call may run (analysed packages only).
func (c *fctx) callees(e *ast.CallExpr) (keys []string, unresolvedName string) {
	switch f := e.Fun.(type) {
	case *ast.Ident:
		if _, ok := c.p.funcs[f.Name]; ok {
			return []string{c.p.dir + "|" + f.Name}, ""
		}
		return nil, ""
	case *ast.SelectorExpr:
		if x, ok := f.X.(*ast.Ident); ok {
			if _, isLocal := c.env[x.Name]; !isLocal {
				if d, isImp := c.p.imports[x.Name]; isImp {
					if d != "" {
						if _, ok := pkgs[d].funcs[f.Sel.Name]; ok {
							return []string{d + "|" + f.Sel.Name}, ""
						}
					}
					return nil, ""
				}
			}
		}
		bt := c.typeOf(f.X)
		if bt == nil {
			return nil, f.Sel.Name
		}
		if pk, n, ok := named(bt); ok {
			if _, ok := pkgs[pk].methods[n+"."+f.Sel.Name]; ok {
				return []string{pk + "|" + n + "." + f.Sel.Name}, ""
			}
			if it, ipk, _ := ifaceOf(bt); it != nil {
				for _, impl := range implementers(ipk, it) {
					parts := strings.SplitN(impl, "|", 2)
					if _, ok := pkgs[parts[0]].methods[parts[1]+"."+f.Sel.Name]; ok {
						keys = append(keys, impl+"."+f.Sel.Name)
					}
				}
				return keys, ""
			}
			// embedded / promoted methods are not followed
			return nil, ""
		}
		return nil, "" // resolved to an external type
	}
	return nil, ""
}

// ---------------------------------------------------------------- accesses

// rootGuard: is e an expression rooted at a guarded field / an alias?
// returns guard index, base, and the number of steps below the root.
func (c *fctx) rootGuard(e ast.Expr) (int, string, int, bool) {
	steps := 0
	for {
		switch x := e.(type) {
		case *ast.ParenExpr:
			e = x.X
			continue
		case *ast.Ident:
			if a, ok := c.aliases[x.Name]; ok {
				return a.guard, a.base, steps, true
			}
			return -1, "", 0, false
		case *ast.SelectorExpr:
			if gi, base, ok := c.guardSel(x); ok {
				return gi, base, steps, true
			}
			steps++
			e = x.X
			continue
		case *ast.IndexExpr:
			steps++
			e = x.X
			continue
		case *ast.SliceExpr:
			steps++
			e = x.X
			continue
		case *ast.StarExpr:
			steps++
			e = x.X
			continue
		case *ast.TypeAssertExpr:
			steps++
			e = x.X
			continue
		case *ast.CallExpr:
			if f, ok := x.Fun.(*ast.SelectorExpr); ok {
				steps++
				e = f.X
				continue
			}
			if f, ok := x.Fun.(*ast.Ident); ok && f.Name == "append" && len(x.Args) > 0 {
				steps++
				e = x.Args[0]
				continue
			}
			return -1, "", 0, false
		default:
			return -1, "", 0, false
		}
	}
}

func (c *fctx) guardSel(s *ast.SelectorExpr) (int, string, bool) {
	if !guardedName(c.p.dir, s.Sel.Name) && !guardedAnywhere(s.Sel.Name) {
		return -1, "", false
	}
	bt := c.typeOf(s.X)
	if bt == nil {
		if x, ok := s.X.(*ast.Ident); ok {
			if _, isImp := c.p.imports[x.Name]; isImp {
				if _, isLocal := c.env[x.Name]; !isLocal {
					return -1, "", false
				}
			}
		}
		if guardedName(c.p.dir, s.Sel.Name) {
			c.problem("selector %s: type of base not inferred, field name is guarded in this package", c.str(s))
			touches[c.fn] = true
		}
		return -1, "", false
	}
	pk, n, ok := named(bt)
	if !ok {
		return -1, "", false
	}
	gi := guardIndex(pk, n, s.Sel.Name)
	if gi < 0 {
		return -1, "", false
	}
	return gi, c.str(s.X), true
}

func guardedAnywhere(field string) bool {
	for _, g := range guards {
		if g.field == field {
			return true
		}
	}
	return false
}

func (c *fctx) record(gi int, base string, write bool, what string) {
	if isFormal(gi) {
		// access through a formal parameter: an obligation only in calling contexts that bind the parameter to guarded data
		c.pos++
		accesses = append(accesses, access{param: formalIdx(gi) + 1, fn: c.fn, guard: -1, write: write, base: "", held: copyLocks(c.held), pos: c.pos, what: what})
		return
	}
	touches[c.fn] = true
	c.pos++
	hid := 0
	if g := guards[gi]; g.kind == kLocked {
		for _, h := range c.held {
			if h.base == base && h.key == g.pkg+"|"+g.typ+"."+g.mutex {
				hid = h.id
			}
		}
	}
	accesses = append(accesses, access{holdID: hid, fn: c.fn, guard: gi, write: write, base: base, held: copyLocks(c.held), pos: c.pos, what: what})
}

// lhs handles an assignment target.
func (c *fctx) lhs(e ast.Expr) {
	switch x := e.(type) {
	case *ast.Ident:
		return
	case *ast.ParenExpr:
		c.lhs(x.X)
		return
	}
	gi, base, steps, ok := c.rootGuard(e)
	if ok {
		if steps == 0 {
			c.record(gi, base, true, "assign "+c.str(e))
		} else if gDeep(gi) {
			c.record(gi, base, true, "assign through "+c.str(e))
		} else {
			c.record(gi, base, false, "read for "+c.str(e))
		}
		// index expressions etc. inside the target are reads
		c.subExprs(e)
		return
	}
	c.expr(e)
}

// subExprs visits index/argument sub-expressions of a target chain (not the chain root).
func (c *fctx) subExprs(e ast.Expr) {
	switch x := e.(type) {
	case *ast.ParenExpr:
		c.subExprs(x.X)
	case *ast.SelectorExpr:
		if _, _, ok := c.guardSel(x); ok {
			c.expr(x.X)
			return
		}
		c.subExprs(x.X)
	case *ast.IndexExpr:
		c.expr(x.Index)
		c.subExprs(x.X)
	case *ast.SliceExpr:
		for _, s := range []ast.Expr{x.Low, x.High, x.Max} {
			if s != nil {
				c.expr(s)
			}
		}
		c.subExprs(x.X)
	case *ast.StarExpr:
		c.subExprs(x.X)
	case *ast.TypeAssertExpr:
		c.subExprs(x.X)
	case *ast.CallExpr:
		for _, a := range x.Args {
			c.expr(a)
		}
		if f, ok := x.Fun.(*ast.SelectorExpr); ok {
			c.subExprs(f.X)
		}
	}
}

// expr scans an expression evaluated for its value.
func (c *fctx) expr(e ast.Expr) {
	switch x := e.(type) {
	case nil:
		return
	case *ast.Ident:
		if a, ok := c.aliases[x.Name]; ok {
			c.record(a.guard, a.base, false, "alias "+x.Name)
		}
		if _, isLocal := c.env[x.Name]; !isLocal {
			if _, ok := c.p.funcs[x.Name]; ok {
				usedAsValue[c.p.dir+"|"+x.Name] = true // a function used as a value can be called from anywhere
			}
		}
	case *ast.BasicLit:
	case *ast.ParenExpr:
		c.expr(x.X)
	case *ast.SelectorExpr:
		if gi, base, ok := c.guardSel(x); ok {
			c.record(gi, base, false, "read "+c.str(x))
			c.expr(x.X)
			return
		}
		c.methodValue(x)
		c.expr(x.X)
	case *ast.IndexExpr:
		c.expr(x.X)
		c.expr(x.Index)
	case *ast.SliceExpr:
		c.expr(x.X)
		c.expr(x.Low)
		c.expr(x.High)
		c.expr(x.Max)
	case *ast.StarExpr:
		c.expr(x.X)
	case *ast.UnaryExpr:
		if x.Op == token.AND {
			if gi, base, steps, ok := c.rootGuard(x.X); ok {
				if _, isComposite := x.X.(*ast.CompositeLit); !isComposite {
					c.record(gi, base, false, "address-of "+c.str(x.X))
					if !isFormal(gi) && (steps == 0 || guards[gi].deep) {
						c.problem("address of guarded data taken: &%s", c.str(x.X))
					}
				}
			}
		}
		c.expr(x.X)
	case *ast.BinaryExpr:
		c.expr(x.X)
		c.expr(x.Y)
	case *ast.KeyValueExpr:
		c.expr(x.Key)
		c.expr(x.Value)
	case *ast.TypeAssertExpr:
		c.expr(x.X)
	case *ast.CompositeLit:
		// exemption rule: `field: value` initialisers of a struct literal are
		// not accesses; the values are ordinary expressions.
		for _, el := range x.Elts {
			if kv, ok := el.(*ast.KeyValueExpr); ok {
				if _, isIdent := kv.Key.(*ast.Ident); !isIdent {
					c.expr(kv.Key)
				}
				c.expr(kv.Value)
			} else {
				c.expr(el)
			}
		}
	case *ast.FuncLit:
		// a function literal used as a value (argument of a call): assumed to be
		// run synchronously by the callee, inherits the held set
		c.closure(x, copyLocks(c.held), "")
	case *ast.CallExpr:
		c.call(x)
	case *ast.ArrayType, *ast.MapType, *ast.ChanType, *ast.FuncType, *ast.InterfaceType, *ast.StructType, *ast.Ellipsis:
	default:
		c.problem("expression form %T not understood", e)
	}
}

func (c *fctx) closure(fl *ast.FuncLit, held []lock, suffix string) {
	saveHeld, saveLoops := c.held, c.loops
	saveFn := c.fn
	saveRes := c.results
	c.results = nil
	if fl.Type.Results != nil {
		for _, f := range fl.Type.Results.List {
			k := len(f.Names)
			if k == 0 {
				k = 1
			}
			for i := 0; i < k; i++ {
				c.results = append(c.results, &T{c.p.dir, f.Type})
			}
		}
	}
	defer func() { c.results = saveRes }()
	if suffix != "" {
		c.nclos++
		c.fn = fmt.Sprintf("%s$%s%d", saveFn, suffix, c.nclos)
	}
	// locks inherited from the enclosing function are released there
	inh := copyLocks(held)
	for i := range inh {
		inh[i].deferred = true
	}
	c.held, c.loops = inh, nil
	c.bindFields(fl.Type.Params)
	c.bindFields(fl.Type.Results)
	c.block(fl.Body.List)
	c.endOfFunc()
	c.held, c.loops = saveHeld, saveLoops
	c.fn = saveFn
}

func (c *fctx) bindFields(fl *ast.FieldList) {
	if fl == nil {
		return
	}
	for _, f := range fl.List {
		for _, n := range f.Names {
			c.env[n.Name] = &T{c.p.dir, f.Type}
			delete(c.aliases, n.Name)
			delete(c.derived, n.Name)
		}
	}
}

var lockOps = map[string]bool{"Lock": true, "RLock": true, "Unlock": true, "RUnlock": true}

// mutexOf: is `e` a mutex expression? returns base, key.
func (c *fctx) mutexOf(e ast.Expr) (string, string, bool, bool) {
	t := c.typeOf(e)
	if t != nil {
		if s, ok := t.e.(*ast.StarExpr); ok {
			t = &T{t.pkg, s.X}
		}
	}
	is, _ := isMutexType(t)
	if !is {
		return "", "", false, t != nil
	}
	if s, ok := e.(*ast.SelectorExpr); ok {
		if pk, n, ok := named(c.typeOf(s.X)); ok {
			return c.str(s.X), pk + "|" + n + "." + s.Sel.Name, true, true
		}
	}
	return c.str(e), "local:" + c.fn + ":" + c.str(e), true, true
}

func (c *fctx) lockOp(call *ast.CallExpr, deferred bool) bool {
	sel, ok := call.Fun.(*ast.SelectorExpr)
	if !ok || !lockOps[sel.Sel.Name] || len(call.Args) != 0 {
		return false
	}
	base, key, isMu, resolved := c.mutexOf(sel.X)
	if !isMu {
		if !resolved {
			c.problem("%s(): receiver type not inferred (is it a mutex?)", c.str(call.Fun))
		} else if pk, n, ok := named(c.typeOf(sel.X)); ok {
			if _, has := pkgs[pk].methods[n+"."+sel.Sel.Name]; !has {
				if it, _, _ := ifaceOf(c.typeOf(sel.X)); it == nil {
					touches[c.fn] = true
					c.problem("%s(): lock-like call on a %s that declares no such method (embedded mutex?)", c.str(call.Fun), n)
				}
			}
		}
		return false
	}
	touches[c.fn] = true
	switch sel.Sel.Name {
	case "Lock", "RLock":
		if deferred {
			c.problem("deferred %s", c.str(call.Fun))
			return true
		}
		for _, h := range c.held {
			edges = append(edges, edge{h.key, key, c.fn})
		}
		if directAq[c.fn] == nil {
			directAq[c.fn] = map[string]bool{}
		}
		directAq[c.fn][key] = true
		lockSeq++
		c.held = append(c.held, lock{id: lockSeq, base: base, key: key, excl: sel.Sel.Name == "Lock"})
	default:
		wantExcl := sel.Sel.Name == "Unlock"
		idx := -1
		for i := len(c.held) - 1; i >= 0; i-- {
			if c.held[i].base == base && c.held[i].key == key {
				idx = i
				break
			}
		}
		if idx < 0 {
			c.problem("%s() without a matching hold in this function", c.str(call.Fun))
			return true
		}
		if c.held[idx].excl != wantExcl {
			c.problem("%s() releases a hold of the other mode", c.str(call.Fun))
		}
		if deferred {
			c.held[idx].deferred = true
		} else {
			if c.held[idx].deferred {
				c.problem("%s() on a hold that also has a deferred release", c.str(call.Fun))
			}
			c.held = append(c.held[:idx], c.held[idx+1:]...)
		}
	}
	return true
}

func (c *fctx) call(x *ast.CallExpr) {
	if c.lockOp(x, false) {
		return
	}
	// builtins that write
	if f, ok := x.Fun.(*ast.Ident); ok {
		switch f.Name {
		case "delete":
			if len(x.Args) == 2 {
				if gi, base, _, ok := c.rootGuard(x.Args[0]); ok {
					if gDeep(gi) {
						c.record(gi, base, true, "delete from "+c.str(x.Args[0]))
					} else {
						c.record(gi, base, false, "delete through "+c.str(x.Args[0]))
					}
					c.subExprs(x.Args[0])
					c.expr(x.Args[1])
					return
				}
			}
		case "close":
			// closing a channel is not an assignment to the field
		case "panic":
		}
	}
	// receiver / function expression
	switch f := x.Fun.(type) {
	case *ast.SelectorExpr:
		c.expr(f.X)
	case *ast.FuncLit:
		c.closure(f, copyLocks(c.held), "")
	case *ast.Ident:
	default:
		c.expr(x.Fun)
	}
	for _, a := range x.Args {
		c.expr(a)
	}
	keys, unresolved := c.callees(x)
	cr := callRec{fn: c.fn, held: copyLocks(c.held), pos: c.pos}
	if f, ok := x.Fun.(*ast.SelectorExpr); ok {
		cr.recv = c.simplePath(f.X)
	}
	for i, a := range x.Args {
		cr.args = append(cr.args, c.simplePath(a))
		if gi, base, _, ok := c.rootGuard(a); ok && gDeep(gi) {
			if isFormal(gi) {
				cr.binds = append(cr.binds, argBind{param: i, fromParam: formalIdx(gi)})
			} else {
				cr.binds = append(cr.binds, argBind{param: i, fromParam: -1, guard: gi, base: base})
			}
		}
	}
	if len(keys) > 0 {
		cr.callees = keys
		calls = append(calls, cr)
	} else if unresolved != "" {
		if os.Getenv("EXTRACT_DEBUG") != "" {
			fmt.Fprintf(os.Stderr, "unresolved call %s in %s\n", c.str(x), c.fn)
		}
		// receiver type unknown: every analysed method of that name is a candidate
		var cand []string
		for _, d := range pkgDirs {
			var ks []string
			for k := range pkgs[d].methods {
				if strings.HasSuffix(k, "."+unresolved) {
					ks = append(ks, d+"|"+k)
				}
			}
			sort.Strings(ks)
			cand = append(cand, ks...)
		}
		if len(cand) > 0 {
			cr.callees = cand
			calls = append(calls, cr)
		}
	}
}

// ---------------------------------------------------------------- statements

func (c *fctx) define(name string, t *T, rhs ast.Expr) {
	if name == "_" {
		return
	}
	c.env[name] = t
	delete(c.aliases, name)
	if rhs != nil {
		if gi, base, _, ok := c.rootGuard(rhs); ok && gDeep(gi) && c.aliasType(gi, t) {
			c.aliases[name] = alias{gi, base}
		}
	}
	c.taintLocal(name, t, rhs)
	// a held lock whose base mentions this identifier can no longer be matched
	for _, h := range c.held {
		if h.base == name || strings.HasPrefix(h.base, name+".") {
			c.problem("identifier %s reassigned while %s of it is held", name, h.key)
		}
	}
}

// aliasType: can a local of type t be a pointer INTO the structure guarded for
// guard gi? Yes if the type is unknown (fail closed), a map / slice / array, or
// the type of the guarded field itself (e.g. *ring.Ring). Elements that are
// values (api.Alert) or pointers to other objects with their own discipline
// (*Operation, *Window, *api.Metric) are not part of the guarded structure.
func (c *fctx) aliasType(gi int, t *T) bool {
	if t == nil || t.e == externalT {
		return true // unknown, or the unnamed result of a call into an external package (mw.window.Prev())
	}
	u := underlying(t)
	switch u.e.(type) {
	case *ast.MapType, *ast.ArrayType:
		return true
	}
	if isFormal(gi) {
		return false
	}
	g := guards[gi]
	if ts := pkgs[g.pkg].types[g.typ]; ts != nil {
		if st, ok := ts.Type.(*ast.StructType); ok {
			if ft := fieldType(st, g.pkg, g.field); ft != nil {
				if exprStr(ft.e) == exprStr(t.e) || "*"+exprStr(ft.e) == exprStr(t.e) || exprStr(ft.e) == "*"+exprStr(t.e) {
					return true
				}
			}
		}
	}
	return false
}

func exprStr(e ast.Expr) string {
	var b strings.Builder
	printer.Fprint(&b, token.NewFileSet(), e)
	return b.String()
}

func (c *fctx) assign(s *ast.AssignStmt) {
	for _, r := range s.Rhs {
		if fl, ok := r.(*ast.FuncLit); ok {
			// a stored function value runs later, from anywhere: analysed as a root with nothing held
			c.closure(fl, nil, "fn")
			continue
		}
		c.expr(r)
	}
	if s.Tok != token.DEFINE && s.Tok != token.ASSIGN {
		// op-assignment: target is read and written
		for _, l := range s.Lhs {
			c.expr(l)
			c.lhs(l)
		}
		return
	}
	for i, l := range s.Lhs {
		id, isIdent := l.(*ast.Ident)
		if !isIdent {
			c.lhs(l)
			if len(s.Lhs) == len(s.Rhs) {
				c.store(l, s.Rhs[i])
			}
			continue
		}
		var t *T
		var rhs ast.Expr
		if len(s.Lhs) == len(s.Rhs) {
			rhs = s.Rhs[i]
			t = c.typeOf(rhs)
		} else if len(s.Rhs) == 1 {
			if call, ok := s.Rhs[0].(*ast.CallExpr); ok {
				rs := c.callResults(call)
				if i < len(rs) {
					t = rs[i]
				}
				if i == 0 {
					rhs = s.Rhs[0] // the first result carries the value (v, err := f(...))
				}
			} else if i == 0 {
				rhs = s.Rhs[0]
				t = c.typeOf(rhs)
			} else {
				t = &T{c.p.dir, ast.NewIdent("bool")}
			}
		}
		if s.Tok == token.DEFINE || c.env[id.Name] == nil {
			c.define(id.Name, t, rhs)
		} else {
			// plain assignment to an existing local: keep its declared type, refresh alias
			delete(c.aliases, id.Name)
			if rhs != nil {
				lt := c.env[id.Name]
				if gi, base, _, ok := c.rootGuard(rhs); ok && gDeep(gi) && c.aliasType(gi, lt) {
					c.aliases[id.Name] = alias{gi, base}
				}
			}
			c.taintLocal(id.Name, c.env[id.Name], rhs)
			for _, h := range c.held {
				if h.base == id.Name || strings.HasPrefix(h.base, id.Name+".") {
					c.problem("identifier %s reassigned while %s of it is held", id.Name, h.key)
				}
			}
		}
	}
}

type flow struct {
	held []lock
	term bool
}

func (c *fctx) block(list []ast.Stmt) bool {
	for _, s := range list {
		if c.stmt(s) {
			return true
		}
	}
	return false
}

// branches analyses alternative bodies starting from the current held set and joins them.
func (c *fctx) branches(bodies [][]ast.Stmt, hasDefaultPath bool, what string) bool {
	entry := copyLocks(c.held)
	var outs []flow
	for _, b := range bodies {
		c.held = copyLocks(entry)
		t := c.block(b)
		outs = append(outs, flow{copyLocks(c.held), t})
	}
	if hasDefaultPath {
		outs = append(outs, flow{entry, false})
	}
	var live []flow
	for _, o := range outs {
		if !o.term {
			live = append(live, o)
		}
	}
	if len(live) == 0 {
		c.held = entry
		return true
	}
	for _, o := range live[1:] {
		if !sameLocks(o.held, live[0].held) {
			c.problem("%s: branches join holding different locks", what)
			break
		}
	}
	c.held = live[0].held
	return false
}

func (c *fctx) endOfFunc() {
	for _, h := range c.held {
		if !h.deferred {
			c.problem("function can end still holding %s (no deferred release)", h.key)
		}
	}
}

func (c *fctx) stmt(s ast.Stmt) (terminated bool) {
	switch s := s.(type) {
	case nil:
	case *ast.EmptyStmt:
	case *ast.ExprStmt:
		c.expr(s.X)
		if call, ok := s.X.(*ast.CallExpr); ok {
			if id, ok := call.Fun.(*ast.Ident); ok && id.Name == "panic" {
				return true
			}
		}
	case *ast.SendStmt:
		c.expr(s.Chan)
		c.expr(s.Value)
		c.escapeOf(s.Value, "send "+c.str(s.Value), nil)
	case *ast.IncDecStmt:
		c.expr(s.X)
		c.lhs(s.X)
	case *ast.AssignStmt:
		c.assign(s)
	case *ast.DeclStmt:
		if gd, ok := s.Decl.(*ast.GenDecl); ok {
			for _, sp := range gd.Specs {
				if vs, ok := sp.(*ast.ValueSpec); ok {
					for _, v := range vs.Values {
						c.expr(v)
					}
					for i, n := range vs.Names {
						var t *T
						var rhs ast.Expr
						if vs.Type != nil {
							t = &T{c.p.dir, vs.Type}
						}
						if i < len(vs.Values) {
							rhs = vs.Values[i]
							if t == nil {
								t = c.typeOf(rhs)
							}
						}
						c.define(n.Name, t, rhs)
					}
				}
			}
		}
	case *ast.GoStmt:
		for _, a := range s.Call.Args {
			c.expr(a)
		}
		c.pos++
		switch f := s.Call.Fun.(type) {
		case *ast.FuncLit:
			c.closure(f, nil, "go")
		case *ast.SelectorExpr:
			c.expr(f.X)
			keys, _ := c.callees(s.Call)
			for _, k := range keys {
				spawns = append(spawns, spawn{c.fn, k, c.pos})
			}
		case *ast.Ident:
			keys, _ := c.callees(s.Call)
			for _, k := range keys {
				spawns = append(spawns, spawn{c.fn, k, c.pos})
			}
		}
	case *ast.DeferStmt:
		if c.lockOp(s.Call, true) {
			return false
		}
		var dh []lock
		for _, h := range c.held {
			if h.deferred {
				dh = append(dh, h)
			}
		}
		if fl, ok := s.Call.Fun.(*ast.FuncLit); ok {
			for _, a := range s.Call.Args {
				c.expr(a)
			}
			c.closure(fl, dh, "defer")
			calls = append(calls, callRec{fn: c.fn, callees: []string{fmt.Sprintf("%s$defer%d", c.fn, c.nclos)}, deferCl: true, pos: c.pos})
		} else {
			// arguments are evaluated now, the call runs at function exit
			if f, ok := s.Call.Fun.(*ast.SelectorExpr); ok {
				c.expr(f.X)
			}
			for _, a := range s.Call.Args {
				c.expr(a)
			}
			keys, _ := c.callees(s.Call)
			if len(keys) > 0 {
				calls = append(calls, callRec{fn: c.fn, callees: keys, held: dh})
			}
		}
	case *ast.ReturnStmt:
		for i, r := range s.Results {
			c.expr(r)
			var dt *T
			if len(s.Results) == len(c.results) {
				dt = c.results[i]
			}
			c.escapeOf(r, "return "+c.str(r), dt)
		}
		c.endOfFunc()
		return true
	case *ast.BranchStmt:
		if s.Tok == token.GOTO || s.Label != nil {
			if touches[c.fn] || len(c.held) > 0 {
				c.problem("labelled branch / goto")
			}
			return true
		}
		if s.Tok == token.FALLTHROUGH {
			return false
		}
		if len(c.loops) > 0 && !sameLocks(c.held, c.loops[len(c.loops)-1]) {
			c.problem("%s leaves the loop/switch holding different locks than at its entry", s.Tok)
		}
		return true
	case *ast.BlockStmt:
		return c.block(s.List)
	case *ast.LabeledStmt:
		return c.stmt(s.Stmt)
	case *ast.IfStmt:
		c.stmt(s.Init)
		c.expr(s.Cond)
		bodies := [][]ast.Stmt{s.Body.List}
		hasDefault := true
		if s.Else != nil {
			bodies = append(bodies, []ast.Stmt{s.Else})
			hasDefault = false
		}
		return c.branches(bodies, hasDefault, "if")
	case *ast.ForStmt:
		c.stmt(s.Init)
		c.expr(s.Cond)
		entry := copyLocks(c.held)
		c.loops = append(c.loops, entry)
		t := c.block(s.Body.List)
		if !t {
			c.stmt(s.Post)
			if !sameLocks(c.held, entry) {
				c.problem("for: loop body changes the held locks")
			}
		}
		c.loops = c.loops[:len(c.loops)-1]
		c.held = entry
		// `for {}` without condition only ends through return/break
	case *ast.RangeStmt:
		c.expr(s.X)
		u := underlying(c.typeOf(s.X))
		var kt, vt *T
		if u != nil {
			switch m := u.e.(type) {
			case *ast.MapType:
				kt, vt = &T{u.pkg, m.Key}, &T{u.pkg, m.Value}
			case *ast.ArrayType:
				kt, vt = &T{u.pkg, ast.NewIdent("int")}, &T{u.pkg, m.Elt}
			case *ast.ChanType:
				kt = &T{u.pkg, m.Value}
			}
		}
		if id, ok := s.Key.(*ast.Ident); ok {
			c.define(id.Name, kt, nil)
		} else if s.Key != nil {
			c.lhs(s.Key)
		}
		if id, ok := s.Value.(*ast.Ident); ok {
			c.define(id.Name, vt, nil)
			if gi, base, _, ok := c.rootGuard(s.X); ok && gDeep(gi) && id.Name != "_" && c.aliasType(gi, vt) {
				c.aliases[id.Name] = alias{gi, base}
			}
			if id.Name != "_" {
				c.taintLocal(id.Name, vt, s.X)
			}
		} else if s.Value != nil {
			c.lhs(s.Value)
		}
		entry := copyLocks(c.held)
		c.loops = append(c.loops, entry)
		t := c.block(s.Body.List)
		if !t && !sameLocks(c.held, entry) {
			c.problem("range: loop body changes the held locks")
		}
		c.loops = c.loops[:len(c.loops)-1]
		c.held = entry
	case *ast.SwitchStmt:
		c.stmt(s.Init)
		c.expr(s.Tag)
		return c.clauses(s.Body, "switch")
	case *ast.TypeSwitchStmt:
		c.stmt(s.Init)
		switch a := s.Assign.(type) {
		case *ast.ExprStmt:
			c.expr(a.X)
		case *ast.AssignStmt:
			for _, r := range a.Rhs {
				c.expr(r)
			}
			for _, l := range a.Lhs {
				if id, ok := l.(*ast.Ident); ok {
					c.define(id.Name, nil, nil)
				}
			}
		}
		return c.clauses(s.Body, "type switch")
	case *ast.SelectStmt:
		return c.clauses(s.Body, "select")
	default:
		c.problem("statement form %T not understood", s)
	}
	return false
}

func (c *fctx) clauses(body *ast.BlockStmt, what string) bool {
	var bodies [][]ast.Stmt
	hasDefault := false
	entry := copyLocks(c.held)
	c.loops = append(c.loops, entry) // `break` inside a clause leaves the switch/select
	for _, cl := range body.List {
		switch cl := cl.(type) {
		case *ast.CaseClause:
			for _, e := range cl.List {
				c.expr(e)
			}
			if cl.List == nil {
				hasDefault = true
			}
			bodies = append(bodies, cl.Body)
		case *ast.CommClause:
			if cl.Comm == nil {
				hasDefault = true
			}
			b := cl.Body
			if cl.Comm != nil {
				b = append([]ast.Stmt{cl.Comm}, cl.Body...)
			}
			bodies = append(bodies, b)
		}
	}
	noFallThrough := what != "select" && !hasDefault
	// a `break` inside a clause terminates the clause but control continues after
	// the statement with the entry locks (checked at the break), so a clause that
	// "terminates" only by break is still live: treat conservatively as live when
	// the clause body ends in a BranchStmt break.
	t := c.branches2(bodies, noFallThrough, what, entry)
	c.loops = c.loops[:len(c.loops)-1]
	return t
}

func endsInBreak(b []ast.Stmt) bool {
	found := false
	ast.Inspect(&ast.BlockStmt{List: b}, func(n ast.Node) bool {
		switch n := n.(type) {
		case *ast.ForStmt, *ast.RangeStmt, *ast.SwitchStmt, *ast.SelectStmt, *ast.TypeSwitchStmt, *ast.FuncLit:
			return false
		case *ast.BranchStmt:
			if n.Tok == token.BREAK && n.Label == nil {
				found = true
			}
		}
		return true
	})
	return found
}

func (c *fctx) branches2(bodies [][]ast.Stmt, hasDefaultPath bool, what string, entry []lock) bool {
	anyBreak := false
	for _, b := range bodies {
		if endsInBreak(b) {
			anyBreak = true
		}
	}
	t := c.branches(bodies, hasDefaultPath || anyBreak, what)
	return t
}

// ---------------------------------------------------------------- interprocedural helpers

// simplePath prints e when it is an identifier or a selector chain of identifiers, else "".
func (c *fctx) simplePath(e ast.Expr) string {
	switch x := e.(type) {
	case *ast.Ident:
		return x.Name
	case *ast.ParenExpr:
		return c.simplePath(x.X)
	case *ast.SelectorExpr:
		if b := c.simplePath(x.X); b != "" {
			return b + "." + x.Sel.Name
		}
	}
	return ""
}

// methodValue: `x.M` evaluated as a value (not in call position).
func (c *fctx) methodValue(x *ast.SelectorExpr) {
	if id, ok := x.X.(*ast.Ident); ok {
		if _, isLocal := c.env[id.Name]; !isLocal {
			if d, isImp := c.p.imports[id.Name]; isImp {
				if d != "" {
					if _, ok := pkgs[d].funcs[x.Sel.Name]; ok {
						usedAsValue[d+"|"+x.Sel.Name] = true
					}
				}
				return
			}
		}
	}
	bt := c.typeOf(x.X)
	if bt == nil {
		for _, d := range pkgDirs {
			for k := range pkgs[d].methods {
				if strings.HasSuffix(k, "."+x.Sel.Name) {
					usedAsValue[d+"|"+k] = true
				}
			}
		}
		return
	}
	if pk, n, ok := named(bt); ok {
		if _, ok := pkgs[pk].methods[n+"."+x.Sel.Name]; ok {
			usedAsValue[pk+"|"+n+"."+x.Sel.Name] = true
		}
	}
}

// taintOf: does the value of e come out of a guarded structure? rooted = e denotes (part of) the structure itself.
func (c *fctx) taintOf(e ast.Expr) (gi int, rooted bool, ok bool) {
	if e == nil {
		return -1, false, false
	}
	if g, _, _, ok := c.rootGuard(e); ok && gDeep(g) {
		return g, true, true
	}
	gi = -1
	ast.Inspect(e, func(n ast.Node) bool {
		if gi != -1 {
			return false
		}
		switch x := n.(type) {
		case *ast.FuncLit:
			return false
		case *ast.Ident:
			if a, ok := c.aliases[x.Name]; ok {
				gi = a.guard
			} else if g, ok := c.derived[x.Name]; ok {
				gi = g
			}
		case *ast.SelectorExpr:
			if g, _, ok := c.guardSelQuiet(x); ok && gDeep(g) {
				gi = g
			}
		}
		return true
	})
	return gi, false, gi != -1
}

func (c *fctx) guardSelQuiet(s *ast.SelectorExpr) (int, string, bool) {
	if !guardedAnywhere(s.Sel.Name) {
		return -1, "", false
	}
	bt := c.typeOf(s.X)
	if bt == nil {
		return -1, "", false
	}
	pk, n, ok := named(bt)
	if !ok {
		return -1, "", false
	}
	gi := guardIndex(pk, n, s.Sel.Name)
	if gi < 0 {
		return -1, "", false
	}
	return gi, c.str(s.X), true
}

// refKind classifies a type: "value" (copying it copies everything reachable that matters), "container" (map, slice,
// array, channel), "pointer" (to a named struct: name returned), "unknown".
func refKind(t *T) (kind string, elem *T, name string) {
	if t == nil || t.e == externalT {
		return "unknown", nil, ""
	}
	switch e := t.e.(type) {
	case *ast.StarExpr:
		return "pointer", nil, exprStr(e.X)
	case *ast.MapType:
		return "container", &T{t.pkg, e.Value}, ""
	case *ast.ArrayType:
		return "container", &T{t.pkg, e.Elt}, ""
	case *ast.ChanType:
		return "container", &T{t.pkg, e.Value}, ""
	case *ast.InterfaceType, *ast.FuncType:
		return "unknown", nil, ""
	case *ast.Ident:
		switch e.Name {
		case "bool", "string", "int", "int8", "int16", "int32", "int64", "uint", "uint8", "uint16", "uint32", "uint64", "float32", "float64", "byte", "rune", "uintptr", "error":
			return "value", nil, ""
		}
	}
	u := underlying(t)
	if u != nil && u.e != t.e {
		switch u.e.(type) {
		case *ast.StructType:
			return "value", nil, exprStr(t.e)
		case *ast.InterfaceType:
			return "unknown", nil, ""
		}
		return refKind(u)
	}
	if isExternal(t) {
		return "value", nil, exprStr(t.e) // named type of another package used by value (cid.Cid, peer.ID, time.Time)
	}
	return "unknown", nil, ""
}

func hasOwnLock(t *T, name string) bool {
	pk, n, ok := named(t)
	if !ok {
		return false
	}
	for _, g := range guards {
		if g.pkg == pk && g.typ == n && g.kind == kLocked {
			return true
		}
	}
	_ = name
	return false
}

func classifyRef(t *T, rooted bool, depth int) string {
	kind, elem, name := refKind(t)
	switch kind {
	case "value":
		return "value"
	case "pointer":
		if hasOwnLock(t, name) {
			return "ownlock"
		}
		if immutablePayload[name] {
			return "payload"
		}
		return "raw"
	case "container":
		if rooted {
			return "raw" // the guarded map / slice itself
		}
		if depth > 3 {
			return "raw"
		}
		k := classifyRef(elem, false, depth+1)
		if k == "value" {
			return "copy"
		}
		return k
	}
	return "raw"
}

// taintLocal: a local assigned from guarded data that is not an alias into the structure.
func (c *fctx) taintLocal(name string, t *T, rhs ast.Expr) {
	delete(c.derived, name)
	if rhs == nil {
		return
	}
	if _, isAlias := c.aliases[name]; isAlias {
		return
	}
	gi, _, ok := c.taintOf(rhs)
	if !ok || isFormal(gi) {
		return
	}
	if k, _, _ := refKind(t); k == "value" {
		return
	}
	c.derived[name] = gi
}

// store: `l = r` where l is not a plain identifier.
func (c *fctx) store(l, r ast.Expr) {
	gi, _, ok := c.taintOf(r)
	if !ok || isFormal(gi) {
		return
	}
	// into the same guarded structure: not an escape
	if lg, _, _, lok := c.rootGuard(l); lok && lg == gi {
		return
	}
	// into a local container: the container becomes derived
	root := l
	for {
		switch x := root.(type) {
		case *ast.IndexExpr:
			root = x.X
			continue
		case *ast.ParenExpr:
			root = x.X
			continue
		}
		break
	}
	if id, ok := root.(*ast.Ident); ok {
		if fi := fnInfos[rootFn(c.fn)]; fi != nil {
			isFormalName := id.Name == fi.recv
			for _, p := range fi.params {
				if p == id.Name {
					isFormalName = true
				}
			}
			if !isFormalName {
				if _, isAlias := c.aliases[id.Name]; !isAlias {
					c.derived[id.Name] = gi
				}
				return
			}
		}
	}
	c.escapeOf(r, "store "+c.str(l)+" = "+c.str(r), c.typeOf(l))
}

func rootFn(fn string) string {
	if i := strings.Index(fn, "$"); i >= 0 {
		return fn[:i]
	}
	return fn
}

// escapeOf records that the value of e leaves the critical section (returned, sent, stored elsewhere).
func (c *fctx) escapeOf(e ast.Expr, what string, declared *T) {
	gi, rooted, ok := c.taintOf(e)
	if !ok || isFormal(gi) {
		return
	}
	if guards[gi].kind != kLocked {
		return
	}
	t := c.typeOf(e)
	if (t == nil || t.e == externalT) && declared != nil {
		t = declared // the declared type of the result / target the value is converted to
	}
	kind := ""
	// recognised copy shape: append(<fresh>, guarded...)
	if call, isCall := e.(*ast.CallExpr); isCall {
		if f, isId := call.Fun.(*ast.Ident); isId && f.Name == "append" && len(call.Args) > 0 {
			if _, _, firstTainted := c.taintOf(call.Args[0]); !firstTainted {
				rooted = false
			}
		}
	}
	kind = classifyRef(t, rooted, 0)
	c.pos++
	escapes = append(escapes, escape{fn: c.fn, guard: gi, kind: kind, pos: c.pos, what: what + " : " + func() string {
		if t == nil {
			return "?"
		}
		return exprStr(t.e)
	}()})
}

// ---------------------------------------------------------------- driver

func analyseFunc(p *pkgInfo, fd *ast.FuncDecl) {
	if fd.Body == nil {
		return
	}
	name := fd.Name.Name
	if fd.Recv != nil && len(fd.Recv.List) == 1 {
		name = recvTypeName(fd.Recv.List[0].Type) + "." + name
	}
	c := &fctx{p: p, fn: p.dir + "|" + name, env: map[string]*T{}, aliases: map[string]alias{}, derived: map[string]int{}}
	fi := &fnInfo{exported: ast.IsExported(fd.Name.Name)}
	if fd.Recv != nil && len(fd.Recv.List) == 1 && len(fd.Recv.List[0].Names) == 1 {
		fi.recv = fd.Recv.List[0].Names[0].Name
	}
	if fd.Type.Params != nil {
		for _, f := range fd.Type.Params.List {
			if len(f.Names) == 0 {
				fi.params = append(fi.params, "_")
			}
			for _, n := range f.Names {
				fi.params = append(fi.params, n.Name)
			}
		}
	}
	fnInfos[c.fn] = fi
	c.results = resultsOf(p.dir, fd)
	if fd.Type.Results != nil {
		var rs []string
		for _, f := range fd.Type.Results.List {
			rs = append(rs, exprStr(f.Type))
		}
		resultTypes[c.fn] = strings.Join(rs, ",")
	}
	c.bindFields(fd.Recv)
	c.bindFields(fd.Type.Params)
	c.bindFields(fd.Type.Results)
	for i, pn := range fi.params {
		if pn == "_" {
			continue
		}
		if c.aliasType(formalGuard(i), c.env[pn]) && c.env[pn] != nil {
			c.aliases[pn] = alias{formalGuard(i), ""}
		}
	}
	t := c.block(fd.Body.List)
	if !t {
		c.endOfFunc()
	}
}

func leanStr(s string) string {
	return "\"" + strings.ReplaceAll(strings.ReplaceAll(s, "\\", "\\\\"), "\"", "\\\"") + "\""
}

func main() {
	root := os.Getenv("VERIF_REPO")
	if root == "" {
		root = "/repo"
	}
	for _, d := range pkgDirs {
		p, err := loadPkg(root, d)
		if err != nil {
			fmt.Fprintln(os.Stderr, "extract_c18:", err)
			os.Exit(2)
		}
		pkgs[d] = p
	}
	for _, d := range pkgDirs {
		p := pkgs[d]
		for _, f := range p.files {
			for _, decl := range f.Decls {
				if fd, ok := decl.(*ast.FuncDecl); ok {
					analyseFunc(p, fd)
				}
			}
		}
	}

	// transitive acquisitions through resolved calls
	callees := map[string]map[string]bool{}
	for _, cr := range calls {
		if callees[cr.fn] == nil {
			callees[cr.fn] = map[string]bool{}
		}
		for _, k := range cr.callees {
			callees[cr.fn][k] = true
		}
	}
	// closures run synchronously belong to their parent: direct acquisitions of
	// "F$defer1" are attributed to F as well (conservative).
	for fn, m := range directAq {
		if i := strings.Index(fn, "$defer"); i >= 0 {
			par := fn[:i]
			if directAq[par] == nil {
				directAq[par] = map[string]bool{}
			}
			for k := range m {
				directAq[par][k] = true
			}
		}
	}
	acq := map[string]map[string]bool{}
	var closure func(fn string, seen map[string]bool) map[string]bool
	closure = func(fn string, seen map[string]bool) map[string]bool {
		if r, ok := acq[fn]; ok {
			return r
		}
		if seen[fn] {
			return map[string]bool{}
		}
		seen[fn] = true
		r := map[string]bool{}
		for k := range directAq[fn] {
			r[k] = true
		}
		for cal := range callees[fn] {
			for k := range closure(cal, seen) {
				r[k] = true
			}
		}
		return r
	}
	allFns := map[string]bool{}
	for fn := range directAq {
		allFns[fn] = true
	}
	for fn := range callees {
		allFns[fn] = true
	}
	for i := 0; i < 3; i++ { // recursion: iterate to a fixpoint
		for fn := range allFns {
			acq[fn] = closure(fn, map[string]bool{})
		}
	}
	for _, cr := range calls {
		if len(cr.held) == 0 {
			continue
		}
		for _, cal := range cr.callees {
			for m := range acq[cal] {
				for _, h := range cr.held {
					edges = append(edges, edge{h.key, m, cr.fn + " -> " + cal})
				}
			}
		}
	}

	// ---- interprocedural propagation of locksets (summaries instantiated per calling context)
	type ctxLock struct {
		key  string
		excl bool
		tok  string
	}
	type ctxBind struct {
		param, guard int
		tok          string
	}
	type context struct {
		locks []ctxLock
		binds []ctxBind
	}
	ctxKey := func(c context) string { return fmt.Sprintf("%v|%v", c.locks, c.binds) }
	tokOf := func(fn, base string) string {
		if base == "" {
			return "?"
		}
		return rootFn(fn) + ":" + base
	}
	spawned := map[string]bool{}
	for _, sp := range spawns {
		spawned[sp.callee] = true
	}
	nCallSites := map[string]int{}
	for _, cr := range calls {
		for _, k := range cr.callees {
			nCallSites[k]++
		}
	}
	allFn := map[string]bool{}
	for _, a := range accesses {
		allFn[a.fn] = true
	}
	for _, cr := range calls {
		allFn[cr.fn] = true
		for _, k := range cr.callees {
			allFn[k] = true
		}
	}
	isRoot := func(fn string) bool {
		if i := strings.Index(fn, "$"); i >= 0 {
			return !strings.HasPrefix(fn[i:], "$defer") // go / stored closures start with nothing held; deferred ones run inside their function
		}
		fi := fnInfos[fn]
		return fi == nil || fi.exported || spawned[fn] || usedAsValue[fn] || nCallSites[fn] == 0
	}
	contexts := map[string][]context{}
	ctxSeen := map[string]map[string]bool{}
	var work []string
	addCtx := func(fn string, c context) {
		if ctxSeen[fn] == nil {
			ctxSeen[fn] = map[string]bool{}
		}
		k := ctxKey(c)
		if ctxSeen[fn][k] {
			return
		}
		if len(contexts[fn]) >= 24 {
			problems[fn] = append(problems[fn], "more than 24 calling contexts (recursion while holding a lock?)")
			touches[fn] = true
			return
		}
		ctxSeen[fn][k] = true
		contexts[fn] = append(contexts[fn], c)
		work = append(work, fn)
	}
	var fnsSorted []string
	for fn := range allFn {
		fnsSorted = append(fnsSorted, fn)
	}
	sort.Strings(fnsSorted)
	for _, fn := range fnsSorted {
		if isRoot(fn) {
			addCtx(fn, context{})
		}
	}
	callsOf := map[string][]callRec{}
	for _, cr := range calls {
		callsOf[cr.fn] = append(callsOf[cr.fn], cr)
	}
	// translation of base tokens at a call site: the caller's actual expression -> the callee's formal name
	transOf := func(cr callRec, callee string) [][2]string {
		var tr [][2]string
		fi := fnInfos[callee]
		if fi == nil || cr.deferCl {
			return nil
		}
		seen := map[string]bool{}
		add := func(actual, formal string) {
			if actual == "" || formal == "" || formal == "_" {
				return
			}
			a := tokOf(cr.fn, actual)
			if seen[a] {
				return
			}
			seen[a] = true
			tr = append(tr, [2]string{a, tokOf(callee, formal)})
		}
		add(cr.recv, fi.recv)
		for i, a := range cr.args {
			if i < len(fi.params) {
				add(a, fi.params[i])
			}
		}
		return tr
	}
	translate := func(tr [][2]string, callee, tok string) string {
		for _, p := range tr {
			if p[0] == tok {
				return p[1]
			}
		}
		if strings.HasPrefix(tok, rootFn(callee)+":") {
			return "?" // a name of an outer activation of the callee: never matched
		}
		return tok
	}
	push := func(cr callRec, c context, callee string) context {
		tr := transOf(cr, callee)
		var n context
		if cr.deferCl {
			// a deferred closure runs inside its function: same objects, same bindings
			n.locks = append(n.locks, c.locks...)
			n.binds = append(n.binds, c.binds...)
			return n
		}
		for _, h := range cr.held {
			n.locks = append(n.locks, ctxLock{h.key, h.excl, translate(tr, callee, tokOf(cr.fn, h.base))})
		}
		for _, l := range c.locks {
			n.locks = append(n.locks, ctxLock{l.key, l.excl, translate(tr, callee, l.tok)})
		}
		np := 0
		if fi := fnInfos[callee]; fi != nil {
			np = len(fi.params)
		}
		for _, b := range cr.binds {
			if b.param >= np {
				continue
			}
			if b.fromParam < 0 {
				n.binds = append(n.binds, ctxBind{b.param, b.guard, translate(tr, callee, tokOf(cr.fn, b.base))})
			} else {
				for _, cb := range c.binds {
					if cb.param == b.fromParam {
						n.binds = append(n.binds, ctxBind{b.param, cb.guard, translate(tr, callee, cb.tok)})
						break
					}
				}
			}
		}
		return n
	}
	for iter := 0; len(work) > 0 && iter < 200000; iter++ {
		fn := work[0]
		work = work[1:]
		for _, c := range contexts[fn] {
			for _, cr := range callsOf[fn] {
				for _, cal := range cr.callees {
					addCtx(cal, push(cr, c, cal))
				}
			}
		}
	}
	// relevance: functions with obligations (direct accesses, or accesses through a parameter that some context binds)
	boundParam := func(fn string, param int) bool {
		for _, c := range contexts[fn] {
			for _, b := range c.binds {
				if b.param == param {
					return true
				}
			}
		}
		return false
	}
	var kept []access
	relevant := map[string]bool{}
	for _, a := range accesses {
		if a.param > 0 && !boundParam(a.fn, a.param-1) {
			continue
		}
		kept = append(kept, a)
		relevant[a.fn] = true
	}
	accesses = kept
	for changed := true; changed; {
		changed = false
		for _, cr := range calls {
			if relevant[cr.fn] {
				continue
			}
			for _, k := range cr.callees {
				if relevant[k] {
					relevant[cr.fn] = true
					changed = true
					break
				}
			}
		}
	}

	// what has to be in the table: functions with obligations, functions entered with something held / bound, and
	// callers that hold a lock (or hand over guarded data) at a call into such a function
	hasObl := map[string]bool{}
	for _, a := range accesses {
		hasObl[a.fn] = true
	}
	nonEmptyCtx := func(fn string) bool {
		for _, c := range contexts[fn] {
			if len(c.locks) > 0 || len(c.binds) > 0 {
				return true
			}
		}
		return false
	}
	emitFn := map[string]bool{}
	for fn := range relevant {
		if hasObl[fn] || nonEmptyCtx(fn) {
			emitFn[fn] = true
		}
	}
	edgeKept := func(cr callRec, cal string) bool {
		if !relevant[cr.fn] || !relevant[cal] {
			return false
		}
		if !(hasObl[cal] || nonEmptyCtx(cal)) {
			return false
		}
		return len(cr.held) > 0 || len(cr.binds) > 0 || nonEmptyCtx(cr.fn) || cr.deferCl
	}
	for _, cr := range calls {
		for _, cal := range cr.callees {
			if edgeKept(cr, cal) {
				emitFn[cr.fn] = true
				emitFn[cal] = true
			}
		}
	}
	relevant = emitFn

	// ---- numbering
	mutexID := map[string]int{}
	var mutexNames []string
	mid := func(k string) int {
		if id, ok := mutexID[k]; ok {
			return id
		}
		mutexNames = append(mutexNames, k)
		mutexID[k] = len(mutexNames)
		return len(mutexNames)
	}
	// designated mutexes first, in guard order (0 = none / not declared)
	guardMutex := make([]int, len(guards))
	guardDeclared := make([]bool, len(guards))
	for i, g := range guards {
		p := pkgs[g.pkg]
		ts := p.types[g.typ]
		if ts == nil {
			continue
		}
		st, ok := ts.Type.(*ast.StructType)
		if !ok {
			continue
		}
		if fieldType(st, g.pkg, g.field) == nil {
			continue
		}
		guardDeclared[i] = true
		if g.kind == kLocked {
			if is, _ := isMutexType(fieldType(st, g.pkg, g.mutex)); is {
				guardMutex[i] = mid(g.pkg + "|" + g.typ + "." + g.mutex)
			} else {
				guardDeclared[i] = false
			}
		}
	}
	fnID := map[string]int{}
	var fnNames []string
	fid := func(k string) int {
		if id, ok := fnID[k]; ok {
			return id
		}
		fnNames = append(fnNames, k)
		fnID[k] = len(fnNames)
		return len(fnNames)
	}
	tokID := map[string]int{"?": 0}
	var tokNames []string
	tid := func(t string) int {
		if id, ok := tokID[t]; ok {
			return id
		}
		tokNames = append(tokNames, t)
		tokID[t] = len(tokNames)
		return len(tokNames)
	}
	sort.SliceStable(accesses, func(i, j int) bool {
		if accesses[i].fn != accesses[j].fn {
			return accesses[i].fn < accesses[j].fn
		}
		return accesses[i].pos < accesses[j].pos
	})

	var b strings.Builder
	w := func(format string, a ...interface{}) { fmt.Fprintf(&b, format, a...) }
	w("/- GENERATED by harness/extract_c18 from the sources under $VERIF_REPO; regenerated on every ./check C18. Do not edit. -/\n")
	w("import ClusterVerif.Model.C18\n")
	w("namespace CV.C18.Gen\nopen CV.C18\n\n")

	w("/-- the discipline L: designated field, its kind and mutex (0 = field or mutex not declared any more) -/\n")
	w("def guards : List Guard := [\n")
	for i, g := range guards {
		kind := "GuardKind.locked"
		wr, rd := 0, 0
		switch g.kind {
		case kImmutable:
			kind = "GuardKind.immutable"
		case kPublished:
			kind = "GuardKind.published"
			if _, ok := pkgs[g.pkg].methods[g.typ+"."+g.writer]; ok {
				wr = fid(g.pkg + "|" + g.typ + "." + g.writer)
			}
			if _, ok := pkgs[g.pkg].methods[g.typ+"."+g.reader]; ok {
				rd = fid(g.pkg + "|" + g.typ + "." + g.reader)
			}
		}
		sep := ","
		if i == len(guards)-1 {
			sep = ""
		}
		w("  { id := %d, name := %s, kind := %s, declared := %v, mutex := %d, deep := %v, writer := %d, reader := %d }%s\n",
			i+1, leanStr(g.pkg+"|"+g.typ+"."+g.field), kind, guardDeclared[i], guardMutex[i], g.deep, wr, rd, sep)
	}
	w("]\n\n")

	w("/-- every access to a designated field: function, field (0 = through parameter `param - 1`, bound by the calling context), write?,\nlocks the function itself holds (mutex, exclusive?, object token), object token of the access, position -/\n")
	w("def accesses : List Access := [\n")
	for i, a := range accesses {
		var hs []string
		for _, h := range a.held {
			hs = append(hs, fmt.Sprintf("⟨%d, %v, %d⟩", mid(h.key), h.excl, tid(tokOf(a.fn, h.base))))
		}
		sep := ","
		if i == len(accesses)-1 {
			sep = ""
		}
		w("  { fn := %d, guard := %d, param := %d, write := %v, held := [%s], base := %d, pos := %d }%s -- %s: %s\n",
			fid(a.fn), a.guard+1, a.param, a.write, strings.Join(hs, ", "), tid(tokOf(a.fn, a.base)), a.pos, sep, a.fn, a.what)
	}
	w("]\n\n")

	// edges, deduplicated
	type ekey struct{ a, b int }
	seenE := map[ekey]string{}
	var eks []ekey
	for _, e := range edges {
		k := ekey{mid(e.from), mid(e.to)}
		if _, ok := seenE[k]; !ok {
			seenE[k] = e.fn
			eks = append(eks, k)
		}
	}
	sort.Slice(eks, func(i, j int) bool {
		if eks[i].a != eks[j].a {
			return eks[i].a < eks[j].a
		}
		return eks[i].b < eks[j].b
	})
	w("/-- nested acquisitions: (held mutex, mutex acquired while holding it), direct or through resolved calls -/\n")
	w("def edges : List (Nat × Nat) := [\n")
	for i, k := range eks {
		sep := ","
		if i == len(eks)-1 {
			sep = ""
		}
		w("  (%d, %d)%s -- %s -> %s in %s\n", k.a, k.b, sep, mutexNames[k.a-1], mutexNames[k.b-1], seenE[k])
	}
	w("]\n\n")

	w("/-- go statements starting an analysed function: (function containing the go statement, started function, position) -/\n")
	w("def spawns : List Spawn := [\n")
	sort.SliceStable(spawns, func(i, j int) bool {
		if spawns[i].fn != spawns[j].fn {
			return spawns[i].fn < spawns[j].fn
		}
		return spawns[i].pos < spawns[j].pos
	})
	for i, s := range spawns {
		sep := ","
		if i == len(spawns)-1 {
			sep = ""
		}
		w("  { fn := %d, callee := %d, pos := %d }%s -- %s starts %s\n", fid(s.fn), fid(s.callee), s.pos, sep, s.fn, s.callee)
	}
	w("]\n\n")

	// ---- snapshot builders: in how many critical sections do they read an atomic group?
	type section map[int]bool // guard indices read in one critical section
	w("/-- functions that build a snapshot of an atomic group (fields written together under one hold): number of critical\n")
	w("sections in which they read fields of the group (directly or through methods of the owning type) and number of distinct fields read -/\n")
	w("def snapshots : List Snapshot := [\n")
	var snapLines []string
	for _, ag := range atomicGroups {
		inGroup := map[int]bool{}
		for _, f := range ag.fields {
			if gi := guardIndex(ag.pkg, ag.typ, f); gi >= 0 {
				inGroup[gi] = true
			}
		}
		ownerPrefix := ag.pkg + "|" + ag.typ + "."
		memo := map[string][]section{}
		var sectionsOf func(fn string, depth int) []section
		sectionsOf = func(fn string, depth int) []section {
			if r, ok := memo[fn]; ok {
				return r
			}
			if depth > 8 {
				return nil
			}
			byHold := map[int]section{}
			var res []section
			for _, a := range accesses {
				if a.fn != fn || !inGroup[a.guard] || a.write {
					continue
				}
				if a.holdID == 0 {
					res = append(res, section{a.guard: true}) // an unlocked read is a section of its own
					continue
				}
				if byHold[a.holdID] == nil {
					byHold[a.holdID] = section{}
				}
				byHold[a.holdID][a.guard] = true
			}
			var ids []int
			for id := range byHold {
				ids = append(ids, id)
			}
			sort.Ints(ids)
			for _, id := range ids {
				res = append(res, byHold[id])
			}
			for _, cr := range calls {
				if cr.fn != fn {
					continue
				}
				for _, cal := range cr.callees {
					if strings.HasPrefix(cal, ownerPrefix) {
						res = append(res, sectionsOf(cal, depth+1)...)
					}
				}
			}
			memo[fn] = res
			return res
		}
		var fns []string
		for fn, rt := range resultTypes {
			if strings.HasPrefix(fn, ag.pkg+"|") && strings.Contains(rt, ag.resultMentions) {
				fns = append(fns, fn)
			}
		}
		sort.Strings(fns)
		for _, fn := range fns {
			secs := sectionsOf(fn, 0)
			fields := map[int]bool{}
			for _, sc := range secs {
				for g := range sc {
					fields[g] = true
				}
			}
			if len(fields) == 0 {
				continue
			}
			snapLines = append(snapLines, fmt.Sprintf("  { fn := %d, sections := %d, fields := %d } -- %s reads %d field(s) of %s%s in %d critical section(s)",
				fid(fn), len(secs), len(fields), fn, len(fields), ownerPrefix, "{"+strings.Join(ag.fields, ",")+"}", len(secs)))
		}
	}
	for i, l := range snapLines {
		if i < len(snapLines)-1 {
			l = strings.Replace(l, " } -- ", " }, -- ", 1)
		}
		w("%s\n", l)
	}
	w("]\n\n")

	// ---- calling contexts, call edges, roots (relevant functions only)
	var relFns []string
	for fn := range relevant {
		relFns = append(relFns, fn)
	}
	sort.Strings(relFns)
	w("/-- calling contexts of every function with obligations (or calling one): locks held by the callers on the way in (in the\ncallee's object tokens) and parameters bound to guarded data. The empty context = called with nothing held. -/\n")
	w("def contexts : List Ctx := [\n")
	var clines []string
	for _, fn := range relFns {
		for _, c := range contexts[fn] {
			var ls, bs, lcs []string
			for _, l := range c.locks {
				ls = append(ls, fmt.Sprintf("⟨%d, %v, %d⟩", mid(l.key), l.excl, tid(l.tok)))
				lcs = append(lcs, l.key+"@"+l.tok)
			}
			for _, b := range c.binds {
				bs = append(bs, fmt.Sprintf("⟨%d, %d, %d⟩", b.param, b.guard+1, tid(b.tok)))
				lcs = append(lcs, fmt.Sprintf("param %d = %s.%s@%s", b.param, guards[b.guard].typ, guards[b.guard].field, b.tok))
			}
			clines = append(clines, fmt.Sprintf("  { fn := %d, locks := [%s], binds := [%s] }, -- %s [%s]", fid(fn), strings.Join(ls, ", "), strings.Join(bs, ", "), fn, strings.Join(lcs, "; ")))
		}
	}
	for i, l := range clines {
		if i == len(clines)-1 {
			l = strings.Replace(l, " }, -- ", " } -- ", 1)
		}
		w("%s\n", l)
	}
	w("]\n\n")
	w("/-- call sites between those functions: locks the caller itself holds at the call, translation of object tokens (the\ncaller's actual receiver / argument -> the callee's formal), tokens that name an outer activation of the callee (poisoned),\narguments that hand guarded data (or a bound parameter of the caller) to a parameter of the callee -/\n")
	w("def callEdges : List CallEdge := [\n")
	var elines []string
	seenEdge := map[string]bool{}
	for _, cr := range calls {
		if !relevant[cr.fn] {
			continue
		}
		for _, cal := range cr.callees {
			if !edgeKept(cr, cal) {
				continue
			}
			var hs, trs, as, pz []string
			for _, h := range cr.held {
				hs = append(hs, fmt.Sprintf("⟨%d, %v, %d⟩", mid(h.key), h.excl, tid(tokOf(cr.fn, h.base))))
			}
			for _, p := range transOf(cr, cal) {
				trs = append(trs, fmt.Sprintf("(%d, %d)", tid(p[0]), tid(p[1])))
			}
			np := 0
			if fi := fnInfos[cal]; fi != nil {
				np = len(fi.params)
			}
			if cr.deferCl {
				as = append(as, "⟨0, 0, 0, 0, true⟩")
			}
			for _, b := range cr.binds {
				if b.param >= np || cr.deferCl {
					continue
				}
				if b.fromParam < 0 {
					as = append(as, fmt.Sprintf("⟨%d, 0, %d, %d, false⟩", b.param, b.guard+1, tid(tokOf(cr.fn, b.base))))
				} else {
					as = append(as, fmt.Sprintf("⟨%d, %d, 0, 0, false⟩", b.param, b.fromParam+1))
				}
			}
			line := fmt.Sprintf("{ caller := %d, callee := %d, held := [%s], trans := [%s], poison := %s, args := [%s] }",
				fid(cr.fn), fid(cal), strings.Join(hs, ", "), strings.Join(trs, ", "), func() string {
					if cr.deferCl {
						return "POISON:-"
					}
					return "POISON:" + rootFn(cal)
				}(), strings.Join(as, ", "))
			_ = pz
			if seenEdge[line] {
				continue
			}
			seenEdge[line] = true
			elines = append(elines, line+" -- "+cr.fn+" -> "+cal)
		}
	}
	// poison lists: every token that names an object of the callee's own scope
	poisonOf := func(root string) string {
		var ids []string
		for i, t := range tokNames {
			if strings.HasPrefix(t, root+":") {
				ids = append(ids, fmt.Sprint(i+1))
			}
		}
		return "[" + strings.Join(ids, ", ") + "]"
	}
	for i, l := range elines {
		j := strings.Index(l, "POISON:")
		k := strings.Index(l[j:], ", args :=")
		l = l[:j] + poisonOf(l[j+7:j+k]) + l[j+k:]
		parts := strings.SplitN(l, " -- ", 2)
		sep := ","
		if i == len(elines)-1 {
			sep = ""
		}
		w("  %s%s -- %s\n", parts[0], sep, parts[1])
	}
	w("]\n\n")
	w("/-- functions that can be entered with nothing held: exported, started by a go statement, used as a value, closures\nthat are stored or started, or without any call site in the analysed packages -/\n")
	var rs []string
	for _, fn := range relFns {
		if isRoot(fn) {
			rs = append(rs, fmt.Sprint(fid(fn)))
		}
	}
	w("def roots : List Nat := [%s]\n\n", strings.Join(rs, ", "))
	w("/-- per relevant function: exported / started by go / used as a value / number of call sites seen -/\n")
	w("def fnFacts : List FnFact := [\n")
	for i, fn := range relFns {
		sep := ","
		if i == len(relFns)-1 {
			sep = ""
		}
		fi := fnInfos[fn]
		exp := fi == nil || fi.exported
		if j := strings.Index(fn, "$"); j >= 0 {
			exp = !strings.HasPrefix(fn[j:], "$defer")
		}
		w("  { fn := %d, exported := %v, spawned := %v, asValue := %v, callSites := %d }%s -- %s\n", fid(fn), exp, spawned[fn], usedAsValue[fn], nCallSites[fn], sep, fn)
	}
	w("]\n\n")
	sort.SliceStable(escapes, func(i, j int) bool {
		if escapes[i].fn != escapes[j].fn {
			return escapes[i].fn < escapes[j].fn
		}
		return escapes[i].pos < escapes[j].pos
	})
	w("/-- references taken out of a guarded structure that leave the function (returned, sent, stored elsewhere): a value copy,\na copied container of values, a pointer to an object with its own lock in the table, an immutable payload — or `raw` (fails) -/\n")
	w("def escapes : List Escape := [\n")
	for i, e := range escapes {
		sep := ","
		if i == len(escapes)-1 {
			sep = ""
		}
		w("  { fn := %d, guard := %d, kind := EscKind.%s, pos := %d }%s -- %s: %s\n", fid(e.fn), e.guard+1, e.kind, e.pos, sep, e.fn, e.what)
	}
	w("]\n\n")

	// problems: only for functions that touch a guarded field or a mutex
	var pfns []string
	for fn := range problems {
		base := fn
		if i := strings.Index(fn, "$"); i >= 0 {
			base = fn[:i]
		}
		if touches[fn] || touches[base] {
			pfns = append(pfns, fn)
		}
	}
	sort.Strings(pfns)
	w("/-- constructs the extractor did not understand in functions that touch a designated field or a mutex (must be empty) -/\n")
	w("def problems : List String := [\n")
	var plines []string
	for _, fn := range pfns {
		seen := map[string]bool{}
		for _, p := range problems[fn] {
			if !seen[p] {
				seen[p] = true
				plines = append(plines, leanStr(fn+": "+p))
			}
		}
	}
	w("  %s\n]\n\n", strings.Join(plines, ",\n  "))

	w("def mutexNames : List String := [\n")
	for i, n := range mutexNames {
		sep := ","
		if i == len(mutexNames)-1 {
			sep = ""
		}
		w("  %s%s -- %d\n", leanStr(n), sep, i+1)
	}
	w("]\n\n")
	w("def tokenNames : List String := [\n")
	for i, n := range tokNames {
		sep := ","
		if i == len(tokNames)-1 {
			sep = ""
		}
		w("  %s%s -- %d\n", leanStr(n), sep, i+1)
	}
	w("]\n\n")
	w("def fnNames : List String := [\n")
	for i, n := range fnNames {
		sep := ","
		if i == len(fnNames)-1 {
			sep = ""
		}
		w("  %s%s -- %d\n", leanStr(n), sep, i+1)
	}
	w("]\n\n")
	// ---- round 8b: inventory of every struct field of the analysed packages whose type comes from package sync
	// (Mutex, RWMutex, WaitGroup, Once, Cond, Map, Pool, ... also behind a pointer, also embedded). A field that is
	// not the designated mutex of some guard must be in the reviewed list of Model/C18.lean: a NEW mutex fails closed.
	w("/-- every struct field (analysed packages, non-test files) whose type is a type of package `sync`: owner `pkg|Type`, field (embedded: the type name),\nkind, is it the designated mutex of some guard of the discipline? -/\n")
	w("def syncFields : List (String × String × String × Bool) := [\n")
	var invLines []string
	for _, d := range pkgDirs {
		p := pkgs[d]
		syncAlias := map[*ast.File]string{}
		for _, f := range p.files {
			for _, im := range f.Imports {
				if strings.Trim(im.Path.Value, "\"") == "sync" {
					a := "sync"
					if im.Name != nil {
						a = im.Name.Name
					}
					syncAlias[f] = a
				}
			}
		}
		var tnames []string
		for n := range p.types {
			tnames = append(tnames, n)
		}
		sort.Strings(tnames)
		for _, tn := range tnames {
			ts := p.types[tn]
			st, ok := ts.Type.(*ast.StructType)
			if !ok {
				continue
			}
			var owner *ast.File
			for _, f := range p.files {
				if f.Pos() <= ts.Pos() && ts.Pos() < f.End() {
					owner = f
				}
			}
			alias, has := syncAlias[owner]
			if !has {
				continue
			}
			for _, fld := range st.Fields.List {
				te := fld.Type
				if se, ok := te.(*ast.StarExpr); ok {
					te = se.X
				}
				sel, ok := te.(*ast.SelectorExpr)
				if !ok {
					continue
				}
				if id, ok := sel.X.(*ast.Ident); !ok || id.Name != alias {
					continue
				}
				names := []string{sel.Sel.Name}
				if len(fld.Names) > 0 {
					names = nil
					for _, n := range fld.Names {
						names = append(names, n.Name)
					}
				}
				for _, fname := range names {
					des := false
					for _, g := range guards {
						if g.pkg == d && g.typ == tn && g.kind == kLocked && g.mutex == fname {
							des = true
						}
					}
					invLines = append(invLines, fmt.Sprintf("(%s, %s, %s, %v)", leanStr(d+"|"+tn), leanStr(fname), leanStr(sel.Sel.Name), des))
				}
			}
		}
	}
	w("  %s\n]\n\n", strings.Join(invLines, ",\n  "))

	// ---- source text of the functions the synchronisation models (Model/C18SyncProgs.lean) transcribe:
	// one entry per source line as gofmt prints it, logging / tracing and string texts dropped (harness/skel)
	w("%s", chanOpsLean()) // round 8b: chanops.go
	w("%s", syncOpsLean()) // round 8c: syncops.go
	w("namespace Src\n\n")
	const prog = "extract_c18"
	emitSrc := func(prefix, rel string, fns [][2]string) {
		f := skel.Parse(prog, rel)
		for _, fn := range fns {
			fd := skel.Func(prog, f, fn[0], fn[1])
			name := prefix + "_" + strings.TrimPrefix(fn[0], "*")
			if fn[0] == "" {
				name = prefix
			}
			name += "_" + fn[1]
			b.WriteString(skel.LeanList(name, rel+": "+fn[0]+" "+fn[1], skel.Lines(fd)))
		}
	}
	emitSrc("stateless", "pintracker/stateless/stateless.go", [][2]string{{"", "New"}, {"*Tracker", "opWorker"}, {"*Tracker", "enqueue"}, {"*Tracker", "SetClient"}, {"*Tracker", "Shutdown"},
		// round 8b (Model/C18SyncProgs2.lean, progT…): the users of spt.rpcClient and of the queues
		{"*Tracker", "pin"}, {"*Tracker", "unpin"}, {"*Tracker", "Recover"}, {"*Tracker", "recoverWithPinInfo"}})
	// round 8b: informer protocol (progI…), metrics checker (progW…)
	emitSrc("disk", "informer/disk/disk.go", [][2]string{{"*Informer", "SetClient"}, {"*Informer", "Shutdown"}, {"*Informer", "GetMetric"}})
	emitSrc("numpin", "informer/numpin/numpin.go", [][2]string{{"*Informer", "SetClient"}, {"*Informer", "Shutdown"}, {"*Informer", "GetMetric"}})
	emitSrc("metrics", "monitor/metrics/checker.go", [][2]string{{"", "NewChecker"}, {"*Checker", "alert"}, {"*Checker", "Alerts"}, {"*Checker", "Watch"}})
	emitSrc("crdt", "consensus/crdt/consensus.go", [][2]string{{"", "New"}, {"*Consensus", "setup"}, {"*Consensus", "Shutdown"}, {"*Consensus", "SetClient"}, {"*Consensus", "Ready"}, {"*Consensus", "LogPin"}, {"*Consensus", "LogUnpin"}, {"*Consensus", "batchWorker"}})
	emitSrc("cluster", "cluster.go", [][2]string{{"", "NewCluster"}, {"*Cluster", "run"}, {"*Cluster", "ready"}, {"*Cluster", "Ready"}, {"*Cluster", "Shutdown"}, {"*Cluster", "Done"}, {"*Cluster", "watchPeers"}})
	w("end Src\n\nend CV.C18.Gen\n")
	fmt.Print(b.String())

	// human-readable summary on stderr
	fmt.Fprintf(os.Stderr, "extract_c18: %d accesses, %d edges, %d spawns, %d snapshot builders, %d problem lines, %d mutexes, %d contexts, %d call edges, %d escapes\n",
		len(accesses), len(eks), len(spawns), len(snapLines), len(plines), len(mutexNames), len(clines), len(elines), len(escapes))
	for _, p := range plines {
		fmt.Fprintln(os.Stderr, "  problem:", p)
	}
	var other []string
	for fn, ps := range problems {
		base := fn
		if i := strings.Index(fn, "$"); i >= 0 {
			base = fn[:i]
		}
		if !(touches[fn] || touches[base]) {
			other = append(other, fmt.Sprintf("%s (%d)", fn, len(ps)))
		}
	}
	sort.Strings(other)
	fmt.Fprintf(os.Stderr, "extract_c18: not-understood constructs in %d functions that touch no designated field or mutex (ignored)\n", len(other))
}
