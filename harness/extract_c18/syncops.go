package main

// Round 8c: the synchronisation operations chanops.go does not list, as facts (same file set, same row shape).
// Every row is (function, kind, expression, class):
//   kind "recv"  : `<-ch` (expression = the channel), also `for … := range ch` when ch is a channel-named field (class "range")
//   kind "done"  : `<-x.Done()` (expression = x, a context)
//   kind "wgAdd" / "wgDone" / "wgWait" : a call of Add / Done / Wait on a WaitGroup-named receiver (last path element contains "wg")
//   kind "go"    : a go statement (expression = the callee, "func" for a function literal)
//   kind "unknown": a sync.WaitGroup declared under a name the rule above would miss (fails closed in Lean)
// class of recv / done: "plain" (not the communication of a select case), "select" (case of a select without default),
// "default" (case of a select with a default clause), "range"; class of wgDone / go / wgWait: "defer" when deferred, else "-".
// Model/C18SyncOps.lean maps every row (with its multiplicity per function) to the instruction of the transcribed program
// or to a reviewed reason; an unknown row, a changed class or a changed multiplicity fails closed.

import (
	"fmt"
	"go/ast"
	"go/token"
	"path/filepath"
	"strings"

	"verifharness/skel"
)

func wgNamed(e ast.Expr) bool {
	s := strings.ToLower(skel.Src(e))
	if i := strings.LastIndex(s, "."); i >= 0 {
		s = s[i+1:]
	}
	return strings.Contains(s, "wg") || strings.Contains(s, "waitgroup")
}

func isWaitGroupType(e ast.Expr) bool {
	if se, ok := e.(*ast.StarExpr); ok {
		e = se.X
	}
	s, ok := e.(*ast.SelectorExpr)
	if !ok {
		return false
	}
	id, ok := s.X.(*ast.Ident)
	return ok && id.Name == "sync" && s.Sel.Name == "WaitGroup"
}

func syncOpsLean() string {
	var rows []string
	add := func(fn, kind, expr, class string) {
		rows = append(rows, fmt.Sprintf("(%s, %s, %s, %s)", leanStr(fn), leanStr(kind), leanStr(expr), leanStr(class)))
	}
	for _, d := range pkgDirs {
		p := pkgs[d]
		for _, f := range p.files {
			base := filepath.Base(p.fset.Position(f.Pos()).Filename)
			ok := false
			for _, a := range anchoredFiles[d] {
				if a == base {
					ok = true
				}
			}
			if !ok {
				continue
			}
			for _, decl := range f.Decls {
				fd, isF := decl.(*ast.FuncDecl)
				if !isF || fd.Body == nil {
					continue
				}
				name := fd.Name.Name
				if fd.Recv != nil && len(fd.Recv.List) == 1 {
					t := fd.Recv.List[0].Type
					if se, ok := t.(*ast.StarExpr); ok {
						t = se.X
					}
					if id, ok := t.(*ast.Ident); ok {
						name = id.Name + "." + name
					}
				}
				fn := d + "|" + name
				// communications of select cases -> class
				commClass := map[ast.Node]string{}
				deferred := map[ast.Node]bool{}
				ast.Inspect(fd.Body, func(n ast.Node) bool {
					switch x := n.(type) {
					case *ast.SelectStmt:
						class := "select"
						for _, c := range x.Body.List {
							if c.(*ast.CommClause).Comm == nil {
								class = "default"
							}
						}
						for _, c := range x.Body.List {
							comm := c.(*ast.CommClause).Comm
							if comm == nil {
								continue
							}
							var e ast.Expr
							switch s := comm.(type) {
							case *ast.ExprStmt:
								e = s.X
							case *ast.AssignStmt:
								if len(s.Rhs) == 1 {
									e = s.Rhs[0]
								}
							}
							if u, ok := e.(*ast.UnaryExpr); ok && u.Op == token.ARROW {
								commClass[u] = class
							}
						}
					case *ast.DeferStmt:
						deferred[x.Call] = true
					}
					return true
				})
				ast.Inspect(fd.Body, func(n ast.Node) bool {
					switch x := n.(type) {
					case *ast.UnaryExpr:
						if x.Op != token.ARROW {
							return true
						}
						class := commClass[x]
						if class == "" {
							class = "plain"
						}
						if call, ok := x.X.(*ast.CallExpr); ok && len(call.Args) == 0 {
							if s, ok := call.Fun.(*ast.SelectorExpr); ok && s.Sel.Name == "Done" {
								add(fn, "done", skel.Src(s.X), class)
								return false // the Done() call below is not a WaitGroup call
							}
						}
						add(fn, "recv", skel.Src(x.X), class)
					case *ast.RangeStmt:
						s := strings.ToLower(skel.Src(x.X))
						if strings.HasSuffix(s, "ch") || strings.HasSuffix(s, "chan") || strings.HasSuffix(s, "()") && strings.Contains(s, "alerts") {
							add(fn, "recv", skel.Src(x.X), "range")
						}
					case *ast.CallExpr:
						s, ok := x.Fun.(*ast.SelectorExpr)
						if !ok || !wgNamed(s.X) {
							return true
						}
						class := "-"
						if deferred[x] {
							class = "defer"
						}
						switch {
						case s.Sel.Name == "Add" && len(x.Args) == 1:
							add(fn, "wgAdd", skel.Src(s.X), skel.Src(x.Args[0]))
						case s.Sel.Name == "Done" && len(x.Args) == 0:
							add(fn, "wgDone", skel.Src(s.X), class)
						case s.Sel.Name == "Wait" && len(x.Args) == 0:
							add(fn, "wgWait", skel.Src(s.X), class)
						}
					case *ast.GoStmt:
						callee := "func"
						if _, lit := x.Call.Fun.(*ast.FuncLit); !lit {
							callee = skel.Src(x.Call.Fun)
						}
						add(fn, "go", callee, "-")
					case *ast.ValueSpec:
						if x.Type != nil && isWaitGroupType(x.Type) {
							for _, id := range x.Names {
								if !wgNamed(id) {
									add(fn, "unknown", id.Name, "WaitGroup")
								}
							}
						}
					case *ast.CompositeLit:
						if x.Type != nil && isWaitGroupType(x.Type) {
							add(fn, "unknown", skel.Src(x), "WaitGroup")
						}
					}
					return true
				})
			}
		}
	}
	return "/-- round 8c: every receive / `<-x.Done()` / WaitGroup call / go statement in a function of the anchored files:\nfunction `pkg|Recv.name`, kind, expression, class (see harness/extract_c18/syncops.go) -/\n" +
		"def syncOps : List (String × String × String × String) := [\n  " + strings.Join(rows, ",\n  ") + "\n]\n\n"
}
