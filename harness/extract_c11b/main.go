// extract_c11b: second translator of property C11 (round 8b). Reads
// api/rest/restapi.go under $VERIF_REPO (default /repo) with go/ast and prints
// lean/ClusterVerif/Gen/C11Send.lean:
//
//   - the value of the constant autoStatus;
//   - the body of (*API).sendResponse as a decision table (`sendLogic`): top-level
//     arms `if <cond> { … return }` and the trailing statements, each statement
//     one of  if <cond> { status = N } | w.WriteHeader(status) | enc.Encode(x) | return;
//   - for every method of *API that calls api.sendResponse (handlers, parse
//     helpers, notFound / methodNotAllowed): the calls, in source order, grouped
//     by the rpcClient.CallContext that precedes them (group "" = before any
//     RPC), each with its status argument (autoStatus | a number), its error
//     argument (nil | a fresh error | a variable), whether a value is passed, and
//     the innermost enclosing condition on `err` (none | err != nil |
//     err is state.ErrNotFound | other).
//
// The Lean side (Model/C11Send.lean) INTERPRETS the table; Props/C11.lean proves
// the status / body discipline over it for every status and relates every
// handler's calls to the model's arm. Unknown shapes are errors (exit 1).
package main

import (
	"fmt"
	"go/ast"
	"go/parser"
	"go/token"
	"os"
	"path/filepath"
	"sort"
	"strconv"
	"strings"
)

func die(format string, a ...interface{}) {
	fmt.Fprintf(os.Stderr, "extract_c11b: "+format+"\n", a...)
	os.Exit(1)
}

var statusCodes = map[string]int{
	"http.StatusOK": 200, "http.StatusCreated": 201, "http.StatusAccepted": 202, "http.StatusNoContent": 204,
	"http.StatusBadRequest": 400, "http.StatusUnauthorized": 401, "http.StatusForbidden": 403,
	"http.StatusNotFound": 404, "http.StatusMethodNotAllowed": 405, "http.StatusConflict": 409,
	"http.StatusInternalServerError": 500, "http.StatusServiceUnavailable": 503,
}

func render(e ast.Expr) string {
	switch x := e.(type) {
	case *ast.Ident:
		return x.Name
	case *ast.SelectorExpr:
		return render(x.X) + "." + x.Sel.Name
	case *ast.CallExpr:
		var a []string
		for _, y := range x.Args {
			a = append(a, render(y))
		}
		return render(x.Fun) + "(" + strings.Join(a, ",") + ")"
	case *ast.BasicLit:
		return x.Value
	case *ast.BinaryExpr:
		return render(x.X) + " " + x.Op.String() + " " + render(x.Y)
	case *ast.UnaryExpr:
		return x.Op.String() + render(x.X)
	case *ast.ParenExpr:
		return "(" + render(x.X) + ")"
	case *ast.StarExpr:
		return "*" + render(x.X)
	case *ast.CompositeLit:
		return render(x.Type) + "{…}"
	}
	return fmt.Sprintf("<%T>", e)
}

// a status expression: a number, or -1000 for the identifier autoStatus
const auto = -1000

func statusOf(e ast.Expr, where string) int {
	s := render(e)
	if s == "autoStatus" {
		return auto
	}
	if n, ok := statusCodes[s]; ok {
		return n
	}
	if b, ok := e.(*ast.BasicLit); ok && b.Kind == token.INT {
		n, err := strconv.Atoi(b.Value)
		if err == nil && n >= 100 && n < 1000 {
			return n
		}
	}
	die("%s: unrecognised status expression %s", where, s)
	return 0
}

// ---- sendResponse ----

func cond(e ast.Expr) string {
	switch x := e.(type) {
	case *ast.ParenExpr:
		return cond(x.X)
	case *ast.UnaryExpr:
		if x.Op == token.NOT {
			return "(.not " + cond(x.X) + ")"
		}
	case *ast.BinaryExpr:
		switch x.Op {
		case token.LOR:
			return "(.or " + cond(x.X) + " " + cond(x.Y) + ")"
		case token.LAND:
			return "(.and " + cond(x.X) + " " + cond(x.Y) + ")"
		}
		l, r := render(x.X), render(x.Y)
		switch {
		case l == "err" && r == "nil" && x.Op == token.NEQ:
			return ".errNonNil"
		case l == "err" && r == "nil" && x.Op == token.EQL:
			return "(.not .errNonNil)"
		case l == "resp" && r == "nil" && x.Op == token.NEQ:
			return ".respNonNil"
		case l == "resp" && r == "nil" && x.Op == token.EQL:
			return "(.not .respNonNil)"
		case l == "status" && r == "autoStatus" && x.Op == token.EQL:
			return ".statusAuto"
		case l == "status" && r == "autoStatus" && x.Op == token.NEQ:
			return "(.not .statusAuto)"
		case l == "status" && x.Op == token.LSS:
			return fmt.Sprintf("(.statusLt %d)", statusOf(x.Y, "sendResponse"))
		case l == "status" && x.Op == token.GEQ:
			return fmt.Sprintf("(.not (.statusLt %d))", statusOf(x.Y, "sendResponse"))
		}
	}
	die("sendResponse: unrecognised condition %s", render(e))
	return ""
}

func onlyLogging(b *ast.BlockStmt) bool {
	for _, s := range b.List {
		es, ok := s.(*ast.ExprStmt)
		if !ok {
			return false
		}
		ce, ok := es.X.(*ast.CallExpr)
		if !ok || !strings.HasPrefix(render(ce.Fun), "logger.") {
			return false
		}
	}
	return true
}

func isEncode(e ast.Expr) bool {
	ce, ok := e.(*ast.CallExpr)
	return ok && render(ce.Fun) == "enc.Encode" && len(ce.Args) == 1
}

// touches reports whether the expression mentions the response writer, the encoder or the status
func touches(n ast.Node) bool {
	found := false
	ast.Inspect(n, func(m ast.Node) bool {
		if id, ok := m.(*ast.Ident); ok && (id.Name == "w" || id.Name == "enc" || id.Name == "status" || id.Name == "resp") {
			found = true
		}
		return true
	})
	return found
}

// stmt translates one statement of sendResponse; "" = a statement without effect on the answer
func stmt(s ast.Stmt, nested bool) string {
	switch x := s.(type) {
	case *ast.ReturnStmt:
		if len(x.Results) != 0 {
			die("sendResponse: return with a value")
		}
		return ".ret"
	case *ast.ExprStmt:
		ce, ok := x.X.(*ast.CallExpr)
		if !ok {
			die("sendResponse: unrecognised statement %s", render(x.X))
		}
		fn := render(ce.Fun)
		switch {
		case strings.HasPrefix(fn, "logger."):
			return ""
		case fn == "api.setHeaders" && !nested:
			return ""
		case fn == "w.WriteHeader":
			if len(ce.Args) != 1 || render(ce.Args[0]) != "status" {
				die("sendResponse: WriteHeader of %s, not of status", render(ce.Args[0]))
			}
			return ".writeHeader"
		case isEncode(ce):
			return ".encode"
		}
		die("sendResponse: unrecognised call %s", render(ce))
	case *ast.AssignStmt:
		if len(x.Lhs) == 1 && len(x.Rhs) == 1 {
			l := render(x.Lhs[0])
			if l == "enc" && render(x.Rhs[0]) == "json.NewEncoder(w)" && x.Tok == token.DEFINE {
				return ""
			}
			if l != "status" && l != "w" && l != "enc" && l != "err" && l != "resp" && x.Tok == token.DEFINE {
				// a local value (errorResp := types.Error{…}); it may read status / err, it must not write anything
				bad := false
				ast.Inspect(x.Rhs[0], func(m ast.Node) bool {
					if _, ok := m.(*ast.CallExpr); ok {
						c := m.(*ast.CallExpr)
						if f := render(c.Fun); f != "err.Error" {
							bad = true
						}
					}
					return true
				})
				if !bad {
					return ""
				}
			}
		}
		die("sendResponse: unrecognised assignment %s", render(x.Lhs[0]))
	case *ast.IfStmt:
		if x.Else != nil {
			die("sendResponse: if with else")
		}
		if x.Init != nil {
			// if err := enc.Encode(x); err != nil { logger… }
			as, ok := x.Init.(*ast.AssignStmt)
			if ok && len(as.Rhs) == 1 && isEncode(as.Rhs[0]) && onlyLogging(x.Body) {
				return ".encode"
			}
			die("sendResponse: unrecognised if-with-init")
		}
		// if c { status = N }
		if len(x.Body.List) == 1 {
			if as, ok := x.Body.List[0].(*ast.AssignStmt); ok && len(as.Lhs) == 1 && render(as.Lhs[0]) == "status" && as.Tok == token.ASSIGN {
				return fmt.Sprintf(".ifSet %s %d", cond(x.Cond), statusOf(as.Rhs[0], "sendResponse"))
			}
		}
		if nested {
			die("sendResponse: conditional nested too deep: if %s", render(x.Cond))
		}
		return "ARM"
	}
	die("sendResponse: unrecognised statement %T", s)
	return ""
}

func sendLogic(fd *ast.FuncDecl) string {
	// parameters must be (w, status, err, resp)
	var names []string
	for _, p := range fd.Type.Params.List {
		for _, n := range p.Names {
			names = append(names, n.Name)
		}
	}
	if strings.Join(names, ",") != "w,status,err,resp" {
		die("sendResponse: parameters are (%s)", strings.Join(names, ","))
	}
	var arms []string
	var cur []string
	flush := func() {
		if len(cur) > 0 {
			arms = append(arms, "{ guard := none, body := ["+strings.Join(cur, ", ")+"] }")
			cur = nil
		}
	}
	for _, s := range fd.Body.List {
		t := stmt(s, false)
		switch t {
		case "":
		case "ARM":
			flush()
			is := s.(*ast.IfStmt)
			var body []string
			for _, b := range is.Body.List {
				if u := stmt(b, true); u != "" {
					body = append(body, u)
				}
			}
			arms = append(arms, "{ guard := some "+cond(is.Cond)+", body := ["+strings.Join(body, ", ")+"] }")
		default:
			cur = append(cur, t)
		}
	}
	flush()
	return "[\n  " + strings.Join(arms, ",\n  ") + "\n]"
}

// ---- call sites ----

type call struct {
	status int
	err    string
	resp   bool
	guard  string
}
type group struct {
	rpc   string
	calls []call
}

func classifyGuard(e ast.Expr, outer string) (then, els string) {
	s := render(e)
	mentions := false
	ast.Inspect(e, func(m ast.Node) bool {
		if id, ok := m.(*ast.Ident); ok && id.Name == "err" {
			mentions = true
		}
		return true
	})
	if !mentions {
		return outer, outer
	}
	switch s {
	case "err != nil":
		return ".errNonNil", ".other"
	case "err != nil && err.Error() == state.ErrNotFound.Error()":
		return ".errNotFound", ".other"
	}
	return ".other", ".other"
}

func hasSend(n ast.Node) bool {
	found := false
	ast.Inspect(n, func(k ast.Node) bool {
		if ce, ok := k.(*ast.CallExpr); ok && render(ce.Fun) == "api.sendResponse" {
			found = true
		}
		return true
	})
	return found
}

// checkFallThrough: in every block, an `if … { … api.sendResponse(…) … }` without else that is followed by
// statements which answer too must end with return — falling through would write a second document.
func checkFallThrough(fd *ast.FuncDecl) {
	ast.Inspect(fd.Body, func(k ast.Node) bool {
		blk, ok := k.(*ast.BlockStmt)
		if !ok {
			return true
		}
		for i, s := range blk.List {
			is, ok := s.(*ast.IfStmt)
			if !ok || is.Else != nil || !hasSend(is.Body) {
				continue
			}
			later := false
			for _, t := range blk.List[i+1:] {
				if hasSend(t) {
					later = true
				}
			}
			if !later {
				continue
			}
			if _, ok := is.Body.List[len(is.Body.List)-1].(*ast.ReturnStmt); !ok {
				die("%s: `if %s { … api.sendResponse(…) }` does not end with return, and another answer follows", fd.Name.Name, render(is.Cond))
			}
		}
		return true
	})
}

type walker struct {
	fn     string
	groups []group
}

func (wk *walker) node(n ast.Node, guard string) {
	if n == nil {
		return
	}
	ast.Inspect(n, func(m ast.Node) bool {
		switch x := m.(type) {
		case *ast.FuncLit:
			ast.Inspect(x, func(k ast.Node) bool {
				if ce, ok := k.(*ast.CallExpr); ok && render(ce.Fun) == "api.sendResponse" {
					die("%s: sendResponse inside a function literal", wk.fn)
				}
				return true
			})
			return false
		case *ast.IfStmt:
			if x.Init != nil {
				wk.node(x.Init, guard)
			}
			wk.node(x.Cond, guard)
			t, e := classifyGuard(x.Cond, guard)
			wk.node(x.Body, t)
			if x.Else != nil {
				wk.node(x.Else, e)
			}
			return false
		case *ast.CallExpr:
			fn := render(x.Fun)
			if strings.HasSuffix(fn, "rpcClient.CallContext") {
				if len(x.Args) < 4 {
					die("%s: CallContext with %d args", wk.fn, len(x.Args))
				}
				svc, _ := strconv.Unquote(render(x.Args[2]))
				meth, _ := strconv.Unquote(render(x.Args[3]))
				wk.groups = append(wk.groups, group{rpc: svc + "." + meth})
			} else if fn == "api.sendResponse" {
				if len(x.Args) != 4 || render(x.Args[0]) != "w" {
					die("%s: sendResponse with unexpected arguments", wk.fn)
				}
				c := call{status: statusOf(x.Args[1], wk.fn), guard: guard}
				switch a := x.Args[2].(type) {
				case *ast.Ident:
					if a.Name == "nil" {
						c.err = ".nil"
					} else {
						c.err = ".var"
					}
				case *ast.CallExpr:
					if f := render(a.Fun); f == "errors.New" || f == "fmt.Errorf" {
						c.err = ".fresh"
					} else {
						die("%s: unrecognised error argument %s", wk.fn, render(a))
					}
				default:
					die("%s: unrecognised error argument %s", wk.fn, render(x.Args[2]))
				}
				c.resp = render(x.Args[3]) != "nil"
				g := &wk.groups[len(wk.groups)-1]
				g.calls = append(g.calls, c)
			}
		}
		return true
	})
}

func main() {
	repo := os.Getenv("VERIF_REPO")
	if repo == "" {
		repo = "/repo"
	}
	src := filepath.Join(repo, "api/rest/restapi.go")
	fset := token.NewFileSet()
	f, err := parser.ParseFile(fset, src, nil, 0)
	if err != nil {
		die("parse %s: %v", src, err)
	}
	// autoStatus
	autoVal := ""
	for _, d := range f.Decls {
		gd, ok := d.(*ast.GenDecl)
		if !ok || gd.Tok != token.CONST {
			continue
		}
		for _, sp := range gd.Specs {
			vs := sp.(*ast.ValueSpec)
			for i, n := range vs.Names {
				if n.Name == "autoStatus" && i < len(vs.Values) {
					autoVal = render(vs.Values[i])
				}
			}
		}
	}
	av, err := strconv.Atoi(autoVal)
	if err != nil {
		die("constant autoStatus not found or not an integer literal: %q", autoVal)
	}

	var b strings.Builder
	b.WriteString("import ClusterVerif.Model.C11Send\n")
	b.WriteString("/-! GENERATED by harness/extract_c11b from api/rest/restapi.go (sendResponse and its call sites). Do not edit. -/\n")
	b.WriteString("namespace CV.C11.Gen\nopen CV.C11\n\n")
	fmt.Fprintf(&b, "def autoStatus : Int := %d\n\n", av)

	var sendFd *ast.FuncDecl
	var fns []*ast.FuncDecl
	for _, d := range f.Decls {
		fd, ok := d.(*ast.FuncDecl)
		if !ok || fd.Body == nil {
			continue
		}
		if fd.Name.Name == "sendResponse" {
			if fd.Recv == nil {
				die("sendResponse is not a method")
			}
			sendFd = fd
			continue
		}
		uses := false
		ast.Inspect(fd.Body, func(m ast.Node) bool {
			if ce, ok := m.(*ast.CallExpr); ok {
				fn := render(ce.Fun)
				if fn == "api.sendResponse" {
					uses = true
				} else if strings.HasSuffix(fn, "sendResponse") {
					die("%s: sendResponse called as %s", fd.Name.Name, fn)
				}
			}
			return true
		})
		if uses {
			fns = append(fns, fd)
		}
	}
	if sendFd == nil {
		die("sendResponse not found")
	}
	b.WriteString("/-- the body of sendResponse -/\n")
	fmt.Fprintf(&b, "def sendLogic : List SArm := %s\n\n", sendLogic(sendFd))

	sort.Slice(fns, func(i, j int) bool { return fns[i].Name.Name < fns[j].Name.Name })
	b.WriteString("/-- per function: its sendResponse calls grouped by the RPC call that precedes them (\"\" = before any) -/\n")
	b.WriteString("def handlerSends : List (String × List (String × List SendCall)) := [\n")
	for i, fd := range fns {
		checkFallThrough(fd)
		wk := &walker{fn: fd.Name.Name, groups: []group{{rpc: ""}}}
		wk.node(fd.Body, ".none")
		var gs []string
		for _, g := range wk.groups {
			var cs []string
			for _, c := range g.calls {
				st := "none"
				if c.status != auto {
					st = fmt.Sprintf("some %d", c.status)
				}
				cs = append(cs, fmt.Sprintf("{ status := %s, err := %s, resp := %v, guard := %s }", st, c.err, c.resp, c.guard))
			}
			gs = append(gs, fmt.Sprintf("(%s, [%s])", strconv.Quote(g.rpc), strings.Join(cs, ", ")))
		}
		sep := ","
		if i == len(fns)-1 {
			sep = ""
		}
		fmt.Fprintf(&b, "  (%s, [%s])%s\n", strconv.Quote(fd.Name.Name), strings.Join(gs, ",\n     "), sep)
	}
	b.WriteString("]\n\nend CV.C11.Gen\n")
	fmt.Print(b.String())
}
