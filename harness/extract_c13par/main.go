// extract_c13par regenerates lean/ClusterVerif/Gen/C13Par.lean: the parameter
// plumbing of adder/adder.go newIpfsAdder (statements with their right-hand
// sides as expression trees) and of adder/ipfsadd/add.go (*Adder).add (the
// DagBuilderParams literal, the chunker argument, the layout switch), read with
// go/ast, plus the importer constants of the libraries the repository is built
// with (DefaultLinksPerBlock, DefaultBlockSize, ChunkSizeLimit: linked values;
// trickle depthRepeat: read from the module source; multihash.Names: linked).
// Fail-closed: a statement / expression that is not one of the recognised shapes
// becomes `.other`, which the Lean interpreter answers with `malformed`.
package main

import (
	"bytes"
	"fmt"
	"go/ast"
	"go/parser"
	"go/printer"
	"go/token"
	"os"
	"path/filepath"
	"runtime/debug"
	"sort"
	"strconv"
	"strings"

	chunker "github.com/ipfs/go-ipfs-chunker"
	ihelper "github.com/ipfs/go-unixfs/importer/helpers"
	multihash "github.com/multiformats/go-multihash"
)

var fset = token.NewFileSet()

func norm(n ast.Node) string {
	var b bytes.Buffer
	printer.Fprint(&b, fset, n)
	s := b.String()
	for _, ws := range []string{" ", "\t", "\n"} {
		s = strings.ReplaceAll(s, ws, "")
	}
	return s
}

func fail(msg string) {
	fmt.Fprintln(os.Stderr, "extract_c13par:", msg)
	os.Exit(1)
}

func parse(path string) *ast.File {
	f, err := parser.ParseFile(fset, path, nil, 0)
	if err != nil {
		fail(err.Error())
	}
	return f
}

func fn(f *ast.File, recv, name string) *ast.FuncDecl {
	for _, d := range f.Decls {
		fd, ok := d.(*ast.FuncDecl)
		if !ok || fd.Name.Name != name {
			continue
		}
		r := ""
		if fd.Recv != nil && len(fd.Recv.List) == 1 {
			r = strings.TrimPrefix(norm(fd.Recv.List[0].Type), "*")
		}
		if r == recv {
			return fd
		}
	}
	fail("function not found: " + recv + "." + name)
	return nil
}

func isLog(s string) bool {
	return strings.HasPrefix(s, "logger.") || strings.HasPrefix(s, "log.")
}

var rfield = map[string]string{
	"Layout": ".layout", "Chunker": ".chunker", "RawLeaves": ".rawLeaves", "NoCopy": ".noCopy",
	"Progress": ".progress", "CidVersion": ".cidVersion", "HashFun": ".hashFun",
}

var ifield = map[string]string{
	"Trickle": ".trickle", "RawLeaves": ".rawLeaves", "Chunker": ".chunker", "Out": ".out",
	"Progress": ".progress", "NoCopy": ".noCopy", "CidBuilder": ".cidBuilder", "Silent": ".silent",
}

func leanStr(s string) string { return strconv.Quote(s) }

// pexpr translates a right-hand side of newIpfsAdder.
func pexpr(e ast.Expr) string {
	switch x := e.(type) {
	case *ast.ParenExpr:
		return pexpr(x.X)
	case *ast.Ident:
		switch x.Name {
		case "out":
			return ".outChan"
		case "true":
			return "(.boolLit true)"
		case "false":
			return "(.boolLit false)"
		}
	case *ast.SelectorExpr:
		if id, ok := x.X.(*ast.Ident); ok && id.Name == "params" {
			if f, ok := rfield[x.Sel.Name]; ok {
				return "(.param " + f + ")"
			}
			return "(.param .other)"
		}
	case *ast.UnaryExpr:
		if x.Op == token.AND && norm(x.X) == "prefix" {
			return ".prefixAddr"
		}
		if x.Op == token.NOT {
			return "(.not " + pexpr(x.X) + ")"
		}
	case *ast.BinaryExpr:
		switch x.Op {
		case token.LOR:
			return "(.or " + pexpr(x.X) + " " + pexpr(x.Y) + ")"
		case token.LAND:
			return "(.and " + pexpr(x.X) + " " + pexpr(x.Y) + ")"
		case token.EQL:
			if sel, ok := x.X.(*ast.SelectorExpr); ok {
				if id, ok := sel.X.(*ast.Ident); ok && id.Name == "params" {
					if lit, ok := x.Y.(*ast.BasicLit); ok && lit.Kind == token.STRING {
						if s, err := strconv.Unquote(lit.Value); err == nil {
							f, ok := rfield[sel.Sel.Name]
							if !ok {
								f = ".other"
							}
							return "(.paramIs " + f + " " + leanStr(s) + ")"
						}
					}
				}
			}
		case token.GTR:
			if norm(x.X) == "prefix.Version" && norm(x.Y) == "0" {
				return ".prefixVersionPos"
			}
		case token.NEQ:
			if norm(x.X) == "prefix.Version" && norm(x.Y) == "0" {
				return ".prefixVersionPos"
			}
		}
	}
	return ".other"
}

// the body of an `if` with logging removed, normalised
func bodyNorm(b *ast.BlockStmt) string {
	var parts []string
	for _, st := range b.List {
		s := norm(st)
		if isLog(s) {
			continue
		}
		parts = append(parts, s)
	}
	return strings.Join(parts, ";")
}

func returnsNilErr(b *ast.BlockStmt) bool {
	n := 0
	for _, st := range b.List {
		if isLog(norm(st)) {
			continue
		}
		n++
		rs, ok := st.(*ast.ReturnStmt)
		if !ok || len(rs.Results) != 2 || norm(rs.Results[0]) != "nil" || norm(rs.Results[1]) == "nil" {
			return false
		}
	}
	return n == 1
}

func pops(stmts []ast.Stmt) []string {
	var out []string
	for _, st := range stmts {
		s := norm(st)
		if isLog(s) {
			continue
		}
		switch s {
		case "iadder,err:=ipfsadd.NewAdder(ctx,dgs)":
			out = append(out, ".newAdder")
			continue
		case "prefix,err:=merkledag.PrefixForCidVersion(params.CidVersion)":
			out = append(out, ".prefixForVersion")
			continue
		case "hashFunCode,ok:=multihash.Names[strings.ToLower(params.HashFun)]":
			out = append(out, ".lookupHash")
			continue
		case "prefix.MhType=hashFunCode":
			out = append(out, ".setMhType")
			continue
		case "prefix.MhLength=-1":
			out = append(out, ".setMhLengthDefault")
			continue
		case "return&ipfsAdder{Adder:iadder,},nil":
			out = append(out, ".retAdder")
			continue
		}
		if as, ok := st.(*ast.AssignStmt); ok && as.Tok == token.ASSIGN && len(as.Lhs) == 1 && len(as.Rhs) == 1 {
			if sel, ok := as.Lhs[0].(*ast.SelectorExpr); ok {
				if id, ok := sel.X.(*ast.Ident); ok && id.Name == "iadder" {
					f, ok := ifield[sel.Sel.Name]
					if !ok {
						f = ".other"
					}
					out = append(out, "(.assign "+f+" "+pexpr(as.Rhs[0])+")")
					continue
				}
			}
		}
		if is, ok := st.(*ast.IfStmt); ok && is.Init == nil && is.Else == nil && returnsNilErr(is.Body) {
			switch norm(is.Cond) {
			case "err!=nil":
				// which error: the one of NewAdder (returned as it is) or of PrefixForCidVersion
				if bodyNorm(is.Body) == "returnnil,err" {
					out = append(out, ".retIfErr")
				} else {
					out = append(out, ".retBadVersion")
				}
				continue
			case "!ok":
				out = append(out, ".retUnknownHash")
				continue
			case "prefix.Version==0&&hashFunCode!=multihash.SHA2_256":
				out = append(out, ".retV0NotSha256")
				continue
			}
		}
		out = append(out, ".other")
	}
	return out
}

// ---- (*ipfsadd.Adder).add ----

var dfield = map[string]string{
	"Dagserv": ".dagserv", "RawLeaves": ".rawLeaves", "Maxlinks": ".maxlinks", "NoCopy": ".noCopy", "CidBuilder": ".cidBuilder",
}

func dexpr(e ast.Expr) string {
	s := norm(e)
	switch s {
	case "adder.dagService":
		return ".adderDagService"
	case "ihelper.DefaultLinksPerBlock":
		return ".defaultLinksPerBlock"
	}
	if sel, ok := e.(*ast.SelectorExpr); ok {
		if id, ok := sel.X.(*ast.Ident); ok && id.Name == "adder" {
			if f, ok := ifield[sel.Sel.Name]; ok {
				return "(.adderField " + f + ")"
			}
		}
	}
	return ".other"
}

func layoutOf(b ast.Stmt) string {
	blk, ok := b.(*ast.BlockStmt)
	if !ok || len(blk.List) != 1 {
		return ".other"
	}
	switch norm(blk.List[0]) {
	case "nd,err=trickle.Layout(db)":
		return ".trickle"
	case "nd,err=balanced.Layout(db)":
		return ".balanced"
	}
	return ".other"
}

type addFlow struct {
	chunkerArg string
	fields     []string
	cond       string
	thn, els   string
	rest       int // statements besides the recognised ones
}

func addOf(fd *ast.FuncDecl) addFlow {
	a := addFlow{chunkerArg: ".other", cond: ".other", thn: ".other", els: ".other"}
	seen := map[string]bool{}
	for _, st := range fd.Body.List {
		s := norm(st)
		if isLog(s) {
			continue
		}
		switch x := st.(type) {
		case *ast.AssignStmt:
			if len(x.Rhs) == 1 {
				if call, ok := x.Rhs[0].(*ast.CallExpr); ok {
					if norm(call.Fun) == "chunker.FromString" && len(call.Args) == 2 && norm(call.Args[0]) == "reader" && norm(x.Lhs[0]) == "chnk" {
						a.chunkerArg = dexpr(call.Args[1])
						seen["chunker"] = true
						continue
					}
					if s == "db,err:=params.New(chnk)" {
						seen["new"] = true
						continue
					}
				}
				if cl, ok := x.Rhs[0].(*ast.CompositeLit); ok && norm(cl.Type) == "ihelper.DagBuilderParams" && norm(x.Lhs[0]) == "params" {
					for _, el := range cl.Elts {
						kv, ok := el.(*ast.KeyValueExpr)
						if !ok {
							a.fields = append(a.fields, "(.other, .other)")
							continue
						}
						f, ok := dfield[norm(kv.Key)]
						if !ok {
							f = ".other"
						}
						a.fields = append(a.fields, "("+f+", "+dexpr(kv.Value)+")")
					}
					seen["params"] = true
					continue
				}
			}
		case *ast.IfStmt:
			if s == "iferr!=nil{returnnil,err}" {
				continue
			}
			if x.Init == nil && x.Else != nil && !seen["layout"] {
				a.cond = dexpr(x.Cond)
				a.thn = layoutOf(x.Body)
				a.els = layoutOf(x.Else)
				seen["layout"] = true
				continue
			}
		case *ast.DeclStmt:
			if s == "varndipld.Node" {
				continue
			}
		case *ast.ReturnStmt:
			if s == "returnnd,nil" {
				continue
			}
		}
		a.rest++
	}
	if !seen["new"] || !seen["params"] || !seen["chunker"] || a.rest > 0 {
		// an unknown statement (or a missing one) between the parameters and the layout: not the shape this reads
		a.fields = append(a.fields, "(.other, .other)")
	}
	return a
}

// depthRepeat: `const depthRepeat = N` in go-unixfs/importer/trickle
func depthRepeat() (int, bool) {
	bi, ok := debug.ReadBuildInfo()
	if !ok {
		return 0, false
	}
	for _, d := range bi.Deps {
		if d.Path != "github.com/ipfs/go-unixfs" {
			continue
		}
		m := d
		if d.Replace != nil {
			m = d.Replace
		}
		dir := m.Path
		if m.Version != "" {
			cache := os.Getenv("GOMODCACHE")
			if cache == "" {
				gp := os.Getenv("GOPATH")
				if gp == "" {
					home, _ := os.UserHomeDir()
					gp = filepath.Join(home, "go")
				}
				cache = filepath.Join(strings.Split(gp, string(os.PathListSeparator))[0], "pkg", "mod")
			}
			dir = filepath.Join(cache, m.Path+"@"+m.Version)
		}
		f, err := parser.ParseFile(fset, filepath.Join(dir, "importer", "trickle", "trickledag.go"), nil, 0)
		if err != nil {
			return 0, false
		}
		for _, decl := range f.Decls {
			gd, ok := decl.(*ast.GenDecl)
			if !ok || gd.Tok != token.CONST {
				continue
			}
			for _, sp := range gd.Specs {
				vs := sp.(*ast.ValueSpec)
				for i, n := range vs.Names {
					if n.Name == "depthRepeat" && i < len(vs.Values) {
						if lit, ok := vs.Values[i].(*ast.BasicLit); ok {
							v, err := strconv.Atoi(lit.Value)
							return v, err == nil
						}
					}
				}
			}
		}
	}
	return 0, false
}

func leanList(xs []string) string { return "[" + strings.Join(xs, ", ") + "]" }

func main() {
	repo := os.Getenv("VERIF_REPO")
	if repo == "" {
		repo = "/repo"
	}
	adderF := parse(filepath.Join(repo, "adder", "adder.go"))
	addF := parse(filepath.Join(repo, "adder", "ipfsadd", "add.go"))
	ops := pops(fn(adderF, "", "newIpfsAdder").Body.List)
	a := addOf(fn(addF, "Adder", "add"))
	dr, drOK := depthRepeat()

	var names []string
	for n := range multihash.Names {
		names = append(names, n)
	}
	sort.Strings(names)
	var tab []string
	for _, n := range names {
		tab = append(tab, fmt.Sprintf("(%s, %d)", leanStr(n), multihash.Names[n]))
	}

	fmt.Printf("import ClusterVerif.Model.C13Par\n")
	fmt.Printf("/- GENERATED by harness/extract_c13par from adder/adder.go (newIpfsAdder), adder/ipfsadd/add.go ((*Adder).add) and the linked go-unixfs / go-ipfs-chunker / go-multihash; do not edit. -/\n")
	fmt.Printf("namespace CV.C13.Gen\nopen CV.C13.Par\n\n")
	fmt.Printf("/-- `newIpfsAdder`: the statements in order -/\ndef newIpfsAdder : List POp :=\n  %s\n\n", leanList(ops))
	fmt.Printf("/-- `(*ipfsadd.Adder).add`: chunker argument, `DagBuilderParams` literal, layout switch -/\n")
	fmt.Printf("def ipfsAdd : AddFlow :=\n  { chunkerArg := %s,\n    fields := %s,\n    cond := %s, thn := %s, els := %s }\n\n", a.chunkerArg, leanList(a.fields), a.cond, a.thn, a.els)
	fmt.Printf("/-- `ihelper.DefaultLinksPerBlock` (value of the linked go-unixfs) -/\ndef linksPerBlock : Nat := %d\n", ihelper.DefaultLinksPerBlock)
	fmt.Printf("/-- `chunker.DefaultBlockSize`, `chunker.ChunkSizeLimit` (linked go-ipfs-chunker) -/\ndef defaultChunk : Nat := %d\ndef chunkSizeLimit : Nat := %d\n", chunker.DefaultBlockSize, chunker.ChunkSizeLimit)
	fmt.Printf("/-- `const depthRepeat` of go-unixfs/importer/trickle (0 = not found) -/\ndef depthRepeat : Nat := %d\ndef depthRepeatFound : Bool := %v\n", dr, drOK)
	fmt.Printf("/-- `multihash.SHA2_256` -/\ndef sha256 : Nat := %d\n", multihash.SHA2_256)
	fmt.Printf("/-- `multihash.Names` -/\ndef hashNames : List (String × Nat) :=\n  %s\n\n", leanList(tab))
	fmt.Printf("end CV.C13.Gen\n")
}
