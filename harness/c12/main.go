// C12 harness: the real ipfsproxy.Server between a recording fake IPFS daemon
// and recording fake Cluster / IPFSConnector / Consensus RPC services.
//
// One case = one HTTP request written byte-for-byte on a TCP connection to a
// fresh proxy (default configuration). The case line is
//
//   C12 <method> p=<rawpath hex> q=<rawquery hex|-> h=<hdrs> b=<body hex> ds=<status>:<body hex>:<hdr hex>
//       f=<failing rpcs|-> pc=<hex> rc=<hex> pins=<..|-> np=<n> gc=<..|-> or=<oracles|-> ing=<n> xp=<hex> dx=<cmd|->
//       => st=<n> se=<0|1> rb=<hex> dh=<hex> it=<items|-> d=<daemon requests|-> r=<rpc calls|->
//
// (grammar in lean/Driver/C12.lean). The harness does not know which requests
// the proxy hijacks: the same recording and canonicalisation is applied to
// every case. Oracle tokens (or=, ing=) are results of third-party
// dependencies (go-path, go-cid, mime/multipart, go-ipfs-files, go-ipfs-chunker,
// go-merkledag, go-multihash) on the request's own arguments; they are
// recomputed when a case is replayed from stdin.
package main

import (
	"bufio"
	"bytes"
	"context"
	"encoding/hex"
	"encoding/json"
	"errors"
	"fmt"
	"io"
	"mime/multipart"
	"net"
	"net/http"
	"net/textproto"
	"net/url"
	"os"
	"runtime"
	"sort"
	"strconv"
	"strings"
	"sync"
	"time"

	"github.com/ipfs/ipfs-cluster/api"
	"github.com/ipfs/ipfs-cluster/api/ipfsproxy"

	cid "github.com/ipfs/go-cid"
	cmds "github.com/ipfs/go-ipfs-cmds"
	cmdshttp "github.com/ipfs/go-ipfs-cmds/http"
	chunker "github.com/ipfs/go-ipfs-chunker"
	files "github.com/ipfs/go-ipfs-files"
	merkledag "github.com/ipfs/go-merkledag"
	gopath "github.com/ipfs/go-path"
	peer "github.com/libp2p/go-libp2p-core/peer"
	rpc "github.com/libp2p/go-libp2p-gorpc"
	ma "github.com/multiformats/go-multiaddr"
	mbase "github.com/multiformats/go-multibase"
	mh "github.com/multiformats/go-multihash"

	"verifharness/common"
)

// ---------------------------------------------------------------------------
// case description

type hdr struct{ k, v string }

type tcase struct {
	method string
	path   string // raw (escaped) path as written on the wire
	query  *string
	hdrs   []hdr // end-to-end headers sent (canonical names, sorted)
	body   []byte

	dStatus int
	dBody   []byte
	dHdr    string
	fails   []string // "Cluster.Unpin", ...
	pinCid  string
	resCid  string
	pins    []string
	npeers  int
	gcKeys  []string

	// round 8: non-default proxy configuration and a slow daemon (all in ms; rhMs == 0: default configuration)
	rhMs, idleMs   int // read_header_timeout, idle_timeout
	delayMs, gapMs int // the daemon answers after delayMs and pauses gapMs in the middle of its body

	// round 8b: repo/stat: RepoStat calls (numbered in arrival order) that fail; repo/gc: the collection reports
	// errors (bit 0: a second peer failed as a whole, bit 1: the first key carries an error)
	statBad []int
	gcErr   int
}

func (c *tcase) slowTokens() string {
	if c.rhMs == 0 && c.delayMs == 0 && c.gapMs == 0 {
		return ""
	}
	rh, idle := c.rhMs, c.idleMs
	if rh == 0 {
		rh, idle = int(ipfsproxy.DefaultReadHeaderTimeout/time.Millisecond), int(ipfsproxy.DefaultIdleTimeout/time.Millisecond)
	}
	return fmt.Sprintf(" cf=%d:%d dl=%d:%d", rh, idle, c.delayMs, c.gapMs)
}

func (c *tcase) aggTokens() string {
	s := ""
	if len(c.statBad) > 0 {
		l := make([]string, len(c.statBad))
		for i, k := range c.statBad {
			l[i] = strconv.Itoa(k)
		}
		s += " sb=" + strings.Join(l, ".")
	}
	if c.gcErr != 0 {
		s += fmt.Sprintf(" ge=%d", c.gcErr)
	}
	return s
}

type dreq struct {
	method, path string
	query        *string
	hdrs         []hdr
	body         []byte
}

type observation struct {
	status int
	serr   bool
	body   []byte
	dhdr   string
	items  []string
	dreqs  []dreq
	rpcs   []string
	note   string // "" or infrastructure problem
	cut    bool   // the proxy closed the connection before a complete response arrived
}

func hx(b []byte) string  { return hex.EncodeToString(b) }
func hxs(s string) string { return hex.EncodeToString([]byte(s)) }

func hxList(l []string) string {
	if len(l) == 0 {
		return "-"
	}
	o := make([]string, len(l))
	for i, s := range l {
		o[i] = hxs(s)
	}
	return strings.Join(o, ",")
}

func hdrTok(l []hdr) string {
	if len(l) == 0 {
		return "-"
	}
	o := make([]string, len(l))
	for i, h := range l {
		o[i] = h.k + ":" + hxs(h.v)
	}
	return strings.Join(o, ",")
}

func qTok(q *string) string {
	if q == nil {
		return "-"
	}
	return hxs(*q)
}

// ---------------------------------------------------------------------------
// recording fake daemon

type daemon struct {
	mu     sync.Mutex
	ln     net.Listener
	srv    *http.Server
	cur    *tcase
	record []dreq
}

// headers that are hop-by-hop, or that describe the framing of the body rather than the request
var skipHdr = map[string]bool{
	"Connection": true, "Keep-Alive": true, "Proxy-Authenticate": true, "Proxy-Authorization": true,
	"Te": true, "Trailer": true, "Transfer-Encoding": true, "Upgrade": true, "Proxy-Connection": true,
	"Content-Length": true, "Host": true, "X-Forwarded-For": true,
}

func canonHdrs(h http.Header) []hdr {
	var l []hdr
	for k, vs := range h {
		ck := textproto.CanonicalMIMEHeaderKey(k)
		if skipHdr[ck] {
			continue
		}
		l = append(l, hdr{ck, strings.Join(vs, "\x00")})
	}
	sort.Slice(l, func(i, j int) bool { return l[i].k < l[j].k })
	return l
}

func (d *daemon) ServeHTTP(w http.ResponseWriter, r *http.Request) {
	body, _ := io.ReadAll(r.Body)
	rec := dreq{method: r.Method, hdrs: canonHdrs(r.Header), body: body}
	uri := r.RequestURI
	if i := strings.IndexByte(uri, '?'); i >= 0 {
		q := uri[i+1:]
		rec.path, rec.query = uri[:i], &q
	} else {
		rec.path = uri
	}
	d.mu.Lock()
	d.record = append(d.record, rec)
	c := d.cur
	d.mu.Unlock()
	if c == nil {
		w.WriteHeader(500)
		return
	}
	if c.delayMs > 0 {
		// a daemon that takes its time before it starts answering (name/publish, dht/*, cat of remote content)
		select {
		case <-time.After(time.Duration(c.delayMs) * time.Millisecond):
		case <-r.Context().Done():
			return // the relay gave up on us
		}
	}
	w.Header().Set("X-Daemon-Hdr", c.dHdr)
	w.Header().Set("Content-Type", "application/octet-stream")
	w.WriteHeader(c.dStatus)
	if c.gapMs > 0 {
		// a daemon that streams: half of the body, a pause, the rest
		h := len(c.dBody) / 2
		w.Write(c.dBody[:h])
		if f, ok := w.(http.Flusher); ok {
			f.Flush()
		}
		select {
		case <-time.After(time.Duration(c.gapMs) * time.Millisecond):
		case <-r.Context().Done():
			return
		}
		w.Write(c.dBody[h:])
		return
	}
	w.Write(c.dBody)
}

func newDaemon() *daemon {
	ln, err := net.Listen("tcp", "127.0.0.1:0")
	if err != nil {
		fmt.Fprintln(os.Stderr, "daemon listen:", err)
		os.Exit(3)
	}
	d := &daemon{ln: ln}
	d.srv = &http.Server{Handler: d}
	go d.srv.Serve(ln)
	return d
}

// ---------------------------------------------------------------------------
// recording fake RPC services

type recorder struct {
	mu        sync.Mutex
	cur       *tcase
	calls     []string
	statCalls int
}

// recStat records the next RepoStat call (numbered in arrival order) and returns its scripted error
func (r *recorder) recStat() error {
	r.mu.Lock()
	defer r.mu.Unlock()
	k := r.statCalls
	r.statCalls++
	failed := false
	if r.cur != nil {
		for _, f := range r.cur.fails {
			if f == "IPFSConnector.RepoStat" {
				failed = true
			}
		}
		for _, b := range r.cur.statBad {
			if b == k {
				failed = true
			}
		}
	}
	ok := "1"
	if failed {
		ok = "0"
	}
	r.calls = append(r.calls, fmt.Sprintf("IPFSConnector.RepoStat||0||||0|0|%s", ok))
	if failed {
		return errors.New("scripted failure of IPFSConnector.RepoStat")
	}
	return nil
}

func (r *recorder) fail(name string) bool {
	r.mu.Lock()
	defer r.mu.Unlock()
	if r.cur == nil {
		return false
	}
	for _, f := range r.cur.fails {
		if f == name {
			return true
		}
	}
	return false
}

// rec appends Name|path|direct|cid|upd|pname|rmin|rmax|ok and returns the scripted error
func (r *recorder) rec(name, path string, direct bool, c, upd cid.Cid, pname string, rmin, rmax int, listed bool) error {
	failed := r.fail(name)
	cs, us := "", ""
	if c.Defined() {
		cs = c.String()
	}
	if upd.Defined() {
		us = upd.String()
	}
	d, ok := "0", "1"
	if direct {
		d = "1"
	}
	if failed {
		ok = "0"
	}
	if listed {
		r.mu.Lock()
		r.calls = append(r.calls, fmt.Sprintf("%s|%s|%s|%s|%s|%s|%d|%d|%s", name, hxs(path), d, hxs(cs), hxs(us), hxs(pname), rmin, rmax, ok))
		r.mu.Unlock()
	}
	if failed {
		return errors.New("scripted failure of " + name)
	}
	return nil
}

// recFailed lists a call the fake refused for a reason of its own
func (r *recorder) recFailed(name string) {
	r.mu.Lock()
	r.calls = append(r.calls, fmt.Sprintf("%s||0||||0|0|0", name))
	r.mu.Unlock()
}

func (r *recorder) script() *tcase {
	r.mu.Lock()
	defer r.mu.Unlock()
	return r.cur
}

func mustCid(s string) cid.Cid {
	c, err := cid.Decode(s)
	if err != nil {
		return cid.Undef
	}
	return c
}

type fakeCluster struct{ r *recorder }
type fakeIPFS struct{ r *recorder }
type fakeConsensus struct{ r *recorder }

func (f *fakeCluster) PinPath(ctx context.Context, in *api.PinPath, out *api.Pin) error {
	if err := f.r.rec("Cluster.PinPath", in.Path, in.Mode == api.PinModeDirect, cid.Undef, in.PinUpdate, in.Name, in.ReplicationFactorMin, in.ReplicationFactorMax, true); err != nil {
		return err
	}
	*out = *api.PinCid(mustCid(f.r.script().pinCid))
	return nil
}

func (f *fakeCluster) UnpinPath(ctx context.Context, in *api.PinPath, out *api.Pin) error {
	if err := f.r.rec("Cluster.UnpinPath", in.Path, in.Mode == api.PinModeDirect, cid.Undef, in.PinUpdate, in.Name, in.ReplicationFactorMin, in.ReplicationFactorMax, true); err != nil {
		return err
	}
	*out = *api.PinCid(mustCid(f.r.script().pinCid))
	return nil
}

func (f *fakeCluster) PinGet(ctx context.Context, in cid.Cid, out *api.Pin) error {
	if err := f.r.rec("Cluster.PinGet", "", false, in, cid.Undef, "", 0, 0, true); err != nil {
		return err
	}
	*out = *api.PinCid(in)
	return nil
}

func (f *fakeCluster) Pins(ctx context.Context, in struct{}, out *[]*api.Pin) error {
	if err := f.r.rec("Cluster.Pins", "", false, cid.Undef, cid.Undef, "", 0, 0, true); err != nil {
		return err
	}
	var l []*api.Pin
	for _, s := range f.r.script().pins {
		l = append(l, api.PinCid(mustCid(s)))
	}
	*out = l
	return nil
}

func (f *fakeCluster) Pin(ctx context.Context, in *api.Pin, out *api.Pin) error {
	if !in.Cid.Defined() {
		// Cluster.pin: "pin.Cid == cid.Undef" is an error
		f.r.recFailed("Cluster.Pin")
		return errors.New("undefined cid")
	}
	if err := f.r.rec("Cluster.Pin", "", in.Mode == api.PinModeDirect, in.Cid, in.PinUpdate, in.Name, in.ReplicationFactorMin, in.ReplicationFactorMax, true); err != nil {
		return err
	}
	*out = *in
	return nil
}

func (f *fakeCluster) Unpin(ctx context.Context, in *api.Pin, out *api.Pin) error {
	if err := f.r.rec("Cluster.Unpin", "", false, in.Cid, cid.Undef, "", 0, 0, true); err != nil {
		return err
	}
	*out = *api.PinCid(in.Cid)
	return nil
}

func (f *fakeCluster) RepoGC(ctx context.Context, in struct{}, out *api.GlobalRepoGC) error {
	if err := f.r.rec("Cluster.RepoGC", "", false, cid.Undef, cid.Undef, "", 0, 0, true); err != nil {
		return err
	}
	gc := &api.RepoGC{Peer: common.PeerN(0)}
	ge := f.r.script().gcErr
	for i, s := range f.r.script().gcKeys {
		k := api.IPFSRepoGC{Key: mustCid(s)}
		if i == 0 && ge&2 != 0 {
			k.Error = "scripted gc error for this key"
		}
		gc.Keys = append(gc.Keys, k)
	}
	*out = api.GlobalRepoGC{PeerMap: map[string]*api.RepoGC{peer.Encode(common.PeerN(0)): gc}}
	if ge&1 != 0 {
		out.PeerMap[peer.Encode(common.PeerN(1))] = &api.RepoGC{Peer: common.PeerN(1), Error: "scripted gc failure of this peer"}
	}
	return nil
}

func (f *fakeCluster) BlockAllocate(ctx context.Context, in *api.Pin, out *[]peer.ID) error {
	if err := f.r.rec("Cluster.BlockAllocate", "", false, cid.Undef, cid.Undef, "", 0, 0, false); err != nil {
		return err
	}
	*out = []peer.ID{""}
	return nil
}

func (f *fakeIPFS) Resolve(ctx context.Context, in string, out *cid.Cid) error {
	if err := f.r.rec("IPFSConnector.Resolve", in, false, cid.Undef, cid.Undef, "", 0, 0, true); err != nil {
		return err
	}
	*out = mustCid(f.r.script().resCid)
	return nil
}

func (f *fakeIPFS) RepoStat(ctx context.Context, in struct{}, out *api.IPFSRepoStat) error {
	if err := f.r.recStat(); err != nil {
		return err
	}
	*out = api.IPFSRepoStat{RepoSize: 1000, StorageMax: 100000}
	return nil
}

func (f *fakeIPFS) BlockPut(ctx context.Context, in *api.NodeWithMeta, out *struct{}) error {
	return f.r.rec("IPFSConnector.BlockPut", "", false, cid.Undef, cid.Undef, "", 0, 0, false)
}

func (f *fakeConsensus) Peers(ctx context.Context, in struct{}, out *[]peer.ID) error {
	if err := f.r.rec("Consensus.Peers", "", false, cid.Undef, cid.Undef, "", 0, 0, true); err != nil {
		return err
	}
	var l []peer.ID
	for i := 0; i < f.r.script().npeers; i++ {
		l = append(l, common.PeerN(i))
	}
	*out = l
	return nil
}

func newRPC(r *recorder) *rpc.Client {
	s := rpc.NewServer(nil, "c12")
	for name, svc := range map[string]interface{}{"Cluster": &fakeCluster{r}, "IPFSConnector": &fakeIPFS{r}, "Consensus": &fakeConsensus{r}} {
		if err := s.RegisterName(name, svc); err != nil {
			fmt.Fprintln(os.Stderr, "rpc register:", err)
			os.Exit(3)
		}
	}
	return rpc.NewClientWithServer(nil, "c12", s)
}

// ---------------------------------------------------------------------------
// http.DefaultTransport of this process (ipfsproxy.New takes it as the round tripper towards the daemon) is
// wrapped so that the harness can close, after each case, the response bodies the proxy never closes
// (headers.go copyHeadersFromIPFSWithRequest): otherwise every hijacked request pins two connections and two
// file descriptors for the rest of the run.

type trackingRT struct {
	inner http.RoundTripper
	mu    sync.Mutex
	open  []io.Closer
}

func (t *trackingRT) RoundTrip(req *http.Request) (*http.Response, error) {
	res, err := t.inner.RoundTrip(req)
	if res != nil && res.Body != nil {
		t.mu.Lock()
		t.open = append(t.open, res.Body)
		t.mu.Unlock()
	}
	return res, err
}

func (t *trackingRT) settle() {
	t.mu.Lock()
	l := t.open
	t.open = nil
	t.mu.Unlock()
	for _, c := range l {
		c.Close()
	}
}

var tracker = &trackingRT{inner: http.DefaultTransport}

func init() { http.DefaultTransport = tracker }

// ---------------------------------------------------------------------------
// one case against a fresh proxy

type world struct {
	d   *daemon
	rec *recorder
	cl  *rpc.Client
}

func freePort() int {
	l, err := net.Listen("tcp", "127.0.0.1:0")
	if err != nil {
		return 0
	}
	defer l.Close()
	return l.Addr().(*net.TCPAddr).Port
}

func (w *world) startProxy(c *tcase) (*ipfsproxy.Server, string, error) {
	var lastErr error
	for try := 0; try < 20; try++ {
		port := freePort()
		if port == 0 {
			continue
		}
		cfg := &ipfsproxy.Config{}
		cfg.Default()
		if c.rhMs > 0 {
			cfg.ReadHeaderTimeout = time.Duration(c.rhMs) * time.Millisecond
			cfg.IdleTimeout = time.Duration(c.idleMs) * time.Millisecond
		}
		dport := w.d.ln.Addr().(*net.TCPAddr).Port
		cfg.NodeAddr, _ = ma.NewMultiaddr(fmt.Sprintf("/ip4/127.0.0.1/tcp/%d", dport))
		la, _ := ma.NewMultiaddr(fmt.Sprintf("/ip4/127.0.0.1/tcp/%d", port))
		cfg.ListenAddr = []ma.Multiaddr{la}
		p, err := ipfsproxy.New(cfg)
		if err != nil {
			lastErr = err
			continue
		}
		p.SetClient(w.cl)
		return p, fmt.Sprintf("127.0.0.1:%d", port), nil
	}
	return nil, "", lastErr
}

func wire(c *tcase) []byte {
	var b bytes.Buffer
	b.WriteString(c.method + " " + c.path)
	if c.query != nil {
		b.WriteString("?" + *c.query)
	}
	b.WriteString(" HTTP/1.1\r\nHost: proxy.c12\r\nConnection: close\r\n")
	for _, h := range c.hdrs {
		b.WriteString(h.k + ": " + h.v + "\r\n")
	}
	chunked := false
	for _, h := range c.hdrs {
		if h.k == "X-C12-Chunked" {
			chunked = true
		}
	}
	if chunked {
		// the same body, framed in chunks of the size the header names
		b.WriteString("Transfer-Encoding: chunked\r\n\r\n")
		size := 7
		for _, h := range c.hdrs {
			if h.k == "X-C12-Chunked" {
				if v, err := strconv.Atoi(h.v); err == nil && v > 0 {
					size = v
				}
			}
		}
		for off := 0; off < len(c.body); off += size {
			end := off + size
			if end > len(c.body) {
				end = len(c.body)
			}
			fmt.Fprintf(&b, "%x\r\n", end-off)
			b.Write(c.body[off:end])
			b.WriteString("\r\n")
		}
		b.WriteString("0\r\n\r\n")
		return b.Bytes()
	}
	if len(c.body) > 0 || c.method == "POST" || c.method == "PUT" || c.method == "PATCH" {
		b.WriteString("Content-Length: " + strconv.Itoa(len(c.body)) + "\r\n")
	}
	b.WriteString("\r\n")
	b.Write(c.body)
	return b.Bytes()
}

func (w *world) exec(c *tcase) (obs observation) {
	defer func() {
		if r := recover(); r != nil {
			obs.note = fmt.Sprint("panic:", r)
		}
	}()
	defer tracker.settle()
	w.d.mu.Lock()
	w.d.cur, w.d.record = c, nil
	w.d.mu.Unlock()
	// a fresh recorder and RPC client per attempt (round 8b): the handler of an earlier, abandoned attempt of the same case
	// (a slow-daemon case whose connection was cut and that is retried) may still be running and must not record its RPCs
	// into this attempt's list (observed once under load: PinPath listed twice => false hijack_success_op)
	w.rec = &recorder{cur: c}
	w.cl = newRPC(w.rec)

	p, addr, err := w.startProxy(c)
	if err != nil {
		obs.note = "proxy-start:" + err.Error()
		return
	}
	defer p.Shutdown(context.Background())

	var conn net.Conn
	for try := 0; try < 200; try++ {
		conn, err = net.DialTimeout("tcp", addr, 2*time.Second)
		if err == nil {
			break
		}
		time.Sleep(2 * time.Millisecond)
	}
	if err != nil {
		obs.note = "dial:" + err.Error()
		return
	}
	defer conn.Close()
	conn.SetDeadline(time.Now().Add(30 * time.Second))
	if _, err = conn.Write(wire(c)); err != nil {
		obs.note = "write:" + err.Error()
		return
	}
	collect := func() {
		p.Shutdown(context.Background())
		tracker.settle()
		w.d.mu.Lock()
		obs.dreqs = append([]dreq(nil), w.d.record...)
		w.d.mu.Unlock()
		w.rec.mu.Lock()
		obs.rpcs = append([]string(nil), w.rec.calls...)
		w.rec.mu.Unlock()
	}
	res, err := http.ReadResponse(bufio.NewReader(conn), &http.Request{Method: c.method})
	if err != nil {
		obs.note = "read:" + err.Error()
		obs.cut = true
		collect()
		return
	}
	body, err := io.ReadAll(res.Body)
	if err != nil {
		obs.note = "readbody:" + err.Error()
		obs.cut = true
		obs.status = res.StatusCode
		obs.body = body
		obs.dhdr = res.Header.Get("X-Daemon-Hdr")
		collect()
		return
	}
	res.Body.Close()
	obs.status = res.StatusCode
	obs.body = body
	obs.dhdr = res.Header.Get("X-Daemon-Hdr")
	obs.serr = res.Header.Get("X-Stream-Error") != "" || res.Trailer.Get("X-Stream-Error") != ""
	obs.items = items(body)

	// the handler may still be running after the response was read (it is not, for the
	// code paths that exist: every RPC precedes the end of the response) — settle anyway
	p.Shutdown(context.Background())
	tracker.settle()
	w.d.mu.Lock()
	obs.dreqs = append([]dreq(nil), w.d.record...)
	w.d.mu.Unlock()
	w.rec.mu.Lock()
	obs.rpcs = append([]string(nil), w.rec.calls...)
	w.rec.mu.Unlock()
	return
}

// items: the canonical content of an answer in one of the shapes the hijacked endpoints use
func items(body []byte) []string {
	var one map[string]json.RawMessage
	if json.Unmarshal(body, &one) == nil && one != nil {
		if raw, ok := one["Pins"]; ok {
			var l []string
			if json.Unmarshal(raw, &l) == nil {
				return l
			}
		}
		if raw, ok := one["Keys"]; ok {
			var m map[string]json.RawMessage
			if json.Unmarshal(raw, &m) == nil {
				var l []string
				for k := range m {
					l = append(l, k)
				}
				sort.Strings(l)
				return l
			}
		}
		_, a := one["RepoSize"]
		_, b := one["StorageMax"]
		if a && b {
			var st api.IPFSRepoStat
			if json.Unmarshal(body, &st) == nil {
				return []string{strconv.FormatUint(st.RepoSize, 10), strconv.FormatUint(st.StorageMax, 10)}
			}
		}
	}
	// a JSON array or a stream of JSON objects with Hash (add) or Key (repo gc)
	var objs []map[string]json.RawMessage
	if json.Unmarshal(body, &objs) != nil {
		objs = nil
		decoder := json.NewDecoder(bytes.NewReader(body))
		for {
			var o map[string]json.RawMessage
			if err := decoder.Decode(&o); err != nil {
				break
			}
			objs = append(objs, o)
		}
	}
	var hashes, keys []string
	for _, o := range objs {
		if raw, ok := o["Hash"]; ok {
			var s string
			if json.Unmarshal(raw, &s) == nil && s != "" {
				hashes = append(hashes, s)
			}
		}
		if raw, ok := o["Key"]; ok {
			var k map[string]string
			if json.Unmarshal(raw, &k) == nil && k["/"] != "" {
				keys = append(keys, k["/"])
			}
		}
	}
	if len(hashes) > 0 {
		return hashes
	}
	sort.Strings(keys)
	return keys
}

// ---------------------------------------------------------------------------
// oracles (third-party dependencies on the request's own arguments)

func oracles(c *tcase) string {
	seen := map[string]bool{}
	var args []string
	add := func(a string) {
		if !seen[a] {
			seen[a] = true
			args = append(args, a)
		}
	}
	if c.query != nil {
		vals, _ := url.ParseQuery(*c.query)
		for _, a := range vals["arg"] {
			add(a)
		}
	}
	if p, err := url.PathUnescape(c.path); err == nil {
		if i := strings.LastIndexByte(p, '/'); i >= 0 {
			add(p[i+1:])
		}
	}
	add("")
	var toks []string
	for _, a := range args {
		pp, cd := "!", "!"
		if p, err := gopath.ParsePath(a); err == nil {
			pp = hxs(p.String())
		}
		if k, err := cid.Decode(a); err == nil {
			cd = hxs(k.String())
		}
		toks = append(toks, hxs(a)+":"+pp+":"+cd)
	}
	return strings.Join(toks, ";")
}

type discard struct{}

// ingest: 0 = no multipart reader, 1 = the DAG builder would reject body/options, 2 = accepted,
// 3 = accepted but the multipart body has no file (the adder then has no root unless it wraps)
func ingest(c *tcase) int {
	h := http.Header{}
	for _, x := range c.hdrs {
		h.Set(x.k, x.v)
	}
	req := &http.Request{Header: h, Body: io.NopCloser(bytes.NewReader(c.body))}
	rd, err := req.MultipartReader()
	if err != nil {
		return 0
	}
	q := url.Values{}
	if c.query != nil {
		q, _ = url.ParseQuery(*c.query)
	}
	if q.Get("format") == "car" {
		return 1
	}
	hf := q.Get("hash")
	if hf == "" {
		hf = "sha2-256"
	}
	if _, ok := mh.Names[strings.ToLower(hf)]; !ok {
		return 1
	}
	cv := 0
	if v := q.Get("cid-version"); v != "" {
		cv, _ = strconv.Atoi(v)
	}
	if _, err := merkledag.PrefixForCidVersion(cv); err != nil {
		return 1
	}
	dir, err := files.NewFileFromPartReader(rd, "multipart/form-data")
	if err != nil {
		return 1
	}
	n := 0
	err = files.Walk(dir, func(name string, nd files.Node) error {
		if f, ok := nd.(files.File); ok {
			n++
			_, err := io.Copy(io.Discard, f)
			return err
		}
		return nil
	})
	if err != nil {
		return 1
	}
	if n == 0 {
		return 3
	}
	// the chunker is only consulted once there is a file to chunk
	ck := q.Get("chunker")
	if ck == "" {
		ck = "size-262144"
	}
	if _, err := chunker.FromString(bytes.NewReader(nil), ck); err != nil {
		return 1
	}
	return 2
}

// ---------------------------------------------------------------------------
// how would an IPFS daemon interpret the request? (informational: names the near misses of the hijacked
// endpoints that a daemon built on the go-ipfs-cmds version ipfs-cluster links would execute)

var (
	stubRan  string
	stubOnce sync.Once
	stubMux  *http.ServeMux
)

func stubLeaf(name string, args ...cmds.Argument) *cmds.Command {
	return &cmds.Command{
		Arguments: args,
		Run: func(req *cmds.Request, re cmds.ResponseEmitter, env cmds.Environment) error {
			stubRan = name
			return nil
		},
	}
}

func daemonWouldRun(c *tcase) (res string) {
	defer func() {
		if r := recover(); r != nil {
			res = "panic"
		}
	}()
	stubOnce.Do(func() {
		root := &cmds.Command{Subcommands: map[string]*cmds.Command{
			"pin": {Subcommands: map[string]*cmds.Command{
				"add":    stubLeaf("pin/add", cmds.StringArg("ipfs-path", true, true, "")),
				"rm":     stubLeaf("pin/rm", cmds.StringArg("ipfs-path", true, true, "")),
				"ls":     stubLeaf("pin/ls", cmds.StringArg("ipfs-path", false, true, "")),
				"update": stubLeaf("pin/update", cmds.StringArg("from-path", true, false, ""), cmds.StringArg("to-path", true, false, "")),
			}},
			"add": stubLeaf("add", cmds.FileArg("path", true, true, "")),
			"repo": {Subcommands: map[string]*cmds.Command{
				"stat": stubLeaf("repo/stat"),
				"gc":   stubLeaf("repo/gc"),
			}},
		}}
		cfg := cmdshttp.NewServerConfig()
		cfg.APIPath = "/api/v0"
		stubMux = http.NewServeMux()
		stubMux.Handle("/api/v0/", cmdshttp.NewHandler(nil, root, cfg))
	})
	req, err := http.ReadRequest(bufio.NewReader(bytes.NewReader(wire(c))))
	if err != nil {
		return "-"
	}
	stubRan = ""
	rec := &nullWriter{h: http.Header{}}
	stubMux.ServeHTTP(rec, req)
	if stubRan == "" {
		return "-"
	}
	return stubRan
}

type nullWriter struct{ h http.Header }

func (n *nullWriter) Header() http.Header       { return n.h }
func (n *nullWriter) Write(b []byte) (int, error) { return len(b), nil }
func (n *nullWriter) WriteHeader(int)             {}

// ---------------------------------------------------------------------------
// printing

func inputTokens(c *tcase) string {
	f := "-"
	if len(c.fails) > 0 {
		f = strings.Join(c.fails, ",")
	}
	return fmt.Sprintf("%s p=%s q=%s h=%s b=%s ds=%d:%s:%s f=%s pc=%s rc=%s pins=%s np=%d gc=%s or=%s ing=%d xp=%s dx=%s"+c.slowTokens()+c.aggTokens(),
		c.method, hxs(c.path), qTok(c.query), hdrTok(c.hdrs), hx(c.body), c.dStatus, hx(c.dBody), hxs(c.dHdr), f,
		hxs(c.pinCid), hxs(c.resCid), hxList(c.pins), c.npeers, hxList(c.gcKeys), oracles(c), ingest(c),
		hxs(ipfsproxy.DefaultExtractHeadersPath), daemonWouldRun(c))
}

func outputTokens(o observation) string {
	se := "0"
	if o.serr {
		se = "1"
	}
	d := "-"
	if len(o.dreqs) > 0 {
		l := make([]string, len(o.dreqs))
		for i, r := range o.dreqs {
			l[i] = fmt.Sprintf("%s|%s|%s|%s|%s", r.method, hxs(r.path), qTok(r.query), hdrTok(r.hdrs), hx(r.body))
		}
		d = strings.Join(l, ";")
	}
	r := "-"
	if len(o.rpcs) > 0 {
		r = strings.Join(o.rpcs, ";")
	}
	return fmt.Sprintf("st=%d se=%s rb=%s dh=%s it=%s d=%s r=%s", o.status, se, hx(o.body), hxs(o.dhdr), hxList(o.items), d, r)
}

func (w *world) runCase(out *common.Out, c *tcase) {
	o := w.exec(c)
	for try := 0; try < 2 && (o.note != "" || (o.status == 502 && len(o.dreqs) == 0 && c.dStatus != 502)); try++ {
		// infrastructure, not the code (no port, no descriptor, the daemon could not be dialled): try again
		time.Sleep(200 * time.Millisecond)
		o = w.exec(c)
	}
	if o.note == "" && o.status == 502 && len(o.dreqs) == 0 && c.dStatus != 502 {
		o.note = "proxy-could-not-dial-daemon"
	}
	if o.note != "" && o.cut && (c.delayMs > 0 || c.gapMs > 0) && len(o.dreqs) > 0 {
		// three times in a row the proxy cut the client off while the (slow) daemon was being asked: that is the
		// behaviour of the code under test, not an infrastructure problem. Reported as status 0 / what arrived.
		if !strings.HasPrefix(o.note, "readbody:") {
			o.status, o.body, o.dhdr = 0, nil, ""
		} else {
			o.status = 0
		}
		o.note = ""
	}
	if o.note != "" {
		out.Line("# inconclusive %s :: %s", o.note, inputTokens(c))
		return
	}
	out.Line("C12 %s => %s", inputTokens(c), outputTokens(o))
}

// ---------------------------------------------------------------------------
// stdin replay: parse the input part of a case line

func unhex(s string) (string, error) {
	b, err := hex.DecodeString(s)
	return string(b), err
}

func parseHdrTok(s string) ([]hdr, error) {
	if s == "-" {
		return nil, nil
	}
	var l []hdr
	for _, kv := range strings.Split(s, ",") {
		i := strings.IndexByte(kv, ':')
		if i < 0 {
			return nil, errors.New("hdr")
		}
		v, err := unhex(kv[i+1:])
		if err != nil {
			return nil, err
		}
		l = append(l, hdr{kv[:i], v})
	}
	return l, nil
}

func parseHexList(s string) ([]string, error) {
	if s == "-" {
		return nil, nil
	}
	var l []string
	for _, x := range strings.Split(s, ",") {
		v, err := unhex(x)
		if err != nil {
			return nil, err
		}
		l = append(l, v)
	}
	return l, nil
}

func parseLine(line string) (*tcase, error) {
	ws := strings.Fields(line)
	if len(ws) > 0 && ws[0] == "C12" {
		ws = ws[1:]
	}
	if len(ws) < 1 {
		return nil, errors.New("empty")
	}
	c := &tcase{method: ws[0], dStatus: 200}
	for _, w := range ws[1:] {
		if w == "=>" {
			break
		}
		i := strings.IndexByte(w, '=')
		if i < 0 {
			return nil, errors.New("token " + w)
		}
		k, v := w[:i], w[i+1:]
		var err error
		switch k {
		case "p":
			c.path, err = unhex(v)
		case "q":
			if v != "-" {
				var q string
				q, err = unhex(v)
				c.query = &q
			}
		case "h":
			c.hdrs, err = parseHdrTok(v)
		case "b":
			var b string
			b, err = unhex(v)
			c.body = []byte(b)
		case "ds":
			parts := strings.Split(v, ":")
			if len(parts) != 3 {
				return nil, errors.New("ds")
			}
			c.dStatus, err = strconv.Atoi(parts[0])
			if err == nil {
				var b string
				b, err = unhex(parts[1])
				c.dBody = []byte(b)
			}
			if err == nil {
				c.dHdr, err = unhex(parts[2])
			}
		case "f":
			if v != "-" {
				c.fails = strings.Split(v, ",")
			}
		case "pc":
			c.pinCid, err = unhex(v)
		case "rc":
			c.resCid, err = unhex(v)
		case "pins":
			c.pins, err = parseHexList(v)
			sort.Strings(c.pins) // convention: scripted lists are given in the order the answers are canonicalised to
		case "np":
			c.npeers, err = strconv.Atoi(v)
		case "gc":
			c.gcKeys, err = parseHexList(v)
			sort.Strings(c.gcKeys)
		case "cf", "dl":
			parts := strings.Split(v, ":")
			if len(parts) != 2 {
				return nil, errors.New(k)
			}
			var a, b int
			if a, err = strconv.Atoi(parts[0]); err == nil {
				b, err = strconv.Atoi(parts[1])
			}
			if k == "cf" {
				c.rhMs, c.idleMs = a, b
			} else {
				c.delayMs, c.gapMs = a, b
			}
		case "sb":
			for _, x := range strings.Split(v, ".") {
				var n int
				if n, err = strconv.Atoi(x); err != nil {
					break
				}
				c.statBad = append(c.statBad, n)
			}
		case "ge":
			c.gcErr, err = strconv.Atoi(v)
		case "or", "ing", "xp", "dx":
			// recomputed
		default:
			return nil, errors.New("unknown token " + k)
		}
		if err != nil {
			return nil, fmt.Errorf("token %s: %v", k, err)
		}
	}
	return c, nil
}

// ---------------------------------------------------------------------------
// generators

var allMethods = []string{"GET", "POST", "PUT", "DELETE", "OPTIONS", "HEAD", "PATCH"}
var hijackMethods = []string{"POST", "GET", "PUT"}

func pick(r *common.Rng, l []string) string { return l[r.Intn(len(l))] }

func cidStr(k int) string { return common.CidN(k).String() }

// an argument naming content: valid in several spellings, or invalid
func genArg(r *common.Rng) string {
	k := r.Intn(12)
	c := common.CidN(k)
	switch r.Intn(14) {
	case 0, 1, 2, 3:
		return c.String()
	case 4:
		return "/ipfs/" + c.String()
	case 5:
		return "/ipfs/" + c.String() + "/sub/file.txt"
	case 6:
		return c.String() + "/inner"
	case 7:
		return "/ipns/name" + strconv.Itoa(k) + ".example.org"
	case 8:
		if c.Version() == 1 {
			s, err := c.StringOfBase(mbase.Base58BTC)
			if err == nil {
				return s
			}
		}
		return c.String()
	case 9:
		if c.Version() == 1 {
			s, err := c.StringOfBase(mbase.Base16)
			if err == nil {
				return s
			}
		}
		return "/ipld/" + c.String()
	case 10:
		return pick(r, []string{"notacid", "Qmfoo", "/ipfs/", "/ipfs/notacid", "/foo/bar", "/ipns/", "bafy", "..", "a b", "%", "/"})
	case 11:
		return ""
	case 12:
		return "/ipfs/" + c.String() + "/"
	default:
		return c.String()[:len(c.String())-1]
	}
}

// escape an argument for use in a query or as a path segment, in one of several equivalent spellings
func escArg(r *common.Rng, a string, segment bool) string {
	switch r.Intn(4) {
	case 0:
		if segment {
			return url.PathEscape(a)
		}
		return url.QueryEscape(a)
	case 1:
		// escape everything
		var b strings.Builder
		for i := 0; i < len(a); i++ {
			fmt.Fprintf(&b, "%%%02X", a[i])
		}
		return b.String()
	default:
		// leave what is commonly left unescaped
		var b strings.Builder
		for i := 0; i < len(a); i++ {
			ch := a[i]
			switch {
			case ch >= 'a' && ch <= 'z', ch >= 'A' && ch <= 'Z', ch >= '0' && ch <= '9', ch == '-', ch == '_', ch == '.', ch == '~':
				b.WriteByte(ch)
			case ch == '/' && !segment:
				b.WriteByte(ch)
			default:
				fmt.Fprintf(&b, "%%%02x", ch)
			}
		}
		return b.String()
	}
}

type kv struct{ k, v string }

func encodeQuery(r *common.Rng, l []kv) string {
	// shuffle lightly: keep the relative order of equal keys (argument order matters)
	parts := make([]string, 0, len(l))
	for _, p := range l {
		if p.v == "\x00novalue" {
			parts = append(parts, p.k)
			continue
		}
		parts = append(parts, p.k+"="+p.v)
	}
	return strings.Join(parts, "&")
}

func stdHdrs(r *common.Rng, extra ...hdr) []hdr {
	l := []hdr{{"Accept-Encoding", "identity"}}
	if r.Chance(1, 2) {
		l = append(l, hdr{"X-C12-Token", "t" + strconv.Itoa(r.Intn(100000))})
	}
	if r.Chance(1, 4) {
		l = append(l, hdr{"Origin", "http://origin" + strconv.Itoa(r.Intn(5)) + ".example"})
	}
	if r.Chance(1, 5) {
		l = append(l, hdr{"Authorization", "Basic dXNlcjpwYXNz"})
	}
	if r.Chance(1, 6) {
		l = append(l, hdr{"User-Agent", "c12/" + strconv.Itoa(r.Intn(9))})
	}
	l = append(l, extra...)
	sort.Slice(l, func(i, j int) bool { return l[i].k < l[j].k })
	// unique names
	var u []hdr
	for i, h := range l {
		if i > 0 && l[i-1].k == h.k {
			continue
		}
		u = append(u, h)
	}
	return u
}

var rpcNames = []string{"Cluster.PinPath", "Cluster.UnpinPath", "Cluster.PinGet", "Cluster.Pins", "Cluster.Pin", "Cluster.Unpin",
	"Cluster.RepoGC", "Consensus.Peers", "IPFSConnector.RepoStat", "IPFSConnector.Resolve", "Cluster.BlockAllocate", "IPFSConnector.BlockPut"}

func genEnv(r *common.Rng, c *tcase, relevant []string) {
	c.dStatus = []int{200, 200, 200, 201, 204, 301, 400, 403, 404, 405, 500, 502}[r.Intn(12)]
	n := r.Intn(40)
	if r.Chance(1, 10) {
		n = 200 + r.Intn(2000)
	}
	c.dBody = make([]byte, n)
	for i := range c.dBody {
		c.dBody[i] = byte(r.Intn(256))
	}
	if r.Chance(1, 3) {
		c.dBody = []byte(`{"Pins":["` + cidStr(r.Intn(12)) + `"]}`)
	}
	c.dHdr = "d" + strconv.Itoa(r.Intn(100000))
	c.pinCid = cidStr(r.Intn(12))
	c.resCid = cidStr(r.Intn(12))
	np := r.Intn(5)
	seen := map[string]bool{}
	for i := 0; i < np; i++ {
		s := cidStr(r.Intn(12))
		if !seen[s] {
			seen[s] = true
			c.pins = append(c.pins, s)
		}
	}
	sort.Strings(c.pins)
	c.npeers = r.Intn(4)
	ng := r.Intn(4)
	seen = map[string]bool{}
	for i := 0; i < ng; i++ {
		s := cidStr(r.Intn(12))
		if !seen[s] {
			seen[s] = true
			c.gcKeys = append(c.gcKeys, s)
		}
	}
	sort.Strings(c.gcKeys)
	if len(relevant) > 0 && r.Chance(35, 100) {
		c.fails = append(c.fails, pick(r, relevant))
		if r.Chance(1, 4) {
			x := pick(r, relevant)
			if x != c.fails[0] {
				c.fails = append(c.fails, x)
			}
		}
	} else if r.Chance(1, 10) {
		c.fails = append(c.fails, pick(r, rpcNames))
	}
	sort.Strings(c.fails)
}

func multipartBody(r *common.Rng, kind int) ([]byte, string) {
	var b bytes.Buffer
	w := multipart.NewWriter(&b)
	nfiles := 1
	if kind == 1 {
		nfiles = 2
	}
	for i := 0; i < nfiles; i++ {
		name := "file" + strconv.Itoa(i) + ".txt"
		if r.Chance(1, 6) {
			name = ".hidden" + strconv.Itoa(i)
		}
		h := textproto.MIMEHeader{}
		h.Set("Content-Disposition", fmt.Sprintf(`form-data; name="file"; filename="%s"`, url.QueryEscape(name)))
		h.Set("Content-Type", "application/octet-stream")
		pw, _ := w.CreatePart(h)
		n := r.Intn(300)
		data := make([]byte, n)
		for j := range data {
			data[j] = byte(r.Intn(256))
		}
		pw.Write(data)
	}
	w.Close()
	body := b.Bytes()
	ct := w.FormDataContentType()
	switch kind {
	case 2: // truncated
		body = body[:len(body)/2]
	case 3: // empty body
		body = nil
	}
	return body, ct
}

var boolVals = []string{"true", "false", "true", "false", "1", "0", "t", "T", "TRUE", "False", "true", "false", "", "yes", "true", "false"}

func genAdd(r *common.Rng, c *tcase) {
	kind := []int{0, 0, 0, 0, 0, 0, 0, 1, 1, 1, 2, 3}[r.Intn(12)]
	body, ct := multipartBody(r, kind)
	c.body = body
	switch r.Intn(24) {
	case 0:
		c.hdrs = stdHdrs(r) // no content type
	case 1:
		c.hdrs = stdHdrs(r, hdr{"Content-Type", "text/plain"})
	case 2:
		c.hdrs = stdHdrs(r, hdr{"Content-Type", "multipart/form-data"})
	case 3:
		c.hdrs = stdHdrs(r, hdr{"Content-Type", strings.Replace(ct, "form-data", "mixed", 1)})
	default:
		c.hdrs = stdHdrs(r, hdr{"Content-Type", ct})
	}
	var q []kv
	opt := func(num, den int, k string, vals ...string) {
		if r.Chance(num, den) {
			q = append(q, kv{k, pick(r, vals)})
		}
	}
	opt(1, 6, "only-hash", "true", "true", "false", "false", "1", "TRUE", "")
	opt(1, 3, "pin", "false", "false", "true", "0", "False", "")
	opt(1, 4, "layout", "trickle", "balanced", "trickle", "balanced", "", "bogus")
	opt(1, 8, "trickle", "true", "false")
	opt(1, 4, "chunker", "size-64", "size-1024", "size-262144", "size-64", "size-32", "size-0", "bogus-chunker", "")
	opt(1, 4, "raw-leaves", boolVals...)
	opt(1, 6, "hidden", boolVals...)
	opt(1, 4, "wrap-with-directory", boolVals...)
	opt(1, 6, "progress", boolVals...)
	opt(1, 8, "quiet", "true", "false")
	opt(1, 8, "silent", "true")
	opt(1, 3, "stream-channels", "true", "false", "false", "false", "0", "1", "x", "")
	opt(1, 5, "cid-version", "0", "1", "1", "0", "2", "x", "")
	opt(1, 10, "hash", "sha2-256", "sha2-256", "bogus-hash", "")
	opt(1, 4, "name", "myname", "a+b", "n%20m", "")
	opt(1, 5, "replication-min", "-1", "1", "2", "0", "x", "+3", "")
	opt(1, 5, "replication-max", "-1", "1", "3", "5", "1.5", "")
	opt(1, 8, "replication", "2", "-1", "3", "zz", "")
	opt(1, 8, "mode", "recursive", "direct", "direct", "bogus", "")
	opt(1, 8, "local", boolVals...)
	opt(1, 10, "recursive", boolVals...)
	opt(1, 10, "format", "", "unixfs", "unixfs", "zip")
	opt(1, 10, "shard", "false", "0", "x", "")
	opt(1, 12, "shard-size", "1000000", "1000000", "-5", "abc")
	opt(1, 14, "nocopy", "false", "x")
	opt(1, 10, "arg", escArg(r, genArg(r), false))
	// duplicates: first value wins
	if len(q) > 0 && r.Chance(1, 8) {
		d := q[r.Intn(len(q))]
		q = append(q, kv{d.k, pick(r, boolVals)})
	}
	for i := len(q) - 1; i > 0; i-- {
		j := r.Intn(i + 1)
		q[i], q[j] = q[j], q[i]
	}
	// sharded adding and nocopy are outside the model: never ask for them
	var kept []kv
	for _, p := range q {
		if p.k == "shard" || p.k == "nocopy" {
			if b, err := strconv.ParseBool(p.v); err == nil && b {
				continue
			}
		}
		kept = append(kept, p)
	}
	q = kept
	if len(q) > 0 || r.Chance(1, 2) {
		s := encodeQuery(r, q)
		c.query = &s
	}
}

// a hijacked endpoint, in one of its argument styles, well-formed or nearly so
func genHijack(r *common.Rng, c *tcase) {
	c.method = pick(r, hijackMethods)
	if r.Chance(1, 12) {
		c.method = pick(r, allMethods)
	}
	ep := r.Intn(100)
	var q []kv
	junk := func() {
		if r.Chance(1, 4) {
			q = append(q, kv{pick(r, []string{"quiet", "progress", "recursive", "stream", "encoding", "stream-channels"}), pick(r, []string{"true", "false", "json"})})
		}
	}
	switch {
	case ep < 40: // pin add / rm / ls
		which := pick(r, []string{"add", "add", "rm", "rm", "ls"})
		rel := map[string][]string{"add": {"Cluster.PinPath"}, "rm": {"Cluster.UnpinPath"}, "ls": {"Cluster.PinGet", "Cluster.Pins"}}[which]
		genEnv(r, c, rel)
		a := genArg(r)
		if which == "ls" && r.Chance(1, 2) {
			a = ""
		}
		if r.Chance(1, 3) && a != "" { // slash style
			c.path = "/api/v0/pin/" + which + "/" + escArg(r, a, true)
			if r.Chance(1, 4) { // a competing ?arg=
				q = append(q, kv{"arg", escArg(r, genArg(r), false)})
			}
		} else {
			c.path = "/api/v0/pin/" + which
			if a != "" || r.Chance(1, 2) {
				q = append(q, kv{"arg", escArg(r, a, false)})
			}
			if r.Chance(1, 10) {
				q = append(q, kv{"arg", escArg(r, genArg(r), false)})
			}
		}
		if r.Chance(1, 2) {
			q = append(q, kv{"type", pick(r, []string{"recursive", "direct", "direct", "all", "indirect", "", "Direct"})})
		}
		junk()
	case ep < 58: // pin update
		genEnv(r, c, []string{"IPFSConnector.Resolve", "Cluster.PinPath", "Cluster.Unpin", "Cluster.Unpin"})
		c.path = "/api/v0/pin/update"
		n := []int{0, 1, 2, 2, 2, 2, 2, 3}[r.Intn(8)]
		for i := 0; i < n; i++ {
			q = append(q, kv{"arg", escArg(r, genArg(r), false)})
		}
		if r.Chance(1, 2) {
			q = append(q, kv{"unpin", pick(r, []string{"false", "false", "true", "0", "False", "", "x"})})
		}
		junk()
	case ep < 84: // add
		genEnv(r, c, []string{"Cluster.Pin", "Cluster.Unpin", "Cluster.Unpin", "Cluster.BlockAllocate", "IPFSConnector.BlockPut"})
		c.path = "/api/v0/add"
		genAdd(r, c)
		return
	case ep < 92:
		genEnv(r, c, []string{"Consensus.Peers", "IPFSConnector.RepoStat"})
		c.path = "/api/v0/repo/stat"
		if r.Chance(1, 3) {
			q = append(q, kv{"size-only", "true"})
		}
		junk()
		// round 8b: some of the peers fail (any subset, in arrival order of the calls)
		if c.npeers > 0 && r.Chance(1, 2) {
			for k := 0; k < c.npeers; k++ {
				if r.Chance(1, 3) {
					c.statBad = append(c.statBad, k)
				}
			}
		}
	default:
		genEnv(r, c, []string{"Cluster.RepoGC"})
		c.path = "/api/v0/repo/gc"
		se := ""
		if r.Chance(1, 2) {
			se = pick(r, []string{"true", "false"})
			q = append(q, kv{"stream-errors", se})
		}
		junk()
		// round 8b/8c: the collection reports a failed peer and/or a key error, for EVERY stream-errors value. Without
		// stream-errors=true the handler reports them in X-Stream-Error AFTER the collection ran: known finding K12d
		// (the model follows: Model/C12.lean gcSerr; those cases are `propfail hijack_error_no_op arm=repoGCHandler-200`).
		_ = se
		if r.Chance(1, 2) {
			c.gcErr = 1 + r.Intn(3)
			if len(c.gcKeys) == 0 {
				c.gcErr = 1
			}
		}
	}
	for i := len(q) - 1; i > 0; i-- {
		// keep the relative order of the arg values
		j := r.Intn(i + 1)
		if q[i].k != "arg" && q[j].k != "arg" {
			q[i], q[j] = q[j], q[i]
		}
	}
	if len(q) > 0 || r.Chance(1, 3) {
		s := encodeQuery(r, q)
		c.query = &s
	}
	c.hdrs = stdHdrs(r)
	if r.Chance(1, 5) {
		c.body = []byte("ignored body " + strconv.Itoa(r.Intn(1000)))
	}
}

var segWords = []string{"api", "v0", "v1", "pin", "add", "rm", "ls", "update", "repo", "stat", "gc", "version", "id", "cat", "pins", "addx",
	"Pin", "ADD", "swarm", "peers", "dag", "put", "block", "get", "config", "files", "name", "publish", "key", "%61dd", "p%69n", "v%30"}

func randSeg(r *common.Rng) string {
	switch r.Intn(12) {
	case 0:
		return cidStr(r.Intn(12))
	case 1:
		n := 1 + r.Intn(6)
		b := make([]byte, n)
		for i := range b {
			b[i] = "abcXYZ019-_.~!$&'()*+,;=:@"[r.Intn(26)]
		}
		return string(b)
	case 2:
		n := 1 + r.Intn(4)
		var b strings.Builder
		for i := 0; i < n; i++ {
			fmt.Fprintf(&b, "%%%02X", r.Intn(256))
		}
		return b.String()
	default:
		return pick(r, segWords)
	}
}

func randQuery(r *common.Rng) *string {
	if r.Chance(1, 3) {
		return nil
	}
	n := r.Intn(4)
	var parts []string
	for i := 0; i < n; i++ {
		k := pick(r, []string{"arg", "arg", "type", "pin", "only-hash", "unpin", "x", "recursive", "quiet", "a%20b", "stream-channels"})
		switch r.Intn(6) {
		case 0:
			parts = append(parts, k)
		case 1:
			parts = append(parts, k+"="+cidStr(r.Intn(12)))
		case 2:
			parts = append(parts, k+"="+url.QueryEscape(genArg(r)))
		case 3:
			parts = append(parts, k+"="+pick(r, []string{"true", "false", "a+b", "%zz", "a;b", "a=b", "%41", "??", "#frag"}))
		default:
			parts = append(parts, k+"="+pick(r, boolVals))
		}
	}
	s := strings.Join(parts, "&")
	return &s
}

func randBody(r *common.Rng, thorough bool) []byte {
	switch r.Intn(5) {
	case 0, 1:
		return nil
	case 2:
		b, _ := multipartBody(r, 0)
		return b
	default:
		n := r.Intn(64)
		if thorough && r.Chance(1, 10) {
			n = 1000 + r.Intn(8000)
		}
		b := make([]byte, n)
		for i := range b {
			b[i] = byte(r.Intn(256))
		}
		return b
	}
}

// every other request: arbitrary method, path, query, body
func genRelay(r *common.Rng, c *tcase, thorough bool) {
	genEnv(r, c, nil)
	c.method = pick(r, allMethods)
	if r.Chance(1, 20) {
		c.method = pick(r, []string{"get", "Post", "PROPFIND", "TRACE", "M-SEARCH"})
	}
	n := r.Intn(6)
	var segs []string
	if r.Chance(2, 3) {
		segs = append(segs, "api", pick(r, []string{"v0", "v0", "v0", "v1"}))
	}
	for i := 0; i < n; i++ {
		segs = append(segs, randSeg(r))
	}
	c.path = "/" + strings.Join(segs, "/")
	if r.Chance(1, 8) {
		c.path += "/"
	}
	c.query = randQuery(r)
	c.body = randBody(r, thorough)
	if c.method == "HEAD" || c.method == "GET" || c.method == "OPTIONS" {
		if r.Chance(3, 4) {
			c.body = nil
		}
	}
	var extra []hdr
	if len(c.body) > 0 && r.Chance(1, 2) {
		extra = append(extra, hdr{"Content-Type", pick(r, []string{"application/json", "multipart/form-data; boundary=xyz", "text/plain"})})
	}
	if len(c.body) > 0 && thorough && r.Chance(1, 6) {
		extra = append(extra, hdr{"X-C12-Chunked", strconv.Itoa(1 + r.Intn(40))})
	}
	c.hdrs = stdHdrs(r, extra...)
}

// exhaustive small universe: every method x every path /api/v0/<s1>/../<sk> (k <= depth) over a vocabulary that
// contains every word of the hijack table, a stranger, the empty segment and a CID
var enumVocab = []string{"pin", "add", "rm", "ls", "update", "repo", "stat", "gc", "x", "", "\x00cid"}

func enumCount(depth int) int {
	n, pw := 0, 1
	for d := 0; d <= depth; d++ {
		n += pw
		pw *= len(enumVocab)
	}
	return n * len(allMethods)
}

func enumCase(k int) *tcase {
	c := &tcase{dStatus: 200, dBody: []byte("daemon says hi"), dHdr: "denum", pinCid: cidStr(1), resCid: cidStr(2),
		pins: []string{cidStr(3)}, npeers: 2, gcKeys: []string{cidStr(4)}}
	c.method = allMethods[k%len(allMethods)]
	k /= len(allMethods)
	depth, pw := 0, 1
	for k >= pw {
		k -= pw
		pw *= len(enumVocab)
		depth++
	}
	path := "/api/v0"
	for d := 0; d < depth; d++ {
		w := enumVocab[k%len(enumVocab)]
		k /= len(enumVocab)
		if w == "\x00cid" {
			w = cidStr(5)
		}
		path += "/" + w
	}
	c.path = path
	q := "arg=" + cidStr(6) + "&arg=" + cidStr(7)
	c.query = &q
	r := common.NewRng(uint64(k) + 99)
	body, ct := multipartBody(r, 0)
	c.body = body
	c.hdrs = []hdr{{"Accept-Encoding", "identity"}, {"Content-Type", ct}}
	return c
}

// near misses of the hijacked endpoints
func genNearMiss(r *common.Rng, c *tcase) {
	genEnv(r, c, nil)
	base := pick(r, []string{"/api/v0/pin/add", "/api/v0/pin/rm", "/api/v0/pin/ls", "/api/v0/pin/update", "/api/v0/add", "/api/v0/repo/stat", "/api/v0/repo/gc"})
	arg := cidStr(r.Intn(12))
	c.method = pick(r, hijackMethods)
	withArg := true
	switch r.Intn(16) {
	case 0:
		c.path = base + "/"
	case 1:
		c.path = base + "x"
	case 2:
		c.path = strings.ToUpper(base)
	case 3:
		c.path = strings.Replace(base, "/v0/", "/v1/", 1)
	case 4:
		c.path = strings.TrimPrefix(base, "/api/v0")
	case 5:
		c.path = base + "/" + arg + "/"
	case 6:
		c.path = base + "/" + arg + "/sub"
	case 7:
		c.path = base + "/" + url.PathEscape("/ipfs/"+arg)
	case 8:
		c.path = strings.Replace(base, "/api/", "//api/", 1)
	case 9:
		c.path = strings.Replace(base, "/v0/", "/v0//", 1)
	case 10:
		c.path = strings.Replace(base, "/v0/", "/./v0/", 1)
	case 11:
		c.path = "/x/.." + base
	case 12:
		c.path = base + "/" + pick(r, []string{".", "..", "%2e", "%2E%2E"})
	case 13:
		// the exact endpoint with a method the proxy does not intercept
		c.path = base
		c.method = pick(r, []string{"DELETE", "OPTIONS", "HEAD", "PATCH", "post", "Get"})
	case 14:
		c.path = "/api/v0" + strings.Replace(strings.TrimPrefix(base, "/api/v0"), "/", "%2F", 1)
	default:
		c.path = "/api/v0/" + pick(r, []string{"pins", "pin", "pin/", "pin/verify", "repo", "repo/version", "add/x", "addx", "pin/addx", "pin/add%20", "pin/add%00"})
	}
	if withArg && r.Chance(2, 3) {
		s := "arg=" + arg
		if r.Chance(1, 3) {
			s += "&arg=" + cidStr(r.Intn(12))
		}
		c.query = &s
	}
	if r.Chance(1, 3) {
		c.body, _ = multipartBody(r, 0)
	}
	c.hdrs = stdHdrs(r)
}

// malformed stream: request targets that are not valid URIs, odd queries
func genMalformed(r *common.Rng, c *tcase) {
	genEnv(r, c, nil)
	c.method = pick(r, allMethods)
	base := pick(r, []string{"/api/v0/pin/add", "/api/v0/version", "/api/v0/pin/ls/x", "/x", "/api/v0/add"})
	switch r.Intn(8) {
	case 0:
		c.path = base + "/%zz"
	case 1:
		c.path = base + "%"
	case 2:
		c.path = base + "/%4"
	case 3:
		c.path = base + "/" + pick(r, []string{"a\"b", "a<b>", "a^b", "a|b", "{x}", "a`b", "a\\b", "a#b", "[x]"})
	case 4:
		c.path = base + "/%00%ff%0a"
	case 5:
		c.path = base
		s := pick(r, []string{"arg=%zz", "arg=a;b", ";", "&&&", "=", "arg", "arg=&arg=", "%=%", "arg=" + cidStr(1) + ";type=direct", "a=b#c"})
		c.query = &s
	case 6:
		c.path = base + "/" + strings.Repeat("a", 300+r.Intn(2000))
	default:
		c.path = "/"
		if r.Chance(1, 2) {
			c.path = "/%2e%2e/%2f"
		}
	}
	if c.query == nil && r.Chance(1, 2) {
		c.query = randQuery(r)
	}
	c.hdrs = stdHdrs(r)
}

func gen(r *common.Rng, thorough bool) *tcase {
	c := &tcase{}
	x := r.Intn(100)
	switch {
	case x < 42:
		genHijack(r, c)
	case x < 78:
		genRelay(r, c, thorough)
	case x < 92:
		genNearMiss(r, c)
	default:
		genMalformed(r, c)
	}
	// round 8: now and then the same request meets a proxy with small configured timeouts and a daemon that is
	// slower than every one of them (drawn after the case itself, so the other cases of a seed are unchanged)
	if r.Chance(1, 150) {
		makeSlow(r, c)
	}
	return c
}

func makeSlow(r *common.Rng, c *tcase) {
	c.rhMs = []int{200, 300}[r.Intn(2)]
	c.idleMs = []int{50, 100, 150, 60000}[r.Intn(4)]
	switch x := r.Intn(20); {
	case x < 10: // slower than read_header_timeout and idle_timeout before the first byte
		c.delayMs = 2*c.rhMs + 100
	case x < 13: // slow, but faster than every timeout
		c.delayMs = c.rhMs / 5
	case x < 17: // prompt header, then a pause in the body longer than every timeout
		c.gapMs = 2*c.rhMs + 50
	default:
		c.delayMs, c.gapMs = 2*c.rhMs+100, c.rhMs+50
	}
}

func main() {
	args := common.ParseArgs()
	out := common.NewOut()
	defer out.Flush()
	rec := &recorder{}
	w := &world{d: newDaemon(), rec: rec, cl: newRPC(rec)}

	if args.Extra["stdin"] == "1" {
		sc := bufio.NewScanner(os.Stdin)
		sc.Buffer(make([]byte, 1<<20), 1<<26)
		for sc.Scan() {
			line := strings.TrimSpace(sc.Text())
			if line == "" || strings.HasPrefix(line, "#") {
				continue
			}
			c, err := parseLine(line)
			if err != nil {
				out.Line("# bad corpus line (%v): %s", err, line)
				continue
			}
			w.runCase(out, c)
		}
		return
	}
	n := args.N
	if n < 0 {
		n = 500
	}
	// the first cases are the exhaustive small universe (depth 2 quick, 3 thorough), as far as n/2 allows
	enum := enumCount(2)
	if args.Tier == "thorough" {
		enum = enumCount(3)
	}
	if enum > n/2 {
		enum = n / 2
	}
	base := common.NewRng(common.Seed())
	for k := 0; k < n; k++ {
		if args.Only >= 0 && k != args.Only {
			continue
		}
		var c *tcase
		if k < enum {
			c = enumCase(k)
		} else {
			c = gen(base.Fork(uint64(k)), args.Tier == "thorough")
		}
		w.runCase(out, c)
		if k%200 == 199 {
			runtime.GC()
		}
	}
}
