// extract_c13flow regenerates lean/ClusterVerif/Gen/C13Flow.lean: the statement
// flow of adder/single/dag_service.go (New, Add, Finalize), of
// adder/sharding/shard.go (AddLink, Flush) and of adder/adder.go (FromFiles) as
// lists of enumerated operations (go/ast; every statement that is not one of the
// recognised shapes becomes `.other`, which the Lean interpreter treats as a
// failure: fail-closed). The Lean model *interprets* the single.DAGService
// program (Model/C13Flow.lean); the shard and FromFiles programs are compared
// with the operation order the models were written for.
package main

import (
	"bytes"
	"fmt"
	"go/ast"
	"go/parser"
	"go/printer"
	"go/token"
	"os"
	"path/filepath"
	"strings"
)

var fset = token.NewFileSet()

func norm(n ast.Node) string {
	var b bytes.Buffer
	printer.Fprint(&b, fset, n)
	s := b.String()
	for _, ws := range []string{" ", "\t", "\n"} {
		s = strings.ReplaceAll(s, ws, "")
	}
	return s
}

func fail(msg string) {
	fmt.Fprintln(os.Stderr, "extract_c13flow:", msg)
	os.Exit(1)
}

func parse(path string) *ast.File {
	f, err := parser.ParseFile(fset, path, nil, 0)
	if err != nil {
		fail(err.Error())
	}
	return f
}

// fn finds a function by name and (optional) receiver type name.
func fn(f *ast.File, recv, name string) *ast.FuncDecl {
	for _, d := range f.Decls {
		fd, ok := d.(*ast.FuncDecl)
		if !ok || fd.Name.Name != name {
			continue
		}
		r := ""
		if fd.Recv != nil && len(fd.Recv.List) == 1 {
			r = strings.TrimPrefix(norm(fd.Recv.List[0].Type), "*")
		}
		if r == recv {
			return fd
		}
	}
	fail("function not found: " + recv + "." + name)
	return nil
}

func isLog(s string) bool {
	return strings.HasPrefix(s, "logger.Debug") || strings.HasPrefix(s, "logger.Info") || strings.HasPrefix(s, "logger.Warn") || strings.HasPrefix(s, "logger.Error")
}

// ---- single.DAGService ----

var singleStmt = map[string]string{
	"opts.Mode=api.PinModeRecursive":                                   ".forceRecursive",
	"dests,err:=adder.BlockAllocate(ctx,dgs.rpcClient,dgs.pinOpts)":    ".allocate",
	"iferr!=nil{returnerr}":                                            ".retIfErr",
	"dgs.dests=dests":                                                  ".storeDests",
	"returndgs.ba.Add(ctx,node)":                                       ".retPut",
	"rootPin:=api.PinWithOpts(root,dgs.pinOpts)":                       ".mkPin",
	"rootPin.Allocations=dgs.dests":                                    ".allocsFromDests",
	"dgs.dests=nil":                                                    ".resetDests",
	"returnroot,adder.Pin(ctx,dgs.rpcClient,rootPin)":                  ".retPin",
	"return&DAGService{rpcClient:rpc,dests:nil,pinOpts:opts,local:local,}": ".retNew",
}

var baExpr = map[string]string{
	"dgs.ba=adder.NewBlockAdder(dgs.rpcClient,[]peer.ID{\"\"})": ".localOnly",
	"dgs.ba=adder.NewBlockAdder(dgs.rpcClient,dests)":          ".dests",
}

func baOf(b ast.Stmt) string {
	blk, ok := b.(*ast.BlockStmt)
	if !ok || len(blk.List) != 1 {
		return ".other"
	}
	if t, ok := baExpr[norm(blk.List[0])]; ok {
		return t
	}
	return ".other"
}

func singleOps(stmts []ast.Stmt) []string {
	var out []string
	for _, st := range stmts {
		s := norm(st)
		if isLog(s) {
			continue
		}
		if t, ok := singleStmt[s]; ok {
			out = append(out, t)
			continue
		}
		if is, ok := st.(*ast.IfStmt); ok && is.Init == nil && norm(is.Cond) == "dgs.local" && is.Else != nil {
			out = append(out, fmt.Sprintf("(.ifLocal %s %s)", baOf(is.Body), baOf(is.Else)))
			continue
		}
		out = append(out, ".other")
	}
	return out
}

func leanList(xs []string) string {
	return "[" + strings.Join(xs, ", ") + "]"
}

// ---- generic: statements to tokens through a table; nested bodies are flattened between open/close ----

func flat(stmts []ast.Stmt, table map[string]string, conds map[string]string) []string {
	var out []string
	for _, st := range stmts {
		s := norm(st)
		if isLog(s) {
			continue
		}
		if t, ok := table[s]; ok {
			out = append(out, t)
			continue
		}
		switch x := st.(type) {
		case *ast.IfStmt:
			if c, ok := conds[norm(x.Cond)]; ok && x.Init == nil && x.Else == nil {
				out = append(out, c)
				out = append(out, flat(x.Body.List, table, conds)...)
				out = append(out, ".endIf")
				continue
			}
		case *ast.ForStmt:
			if c, ok := conds["for:"+norm(x.Cond)]; ok && x.Init == nil && x.Post == nil {
				out = append(out, c)
				out = append(out, flat(x.Body.List, table, conds)...)
				out = append(out, ".endFor")
				continue
			}
		case *ast.SelectStmt:
			out = append(out, ".selectOpen")
			for _, cc := range x.Body.List {
				cl := cc.(*ast.CommClause)
				if cl.Comm == nil {
					out = append(out, ".caseDefault")
				} else if c, ok := conds["case:"+norm(cl.Comm)]; ok {
					out = append(out, c)
				} else {
					out = append(out, ".other")
				}
				out = append(out, flat(cl.Body, table, conds)...)
			}
			out = append(out, ".endSelect")
			continue
		case *ast.SwitchStmt:
			if c, ok := conds["switch:"+norm(x.Tag)]; ok && x.Init == nil {
				out = append(out, c)
				for _, cc := range x.Body.List {
					cl := cc.(*ast.CaseClause)
					lab := "default"
					if cl.List != nil {
						var ls []string
						for _, e := range cl.List {
							ls = append(ls, norm(e))
						}
						lab = strings.Join(ls, ",")
					}
					if c, ok := conds["label:"+lab]; ok {
						out = append(out, c)
					} else {
						out = append(out, ".other")
					}
					out = append(out, flat(cl.Body, table, conds)...)
				}
				out = append(out, ".endSwitch")
				continue
			}
		}
		out = append(out, ".other")
	}
	return out
}

var shardStmt = map[string]string{
	// AddLink
	"linkN:=len(sh.dagNode)":                  ".linkIndexIsLen",
	"linkName:=fmt.Sprintf(\"%d\",linkN)":     ".linkNameDecimal",
	"sh.dagNode[linkName]=c":                  ".storeLink",
	"sh.currentSize+=s":                       ".sizePlusBlock",
	// Flush
	"nodes,err:=makeDAG(ctx,sh.dagNode)":      ".makeDAG",
	"iferr!=nil{returncid.Undef,err}":         ".retIfErr",
	"err=sh.ba.AddMany(ctx,nodes)":            ".putNodes",
	"rootCid:=nodes[0].Cid()":                 ".rootIsFirstNode",
	"pin:=api.PinWithOpts(rootCid,sh.pinOptions)": ".mkPin",
	"pin.Name=fmt.Sprintf(\"%s-shard-%d\",sh.pinOptions.Name,shardN)": ".pinName",
	"pin.Allocations=sh.allocations":          ".pinAllocsShard",
	"pin.Type=api.ShardType":                  ".pinTypeShard",
	"pin.Reference=&prev":                     ".pinRefPrev",
	"pin.MaxDepth=1":                          ".depthLit",
	"pin.MaxDepth=2":                          ".depthLit",
	"pin.ShardSize=sh.Size()":                 ".pinShardSizeIsSize",
	"returnrootCid,adder.Pin(ctx,sh.rpc,pin)": ".retPin",
	// Size / Limit
	"returnsh.currentSize":                    ".retCurrentSize",
	"returnsh.sizeLimit":                      ".retSizeLimit",
}

var shardCond = map[string]string{
	"prev.Defined()": ".ifPrevDefined",
	"len(nodes)>1":   ".ifDepthGuard",
}

var fromFilesStmt = map[string]string{
	"a.setContext(ctx)":                            ".setContext",
	"defera.cancel()":                              ".deferCancel",
	"deferclose(a.output)":                         ".deferCloseOutput",
	"vardagFmtrdagFormatter":                       ".declFormatter",
	"varerrerror":                                  ".declErr",
	"dagFmtr,err=newIpfsAdder(ctx,a.dgs,a.params,a.output)": ".newIpfsAdder",
	"dagFmtr,err=newCarAdder(ctx,a.dgs,a.params,a.output)":  ".newCarAdder",
	"err=errors.New(\"baddagformatteroption\")":    ".errBadFormat",
	"returncid.Undef,err":                          ".retErr",
	"returncid.Undef,a.ctx.Err()":                  ".retCtxErr",
	"returncid.Undef,it.Err()":                     ".retItErr",
	"f=files.NewSliceDirectory([]files.DirEntry{files.FileEntry(\"\",f)},)": ".wrapInDir",
	"it:=f.Entries()":                              ".entries",
	"varadderRootcid.Cid":                          ".declRoot",
	"adderRoot,err=dagFmtr.Add(it.Name(),it.Node())": ".addEntry",
	"break":                                        ".breakLoop",
	"clusterRoot,err:=a.dgs.Finalize(a.ctx,adderRoot)": ".finalize",
	"returnclusterRoot,nil":                        ".retRoot",
}

var fromFilesCond = map[string]string{
	"a.ctx.Err()!=nil":          ".ifCtxErr",
	"err!=nil":                  ".ifErr",
	"a.params.Wrap":             ".ifWrap",
	"for:it.Next()":             ".forEntries",
	"case:<-a.ctx.Done()":       ".caseCtxDone",
	"switch:a.params.Format":    ".switchFormat",
	"label:\"\",\"unixfs\"":     ".labelUnixfs",
	"label:\"car\"":             ".labelCar",
	"label:default":             ".labelDefault",
	"a.params.Format==\"car\"":  ".ifCar",
	"it.Err()!=nil":             ".ifItErr",
}

func main() {
	repo := os.Getenv("VERIF_REPO")
	if repo == "" {
		repo = "/repo"
	}
	singleF := parse(filepath.Join(repo, "adder", "single", "dag_service.go"))
	shardF := parse(filepath.Join(repo, "adder", "sharding", "shard.go"))
	adderF := parse(filepath.Join(repo, "adder", "adder.go"))

	// single.New
	newOps := singleOps(fn(singleF, "", "New").Body.List)
	// single.Add: if <guard> { guarded } ; tail
	add := fn(singleF, "DAGService", "Add")
	guard, guarded, tail := ".other", []string{}, []string{}
	if len(add.Body.List) >= 1 {
		if is, ok := add.Body.List[0].(*ast.IfStmt); ok && is.Init == nil && is.Else == nil {
			if norm(is.Cond) == "dgs.dests==nil" {
				guard = ".destsNil"
			}
			guarded = singleOps(is.Body.List)
			tail = singleOps(add.Body.List[1:])
		} else {
			tail = singleOps(add.Body.List)
		}
	}
	finOps := singleOps(fn(singleF, "DAGService", "Finalize").Body.List)

	addLink := flat(fn(shardF, "shard", "AddLink").Body.List, shardStmt, shardCond)
	flush := flat(fn(shardF, "shard", "Flush").Body.List, shardStmt, shardCond)
	size := flat(fn(shardF, "shard", "Size").Body.List, shardStmt, shardCond)
	limit := flat(fn(shardF, "shard", "Limit").Body.List, shardStmt, shardCond)
	fromFiles := flat(fn(adderF, "Adder", "FromFiles").Body.List, fromFilesStmt, fromFilesCond)

	fmt.Printf("import ClusterVerif.Model.C13FlowOps\n")
	fmt.Printf("/- GENERATED by harness/extract_c13flow from adder/single/dag_service.go, adder/sharding/shard.go, adder/adder.go; do not edit. -/\n")
	fmt.Printf("namespace CV.C13.Gen\nopen CV.C13.Flow\n\n")
	fmt.Printf("/-- single.New / (*DAGService).Add / Finalize as operation lists -/\n")
	fmt.Printf("def singleFlow : SingleFlow :=\n  { newOps := %s,\n    guard := %s,\n    guarded := %s,\n    tail := %s,\n    finOps := %s }\n\n",
		leanList(newOps), guard, leanList(guarded), leanList(tail), leanList(finOps))
	fmt.Printf("/-- (*shard).AddLink, Flush, Size, Limit -/\n")
	fmt.Printf("def shardAddLink : List ShOp := %s\n", leanList(addLink))
	fmt.Printf("def shardFlush : List ShOp := %s\n", leanList(flush))
	fmt.Printf("def shardSize : List ShOp := %s\n", leanList(size))
	fmt.Printf("def shardLimit : List ShOp := %s\n\n", leanList(limit))
	fmt.Printf("/-- (*Adder).FromFiles -/\n")
	fmt.Printf("def fromFiles : List FOp := %s\n\n", leanList(fromFiles))
	fmt.Printf("end CV.C13.Gen\n")
}
