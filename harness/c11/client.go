package main

// Suite "client": the bundled api/rest/client against the same servers.
//
//   C11 cli cr=<0|1> cc=<n|w|r> rpc=<ok|err|nf> call=<Method> a=<arg|-> o=<opts token|-> l=<0|1|-> f=<filter|->
//        => ops=<op|…|-> ret=<same|differ|err<code>|cerr>
//
//   a     c<n> | p<n> (with decoder attributes on output) | path token (ipfs/c3/a/b, or c3/a for a bare "<cid>/a") | metric name token
//   o     rmin:rmax/name/mode/shard/expire/meta/update/origins/ualloc (the shared opts token)
//   f     tracker-status mask (StatusAll) or pin-type mask (Allocations)
//   ret   same: the client returned, without error, exactly the value the recording service handed to the
//         server (after the documented local→global reshaping); differ: it returned something else;
//         err<code>: it returned an api.Error with that code; cerr: it refused before sending anything

import (
	"context"
	"encoding/json"
	"fmt"
	"strconv"
	"strings"
	"time"

	"github.com/ipfs/ipfs-cluster/api"
	"github.com/ipfs/ipfs-cluster/api/rest/client"

	cid "github.com/ipfs/go-cid"
	peer "github.com/libp2p/go-libp2p-core/peer"
	ma "github.com/multiformats/go-multiaddr"

	"verifharness/common"
)

type cliCase struct {
	creds int
	sv    string
	cc    string
	rpc   string
	call  string
	a     string
	o     string
	l     string
	f     string
}

func (c cliCase) inputTokens(withAttrs bool) string {
	a := c.a
	if withAttrs && (c.call == "PeerAdd" || c.call == "PeerRm" || c.call == "Pin" || c.call == "Unpin" ||
		c.call == "Allocation" || c.call == "Status" || c.call == "Recover" || c.call == "Metrics") {
		a = segAttrs(a)
	}
	if withAttrs && (c.call == "PinPath" || c.call == "UnpinPath") {
		parts := strings.Split(a, "/")
		for i, s := range parts {
			parts[i] = segAttrs(s)
		}
		a = strings.Join(parts, "/")
	}
	return fmt.Sprintf("cli sv=%s cr=%s cc=%s rpc=%s call=%s a=%s o=%s l=%s f=%s", svTok(c.sv), credsTok(c.creds), c.cc, c.rpc, c.call, a, c.o, c.l, c.f)
}

func parseCliCase(f []string) (cliCase, error) {
	kv := map[string]string{}
	for _, t := range f {
		i := strings.Index(t, "=")
		if i < 0 {
			return cliCase{}, fmt.Errorf("token %q", t)
		}
		kv[t[:i]] = t[i+1:]
	}
	c := cliCase{creds: credsOfTok(kv["cr"]), sv: svTok(kv["sv"]), cc: kv["cc"], rpc: kv["rpc"], call: kv["call"], a: kv["a"], o: kv["o"], l: kv["l"], f: kv["f"]}
	if strings.Contains(c.a, ":") {
		parts := strings.Split(c.a, "/")
		for i, s := range parts {
			parts[i] = strings.SplitN(s, ":", 2)[0]
		}
		c.a = strings.Join(parts, "/")
	}
	for _, p := range []*string{&c.a, &c.o, &c.l, &c.f} {
		if *p == "" {
			*p = "-"
		}
	}
	if c.rpc == "" {
		c.rpc = "ok"
	}
	if c.call == "" {
		return c, fmt.Errorf("no call")
	}
	return c, nil
}

// optsOfTok builds PinOptions from the shared opts token with this harness's naming tables.
func optsOfTok(tok string) api.PinOptions {
	f := strings.Split(tok, "/")
	for len(f) < 9 {
		f = append(f, "-")
	}
	var o api.PinOptions
	mm := strings.SplitN(f[0], ":", 2)
	o.ReplicationFactorMin, _ = strconv.Atoi(mm[0])
	if len(mm) > 1 {
		o.ReplicationFactorMax, _ = strconv.Atoi(mm[1])
	}
	n, _ := strconv.Atoi(f[1])
	o.Name = nameOf(n)
	if f[2] == "d" {
		o.Mode = api.PinModeDirect
	}
	o.ShardSize, _ = strconv.ParseUint(f[3], 10, 64)
	o.ExpireAt = common.ExpireOf(f[4])
	if f[5] != "-" {
		o.Metadata = map[string]string{}
		for _, kv := range strings.Split(f[5], ",") {
			p := strings.SplitN(kv, ":", 2)
			k, _ := strconv.Atoi(p[0])
			v := 0
			if len(p) > 1 {
				v, _ = strconv.Atoi(p[1])
			}
			o.Metadata[metaKeyOf(k)] = metaValOf(v)
		}
	}
	if f[6] != "-" {
		u, _ := strconv.Atoi(f[6])
		o.PinUpdate = common.CidN(u)
	}
	if f[7] != "-" {
		for _, s := range strings.Split(f[7], ",") {
			k, _ := strconv.Atoi(s)
			o.Origins = append(o.Origins, originOf(k))
		}
	}
	if f[8] != "-" {
		for _, s := range strings.Split(f[8], ",") {
			k, _ := strconv.Atoi(s)
			o.UserAllocations = append(o.UserAllocations, common.PeerN(k))
		}
	}
	return o
}

// pathOfTok: "ipfs/c3/a/b" -> "/ipfs/<cid>/a/b"; a token that does not start with a namespace is
// sent without the leading slash ("c3/a" -> "<cid>/a").
func pathOfTok(tok string) string {
	parts := strings.Split(tok, "/")
	for i, s := range parts {
		parts[i] = textOf(s)
	}
	p := strings.Join(parts, "/")
	switch parts[0] {
	case "ipfs", "ipns", "ipld":
		return "/" + p
	}
	return p
}

type clients struct {
	h  *harness
	by map[string]client.Client
}

func newClients(h *harness) *clients { return &clients{h: h, by: map[string]client.Client{}} }

// get returns the client configured with the user / password of the header token cc (n: none; b.<user>.<pass>).
// The bundled client sends credentials only when its Username is not empty.
func (cs *clients) get(creds int, sv string, cc string) (client.Client, error) {
	sv = svTok(sv)
	key := strconv.Itoa(creds) + sv + cc
	if c, ok := cs.by[key]; ok {
		return c, nil
	}
	s := cs.h.server(creds, sv)
	hostport := strings.SplitN(s.addr, ":", 2)
	addr, err := ma.NewMultiaddr("/ip4/" + hostport[0] + "/tcp/" + hostport[1])
	if err != nil {
		return nil, err
	}
	cfg := &client.Config{APIAddr: addr, DisableKeepAlives: false, Timeout: 20 * time.Second, LogLevel: "error"}
	if s.scheme == "https" {
		cfg.SSL, cfg.NoVerifyCert = true, true
	}
	if cc != "n" {
		f := strings.SplitN(cc, ".", 3)
		if len(f) != 3 || f[0] != "b" {
			return nil, fmt.Errorf("client credentials token %q", cc)
		}
		u, okU := authTexts[f[1]]
		p, okP := authTexts[f[2]]
		if !okU || !okP || u == "" {
			return nil, fmt.Errorf("client credentials token %q", cc)
		}
		cfg.Username, cfg.Password = u, p
	}
	c, err := client.NewDefaultClient(cfg)
	if err != nil {
		return nil, err
	}
	cs.by[key] = c
	return c, nil
}

// credential situations a client can be in (it cannot send an empty user name)
var cliGrid = []string{"n", "b.u0.p0", "b.u0.wrong", "b.u0.e", "b.u0.p1", "b.u1.p1", "b.u1.p0", "b.nobody.p0", "b.nobody.any",
	"b.nobody.e", "b.p0.p0", "b.p0.u0", "b.p0.e"}

func canonJSON(v interface{}) string {
	b, err := json.Marshal(v)
	if err != nil {
		return "marshal-error:" + err.Error()
	}
	// re-encode through interface{} so that field order / omitted-vs-empty differences of equal documents vanish
	var x interface{}
	if err := json.Unmarshal(b, &x); err != nil {
		return "unmarshal-error"
	}
	b2, _ := json.Marshal(x)
	return string(b2)
}

func pinInfosToGlobal(l []*api.PinInfo) []*api.GlobalPinInfo {
	out := make([]*api.GlobalPinInfo, len(l))
	for i, p := range l {
		out[i] = p.ToGlobal()
	}
	return out
}

// expected reshapes what the recording service handed to the server into what the
// API documents it answers (local variants are reported in the global shape;
// allocations are filtered by type).
func expected(c cliCase, out interface{}) interface{} {
	switch v := out.(type) {
	case api.PinInfo:
		return v.ToGlobal()
	case []*api.PinInfo:
		return pinInfosToGlobal(v)
	case api.RepoGC:
		return api.GlobalRepoGC{PeerMap: map[string]*api.RepoGC{peer.Encode(v.Peer): &v}}
	case []*api.Pin:
		if c.call == "Allocations" {
			m, _ := strconv.Atoi(c.f)
			f := api.PinType(m)
			if f == api.AllType {
				return v
			}
			res := []*api.Pin{}
			for _, p := range v {
				if f&p.Type > 0 {
					res = append(res, p)
				}
			}
			return res
		}
	}
	return out
}

func (cs *clients) exec(c cliCase) (string, error) {
	s := cs.h.server(c.creds, c.sv)
	cl, cerr := cs.get(c.creds, c.sv, c.cc)
	if cerr != nil {
		return "", cerr
	}
	w := &expWindow{from: time.Now()}
	s.rec.reset(c.rpc, w)
	ctx, cancel := context.WithTimeout(context.Background(), 30*time.Second)
	defer cancel()
	local := c.l == "1"
	var ret interface{}
	var err error
	hasRet := true
	cidArg := func() cid.Cid {
		n, _ := strconv.Atoi(strings.TrimPrefix(c.a, "c"))
		return common.CidN(n)
	}
	peerArg := func() peer.ID {
		n, _ := strconv.Atoi(strings.TrimPrefix(c.a, "p"))
		return common.PeerN(n)
	}
	switch c.call {
	case "ID":
		ret, err = cl.ID(ctx)
	case "Version":
		ret, err = cl.Version(ctx)
	case "Peers":
		ret, err = cl.Peers(ctx)
	case "PeerAdd":
		ret, err = cl.PeerAdd(ctx, peerArg())
	case "PeerRm":
		err = cl.PeerRm(ctx, peerArg())
		hasRet = false
	case "Pin":
		ret, err = cl.Pin(ctx, cidArg(), optsOfTok(c.o))
	case "Unpin":
		ret, err = cl.Unpin(ctx, cidArg())
	case "PinPath":
		ret, err = cl.PinPath(ctx, pathOfTok(c.a), optsOfTok(c.o))
	case "UnpinPath":
		ret, err = cl.UnpinPath(ctx, pathOfTok(c.a))
	case "Allocations":
		m, _ := strconv.Atoi(c.f)
		ret, err = cl.Allocations(ctx, api.PinType(m))
	case "Allocation":
		ret, err = cl.Allocation(ctx, cidArg())
	case "Status":
		ret, err = cl.Status(ctx, cidArg(), local)
	case "StatusAll":
		m, _ := strconv.Atoi(c.f)
		ret, err = cl.StatusAll(ctx, api.TrackerStatus(m), local)
	case "Recover":
		ret, err = cl.Recover(ctx, cidArg(), local)
	case "RecoverAll":
		ret, err = cl.RecoverAll(ctx, local)
	case "Alerts":
		ret, err = cl.Alerts(ctx)
	case "Graph":
		ret, err = cl.GetConnectGraph(ctx)
	case "Metrics":
		ret, err = cl.Metrics(ctx, textOf(c.a))
	case "MetricNames":
		ret, err = cl.MetricNames(ctx)
	case "RepoGC":
		ret, err = cl.RepoGC(ctx, local)
	default:
		return "", fmt.Errorf("unknown call %s", c.call)
	}
	w.to = time.Now()
	ops := s.rec.take()
	out := s.rec.lastOut()
	var rt string
	switch {
	case err != nil:
		if ae, ok := err.(*api.Error); ok {
			if ae.Code == 0 {
				return "", fmt.Errorf("transport: %s", ae.Message)
			}
			rt = "err" + strconv.Itoa(ae.Code)
		} else {
			rt = "cerr"
		}
	case !hasRet:
		rt = "same"
	case len(ops) == 0:
		rt = "differ" // success reported although nothing was asked of the cluster
	default:
		if canonJSON(ret) == canonJSON(expected(c, out)) {
			rt = "same"
		} else {
			rt = "differ"
		}
	}
	return fmt.Sprintf("ops=%s ret=%s", opsTok(ops), rt), nil
}

// ---- generation ----

var cliCalls = []string{"ID", "Version", "Peers", "PeerAdd", "PeerRm", "Pin", "Unpin", "PinPath", "UnpinPath", "Allocations",
	"Allocation", "Status", "StatusAll", "Recover", "RecoverAll", "Alerts", "Graph", "Metrics", "MetricNames", "RepoGC"}

func genOptsTok(r *common.Rng, rich bool) string {
	p := 25
	if rich {
		p = 60
	}
	rmin, rmax := 0, 0
	if r.Chance(p, 100) {
		rmin = []int{-1, 0, 1, 2, 3}[r.Intn(5)]
		rmax = []int{-1, 0, 1, 2, 3, 7}[r.Intn(6)]
	}
	name := 0
	if r.Chance(p, 100) {
		name = r.Intn(nameU)
	}
	mode := "r"
	if r.Chance(p/2, 100) {
		mode = "d"
	}
	shard := "0"
	if r.Chance(p, 100) {
		shard = []string{"1", "1024", "104857600", "18446744073709551615"}[r.Intn(4)]
	}
	exp := "z"
	if r.Chance(p, 100) {
		exp = []string{"u", "p", "f0", "f3", "f11"}[r.Intn(5)]
	}
	meta := "-"
	if r.Chance(p, 100) {
		seen := map[int]bool{}
		var l []string
		for i := r.Range(1, 3); i > 0; i-- {
			k := r.Intn(metaKeyU)
			if seen[k] {
				continue
			}
			seen[k] = true
			l = append(l, fmt.Sprintf("%d:%d", k, r.Intn(metaValU)))
		}
		meta = strings.Join(l, ",")
	}
	upd := "-"
	if r.Chance(p/2, 100) {
		upd = strconv.Itoa(r.Intn(cidU))
	}
	lst := func(u int) string {
		var l []string
		for i := r.Range(1, 3); i > 0; i-- {
			l = append(l, strconv.Itoa(r.Intn(u)))
		}
		return strings.Join(l, ",")
	}
	orig := "-"
	if r.Chance(p/3, 100) {
		orig = lst(peerU)
	}
	ua := "-"
	if r.Chance(p, 100) {
		ua = lst(peerU)
	}
	return fmt.Sprintf("%d:%d/%d/%s/%s/%s/%s/%s/%s/%s", rmin, rmax, name, mode, shard, exp, meta, upd, orig, ua)
}

func genPathTok(r *common.Rng) string {
	base := "c" + strconv.Itoa(r.Intn(cidU))
	tail := pathTails[r.Intn(len(pathTails))]
	if r.Chance(1, 6) {
		tail = append(append([]string{}, tail...), "odd"+strconv.Itoa(r.Range(1, 8))) // a file name with URL-significant characters
	}
	if r.Chance(1, 12) {
		// a path that is not in canonical form: the router redirects it, net/http's client follows as GET
		nc := [][]string{{"e", "b"}, {"dot", "b"}, {"a", "dotdot"}, {"a", "e"}, {"dotdot", "dotdot"}, {"dotdot", "dotdot", "c4"},
			{"dotdot", "dotdot", "dotdot", "id"}, {"dotdot", "dotdot", "dotdot", "health", "graph"}, {"a", "dotdot", "dotdot", "dotdot"}}
		tail = append(append([]string{}, tail...), nc[r.Intn(len(nc))]...)
	}
	switch weighted(r, 6, 2, 2, 2, 1, 1) {
	case 0:
		return strings.Join(append([]string{"ipfs", base}, tail...), "/")
	case 1:
		return strings.Join(append([]string{"ipld", base}, tail...), "/")
	case 2:
		return strings.Join(append([]string{"ipns", []string{"example.com", "k51name", base}[r.Intn(3)]}, tail...), "/")
	case 3:
		return strings.Join(append([]string{base}, tail...), "/") // bare cid
	case 4:
		return "ipfs/x" + strconv.Itoa(r.Intn(len(invalidTexts))) // the client refuses it
	default:
		return "x" + strconv.Itoa(r.Intn(len(invalidTexts)))
	}
}

var typeMasks = []int{int(api.DataType), int(api.MetaType), int(api.ClusterDAGType), int(api.ShardType), int(api.AllType),
	int(api.DataType | api.MetaType), int(api.MetaType | api.ShardType | api.ClusterDAGType)}

func genCli(r *common.Rng, call string) cliCase {
	c := cliCase{rpc: "ok", call: call, a: "-", o: "-", l: "-", f: "-"}
	c.creds = credsFor(r, 1, 3)
	c.sv = svFor(r)
	switch {
	case c.creds == 0:
		c.cc = []string{"n", "n", "b.u0.p0", "b.nobody.e"}[r.Intn(4)]
	case r.Bool():
		c.cc = "b.u0.p0"
	default:
		c.cc = cliGrid[r.Intn(len(cliGrid))]
	}
	c.rpc = []string{"ok", "ok", "ok", "err", "nf"}[r.Intn(5)]
	switch call {
	case "PeerAdd", "PeerRm":
		c.a = "p" + strconv.Itoa(r.Intn(peerU))
	case "Pin":
		c.a = "c" + strconv.Itoa(r.Intn(cidU))
		c.o = genOptsTok(r, r.Bool())
	case "Unpin", "Allocation":
		c.a = "c" + strconv.Itoa(r.Intn(cidU))
	case "Status", "Recover":
		c.a = "c" + strconv.Itoa(r.Intn(cidU))
		c.l = b01(r.Bool())
	case "PinPath":
		c.a = genPathTok(r)
		c.o = genOptsTok(r, r.Bool())
	case "UnpinPath":
		c.a = genPathTok(r)
	case "Allocations":
		c.f = strconv.Itoa(typeMasks[r.Intn(len(typeMasks))])
	case "StatusAll":
		c.l = b01(r.Bool())
		switch weighted(r, 3, 5, 2, 2) {
		case 0:
			c.f = "0"
		case 1:
			c.f = strconv.Itoa(int(simpleStatuses[r.Intn(len(simpleStatuses))].st))
		case 2:
			c.f = strconv.Itoa(int([]api.TrackerStatus{api.TrackerStatusError, api.TrackerStatusQueued}[r.Intn(2)]))
		default:
			c.f = strconv.Itoa(int(simpleStatuses[r.Intn(len(simpleStatuses))].st | simpleStatuses[r.Intn(len(simpleStatuses))].st))
		}
	case "RecoverAll", "RepoGC":
		c.l = b01(r.Bool())
	case "Metrics":
		c.a = metricNames[r.Intn(4)]
		if r.Chance(1, 5) {
			c.a = "odd" + strconv.Itoa(r.Range(1, 8))
		}
	}
	return c
}

func sysCli() []cliCase {
	var out []cliCase
	r := common.NewRng(11)
	type csit struct {
		cr int
		cc string
	}
	sit := []csit{{0, "n"}, {0, "b.u0.p0"}, {0, "b.nobody.e"}}
	for cr := 1; cr <= 2; cr++ {
		for _, cc := range cliGrid {
			sit = append(sit, csit{cr, cc})
		}
	}
	for _, call := range cliCalls {
		for _, s := range sit {
			for _, mode := range []string{"ok", "err", "nf"} {
				if mode != "ok" && s.cr != 0 && s.cc != "b.u0.p0" {
					continue
				}
				for rep := 0; rep < 2; rep++ {
					c := genCli(r, call)
					c.creds, c.cc, c.rpc = s.cr, s.cc, mode
					if c.l != "-" {
						c.l = b01(rep == 1)
					}
					out = append(out, c)
				}
			}
		}
	}
	// every single option on its own, through Pin and PinPath
	single := []string{"2:3/0/r/0/z/-/-/-/-", "0:0/3/r/0/z/-/-/-/-", "0:0/7/r/0/z/-/-/-/-", "0:0/0/d/0/z/-/-/-/-", "0:0/0/r/1024/z/-/-/-/-",
		"0:0/0/r/0/u/-/-/-/-", "0:0/0/r/0/p/-/-/-/-", "0:0/0/r/0/f5/-/-/-/-", "0:0/0/r/0/z/1:2,3:0/-/-/-", "0:0/0/r/0/z/7:7/-/-/-", "0:0/0/r/0/z/0:3/-/-/-",
		"0:0/0/r/0/z/-/5/-/-", "0:0/0/r/0/z/-/-/1,2/-", "0:0/0/r/0/z/-/-/-/1,2", "-1:-1/0/r/0/z/-/-/-/-", "0:0/0/r/0/z/-/-/-/-"}
	var allMeta []string
	for k := 1; k < metaKeyU; k++ {
		single = append(single, fmt.Sprintf("0:0/0/r/0/z/%d:%d/-/-/-", k, 1+k%(metaValU-1)))
		allMeta = append(allMeta, fmt.Sprintf("%d:%d", k, (k*7+3)%metaValU))
	}
	single = append(single, "0:0/0/r/0/z/"+strings.Join(allMeta, ",")+"/-/-/-")
	for v := 0; v < metaValU; v++ {
		single = append(single, fmt.Sprintf("0:0/0/r/0/z/%d:%d/-/-/-", 1+v%(metaKeyU-1), v))
	}
	for n := 1; n < nameU; n++ {
		single = append(single, fmt.Sprintf("0:0/%d/r/0/z/13:10/-/-/-", n))
	}
	for _, o := range single {
		out = append(out, cliCase{creds: 0, cc: "n", rpc: "ok", call: "Pin", a: "c4", o: o, l: "-", f: "-"})
		out = append(out, cliCase{creds: 0, cc: "n", rpc: "ok", call: "PinPath", a: "ipfs/c5/a", o: o, l: "-", f: "-"})
	}
	for _, m := range typeMasks {
		out = append(out, cliCase{creds: 0, cc: "n", rpc: "ok", call: "Allocations", a: "-", o: "-", l: "-", f: strconv.Itoa(m)})
	}
	for _, st := range simpleStatuses {
		out = append(out, cliCase{creds: 0, cc: "n", rpc: "ok", call: "StatusAll", a: "-", o: "-", l: "0", f: strconv.Itoa(int(st.st))})
	}
	for _, sv := range allSv[1:] {
		for _, call := range cliCalls {
			for _, st := range []csit{{0, "n"}, {1, "n"}, {1, "b.u0.p0"}, {1, "b.nobody.e"}, {2, "b.u1.p1"}} {
				c := genCli(r, call)
				c.sv, c.creds, c.cc, c.rpc = sv, st.cr, st.cc, "ok"
				out = append(out, c)
			}
		}
	}
	return out
}
