package main

// Naming tables of the C11 harness: every value that travels in a request or
// arrives at the recording RPC services is named by a short token, so that case
// lines are canonical and the Lean side works on small integers.
//
//   c<n>  CidN(n).String()          (odd n are CIDv0 "Qm…", which peer.Decode also accepts)
//   p<n>  PeerN(n).Pretty()         ("Qm…": cid.Decode accepts it as a CIDv0)
//   x<k>  the k-th undecodable text (neither a CID nor a peer ID)
//   e     the empty segment, dot ".", dotdot ".."
//   anything else: the literal text itself
//
// cid indices >= 1000: the CIDv0 whose multihash is PeerN(n-1000); peer indices
// >= 1000: the peer whose multihash is that of CidN(n-1000).

import (
	"fmt"
	"sort"
	"strconv"
	"strings"
	"time"

	"github.com/ipfs/ipfs-cluster/api"

	cid "github.com/ipfs/go-cid"
	peer "github.com/libp2p/go-libp2p-core/peer"
	ma "github.com/multiformats/go-multiaddr"

	"verifharness/common"
)

const (
	cidU  = 12 // cids c0..c11
	peerU = 8  // peers p0..p7
	nameU = 14 // len(nameTexts)
)

var invalidTexts = []string{
	"notacid",
	"Qm123",
	"bafybeigdyrzt5sfp7udm7hu76uh7y26nf3efuylqabf3oclgtqy55fbzd", // truncated base32
	"zzzz",
	"12D3KooWtooshort",
	"QmNotBase58-0OIl",
	"0",
}

var (
	cidText  = map[string]int{}
	peerText = map[string]int{}
)

func init() {
	for i := 0; i < cidU; i++ {
		cidText[common.CidN(i).String()] = i
	}
	for i := 0; i < peerU; i++ {
		peerText[common.PeerN(i).Pretty()] = i
	}
	for _, s := range invalidTexts {
		if _, err := cid.Decode(s); err == nil {
			panic("invalid text decodes as cid: " + s)
		}
		if _, err := peer.Decode(s); err == nil {
			panic("invalid text decodes as peer: " + s)
		}
	}
}

// textOf maps a segment token to the text sent on the wire.
func textOf(tok string) string {
	if len(tok) >= 2 {
		if n, err := strconv.Atoi(tok[1:]); err == nil {
			switch tok[0] {
			case 'c':
				if n < cidU {
					return common.CidN(n).String()
				}
			case 'p':
				if n < peerU {
					return common.PeerN(n).Pretty()
				}
			case 'x':
				if n < len(invalidTexts) {
					return invalidTexts[n]
				}
			}
		}
	}
	if t, ok := oddTexts[tok]; ok {
		return t
	}
	switch tok {
	case "e":
		return ""
	case "dot":
		return "."
	case "dotdot":
		return ".."
	}
	return tok
}

// texts with characters that mean something in a URL (client suite: metric names, path segments)
var oddTexts = map[string]string{"odd1": "we?ird", "odd2": "sp ace", "odd3": "per%41cent", "odd4": "ha#sh", "odd5": "pl+us", "odd6": "ünï", "odd7": "%2F", "odd8": "a;b=c&d"}

func safeLiteral(s string) bool {
	if s == "" || len(s) > 40 {
		return false
	}
	for _, r := range s {
		if !(r >= 'a' && r <= 'z' || r >= 'A' && r <= 'Z' || r >= '0' && r <= '9' || r == '-' || r == '_' || r == '.') {
			return false
		}
	}
	return true
}

// tokOfText inverts textOf for what arrives at the RPC services.
func tokOfText(s string) string {
	if i, ok := cidText[s]; ok {
		return "c" + strconv.Itoa(i)
	}
	if i, ok := peerText[s]; ok {
		return "p" + strconv.Itoa(i)
	}
	for k, t := range invalidTexts {
		if t == s {
			return "x" + strconv.Itoa(k)
		}
	}
	for k, t := range oddTexts {
		if t == s {
			return k
		}
	}
	switch s {
	case "":
		return "e"
	case ".":
		return "dot"
	case "..":
		return "dotdot"
	}
	if safeLiteral(s) {
		// a literal that looks like a token would be ambiguous
		if len(s) >= 2 && strings.ContainsRune("cpx", rune(s[0])) {
			if _, err := strconv.Atoi(s[1:]); err == nil {
				return "?"
			}
		}
		if s == "e" || s == "dot" || s == "dotdot" {
			return "?"
		}
		return s
	}
	return "?"
}

// cidIdx names a decoded cid.
func cidIdx(c cid.Cid) int {
	if !c.Defined() {
		return -1
	}
	if i := common.CidIndex(c, cidU); i >= 0 {
		return i
	}
	if c.Version() == 0 {
		for i := 0; i < peerU; i++ {
			if string(c.Hash()) == string(common.PeerN(i)) {
				return 1000 + i
			}
		}
	}
	return 999
}

// peerIdx names a decoded peer.
func peerIdx(p peer.ID) int {
	if i := common.PeerIndex(p, peerU); i >= 0 {
		return i
	}
	for i := 0; i < cidU; i++ {
		if string(common.CidN(i).Hash()) == string(p) {
			return 1000 + i
		}
	}
	return 999
}

// segAttrs classifies a segment text with the real decoders (an oracle for the
// class of the INPUT; the handlers are not involved).
func segAttrs(tok string) string {
	txt := textOf(tok)
	out := tok
	if c, err := cid.Decode(txt); err == nil {
		out += ":c" + strconv.Itoa(cidIdx(c))
	}
	if p, err := peer.Decode(txt); err == nil {
		out += ":p" + strconv.Itoa(peerIdx(p))
	}
	return out
}

// Names, metadata keys and metadata values are adversarial with respect to the parser's own constants: texts
// that start with or consist of the characters of the "meta-" prefix (a TrimLeft instead of a TrimPrefix eats
// them), texts equal to option names, texts with characters that mean something in a query string.
var nameTexts = []string{"", "name-1", "name-2", "name-3", "name-4", "name-5", "name-6",
	"n&m=e/ ü?#%+;", "meta-name", "name", "mode=direct&replication-min=7", "%zz", "a+b c", "-"}

var metaKeyTexts = []string{"", "key-1", "team", "author", "tag", "-k", "meta-x",
	"k&y=7 ü", "meta-", "m", "a-", "e", "%41+b c", "name", "mode", "ключ"}

var metaValTexts = []string{"", "val-1", "val-2", "val-3", "val-4", "val-5", "val-6",
	"v&l=7 ü#", "meta-x", "replication-min", "name", "%zz", "a+b c", "-", "mode=direct", "значение"}

var (
	metaKeyU = len(metaKeyTexts)
	metaValU = len(metaValTexts)
)

func tableIdx(t []string, s string) int {
	for i, x := range t {
		if x == s {
			return i
		}
	}
	return 999
}

func nameOf(n int) string {
	if n >= 0 && n < len(nameTexts) {
		return nameTexts[n]
	}
	return fmt.Sprintf("name-%d", n)
}
func nameIdx(s string) int { return tableIdx(nameTexts, s) }
func metaKeyOf(n int) string {
	if n >= 0 && n < len(metaKeyTexts) {
		return metaKeyTexts[n]
	}
	return fmt.Sprintf("key-%d", n)
}
func metaValOf(n int) string {
	if n >= 0 && n < len(metaValTexts) {
		return metaValTexts[n]
	}
	return fmt.Sprintf("val-%d", n)
}
func metaKeyIdx(s string) int { return tableIdx(metaKeyTexts, s) }
func metaValIdx(s string) int { return tableIdx(metaValTexts, s) }

func originOf(n int) ma.Multiaddr { return common.OriginN(n) }
func originIdx(m ma.Multiaddr) int {
	for i := 0; i < peerU; i++ {
		if originOf(i).Equal(m) {
			return i
		}
	}
	return 999
}

func ints(l []int) string { return common.Ints(l) }

func peersTok(l []peer.ID) string {
	idx := make([]int, len(l))
	for i, p := range l {
		idx[i] = peerIdx(p)
	}
	return ints(idx)
}

func cidTok(c cid.Cid) string {
	if !c.Defined() {
		return "-"
	}
	return strconv.Itoa(cidIdx(c))
}

// cidArgTok names a cid that is the subject of an operation: 998 = the undefined cid (a handler that
// goes on after a failed decode passes cid.Undef).
func cidArgTok(c cid.Cid) string {
	if !c.Defined() {
		return "998"
	}
	return strconv.Itoa(cidIdx(c))
}

func metaTok(m map[string]string) string {
	if len(m) == 0 {
		return "-"
	}
	type kv struct{ k, v int }
	var l []kv
	for k, v := range m {
		l = append(l, kv{metaKeyIdx(k), metaValIdx(v)})
	}
	sort.Slice(l, func(i, j int) bool { return l[i].k < l[j].k || l[i].k == l[j].k && l[i].v < l[j].v })
	parts := make([]string, len(l))
	for i, e := range l {
		parts[i] = fmt.Sprintf("%d:%d", e.k, e.v)
	}
	return strings.Join(parts, ",")
}

func originsTok(l []ma.Multiaddr) string {
	idx := make([]int, len(l))
	for i, o := range l {
		idx[i] = originIdx(o)
	}
	return ints(idx)
}

func typeTok(t api.PinType) string {
	switch t {
	case api.DataType:
		return "d"
	case api.MetaType:
		return "m"
	case api.ClusterDAGType:
		return "c"
	case api.ShardType:
		return "s"
	}
	return "b"
}

func modeTok(m api.PinMode) string {
	if m == api.PinModeDirect {
		return "d"
	}
	return "r"
}

// expiry window of the request in flight: an expire-in of d arrives as now+d
type expWindow struct {
	from, to time.Time
	durs     []time.Duration // candidate expire-in durations of the request, by index
}

func (w *expWindow) tok(t time.Time) string {
	if w != nil && !t.IsZero() {
		for k, d := range w.durs {
			if !t.Before(w.from.Add(d)) && !t.After(w.to.Add(d)) {
				return "f" + strconv.Itoa(9000+k)
			}
		}
	}
	return common.ExpireTok(t)
}

func optsTok(o *api.PinOptions, w *expWindow) string {
	return strings.Join([]string{
		fmt.Sprintf("%d:%d", o.ReplicationFactorMin, o.ReplicationFactorMax),
		strconv.Itoa(nameIdx(o.Name)), modeTok(o.Mode), strconv.FormatUint(o.ShardSize, 10), w.tok(o.ExpireAt),
		metaTok(o.Metadata), cidTok(o.PinUpdate), originsTok(o.Origins), peersTok(o.UserAllocations),
	}, "/")
}

// pinTok renders a pin in the shared pin-token format (Driver/PinParse.lean).
func pinTok(p *api.Pin, w *expWindow) string {
	if p == nil {
		return "nil"
	}
	ref := "-"
	if p.Reference != nil {
		ref = cidTok(*p.Reference)
	}
	return strings.Join([]string{
		cidArgTok(p.Cid), typeTok(p.Type),
		fmt.Sprintf("%d:%d", p.ReplicationFactorMin, p.ReplicationFactorMax),
		strconv.Itoa(nameIdx(p.Name)), modeTok(p.Mode), strconv.Itoa(int(p.MaxDepth)),
		strconv.FormatUint(p.ShardSize, 10), peersTok(p.Allocations), w.tok(p.ExpireAt),
		metaTok(p.Metadata), cidTok(p.PinUpdate), originsTok(p.Origins), ref, peersTok(p.UserAllocations),
	}, "/")
}

// storedMode is the mode the pin has after the state's protobuf encoding.
func storedMode(p *api.Pin) string {
	// the allocations have no bearing on the stored mode; the add endpoint's recording BlockAllocate
	// answers [""] (the local peer), which the protobuf decoder rejects
	cp := *p
	cp.Allocations = nil
	b, err := cp.ProtoMarshal()
	if err != nil {
		return "x"
	}
	var q api.Pin
	if err := q.ProtoUnmarshal(b); err != nil {
		return "x"
	}
	return modeTok(q.Mode)
}

// pathTok renders an IPFS path that arrived at the RPC service.
func pathTok(p string) string {
	if !strings.HasPrefix(p, "/") {
		return "?" + tokOfText(p)
	}
	parts := strings.Split(p[1:], "/")
	for i, s := range parts {
		parts[i] = tokOfText(s)
	}
	return strings.Join(parts, "/")
}
