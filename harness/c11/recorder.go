package main

// Recording RPC services placed behind the real REST API: every call is recorded
// as "<Service>.<Method>@<argument token>" and answered with a canned value that
// is a deterministic function of the argument (so the client suite can tell
// whether what the client returned is what the server was given to answer).

import (
	"context"
	"errors"
	"strconv"
	"strings"
	"sync"
	"time"

	"github.com/ipfs/ipfs-cluster/api"
	"github.com/ipfs/ipfs-cluster/state"

	cid "github.com/ipfs/go-cid"
	peer "github.com/libp2p/go-libp2p-core/peer"
	rpc "github.com/libp2p/go-libp2p-gorpc"

	"verifharness/common"
)

type recorder struct {
	mu   sync.Mutex
	ops  []string
	mode string // ok | err | nf
	win  *expWindow
	out  interface{} // the value handed to the server by the last call
}

func (r *recorder) setOut(v interface{}) {
	r.mu.Lock()
	r.out = v
	r.mu.Unlock()
}

func (r *recorder) lastOut() interface{} {
	r.mu.Lock()
	defer r.mu.Unlock()
	return r.out
}

func (r *recorder) reset(mode string, w *expWindow) {
	r.mu.Lock()
	r.ops = nil
	r.mode = mode
	r.win = w
	r.out = nil
	r.mu.Unlock()
}

func (r *recorder) take() []string {
	r.mu.Lock()
	defer r.mu.Unlock()
	o := r.ops
	r.ops = nil
	return o
}

var errGeneric = errors.New("recording service: generic failure")

// rec records one call and says how to answer.
func (r *recorder) rec(name string, arg ...string) error {
	r.mu.Lock()
	defer r.mu.Unlock()
	r.ops = append(r.ops, name+"@"+strings.Join(arg, "@"))
	switch r.mode {
	case "err":
		return errGeneric
	case "nf":
		return state.ErrNotFound
	}
	return nil
}

func (r *recorder) window() *expWindow {
	r.mu.Lock()
	defer r.mu.Unlock()
	return r.win
}

type recCluster struct{ r *recorder }
type recMonitor struct{ r *recorder }
type recIPFS struct{ r *recorder }

func newRPC(r *recorder) *rpc.Client {
	s := rpc.NewServer(nil, "c11")
	c := rpc.NewClientWithServer(nil, "c11", s)
	must(s.RegisterName("Cluster", &recCluster{r}))
	must(s.RegisterName("PeerMonitor", &recMonitor{r}))
	must(s.RegisterName("IPFSConnector", &recIPFS{r}))
	return c
}

func must(err error) {
	if err != nil {
		panic(err)
	}
}

var fixedTime = time.Unix(1600000000, 0).UTC()

// ---- canned answers (functions of the argument) ----

func cannedID(p peer.ID) api.ID {
	return api.ID{ID: p, ClusterPeers: []peer.ID{common.PeerN(0), common.PeerN(1)}, Version: "0.14.0-c11", Peername: "peer-" + strconv.Itoa(peerIdx(p))}
}
func cannedPins() []*api.Pin {
	a := api.PinCid(common.CidN(0))
	a.Name = "data-pin"
	b := api.PinCid(common.CidN(2))
	b.Type = api.MetaType
	c := api.PinCid(common.CidN(4))
	c.Type = api.ShardType
	d := api.PinCid(common.CidN(6))
	d.Type = api.ClusterDAGType
	return []*api.Pin{a, b, c, d}
}
func cannedPinInfo(c cid.Cid, st api.TrackerStatus) api.PinInfo {
	return api.PinInfo{Cid: c, Name: "n" + strconv.Itoa(cidIdx(c)), Peer: common.PeerN(0),
		PinInfoShort: api.PinInfoShort{PeerName: "peer-0", Status: st, TS: fixedTime}}
}
func cannedGPI(c cid.Cid, st api.TrackerStatus) api.GlobalPinInfo {
	g := api.GlobalPinInfo{Cid: c, Name: "g" + strconv.Itoa(cidIdx(c)), PeerMap: map[string]*api.PinInfoShort{}}
	g.PeerMap[peer.Encode(common.PeerN(0))] = &api.PinInfoShort{PeerName: "peer-0", Status: st, TS: fixedTime}
	g.PeerMap[peer.Encode(common.PeerN(1))] = &api.PinInfoShort{PeerName: "peer-1", Status: api.TrackerStatusRemote, TS: fixedTime}
	return g
}
func filterStatus(f api.TrackerStatus) api.TrackerStatus {
	// the canned status list depends on the filter so that a lost filter shows in the answer
	if f == api.TrackerStatusUndefined {
		return api.TrackerStatusPinned
	}
	if f&api.TrackerStatusPinError > 0 {
		return api.TrackerStatusPinError
	}
	return api.TrackerStatusPinning
}
func cannedRepoGC(p peer.ID) api.RepoGC {
	return api.RepoGC{Peer: p, Peername: "peer-" + strconv.Itoa(peerIdx(p)), Keys: []api.IPFSRepoGC{{Key: common.CidN(1)}, {Key: common.CidN(2), Error: "gc-error"}}}
}

// ---- Cluster ----

func (s *recCluster) ID(ctx context.Context, in struct{}, out *api.ID) error {
	err := s.r.rec("Cluster.ID", "u")
	*out = cannedID(common.PeerN(0))
	s.r.setOut(*out)
	return err
}
func (s *recCluster) Version(ctx context.Context, in struct{}, out *api.Version) error {
	err := s.r.rec("Cluster.Version", "u")
	*out = api.Version{Version: "0.14.0-c11"}
	s.r.setOut(*out)
	return err
}
func (s *recCluster) Peers(ctx context.Context, in struct{}, out *[]*api.ID) error {
	err := s.r.rec("Cluster.Peers", "u")
	a, b := cannedID(common.PeerN(0)), cannedID(common.PeerN(1))
	*out = []*api.ID{&a, &b}
	s.r.setOut(*out)
	return err
}
func (s *recCluster) PeerAdd(ctx context.Context, in peer.ID, out *api.ID) error {
	err := s.r.rec("Cluster.PeerAdd", "p", strconv.Itoa(peerIdx(in)))
	*out = cannedID(in)
	s.r.setOut(*out)
	return err
}
func (s *recCluster) PeerRemove(ctx context.Context, in peer.ID, out *struct{}) error {
	return s.r.rec("Cluster.PeerRemove", "p", strconv.Itoa(peerIdx(in)))
}
func (s *recCluster) Pins(ctx context.Context, in struct{}, out *[]*api.Pin) error {
	err := s.r.rec("Cluster.Pins", "u")
	*out = cannedPins()
	s.r.setOut(*out)
	return err
}
func (s *recCluster) PinGet(ctx context.Context, in cid.Cid, out *api.Pin) error {
	err := s.r.rec("Cluster.PinGet", "c", cidArgTok(in))
	p := api.PinCid(in)
	p.Name = "got"
	*out = *p
	s.r.setOut(*out)
	return err
}
func (s *recCluster) StatusAll(ctx context.Context, in api.TrackerStatus, out *[]*api.GlobalPinInfo) error {
	err := s.r.rec("Cluster.StatusAll", "n", strconv.Itoa(int(in)))
	g := cannedGPI(common.CidN(0), filterStatus(in))
	*out = []*api.GlobalPinInfo{&g}
	s.r.setOut(*out)
	return err
}
func (s *recCluster) StatusAllLocal(ctx context.Context, in api.TrackerStatus, out *[]*api.PinInfo) error {
	err := s.r.rec("Cluster.StatusAllLocal", "n", strconv.Itoa(int(in)))
	p := cannedPinInfo(common.CidN(0), filterStatus(in))
	*out = []*api.PinInfo{&p}
	s.r.setOut(*out)
	return err
}
func (s *recCluster) Status(ctx context.Context, in cid.Cid, out *api.GlobalPinInfo) error {
	err := s.r.rec("Cluster.Status", "c", cidArgTok(in))
	*out = cannedGPI(in, api.TrackerStatusPinned)
	s.r.setOut(*out)
	return err
}
func (s *recCluster) StatusLocal(ctx context.Context, in cid.Cid, out *api.PinInfo) error {
	err := s.r.rec("Cluster.StatusLocal", "c", cidArgTok(in))
	*out = cannedPinInfo(in, api.TrackerStatusPinned)
	s.r.setOut(*out)
	return err
}
func (s *recCluster) RecoverAll(ctx context.Context, in struct{}, out *[]*api.GlobalPinInfo) error {
	err := s.r.rec("Cluster.RecoverAll", "u")
	g := cannedGPI(common.CidN(1), api.TrackerStatusPinning)
	*out = []*api.GlobalPinInfo{&g}
	s.r.setOut(*out)
	return err
}
func (s *recCluster) RecoverAllLocal(ctx context.Context, in struct{}, out *[]*api.PinInfo) error {
	err := s.r.rec("Cluster.RecoverAllLocal", "u")
	p := cannedPinInfo(common.CidN(1), api.TrackerStatusPinning)
	*out = []*api.PinInfo{&p}
	s.r.setOut(*out)
	return err
}
func (s *recCluster) Recover(ctx context.Context, in cid.Cid, out *api.GlobalPinInfo) error {
	err := s.r.rec("Cluster.Recover", "c", cidArgTok(in))
	*out = cannedGPI(in, api.TrackerStatusPinning)
	s.r.setOut(*out)
	return err
}
func (s *recCluster) RecoverLocal(ctx context.Context, in cid.Cid, out *api.PinInfo) error {
	err := s.r.rec("Cluster.RecoverLocal", "c", cidArgTok(in))
	*out = cannedPinInfo(in, api.TrackerStatusPinning)
	s.r.setOut(*out)
	return err
}
func (s *recCluster) Pin(ctx context.Context, in *api.Pin, out *api.Pin) error {
	lastPinCid = in.Cid
	err := s.r.rec("Cluster.Pin", "pin", pinTok(in, s.r.window()), storedMode(in))
	*out = *in
	s.r.setOut(*out)
	return err
}
func (s *recCluster) Unpin(ctx context.Context, in *api.Pin, out *api.Pin) error {
	err := s.r.rec("Cluster.Unpin", "pin", pinTok(in, s.r.window()), storedMode(in))
	*out = *in
	s.r.setOut(*out)
	return err
}

// resolvedCid is what the canned PinPath/UnpinPath "resolve" every path to.
func resolvedCid() cid.Cid { return common.CidN(9) }

func (s *recCluster) PinPath(ctx context.Context, in *api.PinPath, out *api.Pin) error {
	err := s.r.rec("Cluster.PinPath", "path", pathTok(in.Path), optsTok(&in.PinOptions, s.r.window()))
	*out = *api.PinWithOpts(resolvedCid(), in.PinOptions)
	s.r.setOut(*out)
	return err
}
func (s *recCluster) UnpinPath(ctx context.Context, in *api.PinPath, out *api.Pin) error {
	err := s.r.rec("Cluster.UnpinPath", "path", pathTok(in.Path), optsTok(&in.PinOptions, s.r.window()))
	*out = *api.PinWithOpts(resolvedCid(), in.PinOptions)
	s.r.setOut(*out)
	return err
}
func (s *recCluster) RepoGC(ctx context.Context, in struct{}, out *api.GlobalRepoGC) error {
	err := s.r.rec("Cluster.RepoGC", "u")
	a, b := cannedRepoGC(common.PeerN(0)), cannedRepoGC(common.PeerN(1))
	*out = api.GlobalRepoGC{PeerMap: map[string]*api.RepoGC{peer.Encode(a.Peer): &a, peer.Encode(b.Peer): &b}}
	s.r.setOut(*out)
	return err
}
func (s *recCluster) RepoGCLocal(ctx context.Context, in struct{}, out *api.RepoGC) error {
	err := s.r.rec("Cluster.RepoGCLocal", "u")
	*out = cannedRepoGC(common.PeerN(0))
	s.r.setOut(*out)
	return err
}
func (s *recCluster) ConnectGraph(ctx context.Context, in struct{}, out *api.ConnectGraph) error {
	err := s.r.rec("Cluster.ConnectGraph", "u")
	p0, p1 := peer.Encode(common.PeerN(0)), peer.Encode(common.PeerN(1))
	*out = api.ConnectGraph{
		ClusterID:         common.PeerN(0),
		IDtoPeername:      map[string]string{p0: "peer-0", p1: "peer-1"},
		IPFSLinks:         map[string][]peer.ID{peer.Encode(common.PeerN(2)): {common.PeerN(3)}},
		ClusterLinks:      map[string][]peer.ID{p0: {common.PeerN(1)}, p1: {common.PeerN(0)}},
		ClusterTrustLinks: map[string]bool{p0: true, p1: false},
		ClustertoIPFS:     map[string]peer.ID{p0: common.PeerN(2), p1: common.PeerN(3)},
	}
	s.r.setOut(*out)
	return err
}
func (s *recCluster) Alerts(ctx context.Context, in struct{}, out *[]api.Alert) error {
	err := s.r.rec("Cluster.Alerts", "u")
	*out = []api.Alert{{Metric: api.Metric{Name: "ping", Peer: common.PeerN(1), Value: "v", Expire: 1600000000000000000, Valid: true, ReceivedAt: 1599999999000000000}, TriggeredAt: fixedTime}}
	s.r.setOut(*out)
	return err
}
func (s *recCluster) BlockAllocate(ctx context.Context, in *api.Pin, out *[]peer.ID) error {
	err := s.r.rec("Cluster.BlockAllocate", "opts", optsTok(&in.PinOptions, s.r.window()))
	*out = []peer.ID{""}
	s.r.setOut(*out)
	return err
}

// ---- PeerMonitor ----

func (s *recMonitor) LatestMetrics(ctx context.Context, in string, out *[]*api.Metric) error {
	err := s.r.rec("PeerMonitor.LatestMetrics", "s", tokOfText(in))
	*out = []*api.Metric{{Name: in, Peer: common.PeerN(0), Value: "1", Expire: 1600000000000000000, Valid: true, ReceivedAt: 1599999999000000000}}
	s.r.setOut(*out)
	return err
}
func (s *recMonitor) MetricNames(ctx context.Context, in struct{}, out *[]string) error {
	err := s.r.rec("PeerMonitor.MetricNames", "u")
	*out = []string{"ping", "freespace"}
	s.r.setOut(*out)
	return err
}

// ---- IPFSConnector (add endpoint) ----

func (s *recIPFS) BlockPut(ctx context.Context, in *api.NodeWithMeta, out *struct{}) error {
	noteBlock(in.Cid)
	return s.r.rec("IPFSConnector.BlockPut", "blk", strconv.Itoa(len(in.Data)))
}
