package main

// Suite "routes": one case = one HTTP request sent to the real rest.API on a
// loopback listener whose RPC client points at the recording services.
//
//   C11 req cr=<0|1> au=<n|m0|m1|w0|w1|w2|r0|r1> pf=<0|1> m=<METHOD> p=<seg,seg,…|-> sl=<0|1>
//           q=<key:class;…|-> md=<k:v,…|-> b=<body> rpc=<ok|err|nf>
//        => st=<status> body=<d<n>|j<n>> ops=<op|op…|->
//
//   seg    token (tokens.go); on output each segment carries how the real decoders
//          classify its text: tok[:c<n>][:p<n>]
//   class  v.<value> valid | i<k> invalid (k-th invalid variant) | e empty value
//   body   - | pj.<seg> ({"peer_id": text}) | junk | arr | nul | nokey
//   body=  d<n>: the response body is n JSON documents and nothing else; j<n>: n documents then non-JSON bytes

import (
	"bytes"
	"context"
	"crypto/tls"
	"encoding/base64"
	"encoding/json"
	"fmt"
	"io"
	"io/ioutil"
	"log"
	"net/http"
	"net/url"
	"os"
	"path/filepath"
	"regexp"
	"strconv"
	"strings"
	"sync"
	"time"

	"github.com/ipfs/ipfs-cluster/api"
	"github.com/ipfs/ipfs-cluster/api/rest"

	libp2p "github.com/libp2p/go-libp2p"
	crypto "github.com/libp2p/go-libp2p-core/crypto"
	host "github.com/libp2p/go-libp2p-core/host"
	peer "github.com/libp2p/go-libp2p-core/peer"
	peerstore "github.com/libp2p/go-libp2p-core/peerstore"
	p2phttp "github.com/libp2p/go-libp2p-http"
	ma "github.com/multiformats/go-multiaddr"

	"verifharness/common"
)

const (
	user0, pass0 = "user-zero", "pass-zero"
	user1, pass1 = "user-one", "pass:one" // a colon in the password is legal
)

type qparam struct {
	key   string
	class byte   // 'v', 'i', 'e'
	val   string // value token (class v) or variant number (class i)
}

type reqCase struct {
	creds  int // 0: no credentials configured; 1: two pairs; 2: one pair
	sv     string // server configuration: <cfg.Tracing><cfg.HTTPLogFile set><cfg.TLS set>, e.g. "100"; "" = "000"
	auth   string
	pf     bool
	method string
	segs   []string
	slash  bool
	query  []qparam
	meta   [][2]int
	body   string
	rpc    string
}

func b01(b bool) string {
	if b {
		return "1"
	}
	return "0"
}

func (c reqCase) inputTokens(withAttrs bool) string {
	segs := make([]string, len(c.segs))
	for i, s := range c.segs {
		if withAttrs {
			segs[i] = segAttrs(s)
		} else {
			segs[i] = s
		}
	}
	p := "-"
	if len(segs) > 0 {
		p = strings.Join(segs, ",")
	}
	qs := "-"
	if len(c.query) > 0 {
		parts := make([]string, len(c.query))
		for i, q := range c.query {
			switch q.class {
			case 'v':
				parts[i] = q.key + ":v." + q.val
			case 'i':
				parts[i] = q.key + ":i" + q.val
			case 'g':
				parts[i] = q.key + ":g"
			default:
				parts[i] = q.key + ":e"
			}
		}
		qs = strings.Join(parts, ";")
	}
	md := "-"
	if len(c.meta) > 0 {
		parts := make([]string, len(c.meta))
		for i, kv := range c.meta {
			parts[i] = fmt.Sprintf("%d:%d", kv[0], kv[1])
		}
		md = strings.Join(parts, ",")
	}
	body := c.body
	if withAttrs && strings.HasPrefix(body, "pj.") {
		body = "pj." + segAttrs(body[3:])
	}
	return fmt.Sprintf("req sv=%s cr=%s au=%s pf=%s m=%s p=%s sl=%s q=%s md=%s b=%s rpc=%s",
		svTok(c.sv), credsTok(c.creds), c.auth, b01(c.pf), c.method, p, b01(c.slash), qs, md, body, c.rpc)
}

func parseReqCase(f []string) (reqCase, error) {
	var c reqCase
	kv := map[string]string{}
	for _, t := range f {
		i := strings.Index(t, "=")
		if i < 0 {
			return c, fmt.Errorf("token %q", t)
		}
		kv[t[:i]] = t[i+1:]
	}
	c.creds = credsOfTok(kv["cr"])
	c.sv = svTok(kv["sv"])
	c.auth = kv["au"]
	c.pf = kv["pf"] == "1"
	c.method = kv["m"]
	if p := kv["p"]; p != "-" && p != "" {
		for _, s := range strings.Split(p, ",") {
			c.segs = append(c.segs, strings.SplitN(s, ":", 2)[0])
		}
	}
	c.slash = kv["sl"] == "1"
	if q := kv["q"]; q != "-" && q != "" {
		for _, s := range strings.Split(q, ";") {
			i := strings.Index(s, ":")
			if i < 0 || i+1 >= len(s) {
				return c, fmt.Errorf("query token %q", s)
			}
			p := qparam{key: s[:i], class: s[i+1]}
			rest := s[i+2:]
			if p.class == 'v' {
				rest = strings.TrimPrefix(rest, ".")
			}
			p.val = rest
			c.query = append(c.query, p)
		}
	}
	if m := kv["md"]; m != "-" && m != "" {
		for _, s := range strings.Split(m, ",") {
			ab := strings.SplitN(s, ":", 2)
			a, _ := strconv.Atoi(ab[0])
			b := 0
			if len(ab) > 1 {
				b, _ = strconv.Atoi(ab[1])
			}
			c.meta = append(c.meta, [2]int{a, b})
		}
	}
	c.body = kv["b"]
	if strings.HasPrefix(c.body, "pj.") {
		c.body = "pj." + strings.SplitN(c.body[3:], ":", 2)[0]
	}
	if c.body == "" {
		c.body = "-"
	}
	c.rpc = kv["rpc"]
	if c.rpc == "" {
		c.rpc = "ok"
	}
	if c.method == "" {
		return c, fmt.Errorf("no method")
	}
	return c, nil
}

// ---- raw values ----

var invalidInts = []string{"abc", "1.5", "0x10", "99999999999999999999", "1 "}
var invalidUints = []string{"-1", "abc", "1e3", "18446744073709551616"}
var invalidModes = []string{"bogus", "Recursive", "0"}
var invalidTimes = []string{"tomorrow", "2021-13-45T00:00:00Z", "1700000000"}
var invalidDurs = []string{"abc", "10", "500ms", "-1h"}
var invalidBools = []string{"maybe", "yes", "2"}
var invalidOrigins = []string{"notamultiaddr", "/ip4/1.2.3.4/tcp/4001", "%OK%,/ip4/999.1.1.1/tcp/1", "/ip4/1.2.3.4/tcp/4001/p2p/notapeer"}
var invalidFilters = []string{"bogus", "pinned-ish"}
var invalidWords = []string{"bogus", "UNIXFS", "1"}

func pick(l []string, k string) string {
	n, _ := strconv.Atoi(k)
	return l[n%len(l)]
}

var expireInDurs = []time.Duration{time.Hour, 2 * time.Hour, 90 * time.Minute, 1 * time.Second}

func durText(k int) string {
	switch k % len(expireInDurs) {
	case 0:
		return "1h"
	case 1:
		return "2h"
	case 2:
		return "1h30m"
	}
	return "1s"
}

// rawValue is the text sent for one query parameter.
func rawValue(q qparam) string {
	if q.class == 'e' {
		return ""
	}
	inv := q.class == 'i'
	switch q.key {
	case "name":
		n, _ := strconv.Atoi(q.val)
		return nameOf(n)
	case "mode":
		if inv {
			return pick(invalidModes, q.val)
		}
		if q.val == "d" {
			return "direct"
		}
		return "recursive"
	case "replication-min", "replication-max", "replication", "cid-version":
		if inv {
			return pick(invalidInts, q.val)
		}
		return q.val
	case "shard-size":
		if inv {
			return pick(invalidUints, q.val)
		}
		return q.val
	case "user-allocations":
		if inv {
			return "notapeer"
		}
		// list of peer indices, x<k> for undecodable entries
		var out []string
		for _, s := range strings.Split(q.val, ",") {
			if strings.HasPrefix(s, "x") || s == "e" {
				out = append(out, textOf(s))
			} else {
				n, _ := strconv.Atoi(s)
				out = append(out, common.PeerN(n).Pretty())
			}
		}
		return strings.Join(out, ",")
	case "expire-at":
		if inv {
			return pick(invalidTimes, q.val)
		}
		t := common.ExpireOf(q.val)
		b, _ := t.UTC().MarshalText()
		return string(b)
	case "expire-in":
		if inv {
			return pick(invalidDurs, q.val)
		}
		n, _ := strconv.Atoi(q.val)
		return durText(n)
	case "pin-update":
		if inv {
			return pick(invalidTexts, q.val)
		}
		n, _ := strconv.Atoi(q.val)
		return common.CidN(n).String()
	case "origins":
		if inv {
			return pick(invalidOrigins, q.val)
		}
		var out []string
		for _, s := range strings.Split(q.val, ",") {
			n, _ := strconv.Atoi(s)
			out = append(out, originOf(n).String())
		}
		return strings.Join(out, ",")
	case "local", "recursive", "hidden", "wrap-with-directory", "shard", "progress", "raw-leaves", "stream-channels", "nocopy":
		if inv {
			return pick(invalidBools, q.val)
		}
		return q.val
	case "filter":
		if inv {
			return pick(invalidFilters, q.val)
		}
		if m, err := strconv.Atoi(q.val); err == nil {
			return maskText(m) // tracker-status filter: the token is the numeric mask
		}
		return q.val // pin-type filter: the token is the type name
	case "layout", "format", "chunker", "hash":
		if inv {
			return pick(invalidWords, q.val)
		}
		return q.val
	}
	if inv {
		return "bogus"
	}
	return q.val
}

func (c reqCase) rawQuery() string {
	var parts []string
	for _, q := range c.query {
		if q.class == 'g' {
			parts = append(parts, url.QueryEscape(q.key)+"=%zz1") // a malformed percent-escape, sent as is
			continue
		}
		parts = append(parts, url.QueryEscape(q.key)+"="+url.QueryEscape(rawValue(q)))
	}
	for _, kv := range c.meta {
		parts = append(parts, url.QueryEscape("meta-"+metaKeyOf(kv[0]))+"="+url.QueryEscape(metaValOf(kv[1])))
	}
	return strings.Join(parts, "&")
}

func (c reqCase) rawPath() string {
	t := make([]string, len(c.segs))
	for i, s := range c.segs {
		t[i] = textOf(s)
	}
	p := "/" + strings.Join(t, "/")
	if c.slash && len(c.segs) > 0 {
		p += "/"
	}
	return p
}

func (c reqCase) rawBody() (io.Reader, bool) {
	switch {
	case c.body == "-" || c.body == "":
		return nil, false
	case strings.HasPrefix(c.body, "pj."):
		b, _ := json.Marshal(map[string]string{"peer_id": textOf(c.body[3:])})
		return bytes.NewReader(b), true
	case c.body == "junk":
		return strings.NewReader("{\"peer_id\": not json"), true
	case c.body == "arr":
		return strings.NewReader("[1,2]"), true
	case c.body == "nul":
		return strings.NewReader("null"), true
	case c.body == "nokey":
		return strings.NewReader("{\"other\": 1}"), true
	}
	return strings.NewReader(c.body), true
}

// The credential vocabulary: tokens for the texts that appear as user names and passwords.
//
//	u0 u1   the configured users        p0 p1   their passwords (p1 contains a colon)
//	nobody  a user that is not configured, wrong / any: passwords nobody has, e: the empty string
//
// A token names the same text wherever it stands (p0 as a user name is the text of the first password).
var authTexts = map[string]string{"u0": user0, "u1": user1, "p0": pass0, "p1": pass1, "nobody": "nobody", "wrong": "wrong", "any": "whatever", "e": ""}

// credential configurations: 0 none, 1 two users, 2 one user, 3 one user with an empty password, 4 an empty user name
func credsTok(k int) string {
	switch k {
	case 1:
		return "u0:p0,u1:p1"
	case 2:
		return "u0:p0"
	case 3:
		return "u0:e"
	case 4:
		return "e:p0"
	}
	return "-"
}
func credsOfTok(t string) int {
	switch t {
	case "u0:p0,u1:p1", "1":
		return 1
	case "u0:p0":
		return 2
	case "u0:e":
		return 3
	case "e:p0":
		return 4
	}
	return 0
}
func credsMap(k int) map[string]string {
	switch k {
	case 1:
		return map[string]string{user0: pass0, user1: pass1}
	case 2:
		return map[string]string{user0: pass0}
	case 3: // a configured user with an EMPTY password
		return map[string]string{user0: ""}
	case 4: // an empty user name
		return map[string]string{"": pass0}
	}
	return nil
}

// setAuthHeader: n none | m0 not base64 | m1 another scheme | m2 no colon | b.<user>.<pass> Basic |
// l.<user>.<pass> Basic with the scheme in lower case (net/http accepts it)
func setAuthHeader(r *http.Request, tok string) {
	switch tok {
	case "n", "":
		return
	case "m0":
		r.Header.Set("Authorization", "Basic !!!not-base64!!!")
		return
	case "m1":
		r.Header.Set("Authorization", "Bearer "+base64.StdEncoding.EncodeToString([]byte(user0+":"+pass0)))
		return
	case "m2":
		r.Header.Set("Authorization", "Basic "+base64.StdEncoding.EncodeToString([]byte(user0+pass0))) // no colon
		return
	}
	f := strings.SplitN(tok, ".", 3)
	if len(f) != 3 {
		panic("bad auth token " + tok)
	}
	u, okU := authTexts[f[1]]
	p, okP := authTexts[f[2]]
	if !okU || !okP {
		panic("bad auth token " + tok)
	}
	scheme := "Basic "
	if f[0] == "l" {
		scheme = "basic "
	}
	r.Header.Set("Authorization", scheme+base64.StdEncoding.EncodeToString([]byte(u+":"+p)))
}

func (c reqCase) setAuth(r *http.Request) { setAuthHeader(r, c.auth) }

// the full grid of credential situations for a configuration with credentials
var authGrid = []string{
	"n", "m0", "m1", "m2",
	"b.u0.p0", "b.u0.wrong", "b.u0.e", "b.u0.p1", "b.u1.p1", "b.u1.p0", "b.u1.e",
	"b.nobody.p0", "b.nobody.any", "b.nobody.e",
	"b.e.e", "b.e.p0",
	"b.p0.p0", "b.p0.u0", "b.p0.e",
	"l.u0.p0", "l.nobody.e",
}

// ---- the servers ----

type server struct {
	api    *rest.API
	addr   string
	rec    *recorder
	scheme string
	p2p    *http.Client // set when the case is sent over the libp2p-tunnelled listener
	p2pURL string
}

// svTok normalises a server-configuration token: three 0/1 digits <Tracing><HTTPLogFile><TLS>, optionally a fourth
// digit naming the listener the request is sent to: 0 (or absent) the HTTP listener, 1 the libp2p listener of a host
// handed to NewAPIWithHost, 2 the libp2p listener of the host the API builds itself from cfg.Libp2pListenAddr /
// cfg.ID / cfg.PrivateKey (NewAPI).  In both libp2p settings the HTTP listener exists too.
func svTok(t string) string {
	if len(t) != 3 && len(t) != 4 {
		return "000"
	}
	for i, c := range t {
		if c != '0' && c != '1' && !(i == 3 && c == '2') {
			return "000"
		}
	}
	if len(t) == 4 && t[3] == '0' {
		return t[:3]
	}
	return t
}

// p2pSv: the configurations whose requests go over the libp2p listener (systematic sweep in sysCases)
var p2pSv = []string{"0001", "0002", "1001", "0012"}

var allSv = []string{"000", "100", "010", "001", "110", "101", "011", "111"}

// newServer builds the API for one configuration: the fields NewAPIWithHost / setupHTTP branch on are
// cfg.Tracing (the ochttp layer), cfg.HTTPLogFile (where the access log goes), cfg.TLS (tls.Listen); the libp2p
// listener (setupLibp2p) serves the same http.Server and is not exercised here.
func newServer(creds int, sv string) *server {
	cfg := &rest.Config{}
	cfg.Default()
	laddr, _ := ma.NewMultiaddr("/ip4/127.0.0.1/tcp/0")
	cfg.HTTPListenAddr = []ma.Multiaddr{laddr}
	cfg.BasicAuthCredentials = credsMap(creds)
	cfg.Tracing = sv[0] == '1'
	if sv[1] == '1' {
		dir := os.Getenv("VERIF_SCRATCH")
		if dir == "" {
			dir = os.TempDir()
		}
		cfg.HTTPLogFile = filepath.Join(dir, fmt.Sprintf("c11-http-%d-%s.log", creds, sv))
		os.Remove(cfg.HTTPLogFile) // one file per configuration, started afresh (the API appends)
	}
	scheme := "http"
	if sv[2] == '1' {
		repo := os.Getenv("VERIF_REPO")
		if repo == "" {
			repo = "/repo"
		}
		cert, err := tls.LoadX509KeyPair(filepath.Join(repo, "api/rest/test/server.crt"), filepath.Join(repo, "api/rest/test/server.key"))
		if err != nil {
			panic(err)
		}
		cfg.TLS = &tls.Config{Certificates: []tls.Certificate{cert}}
		scheme = "https"
	}
	var a *rest.API
	var err error
	p2pMode := byte('0')
	if len(sv) == 4 {
		p2pMode = sv[3]
	}
	switch p2pMode {
	case '1': // a host shared with the caller
		var h host.Host
		h, err = libp2p.New(context.Background(), libp2p.ListenAddrs(laddr))
		if err != nil {
			panic(err)
		}
		a, err = rest.NewAPIWithHost(context.Background(), cfg, h)
	case '2': // the API's own host, from the configuration
		priv, _, kerr := crypto.GenerateKeyPair(crypto.Ed25519, 0)
		if kerr != nil {
			panic(kerr)
		}
		pid, kerr := peer.IDFromPrivateKey(priv)
		if kerr != nil {
			panic(kerr)
		}
		cfg.ID, cfg.PrivateKey, cfg.Libp2pListenAddr = pid, priv, []ma.Multiaddr{laddr}
		a, err = rest.NewAPI(context.Background(), cfg)
	default:
		a, err = rest.NewAPI(context.Background(), cfg)
	}
	if err != nil {
		panic(err)
	}
	r := &recorder{mode: "ok"}
	a.SetClient(newRPC(r))
	addrs, err := a.HTTPAddresses()
	if err != nil || len(addrs) == 0 {
		panic(fmt.Sprint("no http address: ", err))
	}
	s := &server{api: a, addr: addrs[0], rec: r, scheme: scheme}
	if p2pMode != '0' {
		if a.Host() == nil {
			panic("libp2p listener asked for, but the API has no host")
		}
		ch, err := libp2p.New(context.Background(), libp2p.NoListenAddrs)
		if err != nil {
			panic(err)
		}
		ch.Peerstore().AddAddrs(a.Host().ID(), a.Host().Addrs(), peerstore.PermanentAddrTTL)
		tr := &http.Transport{}
		tr.RegisterProtocol("libp2p", p2phttp.NewTransport(ch))
		s.p2p = &http.Client{Timeout: 20 * time.Second, Transport: tr,
			CheckRedirect: func(*http.Request, []*http.Request) error { return http.ErrUseLastResponse }}
		s.p2pURL = "libp2p://" + peer.Encode(a.Host().ID())
	}
	// wait until it serves
	for i := 0; i < 200; i++ {
		resp, err := insecureClient.Get(scheme + "://" + s.addr + "/nope-startup")
		if err == nil {
			ioutil.ReadAll(resp.Body)
			resp.Body.Close()
			break
		}
		time.Sleep(10 * time.Millisecond)
	}
	return s
}

var insecureClient = &http.Client{
	Timeout:       20 * time.Second,
	Transport:     &http.Transport{TLSClientConfig: &tls.Config{InsecureSkipVerify: true}, MaxIdleConnsPerHost: 4},
	CheckRedirect: func(*http.Request, []*http.Request) error { return http.ErrUseLastResponse },
}

type harness struct {
	mu  sync.Mutex
	srv map[string]*server // by credential configuration and server configuration, built on demand
	hc  *http.Client
}

func (h *harness) server(creds int, sv string) *server {
	sv = svTok(sv)
	key := strconv.Itoa(creds) + sv
	h.mu.Lock()
	defer h.mu.Unlock()
	if s, ok := h.srv[key]; ok {
		return s
	}
	s := newServer(creds, sv)
	h.srv[key] = s
	return s
}

// panicLog counts "http: panic serving" lines written by net/http's default error log: a handler
// that panics makes the server drop the connection, which the client sees as a transport error.
type panicLog struct {
	mu sync.Mutex
	n  int
}

func (p *panicLog) Write(b []byte) (int, error) {
	if bytes.Contains(b, []byte("http: panic serving")) {
		p.mu.Lock()
		p.n++
		p.mu.Unlock()
	}
	return os.Stderr.Write(b)
}
func (p *panicLog) count() int {
	p.mu.Lock()
	defer p.mu.Unlock()
	return p.n
}

var panics = &panicLog{}

func init() { log.SetOutput(panics) }

func newHarness() *harness {
	return &harness{srv: map[string]*server{}, hc: insecureClient}
}

// bodyShape counts the JSON documents of a response body.
func bodyShape(b []byte) string {
	dec := json.NewDecoder(bytes.NewReader(b))
	n := 0
	for {
		var v interface{}
		err := dec.Decode(&v)
		if err == io.EOF {
			return "d" + strconv.Itoa(n)
		}
		if err != nil {
			return "j" + strconv.Itoa(n)
		}
		n++
	}
}

func opsTok(ops []string) string {
	if len(ops) == 0 {
		return "-"
	}
	return strings.Join(ops, "|")
}

// exec sends the request and returns the output tokens, or an error when the
// infrastructure (not the API) failed.
func (h *harness) exec(c reqCase) (string, error) {
	s := h.server(c.creds, c.sv)
	u := s.scheme + "://" + s.addr + c.rawPath()
	hc := h.hc
	if s.p2p != nil {
		u, hc = s.p2pURL+c.rawPath(), s.p2p
	}
	if q := c.rawQuery(); q != "" {
		u += "?" + q
	}
	var lastErr error
	for attempt := 0; attempt < 3; attempt++ {
		body, has := c.rawBody()
		req, err := http.NewRequest(c.method, u, body)
		if err != nil {
			return "", fmt.Errorf("cannot build request: %v", err)
		}
		if has {
			req.Header.Set("Content-Type", "application/json")
		}
		c.setAuth(req)
		if c.pf {
			req.Header.Set("Origin", "http://example.org")
			req.Header.Set("Access-Control-Request-Method", "POST")
		}
		w := &expWindow{from: time.Now(), durs: expireInDurs}
		s.rec.reset(c.rpc, w)
		before := panics.count()
		resp, err := hc.Do(req)
		if err != nil {
			time.Sleep(20 * time.Millisecond)
			if panics.count() > before {
				return fmt.Sprintf("st=0 body=d0 ops=%s", opsTok(s.rec.take())), nil // the handler panicked: no response
			}
			lastErr = err
			time.Sleep(50 * time.Millisecond)
			continue
		}
		b, err := ioutil.ReadAll(resp.Body)
		resp.Body.Close()
		if err != nil {
			time.Sleep(20 * time.Millisecond)
			if panics.count() > before {
				return fmt.Sprintf("st=0 body=d0 ops=%s", opsTok(s.rec.take())), nil
			}
			lastErr = err
			continue
		}
		w.to = time.Now()
		ops := s.rec.take()
		// expiry tokens are rendered when the call is recorded (w.to not yet known): re-render open windows
		for i, o := range ops {
			ops[i] = fixExpiry(o, w)
		}
		return fmt.Sprintf("st=%d body=%s ops=%s", resp.StatusCode, bodyShape(b), opsTok(ops)), nil
	}
	return "", lastErr
}

// fixExpiry: an op recorded while the request was in flight carries expiry token
// x<unix> when it is not in a naming table; map it to f<9000+k> if it lies in the
// window [from+d_k, to+d_k].
var expiryRe = regexp.MustCompile(`/x(\d{8,})`)

func fixExpiry(op string, w *expWindow) string {
	return expiryRe.ReplaceAllStringFunc(op, func(m string) string {
		unix, err := strconv.ParseInt(m[2:], 10, 64)
		if err != nil {
			return m
		}
		t := time.Unix(unix, 0)
		for k, d := range w.durs {
			if !t.Before(w.from.Add(d).Add(-time.Second)) && !t.After(w.to.Add(d).Add(time.Second)) {
				return "/f" + strconv.Itoa(9000+k)
			}
		}
		return m
	})
}

// ---- generation ----

type slot int

const (
	sLit slot = iota
	sCid
	sPid
	sName
	sKey
	sRest
)

type tmpl struct {
	method string
	parts  []string // literal text or "{cid}" "{pid}" "{name}" "{key}" "{rest}"
	opts   string   // "pin" (pin options), "local", "filterS", "filterT", "" none
	body   bool
}

var templates = []tmpl{
	{"GET", []string{"id"}, "", false},
	{"GET", []string{"version"}, "", false},
	{"GET", []string{"peers"}, "", false},
	{"POST", []string{"peers"}, "", true},
	{"DELETE", []string{"peers", "{pid}"}, "", false},
	{"GET", []string{"allocations"}, "filterT", false},
	{"GET", []string{"allocations", "{cid}"}, "", false},
	{"GET", []string{"pins"}, "filterS", false},
	{"POST", []string{"pins", "{cid}", "recover"}, "local", false},
	{"POST", []string{"pins", "recover"}, "local", false},
	{"GET", []string{"pins", "{cid}"}, "local", false},
	{"POST", []string{"pins", "{cid}"}, "pin", false},
	{"POST", []string{"pins", "{key}", "{rest}"}, "pin", false},
	{"DELETE", []string{"pins", "{cid}"}, "", false},
	{"DELETE", []string{"pins", "{key}", "{rest}"}, "", false},
	{"POST", []string{"ipfs", "gc"}, "local", false},
	{"GET", []string{"health", "graph"}, "", false},
	{"GET", []string{"health", "alerts"}, "", false},
	{"GET", []string{"monitor", "metrics", "{name}"}, "", false},
	{"GET", []string{"monitor", "metrics"}, "", false},
}

var unknownPaths = [][]string{
	{}, {"nope"}, {"api", "v0", "id"}, {"pins", "c1", "nope"}, {"peers", "p1", "x"}, {"id", "id"},
	{"ipfs"}, {"health"}, {"monitor"}, {"monitor", "metrics", "ping", "x"}, {"allocations", "c2", "c3"},
	{"pins", "c1", "recover", "now"}, {"ID"}, {"Pins", "c1"},
}

var methods = []string{"GET", "POST", "DELETE", "PUT", "PATCH", "HEAD", "OPTIONS"}
var metricNames = []string{"ping", "freespace", "numpin", "m-1", "c3", "p2", "x0"}
var pathTails = [][]string{{}, {"a"}, {"a", "b"}, {"docs", "file.txt"}, {"c2"}, {"recover"}, {"meta-x"}, {"pins", "ipfs"}, {"name", "mode"}, {"add"}}

// fill instantiates a template; bad selects the part to make invalid (-1 none).
func fill(r *common.Rng, t tmpl, bad int) []string {
	var segs []string
	vi := 0
	for _, p := range t.parts {
		switch p {
		case "{cid}":
			if vi == bad {
				segs = append(segs, []string{"x" + strconv.Itoa(r.Intn(len(invalidTexts))), "recover", "ipfs"}[weighted(r, 8, 1, 1)])
			} else if r.Chance(1, 8) {
				segs = append(segs, "p"+strconv.Itoa(r.Intn(peerU))) // a peer id text is a CIDv0 too
			} else {
				segs = append(segs, "c"+strconv.Itoa(r.Intn(cidU)))
			}
			vi++
		case "{pid}":
			if vi == bad {
				segs = append(segs, "x"+strconv.Itoa(r.Intn(len(invalidTexts))))
			} else if r.Chance(1, 8) {
				segs = append(segs, "c"+strconv.Itoa(2*r.Intn(cidU/2)+1)) // CIDv0 text decodes as a peer id
			} else if r.Chance(1, 8) {
				segs = append(segs, "c"+strconv.Itoa(2*r.Intn(cidU/2))) // CIDv1: not a peer id
			} else {
				segs = append(segs, "p"+strconv.Itoa(r.Intn(peerU)))
			}
			vi++
		case "{name}":
			segs = append(segs, metricNames[r.Intn(len(metricNames))])
			vi++
		case "{key}":
			segs = append(segs, []string{"ipfs", "ipns", "ipld"}[r.Intn(3)])
		case "{rest}":
			key := segs[len(segs)-1]
			if vi == bad {
				switch r.Intn(3) {
				case 0:
					if key == "ipns" {
						// every non-empty name is accepted under /ipns: the only malformed one is the empty path
					} else {
						segs = append(segs, "x"+strconv.Itoa(r.Intn(len(invalidTexts))))
					}
				case 1:
					if key != "ipns" {
						segs = append(segs, "x"+strconv.Itoa(r.Intn(len(invalidTexts))), "a")
					}
				default:
					// nothing after the namespace
				}
			} else {
				if key == "ipns" && r.Bool() {
					segs = append(segs, []string{"example.com", "x1", "k51name"}[r.Intn(3)])
				} else {
					segs = append(segs, "c"+strconv.Itoa(r.Intn(cidU)))
				}
				segs = append(segs, pathTails[r.Intn(len(pathTails))]...)
			}
			vi++
		default:
			segs = append(segs, p)
		}
	}
	return segs
}

func nvars(t tmpl) int {
	n := 0
	for _, p := range t.parts {
		if p == "{cid}" || p == "{pid}" || p == "{rest}" {
			n++
		}
	}
	return n
}

func weighted(r *common.Rng, w ...int) int {
	tot := 0
	for _, x := range w {
		tot += x
	}
	v := r.Intn(tot)
	for i, x := range w {
		if v < x {
			return i
		}
		v -= x
	}
	return 0
}

var pinOptKeys = []string{"name", "mode", "replication-min", "replication-max", "replication", "shard-size",
	"user-allocations", "expire-at", "expire-in", "pin-update", "origins"}

var typeNames = []string{"pin", "meta-pin", "clusterdag-pin", "shard-pin", "all"}

// optValue draws a value token for a pin option; class v or i.
func optValue(r *common.Rng, key string, invalid bool) qparam {
	if invalid && key == "user-allocations" {
		// the option is a list: its undecodable values are lists with an undecodable entry
		return qparam{key: key, class: 'v', val: []string{"x0", "1,x1", "x2,2,3", "1,e"}[r.Intn(4)]}
	}
	if invalid {
		return qparam{key: key, class: 'i', val: strconv.Itoa(r.Intn(4))}
	}
	q := qparam{key: key, class: 'v'}
	switch key {
	case "name":
		q.val = strconv.Itoa(r.Intn(nameU))
	case "mode":
		q.val = []string{"r", "d"}[r.Intn(2)]
	case "replication-min", "replication-max", "replication":
		q.val = strconv.Itoa([]int{-1, 0, 1, 2, 3, 7}[r.Intn(6)])
	case "shard-size":
		q.val = []string{"0", "1", "1024", "104857600", "18446744073709551615"}[r.Intn(5)]
	case "user-allocations":
		n := r.Range(1, 3)
		var l []string
		for i := 0; i < n; i++ {
			l = append(l, strconv.Itoa(r.Intn(peerU)))
		}
		q.val = strings.Join(l, ",")
	case "expire-at":
		q.val = []string{"u", "p", "f0", "f1", "f7", "z"}[r.Intn(6)]
	case "expire-in":
		q.val = strconv.Itoa(r.Intn(len(expireInDurs)))
	case "pin-update":
		q.val = strconv.Itoa(r.Intn(cidU))
	case "origins":
		n := r.Range(1, 3)
		var l []string
		for i := 0; i < n; i++ {
			l = append(l, strconv.Itoa(r.Intn(peerU)))
		}
		q.val = strings.Join(l, ",")
	case "local":
		q.val = []string{"true", "false"}[r.Intn(2)]
	}
	return q
}

func statusFilter(r *common.Rng) string {
	n := r.Range(1, 3)
	m := 0
	for i := 0; i < n; i++ {
		m |= int(simpleStatuses[r.Intn(len(simpleStatuses))].st)
	}
	return strconv.Itoa(m)
}

var simpleStatuses = []struct {
	name string
	st   api.TrackerStatus
}{
	{"cluster_error", api.TrackerStatusClusterError}, {"pin_error", api.TrackerStatusPinError}, {"unpin_error", api.TrackerStatusUnpinError},
	{"pinned", api.TrackerStatusPinned}, {"pinning", api.TrackerStatusPinning}, {"unpinning", api.TrackerStatusUnpinning},
	{"unpinned", api.TrackerStatusUnpinned}, {"remote", api.TrackerStatusRemote}, {"pin_queued", api.TrackerStatusPinQueued},
	{"unpin_queued", api.TrackerStatusUnpinQueued}, {"sharded", api.TrackerStatusSharded}, {"unexpectedly_unpinned", api.TrackerStatusUnexpectedlyUnpinned},
}

// maskText writes a tracker-status mask as the comma separated names of its bits.
func maskText(m int) string {
	var l []string
	for _, s := range simpleStatuses {
		if m&int(s.st) != 0 {
			l = append(l, s.name)
			m &^= int(s.st)
		}
	}
	if m != 0 {
		l = append(l, "unknownbit")
	}
	return strings.Join(l, ",")
}

func authFor(r *common.Rng, creds int) string {
	if creds == 0 {
		return []string{"n", "n", "n", "b.u0.p0", "b.u0.wrong", "m0", "b.nobody.e"}[r.Intn(7)]
	}
	if r.Chance(2, 5) {
		return []string{"b.u0.p0", "b.u0.p0", "b.u1.p1", "l.u0.p0"}[r.Intn(4)] // right for configuration 1
	}
	return authGrid[r.Intn(len(authGrid))]
}

// svFor draws a server configuration: the default one two times out of three
func svFor(r *common.Rng) string {
	if r.Chance(2, 3) {
		return "000"
	}
	if r.Chance(1, 4) {
		return p2pSv[r.Intn(len(p2pSv))] // over the libp2p-tunnelled listener
	}
	return allSv[1+r.Intn(len(allSv)-1)]
}

func credsFor(r *common.Rng, num, den int) int {
	if !r.Chance(num, den) {
		return 0
	}
	return 1 + r.Intn(2)
}

// genReq draws one random request.
func genReq(r *common.Rng) reqCase {
	c := reqCase{rpc: "ok", body: "-"}
	c.creds = credsFor(r, 1, 3)
	c.sv = svFor(r)
	c.auth = authFor(r, c.creds)
	c.rpc = []string{"ok", "ok", "ok", "err", "nf"}[r.Intn(5)]
	if r.Chance(1, 12) {
		// unknown path
		c.segs = append([]string{}, unknownPaths[r.Intn(len(unknownPaths))]...)
		c.method = methods[r.Intn(len(methods))]
		c.slash = r.Chance(1, 6)
		return c
	}
	t := templates[weighted(r, 1, 1, 1, 3, 3, 2, 2, 2, 3, 2, 3, 10, 10, 4, 4, 2, 1, 1, 2, 1)]
	bad := -1
	if nv := nvars(t); nv > 0 && r.Chance(1, 4) {
		bad = r.Intn(nv)
	}
	c.segs = fill(r, t, bad)
	c.method = t.method
	if r.Chance(1, 8) {
		c.method = methods[r.Intn(len(methods))]
	}
	if r.Chance(1, 25) {
		c.slash = true
	}
	if r.Chance(1, 40) && len(c.segs) > 0 {
		// unclean path: an empty or dot segment somewhere
		i := r.Intn(len(c.segs) + 1)
		ins := []string{"e", "dot", "dotdot"}[weighted(r, 3, 1, 1)]
		if ins == "e" && i == len(c.segs) {
			c.slash = true // an empty last segment IS a trailing slash
		} else {
			c.segs = append(c.segs[:i], append([]string{ins}, c.segs[i:]...)...)
		}
	}
	if r.Chance(1, 30) {
		c.pf = true
		if r.Chance(2, 3) {
			c.method = "OPTIONS"
		}
	}
	// options
	pinOpts := t.opts == "pin" || r.Chance(1, 6)
	if pinOpts {
		for _, k := range pinOptKeys {
			p := 22
			if k == "replication" || k == "expire-in" {
				p = 10
			}
			if !r.Chance(p, 100) {
				continue
			}
			switch {
			case r.Chance(1, 12):
				c.query = append(c.query, qparam{key: k, class: 'e'})
			case r.Chance(1, 40):
				c.query = append(c.query, qparam{key: k, class: 'g'})
			case r.Chance(1, 9) && k != "name":
				c.query = append(c.query, optValue(r, k, true))
			default:
				c.query = append(c.query, optValue(r, k, false))
			}
			if r.Chance(1, 30) {
				c.query = append(c.query, optValue(r, k, r.Chance(1, 3) && k != "name")) // repeated key
			}
		}
		// user-allocations with an undecodable entry
		if r.Chance(1, 25) {
			c.query = append(c.query, qparam{key: "user-allocations", class: 'v', val: []string{"x0", "1,x1", "x2,2,3", "1,e"}[r.Intn(4)]})
		}
		if r.Chance(1, 4) {
			n := r.Range(1, 3)
			for i := 0; i < n; i++ {
				c.meta = append(c.meta, [2]int{r.Intn(metaKeyU), r.Intn(metaValU)})
			}
		}
	}
	if t.opts == "local" || r.Chance(1, 10) {
		switch weighted(r, 4, 4, 1, 1, 3) {
		case 0:
			c.query = append(c.query, qparam{key: "local", class: 'v', val: "true"})
		case 1:
			c.query = append(c.query, qparam{key: "local", class: 'v', val: "false"})
		case 2:
			c.query = append(c.query, qparam{key: "local", class: 'i', val: strconv.Itoa(r.Intn(3))})
		case 3:
			c.query = append(c.query, qparam{key: "local", class: 'e'})
		}
	}
	if r.Chance(1, 60) {
		// a malformed escape in the value of a parameter that is not a pin option (the handlers that parse pin
		// options refuse the whole query string, the others lose the pair)
		c.query = append(c.query, qparam{key: []string{"local", "filter", "whatever"}[r.Intn(3)], class: 'g'})
	}
	if t.opts == "filterS" {
		switch weighted(r, 5, 1, 1, 3) {
		case 0:
			c.query = append(c.query, qparam{key: "filter", class: 'v', val: statusFilter(r)})
		case 1:
			c.query = append(c.query, qparam{key: "filter", class: 'i', val: strconv.Itoa(r.Intn(2))})
		case 2:
			c.query = append(c.query, qparam{key: "filter", class: 'e'})
		}
		if r.Bool() {
			c.query = append(c.query, qparam{key: "local", class: 'v', val: []string{"true", "false"}[r.Intn(2)]})
		}
	}
	if t.opts == "filterT" {
		switch weighted(r, 5, 1, 1, 3) {
		case 0:
			c.query = append(c.query, qparam{key: "filter", class: 'v', val: typeNames[r.Intn(len(typeNames))]})
		case 1:
			c.query = append(c.query, qparam{key: "filter", class: 'i', val: strconv.Itoa(r.Intn(2))})
		case 2:
			c.query = append(c.query, qparam{key: "filter", class: 'e'})
		}
	}
	if t.body || r.Chance(1, 20) {
		switch weighted(r, 8, 2, 1, 1, 1, 1, 1, 1) {
		case 0:
			c.body = "pj.p" + strconv.Itoa(r.Intn(peerU))
		case 1:
			c.body = "pj.x" + strconv.Itoa(r.Intn(len(invalidTexts)))
		case 2:
			c.body = "pj.e"
		case 3:
			c.body = "junk"
		case 4:
			c.body = "arr"
		case 5:
			c.body = "nul"
		case 6:
			c.body = "nokey"
		case 7:
			c.body = "pj.c" + strconv.Itoa(r.Intn(cidU))
		}
	}
	if t.body && r.Chance(1, 10) {
		c.body = "-"
	}
	return c
}

// sysCases: the systematic sweep — every template and every unknown path, every
// method, every part valid / invalid, every credential situation; then every pin
// option valid / each invalid variant / empty on the four pin routes.
func sysCases() []reqCase {
	var out []reqCase
	r := common.NewRng(7)
	type sit struct {
		cr int
		au string
	}
	// index 0..3 are used by the thinner sweeps below: no credentials configured (with and without a header),
	// configured without a header, configured with the right pair
	auths := []sit{{0, "n"}, {0, "b.u0.wrong"}, {1, "n"}, {1, "b.u0.p0"}, {0, "b.nobody.e"}}
	for _, a := range authGrid {
		if a != "n" && a != "b.u0.p0" {
			auths = append(auths, sit{1, a})
		}
	}
	for _, a := range authGrid {
		auths = append(auths, sit{2, a}) // one configured user: u1's pair is not valid here
	}
	for ti, t := range templates {
		for _, m := range methods {
			for bad := -1; bad < nvars(t); bad++ {
				for ai, a := range auths {
					if m != t.method && ai%3 != 0 && bad >= 0 {
						continue // thin out wrong-method × invalid-part × all credentials
					}
					c := reqCase{creds: a.cr, auth: a.au, method: m, segs: fill(r.Fork(uint64(ti*100+bad+1)), t, bad), rpc: "ok", body: "-"}
					if t.body {
						c.body = "pj.p1"
					}
					out = append(out, c)
				}
			}
		}
	}
	for _, p := range unknownPaths {
		for _, m := range methods {
			for _, a := range auths {
				out = append(out, reqCase{creds: a.cr, auth: a.au, method: m, segs: append([]string{}, p...), rpc: "ok", body: "-"})
			}
		}
	}
	// preflight on every template
	for _, t := range templates {
		for _, a := range append(append([]sit{}, auths[:4]...), sit{1, "b.nobody.e"}, sit{1, "b.e.e"}) {
			out = append(out, reqCase{creds: a.cr, auth: a.au, pf: true, method: "OPTIONS", segs: fill(r, t, -1), rpc: "ok", body: "-"})
		}
	}
	// trailing slash / unclean on every template with the right method
	for _, t := range templates {
		s := fill(r, t, -1)
		out = append(out, reqCase{method: t.method, auth: "n", segs: s, slash: true, rpc: "ok", body: "-"})
		out = append(out, reqCase{creds: 1, auth: "n", method: t.method, segs: s, slash: true, rpc: "ok", body: "-"})
		out = append(out, reqCase{creds: 1, auth: "b.nobody.e", method: t.method, segs: s, slash: true, rpc: "ok", body: "-"})
		out = append(out, reqCase{method: t.method, auth: "n", segs: append([]string{"e"}, s...), rpc: "ok", body: "-"})
		out = append(out, reqCase{method: t.method, auth: "n", segs: append(append([]string{}, s...), "dot"), rpc: "ok", body: "-"})
	}
	// rpc failure modes on every template
	for _, t := range templates {
		for _, mode := range []string{"err", "nf"} {
			c := reqCase{method: t.method, auth: "n", segs: fill(r, t, -1), rpc: mode, body: "-"}
			if t.body {
				c.body = "pj.p2"
			}
			out = append(out, c)
			for _, l := range []string{"true", "false"} {
				if t.opts == "local" || t.opts == "filterS" {
					c2 := c
					c2.query = []qparam{{key: "local", class: 'v', val: l}}
					out = append(out, c2)
				}
			}
		}
	}
	// bodies of POST /peers
	for _, b := range []string{"-", "pj.p3", "pj.x0", "pj.x4", "pj.e", "junk", "arr", "nul", "nokey", "pj.c1", "pj.c2"} {
		for _, a := range auths {
			out = append(out, reqCase{creds: a.cr, auth: a.au, method: "POST", segs: []string{"peers"}, rpc: "ok", body: b})
		}
	}
	// options on the pin routes (and the routes sharing their parsers)
	optRoutes := []tmpl{templates[11], templates[12], templates[13], templates[14], templates[10], templates[8], templates[6]}
	for ri, t := range optRoutes {
		for _, k := range pinOptKeys {
			var qs []qparam
			for v := 0; v < 3; v++ {
				qs = append(qs, optValue(r, k, false))
			}
			qs = append(qs, qparam{key: k, class: 'e'}, qparam{key: k, class: 'g'})
			if k != "name" && k != "user-allocations" {
				for v := 0; v < 4; v++ {
					qs = append(qs, qparam{key: k, class: 'i', val: strconv.Itoa(v)})
				}
			}
			if k == "mode" {
				qs = append(qs, qparam{key: k, class: 'v', val: "d"}, qparam{key: k, class: 'v', val: "r"})
			}
			if k == "user-allocations" {
				for _, v := range []string{"x0", "1,x1", "x2,2,3", "1,e"} {
					qs = append(qs, qparam{key: k, class: 'v', val: v})
				}
			}
			for qi, q := range qs {
				for ai, a := range []int{0, 2, 5, 3} {
					if ri >= 2 && ai > 0 && qi%2 == 1 {
						continue
					}
					out = append(out, reqCase{creds: auths[a].cr, auth: auths[a].au, method: t.method, segs: fill(r, t, -1), query: []qparam{q}, rpc: "ok", body: "-"})
				}
			}
		}
		// shadowing combinations
		combos := [][]qparam{
			{{key: "replication", class: 'v', val: "2"}, {key: "replication-min", class: 'i', val: "0"}},
			{{key: "replication", class: 'v', val: "2"}, {key: "replication-min", class: 'v', val: "1"}, {key: "replication-max", class: 'v', val: "3"}},
			{{key: "replication", class: 'i', val: "0"}, {key: "replication-min", class: 'v', val: "1"}},
			{{key: "replication", class: 'e'}, {key: "replication-min", class: 'v', val: "1"}, {key: "replication-max", class: 'v', val: "3"}},
			{{key: "expire-at", class: 'v', val: "f1"}, {key: "expire-in", class: 'i', val: "0"}},
			{{key: "expire-at", class: 'v', val: "f1"}, {key: "expire-in", class: 'v', val: "1"}},
			{{key: "expire-at", class: 'i', val: "0"}, {key: "expire-in", class: 'v', val: "1"}},
			{{key: "expire-at", class: 'e'}, {key: "expire-in", class: 'v', val: "0"}},
			{{key: "name", class: 'v', val: "1"}, {key: "name", class: 'v', val: "2"}},
			{{key: "mode", class: 'v', val: "d"}, {key: "mode", class: 'i', val: "0"}},
			{{key: "mode", class: 'i', val: "1"}, {key: "mode", class: 'v', val: "d"}},
			{{key: "name", class: 'g'}, {key: "name", class: 'v', val: "2"}},
			{{key: "replication-min", class: 'v', val: "1"}, {key: "replication-min", class: 'g'}},
			{{key: "name", class: 'v', val: "7"}, {key: "mode", class: 'v', val: "d"}, {key: "replication-min", class: 'v', val: "-1"}, {key: "replication-max", class: 'v', val: "-1"},
				{key: "shard-size", class: 'v', val: "1024"}, {key: "user-allocations", class: 'v', val: "1,2"}, {key: "expire-at", class: 'v', val: "f2"},
				{key: "pin-update", class: 'v', val: "5"}, {key: "origins", class: 'v', val: "1,2"}},
		}
		for _, q := range combos {
			out = append(out, reqCase{method: t.method, auth: "n", segs: fill(r, t, -1), query: q, rpc: "ok", body: "-"})
		}
		out = append(out, reqCase{method: t.method, auth: "n", segs: fill(r, t, -1), meta: [][2]int{{1, 2}, {3, 0}, {1, 4}, {0, 5}, {7, 7}}, rpc: "ok", body: "-"})
		// every metadata key on its own (keys made of the characters of the "meta-" prefix, keys equal to option names,
		// keys that need escaping), all of them at once, every value, every name
		var all [][2]int
		for k := 0; k < metaKeyU; k++ {
			out = append(out, reqCase{method: t.method, auth: "n", segs: fill(r, t, -1), meta: [][2]int{{k, 1 + k%(metaValU-1)}}, rpc: "ok", body: "-"})
			all = append(all, [2]int{k, (k*7 + 3) % metaValU})
		}
		out = append(out, reqCase{method: t.method, auth: "n", segs: fill(r, t, -1), meta: all, rpc: "ok", body: "-"})
		for v := 0; v < metaValU; v++ {
			out = append(out, reqCase{method: t.method, auth: "n", segs: fill(r, t, -1), meta: [][2]int{{1 + v%(metaKeyU-1), v}}, rpc: "ok", body: "-"})
		}
		if ri < 2 {
			for n := 0; n < nameU; n++ {
				out = append(out, reqCase{method: t.method, auth: "n", segs: fill(r, t, -1), query: []qparam{{key: "name", class: 'v', val: strconv.Itoa(n)}},
					meta: [][2]int{{13, 10}}, rpc: "ok", body: "-"})
			}
		}
	}
	// local / filter options
	for _, t := range templates {
		if t.opts == "local" || t.opts == "filterS" {
			for _, q := range []qparam{{key: "local", class: 'v', val: "true"}, {key: "local", class: 'v', val: "false"}, {key: "local", class: 'i', val: "0"},
				{key: "local", class: 'i', val: "1"}, {key: "local", class: 'e'}} {
				out = append(out, reqCase{method: t.method, auth: "n", segs: fill(r, t, -1), query: []qparam{q}, rpc: "ok", body: "-"})
			}
		}
		if t.opts == "filterS" {
			var fl []string
			for _, st := range simpleStatuses {
				fl = append(fl, strconv.Itoa(int(st.st)))
			}
			fl = append(fl, strconv.Itoa(int(api.TrackerStatusPinned|api.TrackerStatusPinError)), strconv.Itoa(int(api.TrackerStatusError)), strconv.Itoa(int(api.TrackerStatusQueued|api.TrackerStatusRemote)))
			for _, f := range fl {
				out = append(out, reqCase{method: t.method, auth: "n", segs: fill(r, t, -1), query: []qparam{{key: "filter", class: 'v', val: f}}, rpc: "ok", body: "-"})
				out = append(out, reqCase{method: t.method, auth: "n", segs: fill(r, t, -1), query: []qparam{{key: "filter", class: 'v', val: f}, {key: "local", class: 'v', val: "true"}}, rpc: "ok", body: "-"})
			}
			for v := 0; v < 2; v++ {
				out = append(out, reqCase{method: t.method, auth: "n", segs: fill(r, t, -1), query: []qparam{{key: "filter", class: 'i', val: strconv.Itoa(v)}}, rpc: "ok", body: "-"})
			}
		}
		if t.opts == "filterT" {
			for _, f := range typeNames {
				out = append(out, reqCase{method: t.method, auth: "n", segs: fill(r, t, -1), query: []qparam{{key: "filter", class: 'v', val: f}}, rpc: "ok", body: "-"})
			}
			for v := 0; v < 2; v++ {
				out = append(out, reqCase{method: t.method, auth: "n", segs: fill(r, t, -1), query: []qparam{{key: "filter", class: 'i', val: strconv.Itoa(v)}}, rpc: "ok", body: "-"})
			}
		}
	}
	// every other server configuration (tracing / access-log file / TLS): every template with its method, a wrong
	// method, an unknown path, a preflight and an undecodable option, in the credential situations that matter
	svSits := []sit{{0, "n"}, {1, "n"}, {1, "m0"}, {1, "b.nobody.e"}, {1, "b.u0.wrong"}, {1, "b.u0.p0"}, {2, "b.u1.p1"}, {2, "b.u0.p0"}}
	for _, sv := range append(append([]string{}, allSv[1:]...), p2pSv...) {
		for ti, t := range templates {
			for _, a := range svSits {
				c := reqCase{sv: sv, creds: a.cr, auth: a.au, method: t.method, segs: fill(r.Fork(uint64(9000+ti)), t, -1), rpc: "ok", body: "-"}
				if t.body {
					c.body = "pj.p1"
				}
				out = append(out, c)
			}
			out = append(out, reqCase{sv: sv, creds: 1, auth: "n", method: "PUT", segs: fill(r, t, -1), rpc: "ok", body: "-"})
			out = append(out, reqCase{sv: sv, creds: 1, auth: "n", pf: true, method: "OPTIONS", segs: fill(r, t, -1), rpc: "ok", body: "-"})
			if nvars(t) > 0 {
				out = append(out, reqCase{sv: sv, creds: 0, auth: "n", method: t.method, segs: fill(r, t, 0), rpc: "ok", body: "-"})
			}
		}
		for _, a := range svSits {
			out = append(out, reqCase{sv: sv, creds: a.cr, auth: a.au, method: "GET", segs: []string{"nope"}, rpc: "ok", body: "-"})
			out = append(out, reqCase{sv: sv, creds: a.cr, auth: a.au, method: "POST", segs: []string{"pins", "c3"},
				query: []qparam{{key: "replication-min", class: 'i', val: "0"}}, rpc: "ok", body: "-"})
		}
	}
	// credentials-map corner cases as configurations of the sweep: a configured user with an EMPTY password (3: only
	// user0 with the empty password gets through - an empty configured password is not a wildcard, and no header is
	// not "the empty pair"), an empty user name (4: a name like any other). Every template with its method, on the
	// HTTP listener and on the libp2p-tunnelled one.
	cornerSits := []sit{{3, "n"}, {3, "m0"}, {3, "m2"}, {3, "b.u0.e"}, {3, "l.u0.e"}, {3, "b.u0.any"}, {3, "b.u0.p0"}, {3, "b.e.e"}, {3, "b.nobody.e"}, {3, "b.e.u0"},
		{4, "n"}, {4, "m0"}, {4, "m2"}, {4, "b.e.p0"}, {4, "b.e.e"}, {4, "b.e.wrong"}, {4, "b.u0.p0"}, {4, "b.p0.e"}}
	for _, sv := range []string{"000", p2pSv[0]} {
		for ti, t := range templates {
			for _, a := range cornerSits {
				c := reqCase{sv: sv, creds: a.cr, auth: a.au, method: t.method, segs: fill(r.Fork(uint64(9500+ti)), t, -1), rpc: "ok", body: "-"}
				if t.body {
					c.body = "pj.p1"
				}
				out = append(out, c)
			}
		}
		for _, a := range cornerSits {
			out = append(out, reqCase{sv: sv, creds: a.cr, auth: a.au, pf: true, method: "OPTIONS", segs: []string{"id"}, rpc: "ok", body: "-"})
			out = append(out, reqCase{sv: sv, creds: a.cr, auth: a.au, method: "POST", segs: []string{"pins", "c3"},
				query: []qparam{{key: "replication-min", class: 'i', val: "0"}}, rpc: "ok", body: "-"})
		}
	}
	return out
}
