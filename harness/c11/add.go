package main

// Suite "add": the streaming add endpoint POST /add, treated separately: a multipart body with one
// small file (or no / a broken multipart body), pin options and add options in the query.
//
//   C11 add cr=<0|1> au=<…> mp=<ok|none|junk> q=<key:class;…|-> md=<k:v,…|-> rpc=<ok|err>
//        => st=<status> body=<d<n>|j<n>> tr=<0|1> root=<ver.codec.hash|-> ops=<op|…|->
//
//   mp    ok: multipart/form-data with one file "hello.txt"; none: no body; junk: multipart content type, body is not multipart
//   tr    1: the X-Stream-Error trailer is set
//   root  CID version, codec and hash function of the CID of the final Cluster.Pin, and the leaf form (raw|pb) of the blocks put
//
// After every add line, the AddParams the REAL api.AddParamsFromQuery builds from the same query, as a case of its own:
//
//   C11 addp q=<…> md=<…> => ap=<layout>/<chunker>/<hash>/<format>/<9 flags>/<cid-version> | ap=-   (refused)

import (
	"bytes"
	"fmt"
	"io/ioutil"
	"net/http"
	"net/url"
	"strconv"
	"strings"
	"sync"
	"time"

	"github.com/ipfs/ipfs-cluster/api"

	cid "github.com/ipfs/go-cid"
	files "github.com/ipfs/go-ipfs-files"
	mh "github.com/multiformats/go-multihash"

	"verifharness/common"
)

type addCase struct {
	reqCase
	mp string
}

func (c addCase) parseTokens() string {
	var keep []string
	for _, x := range strings.Fields(c.reqCase.inputTokens(false))[1:] {
		if strings.HasPrefix(x, "q=") || strings.HasPrefix(x, "md=") {
			keep = append(keep, x)
		}
	}
	return "addp " + strings.Join(keep, " ")
}

func (c addCase) inputTokens() string {
	t := c.reqCase.inputTokens(false)
	// "req cr= au= pf= m= p= sl= q= md= b= rpc=" -> keep cr au q md rpc
	f := strings.Fields(t)
	keep := []string{"add"}
	for _, x := range f[1:] {
		switch {
		case strings.HasPrefix(x, "sv="), strings.HasPrefix(x, "cr="), strings.HasPrefix(x, "au="):
			keep = append(keep, x)
		}
	}
	keep = append(keep, "mp="+c.mp)
	for _, x := range f[1:] {
		switch {
		case strings.HasPrefix(x, "q="), strings.HasPrefix(x, "md="), strings.HasPrefix(x, "rpc="):
			keep = append(keep, x)
		}
	}
	return strings.Join(keep, " ")
}

func parseAddCase(f []string) (addCase, error) {
	var ff []string
	mp := "ok"
	for _, t := range f {
		if strings.HasPrefix(t, "mp=") {
			mp = t[3:]
		} else {
			ff = append(ff, t)
		}
	}
	ff = append(ff, "m=POST", "p=add")
	rc, err := parseReqCase(ff)
	return addCase{reqCase: rc, mp: mp}, err
}

func rootDesc(c cid.Cid) string {
	codec := "other"
	switch c.Type() {
	case cid.DagProtobuf:
		codec = "pb"
	case cid.Raw:
		codec = "raw"
	}
	dm, err := mh.Decode(c.Hash())
	h := "?"
	if err == nil {
		h = mh.Codes[dm.Code]
	}
	return fmt.Sprintf("%d.%s.%s", c.Version(), codec, h)
}

var lastPinCid cid.Cid // set by the recording Cluster.Pin (add suite only; requests are sequential)

// codecs of the blocks the recording IPFSConnector.BlockPut received since the last reset: a file's leaves are
// raw blocks exactly when the adder was told RawLeaves (every file of the harness is non-empty).
var blockMu sync.Mutex
var rawBlocks, pbBlocks int

func noteBlock(c cid.Cid) {
	blockMu.Lock()
	defer blockMu.Unlock()
	if c.Type() == cid.Raw {
		rawBlocks++
	} else {
		pbBlocks++
	}
}

func resetBlocks() {
	blockMu.Lock()
	rawBlocks, pbBlocks = 0, 0
	blockMu.Unlock()
}

func leafTok() string {
	blockMu.Lock()
	defer blockMu.Unlock()
	switch {
	case rawBlocks > 0:
		return "raw"
	case pbBlocks > 0:
		return "pb"
	}
	return "-"
}

var knownAddWords = map[string]bool{"": true, "trickle": true, "balanced": true, "unixfs": true, "car": true, "size-262144": true,
	"size-10": true, "size-1000": true, "sha2-256": true, "sha3-512": true, "blake2b-256": true}

// apTok is the api.AddParams the REAL AddParamsFromQuery builds from the query of the request (the handler calls
// it on url.ParseQuery(r.URL.RawQuery) and hands the result to adderutils.AddMultipartHTTPHandler unchanged - the
// translator checks that call sequence), field by field:
// <layout>/<chunker>/<hash>/<format>/<local recursive hidden wrap shard progress raw-leaves stream-channels nocopy>/<cid-version>
func apTok(rawQuery string) (tok string) {
	defer func() {
		if r := recover(); r != nil {
			tok = "panic"
		}
	}()
	q, err := url.ParseQuery(rawQuery)
	if err != nil {
		return "-"
	}
	p, err := api.AddParamsFromQuery(q)
	if err != nil || p == nil {
		return "-"
	}
	w := func(s string) string {
		if s == "" {
			return "_"
		}
		if !knownAddWords[s] {
			return "i"
		}
		return s
	}
	bits := ""
	for _, b := range []bool{p.Local, p.Recursive, p.Hidden, p.Wrap, p.Shard, p.Progress, p.RawLeaves, p.StreamChannels, p.NoCopy} {
		if b {
			bits += "1"
		} else {
			bits += "0"
		}
	}
	return fmt.Sprintf("%s/%s/%s/%s/%s/%d", w(p.Layout), w(p.Chunker), w(p.HashFun), w(p.Format), bits, p.CidVersion)
}

const addFileContent = "hello from the C11 harness: a small file that fits one chunk unless the chunker is tiny\n"

func (h *harness) execAdd(c addCase) (string, error) {
	s := h.server(c.creds, c.sv)
	u := s.scheme + "://" + s.addr + "/add"
	if q := c.rawQuery(); q != "" {
		u += "?" + q
	}
	var lastErr error
	for attempt := 0; attempt < 3; attempt++ {
		var req *http.Request
		var err error
		switch c.mp {
		case "ok":
			dir := files.NewSliceDirectory([]files.DirEntry{files.FileEntry("hello.txt", files.NewBytesFile([]byte(addFileContent)))})
			mfr := files.NewMultiFileReader(dir, true)
			req, err = http.NewRequest("POST", u, mfr)
			if err == nil {
				req.Header.Set("Content-Type", "multipart/form-data; boundary="+mfr.Boundary())
			}
		case "junk":
			req, err = http.NewRequest("POST", u, bytes.NewReader([]byte("this is not a multipart body\r\n")))
			if err == nil {
				req.Header.Set("Content-Type", "multipart/form-data; boundary=xyzzy")
			}
		default:
			req, err = http.NewRequest("POST", u, nil)
		}
		if err != nil {
			return "", err
		}
		c.setAuth(req)
		w := &expWindow{from: time.Now(), durs: expireInDurs}
		s.rec.reset(c.rpc, w)
		lastPinCid = cid.Undef
		resetBlocks()
		before := panics.count()
		resp, err := h.hc.Do(req)
		if err != nil {
			time.Sleep(20 * time.Millisecond)
			if panics.count() > before {
				return panicOutcome(s, w), nil // the handler panicked
			}
			lastErr = err
			time.Sleep(50 * time.Millisecond)
			continue
		}
		b, err := ioutil.ReadAll(resp.Body)
		resp.Body.Close()
		if err != nil {
			time.Sleep(20 * time.Millisecond)
			if panics.count() > before {
				return panicOutcome(s, w), nil // panicked after the status line
			}
			lastErr = err
			continue
		}
		w.to = time.Now()
		ops := s.rec.take()
		for i, o := range ops {
			ops[i] = fixExpiry(o, w)
		}
		tr := "0"
		if resp.Trailer.Get("X-Stream-Error") != "" {
			tr = "1"
		}
		root := "-"
		if lastPinCid.Defined() {
			root = rootDesc(lastPinCid) + "." + leafTok() // + the leaf form of the blocks put
		}
		return fmt.Sprintf("st=%d body=%s tr=%s root=%s ops=%s", resp.StatusCode, bodyShape(b), tr, root, opsTok(collapse(ops))), nil
	}
	return "", lastErr
}

func panicOutcome(s *server, w *expWindow) string {
	w.to = time.Now()
	ops := s.rec.take()
	for i, o := range ops {
		ops[i] = fixExpiry(o, w)
	}
	return fmt.Sprintf("st=0 body=d0 tr=0 root=- ops=%s", opsTok(collapse(ops)))
}

// collapse folds runs of IPFSConnector.BlockPut into one entry (how many blocks a file makes is the
// adder's business, C13).
func collapse(ops []string) []string {
	var out []string
	for _, o := range ops {
		if strings.HasPrefix(o, "IPFSConnector.BlockPut@") {
			if len(out) > 0 && strings.HasPrefix(out[len(out)-1], "IPFSConnector.BlockPut@") {
				continue
			}
			o = "IPFSConnector.BlockPut@blk@-"
		}
		if len(out) > 0 && out[len(out)-1] == o && strings.HasPrefix(o, "Cluster.BlockAllocate@") {
			continue // the dag service asks again for every node while the allocation keeps failing
		}
		out = append(out, o)
	}
	return out
}

var _ = api.DefaultShardSize

// ---- generation ----

var addBoolKeys = []string{"local", "recursive", "hidden", "wrap-with-directory", "progress", "raw-leaves", "stream-channels", "nocopy", "shard"}

func addOptValue(r *common.Rng, key string, invalid bool) qparam {
	if invalid {
		return qparam{key: key, class: 'i', val: strconv.Itoa(r.Intn(3))}
	}
	q := qparam{key: key, class: 'v'}
	switch key {
	case "layout":
		q.val = []string{"trickle", "balanced"}[r.Intn(2)]
	case "format":
		q.val = []string{"unixfs", "unixfs", "car"}[r.Intn(3)]
	case "chunker":
		q.val = []string{"size-262144", "size-10", "size-1000"}[r.Intn(3)]
	case "hash":
		q.val = []string{"sha2-256", "sha2-256", "sha3-512", "blake2b-256"}[r.Intn(4)]
	case "cid-version":
		q.val = []string{"0", "1", "1"}[r.Intn(3)]
	case "shard":
		q.val = "false" // sharded adds are C13's subject
	case "nocopy":
		q.val = []string{"false", "false", "true"}[r.Intn(3)]
	default:
		q.val = []string{"true", "false"}[r.Intn(2)]
	}
	return q
}

var addKeys = append([]string{"layout", "format", "chunker", "hash", "cid-version"}, addBoolKeys...)

func genAdd(r *common.Rng) addCase {
	c := addCase{mp: "ok"}
	c.method, c.segs, c.body, c.rpc = "POST", []string{"add"}, "-", "ok"
	c.creds = credsFor(r, 1, 4)
	c.sv = svFor(r)
	c.auth = authFor(r, c.creds)
	if r.Chance(1, 6) {
		c.rpc = "err"
	}
	switch weighted(r, 12, 1, 1) {
	case 1:
		c.mp = "none"
	case 2:
		c.mp = "junk"
	}
	for _, k := range pinOptKeys {
		if !r.Chance(18, 100) {
			continue
		}
		switch {
		case r.Chance(1, 12):
			c.query = append(c.query, qparam{key: k, class: 'e'})
		case r.Chance(1, 9) && k != "name":
			c.query = append(c.query, optValue(r, k, true))
		default:
			c.query = append(c.query, optValue(r, k, false))
		}
	}
	for _, k := range addKeys {
		if !r.Chance(15, 100) {
			continue
		}
		switch {
		case r.Chance(1, 12):
			c.query = append(c.query, qparam{key: k, class: 'e'})
		case r.Chance(1, 40):
			c.query = append(c.query, qparam{key: k, class: 'g'})
		case r.Chance(1, 8):
			c.query = append(c.query, addOptValue(r, k, true))
		default:
			c.query = append(c.query, addOptValue(r, k, false))
		}
	}
	if r.Chance(1, 4) {
		// the CID-builder options as a group (each absent or explicit), replacing what was drawn for them above
		var q []qparam
		for _, p := range c.query {
			if p.key != "hash" && p.key != "cid-version" && p.key != "raw-leaves" {
				q = append(q, p)
			}
		}
		if hf := []string{"", "sha2-256", "sha3-512", "blake2b-256", "sha3-512"}[r.Intn(5)]; hf != "" {
			q = append(q, qparam{key: "hash", class: 'v', val: hf})
		}
		if cv := []string{"", "", "0", "1"}[r.Intn(4)]; cv != "" {
			q = append(q, qparam{key: "cid-version", class: 'v', val: cv})
		}
		if rl := []string{"", "false", "false", "true"}[r.Intn(4)]; rl != "" {
			q = append(q, qparam{key: "raw-leaves", class: 'v', val: rl})
		}
		c.query = q
	}
	if r.Chance(1, 5) {
		for i := r.Range(1, 2); i > 0; i-- {
			c.meta = append(c.meta, [2]int{r.Intn(metaKeyU), r.Intn(metaValU)})
		}
	}
	return c
}

func sysAdd() []addCase {
	var out []addCase
	r := common.NewRng(13)
	mk := func(cr int, au, mp, rpc string, q ...qparam) addCase {
		c := addCase{mp: mp}
		c.creds, c.auth, c.method, c.segs, c.body, c.rpc, c.query = cr, au, "POST", []string{"add"}, "-", rpc, q
		return c
	}
	for _, mp := range []string{"ok", "none", "junk"} {
		out = append(out, mk(0, "n", mp, "ok"), mk(0, "b.nobody.e", mp, "ok"))
		for cr := 1; cr <= 2; cr++ {
			for _, au := range authGrid {
				out = append(out, mk(cr, au, mp, "ok"))
				out = append(out, mk(cr, au, mp, "ok", qparam{key: "stream-channels", class: 'v', val: "false"}))
			}
		}
	}
	out = append(out, mk(0, "n", "ok", "err"), mk(0, "n", "ok", "err", qparam{key: "stream-channels", class: 'v', val: "false"}))
	for _, k := range addKeys {
		vals := []qparam{{key: k, class: 'e'}, {key: k, class: 'i', val: "0"}, {key: k, class: 'i', val: "1"}, {key: k, class: 'i', val: "2"}}
		switch k {
		case "layout":
			vals = append(vals, qparam{key: k, class: 'v', val: "trickle"}, qparam{key: k, class: 'v', val: "balanced"})
		case "format":
			vals = append(vals, qparam{key: k, class: 'v', val: "unixfs"}, qparam{key: k, class: 'v', val: "car"})
		case "chunker":
			vals = append(vals, qparam{key: k, class: 'v', val: "size-262144"}, qparam{key: k, class: 'v', val: "size-10"})
		case "hash":
			vals = append(vals, qparam{key: k, class: 'v', val: "sha2-256"}, qparam{key: k, class: 'v', val: "sha3-512"})
		case "cid-version":
			vals = append(vals, qparam{key: k, class: 'v', val: "0"}, qparam{key: k, class: 'v', val: "1"})
		case "shard":
			vals = append(vals, qparam{key: k, class: 'v', val: "false"})
		default:
			vals = append(vals, qparam{key: k, class: 'v', val: "true"}, qparam{key: k, class: 'v', val: "false"})
		}
		for _, v := range vals {
			out = append(out, mk(0, "n", "ok", "ok", v))
			out = append(out, mk(0, "n", "ok", "ok", v, qparam{key: "stream-channels", class: 'v', val: "false"}))
			out = append(out, mk(1, "b.nobody.p0", "ok", "ok", v))
		}
	}
	for _, k := range pinOptKeys {
		for _, inv := range []bool{false, true} {
			if inv && k == "name" {
				continue
			}
			out = append(out, mk(0, "n", "ok", "ok", optValue(r, k, inv)))
			out = append(out, mk(0, "n", "ok", "ok", optValue(r, k, inv), qparam{key: "stream-channels", class: 'v', val: "false"}))
		}
	}
	out = append(out, mk(0, "n", "ok", "ok", qparam{key: "hash", class: 'v', val: "sha3-512"}, qparam{key: "cid-version", class: 'v', val: "1"}))
	out = append(out, mk(0, "n", "ok", "ok", qparam{key: "cid-version", class: 'v', val: "1"}, qparam{key: "raw-leaves", class: 'v', val: "false"}))
	out = append(out, mk(0, "n", "ok", "ok", qparam{key: "cid-version", class: 'v', val: "1"}, qparam{key: "wrap-with-directory", class: 'v', val: "true"}))
	out = append(out, mk(0, "n", "ok", "ok", qparam{key: "cid-version", class: 'v', val: "1"}, qparam{key: "chunker", class: 'v', val: "size-10"}))
	c := mk(0, "n", "ok", "ok", qparam{key: "name", class: 'v', val: "7"}, qparam{key: "replication-min", class: 'v', val: "1"},
		qparam{key: "replication-max", class: 'v', val: "2"}, qparam{key: "user-allocations", class: 'v', val: "1,2"},
		qparam{key: "expire-in", class: 'v', val: "1"}, qparam{key: "origins", class: 'v', val: "1"}, qparam{key: "shard-size", class: 'v', val: "1024"})
	c.meta = [][2]int{{1, 2}, {7, 7}}
	out = append(out, c)
	// the CID-builder options together: hash function x cid-version absent / 0 / 1 x raw-leaves absent / false / true
	// (a derived default - version 1 for another hash function, raw leaves for version 1 - must never override
	// a value the request carries by name), streamed and buffered, then with the options that change the DAG shape
	v := func(k, val string) qparam { return qparam{key: k, class: 'v', val: val} }
	for _, hf := range []string{"", "sha2-256", "sha3-512", "blake2b-256"} {
		for _, cv := range []string{"", "0", "1"} {
			for _, rl := range []string{"", "false", "true"} {
				var q []qparam
				if rl != "" {
					q = append(q, v("raw-leaves", rl))
				}
				if hf != "" {
					q = append(q, v("hash", hf))
				}
				if cv != "" {
					q = append(q, v("cid-version", cv))
				}
				out = append(out, mk(0, "n", "ok", "ok", q...))
				out = append(out, mk(0, "n", "ok", "ok", append(append([]qparam{}, q...), v("stream-channels", "false"))...))
				if rl != "" && cv != "0" {
					for _, extra := range []qparam{v("wrap-with-directory", "true"), v("chunker", "size-10"), v("layout", "trickle"), v("progress", "true"), {key: "cid-version", class: 'e'}} {
						if extra.key == "cid-version" && cv != "" {
							continue
						}
						out = append(out, mk(0, "n", "ok", "ok", append(append([]qparam{}, q...), extra)...))
					}
				}
			}
		}
	}
	for _, sv := range allSv[1:] {
		for _, st := range []struct {
			cr int
			au string
		}{{0, "n"}, {1, "n"}, {1, "b.u0.p0"}, {1, "b.e.e"}, {2, "b.u1.p1"}} {
			for _, mp := range []string{"ok", "junk"} {
				c := mk(st.cr, st.au, mp, "ok")
				c.sv = sv
				out = append(out, c)
			}
		}
	}
	return out
}
