// C11 harness: the real rest.API (NewAPI on a loopback HTTP listener) over
// recording RPC services; suites "routes" (raw HTTP requests, server.go) and
// "client" (the bundled api/rest/client against the same server, client.go).
package main

import (
	"bufio"
	"fmt"
	"os"
	"os/exec"
	"strings"

	"verifharness/common"
)

func runLine(h *harness, out *common.Out, fields []string) {
	if len(fields) == 0 {
		return
	}
	switch fields[0] {
	case "req":
		c, err := parseReqCase(fields[1:])
		if err != nil {
			out.Line("# bad corpus line (%v): %s", err, strings.Join(fields, " "))
			return
		}
		emitReq(h, out, c)
	case "add":
		c, err := parseAddCase(fields[1:])
		if err != nil {
			out.Line("# bad corpus line (%v): %s", err, strings.Join(fields, " "))
			return
		}
		emitAdd(h, out, c)
	case "addp":
		c, err := parseAddCase(fields[1:])
		if err != nil {
			out.Line("# bad corpus line (%v): %s", err, strings.Join(fields, " "))
			return
		}
		out.Line("C11 %s => ap=%s", c.parseTokens(), apTok(c.rawQuery()))
	case "cli":
		c, err := parseCliCase(fields[1:])
		if err != nil {
			out.Line("# bad corpus line (%v): %s", err, strings.Join(fields, " "))
			return
		}
		emitCli(h, out, c)
	default:
		out.Line("# unknown case kind %s", fields[0])
	}
}

func emitAdd(h *harness, out *common.Out, c addCase) {
	var res string
	func() {
		defer func() {
			if p := recover(); p != nil {
				res = fmt.Sprintf("st=0 body=d0 tr=0 root=- ops=panic:%v", strings.ReplaceAll(fmt.Sprint(p), " ", "_"))
			}
		}()
		r, err := h.execAdd(c)
		if err != nil {
			out.Line("# inconclusive %s (%s)", c.inputTokens(), strings.ReplaceAll(err.Error(), "\n", " "))
			return
		}
		res = r
	}()
	if res != "" {
		out.Line("C11 %s => %s", c.inputTokens(), res)
	}
	out.Line("C11 %s => ap=%s", c.parseTokens(), apTok(c.rawQuery()))
}

// crashProbe (not part of the check): how often does `POST /add?hash=sha3-512&progress=true` kill the
// process?  Each round is a child process that is sent the request 10 times.  (Before fix 6355d34: 9 of 20
// children died - the handler panicked building a CIDv0 with another hash and the output goroutine touched the
// torn-down response writer; after it: none.)
func crashProbe() {
	self, _ := os.Executable()
	line := strings.Repeat("add cr=0 au=n mp=ok q=hash:v.sha3-512;progress:v.true md=- rpc=ok\n", 10)
	died := 0
	rounds := 20
	for i := 0; i < rounds; i++ {
		cmd := exec.Command(self, "-suite", "add", "-stdin", "1")
		cmd.Stdin = strings.NewReader(line)
		cmd.Env = append(os.Environ(), "GOLOG_LOG_LEVEL=fatal")
		if err := cmd.Run(); err != nil {
			died++
		}
	}
	fmt.Printf("# crashprobe: %d of %d child processes died\n", died, rounds)
}

var theClients *clients

func emitCli(h *harness, out *common.Out, c cliCase) {
	if theClients == nil {
		theClients = newClients(h)
	}
	var res string
	func() {
		defer func() {
			if p := recover(); p != nil {
				res = fmt.Sprintf("ops=panic:%v ret=differ", strings.ReplaceAll(fmt.Sprint(p), " ", "_"))
			}
		}()
		var err error
		for attempt := 0; attempt < 3; attempt++ {
			res, err = theClients.exec(c)
			if err == nil {
				return
			}
		}
		res = ""
		out.Line("# inconclusive %s (%s)", c.inputTokens(false), strings.ReplaceAll(err.Error(), "\n", " "))
	}()
	if res != "" {
		out.Line("C11 %s => %s", c.inputTokens(true), res)
	}
}

func emitReq(h *harness, out *common.Out, c reqCase) {
	var res string
	func() {
		defer func() {
			if p := recover(); p != nil {
				res = fmt.Sprintf("st=0 body=d0 ops=panic:%v", strings.ReplaceAll(fmt.Sprint(p), " ", "_"))
			}
		}()
		r, err := h.exec(c)
		if err != nil {
			res = ""
			out.Line("# inconclusive %s (%s)", c.inputTokens(false), strings.ReplaceAll(err.Error(), "\n", " "))
			return
		}
		res = r
	}()
	if res != "" {
		out.Line("C11 %s => %s", c.inputTokens(true), res)
	}
}

func main() {
	args := common.ParseArgs()
	suite := args.Extra["suite"]
	if suite == "" {
		suite = "routes"
	}
	out := common.NewOut()
	defer out.Flush()
	if suite == "crashprobe" {
		crashProbe()
		return
	}
	h := newHarness()

	if args.Extra["stdin"] == "1" {
		sc := bufio.NewScanner(os.Stdin)
		sc.Buffer(make([]byte, 1<<20), 1<<20)
		for sc.Scan() {
			line := strings.TrimSpace(sc.Text())
			if line == "" || strings.HasPrefix(line, "#") {
				continue
			}
			f := strings.Fields(line)
			if f[0] == "C11" {
				f = f[1:]
			}
			for i, t := range f {
				if t == "=>" {
					f = f[:i]
					break
				}
			}
			runLine(h, out, f)
		}
		return
	}

	n := args.N
	if n < 0 {
		n = 500
	}
	base := common.NewRng(common.Seed())
	switch suite {
	case "routes":
		sys := sysCases()
		total := len(sys) + n
		for k := 0; k < total; k++ {
			if args.Only >= 0 && k != args.Only {
				continue
			}
			if k < len(sys) {
				emitReq(h, out, sys[k])
			} else {
				emitReq(h, out, genReq(base.Fork(uint64(k))))
			}
		}
	case "add":
		sys := sysAdd()
		total := len(sys) + n
		for k := 0; k < total; k++ {
			if args.Only >= 0 && k != args.Only {
				continue
			}
			if k < len(sys) {
				emitAdd(h, out, sys[k])
			} else {
				emitAdd(h, out, genAdd(base.Fork(uint64(k))))
			}
		}
	case "client":
		sys := sysCli()
		total := len(sys) + n
		for k := 0; k < total; k++ {
			if args.Only >= 0 && k != args.Only {
				continue
			}
			if k < len(sys) {
				emitCli(h, out, sys[k])
			} else {
				r := base.Fork(uint64(k))
				emitCli(h, out, genCli(r, cliCalls[r.Intn(len(cliCalls))]))
			}
		}
	default:
		fmt.Fprintln(os.Stderr, "unknown suite", suite)
		os.Exit(2)
	}
}
