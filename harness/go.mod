module verifharness

go 1.16

require (
	github.com/hashicorp/raft v1.1.1
	github.com/hashicorp/raft-boltdb v0.0.0-20190605210249-ef2e128ed477
	github.com/ipfs/go-block-format v0.0.3
	github.com/ipfs/go-cid v0.0.7
	github.com/ipfs/go-datastore v0.4.5
	github.com/ipfs/go-ds-crdt v0.1.21
	github.com/ipfs/go-ipfs-chunker v0.0.5
	github.com/ipfs/go-ipfs-cmds v0.6.0
	github.com/ipfs/go-ipfs-ds-help v1.0.0
	github.com/ipfs/go-ipfs-files v0.0.8
	github.com/ipfs/go-ipld-cbor v0.0.5
	github.com/ipfs/go-ipld-format v0.2.0
	github.com/ipfs/go-ipns v0.1.0
	github.com/ipfs/go-log/v2 v2.2.0
	github.com/ipfs/go-merkledag v0.3.2
	github.com/ipfs/go-path v0.0.9
	github.com/ipfs/go-unixfs v0.2.6
	github.com/ipfs/ipfs-cluster v0.0.0
	github.com/ipld/go-car v0.3.1
	github.com/libp2p/go-libp2p v0.14.3
	github.com/libp2p/go-libp2p-core v0.8.5
	github.com/libp2p/go-libp2p-gorpc v0.1.3
	github.com/libp2p/go-libp2p-http v0.2.1
	github.com/libp2p/go-libp2p-kad-dht v0.12.2
	github.com/libp2p/go-libp2p-pubsub v0.4.1
	github.com/libp2p/go-libp2p-raft v0.1.7
	github.com/libp2p/go-libp2p-record v0.1.3
	github.com/multiformats/go-multiaddr v0.3.3
	github.com/multiformats/go-multiaddr-dns v0.3.1
	github.com/multiformats/go-multibase v0.0.3
	github.com/multiformats/go-multihash v0.0.15
	github.com/ugorji/go/codec v1.2.6
	go.opencensus.io v0.23.0
	google.golang.org/protobuf v1.27.1
)

replace github.com/ipfs/ipfs-cluster => /repo
