module verifharness

go 1.16

require (
	github.com/ipfs/go-cid v0.0.7
	github.com/ipfs/go-ipld-cbor v0.0.5
	github.com/ipfs/ipfs-cluster v0.0.0
	github.com/libp2p/go-libp2p v0.14.3
	github.com/libp2p/go-libp2p-core v0.8.5
	github.com/libp2p/go-libp2p-gorpc v0.1.3
	github.com/libp2p/go-libp2p-kad-dht v0.12.2
	github.com/multiformats/go-multiaddr v0.3.3
	github.com/multiformats/go-multihash v0.0.15
)

replace github.com/ipfs/ipfs-cluster => /repo
