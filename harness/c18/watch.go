package main

// Round 8b. Soak `watch`: the real metrics.Checker — Watch (ticker loop -> CheckPeers / CheckAll -> alert: map update and
// NON-blocking send on the alert channel inside failedPeersMu) against direct CheckAll / CheckPeers / FailedMetric callers,
// metrics arriving and expiring, a slow consumer of Alerts() that leaves when the context is cancelled — the run-time
// counterpart of the model `progW` (Model/C18SyncProgs2.lean, checker_watch_safe). The alert channel has capacity 2
// (metrics.AlertChannelCap is a package variable) so that the full-channel arm of alert is taken all the time.
// One generation = one Checker: start, use, cancel the context WHILE in use; Watch must return, later calls must return.

import (
	"context"
	"fmt"
	"sync/atomic"
	"time"

	"github.com/ipfs/ipfs-cluster/monitor/metrics"

	peer "github.com/libp2p/go-libp2p-core/peer"

	"verifharness/common"
)

func soakWatch(secs int) {
	s := newSoak("watch")
	metrics.AlertChannelCap = 2
	const nPeers = 4
	peers := make([]peer.ID, nPeers)
	known := map[peer.ID]bool{}
	for i := range peers {
		peers[i] = common.PeerN(i + 1)
		known[peers[i]] = true
	}
	var gen uint64
	var alerts, full int64
	s.spawn("gen", 1, func(_ int, r *common.Rng) {
		g := atomic.AddUint64(&gen, 1)
		ctx, cancel := context.WithCancel(context.Background())
		store := metrics.NewStore()
		checker := metrics.NewChecker(ctx, store, 2.0)
		var seq int64
		for _, p := range peers {
			store.Add(metricN("ping", p, int(atomic.AddInt64(&seq, 1)), time.Millisecond))
		}
		var peersF func(context.Context) ([]peer.ID, error)
		if g%2 == 0 { // the CheckPeers arm of Watch; odd generations: the CheckAll arm
			peersF = func(context.Context) ([]peer.ID, error) { return peers, nil }
		}
		watchDone := make(chan struct{})
		go func() {
			defer close(watchDone)
			checker.Watch(ctx, peersF, 300*time.Microsecond)
		}()
		consumerDone := make(chan struct{})
		cr := common.NewRng(common.Seed()).Fork(g*977 + 5) // the consumer's own generator
		go func() { // Cluster.alertsHandler's select, slow
			defer close(consumerDone)
			for {
				select {
				case a := <-checker.Alerts():
					if a == nil || a.Name != "ping" || !known[a.Peer] {
						s.tornf("alert channel delivered a nil / foreign alert")
					}
					atomic.AddInt64(&alerts, 1)
					time.Sleep(time.Duration(cr.Intn(400)) * time.Microsecond)
				case <-ctx.Done():
					return
				}
			}
		}()
		u := &users{s: s}
		u.start("check", 2, g, func(w int, r *common.Rng) {
			var err error
			if r.Intn(2) == 0 {
				err = checker.CheckAll()
			} else {
				err = checker.CheckPeers(peers)
			}
			if err == metrics.ErrAlertChannelFull {
				atomic.AddInt64(&full, 1)
			} else if err != nil {
				s.tornf("CheckAll / CheckPeers returned %v", err)
			}
			nap(r, 50, 200)
		})
		u.start("feed", 1, g, func(w int, r *common.Rng) { // metrics that expire at once: every peer keeps failing anew
			store.Add(metricN("ping", peers[r.Intn(nPeers)], int(atomic.AddInt64(&seq, 1)), time.Duration(1+r.Intn(300))*time.Microsecond))
			nap(r, 50, 200)
		})
		u.start("failed", 1, g, func(w int, r *common.Rng) {
			checker.FailedMetric("ping", peers[r.Intn(nPeers)])
			if l := store.LatestValid("ping"); len(l) > nPeers {
				s.tornf("LatestValid returned %d metrics for %d peers", len(l), nPeers)
			}
			nap(r, 50, 200)
		})
		time.Sleep(time.Duration(500+r.Intn(4000)) * time.Microsecond)
		cancel() // Shutdown of the monitor: in use
		within("metrics.Checker.Watch did not return after its context was cancelled", func() { <-watchDone })
		within("the alert consumer did not return after the context was cancelled", func() { <-consumerDone })
		u.lateCallsAndJoin("watch", 6) // nobody drains the channel any more: CheckAll must still return (ErrAlertChannelFull)
		nap(r, 500, 1000)
	})
	s.run(secs, nil)
	if atomic.LoadInt64(&alerts) == 0 || atomic.LoadInt64(&full) == 0 {
		// not a property failure: the soak did not exercise what it is for
		fmt.Printf("# inconclusive watch: alerts delivered = %d, full-channel refusals = %d\n", atomic.LoadInt64(&alerts), atomic.LoadInt64(&full))
	}
	s.finish()
}
