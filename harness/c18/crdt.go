package main

// CRDT batching queue: LogPin / LogUnpin from many goroutines against the
// batch worker of a real crdt.Consensus (real libp2p host on loopback, real
// go-ds-crdt over an in-memory datastore), readers listing the state, and a
// Shutdown while callers are still logging.

import (
	"context"
	crand "crypto/rand"
	"fmt"
	"sync"
	"sync/atomic"
	"time"

	"github.com/ipfs/ipfs-cluster/api"
	"github.com/ipfs/ipfs-cluster/consensus/crdt"
	"github.com/ipfs/ipfs-cluster/datastore/inmem"

	cid "github.com/ipfs/go-cid"
	ipns "github.com/ipfs/go-ipns"
	libp2p "github.com/libp2p/go-libp2p"
	crypto "github.com/libp2p/go-libp2p-core/crypto"
	dht "github.com/libp2p/go-libp2p-kad-dht"
	dual "github.com/libp2p/go-libp2p-kad-dht/dual"
	pubsub "github.com/libp2p/go-libp2p-pubsub"
	record "github.com/libp2p/go-libp2p-record"
	routedhost "github.com/libp2p/go-libp2p/p2p/host/routed"

	"verifharness/common"
)

// crdtNode is a real crdt.Consensus over a libp2p host on loopback, go-ds-crdt over an
// in-memory datastore and batching enabled; close() releases what buildCRDT created.
type crdtNode struct {
	cc    *crdt.Consensus
	close func()
}

func buildCRDT(ctx context.Context, namespace string, queue int) (*crdtNode, error) {
	// an Ed25519 identity: pubsub signs every broadcast, RSA signing under -race is very slow
	priv, _, err := crypto.GenerateEd25519Key(crand.Reader)
	if err != nil {
		return nil, fmt.Errorf("cannot generate a key: %v", err)
	}
	ctx, cancel := context.WithCancel(ctx)
	h, err := libp2p.New(ctx, libp2p.Identity(priv), libp2p.ListenAddrStrings("/ip4/127.0.0.1/tcp/0"))
	if err != nil {
		cancel()
		return nil, fmt.Errorf("cannot create a libp2p host: %v", err)
	}
	psub, err := pubsub.NewGossipSub(ctx, h, pubsub.WithMessageSigning(true), pubsub.WithStrictSignatureVerification(true))
	if err != nil {
		h.Close()
		cancel()
		return nil, fmt.Errorf("cannot create pubsub: %v", err)
	}
	idht, err := dual.New(ctx, h,
		dual.DHTOption(dht.NamespacedValidator("pk", record.PublicKeyValidator{})),
		dual.DHTOption(dht.NamespacedValidator("ipns", ipns.Validator{KeyBook: h.Peerstore()})),
		dual.DHTOption(dht.Concurrency(10)),
	)
	if err != nil {
		h.Close()
		cancel()
		return nil, fmt.Errorf("cannot create dht: %v", err)
	}
	rh := routedhost.Wrap(h, idht)
	store := inmem.New()
	closeAll := func() {
		idht.Close()
		rh.Close()
		store.Close()
		cancel()
	}
	cfg := &crdt.Config{}
	cfg.Default()
	cfg.TrustAll = true
	cfg.DatastoreNamespace = namespace
	cfg.Batching.MaxBatchSize = 40
	cfg.Batching.MaxBatchAge = 30 * time.Millisecond
	cfg.Batching.MaxQueueSize = queue
	cc, err := crdt.New(rh, idht, psub, cfg, store)
	if err != nil {
		closeAll()
		return nil, fmt.Errorf("cannot create the consensus component: %v", err)
	}
	return &crdtNode{cc: cc, close: closeAll}, nil
}

func soakCRDT(secs int) {
	s := newSoak("crdt")
	ctx := context.Background()
	node, err := buildCRDT(ctx, "c18", 4000)
	if err != nil {
		fmt.Println("# inconclusive crdt:", err)
		s.finish()
		return
	}
	defer node.close()
	cc := node.cc
	client, _ := newRPC()
	cc.SetClient(client)
	select {
	case <-cc.Ready(ctx):
	case <-time.After(60 * time.Second):
		dumpAndExit("crdt consensus did not become ready")
	}

	const writers = 6
	const per = 8 // cids per writer: each cid has exactly one writer, so its last accepted operation is known
	cids := make([]cid.Cid, writers*per)
	for i := range cids {
		cids[i] = common.CidN(i)
	}
	last := make([]int32, len(cids)) // 0 never, 1 pinned, 2 unpinned (last ACCEPTED operation)
	var phase int32                  // 0 logging (recorded), 1 paused, 2 logging (not recorded)
	// go-ds-crdt over the in-memory map datastore answers every prefix query by scanning the whole
	// store, which grows with every logged operation: an unbounded soak only measures that. The
	// number of logged operations is therefore capped; the interleavings of LogPin/LogUnpin, batch
	// worker, listers and Shutdown are exercised all the same.
	budget := int64(25000)
	if secs > 60 {
		budget = 60000
	}
	var logged int64
	s.spawn("log", writers, func(w int, r *common.Rng) {
		ph := atomic.LoadInt32(&phase)
		if ph == 1 || atomic.LoadInt64(&logged) > budget {
			time.Sleep(time.Millisecond)
			return
		}
		atomic.AddInt64(&logged, 1)
		i := w*per + r.Intn(per)
		p := api.PinCid(cids[i])
		p.ReplicationFactorMin, p.ReplicationFactorMax = -1, -1
		if r.Intn(3) > 0 {
			if err := cc.LogPin(ctx, p); err == nil && ph == 0 {
				atomic.StoreInt32(&last[i], 1)
			}
		} else {
			if err := cc.LogUnpin(ctx, p); err == nil && ph == 0 {
				atomic.StoreInt32(&last[i], 2)
			}
		}
		time.Sleep(time.Duration(100+r.Intn(900)) * time.Microsecond)
	})
	sentinelCid := common.CidN(len(cids) + 1)
	listIDs := func() ([]int, error) {
		st, err := cc.State(ctx)
		if err != nil {
			return nil, err
		}
		pins, err := st.List(ctx)
		if err != nil {
			return nil, err
		}
		var ids []int
		for _, p := range pins {
			if p == nil {
				ids = append(ids, 0)
				continue
			}
			if p.Cid.Equals(sentinelCid) {
				continue // the drain marker of the quiescent point
			}
			ids = append(ids, common.CidIndex(p.Cid, len(cids))+1)
		}
		return ids, nil
	}
	s.spawn("list", 2, func(w int, r *common.Rng) {
		ids, err := listIDs()
		if err != nil {
			time.Sleep(time.Millisecond)
			return // after shutdown
		}
		e, d := listProblems(ids)
		if e > 0 || d > 0 {
			s.tornf("state listing with %d empty and %d repeated entries", e, d)
		}
		s.sample("crdtstate", "C18 idlist crdtstate => "+runs(descSorted(ids)), e > 0 || d > 0)
		time.Sleep(time.Duration(2000+r.Intn(6000)) * time.Microsecond)
	})

	// controller: log (recorded) for 55% of the time; pause the writers, let queue and batch
	// drain and compare the state with the last accepted operation of every cid; resume logging
	// and shut the component down (twice, concurrently) while writers and listers are active.
	total := time.Duration(secs) * time.Second
	ctlDone := make(chan struct{})
	go func() {
		defer close(ctlDone)
		time.Sleep(total * 55 / 100)
		atomic.StoreInt32(&phase, 1)
		time.Sleep(100 * time.Millisecond) // calls in flight return
		// the queue is FIFO: once a sentinel logged now is visible, everything accepted before it
		// has been applied and committed
		sentinel := api.PinCid(sentinelCid)
		sentinel.ReplicationFactorMin, sentinel.ReplicationFactorMax = -1, -1
		drained := false
		deadline := time.Now().Add(40 * time.Second)
		logged := false
		for time.Now().Before(deadline) && !drained {
			if !logged {
				logged = cc.LogPin(ctx, sentinel) == nil
			}
			if st, err := cc.State(ctx); err == nil && logged {
				if ok, _ := st.Has(ctx, sentinel.Cid); ok {
					drained = true
				}
			}
			time.Sleep(5 * time.Millisecond)
		}
		if !drained {
			fmt.Println("# inconclusive crdt: the batch queue did not drain within 40s at the quiescent point")
			atomic.StoreInt32(&phase, 2)
			time.Sleep(total * 20 / 100)
			cc.Shutdown(ctx)
			return
		}
		ids, err := listIDs()
		if err != nil {
			s.tornf("state not readable at the quiescent point")
		} else {
			in := map[int]bool{}
			for _, v := range ids {
				in[v] = true
			}
			for i := range cids {
				switch atomic.LoadInt32(&last[i]) {
				case 1:
					if !in[i+1] {
						s.tornf("cid %d: last accepted operation was LogPin, not in the state after the queue drained", i)
					}
				case 2:
					if in[i+1] {
						s.tornf("cid %d: last accepted operation was LogUnpin, still in the state after the queue drained", i)
					}
				}
			}
		}
		atomic.StoreInt32(&phase, 2)
		time.Sleep(total * 20 / 100)
		var wg sync.WaitGroup
		for i := 0; i < 2; i++ {
			wg.Add(1)
			go func() { defer wg.Done(); cc.Shutdown(ctx) }()
		}
		wg.Wait()
	}()
	s.run(secs, nil)
	select {
	case <-ctlDone:
	case <-time.After(60 * time.Second):
		dumpAndExit("crdt Consensus.Shutdown did not return")
	}
	s.finish()
}
