// C18 harness: runtime oracle for "concurrent use of the API never races,
// panics, deadlocks or tears results". Built with -race.
//
// The process started by ./check is a SUPERVISOR: it starts one child process
// (this same binary, `-child <structure>`) per structure, all in parallel. A
// child hammers the REAL code of one structure from several goroutines for a
// number of seconds, checks every returned value structurally, and prints
//
//   C18 alerts max=1000 => <ids>          one list returned by Cluster.Alerts() (sample)
//   C18 window cap=25 => <ids>            one list returned by Window.All() (sample)
//   C18 idlist <what> => <ids>            another returned list that must have one entry per key (sample)
//   C18 soak <structure> => ops=N torn=T panics=P stalled=S races=R
//
// <ids>: identifiers most-recent/largest first, runs `hi-lo` compressed, 0 = a
// zero-valued / nil entry, "-" = empty list. The Lean driver evaluates the
// property clauses on them and compares alerts/window lists with the model.
//
// The race detector (GORACE=halt_on_error=1 exitcode=66, set by ./check) kills
// a child on the first data race (exit 66); an unrecovered panic / fatal error
// ("concurrent map writes") exits 2; the child's own watchdog dumps all
// goroutines and exits 3 when some goroutine group stops making progress. The
// supervisor turns these into the summary line of that structure (races=1 /
// panics=1 / stalled=1) and copies the report to stderr, which is the replay.
//
// Flags: -n <seconds per structure> (default by tier), -tier, -stdin 1 (read
// input parts of case lines and re-run the structures they name).
package main

import (
	"bufio"
	"bytes"
	"context"
	"errors"
	"fmt"
	"os"
	"os/exec"
	"runtime"
	"runtime/pprof"
	"sort"
	"strconv"
	"strings"
	"sync"
	"sync/atomic"
	"time"

	ipfscluster "github.com/ipfs/ipfs-cluster"
	"github.com/ipfs/ipfs-cluster/api"
	"github.com/ipfs/ipfs-cluster/informer/disk"
	"github.com/ipfs/ipfs-cluster/informer/numpin"
	"github.com/ipfs/ipfs-cluster/monitor/metrics"
	"github.com/ipfs/ipfs-cluster/pintracker/optracker"
	"github.com/ipfs/ipfs-cluster/pintracker/stateless"
	"github.com/ipfs/ipfs-cluster/state"
	"github.com/ipfs/ipfs-cluster/state/dsstate"
	"github.com/ipfs/ipfs-cluster/datastore/inmem"

	cid "github.com/ipfs/go-cid"
	peer "github.com/libp2p/go-libp2p-core/peer"
	rpc "github.com/libp2p/go-libp2p-gorpc"

	"verifharness/common"
)

// ------------------------------------------------------------------ supervisor

var allStructures = []string{"alerts", "window", "metrics", "optracker", "stateless", "informers", "crdt", "trackerlife", "crdtlife", "clusterlife", "clusterearly", "watch"}

// clusterearly (Cluster.Shutdown racing ready()) deadlocked before /repo 87856f0 (finding K18b, fixed): since the fix it runs in
// every tier — it is the run-time oracle that catches a revert of that commit (stalled=1, goroutine dump in the report).
func structuresFor(tier string) []string {
	return allStructures
}

type childResult struct {
	name   string
	lines  []string
	stderr string
	code   int
}

func runChildProc(name string, secs int, tier string) childResult {
	cmd := exec.Command(os.Args[0], "-child", name, "-n", strconv.Itoa(secs), "-tier", tier)
	var out, errb bytes.Buffer
	cmd.Stdout = &out
	cmd.Stderr = &errb
	cmd.Env = os.Environ()
	err := cmd.Run()
	code := 0
	if err != nil {
		code = -1
		var ee *exec.ExitError
		if errors.As(err, &ee) {
			code = ee.ExitCode()
		}
	}
	var lines []string
	for _, l := range strings.Split(out.String(), "\n") {
		if strings.HasPrefix(l, "C18 ") || strings.HasPrefix(l, "#") {
			lines = append(lines, l)
		}
	}
	return childResult{name, lines, errb.String(), code}
}

func tail(s string, n int) string {
	if len(s) > n {
		return s[len(s)-n:]
	}
	return s
}

func supervise(names []string, secs int, tier string) {
	if dir := os.Getenv("VERIF_SCRATCH"); dir != "" {
		for _, n := range allStructures {
			os.Remove(dir + "/" + n + ".report.txt") // reports of earlier runs
		}
	}
	res := make([]childResult, len(names))
	var wg sync.WaitGroup
	for i, n := range names {
		wg.Add(1)
		go func(i int, n string) {
			defer wg.Done()
			r := runChildProc(n, secs, tier)
			if r.code == 3 || (r.code != 0 && r.code != 66 && strings.Contains(r.stderr, "all goroutines are asleep")) {
				// a stall may be the machine, not the code: run again before reporting
				r2 := runChildProc(n, secs, tier)
				if r2.code == 0 {
					r2.lines = append(r2.lines, "# inconclusive stall of "+n+" not reproduced on re-run")
					fmt.Fprintf(os.Stderr, "=== %s: first run stalled (exit %d), re-run clean; first report:\n%s\n", n, r.code, tail(r.stderr, 20000))
					r = r2
				} else {
					r = r2
				}
			}
			res[i] = r
		}(i, n)
	}
	wg.Wait()
	w := bufio.NewWriter(os.Stdout)
	defer w.Flush()
	for _, r := range res {
		for _, l := range r.lines {
			// a child that died may have printed a partial summary; never trust one from a failed child
			if r.code != 0 && strings.HasPrefix(l, "C18 soak ") {
				continue
			}
			fmt.Fprintln(w, l)
		}
		if r.code != 0 {
			races, panics, stalled := 0, 0, 0
			switch {
			case r.code == 66 || strings.Contains(r.stderr, "WARNING: DATA RACE"):
				races = 1
			case r.code == 3 || strings.Contains(r.stderr, "all goroutines are asleep"):
				stalled = 1
			default:
				panics = 1
			}
			fmt.Fprintf(w, "C18 soak %s => ops=0 torn=0 panics=%d stalled=%d races=%d\n", r.name, panics, stalled, races)
			if dir := os.Getenv("VERIF_SCRATCH"); dir != "" {
				// the report of the oracle (race report / panic trace / goroutine dump) is the replay's evidence
				rp := dir + "/" + r.name + ".report.txt"
				if os.WriteFile(rp, []byte(tail(r.stderr, 400000)), 0o644) == nil {
					fmt.Fprintf(w, "# report of the runtime oracle for %s: %s\n", r.name, rp)
				}
			}
			fmt.Fprintf(os.Stderr, "=== %s: child exit %d; report:\n%s\n", r.name, r.code, tail(r.stderr, 60000))
		} else if len(r.stderr) > 0 {
			fmt.Fprintf(os.Stderr, "=== %s stderr:\n%s\n", r.name, tail(r.stderr, 4000))
		}
	}
}

func structureOfLine(l string) []string {
	f := strings.Fields(l)
	if len(f) > 0 && f[0] == "C18" {
		f = f[1:]
	}
	if len(f) == 0 {
		return nil
	}
	known := func(s string) bool {
		for _, n := range allStructures {
			if n == s {
				return true
			}
		}
		return false
	}
	switch f[0] {
	case "alerts":
		return []string{"alerts"}
	case "window":
		return []string{"window"}
	case "idlist":
		if len(f) > 1 {
			switch f[1] {
			case "statusall":
				return []string{"stateless", "trackerlife", "clusterlife"}
			case "recoverall":
				return []string{"stateless", "trackerlife"}
			case "getall", "filter":
				return []string{"optracker"}
			case "latestvalid", "peermetricall", "multiwindow":
				return []string{"metrics", "window"}
			case "crdtstate":
				return []string{"crdt", "crdtlife"}
			}
		}
	case "pininfo":
		if len(f) > 1 && (f[1] == "get" || f[1] == "getall" || f[1] == "filter") {
			return []string{"optracker"}
		}
		return []string{"stateless", "optracker", "trackerlife", "clusterlife"}
	case "soak":
		if len(f) > 1 && known(f[1]) {
			return []string{f[1]}
		}
		return allStructures // e.g. the replay of a supervisor failure
	}
	fmt.Println("# skipped malformed input line:", strings.Join(f, " "))
	return nil
}

// ------------------------------------------------------------------ child plumbing

type soak struct {
	name     string
	stop     int32
	ops      int64
	torn     int64
	panics   int64
	mu       sync.Mutex
	tornMsgs map[string]int
	samples  map[string]map[string]bool // kind -> distinct lines
	bad      map[string]bool            // anomalous lines (always printed)
	seen     map[string]int
	groups   []*group
	wg       sync.WaitGroup
	maxSamp  int
}

type group struct {
	name     string
	progress int64
	done     int32
}

func newSoak(name string) *soak {
	return &soak{name: name, tornMsgs: map[string]int{}, samples: map[string]map[string]bool{}, bad: map[string]bool{}, seen: map[string]int{}, maxSamp: 40}
}

func (s *soak) stopped() bool { return atomic.LoadInt32(&s.stop) != 0 }

func (s *soak) tornf(format string, a ...interface{}) {
	atomic.AddInt64(&s.torn, 1)
	msg := fmt.Sprintf(format, a...)
	s.mu.Lock()
	s.tornMsgs[msg]++
	n := len(s.tornMsgs)
	s.mu.Unlock()
	if n <= 20 {
		fmt.Fprintln(os.Stderr, "torn:", msg)
	}
}

// sample records a case line; anomalous ones are always kept.
func (s *soak) sample(kind, line string, anomalous bool) {
	s.mu.Lock()
	defer s.mu.Unlock()
	if anomalous {
		if len(s.bad) < 20 {
			s.bad[line] = true
		}
		return
	}
	m := s.samples[kind]
	if m == nil {
		m = map[string]bool{}
		s.samples[kind] = m
	}
	// the first half of the budget is taken as it comes, the rest at exponentially thinning
	// positions, so that late states of a long run are sampled too
	s.seen[kind]++
	n := s.seen[kind]
	if len(m) < s.maxSamp/2 || (len(m) < s.maxSamp && n&(n-1) == 0) {
		m[line] = true
	}
}

// spawn starts `n` goroutines of a group; f runs one iteration and is called until stop.
func (s *soak) spawn(name string, n int, f func(worker int, r *common.Rng)) {
	for w := 0; w < n; w++ {
		g := &group{name: fmt.Sprintf("%s/%d", name, w)}
		s.groups = append(s.groups, g)
		s.wg.Add(1)
		go func(w int, g *group) {
			defer s.wg.Done()
			defer atomic.StoreInt32(&g.done, 1)
			r := common.NewRng(common.Seed()).Fork(uint64(len(name)*1000 + w*7 + int(name[0])))
			for !s.stopped() {
				func() {
					defer func() {
						if e := recover(); e != nil {
							if atomic.AddInt64(&s.panics, 1) <= 5 {
								buf := make([]byte, 1<<14)
								buf = buf[:runtime.Stack(buf, false)]
								fmt.Fprintf(os.Stderr, "panic in %s: %v\n%s\n", g.name, e, buf)
							}
						}
					}()
					f(w, r)
				}()
				atomic.AddInt64(&g.progress, 1)
				atomic.AddInt64(&s.ops, 1)
			}
		}(w, g)
	}
}

func dumpAndExit(why string) {
	fmt.Fprintf(os.Stderr, "WATCHDOG: %s\n", why)
	pprof.Lookup("goroutine").WriteTo(os.Stderr, 2)
	os.Exit(3)
}

// run lets the groups work for `secs` seconds under a watchdog, then joins them.
func (s *soak) run(secs int, during func(elapsed time.Duration)) {
	// generous: the machine may be shared with other heavy jobs; a stall is re-run by the
	// supervisor before it is reported
	stall := 75 * time.Second
	if secs > 60 {
		stall = 150 * time.Second
	}
	start := time.Now()
	last := make([]int64, len(s.groups))
	lastChange := make([]time.Time, len(s.groups))
	for i := range lastChange {
		lastChange[i] = start
	}
	tick := time.NewTicker(100 * time.Millisecond)
	defer tick.Stop()
	lastReport := start
	for time.Since(start) < time.Duration(secs)*time.Second {
		<-tick.C
		if during != nil {
			during(time.Since(start))
		}
		now := time.Now()
		if os.Getenv("C18_PROGRESS") != "" && now.Sub(lastReport) > 10*time.Second {
			lastReport = now
			var b strings.Builder
			for _, g := range s.groups {
				fmt.Fprintf(&b, " %s=%d", g.name, atomic.LoadInt64(&g.progress))
			}
			fmt.Fprintf(os.Stderr, "progress %3.0fs goroutines=%d:%s\n", now.Sub(start).Seconds(), runtime.NumGoroutine(), b.String())
		}
		for i, g := range s.groups {
			p := atomic.LoadInt64(&g.progress)
			if p != last[i] {
				last[i] = p
				lastChange[i] = now
			} else if now.Sub(lastChange[i]) > stall {
				dumpAndExit(fmt.Sprintf("group %s of %s made no progress for %s", g.name, s.name, stall))
			}
		}
	}
	atomic.StoreInt32(&s.stop, 1)
	joined := make(chan struct{})
	go func() { s.wg.Wait(); close(joined) }()
	select {
	case <-joined:
	case <-time.After(stall):
		var stuck []string
		for _, g := range s.groups {
			if atomic.LoadInt32(&g.done) == 0 {
				stuck = append(stuck, g.name)
			}
		}
		dumpAndExit(fmt.Sprintf("%s: goroutines %v did not finish within %s after stop", s.name, stuck, stall))
	}
}

func (s *soak) finish() {
	w := bufio.NewWriter(os.Stdout)
	var lines []string
	for _, m := range s.samples {
		for l := range m {
			lines = append(lines, l)
		}
	}
	for l := range s.bad {
		lines = append(lines, l)
	}
	sort.Strings(lines)
	for _, l := range lines {
		fmt.Fprintln(w, l)
	}
	fmt.Fprintf(w, "C18 soak %s => ops=%d torn=%d panics=%d stalled=0 races=0\n", s.name,
		atomic.LoadInt64(&s.ops), atomic.LoadInt64(&s.torn), atomic.LoadInt64(&s.panics))
	w.Flush()
	if len(s.tornMsgs) > 0 {
		var ks []string
		for k := range s.tornMsgs {
			ks = append(ks, k)
		}
		sort.Strings(ks)
		for i, k := range ks {
			if i < 30 {
				fmt.Fprintf(os.Stderr, "torn x%d: %s\n", s.tornMsgs[k], k)
			}
		}
	}
}

// runs encodes ids (in the given order) with descending runs compressed.
func runs(ids []int) string {
	if len(ids) == 0 {
		return "-"
	}
	var parts []string
	i := 0
	for i < len(ids) {
		j := i
		for j+1 < len(ids) && ids[j+1] == ids[j]-1 && ids[j+1] > 0 {
			j++
		}
		if j > i {
			parts = append(parts, fmt.Sprintf("%d-%d", ids[i], ids[j]))
		} else {
			parts = append(parts, strconv.Itoa(ids[i]))
		}
		i = j + 1
	}
	return strings.Join(parts, ",")
}

// listProblems: zero entries and duplicates of a list of ids.
func listProblems(ids []int) (empty, dup int) {
	seen := map[int]bool{}
	for _, v := range ids {
		if v == 0 {
			empty++
			continue
		}
		if seen[v] {
			dup++
		}
		seen[v] = true
	}
	return
}

func descSorted(ids []int) []int {
	c := append([]int(nil), ids...)
	sort.Sort(sort.Reverse(sort.IntSlice(c)))
	return c
}

// ------------------------------------------------------------------ alerts

const maxAlerts = 1000 // cluster.go

func lenAfter(k int) int {
	if k == 0 {
		return 0
	}
	return (k-1)%(maxAlerts+1) + 1
}

func soakAlerts(secs int) {
	s := newSoak("alerts")
	ctx, cancel := context.WithCancel(context.Background())
	defer cancel()
	mon := common.NewStoreMonitor()
	cl := ipfscluster.VerifNewCluster(ctx, ipfscluster.VerifComponents{
		ID: common.PeerN(0), Config: &ipfscluster.Config{}, Monitor: mon,
		Consensus: common.NewFakeConsensus(), IPFS: common.NewFakeIPFS(),
	})
	handlerDone := make(chan struct{})
	go func() { cl.VerifAlertsHandler(); close(handlerDone) }()

	var sent int64
	s.spawn("feeder", 1, func(w int, r *common.Rng) {
		k := int(atomic.LoadInt64(&sent)) + 1
		a := &api.Alert{
			Metric:      api.Metric{Name: "freespace", Peer: common.PeerN(k % 8), Value: strconv.Itoa(k), Valid: true},
			TriggeredAt: time.Unix(int64(k), 0),
		}
		// blocks until the handler takes the alert; if it never does, this group stops making
		// progress and the watchdog reports the stall
		for delivered := false; !delivered && !s.stopped(); {
			select {
			case mon.AlertsCh <- a:
				atomic.StoreInt64(&sent, int64(k))
				delivered = true
			case <-time.After(100 * time.Millisecond):
			}
		}
		if k%64 == 0 {
			time.Sleep(time.Duration(100+r.Intn(400)) * time.Microsecond)
		}
		// dwell where the log is reset (len 1000, 1001, then 1 again) so that readers see the boundary
		if m := k % (maxAlerts + 1); m == maxAlerts || m == 0 || m == 1 || m == 2 {
			time.Sleep(time.Duration(200+r.Intn(600)) * time.Microsecond)
		}
	})
	s.spawn("reader", 2+int(common.Seed()%3), func(w int, r *common.Rng) {
		before := int(atomic.LoadInt64(&sent))
		l := cl.Alerts()
		after := int(atomic.LoadInt64(&sent)) + 1 // the feeder may have handed over one more
		ids := make([]int, len(l))
		for i, a := range l {
			if a.Value == "" && a.Name == "" && a.TriggeredAt.IsZero() {
				ids[i] = 0
				continue
			}
			v, err := strconv.Atoi(a.Value)
			if err != nil || v <= 0 || a.TriggeredAt.Unix() != int64(v) || a.Peer != common.PeerN(v%8) {
				s.tornf("alert entry with mixed fields: value=%q ts=%d", a.Value, a.TriggeredAt.Unix())
				ids[i] = 0
				continue
			}
			ids[i] = v
		}
		empty, dup := listProblems(ids)
		anomalous := empty > 0 || dup > 0
		newest := 0
		if len(ids) > 0 {
			newest = ids[0]
		}
		// exact shape: newest, newest-1, … for lenAfter(newest) entries. A list with the right
		// entries in another order is a behaviour change, not a torn result: it is printed and
		// left to the model comparison.
		sorted := descSorted(ids)
		hi := 0
		if len(sorted) > 0 {
			hi = sorted[0]
		}
		want := lenAfter(hi)
		wrongSet := len(ids) != want
		for i, v := range sorted {
			if v != hi-i {
				wrongSet = true
				break
			}
		}
		for i, v := range ids {
			if v != hi-i {
				anomalous = true
			}
		}
		// the list is a state that existed during the call
		if hi < before-1 || hi > after {
			s.tornf("Alerts() returned a list ending at alert %d, but %d..%d had been delivered during the call", hi, before, after)
		}
		if wrongSet || empty > 0 || dup > 0 {
			anomalous = true
			s.tornf("Alerts() returned a list that is no state of the alert log: n=%d newest=%d empty=%d dup=%d", len(ids), newest, empty, dup)
		}
		s.sample("alerts", fmt.Sprintf("C18 alerts max=%d => %s", maxAlerts, runs(ids)), anomalous)
		if r.Intn(4) == 0 {
			runtime.Gosched()
		}
	})
	s.run(secs, nil)
	cancel()
	select {
	case <-handlerDone:
	case <-time.After(30 * time.Second):
		dumpAndExit("alertsHandler did not return after its context was cancelled")
	}
	if n := atomic.LoadInt64(&sent); n < 2*(maxAlerts+1) {
		fmt.Println("# inconclusive alerts: only", n, "alerts delivered, the reset at maxAlerts was not crossed twice")
	}
	s.finish()
}

// ------------------------------------------------------------------ window

func metricN(name string, p peer.ID, seq int, ttl time.Duration) *api.Metric {
	m := &api.Metric{Name: name, Peer: p, Value: strconv.Itoa(seq), Valid: true}
	m.SetTTL(ttl)
	return m
}

func metricIDs(ms []*api.Metric) []int {
	ids := make([]int, len(ms))
	for i, m := range ms {
		if m == nil {
			continue
		}
		v, err := strconv.Atoi(m.Value)
		if err == nil {
			ids[i] = v
		}
	}
	return ids
}

func soakWindow(secs int) {
	s := newSoak("window")
	defCap := metrics.DefaultWindowCap
	// boundary capacities next to the default one; which extra one is seed dependent
	caps := []int{1, 2, defCap, 3 + int(common.Seed()%5)}
	for ci, capN := range caps {
		capN := capN
		w1 := metrics.NewWindow(capN)
		w1.Add(metricN("m", common.PeerN(1), 1, time.Minute)) // Distribution() needs one entry (see notes)
		added := new(int64)
		*added = 1
		s.spawn(fmt.Sprintf("writer%d", ci), 1, func(w int, r *common.Rng) {
			k := int(atomic.LoadInt64(added)) + 1
			w1.Add(metricN("m", common.PeerN(1), k, time.Minute))
			atomic.StoreInt64(added, int64(k))
			if k%32 == 0 {
				time.Sleep(time.Duration(50+r.Intn(200)) * time.Microsecond)
			}
		})
		lastLatest := make([]int, 8)
		s.spawn(fmt.Sprintf("reader%d", ci), 2, func(w int, r *common.Rng) {
			switch r.Intn(3) {
			case 0:
				before := int(atomic.LoadInt64(added))
				ids := metricIDs(w1.All())
				after := int(atomic.LoadInt64(added)) + 1
				sorted := descSorted(ids)
				newest := 0
				if len(sorted) > 0 {
					newest = sorted[0]
				}
				want := newest
				if want > capN {
					want = capN
				}
				wrongSet := len(ids) != want
				for i, v := range sorted {
					if v != newest-i || v == 0 {
						wrongSet = true
					}
				}
				anomalous := wrongSet
				for i, v := range ids {
					if v != newest-i {
						anomalous = true // other order: left to the model comparison
					}
				}
				if newest < before || newest > after {
					s.tornf("Window.All() newest=%d outside what was added during the call (%d..%d)", newest, before, after)
				}
				if wrongSet {
					s.tornf("Window.All() returned no state of the window: cap=%d n=%d newest=%d", capN, len(ids), newest)
				}
				s.sample(fmt.Sprintf("window%d", capN), fmt.Sprintf("C18 window cap=%d => %s", capN, runs(ids)), anomalous)
			case 1:
				m, err := w1.Latest()
				if err != nil || m == nil {
					s.tornf("Window.Latest() empty on a non-empty window")
					return
				}
				v, _ := strconv.Atoi(m.Value)
				if v < lastLatest[w] {
					s.tornf("Window.Latest() went back from %d to %d", lastLatest[w], v)
				}
				lastLatest[w] = v
			default:
				d := w1.Distribution()
				if len(d) > capN-1 && capN > 1 {
					s.tornf("Window.Distribution() returned %d deltas for capacity %d", len(d), capN)
				}
			}
		})
	}
	capN := defCap
	// a second window with several writers (as the stores of a busy peer): entries distinct and non-nil
	w2 := metrics.NewWindow(capN)
	var seq2 int64
	s.spawn("multiwriter", 3, func(w int, r *common.Rng) {
		k := int(atomic.AddInt64(&seq2, 1))
		w2.Add(metricN("m", common.PeerN(2), k, time.Minute))
		if k%16 == 0 {
			time.Sleep(time.Duration(r.Intn(200)) * time.Microsecond)
		}
	})
	s.spawn("multireader", 2, func(w int, r *common.Rng) {
		ms := w2.All()
		for _, m := range ms {
			if m == nil {
				s.tornf("Window.All() returned a nil entry")
			}
		}
		ids := metricIDs(ms)
		empty, dup := listProblems(ids)
		if empty > 0 || dup > 0 || len(ids) > capN {
			s.tornf("Window.All() with several writers: n=%d empty=%d dup=%d", len(ids), empty, dup)
		}
		s.sample("multiwindow", "C18 idlist multiwindow => "+runs(descSorted(ids)), empty > 0 || dup > 0)
		w2.Latest()
	})
	s.run(secs, nil)
	s.finish()
}

// ------------------------------------------------------------------ metrics store + checker

func soakMetrics(secs int) {
	s := newSoak("metrics")
	ctx, cancel := context.WithCancel(context.Background())
	defer cancel()
	store := metrics.NewStore()
	checker := metrics.NewChecker(ctx, store, 3.0)
	names := []string{"ping", "freespace", "numpin"}
	const nPeers = 6
	peers := make([]peer.ID, nPeers)
	for i := range peers {
		peers[i] = common.PeerN(i)
	}
	// writer w owns the windows (name, peer) with (peerIndex % 3 == w): one writer per window,
	// so each window holds consecutive sequence numbers
	seqs := make([][]int64, len(names))
	for i := range seqs {
		seqs[i] = make([]int64, nPeers)
	}
	s.spawn("add", 3, func(w int, r *common.Rng) {
		ni := r.Intn(len(names))
		pi := r.Intn(nPeers/3)*3 + w
		k := atomic.AddInt64(&seqs[ni][pi], 1)
		ttl := time.Minute
		if r.Intn(4) == 0 {
			ttl = time.Duration(1+r.Intn(3)) * time.Millisecond // expires: the checker will alert
		}
		store.Add(metricN(names[ni], peers[pi], int(k), ttl))
	})
	s.spawn("read", 3, func(w int, r *common.Rng) {
		name := names[r.Intn(len(names))]
		p := peers[r.Intn(nPeers)]
		switch r.Intn(7) {
		case 0:
			l := store.LatestValid(name)
			seen := map[peer.ID]bool{}
			var ids []int
			for _, m := range l {
				if m == nil {
					s.tornf("LatestValid returned a nil entry")
					ids = append(ids, 0)
					continue
				}
				if m.Name != name {
					s.tornf("LatestValid(%s) returned a %s metric", name, m.Name)
				}
				if seen[m.Peer] {
					s.tornf("LatestValid returned two metrics of one peer")
				}
				seen[m.Peer] = true
				ids = append(ids, common.PeerIndex(m.Peer, nPeers)+1)
			}
			e, d := listProblems(ids)
			s.sample("latestvalid", "C18 idlist latestvalid => "+runs(descSorted(ids)), e > 0 || d > 0)
		case 1:
			ms := store.PeerMetricAll(name, p)
			ids := metricIDs(ms)
			bad := len(ids) > metrics.DefaultWindowCap
			for i, m := range ms {
				if m == nil || m.Name != name || m.Peer != p {
					s.tornf("PeerMetricAll returned a nil or foreign entry")
					bad = true
				}
				if i > 0 && ids[i] != ids[i-1]-1 {
					bad = true
				}
			}
			if bad {
				s.tornf("PeerMetricAll(%s) is no state of a window: %s", name, runs(ids))
			}
			s.sample("peermetricall", "C18 idlist peermetricall => "+runs(ids), bad)
		case 2:
			if m := store.PeerLatest(name, p); m != nil && (m.Name != name || m.Peer != p) {
				s.tornf("PeerLatest returned a foreign metric")
			}
		case 3:
			for _, m := range store.AllMetrics() {
				if m == nil {
					s.tornf("AllMetrics returned a nil entry")
				}
			}
		case 4:
			for _, m := range store.PeerMetrics(p) {
				if m == nil || m.Peer != p {
					s.tornf("PeerMetrics returned a nil or foreign entry")
				}
			}
		case 5:
			ns := store.MetricNames()
			seen := map[string]bool{}
			for _, n := range ns {
				if seen[n] || n == "" {
					s.tornf("MetricNames returned an empty or repeated name")
				}
				seen[n] = true
			}
		default:
			store.Distribution(name, p)
		}
	})
	s.spawn("remove", 1, func(w int, r *common.Rng) {
		if r.Intn(3) == 0 {
			store.RemovePeer(peers[r.Intn(nPeers)])
		} else {
			store.RemovePeerMetrics(peers[r.Intn(nPeers)], names[r.Intn(len(names))])
		}
		time.Sleep(time.Duration(200+r.Intn(2000)) * time.Microsecond)
	})
	s.spawn("check", 2, func(w int, r *common.Rng) {
		if w == 0 {
			checker.CheckPeers(peers)
		} else {
			checker.CheckAll()
		}
		checker.FailedMetric(names[r.Intn(len(names))], peers[r.Intn(nPeers)])
		time.Sleep(time.Duration(100+r.Intn(500)) * time.Microsecond)
	})
	s.spawn("drain", 1, func(w int, r *common.Rng) {
		select {
		case a := <-checker.Alerts():
			if a == nil || a.Name == "" {
				s.tornf("checker sent an empty alert")
			}
		case <-time.After(20 * time.Millisecond):
		}
	})
	s.run(secs, nil)
	s.finish()
}

// ------------------------------------------------------------------ operation tracker

func validStatus(st api.TrackerStatus) bool {
	switch st {
	case api.TrackerStatusPinError, api.TrackerStatusPinQueued, api.TrackerStatusPinning, api.TrackerStatusPinned,
		api.TrackerStatusUnpinError, api.TrackerStatusUnpinQueued, api.TrackerStatusUnpinning, api.TrackerStatusUnpinned,
		api.TrackerStatusRemote, api.TrackerStatusSharded, api.TrackerStatusClusterError,
		api.TrackerStatusUnexpectedlyUnpinned:
		return true
	}
	return false
}

const nCids = 24

func errorStatus(st api.TrackerStatus) bool {
	switch st {
	case api.TrackerStatusPinError, api.TrackerStatusUnpinError, api.TrackerStatusClusterError,
		api.TrackerStatusError, api.TrackerStatusUnexpectedlyUnpinned:
		return true
	}
	return false
}

// pinInfoLine prints the (status, has-error-text) pair of one returned PinInfo as its own case
// line: status and error text are written together (Operation.SetError) and must be read as a pair.
func pinInfoLine(s *soak, what string, pi *api.PinInfo) {
	e := 0
	if pi.Error != "" {
		e = 1
	}
	s.sample("pininfo-"+what, fmt.Sprintf("C18 pininfo %s => status=%s error=%d", what, pi.Status.String(), e),
		e == 1 && !errorStatus(pi.Status))
}

func checkPinInfos(s *soak, what string, l []*api.PinInfo, cids []cid.Cid) {
	var ids []int
	for _, pi := range l {
		if pi == nil {
			s.tornf("%s returned a nil entry", what)
			ids = append(ids, 0)
			continue
		}
		idx := -1
		for i, c := range cids {
			if c.Equals(pi.Cid) {
				idx = i
			}
		}
		if idx < 0 {
			s.tornf("%s returned an entry with an unknown or undefined cid", what)
			ids = append(ids, 0)
			continue
		}
		if !validStatus(pi.Status) {
			s.tornf("%s returned an entry with status %d", what, pi.Status)
		}
		pinInfoLine(s, what, pi)
		ids = append(ids, idx+1)
	}
	e, d := listProblems(ids)
	if e > 0 || d > 0 {
		s.tornf("%s: %d empty and %d repeated entries", what, e, d)
	}
	s.sample(what, "C18 idlist "+what+" => "+runs(descSorted(ids)), e > 0 || d > 0)
}

func soakOptracker(secs int) {
	s := newSoak("optracker")
	ctx := context.Background()
	opt := optracker.NewOperationTracker(ctx, common.PeerN(0), "p0")
	cids := make([]cid.Cid, nCids)
	for i := range cids {
		cids[i] = common.CidN(i)
	}
	boom := errors.New("boom")
	s.spawn("track", 3, func(w int, r *common.Rng) {
		c := cids[r.Intn(nCids)]
		typ := optracker.OperationPin
		if r.Bool() {
			typ = optracker.OperationUnpin
		}
		op := opt.TrackNewOperation(ctx, api.PinCid(c), typ, optracker.PhaseQueued)
		if op == nil {
			return
		}
		// what the tracker's workers do with an operation
		if op.Cancelled() {
			return
		}
		op.SetPhase(optracker.PhaseInProgress)
		if r.Intn(3) == 0 {
			op.SetError(boom)
			op.Cancel()
			return
		}
		op.SetPhase(optracker.PhaseDone)
		op.Cancel()
		if r.Bool() {
			opt.Clean(ctx, op)
		}
	})
	s.spawn("seterror", 1, func(w int, r *common.Rng) {
		opt.SetError(ctx, cids[r.Intn(nCids)], boom)
		if r.Intn(50) == 0 {
			opt.CleanAllDone(ctx)
		}
	})
	s.spawn("read", 3, func(w int, r *common.Rng) {
		c := cids[r.Intn(nCids)]
		switch r.Intn(8) {
		case 0:
			pi := opt.Get(ctx, c)
			if pi == nil || !pi.Cid.Equals(c) || !validStatus(pi.Status) {
				s.tornf("Get returned nil, a foreign cid or an undefined status")
			} else {
				pinInfoLine(s, "get", pi)
			}
		case 1:
			if pi, ok := opt.GetExists(ctx, c); ok && (pi == nil || !pi.Cid.Equals(c) || !validStatus(pi.Status)) {
				s.tornf("GetExists returned nil, a foreign cid or an undefined status")
			}
		case 2:
			if st, ok := opt.Status(ctx, c); ok && !validStatus(st) {
				s.tornf("Status returned an undefined status")
			}
		case 3:
			checkPinInfos(s, "getall", opt.GetAll(ctx), cids)
		case 4:
			l := opt.Filter(ctx, optracker.PhaseError)
			checkPinInfos(s, "filter", l, cids)
		case 5:
			l := opt.Filter(ctx, optracker.OperationPin, optracker.PhaseDone)
			checkPinInfos(s, "filter", l, cids)
		case 6:
			opt.OpContext(ctx, c)
		default:
			if r.Intn(20) == 0 {
				_ = opt.String()
			}
		}
	})
	s.run(secs, nil)
	s.finish()
}

// ------------------------------------------------------------------ fake IPFSConnector RPC service

type ipfsSvc struct {
	mu     sync.Mutex
	pinned map[string]api.IPFSPinStatus
	rng    *common.Rng
}

func (f *ipfsSvc) nap() {
	f.mu.Lock()
	d := f.rng.Intn(300)
	f.mu.Unlock()
	if d > 200 {
		time.Sleep(time.Duration(d) * time.Microsecond)
	}
}

func (f *ipfsSvc) Pin(ctx context.Context, in *api.Pin, out *struct{}) error {
	f.nap()
	if idx := common.CidIndex(in.Cid, nCids); idx%7 == 3 {
		return errors.New("fake ipfs: pin fails for this cid")
	}
	f.mu.Lock()
	defer f.mu.Unlock()
	if in.Mode == api.PinModeDirect {
		f.pinned[in.Cid.String()] = api.IPFSPinStatusDirect
	} else {
		f.pinned[in.Cid.String()] = api.IPFSPinStatusRecursive
	}
	return nil
}

func (f *ipfsSvc) Unpin(ctx context.Context, in *api.Pin, out *struct{}) error {
	f.nap()
	f.mu.Lock()
	defer f.mu.Unlock()
	delete(f.pinned, in.Cid.String())
	return nil
}

func (f *ipfsSvc) PinLsCid(ctx context.Context, in *api.Pin, out *api.IPFSPinStatus) error {
	f.mu.Lock()
	defer f.mu.Unlock()
	st, ok := f.pinned[in.Cid.String()]
	if !ok {
		st = api.IPFSPinStatusUnpinned
	}
	*out = st
	return nil
}

func (f *ipfsSvc) PinLs(ctx context.Context, in string, out *map[string]api.IPFSPinStatus) error {
	f.mu.Lock()
	defer f.mu.Unlock()
	m := map[string]api.IPFSPinStatus{}
	for k, v := range f.pinned {
		if in == "" || in == "all" || (in == "recursive" && v == api.IPFSPinStatusRecursive) || (in == "direct" && v == api.IPFSPinStatusDirect) {
			m[k] = v
		}
	}
	*out = m
	return nil
}

func (f *ipfsSvc) RepoStat(ctx context.Context, in struct{}, out *api.IPFSRepoStat) error {
	f.nap()
	*out = api.IPFSRepoStat{RepoSize: 100, StorageMax: 1000}
	return nil
}

type trackerSvc struct{}

func (t *trackerSvc) Track(ctx context.Context, in *api.Pin, out *struct{}) error   { return nil }
func (t *trackerSvc) Untrack(ctx context.Context, in *api.Pin, out *struct{}) error { return nil }

func newRPC() (*rpc.Client, *ipfsSvc) {
	srv := rpc.NewServer(nil, "c18")
	svc := &ipfsSvc{pinned: map[string]api.IPFSPinStatus{}, rng: common.NewRng(common.Seed() + 99)}
	if err := srv.RegisterName("IPFSConnector", svc); err != nil {
		panic(err)
	}
	if err := srv.RegisterName("PinTracker", &trackerSvc{}); err != nil {
		panic(err)
	}
	return rpc.NewClientWithServer(nil, "c18", srv), svc
}

// ------------------------------------------------------------------ stateless tracker

func soakStateless(secs int) {
	s := newSoak("stateless")
	ctx := context.Background()
	st, err := dsstate.New(inmem.New(), "", dsstate.DefaultHandle())
	if err != nil {
		panic(err)
	}
	cids := make([]cid.Cid, nCids)
	for i := range cids {
		cids[i] = common.CidN(i)
	}
	me := common.PeerN(0)
	for i := 0; i < nCids; i += 2 {
		p := api.PinCid(cids[i])
		p.ReplicationFactorMin, p.ReplicationFactorMax = -1, -1
		if i%6 == 0 {
			p.Allocations = []peer.ID{common.PeerN(1)} // remote for us
			p.ReplicationFactorMin, p.ReplicationFactorMax = 1, 1
		}
		if err := st.Add(ctx, p); err != nil {
			panic(err)
		}
	}
	getState := func(ctx context.Context) (state.ReadOnly, error) { return st, nil }
	cfg := &stateless.Config{}
	cfg.Default()
	cfg.ConcurrentPins = 4
	cfg.MaxPinQueueSize = 256
	spt := stateless.New(cfg, me, "p0", getState)
	client, _ := newRPC()
	spt.SetClient(client)

	pinOf := func(i int) *api.Pin {
		if p, err := st.Get(ctx, cids[i]); err == nil {
			return p
		}
		p := api.PinCid(cids[i])
		p.ReplicationFactorMin, p.ReplicationFactorMax = -1, -1
		return p
	}
	s.spawn("track", 2, func(w int, r *common.Rng) {
		spt.Track(ctx, pinOf(r.Intn(nCids)))
		if r.Intn(8) == 0 {
			time.Sleep(time.Duration(r.Intn(300)) * time.Microsecond)
		}
	})
	s.spawn("untrack", 1, func(w int, r *common.Rng) {
		spt.Untrack(ctx, cids[r.Intn(nCids)])
		time.Sleep(time.Duration(r.Intn(300)) * time.Microsecond)
	})
	s.spawn("status", 2, func(w int, r *common.Rng) {
		c := cids[r.Intn(nCids)]
		pi := spt.Status(ctx, c)
		if pi == nil || !pi.Cid.Equals(c) {
			s.tornf("Status returned nil or a foreign cid")
		} else if !validStatus(pi.Status) {
			s.tornf("Status returned status %d", pi.Status)
		} else {
			pinInfoLine(s, "status", pi)
		}
		spt.OpContext(ctx, c)
	})
	s.spawn("statusall", 1, func(w int, r *common.Rng) {
		checkPinInfos(s, "statusall", spt.StatusAll(ctx, api.TrackerStatusUndefined), cids)
		if r.Intn(4) == 0 {
			checkPinInfos(s, "statusall", spt.StatusAll(ctx, api.TrackerStatusError), cids)
		}
	})
	s.spawn("recover", 1, func(w int, r *common.Rng) {
		if r.Intn(3) == 0 {
			l, _ := spt.RecoverAll(ctx)
			checkPinInfos(s, "recoverall", l, cids)
		} else {
			c := cids[r.Intn(nCids)]
			pi, _ := spt.Recover(ctx, c)
			if pi == nil || !pi.Cid.Equals(c) {
				s.tornf("Recover returned nil or a foreign cid")
			}
		}
		time.Sleep(time.Duration(r.Intn(500)) * time.Microsecond)
	})
	// short-lived trackers: Shutdown from three goroutines at once while a caller is tracking
	s.spawn("lifecycle", 1, func(w int, r *common.Rng) {
		t := stateless.New(cfg, me, "p1", getState)
		t.SetClient(client)
		p := pinOf(r.Intn(nCids))
		start := make(chan struct{})
		var wg sync.WaitGroup
		for i := 0; i < 3; i++ {
			wg.Add(1)
			go func() { defer wg.Done(); <-start; t.Shutdown(ctx) }()
		}
		wg.Add(1)
		go func() {
			defer wg.Done()
			<-start
			t.Track(ctx, p)
			t.StatusAll(ctx, api.TrackerStatusUndefined)
		}()
		close(start)
		wg.Wait()
	})
	// shut the tracker down while it is in use (at 70% of the run), twice, concurrently
	var once sync.Once
	sdDone := make(chan struct{})
	s.run(secs, func(el time.Duration) {
		if el > time.Duration(secs)*time.Second*7/10 {
			once.Do(func() {
				go func() {
					var wg sync.WaitGroup
					for i := 0; i < 2; i++ {
						wg.Add(1)
						go func() { defer wg.Done(); spt.Shutdown(ctx) }()
					}
					wg.Wait()
					close(sdDone)
				}()
			})
		}
	})
	once.Do(func() { go func() { spt.Shutdown(ctx); close(sdDone) }() })
	select {
	case <-sdDone:
	case <-time.After(45 * time.Second):
		dumpAndExit("stateless.Tracker.Shutdown did not return")
	}
	s.finish()
}

// ------------------------------------------------------------------ informers

func soakInformers(secs int) {
	s := newSoak("informers")
	ctx := context.Background()
	client, _ := newRPC()
	dcfg := &disk.Config{}
	dcfg.Default()
	dinf, err := disk.NewInformer(dcfg)
	if err != nil {
		panic(err)
	}
	ncfg := &numpin.Config{}
	ncfg.Default()
	ninf, err := numpin.NewInformer(ncfg)
	if err != nil {
		panic(err)
	}
	dinf.SetClient(client)
	ninf.SetClient(client)
	s.spawn("getmetric", 4, func(w int, r *common.Rng) {
		var m *api.Metric
		if w%2 == 0 {
			m = dinf.GetMetric(ctx)
			if m != nil && m.Name != dinf.Name() {
				s.tornf("disk informer returned a metric named %q", m.Name)
			}
		} else {
			m = ninf.GetMetric(ctx)
			if m != nil && m.Valid && m.Name != ninf.Name() {
				s.tornf("numpin informer returned a valid metric named %q", m.Name)
			}
		}
		if m == nil {
			s.tornf("GetMetric returned nil")
		}
	})
	s.spawn("lifecycle", 2, func(w int, r *common.Rng) {
		if w == 0 {
			dinf.Shutdown(ctx)
			time.Sleep(time.Duration(r.Intn(300)) * time.Microsecond)
			dinf.SetClient(client)
		} else {
			ninf.Shutdown(ctx)
			time.Sleep(time.Duration(r.Intn(300)) * time.Microsecond)
			ninf.SetClient(client)
		}
		time.Sleep(time.Duration(r.Intn(300)) * time.Microsecond)
	})
	s.run(secs, nil)
	s.finish()
}

// ------------------------------------------------------------------ main

func child(name string, secs int) {
	switch name {
	case "alerts":
		soakAlerts(secs)
	case "window":
		soakWindow(secs)
	case "metrics":
		soakMetrics(secs)
	case "optracker":
		soakOptracker(secs)
	case "stateless":
		soakStateless(secs)
	case "informers":
		soakInformers(secs)
	case "crdt":
		soakCRDT(secs)
	case "trackerlife":
		soakTrackerLife(secs)
	case "crdtlife":
		soakCRDTLife(secs)
	case "clusterlife":
		soakClusterLife(secs, "clusterlife", true)
	case "clusterearly":
		soakClusterLife(secs, "clusterearly", false)
	case "watch":
		soakWatch(secs)
	default:
		fmt.Fprintln(os.Stderr, "unknown structure", name)
		os.Exit(4)
	}
}

func main() {
	args := common.ParseArgs()
	secs := args.N
	if name := args.Extra["child"]; name != "" {
		if secs <= 0 {
			secs = 5
		}
		child(name, secs)
		return
	}
	if args.Extra["stdin"] != "" {
		if secs <= 0 {
			secs = 6
		}
		want := map[string]bool{}
		sc := bufio.NewScanner(os.Stdin)
		sc.Buffer(make([]byte, 1<<20), 1<<24)
		for sc.Scan() {
			l := strings.TrimSpace(sc.Text())
			if l == "" || strings.HasPrefix(l, "#") {
				continue
			}
			for _, n := range structureOfLine(l) {
				want[n] = true
			}
		}
		var names []string
		for _, n := range allStructures {
			if want[n] {
				names = append(names, n)
			}
		}
		supervise(names, secs, args.Tier)
		return
	}
	if secs <= 0 {
		secs = 15
		if args.Tier == "thorough" {
			secs = 240
		}
	}
	supervise(structuresFor(args.Tier), secs, args.Tier)
}
