package main

// Life-cycle soaks: a component is built, used from several goroutines and shut
// down (from several goroutines at once) WHILE it is in use, over and over:
//
//   trackerlife   stateless.Tracker: Track/Untrack/Status/StatusAll/Recover(All) vs Shutdown x2
//   crdtlife      crdt.Consensus:    LogPin/LogUnpin + state listing        vs Shutdown x2
//   clusterlife   Cluster:           read-only API + ready()/run()           vs Shutdown x2-3
//
// One generation = one component instance = one op of the summary line. Users keep
// calling after Shutdown returned: such calls may fail, they must not panic or block.
// Everything that must return within a bound is awaited with a timeout; on expiry all
// goroutines are dumped and the child exits 3 (stalled).

import (
	"context"
	crand "crypto/rand"
	"fmt"
	"os"
	"runtime"
	"strconv"
	"sync"
	"sync/atomic"
	"time"

	ipfscluster "github.com/ipfs/ipfs-cluster"
	"github.com/ipfs/ipfs-cluster/api"
	"github.com/ipfs/ipfs-cluster/datastore/inmem"
	"github.com/ipfs/ipfs-cluster/monitor/metrics"
	"github.com/ipfs/ipfs-cluster/pintracker/stateless"
	"github.com/ipfs/ipfs-cluster/state"
	"github.com/ipfs/ipfs-cluster/state/dsstate"
	"github.com/ipfs/ipfs-cluster/version"

	cid "github.com/ipfs/go-cid"
	libp2p "github.com/libp2p/go-libp2p"
	crypto "github.com/libp2p/go-libp2p-core/crypto"
	host "github.com/libp2p/go-libp2p-core/host"
	peer "github.com/libp2p/go-libp2p-core/peer"
	rpc "github.com/libp2p/go-libp2p-gorpc"

	"verifharness/common"
)

const lifeTimeout = 30 * time.Second // bound of every single call / join of a generation

// users are the goroutines that use one component instance.
type users struct {
	s     *soak
	stop  int32
	after int32 // set once Shutdown has returned
	wg    sync.WaitGroup
	calls int64 // calls that STARTED after Shutdown returned
	slow  int32 // set while a Shutdown has been pending for seconds: do not burn CPU until the watchdog fires
}

// slowAfter makes the users call only every 20 ms once d has passed; the returned function undoes it.
func (u *users) slowAfter(d time.Duration) func() {
	t := time.AfterFunc(d, func() { atomic.StoreInt32(&u.slow, 1) })
	return func() { t.Stop(); atomic.StoreInt32(&u.slow, 0) }
}

// start runs n goroutines calling f until u.stop; panics are captured as soak.spawn does.
func (u *users) start(name string, n int, seed uint64, f func(w int, r *common.Rng)) {
	for w := 0; w < n; w++ {
		u.wg.Add(1)
		go func(w int) {
			defer u.wg.Done()
			r := common.NewRng(common.Seed()).Fork(seed*131 + uint64(len(name)*1000+w*7+int(name[0])))
			for atomic.LoadInt32(&u.stop) == 0 {
				late := atomic.LoadInt32(&u.after) != 0
				func() {
					defer func() {
						if e := recover(); e != nil {
							if atomic.AddInt64(&u.s.panics, 1) <= 5 {
								buf := make([]byte, 1<<14)
								buf = buf[:runtime.Stack(buf, false)]
								fmt.Fprintf(os.Stderr, "panic in %s/%s/%d (after Shutdown returned: %v): %v\n%s\n", u.s.name, name, w, late, e, buf)
							}
						}
					}()
					f(w, r)
				}()
				if late {
					atomic.AddInt64(&u.calls, 1)
				}
				if atomic.LoadInt32(&u.slow) != 0 {
					time.Sleep(20 * time.Millisecond)
				}
			}
		}(w)
	}
}

// lateCalls lets the users make calls after Shutdown returned, then stops and joins them.
func (u *users) lateCallsAndJoin(what string, want int64) {
	atomic.StoreInt32(&u.after, 1)
	deadline := time.Now().Add(lifeTimeout)
	for atomic.LoadInt64(&u.calls) < want {
		if time.Now().After(deadline) {
			dumpAndExit(fmt.Sprintf("%s: users made only %d calls within %s after Shutdown returned", what, atomic.LoadInt64(&u.calls), lifeTimeout))
		}
		time.Sleep(200 * time.Microsecond)
	}
	atomic.StoreInt32(&u.stop, 1)
	within(what+": users did not return after Shutdown", u.wg.Wait)
}

// within runs f and dumps all goroutines if it does not return in time.
func within(why string, f func()) {
	done := make(chan struct{})
	go func() { f(); close(done) }()
	select {
	case <-done:
	case <-time.After(lifeTimeout):
		dumpAndExit(fmt.Sprintf("%s within %s", why, lifeTimeout))
	}
}

// shutdownAtOnce calls shut from n goroutines released together and returns the errors.
func shutdownAtOnce(what string, n int, shut func() error) []error {
	errs := make([]error, n)
	start := make(chan struct{})
	var wg sync.WaitGroup
	for i := 0; i < n; i++ {
		wg.Add(1)
		go func(i int) { defer wg.Done(); <-start; errs[i] = shut() }(i)
	}
	close(start)
	within(what+" (called from "+strconv.Itoa(n)+" goroutines at once) did not return", wg.Wait)
	return errs
}

func nap(r *common.Rng, lo, span int) { time.Sleep(time.Duration(lo+r.Intn(span)) * time.Microsecond) }

// lifeState is a dsstate over an in-memory datastore with every second cid pinned.
func lifeState(cids []cid.Cid) state.State {
	ctx := context.Background()
	st, err := dsstate.New(inmem.New(), "", dsstate.DefaultHandle())
	if err != nil {
		panic(err)
	}
	for i := 0; i < len(cids); i += 2 {
		p := api.PinCid(cids[i])
		p.ReplicationFactorMin, p.ReplicationFactorMax = -1, -1
		if i%6 == 0 {
			p.Allocations = []peer.ID{common.PeerN(1)} // remote for us
			p.ReplicationFactorMin, p.ReplicationFactorMax = 1, 1
		}
		if err := st.Add(ctx, p); err != nil {
			panic(err)
		}
	}
	return st
}

func lifeCids() []cid.Cid {
	cids := make([]cid.Cid, nCids)
	for i := range cids {
		cids[i] = common.CidN(i)
	}
	return cids
}

// ------------------------------------------------------------------ trackerlife

func soakTrackerLife(secs int) {
	s := newSoak("trackerlife")
	ctx := context.Background()
	cids := lifeCids()
	st := lifeState(cids)
	getState := func(ctx context.Context) (state.ReadOnly, error) { return st, nil }
	cfg := &stateless.Config{}
	cfg.Default()
	cfg.ConcurrentPins = 4
	cfg.MaxPinQueueSize = 64
	// round 8b: every other generation has ONE pin worker and queues of capacity 1, so that enqueue's full-queue arm
	// (ErrFullQueue) is taken while the tracker is in use, during Shutdown and after it (workers gone): model progT
	small := &stateless.Config{}
	small.Default()
	small.ConcurrentPins = 1
	small.MaxPinQueueSize = 1
	client, _ := newRPC()
	me := common.PeerN(0)
	pinOf := func(i int) *api.Pin {
		if p, err := st.Get(ctx, cids[i]); err == nil {
			return p
		}
		p := api.PinCid(cids[i])
		p.ReplicationFactorMin, p.ReplicationFactorMax = -1, -1
		return p
	}
	var gen uint64
	var fullQueue int64
	s.spawn("gen", 1, func(_ int, r *common.Rng) {
		g := atomic.AddUint64(&gen, 1)
		gcfg, trackers := cfg, 1
		if g%2 == 0 {
			gcfg, trackers = small, 3
		}
		t := stateless.New(gcfg, me, "p0", getState)
		t.SetClient(client) // before any use
		u := &users{s: s}
		u.start("track", trackers, g, func(w int, r *common.Rng) {
			var err error
			if r.Intn(3) == 0 {
				err = t.Untrack(ctx, cids[r.Intn(nCids)])
			} else {
				err = t.Track(ctx, pinOf(r.Intn(nCids)))
			}
			if err == stateless.ErrFullQueue {
				atomic.AddInt64(&fullQueue, 1)
			}
			nap(r, 100, 300)
		})
		u.start("status", 1, g, func(w int, r *common.Rng) {
			c := cids[r.Intn(nCids)]
			pi := t.Status(ctx, c)
			if pi == nil || !pi.Cid.Equals(c) {
				s.tornf("Status returned nil or a foreign cid")
			} else if !validStatus(pi.Status) {
				s.tornf("Status returned status %d", pi.Status)
			} else {
				pinInfoLine(s, "status", pi)
			}
			t.OpContext(ctx, c)
			nap(r, 100, 300)
		})
		u.start("statusall", 1, g, func(w int, r *common.Rng) {
			checkPinInfos(s, "statusall", t.StatusAll(ctx, api.TrackerStatusUndefined), cids)
			nap(r, 200, 400)
		})
		u.start("recover", 1, g, func(w int, r *common.Rng) {
			if r.Intn(3) == 0 {
				l, _ := t.RecoverAll(ctx)
				checkPinInfos(s, "recoverall", l, cids)
			} else {
				c := cids[r.Intn(nCids)]
				pi, _ := t.Recover(ctx, c)
				if pi == nil || !pi.Cid.Equals(c) {
					s.tornf("Recover returned nil or a foreign cid")
				}
			}
			nap(r, 200, 400)
		})
		time.Sleep(time.Duration(r.Intn(3000)) * time.Microsecond)
		unslow := u.slowAfter(2 * time.Second)
		for _, err := range shutdownAtOnce("stateless.Tracker.Shutdown", 2, func() error { return t.Shutdown(ctx) }) {
			if err != nil {
				s.tornf("stateless.Tracker.Shutdown returned %v", err)
			}
		}
		unslow()
		u.lateCallsAndJoin("trackerlife", 8)
		within("a second stateless.Tracker.Shutdown did not return", func() { t.Shutdown(ctx) })
		nap(r, 2000, 4000) // moderate CPU use: about 100 generations per second
	})
	s.run(secs, nil)
	if atomic.LoadInt64(&fullQueue) == 0 {
		fmt.Println("# inconclusive trackerlife: no Track / Untrack met a full queue")
	}
	s.finish()
}

// ------------------------------------------------------------------ crdtlife

func soakCRDTLife(secs int) {
	s := newSoak("crdtlife")
	ctx := context.Background()
	client, _ := newRPC()
	const nc = 12
	cids := make([]cid.Cid, nc)
	for i := range cids {
		cids[i] = common.CidN(i)
	}
	var gen, conclusive uint64
	s.spawn("gen", 1, func(_ int, r *common.Rng) {
		began := time.Now()
		g := atomic.AddUint64(&gen, 1)
		// round 8b: every other generation has a batching queue of TWO items: LogPin / LogUnpin take their full-queue arm
		// (ErrMaxQueueSizeReached) while in use and, once batchWorker has left, on every call after Shutdown (model progQ)
		queue := 2000
		if g%2 == 0 {
			queue = 2
		}
		node, err := buildCRDT(ctx, "c18life", queue)
		if err != nil {
			fmt.Println("# inconclusive crdtlife:", err)
			time.Sleep(200 * time.Millisecond)
			return
		}
		defer within("closing the libp2p host / dht of a crdt generation did not return", node.close)
		cc := node.cc
		cc.SetClient(client)
		select {
		case <-cc.Ready(ctx):
		case <-time.After(lifeTimeout):
			fmt.Println("# inconclusive crdtlife: the consensus component did not become ready within", lifeTimeout)
			within("crdt Consensus.Shutdown of a component that never got ready did not return", func() { cc.Shutdown(ctx) })
			return
		}
		u := &users{s: s}
		u.start("log", 3, g, func(w int, r *common.Rng) {
			p := api.PinCid(cids[w*(nc/3)+r.Intn(nc/3)])
			p.ReplicationFactorMin, p.ReplicationFactorMax = -1, -1
			if r.Intn(3) > 0 {
				cc.LogPin(ctx, p)
			} else {
				cc.LogUnpin(ctx, p)
			}
			nap(r, 200, 800)
		})
		u.start("list", 1, g, func(w int, r *common.Rng) {
			defer nap(r, 1000, 3000)
			st, err := cc.State(ctx)
			if err != nil {
				return
			}
			pins, err := st.List(ctx)
			if err != nil {
				return // after shutdown
			}
			var ids []int
			for _, p := range pins {
				if p == nil {
					ids = append(ids, 0)
					continue
				}
				ids = append(ids, common.CidIndex(p.Cid, nc)+1)
			}
			e, d := listProblems(ids)
			if e > 0 || d > 0 {
				s.tornf("state listing with %d empty and %d repeated entries", e, d)
			}
			s.sample("crdtstate", "C18 idlist crdtstate => "+runs(descSorted(ids)), e > 0 || d > 0)
		})
		// most shutdowns come while a batch is open or being committed (batch age 30 ms)
		time.Sleep(time.Duration(r.Intn(120000)) * time.Microsecond)
		unslow := u.slowAfter(2 * time.Second)
		for _, err := range shutdownAtOnce("crdt Consensus.Shutdown", 2, func() error { return cc.Shutdown(ctx) }) {
			if err != nil {
				s.tornf("crdt Consensus.Shutdown returned %v", err)
			}
		}
		unslow()
		u.lateCallsAndJoin("crdtlife", 12)
		within("a second crdt Consensus.Shutdown did not return", func() { cc.Shutdown(ctx) })
		atomic.AddUint64(&conclusive, 1)
		// a libp2p host per generation is expensive: at most two generations per second
		for time.Since(began) < 500*time.Millisecond && !s.stopped() {
			time.Sleep(10 * time.Millisecond)
		}
	})
	s.run(secs, nil)
	if atomic.LoadUint64(&conclusive) == 0 {
		fmt.Println("# inconclusive crdtlife: no generation completed")
	}
	s.finish()
}

// ------------------------------------------------------------------ clusterlife

// lifeMonitor is a goroutine-safe PeerMonitor over the real metrics.Store.
type lifeMonitor struct {
	store    *metrics.Store
	alertsCh chan *api.Alert
}

func (m *lifeMonitor) SetClient(*rpc.Client)          {}
func (m *lifeMonitor) Shutdown(context.Context) error { return nil }
func (m *lifeMonitor) LogMetric(ctx context.Context, mt *api.Metric) error {
	m.store.Add(mt)
	return nil
}
func (m *lifeMonitor) PublishMetric(ctx context.Context, mt *api.Metric) error {
	cp := *mt
	m.store.Add(&cp)
	return nil
}
func (m *lifeMonitor) LatestMetrics(ctx context.Context, name string) []*api.Metric {
	return m.store.LatestValid(name)
}
func (m *lifeMonitor) MetricNames(ctx context.Context) []string { return m.store.MetricNames() }
func (m *lifeMonitor) Alerts() <-chan *api.Alert                { return m.alertsCh }

// lifeConsensus is the FakeConsensus becoming ready after a delay.
type lifeConsensus struct {
	*common.FakeConsensus
	ready chan struct{}
}

func (c *lifeConsensus) Ready(context.Context) <-chan struct{} { return c.ready }

// soakClusterLife: structure `clusterlife` shuts the cluster down only once Ready() was released (the cluster is "in use");
// structure `clusterearly` also lets Shutdown race ready() itself (every tier since /repo 87856f0 repaired K18b; a revert deadlocks here).
func soakClusterLife(secs int, name string, afterReadyOnly bool) {
	s := newSoak(name)
	ctx := context.Background()
	priv, _, err := crypto.GenerateEd25519Key(crand.Reader)
	if err != nil {
		fmt.Println("# inconclusive clusterlife: cannot generate a key:", err)
		s.finish()
		return
	}
	h, err := libp2p.New(ctx, libp2p.Identity(priv), libp2p.ListenAddrStrings("/ip4/127.0.0.1/tcp/0"))
	if err != nil {
		fmt.Println("# inconclusive clusterlife: cannot create a libp2p host:", err)
		s.finish()
		return
	}
	defer h.Close()
	cids := lifeCids()
	var gen, gotReady, early uint64
	if os.Getenv("C18_CLUSTERLIFE_AFTER_READY") != "" {
		afterReadyOnly = true
	}
	s.spawn("gen", 1, func(_ int, r *common.Rng) {
		g := atomic.AddUint64(&gen, 1)
		wasReady, wasEarly := clusterGeneration(s, r, h, cids, g, afterReadyOnly)
		if wasReady {
			atomic.AddUint64(&gotReady, 1)
		}
		if wasEarly {
			atomic.AddUint64(&early, 1)
		}
		nap(r, 3000, 5000) // moderate CPU use
	})
	s.run(secs, nil)
	fmt.Printf("# "+name+": %d generations, %d reached ready, %d were shut down before Ready() was released\n",
		atomic.LoadUint64(&gen), atomic.LoadUint64(&gotReady), atomic.LoadUint64(&early))
	if atomic.LoadUint64(&gotReady) == 0 {
		fmt.Println("# inconclusive "+name+": no generation reached ready")
	}
	s.finish()
}

func clusterGeneration(s *soak, r *common.Rng, h host.Host, cids []cid.Cid, g uint64, afterReadyOnly bool) (wasReady, wasEarly bool) {
	ctx := context.Background()
	me := h.ID()
	fc := common.NewFakeConsensus()
	fc.St = lifeState(cids)
	fc.Members = []peer.ID{me}
	cons := &lifeConsensus{FakeConsensus: fc, ready: make(chan struct{})}
	mon := &lifeMonitor{store: metrics.NewStore(), alertsCh: make(chan *api.Alert)}

	tcfg := &stateless.Config{}
	tcfg.Default()
	tcfg.ConcurrentPins = 2
	tcfg.MaxPinQueueSize = 64
	tracker := stateless.New(tcfg, me, "c18", cons.State)

	cfg := &ipfscluster.Config{}
	if err := cfg.Default(); err != nil {
		panic(err)
	}
	cfg.Peername = "c18"
	cfg.StateSyncInterval = 4 * time.Millisecond
	cfg.PinRecoverInterval = 5 * time.Millisecond
	cfg.MonitorPingInterval = 4 * time.Millisecond
	cfg.PeerWatchInterval = 2 * time.Millisecond
	cfg.LeaveOnShutdown = g%4 == 0
	informer := func(name string) ipfscluster.Informer {
		return &common.NamedInformer{N: name, M: func() *api.Metric {
			m := &api.Metric{Name: name, Value: "1", Valid: true}
			m.SetTTL(6 * time.Millisecond)
			return m
		}}
	}
	cl := ipfscluster.VerifNewCluster(ctx, ipfscluster.VerifComponents{
		ID: me, Config: cfg, Host: h, Consensus: cons, IPFS: common.NewFakeIPFS(), Tracker: tracker,
		Monitor: mon, Informers: []ipfscluster.Informer{informer("freespace"), informer("numpin")},
	})
	srv, err := ipfscluster.VerifNewRPCServer(cl)
	if err != nil {
		panic(err)
	}
	client := rpc.NewClientWithServer(h, version.RPCProtocol, srv)
	cl.VerifSetRPC(srv, client)
	tracker.SetClient(client)
	cl.VerifC18Prepare()

	// the consensus layer becomes ready after 0-4 ms; ready() and run() start as in NewCluster
	readyDelay := time.Duration(r.Intn(4000)) * time.Microsecond
	go func() { time.Sleep(readyDelay); close(cons.ready) }()
	cl.VerifC18Start(lifeTimeout)

	u := &users{s: s}
	var sent int64
	u.start("alertfeeder", 1, g, func(w int, r *common.Rng) {
		k := int(atomic.LoadInt64(&sent)) + 1
		a := &api.Alert{
			Metric:      api.Metric{Name: "freespace", Peer: common.PeerN(k % 8), Value: strconv.Itoa(k), Valid: true},
			TriggeredAt: time.Unix(int64(k), 0),
		}
		select {
		case mon.alertsCh <- a:
			atomic.StoreInt64(&sent, int64(k))
		case <-time.After(time.Millisecond): // no handler yet / any more
		}
		nap(r, 100, 300)
	})
	u.start("reader", 4, g, func(w int, r *common.Rng) {
		switch (w + r.Intn(2)) % 5 {
		case 0:
			before := int(atomic.LoadInt64(&sent))
			l := cl.Alerts()
			after := int(atomic.LoadInt64(&sent)) + 1
			for i, a := range l {
				v, err := strconv.Atoi(a.Value)
				if err != nil || v != len(l)-i || a.TriggeredAt.Unix() != int64(v) {
					s.tornf("Cluster.Alerts() entry %d of %d is alert %q", i, len(l), a.Value)
					break
				}
			}
			if len(l) < before-1 || len(l) > after {
				s.tornf("Cluster.Alerts() returned %d alerts, %d..%d had been delivered during the call", len(l), before, after)
			}
		case 1:
			id := cl.ID(ctx)
			if id == nil || id.ID != me || id.Peername != "c18" || id.IPFS == nil {
				s.tornf("Cluster.ID() returned nil or foreign fields")
			} else if len(id.ClusterPeers) != 1 || id.ClusterPeers[0] != me {
				s.tornf("Cluster.ID() returned %d cluster peers", len(id.ClusterPeers))
			}
		case 2:
			l := cl.Peers(ctx)
			if len(l) != 1 || l[0] == nil || l[0].ID != me {
				s.tornf("Cluster.Peers() returned %d entries or a nil/foreign one", len(l))
			}
		case 3:
			pins, err := cl.Pins(ctx)
			if err == nil {
				var ids []int
				for _, p := range pins {
					if p == nil {
						ids = append(ids, 0)
						continue
					}
					ids = append(ids, common.CidIndex(p.Cid, nCids)+1)
				}
				e, d := listProblems(ids)
				if e > 0 || d > 0 || len(ids) != nCids/2 {
					s.tornf("Cluster.Pins(): %d entries, %d empty, %d repeated", len(ids), e, d)
				}
			}
		default:
			checkPinInfos(s, "statusall", cl.StatusAllLocal(ctx, api.TrackerStatusUndefined), cids)
		}
		nap(r, 150, 400)
	})
	// waiters on Ready() and Done()
	readyOrDone := make(chan bool, 1)
	go func() {
		select {
		case <-cl.Ready():
			readyOrDone <- true
		case <-cl.Done():
			readyOrDone <- false
		case <-time.After(lifeTimeout):
			dumpAndExit(fmt.Sprintf("Cluster: neither Ready() nor Done() was released within %s", lifeTimeout))
		}
	}()
	doneSeen := make(chan struct{})
	go func() {
		select {
		case <-cl.Done():
			close(doneSeen)
		case <-time.After(2 * lifeTimeout):
			dumpAndExit("Cluster.Done() was not released")
		}
	}()

	// Shutdown at a random moment: before the consensus layer is ready, while ready() recovers and
	// lists the peers, or once the cluster is ready and run() has started everything
	if afterReadyOnly {
		select {
		case <-cl.Ready():
		case <-time.After(lifeTimeout):
			dumpAndExit("Cluster.Ready() was not released")
		}
		time.Sleep(time.Duration(r.Intn(4000)) * time.Microsecond)
	} else {
		time.Sleep(time.Duration(r.Intn(9000)) * time.Microsecond)
	}
	select {
	case <-cl.Ready():
	default:
		wasEarly = true
	}
	unslow := u.slowAfter(2 * time.Second)
	for _, err := range shutdownAtOnce("Cluster.Shutdown", 2+int(g%2), func() error { return cl.Shutdown(ctx) }) {
		if err != nil {
			s.tornf("Cluster.Shutdown returned %v", err)
		}
	}
	unslow()
	select {
	case <-doneSeen:
	case <-time.After(lifeTimeout):
		dumpAndExit("Cluster.Done() was not released after Shutdown returned")
	}
	t0 := time.Now()
	within("a later Cluster.Shutdown did not return", func() {
		if err := cl.Shutdown(ctx); err != nil {
			s.tornf("a later Cluster.Shutdown returned %v", err)
		}
	})
	if d := time.Since(t0); d > 5*time.Second {
		s.tornf("a later Cluster.Shutdown took %s", d)
	}
	wasReady = <-readyOrDone
	u.lateCallsAndJoin("clusterlife", 10)
	return
}
