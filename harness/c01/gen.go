package main

import (
	"fmt"
	"strconv"
	"strings"

	"verifharness/common"
)

// ---------- pins ----------

const cidUniverse = 6

func randPeers(r *common.Rng, max int) string {
	n := r.Intn(max + 1)
	if n == 0 {
		return "-"
	}
	l := make([]int, n)
	for i := range l {
		l[i] = r.Intn(6)
	}
	return common.Ints(l)
}

func randMeta(r *common.Rng) string {
	if r.Chance(1, 2) {
		return "-"
	}
	var parts []string
	for k := 0; k < 4; k++ { // key 0 is the empty key, value 0 the empty value
		if r.Chance(2, 5) {
			parts = append(parts, fmt.Sprintf("%d:%d", k, r.Intn(3)))
		}
	}
	if len(parts) == 0 {
		return "-"
	}
	return strings.Join(parts, ",")
}

func randExpire(r *common.Rng) string {
	switch x := r.Intn(10); {
	case x < 5:
		return "z"
	case x == 5:
		return "u"
	case x == 6:
		return "p"
	default:
		return fmt.Sprintf("f%d", r.Range(1, 4))
	}
}

func randFactors(r *common.Rng) string {
	switch r.Intn(6) {
	case 0:
		return "0:0"
	case 1:
		return "-1:-1"
	case 2:
		return "1:1"
	case 3:
		return "2:3"
	case 4:
		return fmt.Sprintf("%d:%d", r.Range(-2, 4), r.Range(-2, 5))
	default:
		return "1:2"
	}
}

func optCid(r *common.Rng, num, den int) string {
	if r.Chance(num, den) {
		return strconv.Itoa(r.Intn(12))
	}
	return "-"
}

// randPin draws a pin token for cid c. origins>0 puts that many origins (known-finding stream);
// illFormed lets mode and depth disagree.
func randPin(r *common.Rng, c int, origins int, illFormed bool) string {
	typ := string("dddddmcsb"[r.Intn(9)])
	var mode, depth string
	switch typ {
	case "s":
		mode, depth = "r", strconv.Itoa(r.Range(1, 2))
	case "c":
		mode, depth = "d", "0"
	default:
		if r.Chance(1, 4) {
			mode, depth = "d", "0"
		} else {
			mode, depth = "r", "-1"
		}
		if r.Chance(1, 12) {
			mode, depth = "r", strconv.Itoa(r.Range(1, 3))
		}
	}
	if illFormed {
		if mode == "r" {
			mode = "d"
		} else {
			mode = "r"
		}
	}
	og := "-"
	if origins > 0 {
		l := make([]int, origins)
		for i := range l {
			l[i] = r.Intn(4)
		}
		og = common.Ints(l)
	}
	shard := "0"
	if typ == "s" || r.Chance(1, 8) {
		shard = strconv.Itoa(r.Range(1, 3) * 500)
	}
	return strings.Join([]string{
		strconv.Itoa(c), typ, randFactors(r), strconv.Itoa(r.Intn(3)), mode, depth, shard, randPeers(r, 4),
		randExpire(r), randMeta(r), optCid(r, 1, 8), og, optCid(r, 1, 4), randPeers(r, 2)}, "/")
}

// plainPin is api.PinCid(c).
func plainPin(c int) string {
	return fmt.Sprintf("%d/d/0:0/0/r/-1/0/-/z/-/-/-/-/-", c)
}

// genOps draws a history: per-CID pin / re-pin / unpin interleavings.
func genOps(r *common.Rng, n int, illFormedPct int) []op {
	var ops []op
	live := map[int]string{}
	for i := 0; i < n; i++ {
		c := r.Intn(cidUniverse)
		var liveCids []int
		for k := 0; k < cidUniverse; k++ {
			if _, ok := live[k]; ok {
				liveCids = append(liveCids, k)
			}
		}
		x := r.Intn(100)
		switch {
		case x < 55: // pin (new or replacing)
			t := randPin(r, c, 0, r.Chance(illFormedPct, 100))
			ops = append(ops, op{pin: true, tok: t})
			live[c] = t
		case x < 63 && len(liveCids) > 0: // identical re-pin
			c = liveCids[r.Intn(len(liveCids))]
			ops = append(ops, op{pin: true, tok: live[c]})
		case x < 90: // unpin, mostly of a live cid; carrying the stored pin (as Cluster.Unpin does) or a bare one
			if len(liveCids) > 0 && r.Chance(4, 5) {
				c = liveCids[r.Intn(len(liveCids))]
			}
			t := plainPin(c)
			if s, ok := live[c]; ok && r.Chance(1, 2) {
				t = s
			}
			ops = append(ops, op{pin: false, tok: t})
			delete(live, c)
		default: // unpin of whatever
			ops = append(ops, op{pin: false, tok: randPin(r, c, 0, false)})
			delete(live, c)
		}
	}
	return ops
}

// ---------- event scripts ----------

type simRep struct {
	up      bool
	applied int
	pending bool
	snaps   int
	dead    bool // poisoned by an undecodable op: stop applying on it
}

func genFSMCase(r *common.Rng, k int, tier string) (string, int, []op, []string) {
	maxOps := 30
	if tier == "thorough" {
		maxOps = 60
	}
	family := k % 10
	fsm := func(n int, ops []op, ev []string) (string, int, []op, []string) { return "fsm", n, ops, ev }
	switch {
	case family == 0:
		return fsm(genSystematic(r, k/10))
	case family == 1:
		return fsm(genLatePersist(r))
	case family == 2 && (k/10)%4 == 0:
		// raw log entries the FSM cannot decode, fed past commit(): robustness only
		n, ops, ev := genOrigins(r)
		return "fsmraw", n, ops, ev
	case family == 2 && (k/10)%4 == 2:
		return fsm(genGated(r))
	case family == 2:
		return fsm(genBurst(r))
	}
	n := r.Range(1, 3)
	nops := r.Range(0, maxOps)
	if r.Chance(1, 10) {
		nops = r.Range(0, 3)
	}
	ops := genOps(r, nops, 4)
	if r.Chance(1, 5) {
		// some submissions are refused by commit(): they are not part of the committed sequence
		ops = sprinkle(r, ops, r.Range(1, 2))
	}
	return fsm(n, ops, randomWalk(r, n, nops, r.Range(0, 3*nops+6), false, r.Chance(3, 4)))
}

// sprinkle inserts k operations commit() refuses (origins, reference to cid.Undef, no cid) at random places.
func sprinkle(r *common.Rng, ops []op, k int) []op {
	for j := 0; j < k; j++ {
		at := r.Intn(len(ops) + 1)
		ops = append(ops[:at], append([]op{undecodableOp(r)}, ops[at:]...)...)
	}
	return ops
}

// genGated: submitted histories in which 1-3 operations cannot be decoded: LogPin / LogUnpin refuse them
// with an error, the others are committed and every replica catches up with exactly those.
func genGated(r *common.Rng) (int, []op, []string) {
	n := r.Range(1, 3)
	ops := genOps(r, r.Range(1, 12), 2)
	nd := len(ops)
	ops = sprinkle(r, ops, r.Range(1, 3))
	return n, ops, randomWalk(r, n, nd, r.Range(2, 3*nd+6), false, true)
}

// randomWalk draws events, tracking just enough to keep most of them enabled.
// latePersist allows Apply/install between Snapshot() and Persist() (known finding K09 stream).
func randomWalk(r *common.Rng, n, nops, steps int, latePersist bool, epilogue bool) []string {
	reps := make([]*simRep, n)
	for i := range reps {
		reps[i] = &simRep{up: true}
	}
	var ev []string
	emit := func(i int, code string) { ev = append(ev, fmt.Sprintf("%d%s", i, code)) }
	for s := 0; s < steps; s++ {
		i := r.Intn(n)
		p := reps[i]
		if !p.up {
			switch x := r.Intn(10); {
			case x < 6:
				emit(i, "r")
				p.up, p.pending = true, false
				p.applied = -1 // unknown to the generator (newest snapshot index): harmless
			case x < 8:
				emit(i, "o")
			default:
				emit(i, []string{"a", "s", "k", "d"}[r.Intn(4)]) // disabled events are no-ops
			}
			continue
		}
		x := r.Intn(100)
		switch {
		case x < 1 && nops > 0 && !latePersist:
			// a batch of committed entries applied back to back
			if p.pending {
				emit(i, "p")
				p.pending = false
			}
			emit(i, fmt.Sprintf("B%d", r.Range(1, nops)))
		case x < 52:
			if p.pending && !latePersist {
				emit(i, "p")
				p.pending = false
				p.snaps++
			} else {
				emit(i, "a")
			}
		case x < 60:
			if p.pending {
				emit(i, "p")
				p.pending = false
			} else {
				emit(i, "s")
			}
			p.snaps++
		case x < 66:
			if latePersist || r.Chance(1, 2) {
				emit(i, "b")
				p.pending = true
			} else {
				emit(i, "b")
				emit(i, "p")
				p.snaps++
			}
		case x < 70:
			emit(i, "p")
			p.pending = false
		case x < 82:
			src := r.Intn(n)
			if p.pending && !latePersist {
				emit(i, "p")
				p.pending = false
			}
			emit(i, fmt.Sprintf("i%d", src))
		case x < 88:
			emit(i, "d")
			p.up, p.pending = false, false
		case x < 94:
			emit(i, "k")
			p.up, p.pending = false, false
		case x < 97:
			emit(i, "r") // no-op on a running peer
		default:
			emit(i, "o")
		}
	}
	if epilogue {
		// everybody comes back and catches up
		for i, p := range reps {
			if !p.up {
				emit(i, "r")
			} else if p.pending && !latePersist {
				emit(i, "p")
			}
			for j := 0; j < nops; j++ {
				emit(i, "a")
			}
		}
	}
	return ev
}

// genSystematic: a short history; replica 0 applies everything; one disruption of kind d placed at
// position pos (all positions and kinds are enumerated by the case index).
func genSystematic(r *common.Rng, idx int) (int, []op, []string) {
	nops := 3 + idx%4 // 3..6
	ops := genOps(r, nops, 0)
	kinds := 8
	pos := (idx / 4) % (nops + 1)
	kind := (idx / 4 / (nops + 1)) % kinds
	var ev []string
	a0 := func(k int) {
		for j := 0; j < k; j++ {
			ev = append(ev, "0a")
		}
	}
	a1 := func(k int) {
		for j := 0; j < k; j++ {
			ev = append(ev, "1a")
		}
	}
	switch kind {
	case 0: // snapshot, kill, restart, replay the rest
		a0(pos)
		ev = append(ev, "0s", "0k", "0o", "0r")
		a0(nops)
	case 1: // shutdown (snapshot on shutdown), offline read, restart
		a0(pos)
		ev = append(ev, "0d", "0o", "0r")
		a0(nops)
	case 2: // kill without any snapshot: restart replays the whole log
		a0(pos)
		ev = append(ev, "0k", "0r")
		a0(nops)
	case 3: // follower applied pos entries, leader all; leader snapshot installed onto the non-empty follower
		a1(pos)
		a0(nops)
		ev = append(ev, "0s", "1i0")
		a1(nops)
	case 4: // leader snapshot at pos installed on a follower which is at most there, then the follower replays
		lag := r.Intn(pos + 1)
		a1(lag)
		a0(pos)
		ev = append(ev, "0s", "1i0")
		a0(nops)
		a1(nops)
	case 5: // old snapshot kept, newer entries only in the log: kill after more applies
		a0(pos)
		ev = append(ev, "0s")
		a0(nops)
		ev = append(ev, "0k", "0o", "0r")
		a0(nops)
	case 6: // snapshot, shutdown at a later point: two snapshots, the newer one wins
		a0(pos)
		ev = append(ev, "0s")
		a0((nops - pos + 1) / 2)
		ev = append(ev, "0d", "0r")
		a0(nops)
	default: // follower restarts from an installed snapshot
		a0(nops)
		ev = append(ev, "0s")
		a1(pos)
		ev = append(ev, "1i0", "1k", "1o", "1r")
		a1(nops)
	}
	return 2, ops, ev
}

// genLatePersist: Snapshot() and Persist() separated by applies (K09 stream), the snapshot then
// restored somewhere and the log re-applied.
func genLatePersist(r *common.Rng) (int, []op, []string) {
	if r.Chance(1, 2) {
		n := r.Range(1, 3)
		ops := genOps(r, r.Range(2, 24), 0)
		return n, ops, randomWalk(r, n, len(ops), r.Range(4, 3*len(ops)+6), true, true)
	}
	nops := r.Range(3, 10)
	ops := genOps(r, nops, 0)
	k := r.Intn(nops)
	late := r.Range(1, nops-k)
	var ev []string
	for j := 0; j < k; j++ {
		ev = append(ev, "0a")
	}
	ev = append(ev, "0b")
	for j := 0; j < late; j++ {
		ev = append(ev, "0a")
	}
	ev = append(ev, "0p")
	if r.Bool() {
		ev = append(ev, "0k", "0r")
		for j := 0; j < nops; j++ {
			ev = append(ev, "0a")
		}
	} else {
		for j := 0; j < r.Intn(k+1); j++ {
			ev = append(ev, "1a")
		}
		ev = append(ev, "1i0")
		for j := 0; j < nops; j++ {
			ev = append(ev, "1a")
		}
	}
	return 2, ops, ev
}

// undecodableOp draws an op no replica can decode: origins, a reference to cid.Undef, no cid.
// Since /repo 3d753d4 commit() refuses all three.
func undecodableOp(r *common.Rng) op {
	c := r.Intn(cidUniverse)
	switch r.Intn(4) {
	case 0: // reference -> cid.Undef: the first shard pin of a sharded add before 9d8b946
		f := strings.Split(randPin(r, c, 0, false), "/")
		f[1], f[4], f[5], f[12] = "s", "r", "1", strconv.Itoa(undefIdx)
		return op{pin: r.Chance(4, 5), tok: strings.Join(f, "/")}
	case 1: // no cid
		return op{pin: r.Bool(), tok: randPin(r, undefIdx, 0, false)}
	}
	return op{pin: r.Chance(4, 5), tok: randPin(r, c, r.Range(1, 2), false)}
}

// genOrigins (kind fsmraw): the LAST log entry cannot be decoded; nothing can be applied after it on
// the same FSM instance without crashing the process. Not reachable through commit() since 3d753d4.
func genOrigins(r *common.Rng) (int, []op, []string) {
	n := r.Range(1, 2)
	ops := genOps(r, r.Range(0, 10), 0)
	ops = append(ops, undecodableOp(r))
	var ev []string
	for i := 0; i < n; i++ {
		for j := 0; j < len(ops)-1; j++ {
			ev = append(ev, fmt.Sprintf("%da", i))
			if r.Chance(1, 6) {
				ev = append(ev, fmt.Sprintf("%ds", i))
			}
		}
	}
	for i := 0; i < n; i++ {
		ev = append(ev, fmt.Sprintf("%da", i))
		switch r.Intn(4) {
		case 0:
			ev = append(ev, fmt.Sprintf("%ds", i))
		case 1:
			ev = append(ev, fmt.Sprintf("%dd", i), fmt.Sprintf("%dr", i))
		case 2:
			ev = append(ev, fmt.Sprintf("%dk", i), fmt.Sprintf("%dr", i))
		}
	}
	return n, ops, ev
}

// genBurst: histories with a pin immediately followed by the unpin (or re-pin) of the same cid, applied
// back to back. S = the tracker's Track handler is reached late (forced reordering, K29 stream),
// B = whatever the scheduler does.
func genBurst(r *common.Rng) (int, []op, []string) {
	var ops []op
	n := r.Range(1, 4)
	for i := 0; i < n; i++ {
		c := r.Intn(cidUniverse)
		t := randPin(r, c, 0, false)
		ops = append(ops, op{pin: true, tok: t})
		switch r.Intn(3) {
		case 0:
			ops = append(ops, op{pin: false, tok: t})
		case 1:
			ops = append(ops, op{pin: false, tok: plainPin(c)})
		default:
			ops = append(ops, op{pin: true, tok: randPin(r, r.Intn(cidUniverse), 0, false)})
		}
	}
	code := "B"
	if r.Chance(1, 2) {
		code = "S"
	}
	nc := len(ops)
	if r.Chance(1, 3) {
		ops = sprinkle(r, ops, 1) // a refused submission between them changes nothing
	}
	var ev []string
	done := 0
	for done < nc {
		step := r.Range(1, 4)
		if done+step > nc {
			step = nc - done
		}
		done += step
		if step == 1 && r.Bool() {
			ev = append(ev, "0a")
		} else {
			ev = append(ev, fmt.Sprintf("0%s%d", code, done))
		}
	}
	ev = append(ev, "0s", "0k", "0r")
	return 1, ops, ev
}
