package main

// kind net: three real Raft nodes on loopback. The input tokens use ROLES (0 = the leader at the time,
// 1 = the follower which is stopped and brought back, 2 = the other follower); the emitted case line
// names the actual nodes:
//
//   a     the next op is submitted at some running member (round robin; non-leaders redirect to the
//         leader over libp2p RPC) — obs taken on the leader, which committed it
//   A<c>  a running follower has applied everything committed so far (c ops) — obs then
//   s     forced snapshot on the leader (TrailingLogs is 1: its log is compacted)
//   d     shutdown of a node (snapshot on shutdown)
//   o     raft.OfflineState of a stopped node
//   C     role 1 comes back on its data folder; emitted as R<c> (own snapshot + log replay) or
//         I<src>:<c> (own snapshot restored, then the leader's snapshot installed ONTO that state, then
//         the rest of the log), whichever Raft did (a new snapshot file appears in its folder).
//
// Leadership changes (role 0 = whoever leads at that moment, role 3 = the leader stopped last):
//   0D    the LEADER is shut down (snapshot on shutdown); the two survivors elect a new leader and the
//         following commits go through it
//   0K    the leader is stopped WITHOUT a snapshot (its Raft instance is halted first, so the snapshot on
//         shutdown cannot be taken: what a killed process leaves on disk)
//   3C    the old leader comes back on its data folder (R<c> / I<src>:<c> as above), 3o its offline read
//   0Z    every running node is shut down, each followed by its offline read
//
// Every emitted token carries `@<k>:<input token>` (k = position in the input script) so that a replay
// can rebuild the role script; the driver ignores it.

import (
	"context"
	"fmt"
	"strings"
	"time"

	peerstore "github.com/libp2p/go-libp2p-core/peerstore"

	"verifharness/common"
)

type netw struct {
	ops    []op
	nodes  []*node
	next   int
	idxOf  []uint64 // Raft index of op k
	mapl   []int    // per node: ops applied according to the emitted tokens
	role   map[int]int
	evs    []string
	obs    []string
	submit int
	cur    int    // position of the input token being executed
	curTok string // that token
	oldLdr int    // the leader stopped last (-1: none)
	annot  bool   // annotate emitted tokens with their input token
}

func (w *netw) connectAll() {
	for _, a := range w.nodes {
		if a.h == nil {
			continue
		}
		for _, b := range w.nodes {
			if b.h == nil || a == b {
				continue
			}
			a.h.Peerstore().AddAddrs(b.id, b.h.Addrs(), peerstore.PermanentAddrTTL)
		}
	}
}

// leader waits until every running node names the same running node as leader and that node is in
// Leader state (after a leader was stopped the survivors learn about the new one at different times).
func (w *netw) leader() (int, error) {
	deadline := time.Now().Add(readyTimeout)
	for time.Now().Before(deadline) {
		found, agree := -1, true
		for _, n := range w.nodes {
			if !n.up {
				continue
			}
			l, err := n.cc.Leader(context.Background())
			if err != nil {
				agree = false
				break
			}
			j := -1
			for k, m := range w.nodes {
				if m.id == l && m.up && m.cc.VerifRaft().State().String() == "Leader" {
					j = k
				}
			}
			if j < 0 || (found >= 0 && found != j) {
				agree = false
				break
			}
			found = j
		}
		if agree && found >= 0 {
			return found, nil
		}
		time.Sleep(50 * time.Millisecond)
	}
	return -1, infra("no leader")
}

func (w *netw) opsUpTo(raftIdx uint64) int {
	c := 0
	for _, i := range w.idxOf {
		if i <= raftIdx {
			c++
		}
	}
	return c
}

func (w *netw) emit(tok, obs string) {
	if w.annot {
		tok = fmt.Sprintf("%s@%d:%s", tok, w.cur, w.curTok)
	}
	w.evs = append(w.evs, tok)
	w.obs = append(w.obs, obs)
}

// halt stops a node the way a killed process leaves it: the Raft instance is shut down first, so that
// Consensus.Shutdown cannot take its snapshot; the stores are then closed. Reports whether that held
// (no new snapshot file).
func (w *netw) halt(i int) bool {
	n := w.nodes[i]
	before := n.snapshotCount()
	bi := w.snapIndex(i)
	n.cc.VerifRaft().Shutdown().Error()
	n.stop()
	return n.snapshotCount() == before && w.snapIndex(i) == bi
}

// waitApplied waits until node i has applied Raft index target.
func (w *netw) waitApplied(i int, target uint64) error {
	deadline := time.Now().Add(readyTimeout)
	for time.Now().Before(deadline) {
		if w.nodes[i].cc.VerifRaft().AppliedIndex() >= target {
			return nil
		}
		time.Sleep(20 * time.Millisecond)
	}
	return infra("node %d did not catch up", i)
}

// catchUp emits A<c> for a running node which the tokens so far leave behind.
func (w *netw) catchUp(i int) error {
	c := len(w.idxOf)
	if !w.nodes[i].up || w.mapl[i] >= c {
		return nil
	}
	if err := w.waitApplied(i, w.idxOf[c-1]); err != nil {
		return err
	}
	n := w.nodes[i]
	calls, got := n.tr.take(c - w.mapl[i])
	if !got {
		return infra("node %d: tracker calls of catch-up missing", i)
	}
	w.mapl[i] = c
	// arrival order at the follower's tracker is kept: the calls are synchronous
	cs := "-"
	if len(calls) > 0 {
		cs = strings.Join(calls, "+")
	}
	w.emit(fmt.Sprintf("%dA%d", i, c), fmt.Sprintf("ok~%d~%s~%s", w.opsUpTo(n.cc.VerifRaft().AppliedIndex()), n.view(), cs))
	return nil
}

func (w *netw) commit() error {
	if w.next >= len(w.ops) {
		return nil
	}
	l, err := w.leader()
	if err != nil {
		return err
	}
	if err := w.catchUp(l); err != nil {
		return err
	}
	// submit at any running member
	var upIdx []int
	for i, n := range w.nodes {
		if n.up {
			upIdx = append(upIdx, i)
		}
	}
	at := upIdx[w.submit%len(upIdx)]
	w.submit++
	o := w.ops[w.next]
	if err := w.nodes[at].submit(o); err != nil {
		return infra("submit at node %d failed: %v", at, err)
	}
	l2, err := w.leader()
	if err != nil {
		return err
	}
	if l2 != l {
		return infra("leader changed during a commit")
	}
	ln := w.nodes[l]
	w.idxOf = append(w.idxOf, ln.cc.VerifRaft().LastIndex())
	ln.settle()
	w.next++
	calls, got := ln.tr.take(1)
	if !got {
		return infra("leader tracker call missing")
	}
	w.mapl[l] = len(w.idxOf)
	w.emit(fmt.Sprintf("%da", l), fmt.Sprintf("ok~%d~%s~%s", w.opsUpTo(ln.cc.VerifRaft().AppliedIndex()), ln.view(), sortedCalls(calls)))
	return nil
}

func (w *netw) nodeOfRole(role int) (int, error) {
	if i, ok := w.role[role]; ok {
		return i, nil
	}
	if role == 3 {
		if w.oldLdr < 0 {
			return -1, fmt.Errorf("no stopped leader")
		}
		return w.oldLdr, nil
	}
	l, err := w.leader()
	if err != nil {
		return -1, err
	}
	used := map[int]bool{}
	for _, i := range w.role {
		used[i] = true
	}
	if role == 0 {
		return l, nil // the leader role is resolved at every use
	}
	for i := range w.nodes {
		if i != l && !used[i] {
			w.role[role] = i
			return i, nil
		}
	}
	return -1, fmt.Errorf("no node for role %d", role)
}

func (w *netw) snapIndex(i int) uint64 {
	n := w.nodes[i]
	store, err := hraftSnapStore(n)
	if err != nil {
		return 0
	}
	metas, _ := store.List()
	if len(metas) == 0 {
		return 0
	}
	return metas[0].Index
}

func runNet(ops []op, events []string) ([]op, []string, []string, error) {
	base, err := scratchDir("c01-net-")
	if err != nil {
		return nil, nil, nil, infra("scratch: %v", err)
	}
	defer removeAll(base)
	w := &netw{ops: ops, mapl: make([]int, 3), role: map[int]int{}, oldLdr: -1}
	for _, e := range events {
		if len(e) >= 2 && (e[1] == 'D' || e[1] == 'K' || e[1] == 'Z') {
			w.annot = true
		}
	}
	defer func() {
		for _, n := range w.nodes {
			if n.up {
				n.stop()
			}
		}
	}()
	for i := 0; i < 3; i++ {
		n, err := newNode(fmt.Sprintf("%s/n%d", base, i))
		if err != nil {
			return nil, nil, nil, err
		}
		n.trailing = 1
		if err := n.openHost(); err != nil {
			return nil, nil, nil, err
		}
		w.nodes = append(w.nodes, n)
	}
	for _, a := range w.nodes {
		for _, b := range w.nodes {
			if a != b {
				a.peers = append(a.peers, b.id)
			}
		}
	}
	w.connectAll()
	for _, n := range w.nodes {
		if err := n.start(); err != nil {
			return nil, nil, nil, err
		}
	}
	for _, n := range w.nodes {
		if err := n.waitReady(); err != nil {
			return nil, nil, nil, err
		}
	}
	for k, e := range events {
		if len(e) < 2 {
			return nil, nil, nil, fmt.Errorf("bad token %s", e)
		}
		w.cur, w.curTok = k, e
		role := int(e[0] - '0')
		code := e[1:]
		switch {
		case code == "D" || code == "K":
			l, err := w.leader()
			if err != nil {
				return nil, nil, nil, err
			}
			if err := w.catchUp(l); err != nil {
				return nil, nil, nil, err
			}
			n := w.nodes[l]
			a := w.opsUpTo(n.cc.VerifRaft().AppliedIndex())
			if code == "K" {
				if w.halt(l) {
					w.emit(fmt.Sprintf("%dK", l), fmt.Sprintf("ok~%d~D~-", a))
				} else {
					// a snapshot was written after all: that is a shutdown
					w.emit(fmt.Sprintf("%dD", l), fmt.Sprintf("ok~%d~D~-", a))
				}
			} else {
				n.stop()
				res := "err"
				if n.snapshotCount() > 0 {
					res = "ok"
				}
				w.emit(fmt.Sprintf("%dD", l), fmt.Sprintf("%s~%d~D~-", res, a))
			}
			w.oldLdr = l
		case code == "Z":
			for i, n := range w.nodes {
				if !n.up {
					continue
				}
				if err := w.catchUp(i); err != nil {
					return nil, nil, nil, err
				}
				a := w.opsUpTo(n.cc.VerifRaft().AppliedIndex())
				n.stop()
				res := "err"
				if n.snapshotCount() > 0 {
					res = "ok"
				}
				w.emit(fmt.Sprintf("%dd", i), fmt.Sprintf("%s~%d~D~-", res, a))
				v, err := n.offline()
				if err != nil {
					return nil, nil, nil, err
				}
				w.emit(fmt.Sprintf("%do", i), fmt.Sprintf("ok~%d~%s~-", w.opsUpTo(w.snapIndex(i)), v))
			}
		case code == "a":
			if err := w.commit(); err != nil {
				return nil, nil, nil, err
			}
		case strings.HasPrefix(code, "A"):
			for i := range w.nodes {
				if err := w.catchUp(i); err != nil {
					return nil, nil, nil, err
				}
			}
		case code == "s" || code == "n":
			l, err := w.leader()
			if err != nil {
				return nil, nil, nil, err
			}
			if err := w.catchUp(l); err != nil {
				return nil, nil, nil, err
			}
			ln := w.nodes[l]
			res := "ok"
			if err := ln.cc.VerifRaft().Snapshot().Error(); err != nil {
				res = "err"
				if err.Error() == "nothing new to snapshot" {
					res = "noop"
				}
			}
			w.emit(fmt.Sprintf("%dn", l), fmt.Sprintf("%s~%d~%s~-", res, w.opsUpTo(ln.cc.VerifRaft().AppliedIndex()), ln.view()))
		case code == "d":
			i, err := w.nodeOfRole(role)
			if err != nil {
				return nil, nil, nil, err
			}
			n := w.nodes[i]
			if !n.up {
				continue
			}
			if err := w.catchUp(i); err != nil {
				return nil, nil, nil, err
			}
			a := w.opsUpTo(n.cc.VerifRaft().AppliedIndex())
			n.stop()
			res := "err"
			if n.snapshotCount() > 0 {
				res = "ok"
			}
			w.emit(fmt.Sprintf("%dd", i), fmt.Sprintf("%s~%d~D~-", res, a))
		case code == "o":
			i, err := w.nodeOfRole(role)
			if err != nil {
				return nil, nil, nil, err
			}
			n := w.nodes[i]
			if n.up {
				continue
			}
			v, err := n.offline()
			if err != nil {
				return nil, nil, nil, err
			}
			w.emit(fmt.Sprintf("%do", i), fmt.Sprintf("ok~%d~%s~-", w.opsUpTo(w.snapIndex(i)), v))
		case code == "C" || strings.HasPrefix(code, "R") || strings.HasPrefix(code, "I"):
			i, err := w.nodeOfRole(role)
			if err != nil {
				return nil, nil, nil, err
			}
			n := w.nodes[i]
			if n.up {
				continue
			}
			before := w.snapIndex(i)
			if err := n.openHost(); err != nil {
				return nil, nil, nil, err
			}
			w.connectAll()
			if err := n.start(); err != nil {
				return nil, nil, nil, err
			}
			if err := n.waitReady(); err != nil {
				return nil, nil, nil, err
			}
			c := len(w.idxOf)
			if c > 0 {
				if err := w.waitApplied(i, w.idxOf[c-1]); err != nil {
					return nil, nil, nil, err
				}
			}
			after := w.snapIndex(i)
			from := w.opsUpTo(before)
			tok := fmt.Sprintf("%dR%d", i, c)
			if after > before {
				l, err := w.leader()
				if err != nil {
					return nil, nil, nil, err
				}
				from = w.opsUpTo(after)
				tok = fmt.Sprintf("%dI%d:%d", i, l, c)
			}
			calls, got := n.tr.take(c - from)
			if !got {
				return nil, nil, nil, infra("node %d: replay tracker calls missing", i)
			}
			w.mapl[i] = c
			cs := "-"
			if len(calls) > 0 {
				cs = strings.Join(calls, "+")
			}
			w.emit(tok, fmt.Sprintf("ok~%d~%s~%s~%d", w.opsUpTo(n.cc.VerifRaft().AppliedIndex()), n.view(), cs, from))
		default:
			return nil, nil, nil, fmt.Errorf("bad token %s", e)
		}
	}
	g := "G-"
	if w.next > 0 {
		g = "G" + strings.Repeat("1", w.next) // every op of a net history was acknowledged
	}
	return ops[:w.next], w.evs, append([]string{g}, w.obs...), nil
}

// genNetCase: role-based script.
// genNetLeaderCase: the leader is shut down or stopped without a snapshot between commits (once or
// twice); a new leader continues; optionally it snapshots (its log is compacted: the old leader then
// needs InstallSnapshot); the old leader comes back; everybody catches up; all nodes are shut down and read offline.
func genNetLeaderCase(r *common.Rng, k int) (int, []op, []string) {
	nops := r.Range(6, 14)
	ops := genOps(r, nops, 0)
	var ev []string
	left := nops
	add := func(n int) {
		if n > left {
			n = left
		}
		for i := 0; i < n; i++ {
			ev = append(ev, "0a")
		}
		left -= n
	}
	changes := 1 + k%2
	for c := 0; c < changes; c++ {
		add(r.Range(1, 3))
		if r.Chance(1, 2) {
			ev = append(ev, "0A")
		}
		if r.Chance(1, 2) {
			ev = append(ev, "0D")
		} else {
			ev = append(ev, "0K")
		}
		if r.Chance(1, 2) {
			ev = append(ev, "3o")
		}
		add(r.Range(1, 3))
		if r.Chance(1, 2) {
			ev = append(ev, "0s")
			add(r.Range(0, 2))
		}
		ev = append(ev, "0A", "3C")
		add(r.Range(0, 2))
		ev = append(ev, "0A")
	}
	add(left)
	ev = append(ev, "0A", "0Z")
	return 3, ops, ev
}

func genNetCase(r *common.Rng, k int) (int, []op, []string) {
	if k%2 == 1 {
		return genNetLeaderCase(r, k/2)
	}
	nops := r.Range(6, 14)
	ops := genOps(r, nops, 0)
	k1 := r.Range(1, 3)
	k2 := r.Range(1, 3)
	k3 := r.Range(0, 2)
	var ev []string
	add := func(n int) {
		for i := 0; i < n; i++ {
			ev = append(ev, "0a")
		}
	}
	add(k1)
	ev = append(ev, "0A")
	ev = append(ev, "1d", "1o")
	add(k2)
	ev = append(ev, "0s")
	add(k3)
	ev = append(ev, "0A", "1C")
	add(nops - k1 - k2 - k3)
	ev = append(ev, "0A", "1d", "1o", "2d", "2o")
	return 3, ops, ev
}

// normalizeNet turns the node-numbered tokens of an emitted net case back into a role script
// (which node leads is only known at run time).
func normalizeNet(events []string) []string {
	annotated := false
	for _, e := range events {
		if strings.Contains(e, "@") {
			annotated = true
		}
	}
	if annotated {
		// `<node><code>@<k>:<input token>`: the input script is the tokens in order of k, one per k
		var out []string
		last := ""
		for _, e := range events {
			at := strings.Index(e, "@")
			if at < 0 {
				continue
			}
			kt := strings.SplitN(e[at+1:], ":", 2)
			if len(kt) != 2 || kt[0] == last {
				continue
			}
			last = kt[0]
			out = append(out, kt[1])
		}
		return out
	}
	for _, e := range events {
		if len(e) >= 2 && (e[1] == 'D' || e[1] == 'K' || e[1] == 'Z' || e[0] == '3') {
			return events // a role script with leadership changes, as written
		}
	}
	first := byte(0)
	for _, e := range events {
		if len(e) >= 2 && e[1] == 'd' {
			first = e[0]
			break
		}
	}
	var out []string
	for _, e := range events {
		if len(e) < 2 {
			continue
		}
		switch e[1] {
		case 'a', 's', 'n':
			out = append(out, "0"+e[1:])
		case 'A':
			if len(out) == 0 || out[len(out)-1] != "0A" {
				out = append(out, "0A")
			}
		case 'R', 'I', 'C':
			out = append(out, "1C")
		default:
			role := "2"
			if e[0] == first {
				role = "1"
			}
			out = append(out, role+e[1:])
		}
	}
	return out
}
