package main

// Real raft.NewConsensus nodes on loopback libp2p hosts (thorough tier).
//
// kind raft1: one node. Events (replica 0):
//   a   LogPin / LogUnpin of the next submitted op (commit); obs after the call returned.
//       Emitted as x when the call returned an error (obs fail~…): commit() refuses an operation
//       that cannot be decoded (3d753d4); the op is then not part of the committed sequence (G bit 0).
//   s   forced Raft snapshot
//   d   Consensus.Shutdown (snapshot on shutdown), host closed
//   o   raft.OfflineState on the data folder of the stopped node
//   R<c> restart on the same data folder and wait until ready: Raft restores the newest snapshot and
//        re-applies its log, c = number of committed ops; obs = what the node serves then
// kind kill: the node first runs in a child process which is SIGKILLed with one op in flight (k), then R<c>.
// kind net: three nodes, see net.go.
//
// "applied" in an observation is derived from Raft itself: the Raft index of every op is read from
// the log store (VerifLogCommands) and AppliedIndex / the snapshot's index are mapped through it.

import (
	"bufio"
	"context"
	"crypto/rand"
	"errors"
	"fmt"
	"io/ioutil"
	"os"
	"os/exec"
	"path/filepath"
	"sort"
	"strconv"
	"strings"
	"sync/atomic"
	"time"

	"github.com/ipfs/ipfs-cluster/api"
	"github.com/ipfs/ipfs-cluster/consensus/raft"
	"github.com/ipfs/ipfs-cluster/datastore/inmem"

	hraft "github.com/hashicorp/raft"
	libp2p "github.com/libp2p/go-libp2p"
	crypto "github.com/libp2p/go-libp2p-core/crypto"
	host "github.com/libp2p/go-libp2p-core/host"
	peer "github.com/libp2p/go-libp2p-core/peer"
	rpc "github.com/libp2p/go-libp2p-gorpc"

	"verifharness/common"
)

const readyTimeout = 40 * time.Second

type infraError struct{ what string }

func (e *infraError) Error() string { return e.what }

func infra(format string, a ...interface{}) error { return &infraError{fmt.Sprintf(format, a...)} }

// consensusRPC lets other members redirect LogPin / LogUnpin to this node when it leads.
// A fault injector in front of it fails the next failNext forwarded requests without doing anything
// (what a leader answers while it is losing leadership, or an unreachable leader): kind redir.
type consensusRPC struct{ n *node }

var errInjected = errors.New("injected: forwarded request not executed")

func (c *consensusRPC) fail() bool {
	atomic.AddInt32(&c.n.fwdSeen, 1)
	return atomic.AddInt32(&c.n.failNext, -1) >= 0
}

func (c *consensusRPC) LogPin(ctx context.Context, in *api.Pin, out *struct{}) error {
	if c.fail() {
		return errInjected
	}
	return c.n.cc.LogPin(ctx, in)
}
func (c *consensusRPC) LogUnpin(ctx context.Context, in *api.Pin, out *struct{}) error {
	if c.fail() {
		return errInjected
	}
	return c.n.cc.LogUnpin(ctx, in)
}
func (c *consensusRPC) AddPeer(ctx context.Context, in peer.ID, out *struct{}) error {
	if c.fail() {
		return errInjected
	}
	return c.n.cc.AddPeer(ctx, in)
}
func (c *consensusRPC) RmPeer(ctx context.Context, in peer.ID, out *struct{}) error {
	if c.fail() {
		return errInjected
	}
	return c.n.cc.RmPeer(ctx, in)
}

type node struct {
	failNext   int32 // forwarded requests still to fail (atomic)
	fwdSeen    int32 // forwarded requests received (atomic)
	retries    int   // CommitRetries (0 = package default unless retriesSet)
	retriesSet bool
	dir        string
	priv       crypto.PrivKey
	id         peer.ID
	peers      []peer.ID // initial peerset (others)
	trailing   uint64
	h          host.Host
	cc         *raft.Consensus
	tr         *tracker
	up         bool
	idxOf      []uint64 // Raft index of op k (as far as known)
}

func newNode(dir string) (*node, error) {
	priv, _, err := crypto.GenerateEd25519Key(rand.Reader)
	if err != nil {
		return nil, err
	}
	id, err := peer.IDFromPrivateKey(priv)
	if err != nil {
		return nil, err
	}
	return &node{dir: dir, priv: priv, id: id, trailing: 10240}, nil
}

func (n *node) saveKey() error {
	b, err := crypto.MarshalPrivateKey(n.priv)
	if err != nil {
		return err
	}
	if err := os.MkdirAll(n.dir, 0700); err != nil {
		return err
	}
	return ioutil.WriteFile(filepath.Join(n.dir, "key"), b, 0600)
}

func loadNode(dir string) (*node, error) {
	b, err := ioutil.ReadFile(filepath.Join(dir, "key"))
	if err != nil {
		return nil, err
	}
	priv, err := crypto.UnmarshalPrivateKey(b)
	if err != nil {
		return nil, err
	}
	id, err := peer.IDFromPrivateKey(priv)
	if err != nil {
		return nil, err
	}
	return &node{dir: dir, priv: priv, id: id, trailing: 10240}, nil
}

func (n *node) config() *raft.Config {
	cfg := &raft.Config{}
	cfg.Default()
	cfg.DataFolder = filepath.Join(n.dir, "raft")
	cfg.Tracing = tracing
	cfg.InitPeerset = n.peers
	cfg.WaitForLeaderTimeout = readyTimeout
	cfg.RaftConfig.HeartbeatTimeout = 400 * time.Millisecond
	cfg.RaftConfig.ElectionTimeout = 400 * time.Millisecond
	cfg.RaftConfig.LeaderLeaseTimeout = 300 * time.Millisecond
	cfg.RaftConfig.CommitTimeout = 20 * time.Millisecond
	cfg.RaftConfig.SnapshotInterval = time.Hour // only forced snapshots and the one at shutdown
	cfg.RaftConfig.SnapshotThreshold = 1 << 30
	cfg.RaftConfig.TrailingLogs = n.trailing
	if n.retriesSet {
		cfg.CommitRetries = n.retries
		cfg.CommitRetryDelay = 50 * time.Millisecond
	}
	return cfg
}

// openHost creates the libp2p host (own identity, loopback, any port).
func (n *node) openHost() error {
	h, err := libp2p.New(context.Background(),
		libp2p.Identity(n.priv),
		libp2p.ListenAddrStrings("/ip4/127.0.0.1/tcp/0"))
	if err != nil {
		return infra("libp2p host: %v", err)
	}
	n.h = h
	return nil
}

// start opens the consensus component on the node's data folder (host must be open).
func (n *node) start() error {
	tr := &tracker{}
	s := rpc.NewServer(n.h, "/c01/rpc")
	if err := s.RegisterName("PinTracker", tr); err != nil {
		return err
	}
	if err := s.RegisterName("Consensus", &consensusRPC{n}); err != nil {
		return err
	}
	cl := rpc.NewClientWithServer(n.h, "/c01/rpc", s)
	cc, err := raft.NewConsensus(n.h, n.config(), inmem.New(), false)
	if err != nil {
		return infra("NewConsensus: %v", err)
	}
	n.cc, n.tr = cc, tr
	cc.SetClient(cl)
	n.up = true
	return nil
}

func (n *node) waitReady() error {
	select {
	case <-n.cc.Ready(context.Background()):
		return nil
	case <-time.After(readyTimeout):
		return infra("consensus not ready (no leader) within %s", readyTimeout)
	}
}

func (n *node) stop() { n.stopCtx(context.Background()) }

// shutdownCtx: the context Consensus.Shutdown is called with for the event codes of kind shut:
// dl live, dt deadline-bound (30 s ahead), de deadline already passed, dc cancelled before the call.
func shutdownCtx(code string) (context.Context, context.CancelFunc) {
	switch code {
	case "dt":
		return context.WithTimeout(context.Background(), 30*time.Second)
	case "de":
		return context.WithDeadline(context.Background(), time.Now().Add(-time.Second))
	case "dc":
		ctx, cancel := context.WithCancel(context.Background())
		cancel()
		return ctx, cancel
	}
	return context.WithCancel(context.Background())
}

func (n *node) stopCtx(ctx context.Context) {
	if n.cc != nil {
		n.cc.Shutdown(ctx)
	}
	if n.h != nil {
		n.h.Close()
	}
	n.cc, n.h = nil, nil
	n.up = false
}

func (n *node) view() string {
	st, err := n.cc.State(context.Background())
	if err != nil {
		return "E"
	}
	l, err := st.List(context.Background())
	if err != nil {
		return "listerr"
	}
	return common.PinsetTok(l)
}

// refreshIdx reads the Raft indexes of the command entries from the log store (no compaction assumed
// below the first unknown op: single-node kinds keep the whole log).
func (n *node) refreshIdx() error {
	idx, err := n.cc.VerifLogCommands()
	if err != nil {
		return infra("reading the log store: %v", err)
	}
	if len(idx) >= len(n.idxOf) {
		n.idxOf = idx
	}
	return nil
}

// opsUpTo maps a Raft index to the number of ops at or below it.
func (n *node) opsUpTo(raftIdx uint64) int {
	c := 0
	for _, i := range n.idxOf {
		if i <= raftIdx {
			c++
		}
	}
	return c
}

// settle waits until Raft has recorded as applied everything in its log: LogPin returns when the FSM
// has answered, which can be a moment before Raft's main loop advances AppliedIndex.
func (n *node) settle() {
	r := n.cc.VerifRaft()
	deadline := time.Now().Add(5 * time.Second)
	for r.AppliedIndex() < r.LastIndex() && time.Now().Before(deadline) {
		time.Sleep(200 * time.Microsecond)
	}
}

func (n *node) appliedOps() int {
	n.settle()
	return n.opsUpTo(n.cc.VerifRaft().AppliedIndex())
}

func (n *node) submit(o op) error {
	ctx, cancel := context.WithTimeout(context.Background(), 60*time.Second)
	defer cancel()
	if o.pin {
		return n.cc.LogPin(ctx, pinOf(o.tok))
	}
	return n.cc.LogUnpin(ctx, pinOf(o.tok))
}

// ackResult: ok = LogPin/LogUnpin returned nil and the FSM applied the entry (tracker call seen);
// err = it returned nil but the FSM refused the entry (the node then serves an error);
// fail = the call itself failed (nothing committed).
func (n *node) ackResult(err error) (string, []string, error) {
	if err != nil {
		l, _ := n.tr.takeFor(0, 0)
		return "fail", l, nil
	}
	if l, got := n.tr.takeFor(1, 1500*time.Millisecond); got {
		return "ok", l, nil
	} else if n.view() == "E" {
		return "err", l, nil
	}
	// acknowledged, the node serves a state, and still no tracker call after 10 more seconds:
	// that is an observation (the change was not handed over), not an infrastructure failure
	l, _ := n.tr.take(1)
	return "ok", l, nil
}

func hraftSnapStore(n *node) (*hraft.FileSnapshotStore, error) {
	return hraft.NewFileSnapshotStore(filepath.Join(n.dir, "raft"), 5, ioutil.Discard)
}

func removeAll(p string) { os.RemoveAll(p) }

func sortedCalls(l []string) string {
	if len(l) == 0 {
		return "-"
	}
	cp := append([]string{}, l...)
	sort.Strings(cp)
	return strings.Join(cp, "+")
}

// snapshotOps: op count covered by the newest snapshot in the data folder (-1: none).
func (n *node) snapshotOps() (int, error) {
	folder := filepath.Join(n.dir, "raft")
	if _, err := os.Stat(folder); os.IsNotExist(err) {
		return -1, nil
	}
	store, err := hraft.NewFileSnapshotStore(folder, 5, ioutil.Discard)
	if err != nil {
		return -1, infra("snapshot store: %v", err)
	}
	metas, err := store.List()
	if err != nil {
		return -1, infra("snapshot list: %v", err)
	}
	if len(metas) == 0 {
		return -1, nil
	}
	return n.opsUpTo(metas[0].Index), nil
}

func (n *node) snapshotCount() int {
	store, err := hraft.NewFileSnapshotStore(filepath.Join(n.dir, "raft"), 5, ioutil.Discard)
	if err != nil {
		return 0
	}
	metas, _ := store.List()
	return len(metas)
}

func (n *node) offline() (string, error) {
	cfg := n.config()
	st, err := raft.OfflineState(cfg, inmem.New())
	if err != nil {
		return "E", nil
	}
	l, err := st.List(context.Background())
	if err != nil {
		return "listerr", nil
	}
	return common.PinsetTok(l), nil
}

// ---------- single-node scenarios ----------

type single struct {
	ops       []op
	n         *node
	next      int    // next op to submit
	acc       []byte // per submitted op: '1' acknowledged (or found in the log after a kill), '0' refused
	committed int    // ops acknowledged / known to be in the log
	tokOut    string // the token the last event is emitted as, when it differs from the input token
	child   *exec.Cmd
	childIn *bufio.Writer
	childRd *bufio.Scanner
}

func (s *single) event(tok string) (string, error) {
	if len(tok) < 2 || tok[0] != '0' {
		return "", fmt.Errorf("bad token %s", tok)
	}
	n := s.n
	code := tok[1:]
	switch {
	case code == "a":
		if s.child != nil {
			return s.childApply()
		}
		if !n.up || s.next >= len(s.ops) {
			return fmt.Sprintf("noop~%d~%s~-", s.appliedOrZero(), s.viewOrDown()), nil
		}
		err := n.submit(s.ops[s.next])
		s.next++
		if err := n.refreshIdx(); err != nil {
			return "", err
		}
		res, calls, e2 := n.ackResult(err)
		if e2 != nil {
			return "", e2
		}
		s.noteAnswer(res)
		return fmt.Sprintf("%s~%d~%s~%s", res, n.appliedOps(), n.view(), sortedCalls(calls)), nil
	case code == "s" || code == "n":
		if !n.up {
			return "noop~0~D~-", nil
		}
		// Raft does not ask the FSM when nothing was applied since the last snapshot (token n)
		err := n.cc.VerifRaft().Snapshot().Error()
		res := "ok"
		if err == hraft.ErrNothingNewToSnapshot {
			res = "noop"
		} else if err != nil {
			res = "err"
		}
		return fmt.Sprintf("%s~%d~%s~-", res, n.appliedOps(), n.view()), nil
	case code == "d" || code == "dl" || code == "dt" || code == "de" || code == "dc":
		if !n.up {
			return "noop~0~D~-", nil
		}
		a := n.appliedOps()
		ctx, cancel := shutdownCtx(code)
		n.stopCtx(ctx)
		cancel()
		res := "err"
		if n.snapshotCount() > 0 {
			res = "ok"
		}
		return fmt.Sprintf("%s~%d~D~-", res, a), nil
	case code == "o":
		if n.up {
			return fmt.Sprintf("noop~%d~%s~-", n.appliedOps(), n.view()), nil
		}
		c, err := n.snapshotOps()
		if err != nil {
			return "", err
		}
		if c < 0 {
			c = 0
		}
		v, err := n.offline()
		if err != nil {
			return "", err
		}
		return fmt.Sprintf("ok~%d~%s~-", c, v), nil
	case code == "k":
		if s.child == nil {
			return "", fmt.Errorf("kill without child")
		}
		s.child.Process.Kill()
		s.child.Wait()
		s.child = nil
		a := s.committed
		return fmt.Sprintf("ok~%d~D~-", a), nil
	case strings.HasPrefix(code, "R"):
		if n.up {
			return fmt.Sprintf("noop~%d~%s~-", n.appliedOps(), n.view()), nil
		}
		from, err := n.snapshotOps()
		if err != nil {
			return "", err
		}
		if from < 0 {
			from = 0
		}
		if err := n.openHost(); err != nil {
			return "", err
		}
		if err := n.start(); err != nil {
			return "", err
		}
		if err := n.waitReady(); err != nil {
			return "", err
		}
		if err := n.refreshIdx(); err != nil {
			return "", err
		}
		c := len(n.idxOf)
		if c > s.committed && s.next < len(s.ops) {
			// the op in flight when the process was killed made it into the log
			s.next++
			s.acc = append(s.acc, '1')
		}
		if c < s.committed {
			// acknowledged entries are missing from the log: the replay is expected to reach them
			c = s.committed
		}
		s.committed = c
		// the snapshot's op count could not be mapped before the log was readable (kill case)
		if f2, err := n.snapshotOps(); err == nil && f2 >= 0 && f2 < from {
			from = f2
		}
		wait := 10 * time.Second
		if n.view() == "E" {
			wait = 1500 * time.Millisecond
		}
		calls, got := n.tr.takeFor(c-from, wait)
		if !got && n.view() != "E" {
			return "", infra("replay tracker calls not received (%d of %d)", len(calls), c-from)
		}
		// arrival order at the tracker is kept: the log is replayed as one batch, the calls are synchronous
		cs := "-"
		if len(calls) > 0 {
			cs = strings.Join(calls, "+")
		}
		return fmt.Sprintf("ok~%d~%s~%s~%d", n.appliedOps(), n.view(), cs, from), nil
	}
	return "", fmt.Errorf("bad token %s", tok)
}

// noteAnswer records what LogPin / LogUnpin answered for the op just submitted.
func (s *single) noteAnswer(res string) {
	if res == "fail" {
		s.acc = append(s.acc, '0')
		s.tokOut = "0x"
	} else {
		s.acc = append(s.acc, '1')
		s.committed++
	}
}

func (s *single) gateTok() string {
	if len(s.acc) == 0 {
		return "G-"
	}
	return "G" + string(s.acc)
}

func (s *single) appliedOrZero() int {
	if s.n.up {
		return s.n.appliedOps()
	}
	return 0
}
func (s *single) viewOrDown() string {
	if s.n.up {
		return s.n.view()
	}
	return "D"
}

// ---------- child process (kind kill) ----------

// childMain: run a node on dir; for every "GO <P|U><pin>" line on stdin commit the op and answer "OBS <obs>".
func childMain(dir string) {
	n, err := loadNode(dir)
	if err != nil {
		fmt.Println("FAIL loadNode", err)
		return
	}
	if err := n.openHost(); err != nil {
		fmt.Println("FAIL", err)
		return
	}
	if err := n.start(); err != nil {
		fmt.Println("FAIL", err)
		return
	}
	if err := n.waitReady(); err != nil {
		fmt.Println("FAIL", err)
		return
	}
	fmt.Println("READY")
	sc := bufio.NewScanner(os.Stdin)
	sc.Buffer(make([]byte, 1<<16), 1<<22)
	for sc.Scan() {
		f := strings.Fields(sc.Text())
		if len(f) != 2 || f[0] != "GO" {
			continue
		}
		o := op{pin: f[1][0] == 'P', tok: f[1][1:]}
		err := n.submit(o)
		if err2 := n.refreshIdx(); err2 != nil {
			fmt.Println("FAIL", err2)
			return
		}
		res, calls, e2 := n.ackResult(err)
		if e2 != nil {
			fmt.Println("FAIL tracker call missing")
			return
		}
		fmt.Printf("OBS %s~%d~%s~%s\n", res, n.appliedOps(), n.view(), sortedCalls(calls))
	}
}

func (s *single) startChild() error {
	tr := "0"
	if tracing {
		tr = "1"
	}
	cmd := exec.Command(os.Args[0], "-child", s.n.dir, "-tracing", tr)
	cmd.Env = os.Environ()
	in, err := cmd.StdinPipe()
	if err != nil {
		return infra("child stdin: %v", err)
	}
	outp, err := cmd.StdoutPipe()
	if err != nil {
		return infra("child stdout: %v", err)
	}
	cmd.Stderr = ioutil.Discard
	if err := cmd.Start(); err != nil {
		return infra("child start: %v", err)
	}
	s.child = cmd
	s.childIn = bufio.NewWriter(in)
	s.childRd = bufio.NewScanner(outp)
	s.childRd.Buffer(make([]byte, 1<<16), 1<<24)
	line, err := s.childLine()
	if err != nil || line != "READY" {
		s.child.Process.Kill()
		s.child.Wait()
		s.child = nil
		return infra("child not ready: %q %v", line, err)
	}
	return nil
}

func (s *single) childLine() (string, error) {
	ch := make(chan string, 1)
	go func() {
		if s.childRd.Scan() {
			ch <- s.childRd.Text()
		} else {
			ch <- "EOF"
		}
	}()
	select {
	case l := <-ch:
		return l, nil
	case <-time.After(90 * time.Second):
		return "", infra("child silent")
	}
}

func (s *single) childGo() {
	if s.next < len(s.ops) {
		o := s.ops[s.next]
		t := "U"
		if o.pin {
			t = "P"
		}
		fmt.Fprintf(s.childIn, "GO %s%s\n", t, o.tok)
		s.childIn.Flush()
	}
}

func (s *single) childApply() (string, error) {
	if s.next >= len(s.ops) {
		return "", fmt.Errorf("no op left for the child")
	}
	s.childGo()
	s.next++
	l, err := s.childLine()
	if err != nil {
		return "", err
	}
	if !strings.HasPrefix(l, "OBS ") {
		return "", infra("child said %q", l)
	}
	s.noteAnswer(strings.SplitN(l[4:], "~", 2)[0])
	return l[4:], nil
}

func scratchDir(prefix string) (string, error) {
	base := os.Getenv("VERIF_SCRATCH")
	if base == "" {
		base = os.TempDir()
	}
	return ioutil.TempDir(base, prefix)
}

// runSingle executes a raft1 / kill case once. The returned ops are the committed sequence actually
// observed (kill: the in-flight op may or may not have made it).
func runSingle(kind string, ops []op, events []string) ([]op, []string, []string, error) {
	dir, err := scratchDir("c01-" + kind + "-")
	if err != nil {
		return nil, nil, nil, infra("scratch: %v", err)
	}
	defer os.RemoveAll(dir)
	n, err := newNode(dir)
	if err != nil {
		return nil, nil, nil, err
	}
	if err := n.saveKey(); err != nil {
		return nil, nil, nil, infra("key: %v", err)
	}
	s := &single{ops: ops, n: n}
	defer func() {
		if s.child != nil {
			s.child.Process.Kill()
			s.child.Wait()
		}
		if n.up {
			n.stop()
		}
	}()
	if kind == "kill" {
		if err := s.startChild(); err != nil {
			return nil, nil, nil, err
		}
	} else {
		if err := n.openHost(); err != nil {
			return nil, nil, nil, err
		}
		if err := n.start(); err != nil {
			return nil, nil, nil, err
		}
		if err := n.waitReady(); err != nil {
			return nil, nil, nil, err
		}
	}
	var obs, evOut []string
	committed := ops
	for _, e := range events {
		if e == "0k" {
			// one more op in flight when the process dies
			s.childGo()
			time.Sleep(time.Duration([]int{0, 0, 1, 2, 4, 8}[(len(ops)*7+len(obs))%6]) * time.Millisecond)
		}
		if e == "0x" {
			e = "0a" // a replayed case: whether the submission is refused is decided by the code
		}
		s.tokOut = ""
		o, err := s.event(e)
		if err != nil {
			return nil, nil, nil, err
		}
		if e == "0s" {
			e = "0n"
		}
		if strings.HasPrefix(e, "0R") && !strings.HasPrefix(o, "noop") {
			e = fmt.Sprintf("0R%d", s.committed)
		}
		if s.tokOut != "" {
			e = s.tokOut
		}
		obs = append(obs, o)
		evOut = append(evOut, e)
	}
	// the submitted sequence is what was handed to LogPin / LogUnpin (kill: the op in flight counts
	// when it is found in the log); ops never submitted are not part of the history
	if s.next < len(committed) {
		committed = committed[:s.next]
	}
	obs = append([]string{s.gateTok()}, obs...)
	return committed, evOut, obs, nil
}

func runRaftCase(out *common.Out, kind string, nrep int, ops []op, events []string) {
	tracing = tracingFor(ops)
	var run func() ([]op, []string, []string, error)
	switch kind {
	case "raft1", "kill", "shut":
		run = func() ([]op, []string, []string, error) { return runSingle(kind, ops, events) }
	case "net":
		run = func() ([]op, []string, []string, error) { return runNet(ops, events) }
	default:
		out.Line("# inconclusive unknown kind %s", kind)
		return
	}
	var lastErr error
	for attempt := 0; attempt < 3; attempt++ {
		cops, evs, obs, err := run()
		if err != nil {
			lastErr = err
			if _, ok := err.(*infraError); ok {
				continue
			}
			break
		}
		n := nrep
		if kind == "net" {
			n = 3
		}
		out.Line("C01 %s %d %s %s => %s", kind, n, opsTok(cops), strings.Join(evs, ","), strings.Join(obs, " "))
		return
	}
	out.Line("# inconclusive %s case: %v", kind, lastErr)
}

// ---------- generation ----------

func genRaftCase(r *common.Rng, kind string, k int) (int, []op, []string) {
	switch kind {
	case "kill":
		nops := r.Range(2, 9)
		ops := genOps(r, nops, 0)
		killAfter := r.Range(1, nops-1) // acks before the kill; one more op in flight
		var ev []string
		for i := 0; i < killAfter; i++ {
			ev = append(ev, "0a")
		}
		ev = append(ev, "0k", "0o", "0R")
		for i := killAfter + 1; i < nops; i++ {
			ev = append(ev, "0a")
		}
		ev = append(ev, "0d", "0o")
		return 1, ops, ev
	case "net":
		return genNetCase(r, k)
	case "shut":
		// acknowledged ops, optionally a forced snapshot in between (so that a missing shutdown snapshot shows
		// an OLDER state, not just an empty one), Shutdown with one of four contexts, offline read, restart on
		// the folder, more ops, Shutdown with another context, offline read. k and k+1 together cover all four.
		codes := []string{"0dl", "0dt", "0de", "0dc"}
		nops := r.Range(3, 7)
		ops := genOps(r, nops, 3)
		first := r.Range(2, nops-1)
		// the operation acknowledged last before each Shutdown is a pin (of different cids): what the disk
		// must show then differs from every earlier state
		c1 := r.Intn(cidUniverse)
		ops[first-1] = op{pin: true, tok: randPin(r, c1, 0, false)}
		ops[nops-1] = op{pin: true, tok: randPin(r, (c1+1+r.Intn(cidUniverse-1))%cidUniverse, 0, false)}
		var ev []string
		snapAt := -1
		if r.Intn(3) > 0 {
			snapAt = r.Range(1, first-1)
		}
		for i := 0; i < first; i++ {
			ev = append(ev, "0a")
			if i+1 == snapAt {
				ev = append(ev, "0s")
			}
		}
		ev = append(ev, codes[k%4], "0o", "0R")
		for i := first; i < nops; i++ {
			ev = append(ev, "0a")
		}
		ev = append(ev, codes[(k+2)%4], "0o")
		return 1, ops, ev
	}
	nops := r.Range(3, 12)
	ops := genOps(r, nops, 3)
	if k%5 == 4 { // the last submission is refused by commit() (was the K01a / K01b stream)
		ops = append(ops, undecodableOp(r))
		nops++
	} else if k%5 == 2 { // refused submissions in the middle: the history goes on as if they had not been made
		ops = sprinkle(r, ops, r.Range(1, 2))
		nops = len(ops)
	}
	var ev []string
	restarts := 0
	for i := 0; i < nops; i++ {
		ev = append(ev, "0a")
		if i == nops-1 {
			break
		}
		switch x := r.Intn(12); {
		case x < 2:
			ev = append(ev, "0s")
		case x < 4 && restarts < 2:
			ev = append(ev, "0d", "0o", "0R")
			restarts++
		}
	}
	ev = append(ev, "0d", "0o", "0R", "0d", "0o")
	return 1, ops, ev
}

var _ = strconv.Itoa
