package main

import (
	"verifharness/common"
)

func genRaftCase(r *common.Rng, kind string, k int) (int, []op, []string) {
	return 1, nil, nil
}

func runRaftCase(out *common.Out, kind string, n int, ops []op, events []string) {
	out.Line("# inconclusive %s not implemented", kind)
}
