// C01 harness: the Raft replicas of the pinset.
//
// kind fsm (quick + thorough): the real FSM that consensus/raft.NewConsensus builds
// (go-libp2p-raft OpLog over a dsstate with the package's LogOp) is driven exactly as
// hashicorp/raft drives it: Apply(&raft.Log{Data: msgpack(LogOp)}), Snapshot(), Persist(sink),
// Restore(bytes) onto the live FSM, a fresh FSM on a fresh store + Restore + re-apply.
// The harness plays Raft's role (which entry is next, which snapshot is newest).
//
// kinds raft1 / kill / net (thorough): real raft.NewConsensus nodes on loopback libp2p hosts,
// see raft.go.
//
//	C01 <kind> <nrep> <ops> <events> => G<bits> <obs> ...       obs = res~applied~view~calls
//
// <ops> is the SUBMITTED sequence. G<bits> is what the real commit() of consensus/raft answers for each of
// them before its first attempt (raft.VerifCommitGate: 1 = goes on to commit, 0 = refused with an error,
// since /repo 3d753d4 for operations that cannot be decoded from the log). Only the operations it lets
// through are committed (kind fsm); kind fsmraw feeds every op to the FSM as a raw log entry, bypassing
// commit(): a robustness stream that is NOT reachable through LogPin / LogUnpin.
package main

import (
	"bufio"
	"bytes"
	"context"
	"fmt"
	"io/ioutil"
	"os"
	"path/filepath"
	"strconv"
	"strings"
	"sync"
	"time"

	"github.com/ipfs/ipfs-cluster/api"
	"github.com/ipfs/ipfs-cluster/consensus/raft"
	"github.com/ipfs/ipfs-cluster/datastore/inmem"

	hraft "github.com/hashicorp/raft"
	cid "github.com/ipfs/go-cid"
	rpc "github.com/libp2p/go-libp2p-gorpc"

	"verifharness/common"
)

// ---------- recording pin tracker behind a real in-process RPC server ----------

type tracker struct {
	mu    sync.Mutex
	calls []string
	slow  bool // the Track handler is reached later than an Untrack dispatched right after it
}

func (t *tracker) setSlow(b bool) {
	t.mu.Lock()
	t.slow = b
	t.mu.Unlock()
}

func (t *tracker) rec(prefix string, in *api.Pin) {
	t.mu.Lock()
	slow := t.slow && prefix == "T"
	t.mu.Unlock()
	if slow {
		// a legal schedule of the goroutine GoContext started for this call
		time.Sleep(3 * time.Millisecond)
	}
	t.mu.Lock()
	defer t.mu.Unlock()
	defer func() {
		if r := recover(); r != nil {
			t.calls = append(t.calls, prefix+"unprintable")
		}
	}()
	t.calls = append(t.calls, prefix+common.PinTok(in))
}

func (t *tracker) Track(ctx context.Context, in *api.Pin, out *struct{}) error {
	t.rec("T", in)
	return nil
}
func (t *tracker) Untrack(ctx context.Context, in *api.Pin, out *struct{}) error {
	t.rec("U", in)
	return nil
}
func (t *tracker) count() int {
	t.mu.Lock()
	defer t.mu.Unlock()
	return len(t.calls)
}

// take waits until at least want calls are there (or the timeout), then returns and clears them.
func (t *tracker) take(want int) ([]string, bool) { return t.takeFor(want, 10*time.Second) }

func (t *tracker) takeFor(want int, d time.Duration) ([]string, bool) {
	deadline := time.Now().Add(d)
	for t.count() < want && time.Now().Before(deadline) {
		time.Sleep(50 * time.Microsecond)
	}
	t.mu.Lock()
	defer t.mu.Unlock()
	l := t.calls
	t.calls = nil
	return l, len(l) >= want
}

func newTrackerClient() (*tracker, *rpc.Client) {
	tr := &tracker{}
	s := rpc.NewServer(nil, "c01")
	if err := s.RegisterName("PinTracker", tr); err != nil {
		panic(err)
	}
	return tr, rpc.NewClientWithServer(nil, "c01", s)
}

// ---------- ops ----------

type op struct {
	pin bool
	tok string
}

func parseOps(s string) ([]op, bool) {
	if s == "-" {
		return nil, true
	}
	var l []op
	for _, t := range strings.Split(s, ";") {
		if len(t) < 2 || (t[0] != 'P' && t[0] != 'U') {
			return nil, false
		}
		l = append(l, op{pin: t[0] == 'P', tok: t[1:]})
	}
	return l, true
}

func opsTok(l []op) string {
	if len(l) == 0 {
		return "-"
	}
	s := make([]string, len(l))
	for i, o := range l {
		if o.pin {
			s[i] = "P" + o.tok
		} else {
			s[i] = "U" + o.tok
		}
	}
	return strings.Join(s, ";")
}

// undefIdx is the name of cid.Undef in op tokens: as the pin's cid, or as its reference (a pointer to
// cid.Undef, what the first shard pin of a sharded add carried before /repo 9d8b946).
const undefIdx = 63

func pinOf(tok string) *api.Pin {
	p := common.PinOf(tok)
	f := strings.Split(tok, "/")
	if len(f) >= 13 {
		if f[0] == strconv.Itoa(undefIdx) {
			p.Cid = cid.Undef
		}
		if f[12] == strconv.Itoa(undefIdx) {
			u := cid.Undef
			p.Reference = &u
		}
	}
	return p
}

// tracing: the Consensus of the current case runs with Tracing enabled (LogOps carry a span context
// and a tag map). Derived from the case itself so that a replay makes the same choice.
var tracing bool

func tracingFor(ops []op) bool { return len(ops)%2 == 1 }

func (o op) encode() []byte {
	t := raft.LogOpType(raft.LogOpUnpin)
	if o.pin {
		t = raft.LogOpPin
	}
	enc := raft.VerifEncodeOp
	if tracing {
		enc = raft.VerifEncodeTracedOp
	}
	b, err := enc(pinOf(o.tok), t)
	if err != nil {
		panic(err)
	}
	return b
}

// gate asks the real commit() whether it would go on to commit the op (nil) or refuses it.
func gate(o op) (err error) {
	defer func() {
		if x := recover(); x != nil {
			err = fmt.Errorf("panic: %v", x)
		}
	}()
	t := raft.LogOpType(raft.LogOpUnpin)
	if o.pin {
		t = raft.LogOpPin
	}
	return raft.VerifCommitGate(pinOf(o.tok), t, tracing)
}

// gateBits runs every submitted op through the gate: the G token and the ops that passed.
func gateBits(ops []op) (string, []op) {
	if len(ops) == 0 {
		return "G-", nil
	}
	b := make([]byte, len(ops))
	var passed []op
	for i, o := range ops {
		if gate(o) == nil {
			b[i] = '1'
			passed = append(passed, o)
		} else {
			b[i] = '0'
		}
	}
	return "G" + string(b), passed
}

// ---------- FSM-level replicas ----------

type snap struct {
	idx  int
	data []byte
}

// newest mirrors FileSnapshotStore.List()[0]: highest index, most recently written among equals
// (snaps has the most recently written first).
func newest(l []snap) *snap {
	var best *snap
	for i := len(l) - 1; i >= 0; i-- {
		if best == nil || l[i].idx >= best.idx {
			best = &l[i]
		}
	}
	return best
}

type memSink struct{ bytes.Buffer }

func (s *memSink) ID() string    { return "mem" }
func (s *memSink) Cancel() error { return nil }
func (s *memSink) Close() error  { return nil }

type replica struct {
	up         bool
	cc         *raft.Consensus
	fsm        hraft.FSM
	tr         *tracker
	applied    int
	pending    hraft.FSMSnapshot
	pendingIdx int
	snaps      []snap
}

func raftCfg() *raft.Config {
	cfg := &raft.Config{}
	cfg.Default()
	cfg.Tracing = tracing
	return cfg
}

func (r *replica) boot() {
	tr, cl := newTrackerClient()
	cc, fsm, err := raft.VerifNewFSM(raftCfg(), inmem.New(), cl)
	if err != nil {
		panic(err)
	}
	r.cc, r.fsm, r.tr = cc, fsm, tr
	r.up = true
	r.applied = 0
	r.pending = nil
}

func (r *replica) halt() {
	r.up = false
	r.cc, r.fsm, r.pending = nil, nil, nil
}

func (r *replica) view() string {
	if !r.up {
		return "D"
	}
	ctx := context.Background()
	st, err := r.cc.State(ctx)
	if err != nil {
		return "E"
	}
	l, err := st.List(ctx)
	if err != nil {
		return "listerr"
	}
	return common.PinsetTok(l)
}

func (r *replica) persist(s hraft.FSMSnapshot, idx int) bool {
	sk := &memSink{}
	if err := s.Persist(sk); err != nil {
		return false
	}
	s.Release()
	r.snaps = append([]snap{{idx: idx, data: append([]byte{}, sk.Bytes()...)}}, r.snaps...)
	return true
}

func safeApply(f hraft.FSM, data []byte) (resp interface{}, panicked bool) {
	defer func() {
		if x := recover(); x != nil {
			panicked = true
		}
	}()
	return f.Apply(&hraft.Log{Data: data, Type: hraft.LogCommand}), false
}

// offlineView writes the newest snapshot into a real FileSnapshotStore and reads it back with
// raft.OfflineState (LastStateRaw + dsstate.Unmarshal), as `ipfs-cluster-service state export` does.
func offlineView(s *snap) string {
	dir, err := ioutil.TempDir(os.Getenv("VERIF_SCRATCH"), "c01-offline-")
	if err != nil {
		return "scratcherr"
	}
	defer os.RemoveAll(dir)
	cfg := raftCfg()
	cfg.DataFolder = filepath.Join(dir, "raft")
	if s != nil {
		if err := os.MkdirAll(cfg.DataFolder, 0700); err != nil {
			return "scratcherr"
		}
		store, err := hraft.NewFileSnapshotStore(cfg.DataFolder, 5, ioutil.Discard)
		if err != nil {
			return "scratcherr"
		}
		_, tr := hraft.NewInmemTransport("")
		sink, err := store.Create(1, uint64(s.idx+2), 1, hraft.Configuration{}, 1, tr)
		if err != nil {
			return "scratcherr"
		}
		sink.Write(s.data)
		if err := sink.Close(); err != nil {
			return "scratcherr"
		}
	}
	st, err := raft.OfflineState(cfg, inmem.New())
	if err != nil {
		return "E"
	}
	l, err := st.List(context.Background())
	if err != nil {
		return "listerr"
	}
	return common.PinsetTok(l)
}

type world struct {
	ops  []op
	reps []*replica
}

func newWorld(n int, ops []op) *world {
	w := &world{ops: ops}
	for i := 0; i < n; i++ {
		r := &replica{}
		r.boot()
		w.reps = append(w.reps, r)
	}
	return w
}

// exec runs one event token and returns the observation; ok=false when the infrastructure failed.
func (w *world) exec(tok string) (obs string, ok bool) {
	ri := int(tok[0] - '0')
	if ri < 0 || ri >= len(w.reps) || len(tok) < 2 {
		return "", false
	}
	r := w.reps[ri]
	code := tok[1:]
	res := "noop"
	want := 0
	viewOverride := ""
	appliedOverride := -1
	switch {
	case code == "a":
		if r.up && r.applied < len(w.ops) {
			resp, panicked := safeApply(r.fsm, w.ops[r.applied].encode())
			switch {
			case panicked:
				res = "crash"
				r.tr.take(0)
				r.halt()
			case resp == nil:
				res = "err"
				r.applied++
			default:
				res = "ok"
				r.applied++
				want = 1
			}
		}
	case strings.HasPrefix(code, "B"), strings.HasPrefix(code, "S"):
		// entries applied back to back, as Raft's FSM goroutine does with a batch of committed entries;
		// the tracker calls are collected afterwards, in arrival order
		c, err := strconv.Atoi(code[1:])
		if err != nil {
			return "", false
		}
		res = "ok"
		if r.up {
			r.tr.setSlow(code[0] == 'S')
			for r.up && r.applied < c && r.applied < len(w.ops) {
				resp, panicked := safeApply(r.fsm, w.ops[r.applied].encode())
				if panicked {
					res = "crash"
					r.tr.take(0)
					r.halt()
					break
				}
				r.applied++
				if resp == nil {
					res = "err"
					break
				}
				want++
			}
			if res == "ok" && r.applied < c {
				res = "noop" // ran out of entries
			}
			if r.up {
				l, _ := r.tr.takeFor(want, 5*time.Second)
				r.tr.setSlow(false)
				calls := "-"
				if len(l) > 0 {
					calls = strings.Join(l, "+")
				}
				return fmt.Sprintf("%s~%d~%s~%s", res, r.applied, r.view(), calls), true
			}
		} else if c > r.applied {
			res = "noop"
		}
	case code == "b", code == "s":
		if r.up && r.pending == nil {
			s, err := r.fsm.Snapshot()
			if err != nil {
				res = "err"
			} else {
				res = "ok"
				r.pending, r.pendingIdx = s, r.applied
				if code == "s" {
					if !r.persist(r.pending, r.pendingIdx) {
						res = "err"
					}
					r.pending = nil
				}
			}
		}
	case code == "p":
		if r.up && r.pending != nil {
			res = "ok"
			if !r.persist(r.pending, r.pendingIdx) {
				res = "err"
			}
			r.pending = nil
		}
	case strings.HasPrefix(code, "i"):
		src, err := strconv.Atoi(code[1:])
		if err != nil {
			return "", false
		}
		if r.up && src >= 0 && src < len(w.reps) {
			if s := newest(w.reps[src].snaps); s != nil && s.idx >= r.applied {
				cp := snap{idx: s.idx, data: s.data}
				if err := r.fsm.Restore(ioutil.NopCloser(bytes.NewReader(cp.data))); err != nil {
					res = "err"
				} else {
					res = "ok"
					r.applied = cp.idx
					r.snaps = append([]snap{cp}, r.snaps...)
				}
			}
		}
	case code == "d":
		if r.up {
			s, err := r.fsm.Snapshot()
			if err != nil {
				res = "err"
			} else {
				res = "ok"
				if !r.persist(s, r.applied) {
					res = "persisterr"
				}
			}
			r.halt()
		}
	case code == "k":
		if r.up {
			res = "ok"
			r.halt()
		}
	case code == "r":
		if !r.up {
			res = "ok"
			r.boot()
			if s := newest(r.snaps); s != nil {
				if err := r.fsm.Restore(ioutil.NopCloser(bytes.NewReader(s.data))); err != nil {
					res = "err"
				} else {
					r.applied = s.idx
				}
			}
		}
	case code == "o":
		if !r.up {
			res = "ok"
			s := newest(r.snaps)
			viewOverride = offlineView(s)
			appliedOverride = 0
			if s != nil {
				appliedOverride = s.idx
			}
		}
	default:
		return "", false
	}
	calls := "-"
	if r.tr != nil {
		// the tracker call of an acknowledged entry is made from a goroutine of this process: if it
		// has not arrived after 5 s it was not made (an observation, not an infrastructure failure)
		l, _ := r.tr.takeFor(want, 5*time.Second)
		if len(l) > 0 {
			calls = strings.Join(l, "+")
		}
	}
	v := r.view()
	a := r.applied
	if viewOverride != "" {
		v = viewOverride
	}
	if appliedOverride >= 0 {
		a = appliedOverride
	}
	return fmt.Sprintf("%s~%d~%s~%s", res, a, v, calls), true
}

func runFSMCase(out *common.Out, kind string, n int, ops []op, events []string) {
	tracing = tracingFor(ops)
	g, committed := gateBits(ops)
	if kind == "fsmraw" {
		committed = ops // raw log entries: commit() is bypassed
	}
	w := newWorld(n, committed)
	obs := make([]string, 0, len(events))
	for _, e := range events {
		o, ok := w.exec(e)
		if !ok {
			out.Line("# bad fsm case: event token %s", e)
			return
		}
		obs = append(obs, o)
	}
	evTok := "-"
	if len(events) > 0 {
		evTok = strings.Join(events, ",")
	}
	out.Line("C01 %s %d %s %s => %s", kind, n, opsTok(ops), evTok, strings.TrimSpace(g+" "+strings.Join(obs, " ")))
}

func main() {
	a := common.ParseArgs()
	out := common.NewOut()
	defer out.Flush()
	if dir := a.Extra["child"]; dir != "" {
		tracing = a.Extra["tracing"] == "1"
		childMain(dir)
		return
	}
	kind := a.Extra["kind"]
	if kind == "" {
		kind = "fsm"
	}
	if a.Extra["stdin"] != "" {
		sc := bufio.NewScanner(os.Stdin)
		sc.Buffer(make([]byte, 1<<20), 1<<26)
		for sc.Scan() {
			f := strings.Fields(sc.Text())
			if len(f) >= 4 && f[0] == "C01" && f[1] == "redir" {
				if kind == "redir" {
					if retries, err := strconv.Atoi(f[2]); err == nil && retries >= 0 && retries <= 5 {
						runRedirCase(out, retries, strings.Split(f[3], ","))
					}
				}
				continue
			}
			if len(f) >= 4 && f[0] == "C01" && f[1] == "fold" {
				if kind == "fold" {
					if k, err := strconv.Atoi(f[2]); err == nil {
						runFoldCase(out, k, strings.Split(f[3], ","))
					}
				}
				continue
			}
			if len(f) < 5 || f[0] != "C01" {
				continue
			}
			n, err := strconv.Atoi(f[2])
			ops, ok := parseOps(f[3])
			if err != nil || !ok || n < 1 || n > 9 {
				continue
			}
			var events []string
			if f[4] != "-" {
				events = strings.Split(f[4], ",")
			}
			switch f[1] {
			case "fsm", "fsmraw":
				if kind == "fsm" {
					runFSMCase(out, f[1], n, ops, events)
				}
			default:
				if kind == f[1] {
					if kind == "net" {
						events = normalizeNet(events)
					}
					runRaftCase(out, f[1], n, ops, events)
				}
			}
		}
		return
	}
	root := common.NewRng(common.Seed())
	n := a.N
	switch kind {
	case "fsm":
		if n < 0 {
			n = 300
		}
		for k := 0; k < n; k++ {
			if a.Only >= 0 && k != a.Only {
				continue
			}
			r := root.Fork(uint64(k))
			fkind, nrep, ops, events := genFSMCase(r, k, a.Tier)
			runFSMCase(out, fkind, nrep, ops, events)
		}
	case "redir":
		if n < 0 {
			n = 3
		}
		for k := 0; k < n; k++ {
			if a.Only >= 0 && k != a.Only {
				continue
			}
			r := root.Fork(uint64(k) + 991)
			retries, steps := genRedirCase(r, k)
			runRedirCase(out, retries, steps)
		}
	case "fold":
		if n < 0 {
			n = 4
		}
		for k := 0; k < n; k++ {
			if a.Only >= 0 && k != a.Only {
				continue
			}
			r := root.Fork(uint64(k) + 4242)
			runFoldCase(out, k, genFoldCase(r, k))
		}
	default:
		if n < 0 {
			n = 4
		}
		for k := 0; k < n; k++ {
			if a.Only >= 0 && k != a.Only {
				continue
			}
			r := root.Fork(uint64(k) + 7777)
			nrep, ops, events := genRaftCase(r, kind, k)
			runRaftCase(out, kind, nrep, ops, events)
		}
	}
}
