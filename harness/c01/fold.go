package main

// Kind fold (round 8b): the offline tools of consensus/raft/raft.go on the data folder of ONE real Raft node:
//
//	C01 fold <k> <step>,<step>,… => <res>~<visible>[~<meta>] …
//
// steps:  R start / restart a node on the folder (raft.NewConsensus, wait until ready)
//	p<c> / u<c>  LogPin / LogUnpin of cid c (default options)
//	n    force a Raft snapshot
//	d    Consensus.Shutdown(context.Background())
//	o    nothing (the observation is the offline read)
//	i<c>.<c>…  raft.SnapshotSave(cfg, state holding exactly these cids, [self])  — `state import`; `i-` the empty state
//	c    Consensus.Clean(ctx) on the last Consensus object (CleanupRaft behind the "not shutdown" guard);
//	     before any node ran: raft.CleanupRaft(cfg)
//
// observation after EVERY step: what a reader sees — Consensus.State() when the node is up, raft.OfflineState of
// the folder when it is down — as a sorted cid list; res: ok / err (the call answered an error) / noop (not applicable).
// meta (import only): k = the new snapshot carries Index/Term of the snapshot that was the newest before,
// f = no snapshot before and Index 2 / Term 1, x = anything else.
import (
	"context"
	"fmt"
	"os"
	"path/filepath"
	"sort"
	"strconv"
	"strings"
	"time"

	hraft "github.com/hashicorp/raft"
	"github.com/ipfs/ipfs-cluster/api"
	"github.com/ipfs/ipfs-cluster/consensus/raft"
	"github.com/ipfs/ipfs-cluster/datastore/inmem"
	"github.com/ipfs/ipfs-cluster/state"
	"github.com/ipfs/ipfs-cluster/state/dsstate"
	peer "github.com/libp2p/go-libp2p-core/peer"

	"verifharness/common"
)

const foldCids = 8

func foldSet(l []*api.Pin) string {
	var ix []int
	for _, p := range l {
		ix = append(ix, common.CidIndex(p.Cid, 64))
	}
	sort.Ints(ix)
	if len(ix) == 0 {
		return "-"
	}
	s := make([]string, len(ix))
	for i, v := range ix {
		s[i] = strconv.Itoa(v)
	}
	return strings.Join(s, ".")
}

func foldVisible(n *node) string {
	var st state.ReadOnly
	var err error
	if n.up {
		st, err = n.cc.State(context.Background())
	} else {
		st, err = raft.OfflineState(n.config(), inmem.New())
	}
	if err != nil {
		return "E"
	}
	l, err := st.List(context.Background())
	if err != nil {
		return "E"
	}
	return foldSet(l)
}

func foldNewestMeta(n *node) *hraft.SnapshotMeta {
	folder := filepath.Join(n.dir, "raft")
	if _, err := os.Stat(folder); err != nil {
		return nil
	}
	store, err := hraft.NewFileSnapshotStore(folder, 5, nil)
	if err != nil {
		return nil
	}
	metas, err := store.List()
	if err != nil || len(metas) == 0 {
		return nil
	}
	return metas[0]
}

func runFold(steps []string) ([]string, error) {
	dir, err := scratchDir("c01-fold-")
	if err != nil {
		return nil, infra("scratch: %v", err)
	}
	defer os.RemoveAll(dir)
	n, err := newNode(dir)
	if err != nil {
		return nil, err
	}
	if err := n.saveKey(); err != nil {
		return nil, infra("key: %v", err)
	}
	var lastCC *raft.Consensus
	defer func() {
		if n.up {
			n.stop()
		}
	}()
	var obs []string
	for _, tok := range steps {
		res, meta := "ok", ""
		switch {
		case tok == "R":
			if n.up {
				res = "noop"
				break
			}
			if err := n.openHost(); err != nil {
				return nil, err
			}
			if err := n.start(); err != nil {
				return nil, err
			}
			lastCC = n.cc
			if err := n.waitReady(); err != nil {
				return nil, err
			}
			n.settle()
		case strings.HasPrefix(tok, "p") || strings.HasPrefix(tok, "u"):
			c, err := strconv.Atoi(tok[1:])
			if err != nil || c < 0 || c >= 64 {
				return nil, fmt.Errorf("bad token %s", tok)
			}
			if !n.up {
				res = "noop"
				break
			}
			ctx, cancel := context.WithTimeout(context.Background(), 60*time.Second)
			if tok[0] == 'p' {
				err = n.cc.LogPin(ctx, api.PinCid(common.CidN(c)))
			} else {
				err = n.cc.LogUnpin(ctx, api.PinCid(common.CidN(c)))
			}
			cancel()
			if err != nil {
				res = "err"
			}
			n.settle()
		case tok == "n":
			if !n.up {
				res = "noop"
				break
			}
			n.settle()
			n.cc.VerifRaft().Snapshot().Error()
		case tok == "d":
			if !n.up {
				res = "noop"
				break
			}
			n.settle()
			n.stopCtx(context.Background())
		case tok == "o":
		case strings.HasPrefix(tok, "i"):
			if n.up {
				res = "noop"
				break
			}
			st, err := dsstate.New(inmem.New(), "", dsstate.DefaultHandle())
			if err != nil {
				return nil, infra("dsstate: %v", err)
			}
			if tok != "i-" {
				for _, s := range strings.Split(tok[1:], ".") {
					c, err := strconv.Atoi(s)
					if err != nil || c < 0 || c >= 64 {
						return nil, fmt.Errorf("bad token %s", tok)
					}
					if err := st.Add(context.Background(), api.PinCid(common.CidN(c))); err != nil {
						return nil, infra("state add: %v", err)
					}
				}
			}
			before := foldNewestMeta(n)
			if err := raft.SnapshotSave(n.config(), st, []peer.ID{n.id}); err != nil {
				res = "err"
				break
			}
			after := foldNewestMeta(n)
			switch {
			case after == nil:
				meta = "~x"
			case before != nil && after.Index == before.Index && after.Term == before.Term && after.ID != before.ID:
				meta = "~k"
			case before == nil && after.Index == 2 && after.Term == 1:
				meta = "~f"
			default:
				meta = "~x"
			}
		case tok == "c":
			var err error
			if lastCC != nil {
				err = lastCC.Clean(context.Background())
			} else {
				err = raft.CleanupRaft(n.config())
			}
			if err != nil {
				res = "err"
			}
		default:
			return nil, fmt.Errorf("bad token %s", tok)
		}
		obs = append(obs, res+"~"+foldVisible(n)+meta)
		if os.Getenv("VERIF_FOLD_DEBUG") != "" {
			if store, err := hraft.NewFileSnapshotStore(filepath.Join(n.dir, "raft"), 5, nil); err == nil {
				metas, _ := store.List()
				for _, m := range metas {
					fmt.Fprintf(os.Stderr, "FOLDDBG after %s: snapshot %s index=%d term=%d\n", tok, m.ID, m.Index, m.Term)
				}
			}
			if n.up {
				r := n.cc.VerifRaft()
				fmt.Fprintf(os.Stderr, "FOLDDBG after %s: applied=%d last=%d lastSnap=%s\n", tok, r.AppliedIndex(), r.LastIndex(), r.Stats()["last_snapshot_index"])
			}
		}
	}
	return obs, nil
}

func runFoldCase(out *common.Out, k int, steps []string) {
	tracing = false
	var lastErr error
	for attempt := 0; attempt < 3; attempt++ {
		obs, err := runFold(steps)
		if err != nil {
			lastErr = err
			if _, ok := err.(*infraError); ok {
				continue
			}
			break
		}
		out.Line("C01 fold %d %s => %s", k, strings.Join(steps, ","), strings.Join(obs, " "))
		return
	}
	out.Line("# inconclusive fold case: %v", lastErr)
}

func foldImportTok(r *common.Rng) string {
	var l []string
	for c := 0; c < foldCids; c++ {
		if r.Chance(1, 3) {
			l = append(l, strconv.Itoa(c))
		}
	}
	if len(l) == 0 {
		return "i-"
	}
	// the order the cids are added in is not the sorted one
	if r.Bool() {
		for i, j := 0, len(l)-1; i < j; i, j = i+1, j-1 {
			l[i], l[j] = l[j], l[i]
		}
	}
	return "i" + strings.Join(l, ".")
}

// genFoldCase: families by case index
//
//	0: ops, shutdown, IMPORT over an existing snapshot, offline, restart, ops on top, shutdown, offline
//	1: import into a folder that never held a node, start on it, ops, Clean on the LIVE node (must be refused), shutdown, clean, offline, restart
//	2: ops, forced snapshot, ops, shutdown, clean, offline, import, restart, unpin of an imported cid, shutdown, offline
//	3: random walk over all steps
func genFoldCase(r *common.Rng, k int) []string {
	op := func() string {
		if r.Chance(1, 4) {
			return "u" + strconv.Itoa(r.Intn(foldCids))
		}
		return "p" + strconv.Itoa(r.Intn(foldCids))
	}
	switch k % 4 {
	case 0:
		return []string{"R", op(), "p" + strconv.Itoa(r.Intn(foldCids)), "d", "o", foldImportTok(r), "o", "R", op(), op(), "d", "o"}
	case 1:
		return []string{"c", foldImportTok(r), "o", "R", op(), "c", op(), "d", "c", "o", "R", "p" + strconv.Itoa(r.Intn(foldCids)), "d", "o"}
	case 2:
		imp := foldImportTok(r)
		un := "u0"
		if imp != "i-" {
			un = "u" + strings.Split(imp[1:], ".")[0]
		}
		return []string{"R", op(), "n", op(), "d", "c", "o", imp, "R", un, op(), "d", "o"}
	}
	steps := []string{"R"}
	up := true
	for i := 0; i < 10; i++ {
		if up {
			switch r.Intn(6) {
			case 0:
				steps = append(steps, "d")
				up = false
			case 1:
				steps = append(steps, "n")
			case 2:
				steps = append(steps, "c")
			default:
				steps = append(steps, op())
			}
		} else {
			switch r.Intn(5) {
			case 0:
				steps = append(steps, "c")
			case 1, 2:
				steps = append(steps, foldImportTok(r))
			case 3:
				steps = append(steps, "o")
			default:
				steps = append(steps, "R")
				up = true
			}
		}
	}
	if up {
		steps = append(steps, "d")
	}
	return append(steps, "o")
}
