package main

// kind redir: the commit path (commit / AddPeer / RmPeer -> redirectToLeader) on three real Raft nodes.
//
//   C01 redir <CommitRetries> <step>,<step>,... => <obs> ...
//
// step = <where><method><nfail>: where f = submitted at a follower (forwarded to the leader over libp2p
// RPC), l = submitted at the leader; method P LogPin of a fresh cid, U LogUnpin of the oldest cid still
// pinned, A AddPeer of a fresh (never started) peer, R RmPeer of the oldest added one, X LogPin of a fresh
// cid with ORIGINS and Y LogUnpin of the oldest pinned cid carrying a pin with origins (operations that
// cannot be decoded from the log: commit() must refuse them before asking anybody); nfail = how many
// of the next forwarded requests the leader's RPC endpoint fails without executing them.
// obs = <res>~<forwarded requests the leader saw>~<effect: 1 on every live peer after sync, 0 on none, m mixed>

import (
	"context"
	"fmt"
	"strconv"
	"strings"
	"sync/atomic"
	"time"

	"github.com/ipfs/ipfs-cluster/api"

	cid "github.com/ipfs/go-cid"
	peer "github.com/libp2p/go-libp2p-core/peer"

	"verifharness/common"
)

type redirWorld struct {
	netw
	pinned []int     // cids pinned (acknowledged or not: whatever is in the leader's state decides)
	ghosts []peer.ID // peers added
	nextC  int
	nextG  int
}

func (w *redirWorld) liveNodes() []*node {
	var l []*node
	for _, n := range w.nodes {
		if n.up {
			l = append(l, n)
		}
	}
	return l
}

// effect polls the live peers until they agree with want (or the deadline) and reports what they show.
func (w *redirWorld) effect(check func(n *node) (bool, error), want bool, wait time.Duration) (string, error) {
	deadline := time.Now().Add(wait)
	for {
		yes, no := 0, 0
		for _, n := range w.liveNodes() {
			ok, err := check(n)
			if err == errUnreadable {
				ok, err = false, nil
			}
			if err != nil {
				return "", infra("reading a peer: %v", err)
			}
			if ok {
				yes++
			} else {
				no++
			}
		}
		res := "m"
		if no == 0 {
			res = "1"
		} else if yes == 0 {
			res = "0"
		}
		if (want && res == "1") || (!want && res == "0") || time.Now().After(deadline) {
			return res, nil
		}
		time.Sleep(30 * time.Millisecond)
	}
}

// errUnreadable: the peer serves no state (FSM inconsistent). That is an observation — the operation is
// not in effect there, whatever it was — not an infrastructure failure.
var errUnreadable = fmt.Errorf("peer serves no state")

func hasCid(c cid.Cid) func(n *node) (bool, error) {
	return func(n *node) (bool, error) {
		st, err := n.cc.State(context.Background())
		if err != nil {
			return false, errUnreadable
		}
		return st.Has(context.Background(), c)
	}
}

func hasPeer(p peer.ID) func(n *node) (bool, error) {
	return func(n *node) (bool, error) {
		ps, err := n.cc.Peers(context.Background())
		if err != nil {
			return false, err
		}
		for _, q := range ps {
			if q == p {
				return true, nil
			}
		}
		return false, nil
	}
}

func not(f func(n *node) (bool, error)) func(n *node) (bool, error) {
	return func(n *node) (bool, error) {
		ok, err := f(n)
		if err != nil {
			return false, err
		}
		return !ok, nil
	}
}

// originsPin: a pin no replica could decode from the log.
func originsPin(c cid.Cid) *api.Pin {
	p := common.PinOf("0/d/0:0/0/r/-1/0/-/z/-/-/1,2/-/-")
	p.Cid = c
	return p
}

// step executes one step and returns the step actually executed (an unpin / removal without a target
// becomes a pin / an addition) and its observation.
func (w *redirWorld) step(tok string, idx int) (string, string, error) {
	if len(tok) >= 3 && (tok[1] == 'U' || tok[1] == 'Y') && len(w.pinned) == 0 {
		tok = tok[:1] + "P" + tok[2:]
	}
	if len(tok) >= 3 && tok[1] == 'R' && len(w.ghosts) == 0 {
		tok = tok[:1] + "A" + tok[2:]
	} else if len(tok) >= 3 && tok[1] == 'A' && len(w.ghosts) >= 1 {
		// at most one added (never started) peer at a time: with two of them three live peers
		// of five voters are a bare quorum and the leader is easily deposed
		tok = tok[:1] + "R" + tok[2:]
	}
	o, err := w.step1(tok, idx)
	return tok, o, err
}

func (w *redirWorld) step1(tok string, idx int) (string, error) {
	if len(tok) < 3 {
		return "", fmt.Errorf("bad step %s", tok)
	}
	nfail, err := strconv.Atoi(tok[2:])
	if err != nil || nfail < 0 {
		return "", fmt.Errorf("bad step %s", tok)
	}
	l, err := w.leader()
	if err != nil {
		return "", err
	}
	at := l
	if tok[0] == 'f' {
		at = (l + 1 + idx%2) % 3
	}
	ln := w.nodes[l]
	atomic.StoreInt32(&ln.fwdSeen, 0)
	atomic.StoreInt32(&ln.failNext, int32(nfail))
	ctx, cancel := context.WithTimeout(context.Background(), 90*time.Second)
	defer cancel()
	var callErr error
	var check func(n *node) (bool, error)
	undo := func(string) {}
	switch tok[1] {
	case 'P':
		c := 20 + w.nextC
		w.nextC++
		p := api.PinCid(common.CidN(c))
		p.Name = fmt.Sprintf("redir-%d", c)
		callErr = w.nodes[at].cc.LogPin(ctx, p)
		check = hasCid(common.CidN(c))
		undo = func(vis string) {
			if vis != "0" {
				w.pinned = append(w.pinned, c)
			}
		}
	case 'U':
		c := w.pinned[0]
		callErr = w.nodes[at].cc.LogUnpin(ctx, api.PinCid(common.CidN(c)))
		check = not(hasCid(common.CidN(c)))
		undo = func(vis string) {
			if vis == "1" {
				w.pinned = w.pinned[1:]
			}
		}
	case 'X':
		c := 20 + w.nextC
		w.nextC++
		callErr = w.nodes[at].cc.LogPin(ctx, originsPin(common.CidN(c)))
		check = hasCid(common.CidN(c))
		undo = func(vis string) {
			if vis != "0" {
				w.pinned = append(w.pinned, c)
			}
		}
	case 'Y':
		c := w.pinned[0]
		callErr = w.nodes[at].cc.LogUnpin(ctx, originsPin(common.CidN(c)))
		check = not(hasCid(common.CidN(c)))
		undo = func(vis string) {
			if vis == "1" {
				w.pinned = w.pinned[1:]
			}
		}
	case 'A':
		g := common.PeerN(40 + w.nextG)
		w.nextG++
		callErr = w.nodes[at].cc.AddPeer(ctx, g)
		check = hasPeer(g)
		undo = func(vis string) {
			if vis != "0" {
				w.ghosts = append(w.ghosts, g)
			}
		}
	case 'R':
		g := w.ghosts[0]
		callErr = w.nodes[at].cc.RmPeer(ctx, g)
		check = not(hasPeer(g))
		undo = func(vis string) {
			if vis == "1" {
				w.ghosts = w.ghosts[1:]
			}
		}
	default:
		return "", fmt.Errorf("bad step %s", tok)
	}
	atomic.StoreInt32(&ln.failNext, 0)
	seen := atomic.LoadInt32(&ln.fwdSeen)
	if l2, err := w.leader(); err != nil || l2 != l {
		return "", infra("leader changed during a step")
	}
	res := "ok"
	wait := 4 * time.Second
	if callErr != nil {
		res = "err"
		wait = 300 * time.Millisecond
	}
	vis, err := w.effect(check, callErr == nil, wait)
	if err != nil {
		return "", err
	}
	undo(vis)
	return fmt.Sprintf("%s~%d~%s", res, seen, vis), nil
}

func runRedir(retries int, steps []string) ([]string, []string, error) {
	base, err := scratchDir("c01-redir-")
	if err != nil {
		return nil, nil, infra("scratch: %v", err)
	}
	defer removeAll(base)
	w := &redirWorld{}
	w.mapl = make([]int, 3)
	w.role = map[int]int{}
	defer func() {
		for _, n := range w.nodes {
			if n.up {
				n.stop()
			}
		}
	}()
	for i := 0; i < 3; i++ {
		n, err := newNode(fmt.Sprintf("%s/n%d", base, i))
		if err != nil {
			return nil, nil, err
		}
		n.retries, n.retriesSet = retries, true
		if err := n.openHost(); err != nil {
			return nil, nil, err
		}
		w.nodes = append(w.nodes, n)
	}
	for _, a := range w.nodes {
		for _, b := range w.nodes {
			if a != b {
				a.peers = append(a.peers, b.id)
			}
		}
	}
	w.connectAll()
	for _, n := range w.nodes {
		if err := n.start(); err != nil {
			return nil, nil, err
		}
	}
	for _, n := range w.nodes {
		if err := n.waitReady(); err != nil {
			return nil, nil, err
		}
	}
	var obs, done []string
	for i, s := range steps {
		t, o, err := w.step(s, i)
		if err != nil {
			return nil, nil, err
		}
		obs = append(obs, o)
		done = append(done, t)
	}
	return done, obs, nil
}

func runRedirCase(out *common.Out, retries int, steps []string) {
	tracing = false
	var lastErr error
	for attempt := 0; attempt < 3; attempt++ {
		done, obs, err := runRedir(retries, steps)
		if err != nil {
			lastErr = err
			if _, ok := err.(*infraError); ok {
				continue
			}
			break
		}
		out.Line("C01 redir %d %s => %s", retries, strings.Join(done, ","), strings.Join(obs, " "))
		return
	}
	out.Line("# inconclusive redir case: %v", lastErr)
}

// genRedirCase: CommitRetries 0..2; for every method the boundary numbers of failed forwards
// (0, CommitRetries, CommitRetries+1, CommitRetries+2) appear over the cases, plus submissions at the leader.
func genRedirCase(r *common.Rng, k int) (int, []string) {
	retries := k % 3
	bounds := []int{0, retries, retries + 1, retries + 2}
	var steps []string
	methods := []byte{'P', 'U', 'A', 'R'}
	// first: one pin and one added peer so that U and R have something to undo
	steps = append(steps, "fP0", "lA0")
	n := 5
	for i := 0; i < n; i++ {
		m := methods[(k+i)%4]
		if r.Chance(1, 3) {
			m = methods[r.Intn(4)]
		}
		where := "f"
		nf := bounds[(k/3+i)%4]
		if r.Chance(1, 6) {
			where, nf = "l", r.Intn(2)
		}
		steps = append(steps, fmt.Sprintf("%s%c%d", where, m, nf))
	}
	// operations commit() must refuse, at a follower and at the leader, each followed by an unpin that must
	// be acknowledged and visible on every peer (it would not be if the refused one had reached the log)
	und := []byte{'X', 'Y'}
	at := r.Intn(len(steps)-1) + 2
	extra := []string{fmt.Sprintf("%c%c0", "fl"[k%2], und[(k/2)%2]), "fU0"}
	steps = append(steps[:at], append(extra, steps[at:]...)...)
	if r.Chance(1, 2) {
		steps = append(steps, fmt.Sprintf("%c%c%d", "lf"[k%2], und[r.Intn(2)], r.Intn(2)), "lU0")
	}
	return retries, steps
}
