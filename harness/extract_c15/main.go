// Translator for C15: reads the 16 configuration sources of the repository
// (VERIF_REPO, default /repo) with go/ast and prints lean/ClusterVerif/Gen/C15.lean:
// one row per JSON field of every section (load kind, save kind, default,
// hidden tag, Validate conjuncts) plus a few structural facts per section.
// `-dump 1` prints a human readable table instead.
package main

import (
	"fmt"
	"go/ast"
	"go/parser"
	"go/token"
	"os"
	"path/filepath"
	"strconv"
	"strings"

	"verifharness/common"
)

func lconst(c common.C15Const) string {
	switch c.Kind {
	case "int":
		return fmt.Sprintf("(.int (%d))", c.I)
	case "dur":
		return fmt.Sprintf("(.dur (%d))", c.I)
	case "bool":
		if c.I != 0 {
			return "(.bool true)"
		}
		return "(.bool false)"
	case "str":
		return "(.str " + strconv.Quote(strings.TrimPrefix(c.Token(), "str:")) + ")"
	case "float":
		return "(.float " + strconv.Quote(strings.TrimPrefix(c.Token(), "float:")) + ")"
	case "nil":
		return ".nil"
	case "empty":
		return ".empty"
	}
	return ".unknown"
}

// sameField: the Config field a value is loaded into is the one it is saved from
func sameField(f common.C15Field) bool {
	if f.Dest == "" || f.Src == "" {
		return false
	}
	return f.Dest == f.Src || strings.HasSuffix(f.Dest, "."+f.Src) || strings.HasSuffix(f.Src, "."+f.Dest)
}

func destOf(f common.C15Field) string {
	if f.Dest != "" {
		return f.Dest
	}
	return f.Src
}

// rpnLean turns a reverse-Polish condition into a Lean `Cond` term.
func rpnLean(toks []string) string {
	var st []string
	pop := func() string {
		if len(st) == 0 {
			return ".opaque"
		}
		x := st[len(st)-1]
		st = st[:len(st)-1]
		return x
	}
	for _, t := range toks {
		switch {
		case strings.HasPrefix(t, "f:"):
			st = append(st, fmt.Sprintf("(.fld %q)", t[2:]))
		case strings.HasPrefix(t, "l:"):
			st = append(st, fmt.Sprintf("(.len %q)", t[2:]))
		case strings.HasPrefix(t, "s:"):
			st = append(st, fmt.Sprintf("(.strOf %q)", t[2:]))
		case strings.HasPrefix(t, "c:"):
			st = append(st, "(.cst "+lconst(common.C15ParseToken(t[2:]))+")")
		case t == "and" || t == "or":
			b, a := pop(), pop()
			st = append(st, fmt.Sprintf("(.%s %s %s)", t, a, b))
		case t == "not":
			st = append(st, fmt.Sprintf("(.not %s)", pop()))
		case t == "tru":
			a := pop()
			st = append(st, "(.tru "+strings.TrimSuffix(strings.TrimPrefix(a, "(.fld "), ")")+")")
		case t == "opq":
			st = append(st, ".opaque")
		case t == "opqc":
			st = append(st, ".opaqueConst")
		default: // comparison
			b, a := pop(), pop()
			st = append(st, fmt.Sprintf("(.cmp %s .%s %s)", a, t, b))
		}
	}
	return pop()
}

func lval(k string, c common.C15Const, ty string) []string {
	switch c.Kind {
	case "int", "dur":
		return []string{fmt.Sprintf("(%q, .int (%d))", "f:"+k, c.I)}
	case "bool":
		return []string{fmt.Sprintf("(%q, .bool %s)", "f:"+k, lbool(c.I != 0))}
	case "str":
		return []string{fmt.Sprintf("(%q, .str %s)", "f:"+k, strconv.Quote(strings.TrimPrefix(c.Token(), "str:")))}
	case "float":
		if lo, hi, ok := common.C15Frac(c.S); ok {
			return []string{fmt.Sprintf("(%q, .frac (%d) (%d))", "f:"+k, lo, hi)}
		}
	case "nil":
		if ty == "list" || ty == "map" {
			return []string{fmt.Sprintf("(%q, .nil)", "f:"+k), fmt.Sprintf("(%q, .int 0)", "l:"+k)}
		}
		return []string{fmt.Sprintf("(%q, .nil)", "f:"+k)}
	case "empty":
		return []string{fmt.Sprintf("(%q, .nonnil)", "f:"+k), fmt.Sprintf("(%q, .int 0)", "l:"+k)}
	}
	return nil
}

func codecName(c string) string {
	if c == "" {
		return "none"
	}
	return c
}

func lpairs(l [][2]string) string {
	var o []string
	for _, p := range l {
		o = append(o, fmt.Sprintf("(%q, %q)", p[0], p[1]))
	}
	return "[" + strings.Join(o, ", ") + "]"
}

func lbool(b bool) string {
	if b {
		return "true"
	}
	return "false"
}

// structural facts that need a second look at the sources
type facts struct {
	endsValidate, startsDefault bool
}

func funcBody(path, recv, name string) *ast.BlockStmt {
	fset := token.NewFileSet()
	f, err := parser.ParseFile(fset, path, nil, 0)
	if err != nil {
		return nil
	}
	for _, d := range f.Decls {
		fd, ok := d.(*ast.FuncDecl)
		if !ok || fd.Name.Name != name || fd.Body == nil {
			continue
		}
		r := ""
		if fd.Recv != nil && len(fd.Recv.List) == 1 {
			t := fd.Recv.List[0].Type
			if s, ok := t.(*ast.StarExpr); ok {
				t = s.X
			}
			if id, ok := t.(*ast.Ident); ok {
				r = id.Name
			}
		}
		if r == recv {
			return fd.Body
		}
	}
	return nil
}

func isMethodCall(e ast.Expr, name string) bool {
	c, ok := e.(*ast.CallExpr)
	if !ok {
		return false
	}
	sel, ok := c.Fun.(*ast.SelectorExpr)
	return ok && sel.Sel.Name == name
}

func lastReturnsCall(b *ast.BlockStmt, name string) bool {
	if b == nil || len(b.List) == 0 {
		return false
	}
	r, ok := b.List[len(b.List)-1].(*ast.ReturnStmt)
	return ok && len(r.Results) == 1 && isMethodCall(r.Results[0], name)
}

func callsBefore(b *ast.BlockStmt, names []string, last string) bool {
	if b == nil {
		return false
	}
	seen := false
	for _, st := range b.List {
		ast.Inspect(st, func(n ast.Node) bool {
			if e, ok := n.(ast.Expr); ok {
				for _, nm := range names {
					if isMethodCall(e, nm) {
						seen = true
					}
				}
			}
			return true
		})
		if r, ok := st.(*ast.ReturnStmt); ok && len(r.Results) == 1 && isMethodCall(r.Results[0], last) {
			return seen
		}
	}
	return false
}

var applyFunc = map[string][3]string{ // section -> receiver, apply function, LoadJSON receiver
	"cluster": {"Config", "applyConfigJSON"}, "raft": {"Config", "applyJSONConfig"}, "crdt": {"Config", "applyJSONConfig"},
	"restapi": {"Config", "applyJSONConfig"}, "ipfsproxy": {"Config", "applyJSONConfig"}, "ipfshttp": {"Config", "applyJSONConfig"},
	"stateless": {"Config", "applyJSONConfig"}, "pubsubmon": {"Config", "applyJSONConfig"}, "disk": {"Config", "applyJSONConfig"},
	"numpin": {"Config", "applyJSONConfig"}, "metrics": {"MetricsConfig", "applyJSONConfig"}, "tracing": {"TracingConfig", "applyJSONConfig"},
	"badger": {"Config", "applyJSONConfig"}, "leveldb": {"Config", "applyJSONConfig"}, "identity": {"Identity", "applyIdentityJSON"},
}

func sectionFacts(repo string, s common.C15Section) facts {
	af := applyFunc[s.Name]
	path := filepath.Join(repo, s.File)
	var fc facts
	fc.endsValidate = lastReturnsCall(funcBody(path, af[0], af[1]), "Validate")
	fc.startsDefault = callsBefore(funcBody(path, af[0], "LoadJSON"), []string{"Default", "setDefaults"}, af[1])
	return fc
}

func main() {
	repo := common.C15Repo()
	secs, err := common.C15Schema(repo)
	if err != nil {
		fmt.Fprintln(os.Stderr, "extract_c15:", err)
		os.Exit(1)
	}
	dump := false
	for i, a := range os.Args {
		if a == "-dump" && i+1 < len(os.Args) {
			dump = os.Args[i+1] == "1"
		}
	}
	if dump {
		for _, s := range secs {
			fmt.Printf("== %s env=%s\n", s.Name, s.EnvPrefix)
			for _, f := range s.Fields {
				fmt.Printf("  %-45s %-8s jt=%-22s load=%-22s save=%-16s dest=%-32s def=%-22s omit=%-12s oe=%v hid=%v rej=%s\n", f.JSONPath(), f.Ty, f.JType, f.Load, f.Save, f.Dest+"|"+f.Src, f.Default.Token(), f.OmitConst.Token(), f.OmitEmpty, f.Hidden, common.C15SortedRej(f.Rej))
			}
			for _, c := range s.VConj {
				fmt.Printf("  W %s   :: %s\n", c.Encode(), c.Text)
			}
			for _, c := range s.Validate {
				fmt.Printf("  V guard=%q opaque=%v %s %s %s :: %s\n", c.Guard, c.Opaque, c.Field, c.Op, c.Const.Token(), c.Text)
			}
		}
		return
	}
	hid, err := common.C15HiddenByDisplay(repo)
	if err != nil {
		fmt.Fprintln(os.Stderr, "extract_c15:", err)
		os.Exit(1)
	}
	mgrValidates := lastReturnsCall(funcBody(filepath.Join(repo, "config/config.go"), "Manager", "LoadJSON"), "Validate")

	var b strings.Builder
	b.WriteString("import ClusterVerif.Model.C15\n")
	b.WriteString("/-! GENERATED by harness/extract_c15 from the configuration sources (cluster_config.go, */config.go,\nconfig/identity.go, config/util.go, config/config.go). Do not edit: `./check C15` rewrites this file. -/\n")
	b.WriteString("namespace CV.C15.Gen\nopen CV.C15\n\n")
	var names []string
	for _, s := range secs {
		n := "fields_" + s.Name
		names = append(names, n)
		fmt.Fprintf(&b, "def %s : List Field := [\n", n)
		for i, f := range s.Fields {
			var rej []string
			for _, c := range f.Rej {
				rej = append(rej, fmt.Sprintf("(.%s, %s)", c.Op, lconst(c.Const)))
			}
			sep := ","
			if i == len(s.Fields)-1 {
				sep = ""
			}
			fmt.Fprintf(&b, "  { sec := %q, path := %q, key := %q, env := %q, ty := .%s, omitEmpty := %s, hidden := %s, sameField := %s, load := .%s, save := .%s, dflt := %s, omitC := %s, rej := [%s], codec := .%s, dest := %q, hiddenNested := %s }%s\n",
				s.Name, f.JSONPath(), f.Path[len(f.Path)-1], f.EnvName(s.EnvPrefix), f.Ty, lbool(f.OmitEmpty), lbool(f.Hidden), lbool(sameField(f)), f.Load, f.Save, lconst(f.Default), lconst(f.OmitConst), strings.Join(rej, ", "), codecName(f.Codec), destOf(f), lbool(f.HiddenNested), sep)
		}
		b.WriteString("]\n\n")
	}
	fmt.Fprintf(&b, "def fields : List Field := %s\n\n", strings.Join(names, " ++ "))
	b.WriteString("def sections : List Section := [\n")
	for i, s := range secs {
		fc := sectionFacts(repo, s)
		nop := 0
		for _, c := range s.Validate {
			if c.Opaque {
				nop++
			}
		}
		sep := ","
		if i == len(secs)-1 {
			sep = ""
		}
		fmt.Fprintf(&b, "  { name := %q, envPrefix := %q, loadEndsWithValidate := %s, loadStartsFromDefault := %s, nConj := %d, nOpaque := %d }%s\n",
			s.Name, s.EnvPrefix, lbool(fc.endsValidate), lbool(fc.startsDefault), len(s.Validate), nop, sep)
	}
	b.WriteString("]\n\n")
	b.WriteString("/-- Validate() of every section as conjuncts, and the Config values Default() gives as far as they are evident -/\ndef validates : List (String × List Conj × Env) := [\n")
	for i, s := range secs {
		var cs, env []string
		for _, c := range s.VConj {
			g := "none"
			if len(c.Guard) > 0 {
				g = "(some " + rpnLean(c.Guard) + ")"
			}
			cs = append(cs, fmt.Sprintf("    { guard := %s, cond := %s }", g, rpnLean(c.Cond)))
		}
		seen := map[string]bool{}
		for _, f := range s.Fields {
			d := destOf(f)
			if d == "" || seen[d] {
				continue
			}
			seen[d] = true
			env = append(env, lval(d, f.Default, f.Ty)...)
		}
		sep := ","
		if i == len(secs)-1 {
			sep = ""
		}
		fmt.Fprintf(&b, "  (%q, [\n%s],\n    [%s])%s\n", s.Name, strings.Join(cs, ",\n"), strings.Join(env, ", "), sep)
	}
	b.WriteString("]\n\n")
	b.WriteString("/-- enumerations: the load `switch` (JSON text, constant) and the `String()` method (constant, JSON text) -/\ndef enums : List (String × List (String × String) × List (String × String)) := [\n")
	first := true
	for _, s := range secs {
		if len(s.EnumLoad) == 0 {
			continue
		}
		if !first {
			b.WriteString(",\n")
		}
		first = false
		fmt.Fprintf(&b, "  (%q, %s, %s)", s.Name, lpairs(s.EnumLoad), lpairs(s.EnumSave))
	}
	b.WriteString("\n]\n\n")
	var lens []string
	for _, n := range common.C15SecretLens(repo) {
		lens = append(lens, strconv.Itoa(n))
	}
	fmt.Fprintf(&b, "/-- byte lengths DecodeClusterSecret accepts after hex decoding (0 = no secret) -/\ndef secretLens : List Nat := [%s]\n\n", strings.Join(lens, ", "))
	fmt.Fprintf(&b, "/-- config.DisplayJSON replaces every field tagged hidden:\"true\" by a constant -/\ndef displayReplacesHidden : Bool := %s\n\n", lbool(hid))
	fmt.Fprintf(&b, "/-- config.Manager.LoadJSON ends with `return cfg.Validate()` -/\ndef managerLoadEndsWithValidate : Bool := %s\n\n", lbool(mgrValidates))
	// round 8: semantic tables of config/util.go, config/identity.go, config/config.go
	q := func(l []string) string {
		var o []string
		for _, x := range l {
			o = append(o, strconv.Quote(x))
		}
		return "[" + strings.Join(o, ", ") + "]"
	}
	arms, err := common.C15SindArms(repo)
	if err != nil {
		fmt.Fprintln(os.Stderr, err)
		os.Exit(1)
	}
	var al []string
	for _, a := range arms {
		al = append(al, fmt.Sprintf("(%q, %q)", a.Type, a.Guard))
	}
	fmt.Fprintf(&b, "/-- config.SetIfNotDefault: the arms of its type switch (Go type, guard under which dest is assigned) -/\ndef sindArms : List (String × String) := [%s]\n\n", strings.Join(al, ", "))
	seq, err := common.C15IdentApplySeq(repo)
	if err != nil {
		fmt.Fprintln(os.Stderr, err)
		os.Exit(1)
	}
	evName := map[string]string{"decode-id": ".decodeId", "ret-err": ".retErr", "set-id": ".setId", "b64": ".b64", "unmarshal-key": ".unmarshalKey",
		"set-key": ".setKey", "ret-validate": ".retValidate", "ret-nil": ".retNil"}
	var evs []string
	for _, e := range seq {
		if n, ok := evName[e]; ok {
			evs = append(evs, n)
		} else {
			evs = append(evs, ".unknown")
		}
	}
	fmt.Fprintf(&b, "/-- Identity.applyIdentityJSON as a sequence of events -/\ndef identApplySeq : List Ident.Ev := [%s]\n\n", strings.Join(evs, ", "))
	order, reach, err := common.C15ManagerEnvOrder(repo)
	if err != nil {
		fmt.Fprintln(os.Stderr, err)
		os.Exit(1)
	}
	fmt.Fprintf(&b, "/-- Manager.LoadJSONFileAndEnv: its calls in order -/\ndef fileAndEnvOrder : List String := %s\n\n", q(order))
	fmt.Fprintf(&b, "/-- Manager.ApplyEnvVars: what it reaches -/\ndef managerEnvReach : List String := %s\n\n", q(reach))
	sseqs, err := common.C15SectionSeqs(repo)
	if err != nil {
		fmt.Fprintln(os.Stderr, err)
		os.Exit(1)
	}
	lev := func(l []string) string {
		var o []string
		for _, e := range l {
			if strings.HasPrefix(e, "skip ") {
				e = "skip " + strings.TrimPrefix(e, "skip ")
			}
			o = append(o, "."+e)
		}
		return "[" + strings.Join(o, ", ") + "]"
	}
	b.WriteString("/-- per section: LoadJSON, ApplyEnvVars and the apply function (helpers inlined) as event sequences -/\ndef sectionSeqs : List Seq.SecSeq := [\n")
	for i, s := range sseqs {
		sep := ","
		if i == len(sseqs)-1 {
			sep = ""
		}
		fmt.Fprintf(&b, "  { name := %q, load := %s, env := %s,\n    apply := %s }%s\n", s.Name, lev(s.Load), lev(s.Env), lev(s.Apply), sep)
	}
	b.WriteString("]\n\n")
	b.WriteString("/-- the envconfig decode kind of every variable, from the Go type of the JSON-struct field -/\ndef envKinds : List (String × EnvK.Kind) := [\n")
	{
		var rows []string
		for _, s := range secs {
			for _, f := range s.Fields {
				k := common.C15EnvKind(f.JType)
				lk := "." + k
				switch k {
				case "int64":
					lk = "(.int 64)"
				case "int32":
					lk = "(.int 32)"
				case "uint64":
					lk = "(.uint 64)"
				case "uint32":
					lk = "(.uint 32)"
				}
				rows = append(rows, fmt.Sprintf("  (%q, %s)", f.EnvName(s.EnvPrefix), lk))
			}
		}
		b.WriteString(strings.Join(rows, ",\n") + "]\n\n")
	}
	b.WriteString("end CV.C15.Gen\n")
	fmt.Print(b.String())
}
