// extract_c08prod: the "producer value space" translator of C08. Its standard
// output is lean/ClusterVerif/Gen/C08Prod.lean: one row per site of the
// repository's non-test code that builds or mutates a value of a wire record
// type of package api (composite literals, zero values, PinCid/PinWithOpts
// calls, later field assignments, and assignments to the interesting fields of
// values that are not built in the same function), each with the fields it
// sets and a classified value. Purely syntactic: go/ast + go/parser + go/token,
// the import table of each file resolves the alias of package api.
//
// What is traced and what is not (the Lean side fails closed on the rest):
//   - a variable is bound to a site by `x := <site>`, `x = <site>`, `var x = <site>`,
//     `var x api.T`, `*x = <site>`, `y := x` / `y := &x` (alias of a pointer-like
//     binding). Scopes follow Go's blocks. A re-assignment to anything else unbinds.
//   - `x.F = e`, `x.PinOptions.F = e`, `(*x).F = e` on a bound variable become fields of
//     that site's row, in source order (straight-line order: loops and gotos are not
//     unrolled), flagged conditional when an if/else/case/for body or a function
//     literal encloses the assignment but not the construction.
//   - the same assignment on anything else (parameter, receiver, struct field, copy)
//     is a `fieldAssign` row when the field is one of Mode, MaxDepth, Reference, Type,
//     Cid, Allocations, or the whole embedded PinOptions. Its record type is the one
//     syntactically visible for the variable (parameter/receiver/var type, a literal's
//     type, a copy of a traced variable, the result type of a function of the same
//     package), `unknown` otherwise.
//   - `x.MaxDepth = x.Mode.ToPinDepth()` / `x.Mode = x.MaxDepth.ToPinMode()` are classified
//     depthOfMode / modeOfDepth only when both sides name the same variable; any other
//     use of ToPinDepth()/ToPinMode() (other variable, inside a literal) is `other`.
//   - `&x` is classified addrOfCidUndef when x was declared `x := cid.Undef`,
//     `var x cid.Cid`, `var x = cid.Undef` or `x := cid.Cid{}` in the function and no
//     assignment statement has x on its left side since (a `&x` handed to a decoder is
//     not seen: the classification then errs towards addrOfCidUndef, i.e. towards failing).
package main

import (
	"fmt"
	"go/ast"
	"go/parser"
	"go/token"
	"os"
	"path/filepath"
	"sort"
	"strconv"
	"strings"
)

const (
	prog    = "extract_c08prod"
	apiPath = "github.com/ipfs/ipfs-cluster/api"
	cidPath = "github.com/ipfs/go-cid"
)

var recordTypes = []string{"Pin", "PinOptions", "PinInfo", "PinInfoShort", "GlobalPinInfo", "ID", "IPFSID", "Metric", "Alert",
	"AddedOutput", "RepoGC", "IPFSRepoGC", "GlobalRepoGC", "Error", "Version", "ConnectGraph", "NodeWithMeta", "PinPath", "AddParams"}

// records that embed PinOptions (its fields are promoted)
var embedsOptions = map[string]bool{"Pin": true, "PinPath": true, "AddParams": true}

var isRecord = map[string]bool{}

var modeConsts = map[string]int{"PinModeRecursive": 0, "PinModeDirect": 1}
var typeConsts = map[string]int{"BadType": 1, "DataType": 2, "MetaType": 4, "ClusterDAGType": 8, "ShardType": 16, "AllType": 30}
var interesting = map[string]string{"Mode": ".mode", "MaxDepth": ".maxDepth", "Reference": ".reference", "Type": ".type",
	"Cid": ".cid", "Allocations": ".allocations", "PinOptions": ".pinOptions"}

func keyOf(field string) string {
	if k, ok := interesting[field]; ok {
		return k
	}
	return ".other"
}

func fail(msg string) {
	fmt.Fprintln(os.Stderr, prog+":", msg)
	os.Exit(1)
}

// ---------------------------------------------------------------- output rows

type fieldSet struct {
	name        string
	key         string // Lean term of type FieldKey
	val         string // Lean term of type Val
	conditional bool
	after       bool
	guard       string
	line        int
}

type site struct {
	file, fn string
	line     int
	col      int
	rec      string
	shape    string // zero | literal | pinCid | pinWithOpts | fieldAssign | unrecognised
	reason   string
	fields   []fieldSet
	conds    map[ast.Node]bool
}

// ---------------------------------------------------------------- per file

type fileCtx struct {
	rel      string
	src      []byte
	fset     *token.FileSet
	file     *ast.File
	apiAlias string
	cidAlias string
	inAPI    bool
}

func (fc *fileCtx) text(n ast.Node) string {
	a, b := fc.fset.Position(n.Pos()).Offset, fc.fset.Position(n.End()).Offset
	if a < 0 || b > len(fc.src) || a > b {
		return "?"
	}
	return strings.Join(strings.Fields(string(fc.src[a:b])), " ")
}

func (fc *fileCtx) line(n ast.Node) int { return fc.fset.Position(n.Pos()).Line }

func unparen(e ast.Expr) ast.Expr {
	for {
		p, ok := e.(*ast.ParenExpr)
		if !ok {
			return e
		}
		e = p.X
	}
}

// pkgIdent: e is the identifier of an imported package (not shadowed by a local declaration)
func pkgIdent(e ast.Expr, alias string) bool {
	id, ok := e.(*ast.Ident)
	return ok && alias != "" && id.Name == alias && id.Obj == nil
}

// apiName gives N when e denotes the identifier N of package api.
func (fc *fileCtx) apiName(e ast.Expr) (string, bool) {
	switch x := unparen(e).(type) {
	case *ast.SelectorExpr:
		if pkgIdent(x.X, fc.apiAlias) {
			return x.Sel.Name, true
		}
	case *ast.Ident:
		if fc.inAPI && (x.Obj == nil || x.Obj.Kind == ast.Typ || x.Obj.Kind == ast.Fun || x.Obj.Kind == ast.Con) {
			return x.Name, true
		}
	}
	return "", false
}

func (fc *fileCtx) isCidName(e ast.Expr, name string) bool {
	x, ok := unparen(e).(*ast.SelectorExpr)
	return ok && pkgIdent(x.X, fc.cidAlias) && x.Sel.Name == name
}

// recOfType: e is the type api.T or *api.T for a record T
func (fc *fileCtx) recOfType(e ast.Expr) (rec string, ptr bool) {
	if e == nil {
		return "", false
	}
	e = unparen(e)
	if s, ok := e.(*ast.StarExpr); ok {
		r, _ := fc.recOfType(s.X)
		return r, r != ""
	}
	if n, ok := fc.apiName(e); ok && isRecord[n] {
		return n, false
	}
	return "", false
}

// visibleType names a declared type for fieldAssign rows: the record, or "foreign:<text>"
func (fc *fileCtx) visibleType(e ast.Expr) string {
	if e == nil {
		return ""
	}
	if r, _ := fc.recOfType(e); r != "" {
		return r
	}
	t := unparen(e)
	if s, ok := t.(*ast.StarExpr); ok {
		t = unparen(s.X)
	}
	switch t.(type) {
	case *ast.Ident, *ast.SelectorExpr:
		return "foreign:" + fc.text(t)
	}
	return ""
}

// ---------------------------------------------------------------- the walker

type binding struct {
	site     *site
	ptr      bool   // pointer-like (an alias `y := x` shares the site)
	rec      string // visible type when there is no site
	cidUndef bool
}

type walker struct {
	fc       *fileCtx
	fn       string
	stack    []ast.Node
	scopes   []map[string]*binding
	scopeAt  []int // stack depth at which each scope was pushed
	memo     map[ast.Node]*site
	consumed map[ast.Node]bool
	elided   map[*ast.CompositeLit]string
	out      *[]*site
	pkgFuncs map[string]string // functions of the same package: name -> visible type of the first result
}

// resultRec: visible type of the (first) result of a call to a function of the same package
func (w *walker) resultRec(e ast.Expr) string {
	c, ok := unparen(e).(*ast.CallExpr)
	if !ok {
		return ""
	}
	id, ok := unparen(c.Fun).(*ast.Ident)
	if !ok || w.lookup(id.Name) != nil {
		return ""
	}
	return w.pkgFuncs[id.Name]
}

// selfDerived: rhs is <base>[.PinOptions].Mode.ToPinDepth() (field "MaxDepth") or <base>.MaxDepth.ToPinMode() (field "Mode")
func selfDerived(base *ast.Ident, field string, rhs ast.Expr) bool {
	if base == nil || rhs == nil {
		return false
	}
	c, ok := unparen(rhs).(*ast.CallExpr)
	if !ok {
		return false
	}
	sel, ok := unparen(c.Fun).(*ast.SelectorExpr)
	if !ok {
		return false
	}
	b2, path, ok := lhsChain(sel.X)
	if !ok || b2 == nil || b2.Name != base.Name || b2.Obj != base.Obj {
		return false
	}
	p := strings.Join(path, ".")
	switch field {
	case "MaxDepth":
		return sel.Sel.Name == "ToPinDepth" && (p == "Mode" || p == "PinOptions.Mode")
	case "Mode":
		return sel.Sel.Name == "ToPinMode" && p == "MaxDepth"
	}
	return false
}

func (w *walker) otherVal(e ast.Expr) string { return "(.other " + q(trunc(w.fc.text(e))) + ")" }

func (w *walker) push() {
	w.scopes = append(w.scopes, map[string]*binding{})
	w.scopeAt = append(w.scopeAt, len(w.stack))
}

func (w *walker) lookup(name string) *binding {
	for i := len(w.scopes) - 1; i >= 0; i-- {
		if b, ok := w.scopes[i][name]; ok {
			return b
		}
	}
	return nil
}

func (w *walker) define(name string, b *binding) {
	if name == "_" {
		return
	}
	w.scopes[len(w.scopes)-1][name] = b
}

type cond struct {
	node  ast.Node
	guard string
}

// condList lists the conditional constructs enclosing the node on top of the stack, outermost first.
func (w *walker) condList() []cond {
	var out []cond
	for i := 1; i < len(w.stack); i++ {
		n, p := w.stack[i], w.stack[i-1]
		switch px := p.(type) {
		case *ast.IfStmt:
			if n == ast.Node(px.Body) {
				out = append(out, cond{n, w.fc.text(px.Cond)})
			} else if px.Else != nil && n == ast.Node(px.Else) {
				out = append(out, cond{n, "!(" + w.fc.text(px.Cond) + ")"})
			}
		case *ast.ForStmt:
			if n == ast.Node(px.Body) {
				out = append(out, cond{n, "for"})
			}
		case *ast.RangeStmt:
			if n == ast.Node(px.Body) {
				out = append(out, cond{n, "for range"})
			}
		}
		switch nx := n.(type) {
		case *ast.CaseClause:
			g := "default"
			if len(nx.List) > 0 {
				var l []string
				for _, e := range nx.List {
					l = append(l, w.fc.text(e))
				}
				g = "case " + strings.Join(l, ", ")
			}
			out = append(out, cond{n, g})
		case *ast.CommClause:
			out = append(out, cond{n, "select case"})
		case *ast.FuncLit:
			out = append(out, cond{n, "func literal"})
		}
	}
	return out
}

func (w *walker) newSite(n ast.Node, rec, shape, reason string) *site {
	p := w.fc.fset.Position(n.Pos())
	s := &site{file: w.fc.rel, fn: w.fn, line: p.Line, col: p.Column, rec: rec, shape: shape, reason: reason, conds: map[ast.Node]bool{}}
	for _, c := range w.condList() {
		s.conds[c.node] = true
	}
	*w.out = append(*w.out, s)
	return s
}

func trunc(s string) string { return truncN(s, 60) }

func truncN(s string, n int) string {
	r := []rune(s)
	if len(r) > n {
		return string(r[:n])
	}
	return s
}

// q prints a Lean string literal.
func q(s string) string {
	var b strings.Builder
	b.WriteByte('"')
	for _, r := range s {
		switch {
		case r == '\\':
			b.WriteString("\\\\")
		case r == '"':
			b.WriteString("\\\"")
		case r < 0x20 || r == 0x7f:
			b.WriteByte(' ')
		default:
			b.WriteRune(r)
		}
	}
	b.WriteByte('"')
	return b.String()
}

func intLit(e ast.Expr) (int64, bool) {
	e = unparen(e)
	neg := false
	if u, ok := e.(*ast.UnaryExpr); ok && (u.Op == token.SUB || u.Op == token.ADD) {
		neg = u.Op == token.SUB
		e = unparen(u.X)
	}
	if l, ok := e.(*ast.BasicLit); ok && l.Kind == token.INT {
		v, err := strconv.ParseInt(l.Value, 0, 64)
		if err != nil {
			return 0, false
		}
		if neg {
			v = -v
		}
		return v, true
	}
	return 0, false
}

func leanInt(v int64) string {
	if v < 0 {
		return fmt.Sprintf("(.intLit (%d))", v)
	}
	return fmt.Sprintf("(.intLit %d)", v)
}

// classify gives the Lean term of the abstract value of an expression.
func (w *walker) classify(e ast.Expr) string {
	fc := w.fc
	e = unparen(e)
	if v, ok := intLit(e); ok {
		return leanInt(v)
	}
	if id, ok := e.(*ast.Ident); ok && id.Name == "nil" && id.Obj == nil {
		return ".nilLit"
	}
	if n, ok := fc.apiName(e); ok {
		if _, isID := e.(*ast.Ident); !isID || w.lookup(n) == nil {
			if m, ok := modeConsts[n]; ok {
				return fmt.Sprintf("(.modeConst %d)", m)
			}
			if t, ok := typeConsts[n]; ok {
				return fmt.Sprintf("(.typeConst %d)", t)
			}
		}
	}
	if fc.isCidName(e, "Undef") {
		return ".cidUndef"
	}
	switch x := e.(type) {
	case *ast.UnaryExpr:
		if x.Op == token.AND {
			in := unparen(x.X)
			if fc.isCidName(in, "Undef") {
				return ".addrOfCidUndef"
			}
			if cl, ok := in.(*ast.CompositeLit); ok && cl.Type != nil && fc.isCidName(cl.Type, "Cid") && len(cl.Elts) == 0 {
				return ".addrOfCidUndef"
			}
			if id, ok := in.(*ast.Ident); ok {
				if b := w.lookup(id.Name); b != nil && b.cidUndef {
					return ".addrOfCidUndef"
				}
				return "(.addrOf " + q(id.Name) + ")"
			}
		}
	case *ast.CompositeLit:
		if len(x.Elts) == 0 && x.Type != nil {
			if fc.isCidName(x.Type, "Cid") {
				return ".cidUndef"
			}
			switch x.Type.(type) {
			case *ast.ArrayType, *ast.MapType:
				return ".emptyLit"
			}
		}
	case *ast.CallExpr:
		if sel, ok := unparen(x.Fun).(*ast.SelectorExpr); ok && len(x.Args) == 0 {
			switch sel.Sel.Name {
			case "ToPinDepth":
				return ".depthOfMode"
			case "ToPinMode":
				return ".modeOfDepth"
			}
		}
		if id, ok := unparen(x.Fun).(*ast.Ident); ok && id.Name == "make" && id.Obj == nil {
			return ".emptyLit"
		}
		if n, ok := fc.apiName(x.Fun); ok {
			if n == "PinModeFromString" {
				return ".modeFromString"
			}
			// conversions of a literal: api.PinDepth(-1), api.PinMode(1), api.PinType(2)
			if (n == "PinDepth" || n == "PinMode" || n == "PinType") && len(x.Args) == 1 {
				if v, ok := intLit(x.Args[0]); ok {
					switch n {
					case "PinDepth":
						return leanInt(v)
					case "PinMode":
						if v == 0 || v == 1 {
							return fmt.Sprintf("(.modeConst %d)", v)
						}
					case "PinType":
						for _, t := range typeConsts {
							if int64(t) == v {
								return fmt.Sprintf("(.typeConst %d)", v)
							}
						}
					}
				}
			}
		}
	}
	return "(.other " + q(trunc(fc.text(e))) + ")"
}

// siteOf creates (once) the site an expression denotes, nil when it is not a site.
// ptr: the expression is pointer-like.
func (w *walker) siteOf(e ast.Expr) (s *site, ptr bool) {
	e = unparen(e)
	switch x := e.(type) {
	case *ast.UnaryExpr:
		if x.Op == token.AND {
			if cl, ok := unparen(x.X).(*ast.CompositeLit); ok {
				s, _ := w.siteOf(cl)
				return s, s != nil
			}
		}
	case *ast.StarExpr: // *new(T), *api.PinCid(c)
		s, _ := w.siteOf(x.X)
		return s, false
	case *ast.CompositeLit:
		if m, ok := w.memo[x]; ok {
			return m, false
		}
		if w.consumed[x] {
			return nil, false
		}
		rec := ""
		if x.Type != nil {
			r, p := w.fc.recOfType(x.Type)
			if p {
				r = ""
			}
			rec = r
		} else {
			rec = w.elided[x]
		}
		if rec == "" {
			return nil, false
		}
		s := w.literalSite(x, rec)
		w.memo[x] = s
		return s, false
	case *ast.CallExpr:
		if m, ok := w.memo[x]; ok {
			return m, !strings.HasPrefix(m.reason, "conversion")
		}
		if id, ok := unparen(x.Fun).(*ast.Ident); ok && id.Name == "new" && id.Obj == nil && len(x.Args) == 1 {
			if r, p := w.fc.recOfType(x.Args[0]); r != "" && !p {
				s := w.newSite(x, r, "zero", "")
				w.memo[x] = s
				return s, true
			}
		}
		if n, ok := w.fc.apiName(x.Fun); ok {
			if _, isID := unparen(x.Fun).(*ast.Ident); isID && w.lookup(n) != nil {
				return nil, false
			}
			switch n {
			case "PinCid":
				s := w.newSite(x, "Pin", "pinCid", "")
				if len(x.Args) != 1 {
					s.shape, s.reason = "unrecognised", "PinCid with "+strconv.Itoa(len(x.Args))+" arguments"
				}
				w.memo[x] = s
				return s, true
			case "PinWithOpts":
				s := w.newSite(x, "Pin", "pinWithOpts", "")
				if len(x.Args) != 2 {
					s.shape, s.reason = "unrecognised", "PinWithOpts with "+strconv.Itoa(len(x.Args))+" arguments"
				}
				w.memo[x] = s
				return s, true
			}
		}
		if r, _ := w.fc.recOfType(x.Fun); r != "" {
			s := w.newSite(x, r, "unrecognised", "conversion "+trunc(w.fc.text(x)))
			w.memo[x] = s
			return s, false
		}
	}
	return nil, false
}

func (w *walker) literalSite(x *ast.CompositeLit, rec string) *site {
	if len(x.Elts) == 0 {
		return w.newSite(x, rec, "zero", "")
	}
	s := w.newSite(x, rec, "literal", "")
	w.literalFields(s, x, rec, "")
	return s
}

func (w *walker) literalFields(s *site, x *ast.CompositeLit, rec, prefix string) {
	for _, el := range x.Elts {
		kv, ok := el.(*ast.KeyValueExpr)
		if !ok {
			s.shape, s.reason = "unrecognised", "unkeyed literal"
			return
		}
		key, ok := kv.Key.(*ast.Ident)
		if !ok {
			s.shape, s.reason = "unrecognised", "literal key is not a field name"
			return
		}
		// embedded options written as a nested literal: flatten
		if key.Name == "PinOptions" && embedsOptions[rec] && prefix == "" {
			if in, ok := unparen(kv.Value).(*ast.CompositeLit); ok && in.Type != nil {
				if r, p := w.fc.recOfType(in.Type); r == "PinOptions" && !p {
					w.consumed[in] = true
					if len(in.Elts) == 0 {
						continue // PinOptions: api.PinOptions{} sets nothing
					}
					w.literalFields(s, in, "PinOptions", "PinOptions.")
					if s.shape == "unrecognised" {
						return
					}
					continue
				}
			}
		}
		val := w.classify(kv.Value)
		if val == ".depthOfMode" || val == ".modeOfDepth" { // no "same variable" inside a literal
			val = w.otherVal(kv.Value)
		}
		s.fields = append(s.fields, fieldSet{name: prefix + key.Name, key: keyOf(key.Name), val: val, line: w.fc.line(kv)})
	}
}

// lhsChain splits x.A.B (also (*x).A.B) into its base identifier and selector path.
func lhsChain(e ast.Expr) (base *ast.Ident, path []string, ok bool) {
	for {
		e = unparen(e)
		switch x := e.(type) {
		case *ast.SelectorExpr:
			path = append([]string{x.Sel.Name}, path...)
			e = x.X
		case *ast.StarExpr:
			e = x.X
		case *ast.Ident:
			return x, path, len(path) > 0
		default:
			return nil, path, len(path) > 0
		}
	}
}

// assignField records `lhs = rhs` where lhs is a selector chain; rhs nil: multi-value or op-assignment.
func (w *walker) assignField(lhs ast.Expr, rhs ast.Expr, stmt ast.Node, what string) {
	base, path, ok := lhsChain(lhs)
	if !ok {
		return
	}
	val := "(.other " + q(what) + ")"
	if rhs != nil {
		val = w.classify(rhs)
		if (val == ".depthOfMode" || val == ".modeOfDepth") &&
			!((len(path) == 1 || (len(path) == 2 && path[0] == "PinOptions")) && selfDerived(base, path[len(path)-1], rhs)) {
			val = w.otherVal(rhs)
		}
	}
	var b *binding
	if base != nil {
		b = w.lookup(base.Name)
	}
	last := path[len(path)-1]
	if b != nil && b.site != nil {
		s := b.site
		name, k := strings.Join(path, "."), ".other"
		if len(path) == 2 && path[0] == "PinOptions" && embedsOptions[s.rec] {
			name = path[1]
		}
		if !strings.Contains(name, ".") {
			k = keyOf(name)
		}
		fs := fieldSet{name: name, key: k, val: val, after: true, line: w.fc.line(stmt)}
		var gs []string
		for _, c := range w.condList() {
			if !s.conds[c.node] {
				fs.conditional = true
				gs = append(gs, c.guard)
			}
		}
		fs.guard = strings.Join(gs, " && ")
		s.fields = append(s.fields, fs)
		return
	}
	if _, ok := interesting[last]; !ok {
		return
	}
	rec := "unknown"
	if b != nil && b.rec != "" && (len(path) == 1 || (len(path) == 2 && path[0] == "PinOptions")) {
		rec = b.rec
	}
	s := w.newSite(stmt, rec, "fieldAssign", trunc(w.fc.text(lhs)))
	fs := fieldSet{name: strings.Join(path, "."), key: keyOf(last), val: val, after: true, line: w.fc.line(stmt)}
	if len(path) == 2 && path[0] == "PinOptions" {
		fs.name = path[1]
	}
	var gs []string
	for _, c := range w.condList() {
		fs.conditional = true
		gs = append(gs, c.guard)
	}
	fs.guard = strings.Join(gs, " && ")
	s.fields = append(s.fields, fs)
}

// bind handles `lhs := rhs` / `lhs = rhs` / `var lhs = rhs` / `*lhs = rhs` for one pair.
func (w *walker) bind(lhs ast.Expr, rhs ast.Expr, define bool) {
	lhs = unparen(lhs)
	deref := false
	if st, ok := lhs.(*ast.StarExpr); ok { // *x = <site>
		lhs = unparen(st.X)
		deref = true
	}
	id, ok := lhs.(*ast.Ident)
	if !ok {
		return
	}
	nb := &binding{}
	if rhs != nil {
		r := unparen(rhs)
		if s, ptr := w.siteOf(r); s != nil {
			nb.site, nb.ptr = s, ptr || deref
		} else if w.fc.isCidName(r, "Undef") {
			nb.cidUndef = true
		} else if cl, ok := r.(*ast.CompositeLit); ok && cl.Type != nil && len(cl.Elts) == 0 && w.fc.isCidName(cl.Type, "Cid") {
			nb.cidUndef = true
		} else if ft := w.literalType(r); ft != "" {
			nb.rec = ft
		} else if rr := w.resultRec(r); rr != "" {
			nb.rec = rr
		} else {
			// aliases and copies of traced variables
			src := r
			addr, star := false, false
			if u, ok := src.(*ast.UnaryExpr); ok && u.Op == token.AND {
				src, addr = unparen(u.X), true
			} else if st, ok := src.(*ast.StarExpr); ok {
				src, star = unparen(st.X), true
			}
			if sid, ok := src.(*ast.Ident); ok {
				if sb := w.lookup(sid.Name); sb != nil {
					switch {
					case sb.site != nil && !star && (sb.ptr || addr) && !deref:
						nb.site, nb.ptr = sb.site, true // alias of the same value
					case sb.site != nil:
						nb.rec = sb.site.rec // a copy
					default:
						nb.rec = sb.rec
					}
				}
			}
		}
	}
	if deref {
		// *x = v: x keeps its declared type, follows the new site if there is one
		if old := w.lookup(id.Name); old != nil {
			if nb.site != nil {
				old.site, old.ptr = nb.site, true
			} else {
				old.site = nil
				if old.rec == "" {
					old.rec = nb.rec
				}
			}
		}
		return
	}
	if define {
		if old, ok := w.scopes[len(w.scopes)-1][id.Name]; ok { // := re-uses a variable of the same scope
			*old = *nb
			return
		}
		w.define(id.Name, nb)
		return
	}
	if old := w.lookup(id.Name); old != nil {
		keep := old.rec
		*old = *nb
		if old.site == nil && old.rec == "" {
			old.rec = keep
		}
	}
}

// literalType: visible type of T{...} / &T{...} for a T that is not a record
func (w *walker) literalType(e ast.Expr) string {
	e = unparen(e)
	if u, ok := e.(*ast.UnaryExpr); ok && u.Op == token.AND {
		e = unparen(u.X)
	}
	if cl, ok := e.(*ast.CompositeLit); ok && cl.Type != nil {
		return w.fc.visibleType(cl.Type)
	}
	return ""
}

func (w *walker) declareFields(fl *ast.FieldList) {
	if fl == nil {
		return
	}
	for _, f := range fl.List {
		for _, n := range f.Names {
			w.define(n.Name, &binding{rec: w.fc.visibleType(f.Type)})
		}
	}
}

func (w *walker) walk(root ast.Node) {
	ast.Inspect(root, func(n ast.Node) bool {
		if n == nil {
			for len(w.scopeAt) > 0 && w.scopeAt[len(w.scopeAt)-1] == len(w.stack) {
				w.scopes = w.scopes[:len(w.scopes)-1]
				w.scopeAt = w.scopeAt[:len(w.scopeAt)-1]
			}
			w.stack = w.stack[:len(w.stack)-1]
			return true
		}
		w.stack = append(w.stack, n)
		switch x := n.(type) {
		case *ast.FuncDecl:
			w.push()
			w.declareFields(x.Recv)
			w.declareFields(x.Type.Params)
			w.declareFields(x.Type.Results)
		case *ast.FuncLit:
			w.push()
			w.declareFields(x.Type.Params)
			w.declareFields(x.Type.Results)
		case *ast.BlockStmt, *ast.IfStmt, *ast.ForStmt, *ast.SwitchStmt, *ast.TypeSwitchStmt, *ast.SelectStmt, *ast.CaseClause, *ast.CommClause:
			w.push()
		case *ast.RangeStmt:
			w.push()
			if x.Tok == token.DEFINE {
				for _, e := range []ast.Expr{x.Key, x.Value} {
					if id, ok := e.(*ast.Ident); ok {
						w.define(id.Name, &binding{})
					}
				}
			}
		case *ast.AssignStmt:
			w.assign(x)
		case *ast.DeclStmt:
			if gd, ok := x.Decl.(*ast.GenDecl); ok && gd.Tok == token.VAR {
				for _, sp := range gd.Specs {
					w.valueSpec(sp.(*ast.ValueSpec))
				}
			}
		case *ast.GenDecl: // package level
			if len(w.stack) == 1 && x.Tok == token.VAR {
				for _, sp := range x.Specs {
					w.valueSpec(sp.(*ast.ValueSpec))
				}
			}
		case *ast.CompositeLit:
			w.markElided(x)
			w.siteOf(x)
		case *ast.CallExpr:
			w.siteOf(x)
		}
		return true
	})
}

// markElided: elements of []api.T{{...}} / map[K]*api.T{k: {...}} are literals of T
func (w *walker) markElided(x *ast.CompositeLit) {
	var elt ast.Expr
	switch t := x.Type.(type) {
	case *ast.ArrayType:
		elt = t.Elt
	case *ast.MapType:
		elt = t.Value
	default:
		return
	}
	rec, _ := w.fc.recOfType(elt)
	if rec == "" {
		return
	}
	for _, el := range x.Elts {
		v := el
		if kv, ok := el.(*ast.KeyValueExpr); ok {
			v = kv.Value
		}
		if cl, ok := unparen(v).(*ast.CompositeLit); ok && cl.Type == nil {
			w.elided[cl] = rec
		}
	}
}

func (w *walker) valueSpec(vs *ast.ValueSpec) {
	if len(vs.Values) == 0 {
		rec, ptr := w.fc.recOfType(vs.Type)
		for _, n := range vs.Names {
			switch {
			case rec != "" && !ptr:
				s := w.newSite(n, rec, "zero", "")
				w.define(n.Name, &binding{site: s})
			case vs.Type != nil && w.fc.isCidName(vs.Type, "Cid"):
				w.define(n.Name, &binding{cidUndef: true})
			default:
				w.define(n.Name, &binding{rec: w.fc.visibleType(vs.Type)})
			}
		}
		return
	}
	for i, n := range vs.Names {
		if len(vs.Values) == len(vs.Names) {
			w.define(n.Name, &binding{})
			w.bind(n, vs.Values[i], true)
			if b := w.lookup(n.Name); b != nil && b.site == nil && b.rec == "" {
				b.rec = w.fc.visibleType(vs.Type)
			}
		} else {
			w.define(n.Name, &binding{rec: w.fc.visibleType(vs.Type)})
		}
	}
}

func (w *walker) assign(x *ast.AssignStmt) {
	pair := len(x.Lhs) == len(x.Rhs)
	if x.Tok != token.ASSIGN && x.Tok != token.DEFINE {
		// op-assignments (+=, |=, ...) to a field: recorded with an `other` value
		for _, l := range x.Lhs {
			if _, ok := unparen(l).(*ast.Ident); !ok {
				w.assignField(l, nil, x, "<"+x.Tok.String()+">")
			}
		}
		return
	}
	// right sides first (sites are created in source order of the statement)
	for _, r := range x.Rhs {
		w.siteOf(r)
	}
	for i, l := range x.Lhs {
		var r ast.Expr
		if pair {
			r = x.Rhs[i]
		}
		switch lx := unparen(l).(type) {
		case *ast.Ident:
			w.bind(lx, r, x.Tok == token.DEFINE)
			if !pair && i == 0 && len(x.Rhs) == 1 { // x, err := f()
				if rr := w.resultRec(x.Rhs[0]); rr != "" {
					if b := w.lookup(lx.Name); b != nil && b.site == nil {
						b.rec = rr
					}
				}
			}
		case *ast.StarExpr:
			if _, ok := unparen(lx.X).(*ast.Ident); ok {
				w.bind(lx, r, false)
			} else {
				w.assignField(l, r, x, "<multi-value assignment>")
			}
		default:
			w.assignField(l, r, x, "<multi-value assignment>")
		}
	}
}

// ---------------------------------------------------------------- facts

func findFunc(f *ast.File, method bool, name string) *ast.FuncDecl {
	for _, d := range f.Decls {
		fd, ok := d.(*ast.FuncDecl)
		if ok && fd.Name.Name == name && method == (fd.Recv != nil) {
			return fd
		}
	}
	return nil
}

// PinCid: a single `return &Pin{...}` with keyed fields, MaxDepth: -1, Type: DataType, no Mode, no PinOptions.
func factPinCid(fc *fileCtx) bool {
	fd := findFunc(fc.file, false, "PinCid")
	if fd == nil || fd.Body == nil || len(fd.Body.List) != 1 {
		return false
	}
	ret, ok := fd.Body.List[0].(*ast.ReturnStmt)
	if !ok || len(ret.Results) != 1 {
		return false
	}
	u, ok := unparen(ret.Results[0]).(*ast.UnaryExpr)
	if !ok || u.Op != token.AND {
		return false
	}
	cl, ok := unparen(u.X).(*ast.CompositeLit)
	if !ok {
		return false
	}
	if r, p := fc.recOfType(cl.Type); r != "Pin" || p {
		return false
	}
	depth, typ := false, false
	for _, el := range cl.Elts {
		kv, ok := el.(*ast.KeyValueExpr)
		if !ok {
			return false
		}
		k, ok := kv.Key.(*ast.Ident)
		if !ok {
			return false
		}
		switch k.Name {
		case "Mode", "PinOptions":
			return false
		case "MaxDepth":
			v, ok := intLit(kv.Value)
			depth = ok && v == -1
		case "Type":
			n, ok := fc.apiName(kv.Value)
			typ = ok && n == "DataType"
		}
	}
	return depth && typ
}

// PinWithOpts: exactly `p := PinCid(c); p.PinOptions = opts; p.MaxDepth = p.Mode.ToPinDepth(); return p`.
func factPinWithOpts(fc *fileCtx) bool {
	fd := findFunc(fc.file, false, "PinWithOpts")
	if fd == nil || fd.Body == nil || len(fd.Body.List) != 4 {
		return false
	}
	want := []string{"p := PinCid(c)", "p.PinOptions = opts", "p.MaxDepth = p.Mode.ToPinDepth()", "return p"}
	for i, st := range fd.Body.List {
		if fc.text(st) != want[i] {
			return false
		}
	}
	if fd.Type.Params == nil || len(fd.Type.Params.List) != 2 {
		return false
	}
	return fc.text(fd.Type.Params.List[0]) == "c cid.Cid" && fc.text(fd.Type.Params.List[1]) == "opts PinOptions"
}

// sharding.New: `opts.Mode = api.PinModeRecursive` is the first statement, only a return follows, and the
// DAGService literal that is returned carries `pinOpts: opts`.
func factShardingNew(fc *fileCtx) bool {
	fd := findFunc(fc.file, false, "New")
	if fd == nil || fd.Body == nil || len(fd.Body.List) < 2 {
		return false
	}
	as, ok := fd.Body.List[0].(*ast.AssignStmt)
	if !ok || as.Tok != token.ASSIGN || len(as.Lhs) != 1 || len(as.Rhs) != 1 || fc.text(as.Lhs[0]) != "opts.Mode" {
		return false
	}
	if n, ok := fc.apiName(as.Rhs[0]); !ok || n != "PinModeRecursive" {
		return false
	}
	okParam := false
	for _, p := range fd.Type.Params.List {
		for _, n := range p.Names {
			if r, ptr := fc.recOfType(p.Type); n.Name == "opts" && r == "PinOptions" && !ptr {
				okParam = true
			}
		}
	}
	if !okParam {
		return false
	}
	found := false
	for _, st := range fd.Body.List[1:] {
		ret, ok := st.(*ast.ReturnStmt)
		if !ok {
			return false
		}
		ast.Inspect(ret, func(n ast.Node) bool {
			if kv, ok := n.(*ast.KeyValueExpr); ok && fc.text(kv.Key) == "pinOpts" && fc.text(kv.Value) == "opts" {
				found = true
			}
			return true
		})
	}
	return found
}

// every newShard call of package sharding passes dgs.pinOpts, newShard stores its parameter in pinOptions
// without assigning to it, and nothing in the package assigns to (or takes the address of) a pinOpts /
// pinOptions field.
func factShardOpts(files []*fileCtx) bool {
	calls, stores := 0, 0
	ok := true
	for _, fc := range files {
		fc := fc
		ast.Inspect(fc.file, func(n ast.Node) bool {
			switch x := n.(type) {
			case *ast.CallExpr:
				if id, isID := unparen(x.Fun).(*ast.Ident); isID && id.Name == "newShard" {
					calls++
					if len(x.Args) != 3 || fc.text(x.Args[2]) != "dgs.pinOpts" {
						ok = false
					}
				}
			case *ast.AssignStmt:
				for _, l := range x.Lhs {
					t := fc.text(l)
					if strings.Contains(t, ".pinOpts") || strings.Contains(t, ".pinOptions") {
						ok = false
					}
				}
			case *ast.UnaryExpr:
				if _, lit := unparen(x.X).(*ast.CompositeLit); x.Op == token.AND && !lit {
					t := fc.text(x.X)
					if strings.Contains(t, ".pinOpts") || strings.Contains(t, ".pinOptions") {
						ok = false
					}
				}
			case *ast.KeyValueExpr:
				if fc.text(x.Key) == "pinOptions" {
					if fc.text(x.Value) == "opts" {
						stores++
					} else {
						ok = false
					}
				}
				if fc.text(x.Key) == "pinOpts" && fc.text(x.Value) != "opts" {
					ok = false
				}
			}
			return true
		})
		if fd := findFunc(fc.file, false, "newShard"); fd != nil {
			ast.Inspect(fd, func(n ast.Node) bool {
				if as, isAs := n.(*ast.AssignStmt); isAs {
					for _, l := range as.Lhs {
						if t := fc.text(l); t == "opts" || strings.HasPrefix(t, "opts.") {
							ok = false
						}
					}
				}
				return true
			})
		}
	}
	return ok && calls >= 1 && stores == 1
}

// ---------------------------------------------------------------- main

func skipFile(rel string, src []byte) bool {
	base := filepath.Base(rel)
	if strings.HasSuffix(base, "_test.go") || strings.HasPrefix(base, "verif_export") {
		return true
	}
	// build constraints come before the package clause
	for _, ln := range strings.Split(string(src), "\n") {
		t := strings.TrimSpace(ln)
		if strings.HasPrefix(t, "package ") {
			break
		}
		if strings.HasPrefix(t, "//go:build") || strings.HasPrefix(t, "// +build") {
			for _, tok := range strings.FieldsFunc(t, func(r rune) bool {
				return !(r == '!' || r == '_' || r >= '0' && r <= '9' || r >= 'a' && r <= 'z' || r >= 'A' && r <= 'Z')
			}) {
				if tok == "verif" { // `!verif` marks the production variant and is read
					return true
				}
			}
		}
	}
	return false
}

func importAlias(f *ast.File, path, def string) string {
	for _, im := range f.Imports {
		p, err := strconv.Unquote(im.Path.Value)
		if err != nil || p != path {
			continue
		}
		if im.Name != nil {
			if im.Name.Name == "." {
				fail("dot import of " + path + " is not supported")
			}
			if im.Name.Name == "_" {
				return ""
			}
			return im.Name.Name
		}
		return def
	}
	return ""
}

func funcName(fd *ast.FuncDecl, fc *fileCtx) string {
	if fd.Recv == nil || len(fd.Recv.List) == 0 {
		return fd.Name.Name
	}
	t := unparen(fd.Recv.List[0].Type)
	if s, ok := t.(*ast.StarExpr); ok {
		t = unparen(s.X)
	}
	return fc.text(t) + "." + fd.Name.Name
}

func bl(b bool) string {
	if b {
		return "true"
	}
	return "false"
}

func recK(r string) string {
	switch r {
	case "Pin":
		return ".pin"
	case "PinOptions":
		return ".pinOptions"
	case "PinPath":
		return ".pinPath"
	case "AddParams":
		return ".addParams"
	case "unknown":
		return ".unknown"
	}
	if strings.HasPrefix(r, "foreign:") {
		return ".foreign"
	}
	return ".otherRec"
}

func main() {
	repo := os.Getenv("VERIF_REPO")
	if repo == "" {
		repo = "/repo"
	}
	for _, r := range recordTypes {
		isRecord[r] = true
	}
	var rels []string
	err := filepath.Walk(repo, func(p string, info os.FileInfo, err error) error {
		if err != nil {
			return err
		}
		rel, _ := filepath.Rel(repo, p)
		if info.IsDir() {
			switch filepath.ToSlash(rel) {
			case "test", "sharness", "api/pb", "vendor", ".git":
				return filepath.SkipDir
			}
			if info.Name() == "vendor" || info.Name() == "testdata" {
				return filepath.SkipDir
			}
			return nil
		}
		if strings.HasSuffix(p, ".go") {
			rels = append(rels, filepath.ToSlash(rel))
		}
		return nil
	})
	if err != nil {
		fail(err.Error())
	}
	sort.Strings(rels)

	fset := token.NewFileSet()
	var sites []*site
	declared := map[string]bool{}
	var shardFiles, files []*fileCtx
	var apiTypesGo, shardDag *fileCtx
	pkgFuncs := map[string]map[string]string{} // directory -> function -> visible type of its first result
	nfiles := 0
	for _, rel := range rels {
		src, err := os.ReadFile(filepath.Join(repo, rel))
		if err != nil {
			fail(err.Error())
		}
		if skipFile(rel, src) {
			continue
		}
		f, err := parser.ParseFile(fset, filepath.Join(repo, rel), src, parser.ParseComments)
		if err != nil {
			fail(err.Error())
		}
		nfiles++
		fc := &fileCtx{rel: rel, src: src, fset: fset, file: f}
		fc.inAPI = filepath.ToSlash(filepath.Dir(rel)) == "api" && f.Name.Name == "api"
		fc.apiAlias = importAlias(f, apiPath, "api")
		fc.cidAlias = importAlias(f, cidPath, "cid")
		if rel == "api/types.go" {
			apiTypesGo = fc
		}
		if filepath.ToSlash(filepath.Dir(rel)) == "adder/sharding" {
			shardFiles = append(shardFiles, fc)
			if rel == "adder/sharding/dag_service.go" {
				shardDag = fc
			}
		}
		files = append(files, fc)
		dir := filepath.ToSlash(filepath.Dir(rel)) + ":" + f.Name.Name
		if pkgFuncs[dir] == nil {
			pkgFuncs[dir] = map[string]string{}
		}
		for _, d := range f.Decls {
			if fd, ok := d.(*ast.FuncDecl); ok && fd.Recv == nil && fd.Type.Results != nil && len(fd.Type.Results.List) > 0 {
				if t := fc.visibleType(fd.Type.Results.List[0].Type); t != "" {
					pkgFuncs[dir][fd.Name.Name] = t
				}
			}
		}
	}
	for _, fc := range files {
		f := fc.file
		for _, d := range f.Decls {
			w := &walker{fc: fc, memo: map[ast.Node]*site{}, consumed: map[ast.Node]bool{}, elided: map[*ast.CompositeLit]string{}, out: &sites,
				pkgFuncs: pkgFuncs[filepath.ToSlash(filepath.Dir(fc.rel))+":"+f.Name.Name]}
			w.push()
			switch x := d.(type) {
			case *ast.FuncDecl:
				w.fn = funcName(x, fc)
				w.walk(x)
			case *ast.GenDecl:
				w.fn = "<package>"
				if x.Tok == token.TYPE {
					for _, sp := range x.Specs {
						ts := sp.(*ast.TypeSpec)
						if fc.inAPI && isRecord[ts.Name.Name] {
							if _, ok := ts.Type.(*ast.StructType); ok {
								declared[ts.Name.Name] = true
							}
						}
						// a type defined as (or aliased to) a record escapes the type-name matching
						if r, _ := fc.recOfType(ts.Type); r != "" {
							w.newSite(ts, r, "unrecognised", "type "+ts.Name.Name+" is defined from a record type")
						}
					}
				}
				w.walk(x)
			}
		}
	}
	if nfiles == 0 {
		fail("no source files under " + repo)
	}

	sort.SliceStable(sites, func(i, j int) bool {
		a, b := sites[i], sites[j]
		if a.file != b.file {
			return a.file < b.file
		}
		if a.line != b.line {
			return a.line < b.line
		}
		return a.col < b.col
	})

	allDeclared := true
	for _, r := range recordTypes {
		if !declared[r] {
			allDeclared = false
		}
	}

	var b strings.Builder
	b.WriteString("import ClusterVerif.Model.C08Prod\n")
	b.WriteString("/-! GENERATED by harness/extract_c08prod — do not edit.\n")
	b.WriteString("Every site of the repository's non-test code that builds or mutates a value of a wire record type of\n")
	b.WriteString("package api, with the fields it sets (syntactic extraction, see the translator's header). Core Lean only. -/\n")
	b.WriteString("namespace CV.C08.Gen.Prod\nopen CV.C08.Prod\n\n")
	b.WriteString("def sites : List Site := [\n")
	for i, s := range sites {
		fmt.Fprintf(&b, "  { file := %s, func := %s, line := %d, record := %s, recK := %s, shape := .%s, reason := %s, fields := [",
			q(s.file), q(s.fn), s.line, q(s.rec), recK(s.rec), s.shape, q(s.reason))
		for j, f := range s.fields {
			if j > 0 {
				b.WriteString(",")
			}
			fmt.Fprintf(&b, "\n      { name := %s, key := %s, val := %s, conditional := %s, afterConstruction := %s, guard := %s, line := %d }",
				q(f.name), f.key, f.val, bl(f.conditional), bl(f.after), q(truncN(f.guard, 160)), f.line)
		}
		b.WriteString("] }")
		if i+1 < len(sites) {
			b.WriteString(",")
		}
		b.WriteString("\n")
	}
	b.WriteString("]\n\n")
	pc, pw, sn, so := false, false, false, false
	if apiTypesGo != nil {
		pc, pw = factPinCid(apiTypesGo), factPinWithOpts(apiTypesGo)
	}
	if shardDag != nil {
		sn = factShardingNew(shardDag)
		so = factShardOpts(shardFiles)
	}
	fmt.Fprintf(&b, "/-- api/types.go: `PinCid` returns `&Pin{...}` with `MaxDepth: -1`, `Type: DataType`, no Mode and no PinOptions -/\ndef pinCidDepthMinus1 : Bool := %s\n", bl(pc))
	fmt.Fprintf(&b, "/-- api/types.go: `PinWithOpts` is `p := PinCid(c); p.PinOptions = opts; p.MaxDepth = p.Mode.ToPinDepth(); return p` -/\ndef pinWithOptsDerivesDepth : Bool := %s\n", bl(pw))
	fmt.Fprintf(&b, "/-- adder/sharding/dag_service.go: `New` starts with `opts.Mode = api.PinModeRecursive` and returns a DAGService with `pinOpts: opts` -/\ndef shardingForcesRecursive : Bool := %s\n", bl(sn))
	fmt.Fprintf(&b, "/-- adder/sharding: every `newShard` call passes `dgs.pinOpts`, `newShard` stores its parameter unchanged in `pinOptions`,\n    and no statement assigns to (or takes the address of) a `pinOpts` / `pinOptions` field -/\ndef shardOptionsFromDagService : Bool := %s\n", bl(so))
	fmt.Fprintf(&b, "/-- every record type of the list is declared as a struct in package api -/\ndef recordTypesDeclared : Bool := %s\n", bl(allDeclared))
	fmt.Fprintf(&b, "/-- number of source files read -/\ndef filesRead : Nat := %d\n", nfiles)
	b.WriteString("\nend CV.C08.Gen.Prod\n")
	fmt.Print(b.String())
}
