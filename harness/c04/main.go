// C04 harness: drives the real Cluster.Pin / PinPath / PinUpdate / Unpin /
// UnpinPath / pin() over a dsstate-backed fake consensus, a metrics.Store
// monitor, the real allocators and a table-driven IPFS connector.
// One line per call (the pre-state is explicit, so every line replays alone):
//
//	C04 <cfg> <peers> <paths> <blocks> <pre pinset> <op ...> => <res> <post pinset> <log>
package main

import (
	"bufio"
	"context"
	"fmt"
	"os"
	"sort"
	"strconv"
	"strings"
	"time"

	ipfscluster "github.com/ipfs/ipfs-cluster"
	"github.com/ipfs/ipfs-cluster/allocator/ascendalloc"
	"github.com/ipfs/ipfs-cluster/allocator/descendalloc"
	"github.com/ipfs/ipfs-cluster/api"

	"github.com/ipfs/ipfs-cluster/version"

	cid "github.com/ipfs/go-cid"
	rpc "github.com/libp2p/go-libp2p-gorpc"

	"verifharness/common"
)

type world struct {
	follower       bool
	defMin, defMax int
	desc           bool
	peers          []string // state tokens a|v<n>|e|i|n
	paths          map[int]int
	blocks         map[int][]int
	lost           map[int][]int // cluster-DAG blocks that exist as content but that BlockGet cannot fetch
}

func (w *world) cfgTok() string {
	b := func(x bool) int {
		if x {
			return 1
		}
		return 0
	}
	ps := make([]string, len(w.peers))
	for i, s := range w.peers {
		ps[i] = fmt.Sprintf("%d:%s", i, s)
	}
	pl := "-"
	if len(ps) > 0 {
		pl = strings.Join(ps, ",")
	}
	var pk []int
	for k := range w.paths {
		pk = append(pk, k)
	}
	sort.Ints(pk)
	pt := make([]string, len(pk))
	for i, k := range pk {
		pt[i] = fmt.Sprintf("%d:%d", k, w.paths[k])
	}
	ptk := "-"
	if len(pt) > 0 {
		ptk = strings.Join(pt, ",")
	}
	var bk []int
	for k := range w.blocks {
		bk = append(bk, k)
	}
	sort.Ints(bk)
	bt := make([]string, len(bk))
	for i, k := range bk {
		ls := make([]string, len(w.blocks[k]))
		for j, l := range w.blocks[k] {
			ls[j] = strconv.Itoa(l)
		}
		bt[i] = fmt.Sprintf("%d:%s", k, strings.Join(ls, "."))
	}
	var lk []int
	for k := range w.lost {
		lk = append(lk, k)
	}
	sort.Ints(lk)
	for _, k := range lk {
		ls := make([]string, len(w.lost[k]))
		for j, l := range w.lost[k] {
			ls[j] = strconv.Itoa(l)
		}
		bt = append(bt, fmt.Sprintf("%d!%s", k, strings.Join(ls, ".")))
	}
	btk := "-"
	if len(bt) > 0 {
		btk = strings.Join(bt, ";")
	}
	return fmt.Sprintf("f%d/dm%d:%d/s%d %s %s %s", b(w.follower), w.defMin, w.defMax, b(w.desc), pl, ptk, btk)
}

type env struct {
	w    *world
	cl   *ipfscluster.Cluster
	cons *common.FaultConsensus
	rpc  *rpc.Client // in-process client of the REAL rpc server (newRPCServer: ClusterRPCAPI of rpc_api.go)
}

func build(w *world, pre []*api.Pin) *env {
	ctx := context.Background()
	cons := common.NewFaultConsensus()
	for _, p := range pre {
		if err := cons.St.Add(ctx, p); err != nil {
			panic(err)
		}
	}
	mon := common.NewStoreMonitor()
	const name = "verifmetric"
	now := time.Now()
	for i, s := range w.peers {
		m := &api.Metric{Name: name, Peer: common.PeerN(i), Valid: true, Value: "3",
			Expire: now.Add(time.Hour).UnixNano(), ReceivedAt: now.UnixNano()}
		switch s[0] {
		case 'a':
			continue
		case 'v':
			m.Value = s[1:]
		case 'e':
			m.Expire = now.Add(-time.Hour).UnixNano()
		case 'i':
			m.Valid = false
		case 'n':
			m.Value = "12x"
		}
		mon.Store.Add(m)
	}
	ipfs := common.NewFakeIPFS()
	for k, c := range w.paths {
		ipfs.Paths[pathStr(k)] = common.CidN(c)
	}
	for k, links := range w.blocks {
		ls := make([]cid.Cid, len(links))
		for i, l := range links {
			ls[i] = common.CidN(l)
		}
		ipfs.SetLinksBlock(common.CidN(k), ls)
	}
	var alloc ipfscluster.PinAllocator = ascendalloc.NewAllocator()
	if w.desc {
		alloc = descendalloc.NewAllocator()
	}
	cfg := &ipfscluster.Config{}
	cfg.FollowerMode = w.follower
	cfg.ReplicationFactorMin = w.defMin
	cfg.ReplicationFactorMax = w.defMax
	cl := ipfscluster.VerifNewCluster(ctx, ipfscluster.VerifComponents{
		ID: common.PeerN(0), Config: cfg, Consensus: cons, IPFS: ipfs, Monitor: mon, Allocator: alloc,
		Informers: []ipfscluster.Informer{&common.NamedInformer{N: name}},
	})
	e := &env{w: w, cl: cl, cons: cons}
	if srv, err := ipfscluster.VerifNewRPCServer(cl); err == nil {
		e.rpc = rpc.NewClientWithServer(nil, version.RPCProtocol, srv)
		cl.VerifSetRPC(srv, e.rpc)
	}
	return e
}

func pathStr(k int) string { return fmt.Sprintf("/ipfs/%s/p%d", common.CidN(60), k) }

// op tokens: ["pin", cid, opts] ...
func (e *env) exec(op []string) (res string) {
	ctx := context.Background()
	defer func() {
		if r := recover(); r != nil {
			res = "panic"
		}
	}()
	var p *api.Pin
	var err error
	atoi := func(s string) int { v, _ := strconv.Atoi(s); return v }
	switch op[0] {
	case "pin":
		p, err = e.cl.Pin(ctx, common.CidN(atoi(op[1])), common.OptsOf(op[2]))
	case "pinpath":
		p, err = e.cl.PinPath(ctx, pathStr(atoi(op[1])), common.OptsOf(op[2]))
	case "update":
		p, err = e.cl.PinUpdate(ctx, common.CidN(atoi(op[1])), common.CidN(atoi(op[2])), common.OptsOf(op[3]))
	case "unpin":
		p, err = e.cl.Unpin(ctx, common.CidN(atoi(op[1])))
	case "unpinpath":
		p, err = e.cl.UnpinPath(ctx, pathStr(atoi(op[1])))
	case "rpcpin":
		p, _, err = e.cl.VerifPin(ctx, common.PinOf(op[1]), nil)
	// the same requests entering where the REST API, the proxy, the adders and other peers enter: ClusterRPCAPI
	case "rpc.pin", "rpc.unpin", "rpc.pinpath", "rpc.unpinpath", "rpc.pinget":
		if e.rpc == nil {
			return "norpc"
		}
		var out api.Pin
		switch op[0] {
		case "rpc.pin":
			err = e.rpc.CallContext(ctx, "", "Cluster", "Pin", common.PinOf(op[1]), &out)
		case "rpc.unpin":
			err = e.rpc.CallContext(ctx, "", "Cluster", "Unpin", common.PinOf(op[1]), &out)
		case "rpc.pinpath":
			err = e.rpc.CallContext(ctx, "", "Cluster", "PinPath", &api.PinPath{PinOptions: common.OptsOf(op[2]), Path: pathStr(atoi(op[1]))}, &out)
		case "rpc.unpinpath":
			err = e.rpc.CallContext(ctx, "", "Cluster", "UnpinPath", &api.PinPath{PinOptions: common.OptsOf(op[2]), Path: pathStr(atoi(op[1]))}, &out)
		case "rpc.pinget":
			err = e.rpc.CallContext(ctx, "", "Cluster", "PinGet", common.CidN(atoi(op[1])), &out)
		}
		p = &out
	default:
		return "badop"
	}
	if err != nil {
		return "err"
	}
	return "ok:" + common.PinTok(p)
}

func logTok(l []string) string {
	if len(l) == 0 {
		return "-"
	}
	out := make([]string, len(l))
	for i, s := range l {
		if strings.HasPrefix(s, "pin ") {
			out[i] = "P" + s[4:]
		} else {
			out[i] = "U" + strings.TrimPrefix(s, "unpin ")
		}
	}
	return strings.Join(out, ";")
}

func (e *env) step(out *common.Out, op []string) {
	pre := common.PinsetTok(e.cons.Pins())
	e.cons.TakeLog()
	// a trailing "!k": the k-th consensus call of this API call fails
	call := op
	if n := len(op); n > 0 && strings.HasPrefix(op[n-1], "!") {
		k, _ := strconv.Atoi(op[n-1][1:])
		e.cons.Arm(k)
		call = op[:n-1]
	}
	res := e.exec(call)
	e.cons.Arm(-1)
	post := common.PinsetTok(e.cons.Pins())
	out.Line("C04 %s %s %s => %s %s %s", e.w.cfgTok(), pre, strings.Join(op, " "), res, post, logTok(e.cons.TakeLog()))
}

// ---------- generation ----------

var stateToks = []string{"v0", "v1", "v1", "v2", "v5", "v7", "e", "i", "n", "a"}

func genWorld(r *common.Rng) *world {
	w := &world{paths: map[int]int{}, blocks: map[int][]int{}, lost: map[int][]int{}}
	w.follower = r.Chance(1, 12)
	switch r.Intn(8) {
	case 5:
		w.defMin, w.defMax = 3, 3
	case 6:
		w.defMin, w.defMax = 2, 2 + r.Intn(4)
	case 7:
		w.defMin, w.defMax = 1, 1 + r.Intn(6) // max may exceed the number of peers
	case 0:
		w.defMin, w.defMax = -1, -1
	case 1:
		w.defMin, w.defMax = 1, 1
	case 2:
		w.defMin, w.defMax = 2, 3
	case 3:
		w.defMin, w.defMax = 1, 2
	default:
		w.defMin, w.defMax = 1, 3
	}
	w.desc = r.Bool()
	n := r.Range(2, 6)
	for i := 0; i < n; i++ {
		if r.Chance(7, 10) {
			w.peers = append(w.peers, stateToks[r.Intn(6)])
		} else {
			w.peers = append(w.peers, stateToks[r.Intn(len(stateToks))])
		}
	}
	for k := 0; k < 6; k++ {
		w.paths[k] = k
	}
	w.paths[6] = 8  // path to the meta pin
	w.paths[7] = 9  // … to its cluster-DAG pin
	w.paths[8] = 10 // … to a shard pin (path 9 does not resolve: Resolve error / timeout)
	// cluster-DAG block of cid 9 links the shards; sometimes absent (BlockGet fails)
	switch x := r.Intn(12); {
	case x < 6:
		w.blocks[9] = []int{10, 11}
	case x == 6:
		w.blocks[9] = []int{10, 11, 7} // lists a shard that is not in the pinset
	case x == 7:
		w.blocks[9] = []int{}
	case x < 10:
		// the block exists (the shards ARE the content of the meta pin) but the daemon cannot return it
		w.lost[9] = []int{10, 11}
	}
	return w
}

func randList(r *common.Rng, n, pct int) string {
	var l []int
	for i := 0; i < n; i++ {
		if r.Chance(pct, 100) {
			l = append(l, i)
		}
	}
	for i := len(l) - 1; i > 0; i-- {
		j := r.Intn(i + 1)
		l[i], l[j] = l[j], l[i]
	}
	return common.Ints(l)
}

func randMeta(r *common.Rng) string {
	if r.Chance(1, 2) {
		return "-"
	}
	var parts []string
	for k := 0; k < 4; k++ {
		if r.Chance(2, 5) {
			parts = append(parts, fmt.Sprintf("%d:%d", k, r.Intn(3)))
		}
	}
	if len(parts) == 0 {
		return "-"
	}
	return strings.Join(parts, ",")
}

func randFactors(r *common.Rng, npeers int) string {
	switch x := r.Intn(12); {
	case x < 4:
		return "0:0"
	case x == 4:
		return "-1:-1"
	case x == 5:
		return fmt.Sprintf("%d:%d", r.Range(-2, 4), r.Range(-2, 4))
	case x == 6:
		return fmt.Sprintf("0:%d", r.Range(1, 3))
	default:
		a := r.Range(1, 3)
		return fmt.Sprintf("%d:%d", a, a+r.Intn(3))
	}
}

func randExpire(r *common.Rng) string {
	switch x := r.Intn(10); {
	case x < 6:
		return "z"
	case x == 6:
		return "p"
	case x == 7:
		return "u"
	default:
		return fmt.Sprintf("f%d", r.Range(1, 3))
	}
}

func randOpts(r *common.Rng, w *world) []string {
	mode := "r"
	if r.Chance(1, 4) {
		mode = "d"
	}
	upd := "-"
	if r.Chance(1, 8) {
		upd = strconv.Itoa(r.Intn(6))
	}
	origins := "-"
	if r.Chance(1, 4) {
		origins = randList(r, 3, 50)
	}
	ua := "-"
	if r.Chance(1, 4) {
		ua = randList(r, len(w.peers)+1, 40)
	}
	return []string{randFactors(r, len(w.peers)), strconv.Itoa(r.Intn(3)), mode, strconv.Itoa(r.Intn(2) * 1000),
		randExpire(r), randMeta(r), upd, origins, ua}
}

// optsOfStored re-creates the request options from a stored pin token (identical re-pin).
func optsOfStored(tok string) []string {
	f := strings.Split(tok, "/")
	return []string{f[2], f[3], f[4], f[6], f[8], f[9], "-", f[11], "-"}
}

func mutateOpts(r *common.Rng, w *world, o []string) []string {
	o = append([]string{}, o...)
	switch r.Intn(9) {
	case 0:
		o[1] = strconv.Itoa(r.Intn(3))
	case 1:
		if o[2] == "r" {
			o[2] = "d"
		} else {
			o[2] = "r"
		}
	case 2:
		o[4] = randExpire(r)
	case 3: // add a metadata key
		kv := fmt.Sprintf("%d:%d", 4+r.Intn(2), r.Intn(2))
		if o[5] == "-" {
			o[5] = kv
		} else {
			o[5] += "," + kv
		}
	case 4: // remove a metadata key
		if o[5] != "-" {
			p := strings.Split(o[5], ",")
			k := r.Intn(len(p))
			p = append(p[:k], p[k+1:]...)
			if len(p) == 0 {
				o[5] = "-"
			} else {
				o[5] = strings.Join(p, ",")
			}
		}
	case 5: // change a metadata value
		if o[5] != "-" {
			p := strings.Split(o[5], ",")
			k := r.Intn(len(p))
			kv := strings.Split(p[k], ":")
			p[k] = kv[0] + ":" + strconv.Itoa(r.Intn(3))
			o[5] = strings.Join(p, ",")
		}
	case 6:
		o[7] = randList(r, 3, 50)
	case 7:
		o[0] = randFactors(r, len(w.peers))
	case 8:
		o[3] = strconv.Itoa(r.Intn(3) * 500)
	}
	o[5] = common.MetaCanon(o[5])
	return o
}

// withFault sometimes makes the k-th consensus call of the op fail.
func withFault(r *common.Rng, op []string) []string {
	if r.Chance(1, 4) {
		return append(op, "!"+strconv.Itoa(r.Intn(6)))
	}
	return op
}

func genOp(r *common.Rng, e *env) []string {
	op := genOp0(r, e)
	if (op[0] == "pin" || op[0] == "update" || op[0] == "pinpath") && r.Chance(1, 12) {
		op = append(op, "!0")
	}
	if r.Chance(3, 10) {
		op = viaRPC(r, e, op)
	}
	return op
}

// plainPin is the token of api.PinWithOpts(c, opts): what the REST API / proxy / ctl send to Cluster.Pin.
func plainPin(c string, opts string) string {
	o := strings.Split(opts, "/")
	depth := "-1"
	if o[2] == "d" {
		depth = "0"
	}
	return strings.Join([]string{c, "d", o[0], o[1], o[2], depth, o[3], "-", o[4], o[5], o[6], o[7], "-", o[8]}, "/")
}

// viaRPC sends the same request through the real ClusterRPCAPI entry point. The pin object that accompanies an
// Unpin and the options that accompany an UnpinPath are decorated at random (they must not matter). Faults at a
// later consensus call of a sharded unpin (K41's signature names the direct call) become a fault at the first.
func viaRPC(r *common.Rng, e *env, op []string) []string {
	fault := ""
	if n := len(op); strings.HasPrefix(op[n-1], "!") {
		fault, op = op[n-1], op[:n-1]
	}
	var out []string
	switch op[0] {
	case "pin":
		out = []string{"rpc.pin", plainPin(op[1], op[2])}
	case "rpcpin":
		out = []string{"rpc.pin", op[1]}
	case "pinpath":
		out = []string{"rpc.pinpath", op[1], op[2]}
	case "unpin":
		if r.Chance(1, 8) {
			return []string{"rpc.pinget", op[1]}
		}
		o := "0:0/0/r/0/z/-/-/-/-"
		if r.Chance(1, 2) {
			o = strings.Join(randOpts(r, e.w), "/")
		}
		pt := plainPin(op[1], o)
		if r.Chance(1, 3) { // a full pin object: type, allocations, reference
			f := strings.Split(pt, "/")
			f[1] = string("dmcs"[r.Intn(4)])
			f[7] = randList(r, len(e.w.peers), 40)
			if r.Bool() {
				f[12] = strconv.Itoa(r.Intn(12))
			}
			pt = strings.Join(f, "/")
		}
		out = []string{"rpc.unpin", pt}
		if fault != "" {
			fault = "!0"
		}
	case "unpinpath":
		o := "0:0/0/r/0/z/-/-/-/-"
		if r.Chance(1, 2) {
			o = strings.Join(randOpts(r, e.w), "/")
		}
		out = []string{"rpc.unpinpath", op[1], o}
		if fault != "" {
			fault = "!0"
		}
	default:
		out = op
	}
	if fault != "" {
		out = append(out, fault)
	}
	return out
}

func genOp0(r *common.Rng, e *env) []string {
	pins := e.cons.Pins()
	var dataToks []string
	for _, p := range pins {
		if p.Type == api.DataType {
			dataToks = append(dataToks, common.PinTok(p))
		}
	}
	// round 8c: a pin object WITHOUT a cid (cid.Undef, token "-"): plain (what a broken client sends) or typed with
	// preset allocations; pin()'s guard must refuse it and nothing may be stored under the undefined cid
	if r.Chance(1, 45) {
		if r.Bool() {
			return []string{"rpcpin", plainPin("-", strings.Join(randOpts(r, e.w), "/"))}
		}
		return []string{"rpcpin", fmt.Sprintf("-/%s/1:2/1/r/%s/500/%s/z/-/-/-/-/-", string("dsm"[r.Intn(3)]), []string{"-1", "1"}[r.Intn(2)], randList(r, len(e.w.peers), 40))}
	}
	x := r.Intn(100)
	switch {
	case x < 22: // fresh random pin
		return []string{"pin", strconv.Itoa(r.Intn(6)), strings.Join(randOpts(r, e.w), "/")}
	case x < 45: // re-pin of an existing data pin: identical or one field changed
		if len(dataToks) == 0 {
			return []string{"pin", strconv.Itoa(r.Intn(6)), strings.Join(randOpts(r, e.w), "/")}
		}
		t := dataToks[r.Intn(len(dataToks))]
		o := optsOfStored(t)
		if r.Chance(1, 3) { // leave factors to the defaults
			o[0] = "0:0"
		}
		if r.Chance(3, 5) {
			o = mutateOpts(r, e.w, o)
		}
		return []string{"pin", strings.Split(t, "/")[0], strings.Join(o, "/")}
	case x < 52:
		return []string{"pinpath", strconv.Itoa(r.Intn(10)), strings.Join(randOpts(r, e.w), "/")}
	case x < 62:
		o := randOpts(r, e.w)
		o[6] = "-"
		return []string{"update", strconv.Itoa(r.Intn(7)), strconv.Itoa(r.Intn(6)), strings.Join(o, "/")}
	case x < 76:
		c := r.Intn(12)
		if len(pins) > 0 && r.Chance(2, 3) {
			c = common.CidIndex(pins[r.Intn(len(pins))].Cid, common.PinUniverse)
		}
		return withFault(r, []string{"unpin", strconv.Itoa(c)})
	case x < 80:
		return withFault(r, []string{"unpinpath", strconv.Itoa(r.Intn(10))})
	case x < 88: // build (parts of) the sharded group 8 (meta) -> 9 (cluster DAG) -> 10, 11 (shards)
		switch r.Intn(4) {
		case 0:
			return []string{"rpcpin", fmt.Sprintf("10/s/1:2/1/r/1/500/%s/z/-/-/-/-/-", randList(r, len(e.w.peers), 40))}
		case 1:
			return []string{"rpcpin", fmt.Sprintf("11/s/1:2/1/r/1/500/%s/z/-/-/-/10/-", randList(r, len(e.w.peers), 40))}
		case 2:
			return []string{"rpcpin", "9/c/-1:-1/1/d/0/0/-/z/-/-/-/8/-"}
		default:
			return []string{"rpcpin", "8/m/0:0/1/r/-1/0/-/z/-/-/-/9/-"}
		}
	default: // arbitrary rpc pin: any type, depth, preset allocations, reference
		typ := string("ddddmcsb"[r.Intn(8)])
		ref := "-"
		if r.Chance(1, 2) {
			ref = strconv.Itoa(r.Intn(12))
		}
		depth := []string{"-1", "-1", "0", "1", "2"}[r.Intn(5)]
		o := randOpts(r, e.w)
		return []string{"rpcpin", strings.Join([]string{strconv.Itoa(r.Intn(12)), typ, o[0], o[1], o[2], depth, o[3],
			randList(r, len(e.w.peers), 30), o[4], o[5], o[6], o[7], ref, o[8]}, "/")}
	}
}

func parseWorld(f []string) (*world, bool) {
	// f[0]=cfg f[1]=peers f[2]=paths f[3]=blocks
	w := &world{paths: map[int]int{}, blocks: map[int][]int{}, lost: map[int][]int{}}
	c := strings.Split(f[0], "/")
	if len(c) != 3 {
		return nil, false
	}
	w.follower = c[0] == "f1"
	fmt.Sscanf(c[1], "dm%d:%d", &w.defMin, &w.defMax)
	w.desc = c[2] == "s1"
	if f[1] != "-" {
		for _, ps := range strings.Split(f[1], ",") {
			kv := strings.SplitN(ps, ":", 2)
			w.peers = append(w.peers, kv[1])
		}
	}
	if f[2] != "-" {
		for _, ps := range strings.Split(f[2], ",") {
			var a, b int
			fmt.Sscanf(ps, "%d:%d", &a, &b)
			w.paths[a] = b
		}
	}
	if f[3] != "-" {
		for _, bs := range strings.Split(f[3], ";") {
			tgt := w.blocks
			if strings.Contains(bs, "!") {
				tgt = w.lost
				bs = strings.Replace(bs, "!", ":", 1)
			}
			kv := strings.SplitN(bs, ":", 2)
			k, _ := strconv.Atoi(kv[0])
			var links []int
			if len(kv) > 1 && kv[1] != "" {
				for _, l := range strings.Split(kv[1], ".") {
					v, _ := strconv.Atoi(l)
					links = append(links, v)
				}
			}
			tgt[k] = links
		}
	}
	return w, true
}

func main() {
	a := common.ParseArgs()
	out := common.NewOut()
	defer out.Flush()
	if a.Extra["stdin"] != "" {
		sc := bufio.NewScanner(os.Stdin)
		sc.Buffer(make([]byte, 1<<20), 1<<24)
		for sc.Scan() {
			f := strings.Fields(sc.Text())
			if len(f) >= 8 && f[0] == "C04" && f[1] == "conc" {
				replayConc(out, f)
				continue
			}
			if len(f) < 7 || f[0] != "C04" {
				continue
			}
			w, ok := parseWorld(f[1:5])
			if !ok {
				continue
			}
			e := build(w, common.PinsetOf(f[5]))
			var op []string
			for _, t := range f[6:] {
				if t == "=>" {
					break
				}
				op = append(op, t)
			}
			e.step(out, op)
			e.cl.VerifCancel()
		}
		return
	}
	hist := a.N
	if hist < 0 {
		hist = 250
		if a.Tier == "thorough" {
			hist = 4000
		}
	}
	root := common.NewRng(common.Seed())
	if a.Extra["suite"] == "conc" {
		genConc(out, root, a)
		return
	}
	for k := 0; k < hist; k++ {
		if a.Only >= 0 && k != a.Only {
			continue
		}
		r := root.Fork(uint64(k))
		w := genWorld(r)
		var pre []*api.Pin
		if w.follower || r.Chance(1, 3) {
			// preloaded pinset (as if written by other peers): some data pins, sometimes a complete sharded group
			n := r.Range(1, 4)
			for i := 0; i < n; i++ {
				o := randOpts(r, w)
				o[0] = []string{"1:2", "2:3", "-1:-1", "1:1"}[r.Intn(4)]
				o[4] = []string{"z", "z", "f1", "f2"}[r.Intn(4)]
				depth := "-1"
				if o[2] == "d" {
					depth = "0"
				}
				al := randList(r, len(w.peers), 50)
				if o[0] == "-1:-1" {
					al = "-"
				}
				pre = append(pre, common.PinOf(strings.Join([]string{strconv.Itoa(r.Intn(6)), "d", o[0], o[1], o[2], depth, o[3],
					al, o[4], common.MetaCanon(o[5]), "-", o[7], "-", "-"}, "/")))
			}
			if r.Chance(2, 3) {
				pre = append(pre, common.PinOf("10/s/1:2/1/r/1/500/0/z/-/-/-/-/-"), common.PinOf("11/s/1:2/1/r/1/500/1/z/-/-/-/10/-"),
					common.PinOf("9/c/-1:-1/1/d/0/0/-/z/-/-/-/8/-"), common.PinOf("8/m/0:0/1/r/-1/0/-/z/-/-/-/9/-"))
			}
		}
		e := build(w, pre)
		steps := r.Range(4, 25)
		for s := 0; s < steps; s++ {
			e.step(out, genOp(r, e))
		}
		e.cl.VerifCancel()
	}
}
