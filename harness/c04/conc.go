// Suite "conc": two API calls on one peer, interleaved between their read of the pinset and their consensus call.
//
//	C04 conc <cfg> <peers> <paths> <blocks> <pre pinset> <opA...> || <opB...> @<ab|ba><s|f> => <res first> <res second> <post> <log>
//
// `ab`: A's consensus call is applied first; `s`: the second writer had read the pinset BEFORE the first wrote
// (stale), `f`: after (the two calls ran one after the other).
package main

import (
	"strconv"
	"strings"
	"time"

	"github.com/ipfs/ipfs-cluster/api"

	"verifharness/common"
)

func (e *env) runConc(x, y []string, stale bool) (string, string) {
	if !stale {
		return e.exec(x), e.exec(y)
	}
	type res struct{ s string }
	e.cons.Hold(true)
	start := func(id int, op []string) (chan string, bool) {
		done := make(chan string, 1)
		e.cons.SetCaller(id)
		go func() { done <- e.exec(op) }()
		select {
		case <-e.cons.Arrived:
			return done, true
		case r := <-done:
			done <- r
			return done, false
		case <-time.After(20 * time.Second):
			return done, false
		}
	}
	dx, _ := start(1, x)
	dy, _ := start(2, y)
	e.cons.Hold(false)
	wait := func(d chan string) string {
		select {
		case r := <-d:
			return r
		case <-time.After(20 * time.Second):
			return "timeout"
		}
	}
	e.cons.Release(1)
	rx := wait(dx)
	e.cons.Release(2)
	ry := wait(dy)
	return rx, ry
}

func concLine(out *common.Out, w *world, pre []*api.Pin, a, b []string, mode string) {
	e := build(w, pre)
	defer e.cl.VerifCancel()
	preTok := common.PinsetTok(e.cons.Pins())
	e.cons.TakeLog()
	x, y := a, b
	if strings.HasPrefix(mode, "ba") {
		x, y = b, a
	}
	rx, ry := e.runConc(x, y, strings.HasSuffix(mode, "s"))
	post := common.PinsetTok(e.cons.Pins())
	out.Line("C04 conc %s %s %s || %s @%s => %s %s %s %s", w.cfgTok(), preTok, strings.Join(a, " "), strings.Join(b, " "), mode,
		rx, ry, post, logTok(e.cons.TakeLog()))
}

func replayConc(out *common.Out, f []string) {
	// f = C04 conc cfg peers paths blocks pre opA... || opB... @mode [=> ...]
	w, ok := parseWorld(f[2:6])
	if !ok {
		return
	}
	var a, b []string
	mode := ""
	cur := &a
	for _, t := range f[7:] {
		if t == "=>" {
			break
		}
		switch {
		case t == "||":
			cur = &b
		case strings.HasPrefix(t, "@"):
			mode = t[1:]
		default:
			*cur = append(*cur, t)
		}
	}
	if mode == "" || len(a) == 0 || len(b) == 0 {
		return
	}
	concLine(out, w, common.PinsetOf(f[6]), a, b, mode)
}

func genConc(out *common.Out, root *common.Rng, a common.Args) {
	n := a.N
	if n < 0 {
		n = 400
	}
	for k := 0; k < n; k++ {
		if a.Only >= 0 && k != a.Only {
			continue
		}
		r := root.Fork(uint64(k) + 500009)
		w := genWorld(r)
		w.follower = r.Chance(1, 30)
		// a pre-state: sometimes empty, sometimes cid c pinned (and another cid)
		c := r.Intn(3)
		var pre []*api.Pin
		mk := func(ci int) *api.Pin {
			o := randOpts(r, w)
			o[0] = []string{"1:2", "2:3", "1:1"}[r.Intn(3)]
			o[4] = "z"
			depth := "-1"
			if o[2] == "d" {
				depth = "0"
			}
			return common.PinOf(strings.Join([]string{strconv.Itoa(ci), "d", o[0], o[1], o[2], depth, o[3],
				randList(r, len(w.peers), 50), o[4], common.MetaCanon(o[5]), "-", o[7], "-", "-"}, "/"))
		}
		if r.Chance(1, 2) {
			pre = append(pre, mk(c))
		}
		if r.Chance(1, 3) {
			pre = append(pre, mk(5))
		}
		if r.Chance(1, 4) {
			pre = append(pre, common.PinOf("10/s/1:2/1/r/1/500/0/z/-/-/-/-/-"), common.PinOf("11/s/1:2/1/r/1/500/1/z/-/-/-/10/-"),
				common.PinOf("9/c/-1:-1/1/d/0/0/-/z/-/-/-/8/-"), common.PinOf("8/m/0:0/1/r/-1/0/-/z/-/-/-/9/-"))
		}
		op := func() []string {
			switch x := r.Intn(10); {
			case x < 6:
				o := randOpts(r, w)
				if r.Chance(3, 4) {
					o[6] = "-"
				}
				return []string{"pin", strconv.Itoa(c), strings.Join(o, "/")}
			case x < 9:
				return []string{"unpin", strconv.Itoa(c)}
			default:
				return []string{"unpin", "8"}
			}
		}
		mode := []string{"abs", "bas", "abf", "baf"}[r.Intn(4)]
		if r.Chance(1, 2) {
			mode = []string{"abs", "bas"}[r.Intn(2)]
		}
		concLine(out, w, pre, op(), op(), mode)
	}
}
