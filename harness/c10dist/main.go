// C10 harness, suite `dist`: the real distanceChecker of util.go (isClosest, convertPeerID and its per-checker cache, xor,
// bytes.Compare on the 32-byte distances) on ADVERSARIAL hash relations that real blake2b values of a handful of peer ids never
// show: hashes sharing a 1..31 byte prefix, differing in the last bit only, sign-boundary bytes (0x7f/0x80), a peer whose hash is
// the cid's hash (distance 0), colliding hashes, the excluded (failed) peer being the closest one.
//
//   C10 dist <exclude|-> <members id:<i|r>:<hex32>,..> <cids idx:<hex32>,..> => <id=bits|id=bits..> <c0|c1>
//
// Every member other than <exclude> builds a checker (hook VerifDistanceChecker, /repo/verif_export_c10.go) with local = itself,
// otherPeers = the members other than itself and <exclude> in the listed order (what getTrustedPeers returns), and asks isClosest
// for every cid in order ON THE SAME checker. Members flagged `i` have their hash INJECTED: the checker's cache holds it already (the
// real convertPeerID returns what the cache holds), so the real comparison code runs on chosen hashes. Members flagged `r` are not in
// the cache: the real convertPeerID / convertKey hashes them, and the hash on the case line is computed by the harness with an
// independent blake2b-256 (go-multihash / blake2b-simd), as are the cid hashes. bits = the answers per cid. c1 = the cache afterwards
// maps only peers of the checker (the local one among them), each to its hash on the case line, and still holds what was injected.
//
//   C10 xor <hex32> <hex32> => <hex32>       the real xor()
package main

import (
	"bufio"
	"encoding/hex"
	"fmt"
	"os"
	"strconv"
	"strings"

	ipfscluster "github.com/ipfs/ipfs-cluster"

	cid "github.com/ipfs/go-cid"
	peer "github.com/libp2p/go-libp2p-core/peer"
	mh "github.com/multiformats/go-multihash"

	"verifharness/common"
)

type member struct {
	id   int
	inj  bool
	hash [32]byte
}

type dcase struct {
	exclude int // -1 none
	members []member
	cids    []int
	cidHash [][32]byte
}

// blake is blake2b-256 computed without the code under test.
func blake(s string) [32]byte {
	h, err := mh.Sum([]byte(s), mh.BLAKE2B_MIN+31, -1)
	if err != nil {
		panic(err)
	}
	d, err := mh.Decode(h)
	if err != nil {
		panic(err)
	}
	var out [32]byte
	copy(out[:], d.Digest)
	return out
}

func hx(b [32]byte) string { return hex.EncodeToString(b[:]) }

func unhx(s string) ([32]byte, bool) {
	var out [32]byte
	b, err := hex.DecodeString(s)
	if err != nil || len(b) != 32 {
		return out, false
	}
	copy(out[:], b)
	return out, true
}

func (d *dcase) input() string {
	ms := make([]string, len(d.members))
	for i, m := range d.members {
		f := "r"
		if m.inj {
			f = "i"
		}
		ms[i] = fmt.Sprintf("%d:%s:%s", m.id, f, hx(m.hash))
	}
	cs := make([]string, len(d.cids))
	for i, c := range d.cids {
		cs[i] = fmt.Sprintf("%d:%s", c, hx(d.cidHash[i]))
	}
	ex := "-"
	if d.exclude >= 0 {
		ex = strconv.Itoa(d.exclude)
	}
	return fmt.Sprintf("C10 dist %s %s %s", ex, strings.Join(ms, ","), strings.Join(cs, ","))
}

func (d *dcase) run() string {
	var cids []cid.Cid
	for _, c := range d.cids {
		cids = append(cids, common.CidN(c))
	}
	var parts []string
	cacheOK := true
	for _, m := range d.members {
		if m.id == d.exclude {
			continue
		}
		var others []peer.ID
		seed := map[peer.ID][32]byte{}
		want := map[peer.ID][32]byte{}
		for _, o := range d.members {
			if o.id == d.exclude {
				continue
			}
			if o.id != m.id {
				others = append(others, common.PeerN(o.id))
			}
			// several members may carry the same id only in hand-written cases; the first one wins
			if _, dup := want[common.PeerN(o.id)]; dup {
				continue
			}
			want[common.PeerN(o.id)] = o.hash
			if o.inj {
				seed[common.PeerN(o.id)] = o.hash
			}
		}
		tok := func() (tok string) {
			defer func() {
				if r := recover(); r != nil {
					tok = "panic"
				}
			}()
			res, after := ipfscluster.VerifDistanceChecker(common.PeerN(m.id), others, seed, cids)
			bits := make([]byte, len(res))
			for i, b := range res {
				bits[i] = '0'
				if b {
					bits[i] = '1'
				}
			}
			if len(cids) > 0 {
				// the local peer is always hashed; peers after the first closer one need not be
				if _, ok := after[common.PeerN(m.id)]; !ok {
					cacheOK = false
				}
				for p, h := range seed {
					if after[p] != h {
						cacheOK = false
					}
				}
				for p, h := range after {
					if w, ok := want[p]; !ok || w != h {
						cacheOK = false
					}
				}
			}
			if len(bits) == 0 {
				return "-"
			}
			return string(bits)
		}()
		parts = append(parts, fmt.Sprintf("%d=%s", m.id, tok))
	}
	out := "-"
	if len(parts) > 0 {
		out = strings.Join(parts, "|")
	}
	c := "c0"
	if cacheOK {
		c = "c1"
	}
	return out + " " + c
}

func parse(line string) (*dcase, bool) {
	f := strings.Fields(line)
	if len(f) < 5 || f[0] != "C10" || f[1] != "dist" {
		return nil, false
	}
	d := &dcase{exclude: -1}
	if f[2] != "-" {
		d.exclude, _ = strconv.Atoi(f[2])
	}
	for _, ms := range strings.Split(f[3], ",") {
		p := strings.Split(ms, ":")
		if len(p) != 3 {
			return nil, false
		}
		id, err := strconv.Atoi(p[0])
		h, ok := unhx(p[2])
		if err != nil || !ok {
			return nil, false
		}
		m := member{id: id, inj: p[1] == "i", hash: h}
		if !m.inj {
			m.hash = blake(string(common.PeerN(id))) // never trust a stale line
		}
		d.members = append(d.members, m)
	}
	for _, cs := range strings.Split(f[4], ",") {
		p := strings.Split(cs, ":")
		c, err := strconv.Atoi(p[0])
		if err != nil {
			return nil, false
		}
		d.cids = append(d.cids, c)
		d.cidHash = append(d.cidHash, blake(common.CidN(c).KeyString()))
	}
	return d, true
}

var edge = []byte{0x00, 0x01, 0x7f, 0x80, 0x81, 0xfe, 0xff}

func randHash(g *common.Rng) [32]byte {
	var h [32]byte
	for i := range h {
		h[i] = byte(g.Intn(256))
	}
	return h
}

func gen(g *common.Rng) *dcase {
	d := &dcase{exclude: -1}
	n := g.Range(1, 8)
	ids := []int{0, 1, 2, 3, 4, 5, 6, 7}
	for i := len(ids) - 1; i > 0; i-- {
		j := g.Intn(i + 1)
		ids[i], ids[j] = ids[j], ids[i]
	}
	ids = ids[:n]
	nc := g.Range(1, 4)
	seen := map[int]bool{}
	for len(d.cids) < nc {
		c := g.Intn(24)
		if seen[c] {
			continue
		}
		seen[c] = true
		d.cids = append(d.cids, c)
		d.cidHash = append(d.cidHash, blake(common.CidN(c).KeyString()))
	}
	mode := g.Intn(8)
	base := randHash(g)
	if g.Chance(1, 3) {
		base = d.cidHash[g.Intn(nc)] // around a cid's own hash: tiny distances
	}
	// first position at which the injected hashes may differ
	k := []int{0, 1, 3, 4, 7, 8, 15, 16, 23, 24, 30, 31}[g.Intn(12)]
	for j, id := range ids {
		m := member{id: id, inj: true}
		switch mode {
		case 0: // real hashes only
			m.inj = false
		case 1, 2: // common prefix of k bytes, the rest random / edge bytes
			m.hash = base
			for i := k; i < 32; i++ {
				if mode == 1 {
					m.hash[i] = byte(g.Intn(256))
				} else {
					m.hash[i] = edge[g.Intn(len(edge))]
				}
			}
		case 3: // differ in byte k only (all other bytes shared), neighbouring or edge values
			m.hash = base
			if g.Bool() {
				m.hash[k] = base[k] ^ byte(j)
			} else {
				m.hash[k] = edge[(j+g.Intn(2))%len(edge)]
			}
		case 4: // differ in the last bits only
			m.hash = base
			m.hash[31] = base[31] ^ byte(j)
		case 5: // one member sits on the cid (distance 0), the others one bit away at position k
			m.hash = d.cidHash[0]
			if j > 0 {
				m.hash[k] ^= 1 << uint(g.Intn(8))
				m.hash[31] ^= byte(j)
			}
		case 6: // mixed: some real, some injected next to a real one
			if g.Bool() {
				m.inj = false
			} else {
				m.hash = blake(string(common.PeerN(ids[g.Intn(n)])))
				m.hash[k] ^= byte(1 + g.Intn(255))
			}
		default: // collisions allowed: few distinct values
			m.hash = base
			m.hash[k] = edge[g.Intn(3)]
		}
		if !m.inj {
			m.hash = blake(string(common.PeerN(id)))
		}
		d.members = append(d.members, m)
	}
	if g.Chance(1, 2) {
		d.exclude = ids[g.Intn(n)]
		if g.Chance(1, 3) && n > 1 {
			// the excluded peer is the closest one to the first cid
			for i := range d.members {
				if d.members[i].id == d.exclude && d.members[i].inj {
					d.members[i].hash = d.cidHash[0]
				}
			}
		}
	} else if g.Chance(1, 10) {
		d.exclude = 9 // not a member
	}
	return d
}

func xorLine(a, b [32]byte) string {
	return fmt.Sprintf("C10 xor %s %s => %s", hx(a), hx(b), hx(ipfscluster.VerifXor(a, b)))
}

func main() {
	a := common.ParseArgs()
	out := common.NewOut()
	defer out.Flush()
	if a.Extra["stdin"] != "" {
		sc := bufio.NewScanner(os.Stdin)
		sc.Buffer(make([]byte, 1<<20), 1<<24)
		for sc.Scan() {
			ff := strings.Fields(sc.Text())
			if len(ff) >= 4 && ff[0] == "C10" && ff[1] == "xor" {
				x, ok1 := unhx(ff[2])
				y, ok2 := unhx(ff[3])
				if ok1 && ok2 {
					out.Line("%s", xorLine(x, y))
				}
				continue
			}
			if d, ok := parse(sc.Text()); ok {
				out.Line("%s => %s", d.input(), d.run())
			}
		}
		return
	}
	total := a.N
	if total < 0 {
		total = 1500
	}
	root := common.NewRng(common.Seed())
	for k := 0; k < total; k++ {
		if a.Only >= 0 && k != a.Only {
			continue
		}
		g := root.Fork(uint64(k))
		if k%10 == 9 {
			x, y := randHash(g), randHash(g)
			switch g.Intn(4) {
			case 0:
				y = x
				y[31] ^= 1
			case 1:
				for i := range x {
					x[i] = edge[g.Intn(len(edge))]
					y[i] = edge[g.Intn(len(edge))]
				}
			case 2:
				y = [32]byte{}
				y[g.Intn(32)] = 0xff
			}
			out.Line("%s", xorLine(x, y))
			continue
		}
		d := gen(g)
		out.Line("%s => %s", d.input(), d.run())
	}
}
