package main

import (
	"bytes"
	"context"
	"encoding/json"
	"fmt"
	"net/url"
	"os"
	"reflect"
	"sort"

	ds "github.com/ipfs/go-datastore"
	dssync "github.com/ipfs/go-datastore/sync"
	"github.com/ipfs/ipfs-cluster/state/dsstate"

	"github.com/ipfs/ipfs-cluster/api"
	codec "github.com/ugorji/go/codec"

	"verifharness/c08/wire"
)

// encode runs the real encoder of a format on *T (v must be addressable).
func encode(rec *wire.Record, format string, v reflect.Value) (bs []byte, err error) {
	ptr := v.Addr().Interface()
	switch format {
	case wire.FProto:
		return ptr.(*api.Pin).ProtoMarshal()
	case wire.FMsgpack, wire.FMsgpackRaft:
		// go-libp2p-gorpc stream_wrap.go, go-libp2p-raft codec.go, dsstate.DefaultHandle: a zero MsgpackHandle
		var buf bytes.Buffer
		err = codec.NewEncoder(&buf, &codec.MsgpackHandle{}).Encode(ptr)
		return buf.Bytes(), err
	case wire.FJSON:
		return json.Marshal(ptr)
	case wire.FSnapshot:
		st, err := dsstate.New(dssync.MutexWrap(ds.NewMapDatastore()), "", dsstate.DefaultHandle())
		if err != nil {
			return nil, err
		}
		snap := ptr.(*wire.Snapshot)
		for i := range snap.Pins {
			if err := st.Add(context.Background(), &snap.Pins[i]); err != nil {
				return nil, err
			}
		}
		var buf bytes.Buffer
		err = st.Marshal(&buf)
		return buf.Bytes(), err
	case wire.FQuery:
		switch p := ptr.(type) {
		case *api.PinOptions:
			s, err := p.ToQuery()
			return []byte(s), err
		case *api.AddParams:
			s, err := p.ToQueryString()
			return []byte(s), err
		}
	}
	return nil, fmt.Errorf("no encoder for %s/%s", rec.Name, format)
}

// decode runs the real decoder of a format into a fresh value.
func decode(rec *wire.Record, format string, bs []byte) (out reflect.Value, err error) {
	nv := reflect.New(rec.Type)
	ptr := nv.Interface()
	switch format {
	case wire.FProto:
		err = ptr.(*api.Pin).ProtoUnmarshal(bs)
	case wire.FMsgpack:
		err = codec.NewDecoder(bytes.NewReader(bs), &codec.MsgpackHandle{}).Decode(ptr)
	case wire.FMsgpackRaft:
		h := &codec.MsgpackHandle{}
		h.ErrorIfNoField = true
		err = codec.NewDecoder(bytes.NewReader(bs), h).Decode(ptr)
	case wire.FJSON:
		err = json.Unmarshal(bs, ptr)
	case wire.FSnapshot:
		var st *dsstate.State
		st, err = dsstate.New(dssync.MutexWrap(ds.NewMapDatastore()), "", dsstate.DefaultHandle())
		if err != nil {
			break
		}
		if err = st.Unmarshal(bytes.NewReader(bs)); err != nil {
			break
		}
		var pins []*api.Pin
		pins, err = st.List(context.Background())
		if err != nil {
			break
		}
		snap := ptr.(*wire.Snapshot)
		for _, p := range pins {
			snap.Pins = append(snap.Pins, *p)
		}
		sort.Slice(snap.Pins, func(i, j int) bool { return wire.CidTok(snap.Pins[i].Cid) < wire.CidTok(snap.Pins[j].Cid) })
	case wire.FQuery:
		var q url.Values
		q, err = url.ParseQuery(string(bs))
		if err != nil {
			break
		}
		switch p := ptr.(type) {
		case *api.PinOptions:
			err = p.FromQuery(q)
		case *api.AddParams:
			var ap *api.AddParams
			ap, err = api.AddParamsFromQuery(q)
			if err == nil {
				*p = *ap
			}
		default:
			err = fmt.Errorf("no query decoder for %s", rec.Name)
		}
	default:
		err = fmt.Errorf("no decoder for %s/%s", rec.Name, format)
	}
	return nv.Elem(), err
}

// lastPanic is the message of the last recovered panic (single-threaded harness).
var lastPanic string

// guarded calls f under recover; a panic is reported, never propagated.
func guarded(what string, f func() error) (err error, panicked bool) {
	defer func() {
		if r := recover(); r != nil {
			lastPanic = fmt.Sprint(r)
			if len(lastPanic) > 90 {
				lastPanic = lastPanic[:90]
			}
			fmt.Fprintf(os.Stderr, "PANIC in %s: %v\n", what, r)
			panicked = true
		}
	}()
	return f(), false
}

// panicTok is the output token of a panic: its (deterministic) message, escaped.
func panicTok(prefix string) string { return prefix + ":" + wire.Pct(lastPanic) }

// roundtrip = real encode, real decode into a fresh value, own dump of the result.
func roundtrip(rec *wire.Record, format string, v reflect.Value) string {
	var bs []byte
	err, pan := guarded("encode "+rec.Name+"/"+format, func() (e error) { bs, e = encode(rec, format, v); return })
	if pan {
		return "encpanic"
	}
	if err != nil {
		fmt.Fprintf(os.Stderr, "encerr %s/%s: %v\n", rec.Name, format, err)
		return "encerr"
	}
	var out reflect.Value
	err, pan = guarded("decode "+rec.Name+"/"+format, func() (e error) { out, e = decode(rec, format, bs); return })
	if pan {
		return "decpanic"
	}
	if err != nil {
		fmt.Fprintf(os.Stderr, "decerr %s/%s: %v\n", rec.Name, format, err)
		return "decerr"
	}
	var dump []wire.KV
	_, pan = guarded("dump", func() error { dump = wire.Flatten(out); return nil })
	if pan {
		return "dumppanic"
	}
	return "ok " + wire.FormatKVs(dump)
}

func reflectZero(rec *wire.Record) reflect.Value { return reflect.New(rec.Type).Elem() }
