package main

import (
	"strconv"
	"strings"

	"github.com/ipfs/ipfs-cluster/api"
	peer "github.com/libp2p/go-libp2p-core/peer"

	"verifharness/c08/wire"
	"verifharness/common"
)

// Cases str p2s / s2p: the peer-ID string helpers of api/util.go.
//
//   C08 str p2s <pN|p-,...|->  => <items of PeersToStrings(ps)> <peers of StringsToPeers(PeersToStrings(ps))>
//   C08 str s2p <item,...|->   => <peers of StringsToPeers(strs)> <items of PeersToStrings(those peers)>
//
// item: bN = peer.Encode(peer N) (base58), cN = the CIDv1 text of peer N, e = "", j = "notapeer", k = "1111"
// (base58 but no multihash), sN = " "+base58 (leading space), ? = anything else (output only).

func itemOf(s string) string {
	if s == "" {
		return "e"
	}
	for i := 0; i < wire.NPeers; i++ {
		if s == peer.Encode(common.PeerN(i)) {
			return "b" + strconv.Itoa(i)
		}
	}
	return "?"
}

func itemString(it string) string {
	n, _ := strconv.Atoi(it[1:])
	switch it[0] {
	case 'b':
		return peer.Encode(common.PeerN(n))
	case 'c':
		return peer.ToCid(common.PeerN(n)).String()
	case 's':
		return " " + peer.Encode(common.PeerN(n))
	case 'j':
		return "notapeer"
	case 'k':
		return "1111"
	}
	return ""
}

func joinOr(l []string) string {
	if len(l) == 0 {
		return "-"
	}
	return strings.Join(l, ",")
}

func peerToks(ps []peer.ID) string {
	l := []string{}
	for _, p := range ps {
		l = append(l, wire.PeerTok(p))
	}
	return joinOr(l)
}

func items(strs []string) string {
	l := []string{}
	for _, s := range strs {
		l = append(l, itemOf(s))
	}
	return joinOr(l)
}

func runP2S(arg string) string {
	var ps []peer.ID
	if arg != "-" {
		for _, t := range strings.Split(arg, ",") {
			p, _ := wire.ParsePeerTok(t)
			ps = append(ps, p)
		}
	}
	strs := api.PeersToStrings(ps)
	return items(strs) + " " + peerToks(api.StringsToPeers(strs))
}

func runS2P(arg string) string {
	var strs []string
	if arg != "-" {
		for _, t := range strings.Split(arg, ",") {
			strs = append(strs, itemString(t))
		}
	}
	ps := api.StringsToPeers(strs)
	return peerToks(ps) + " " + items(api.PeersToStrings(ps))
}

func genPeersCase(out *common.Out, r *common.Rng) {
	n := r.Intn(6)
	l := []string{}
	if r.Chance(1, 2) {
		for i := 0; i < n; i++ {
			if r.Chance(1, 5) {
				l = append(l, "p-")
			} else {
				l = append(l, "p"+strconv.Itoa(r.Intn(wire.NPeers)))
			}
		}
		runStr(out, "p2s", joinOr(l))
		return
	}
	for i := 0; i < n; i++ {
		k := strconv.Itoa(r.Intn(wire.NPeers))
		l = append(l, []string{"b" + k, "b" + k, "b" + k, "c" + k, "e", "j", "k", "s" + k}[r.Intn(8)])
	}
	runStr(out, "s2p", joinOr(l))
}
