package main

import (
	"net/url"
	"reflect"
	"strconv"
	"strings"

	"github.com/ipfs/ipfs-cluster/api"
	peer "github.com/libp2p/go-libp2p-core/peer"

	"verifharness/c08/wire"
	"verifharness/common"
)

// Cases q (part of suite rt): PinOptions.FromQuery on a typed parameter set, including values that do not
// parse — the decoder side of the query model on its own (no property clause besides no_crash).
//
//   C08 q name=<str> mode=<str>|- repl=<int>|bad|- rmin=.. rmax=.. shard=<int>|bad|- ua=<p..,p-,p!>|- expat=<time>|-
//         expin=ok|bad|- meta=<k:v,..>|- upd=<cid>|c- orig=<addr,..>|-  => err | ok <dump of the PinOptions>

type qCase struct{ kv map[string]string }

var qKeys = []string{"name", "mode", "repl", "rmin", "rmax", "shard", "ua", "expat", "expin", "meta", "upd", "orig"}

func (c qCase) String() string {
	parts := make([]string, len(qKeys))
	for i, k := range qKeys {
		parts[i] = k + "=" + c.kv[k]
	}
	return strings.Join(parts, " ")
}

func intParam(q url.Values, key, tok string) {
	switch tok {
	case "-":
	case "bad":
		q.Set(key, "12x")
	default:
		q.Set(key, tok)
	}
}

// buildQuery: the url.Values a typed parameter set stands for.
func buildQuery(c qCase) url.Values {
	q := url.Values{}
	{
		name, _ := wire.ParseStrTok(c.kv["name"])
		q.Set("name", name)
		if m := c.kv["mode"]; m != "-" {
			s, _ := wire.ParseStrTok(m)
			q.Set("mode", s)
		}
		intParam(q, "replication", c.kv["repl"])
		intParam(q, "replication-min", c.kv["rmin"])
		intParam(q, "replication-max", c.kv["rmax"])
		intParam(q, "shard-size", c.kv["shard"])
		if ua := c.kv["ua"]; ua != "-" {
			var strs []string
			for _, t := range strings.Split(ua, ",") {
				switch t {
				case "p-":
					strs = append(strs, "")
				case "p!":
					strs = append(strs, "notapeer")
				default:
					p, _ := wire.ParsePeerTok(t)
					strs = append(strs, peer.Encode(p))
				}
			}
			q.Set("user-allocations", strings.Join(strs, ","))
		}
		if t := c.kv["expat"]; t != "-" {
			tm, _ := wire.ParseTimeTok(t)
			v, _ := tm.MarshalText()
			q.Set("expire-at", string(v))
		}
		switch c.kv["expin"] {
		case "ok":
			q.Set("expire-in", "2h")
		case "bad":
			q.Set("expire-in", "500ms")
		}
		if m := c.kv["meta"]; m != "-" {
			for _, e := range strings.Split(m, ",") {
				kv := strings.SplitN(e, ":", 2)
				k, _ := wire.ParseStrTok(kv[0])
				v, _ := wire.ParseStrTok(kv[1])
				q.Set("meta-"+k, v)
			}
		}
		if u := c.kv["upd"]; u != "c-" {
			ci, _ := wire.ParseCidTok(u)
			q.Set("pin-update", ci.String())
		}
		if o := c.kv["orig"]; o != "-" {
			var strs []string
			for _, t := range strings.Split(o, ",") {
				m, _ := wire.ParseAddrTok(t)
				strs = append(strs, m.String())
			}
			q.Set("origins", strings.Join(strs, ","))
		}
	}
	return q
}

func runQ(out *common.Out, c qCase) {
	res := "panic"
	guarded("q FromQuery", func() error {
		q := buildQuery(c)
		po := &api.PinOptions{}
		if err := po.FromQuery(q); err != nil {
			res = "err"
			return nil
		}
		res = "ok " + wire.FormatKVs(wire.Flatten(reflect.ValueOf(po).Elem()))
		return nil
	})
	out.Line("C08 q %s => %s", c, res)
}

func genQ(r *common.Rng) qCase {
	rec := wire.RecordByName("PinOptions")
	wire.Clean = true
	v := wire.Gen(r, rec)
	wire.Clean = false
	kvs := wire.Flatten(v)
	get := func(k string) string {
		for _, kv := range kvs {
			if kv.K == k {
				return kv.V
			}
		}
		return "-"
	}
	c := qCase{kv: map[string]string{}}
	c.kv["name"] = get("Name")
	c.kv["mode"] = []string{"~recursive", "~direct", "~recursive", "~direct", "~recursive", "~direct", "~", "-", "-", "~Direct", "~x", "~indirect"}[r.Intn(12)]
	ip := func(val string) string {
		switch r.Intn(14) {
		case 0:
			return "-"
		case 1:
			return "bad"
		default:
			return val
		}
	}
	c.kv["rmin"] = ip(get("ReplicationFactorMin"))
	c.kv["rmax"] = ip(get("ReplicationFactorMax"))
	c.kv["repl"] = []string{"-", "-", "-", "-", "-", "-", "-", "bad", "3", "-1", "0", "2"}[r.Intn(12)]
	c.kv["shard"] = []string{"-", "-", "0", "1", "104857600", "0", "1", "5", "9223372036854775807", "bad", "-5"}[r.Intn(11)]
	ua := get("UserAllocations")
	switch r.Intn(16) {
	case 0:
		ua = "p-"
	case 1:
		ua = "p1,p-"
	case 2:
		ua = "p!,p2"
	case 3:
		ua = "p-,p-"
	}
	c.kv["ua"] = ua
	c.kv["expat"] = "-"
	if t := get("ExpireAt"); t != "t-62135596800.0" && r.Chance(2, 3) {
		c.kv["expat"] = t
	}
	c.kv["expin"] = "-"
	switch r.Intn(10) {
	case 0:
		c.kv["expin"] = "bad"
	case 1:
		if c.kv["expat"] != "-" { // an acceptable expire-in without expire-at depends on the clock
			c.kv["expin"] = "ok"
		}
	}
	c.kv["meta"] = get("Metadata")
	c.kv["upd"] = get("PinUpdate")
	c.kv["orig"] = get("Origins")
	return c
}

func parseQ(ws []string) (qCase, bool) {
	c := qCase{kv: map[string]string{}}
	for _, w := range ws {
		i := strings.IndexByte(w, '=')
		if i < 0 {
			return c, false
		}
		c.kv[w[:i]] = w[i+1:]
	}
	for _, k := range qKeys {
		if _, ok := c.kv[k]; !ok {
			return c, false
		}
	}
	if _, err := strconv.Atoi("0"); err != nil {
		return c, false
	}
	return c, true
}
