package main

// Suite wire: byte-level ties of the hand-written wire forms.
//
//   C08 pbenc <pin field=token>... dict=<tok>:<hex>,... => x<hex of Pin.ProtoMarshal> | encerr | encpanic
//   C08 pbdec x<hex> => err | ok <raw pb.Pin dump> | <ok <pin field=token>...|decerr|decpanic>
//   C08 qesc x<hex s> => x<hex url.QueryEscape(s)> <x<hex url.QueryUnescape(s)>|err>
//   C08 qparse x<hex text> => err | ok <x<key>=x<value>>...        (url.ParseQuery, keys sorted, values in order)
//
// pbdec inputs are real ProtoMarshal bytes whose fields were permuted, duplicated, interleaved with unknown
// fields of every wire type (groups included), given the wrong wire type, or damaged in the ways the wire
// format allows (truncated varints, lengths past the end, huge lengths, overlong varints, stray end-groups,
// reserved wire types, field number 0, invalid UTF-8 in string fields), plus random bytes.

import (
	"encoding/hex"
	"fmt"
	"net/url"
	"reflect"
	"sort"
	"strconv"
	"strings"

	cid "github.com/ipfs/go-cid"
	"github.com/ipfs/ipfs-cluster/api"
	"github.com/ipfs/ipfs-cluster/api/pb"
	peer "github.com/libp2p/go-libp2p-core/peer"
	multiaddr "github.com/multiformats/go-multiaddr"
	"google.golang.org/protobuf/encoding/protowire"
	"google.golang.org/protobuf/proto"

	"verifharness/c08/wire"
	"verifharness/common"
)

func hx(b []byte) string { return "x" + hex.EncodeToString(b) }

// invalid UTF-8 and other byte strings for string-typed protobuf fields
var badStrings = []string{"\xff", "a\xffb", "\xc3(", "\xed\xa0\x80", "\xf0\x9f\x98", "\xc0\x80", "ok-é", "\xf4\x90\x80\x80", "plain"}

// dictOf lists the byte forms of every CID, peer and multiaddress of a pin.
func dictOf(p *api.Pin) string {
	var out []string
	seen := map[string]bool{}
	add := func(tok string, b []byte) {
		if !seen[tok] {
			seen[tok] = true
			out = append(out, tok+":"+hex.EncodeToString(b))
		}
	}
	addCid := func(c cid.Cid) {
		if c.Defined() {
			add(wire.CidTok(c), c.Bytes())
		}
	}
	addCid(p.Cid)
	addCid(p.PinUpdate)
	if p.Reference != nil {
		addCid(*p.Reference)
	}
	for _, a := range p.Allocations {
		add(wire.PeerTok(a), []byte(a))
	}
	for _, o := range p.Origins {
		if o != nil {
			add(wire.AddrTok(o), o.Bytes())
		}
	}
	if len(out) == 0 {
		return "dict=-"
	}
	return "dict=" + strings.Join(out, ",")
}

func genWirePin(r *common.Rng) *api.Pin {
	v := wire.Gen(r, wire.RecordByName("Pin"))
	p := v.Addr().Interface().(*api.Pin)
	if r.Chance(1, 8) {
		p.Name = badStrings[r.Intn(len(badStrings))]
	}
	if r.Chance(1, 10) {
		if p.Metadata == nil {
			p.Metadata = map[string]string{}
		}
		if r.Bool() {
			p.Metadata[badStrings[r.Intn(len(badStrings))]] = "v"
		} else {
			p.Metadata["k"] = badStrings[r.Intn(len(badStrings))]
		}
	}
	if r.Chance(1, 25) && len(p.Origins) > 0 { // a nil element: ProtoMarshal calls a method on the nil interface
		p.Origins[r.Intn(len(p.Origins))] = nil
	}
	return p
}

func runPbEnc(out *common.Out, p *api.Pin) {
	in := wire.FormatKVs(wire.Flatten(reflect.ValueOf(p).Elem()))
	var bs []byte
	err, pan := guarded("ProtoMarshal", func() (e error) { bs, e = p.ProtoMarshal(); return })
	res := hx(bs)
	if pan {
		res = "encpanic"
	} else if err != nil {
		res = "encerr"
	}
	out.Line("C08 pbenc %s %s => %s", in, dictOf(p), res)
}

func leafCid(b []byte) string {
	c, err := cid.Cast(b)
	if err != nil {
		return "h" + hex.EncodeToString(b) + ":c!"
	}
	return "h" + hex.EncodeToString(b) + ":" + wire.CidTok(c)
}

func rawDump(m *pb.Pin) string {
	var w []string
	w = append(w, "Cid="+leafCid(m.GetCid()), "Type="+strconv.Itoa(int(m.GetType())))
	list := func(bss [][]byte, f func([]byte) string) string {
		if len(bss) == 0 {
			return "-"
		}
		var l []string
		for _, b := range bss {
			l = append(l, f(b))
		}
		return strings.Join(l, ",")
	}
	w = append(w, "Allocations="+list(m.GetAllocations(), func(b []byte) string {
		id, err := peer.IDFromBytes(b)
		if err != nil {
			return "h" + hex.EncodeToString(b) + ":p!"
		}
		return "h" + hex.EncodeToString(b) + ":" + wire.PeerTok(id)
	}))
	w = append(w, "MaxDepth="+strconv.Itoa(int(m.GetMaxDepth())), "Reference="+leafCid(m.GetReference()))
	o := m.GetOptions()
	has := "1"
	if o == nil {
		has = "0"
	}
	w = append(w, "HasOptions="+has, "Rmin="+strconv.Itoa(int(o.GetReplicationFactorMin())), "Rmax="+strconv.Itoa(int(o.GetReplicationFactorMax())),
		"Name=h"+hex.EncodeToString([]byte(o.GetName())), "ShardSize="+strconv.FormatUint(o.GetShardSize(), 10))
	md := o.GetMetadata()
	keys := make([]string, 0, len(md))
	for k := range md {
		keys = append(keys, k)
	}
	sort.Strings(keys)
	ms := "-"
	if len(keys) > 0 {
		var l []string
		for _, k := range keys {
			l = append(l, "h"+hex.EncodeToString([]byte(k))+":h"+hex.EncodeToString([]byte(md[k])))
		}
		ms = strings.Join(l, ",")
	}
	w = append(w, "Metadata="+ms, "PinUpdate="+leafCid(o.GetPinUpdate()), "ExpireAt="+strconv.FormatUint(o.GetExpireAt(), 10))
	w = append(w, "Origins="+list(o.GetOrigins(), func(b []byte) string {
		ma, err := multiaddr.NewMultiaddrBytes(b)
		if err != nil {
			return "h" + hex.EncodeToString(b) + ":m!"
		}
		return "h" + hex.EncodeToString(b) + ":" + wire.AddrTok(ma)
	}))
	return strings.Join(w, " ")
}

func runPbDec(out *common.Out, bs []byte) {
	var m pb.Pin
	var raw string
	err, pan := guarded("proto.Unmarshal", func() error { return proto.Unmarshal(bs, &m) })
	if pan {
		out.Line("C08 pbdec %s => panic", hx(bs))
		return
	}
	if err != nil {
		// the real entry point must agree
		var p api.Pin
		err2, pan2 := guarded("ProtoUnmarshal", func() error { return p.ProtoUnmarshal(bs) })
		if pan2 {
			out.Line("C08 pbdec %s => panic", hx(bs))
		} else if err2 == nil {
			out.Line("C08 pbdec %s => inconsistent", hx(bs))
		} else {
			out.Line("C08 pbdec %s => err", hx(bs))
		}
		return
	}
	raw = rawDump(&m)
	var p api.Pin
	err, pan = guarded("ProtoUnmarshal", func() error { return p.ProtoUnmarshal(bs) })
	st := ""
	switch {
	case pan:
		st = "decpanic"
	case err != nil:
		st = "decerr"
	default:
		var dump []wire.KV
		_, pan = guarded("dump", func() error { dump = wire.Flatten(reflect.ValueOf(&p).Elem()); return nil })
		if pan {
			st = "dumppanic"
		} else {
			st = "ok " + wire.FormatKVs(dump)
		}
	}
	out.Line("C08 pbdec %s => ok %s | %s", hx(bs), raw, st)
}

type pbField struct {
	num protowire.Number
	typ protowire.Type
	val []byte // payload as on the wire (after the tag)
}

func splitFields(b []byte) []pbField {
	var fs []pbField
	for len(b) > 0 {
		num, typ, n := protowire.ConsumeTag(b)
		if n < 0 {
			return fs
		}
		m := protowire.ConsumeFieldValue(num, typ, b[n:])
		if m < 0 {
			return fs
		}
		fs = append(fs, pbField{num, typ, append([]byte(nil), b[n:n+m]...)})
		b = b[n+m:]
	}
	return fs
}

func joinFields(fs []pbField) []byte {
	var b []byte
	for _, f := range fs {
		b = protowire.AppendTag(b, f.num, f.typ)
		b = append(b, f.val...)
	}
	return b
}

func junkField(r *common.Rng, depth int) pbField {
	nums := []protowire.Number{7, 8, 15, 16, 100, 2047, 2048, 1 << 20, 1<<29 - 1, 1, 2, 3, 4, 5, 6, 9}
	num := nums[r.Intn(len(nums))]
	switch r.Intn(6) {
	case 0:
		return pbField{num, protowire.VarintType, protowire.AppendVarint(nil, []uint64{0, 1, 127, 128, 300, 1<<32 - 1, 1 << 32, 1<<63 - 1, 1 << 63, 1<<64 - 1, r.Next()}[r.Intn(11)])}
	case 1:
		return pbField{num, protowire.Fixed32Type, []byte{1, 2, 3, 4}}
	case 2:
		return pbField{num, protowire.Fixed64Type, []byte{1, 2, 3, 4, 5, 6, 7, 8}}
	case 3:
		pl := [][]byte{nil, []byte("x"), []byte("\xff\xfe"), []byte("hello world"), {8, 1}, {0x0a, 0x01, 'k', 0x12, 0x01, 'v'}}[r.Intn(6)]
		return pbField{num, protowire.BytesType, protowire.AppendBytes(nil, pl)}
	case 4:
		if depth < 3 { // a group, possibly nested, with arbitrary fields inside
			var inner []pbField
			for i := r.Intn(3); i > 0; i-- {
				inner = append(inner, junkField(r, depth+1))
			}
			v := joinFields(inner)
			v = protowire.AppendTag(v, num, protowire.EndGroupType)
			return pbField{num, protowire.StartGroupType, v}
		}
		fallthrough
	default:
		return pbField{num, protowire.VarintType, []byte{0x80, 0x80, 0x00}} // non-canonical zero
	}
}

// mutateFields: structure-preserving edits (the result is still a sequence of well-formed fields)
func mutateFields(r *common.Rng, fs []pbField, nested bool) []pbField {
	fs = append([]pbField(nil), fs...)
	for k := 1 + r.Intn(3); k > 0; k-- {
		switch r.Intn(7) {
		case 0: // shuffle everything
			for i := len(fs) - 1; i > 0; i-- {
				j := r.Intn(i + 1)
				fs[i], fs[j] = fs[j], fs[i]
			}
		case 1: // swap two neighbours
			if len(fs) > 1 {
				i := r.Intn(len(fs) - 1)
				fs[i], fs[i+1] = fs[i+1], fs[i]
			}
		case 2: // insert an unknown / mistyped field
			i := r.Intn(len(fs) + 1)
			fs = append(fs[:i:i], append([]pbField{junkField(r, 0)}, fs[i:]...)...)
		case 3: // duplicate a field (last scalar wins, repeated appends, message merges, map key overrides)
			if len(fs) > 0 {
				f := fs[r.Intn(len(fs))]
				i := r.Intn(len(fs) + 1)
				fs = append(fs[:i:i], append([]pbField{f}, fs[i:]...)...)
			}
		case 4: // change the wire type of a field, keeping a payload that parses under it
			if len(fs) > 0 {
				i := r.Intn(len(fs))
				j := junkField(r, 1)
				fs[i] = pbField{fs[i].num, j.typ, j.val}
				if j.typ == protowire.StartGroupType { // end tag must carry the same number
					fs[i] = pbField{j.num, j.typ, j.val}
				}
			}
		case 5: // renumber a field
			if len(fs) > 0 {
				i := r.Intn(len(fs))
				if fs[i].typ != protowire.StartGroupType {
					fs[i].num = []protowire.Number{1, 2, 3, 4, 5, 6, 7, 8, 9, 10}[r.Intn(10)]
				}
			}
		default: // descend into the nested message (Options, a map entry)
			if !nested {
				for i := range fs {
					if fs[i].typ == protowire.BytesType && (fs[i].num == 6) {
						pl, n := protowire.ConsumeBytes(fs[i].val)
						if n > 0 {
							inner := mutateFields(r, splitFields(pl), r.Chance(1, 2))
							fs[i].val = protowire.AppendBytes(nil, joinFields(inner))
						}
						break
					}
				}
			}
		}
	}
	return fs
}

// damage: edits the wire format does not allow (or that only a careful decoder survives)
func damage(r *common.Rng, b []byte) []byte {
	b = append([]byte(nil), b...)
	switch r.Intn(12) {
	case 0: // truncated
		if len(b) > 0 {
			b = b[:r.Intn(len(b))]
		}
	case 1: // truncated varint at the end
		b = append(b, 0x08, 0x80)
	case 2: // length past the end
		b = append(b, 0x0a, 0x05, 0x01)
	case 3: // huge declared length
		b = append(b, 0x32)
		b = protowire.AppendVarint(b, []uint64{1 << 31, 1 << 40, 1<<63 - 1, 1 << 63, 1<<64 - 1}[r.Intn(5)])
	case 4: // eleven-byte / overflowing varint
		b = append(b, 0x10, 0xff, 0xff, 0xff, 0xff, 0xff, 0xff, 0xff, 0xff, 0xff, []byte{0x01, 0x02, 0x7f, 0x80}[r.Intn(4)])
		if r.Bool() {
			b = append(b, 0x00)
		}
	case 5: // stray end-group / unterminated group / mismatched group
		b = append(b, [][]byte{{0x0c}, {0x3b}, {0x3b, 0x44}, {0x3b, 0x3b, 0x3c}}[r.Intn(4)]...)
	case 6: // reserved wire types, field number 0
		b = append(b, [][]byte{{0x0e}, {0x0f}, {0x00, 0x00}, {0x06, 0x00}, {0x07}}[r.Intn(5)]...)
	case 7: // tag beyond the valid field numbers
		b = protowire.AppendVarint(b, []uint64{(1 << 29) << 3, (1<<31 - 1) << 3, (1 << 31) << 3, 1<<64 - 8}[r.Intn(4)])
		b = append(b, 0x00)
	case 8: // invalid UTF-8 in Options.Name / a metadata key / a metadata value
		b = append(b, [][]byte{{0x32, 0x03, 0x1a, 0x01, 0xff}, {0x32, 0x07, 0x32, 0x05, 0x0a, 0x01, 0xff, 0x12, 0x00}, {0x32, 0x07, 0x32, 0x05, 0x0a, 0x00, 0x12, 0x01, 0xc0}, {0x32, 0x04, 0x1a, 0x02, 0xc3, 0xa9}}[r.Intn(4)]...)
	case 9: // byte flips
		for k := 1 + r.Intn(3); k > 0 && len(b) > 0; k-- {
			b[r.Intn(len(b))] ^= 1 << uint(r.Intn(8))
		}
	case 10: // random byte overwrite / insert
		if len(b) > 0 {
			p := r.Intn(len(b))
			b = append(b[:p:p], append([]byte{byte(r.Next())}, b[p:]...)...)
		}
	default: // deeply nested groups
		n := 1 + r.Intn(200)
		for i := 0; i < n; i++ {
			b = append(b, 0x3b)
		}
		if r.Bool() {
			for i := 0; i < n; i++ {
				b = append(b, 0x3c)
			}
		}
	}
	return b
}

func genWire(out *common.Out, r *common.Rng, k int) {
	if r.Chance(1, 5) {
		genMp(out, r) // the msgpack envelope of dsstate (mpw.go)
		return
	}
	switch x := r.Intn(20); {
	case x < 5:
		runPbEnc(out, genWirePin(r))
	case x < 15:
		wire.Clean = r.Chance(1, 2)
		p := wire.Gen(r, wire.RecordByName("Pin")).Addr().Interface().(*api.Pin)
		wire.Clean = false
		var bs []byte
		guarded("seed", func() error { b, err := p.ProtoMarshal(); bs = b; return err })
		if r.Chance(1, 30) {
			bs = make([]byte, r.Intn(40))
			for i := range bs {
				bs[i] = byte(r.Next())
			}
		} else {
			if r.Chance(4, 5) {
				bs = joinFields(mutateFields(r, splitFields(bs), false))
			}
			if r.Chance(1, 3) {
				bs = damage(r, bs)
			}
		}
		runPbDec(out, bs)
	case x < 18:
		n := r.Intn(12)
		bs := make([]byte, n)
		for i := range bs {
			if r.Chance(1, 2) {
				bs[i] = "&=%+ ;aZ09-_.~/?#é\x00\xff"[r.Intn(21)]
			} else {
				bs[i] = byte(r.Next())
			}
		}
		if r.Chance(1, 3) {
			bs = []byte(wire.OddStrings[r.Intn(len(wire.OddStrings))])
		}
		if r.Chance(1, 6) {
			bs = []byte(url.QueryEscape(string(bs))) // valid escapes, also in lower case
			if r.Bool() {
				bs = []byte(strings.ToLower(string(bs)))
			}
		}
		runQEsc(out, bs)
	default:
		po := wire.Gen(r, wire.RecordByName("PinOptions")).Addr().Interface().(*api.PinOptions)
		if r.Chance(1, 4) {
			po.Name = badStrings[r.Intn(len(badStrings))]
		}
		var s string
		guarded("seed", func() error { t, err := po.ToQuery(); s = t; return err })
		if r.Chance(1, 2) {
			s = string(mutate(r, wire.FQuery, []byte(s)))
		}
		runQParse(out, []byte(s))
	}
}

func runQEsc(out *common.Out, bs []byte) {
	esc := url.QueryEscape(string(bs))
	un, err := url.QueryUnescape(string(bs))
	u := hx([]byte(un))
	if err != nil {
		u = "err"
	}
	out.Line("C08 qesc %s => %s %s", hx(bs), hx([]byte(esc)), u)
}

func runQParse(out *common.Out, bs []byte) {
	var q url.Values
	err, pan := guarded("ParseQuery", func() (e error) { q, e = url.ParseQuery(string(bs)); return })
	if pan {
		out.Line("C08 qparse %s => panic", hx(bs))
		return
	}
	if err != nil {
		out.Line("C08 qparse %s => err", hx(bs))
		return
	}
	keys := make([]string, 0, len(q))
	for k := range q {
		keys = append(keys, k)
	}
	sort.Strings(keys)
	var w []string
	for _, k := range keys {
		for _, v := range q[k] {
			w = append(w, fmt.Sprintf("%s=%s", hx([]byte(k)), hx([]byte(v))))
		}
	}
	out.Line("C08 qparse %s => ok %s", hx(bs), strings.Join(w, " "))
}

func replayWire(out *common.Out, ws []string, line string) {
	bad := func() { out.Line("# bad corpus line: %s", line) }
	if len(ws) < 2 {
		bad()
		return
	}
	unhex := func(s string) ([]byte, bool) {
		if !strings.HasPrefix(s, "x") {
			return nil, false
		}
		b, err := hex.DecodeString(s[1:])
		return b, err == nil
	}
	if replayMp(out, ws) {
		return
	}
	switch ws[0] {
	case "pbdec":
		if b, ok := unhex(ws[1]); ok {
			runPbDec(out, b)
			return
		}
	case "qesc":
		if b, ok := unhex(ws[1]); ok {
			runQEsc(out, b)
			return
		}
	case "qparse":
		if b, ok := unhex(ws[1]); ok {
			runQParse(out, b)
			return
		}
	case "pbenc":
		var kv []string
		for _, w := range ws[1:] {
			if !strings.HasPrefix(w, "dict=") {
				kv = append(kv, w)
			}
		}
		kvs, err := wire.ParseKVs(kv)
		if err == nil {
			v, err := wire.Unflatten(wire.RecordByName("Pin").Type, kvs)
			if err == nil {
				nv := reflect.New(wire.RecordByName("Pin").Type).Elem()
				nv.Set(v)
				runPbEnc(out, nv.Addr().Interface().(*api.Pin))
				return
			}
		}
	}
	bad()
}
