package main

import (
	"encoding/hex"
	"fmt"
	"os"
	"reflect"
	"runtime"
	"runtime/debug"
	"strings"
	"time"

	"github.com/ipfs/ipfs-cluster/api"

	"verifharness/c08/wire"
	"verifharness/common"
)

// Suite fuzz (search, not proof): every decoder entry point on bytes derived from
// valid encodings by mutation, and on random bytes, under recover().
//
//   C08 fuzz <format>:<Record> <hex input> => err | ok:reenc-ok | ok:reenc-err[:class] | ok:reenc-panic:<msg>[:class] | panic:<msg>
//   C08 fuzz str:<ts|pt|pm|ips> <hex input> => ok:reenc-ok | panic

func runFuzz(out *common.Out, decoder string, input []byte) {
	diag := os.Getenv("C08_SLOW") != ""
	var m0 runtime.MemStats
	if diag {
		runtime.ReadMemStats(&m0)
	}
	t0 := time.Now()
	outcome := fuzzOne(decoder, input)
	// ugorji grows slices towards an announced length of up to 2^31 elements before it meets the end of
	// the input (gigabytes for a 60-byte document, then an error): give the memory back at once, so that
	// the harness's footprint stays bounded on a machine shared with other builds.
	if time.Since(t0) > 50*time.Millisecond {
		debug.FreeOSMemory()
	}
	if diag {
		var m1 runtime.MemStats
		runtime.ReadMemStats(&m1)
		if d := time.Since(t0); d > 20*time.Millisecond || m1.TotalAlloc-m0.TotalAlloc > 100<<20 {
			fmt.Fprintf(os.Stderr, "SLOW %v alloc=%dMB %s %d bytes %s x%s\n", d, (m1.TotalAlloc-m0.TotalAlloc)>>20, decoder, len(input), outcome, hex.EncodeToString(input[:minI(len(input), 60)]))
		}
	}
	out.Line("C08 fuzz %s x%s => %s", decoder, hex.EncodeToString(input), outcome)
}

func fuzzOne(decoder string, input []byte) string {
	parts := strings.SplitN(decoder, ":", 2)
	if len(parts) != 2 {
		return "bad-decoder"
	}
	format, name := parts[0], parts[1]
	if format == "str" {
		_, pan := guarded("fuzz "+decoder, func() error {
			s := string(input)
			switch name {
			case "ts":
				_ = api.TrackerStatusFromString(s).String()
			case "pt":
				_ = api.PinTypeFromString(s).String()
			case "pm":
				_ = api.PinModeFromString(s).String()
			case "ips":
				_ = api.IPFSPinStatusFromString(s).ToTrackerStatus().String()
			}
			return nil
		})
		if pan {
			return panicTok("panic")
		}
		return "ok:reenc-ok"
	}
	rec := wire.RecordByName(name)
	if rec == nil {
		return "bad-decoder"
	}
	var err error
	var pan bool
	val := reflectZero(rec)
	err, pan = guarded("fuzz decode "+decoder, func() (e error) { val, e = decode(rec, format, input); return })
	if pan {
		return panicTok("panic")
	}
	if err != nil {
		return "err"
	}
	// the decoded value must be encodable again, in the format it came in; in the other tag-driven
	// formats the record uses (an RPC reply is served as JSON by the REST API) only a panic counts.
	class := ""
	if hasNilAddr(val) {
		class = ":nil-multiaddr"
	}
	err, pan = guarded("fuzz re-encode "+decoder, func() (e error) { _, e = encode(rec, format, val); return })
	if pan {
		return panicTok("ok:reenc-panic") + class
	}
	sameErr := err
	if format == wire.FMsgpack || format == wire.FMsgpackRaft || format == wire.FJSON {
		for _, f := range rec.Formats {
			if f == format || (f != wire.FJSON && f != wire.FMsgpack) {
				continue
			}
			_, pan = guarded("fuzz re-encode "+decoder+" as "+f, func() (e error) { _, e = encode(rec, f, val); return })
			if pan {
				return panicTok("ok:reenc-panic") + class
			}
		}
	}
	if sameErr != nil {
		return "ok:reenc-err" + class
	}
	return "ok:reenc-ok"
}

// hasNilAddr: does the decoded value hold an api.Multiaddr wrapping no address? (the harness's own walk)
func hasNilAddr(v reflect.Value) (found bool) {
	defer func() {
		if recover() != nil {
			found = false
		}
	}()
	for _, kv := range wire.Flatten(v) {
		for _, e := range strings.Split(kv.V, ",") {
			if e == "m-" {
				return true
			}
		}
	}
	return false
}

// msgpackValues lists the [start,end) ranges of every value of a msgpack document (best effort, the
// subset ugorji writes); used to replace whole values.
func msgpackValues(b []byte) [][2]int {
	var out [][2]int
	var walk func(p int) int
	walk = func(p int) int {
		if p >= len(b) || len(out) > 4000 {
			return -1
		}
		start := p
		c := b[p]
		be := func(n int) int {
			if p+1+n > len(b) {
				return -1
			}
			v := 0
			for i := 0; i < n; i++ {
				v = v<<8 | int(b[p+1+i])
			}
			return v
		}
		end := -1
		seq := func(hdr, n int) int { // n nested values after a header of hdr bytes
			q := p + hdr
			for i := 0; i < n; i++ {
				q = walk(q)
				if q < 0 {
					return -1
				}
			}
			return q
		}
		switch {
		case c <= 0x7f || c >= 0xe0 || c == 0xc0 || c == 0xc2 || c == 0xc3:
			end = p + 1
		case c >= 0x80 && c <= 0x8f:
			end = seq(1, 2*int(c&0x0f))
		case c >= 0x90 && c <= 0x9f:
			end = seq(1, int(c&0x0f))
		case c >= 0xa0 && c <= 0xbf:
			end = p + 1 + int(c&0x1f)
		case c == 0xc4 || c == 0xd9:
			if n := be(1); n >= 0 {
				end = p + 2 + n
			}
		case c == 0xc5 || c == 0xda:
			if n := be(2); n >= 0 {
				end = p + 3 + n
			}
		case c == 0xc6 || c == 0xdb:
			if n := be(4); n >= 0 {
				end = p + 5 + n
			}
		case c == 0xcc || c == 0xd0:
			end = p + 2
		case c == 0xcd || c == 0xd1:
			end = p + 3
		case c == 0xce || c == 0xd2 || c == 0xca:
			end = p + 5
		case c == 0xcf || c == 0xd3 || c == 0xcb:
			end = p + 9
		case c == 0xd4:
			end = p + 3
		case c == 0xd5:
			end = p + 4
		case c == 0xd6:
			end = p + 6
		case c == 0xd7:
			end = p + 10
		case c == 0xd8:
			end = p + 18
		case c == 0xc7:
			if n := be(1); n >= 0 {
				end = p + 3 + n
			}
		case c == 0xdc:
			if n := be(2); n >= 0 && n < 10000 {
				end = seq(3, n)
			}
		case c == 0xde:
			if n := be(2); n >= 0 && n < 10000 {
				end = seq(3, 2*n)
			}
		}
		if end < 0 || end > len(b) {
			return -1
		}
		out = append(out, [2]int{start, end})
		return end
	}
	walk(0)
	return out
}

var msgpackJunk = [][]byte{{0xa2, 0xff, 0xfe}, {0xa1, 0xc0}, {0xd9, 0x02, 0xc3, 0x28}, {0x82, 0xa1, 'a', 0x01, 0xa1, 'a', 0x02}, {0x82, 0xa1, 'n', 0xa1, 'x', 0xa1, 'n', 0xc0},
	{0xcb, 0x7f, 0xf8, 0, 0, 0, 0, 0, 1}, {0xcb, 0x7f, 0xf0, 0, 0, 0, 0, 0, 0}, {0xca, 0xff, 0x80, 0, 0}, {0xdd, 0x00, 0x10, 0x00, 0x00}, {0xdf, 0x00, 0x10, 0x00, 0x00}, {0xc6, 0x00, 0x10, 0x00, 0x00}, {0xdb, 0x00, 0x10, 0x00, 0x00},
	{0xd3, 0x80, 0, 0, 0, 0, 0, 0, 0}, {0xc1}, {0xc7, 0xff, 0x01}, {0xc9, 0x00, 0x01, 0x00, 0x00, 0x00}, {0xd7, 0xff, 0xff, 0xff, 0xff, 0xff, 0xff, 0xff, 0xff, 0xff},
	{0xc0}, {0x90}, {0x80}, {0x00}, {0xff}, {0xa0}, {0xc4, 0x00}, {0xc3}, {0x91, 0xc0}, {0x81, 0xa0, 0xc0}, {0xa1, 'x'}, {0xc4, 0x01, 0x00}, {0xd6, 0xff, 0, 0, 0, 0}, {0xcf, 0xff, 0xff, 0xff, 0xff, 0xff, 0xff, 0xff, 0xff}}

func minI(a, b int) int {
	if a < b {
		return a
	}
	return b
}

var interesting = []byte{0x00, 0x01, 0x7f, 0x80, 0xff, 0xc0, 0xc1, 0xc4, 0xc6, 0xd9, 0xdb, 0xdc, 0xdd, 0xde, 0xdf, 0xa0, 0x90, 0x91, 0x81, 0xcf, 0xd3, 0xd6, 0xd7, 0xc7, '{', '}', '[', ']', '"', ',', ':', '&', '=', '%'}

var jsonJunk = []string{"NaN", "Infinity", "-Infinity", "-0", "1e-999", "-1e999", "0.1e+400", "123456789012345678901234567890123456789", "-9223372036854775809", "1.5", "\"\xff\xfe\"", "\"\xc3(\"", "\"\\udc00\"", "{\"a\":1,\"a\":2}", "{\"cid\":{\"/\":1},\"cid\":null}", "0x10", "01", "+1", "[1,]", "\"\u0000\"", "null", "[]", "{}", "\"x\"", "-1", "1e999", "true", "\"\"", "[null]", "{\"/\":\"x\"}", "\"/ip4/1.2.3.4\"", "18446744073709551616", "\"\\ud800\"", "[[[[[[[[]]]]]]]]"}
var queryJunk = []string{"", "abc", "-1", "99999999999999999999", "%zz", "1h", "1ns", "-5s", "direct", "Qm", "/ip4/1.2.3.4", ",,,", "0001-01-01T00:00:00Z", "true", "2"}
var queryKeys = []string{"replication", "replication-min", "replication-max", "shard-size", "user-allocations", "expire-at", "expire-in", "meta-", "meta-x", "pin-update", "origins", "mode", "name", "layout", "format", "chunker", "hash", "cid-version", "raw-leaves", "local", "shard", "nocopy", "progress", "stream-channels", "hidden", "recursive", "wrap-with-directory"}

func mutate(r *common.Rng, format string, bs []byte) []byte {
	b := append([]byte(nil), bs...)
	n := 1 + r.Intn(4)
	for i := 0; i < n; i++ {
		if format == wire.FJSON && r.Chance(1, 2) && len(b) > 0 {
			// replace the text between two structural characters by junk
			s := string(b)
			idx := []int{}
			for j, c := range s {
				if c == ':' || c == ',' || c == '[' {
					idx = append(idx, j)
				}
			}
			if len(idx) > 0 {
				a := idx[r.Intn(len(idx))] + 1
				e := a
				depth := 0
				inStr := false
				for e < len(s) {
					c := s[e]
					if inStr {
						if c == '\\' {
							e++
						} else if c == '"' {
							inStr = false
						}
					} else if c == '"' {
						inStr = true
					} else if c == '{' || c == '[' {
						depth++
					} else if c == '}' || c == ']' {
						if depth == 0 {
							break
						}
						depth--
					} else if c == ',' && depth == 0 {
						break
					}
					e++
				}
				if e > len(s) {
					e = len(s)
				}
				b = []byte(s[:a] + jsonJunk[r.Intn(len(jsonJunk))] + s[e:])
				continue
			}
		}
		if (format == wire.FMsgpack || format == wire.FMsgpackRaft) && r.Chance(1, 2) {
			if vals := msgpackValues(b); len(vals) > 0 {
				v := vals[r.Intn(len(vals))]
				junk := msgpackJunk[r.Intn(len(msgpackJunk))]
				b = append(append(append([]byte(nil), b[:v[0]]...), junk...), b[v[1]:]...)
				continue
			}
		}
		if format == wire.FQuery && r.Chance(2, 3) {
			s := string(b)
			k := queryKeys[r.Intn(len(queryKeys))]
			v := queryJunk[r.Intn(len(queryJunk))]
			if r.Bool() {
				s = k + "=" + v + "&" + s // first value wins in url.Values.Get
			} else {
				s = s + "&" + k + "=" + v
			}
			b = []byte(s)
			continue
		}
		if r.Chance(1, 40) { // deeply nested containers in place of a value / at the end
			depth := []int{50, 500, 5000, 20000}[r.Intn(4)]
			var nest []byte
			switch format {
			case wire.FJSON:
				nest = append([]byte(strings.Repeat("[", depth)), []byte(strings.Repeat("]", depth*r.Intn(2)))...)
			case wire.FMsgpack, wire.FMsgpackRaft, wire.FSnapshot:
				nest = append([]byte(strings.Repeat("\x91", depth)), 0xc0)
				if r.Bool() {
					nest = append([]byte(strings.Repeat("\x81\xa1a", depth)), 0xc0)
				}
			case wire.FProto:
				nest = []byte(strings.Repeat("\x3b", depth))
			default:
				nest = []byte(strings.Repeat("%25", depth))
			}
			p := 0
			if len(b) > 0 {
				p = r.Intn(len(b) + 1)
			}
			b = append(b[:p:p], append(nest, b[p:]...)...)
			continue
		}
		if len(b) == 0 {
			b = append(b, interesting[r.Intn(len(interesting))])
			continue
		}
		p := r.Intn(len(b))
		switch r.Intn(8) {
		case 0:
			b[p] ^= 1 << uint(r.Intn(8))
		case 1:
			b[p] = byte(r.Next())
		case 2:
			b[p] = interesting[r.Intn(len(interesting))]
		case 3:
			b = b[:p] // truncate
		case 4:
			e := p + r.Intn(len(b)-p)
			b = append(b[:p:p], b[e:]...) // delete a range
		case 5:
			ins := make([]byte, 1+r.Intn(4))
			for j := range ins {
				ins[j] = byte(r.Next())
			}
			b = append(b[:p:p], append(ins, b[p:]...)...)
		case 6:
			e := p + r.Intn(len(b)-p)
			if e-p < 200 {
				b = append(b[:e:e], append(append([]byte(nil), b[p:e]...), b[e:]...)...) // duplicate a range
			}
		default:
			if p+5 <= len(b) { // blow up a length prefix (the 2^31 one costs ugorji about a second: keep it rare)
				switch x := r.Intn(40); {
				case x == 0:
					b[p], b[p+1], b[p+2], b[p+3], b[p+4] = 0xdd, 0x7f, 0xff, 0xff, 0xff
				case x < 10:
					b[p], b[p+1], b[p+2], b[p+3], b[p+4] = 0xdd, 0x00, 0x02, 0x00, 0x00
				case x < 20:
					b[p], b[p+1], b[p+2], b[p+3], b[p+4] = 0xdb, 0x00, 0x01, 0x00, 0x00
				default:
					b[p], b[p+1], b[p+2] = 0xdc, 0xff, 0xff
				}
			}
		}
	}
	if len(b) > 1<<16 {
		b = b[:1<<16]
	}
	return b
}

func init() { debug.SetMemoryLimit(3 << 30) }

func genFuzz(out *common.Out, r *common.Rng, k int) {
	wire.NamedStatusOnly = true
	defer func() { wire.NamedStatusOnly = false }()
	if r.Chance(1, 25) {
		kinds := []string{"ts", "pt", "pm", "ips"}
		n := r.Intn(40)
		bs := make([]byte, n)
		for i := range bs {
			if r.Chance(1, 3) {
				bs[i] = byte(r.Next())
			} else {
				bs[i] = "abcdefgipnrstuq_,- "[r.Intn(19)]
			}
		}
		runFuzz(out, "str:"+kinds[r.Intn(4)], bs)
		return
	}
	var rec *wire.Record
	if r.Chance(1, 2) {
		rec = wire.RecordByName([]string{"Pin", "Pin", "PinOptions", "LogOp", "ID", "GlobalPinInfo"}[r.Intn(6)])
	} else {
		rec = &wire.Records[r.Intn(len(wire.Records))]
	}
	if r.Chance(1, 30) {
		rec = &wire.SnapshotRecord
	}
	format := rec.Formats[r.Intn(len(rec.Formats))]
	decoder := format + ":" + rec.Name
	switch x := r.Intn(20); {
	case x == 0: // random bytes
		bs := make([]byte, r.Intn(64))
		for i := range bs {
			bs[i] = byte(r.Next())
		}
		runFuzz(out, decoder, bs)
		return
	case x == 1:
		runFuzz(out, decoder, nil)
		return
	}
	var bs []byte
	for try := 0; try < 4 && bs == nil; try++ {
		v := wire.Gen(r, rec)
		wire.TrimMaps(v)
		guarded("fuzz seed encode", func() error {
			b, err := encode(rec, format, v)
			if err == nil {
				bs = b
			}
			return nil
		})
	}
	if r.Chance(1, 2) { // cross-format confusion: the bytes of another record's encoding
		other := &wire.Records[r.Intn(len(wire.Records))]
		if other != rec {
			for _, f := range other.Formats {
				if f == format {
					v := wire.Gen(r, other)
					wire.TrimMaps(v)
					guarded("fuzz seed encode", func() error {
						if b, err := encode(other, format, v); err == nil && r.Chance(1, 4) {
							bs = b
						}
						return nil
					})
				}
			}
		}
	}
	runFuzz(out, decoder, mutate(r, format, bs))
}

func replayFuzz(out *common.Out, ws []string, line string) {
	if len(ws) != 2 || !strings.HasPrefix(ws[1], "x") {
		out.Line("# bad corpus line (fuzz needs decoder and x<hex>): %s", line)
		return
	}
	bs, err := hex.DecodeString(ws[1][1:])
	if err != nil {
		out.Line("# bad corpus line (%v): %s", err, line)
		return
	}
	runFuzz(out, ws[0], bs)
}
