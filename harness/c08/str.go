package main

import (
	"encoding/json"
	"sort"
	"strconv"
	"strings"

	"github.com/ipfs/ipfs-cluster/api"

	"verifharness/c08/wire"
	"verifharness/common"
)

// Suite str: the string and JSON forms of TrackerStatus, PinMode, PinType and the parsers.
//
//   C08 str ts <n>      => <String()> <FromString(String())> <json round trip>
//   C08 str pm <n>      => <String()> <FromString(String())> <json round trip>
//   C08 str pt <n>      => <String()> <FromString(String())> -
//   C08 str tsparse|pmparse|ptparse|ips <string> => <parsed value>
//   C08 str p2s|s2p ... (peers.go)

func runStr(out *common.Out, kind, arg string) {
	res := "panic"
	guarded("str "+kind, func() error {
		switch kind {
		case "ts":
			n, _ := strconv.ParseInt(arg, 10, 64)
			st := api.TrackerStatus(n)
			s := st.String()
			back := api.TrackerStatusFromString(s)
			// String() joins the names in Go's map iteration order: print them sorted (canonical output)
			names := strings.Split(s, ",")
			sort.Strings(names)
			s = strings.Join(names, ",")
			jb := "err"
			if bs, err := json.Marshal(st); err == nil {
				var st2 api.TrackerStatus
				if json.Unmarshal(bs, &st2) == nil {
					jb = strconv.Itoa(int(st2))
				}
			}
			res = wire.StrTok(s) + " " + strconv.Itoa(int(back)) + " " + jb
		case "pm":
			n, _ := strconv.ParseInt(arg, 10, 64)
			pm := api.PinMode(n)
			s := pm.String()
			back := api.PinModeFromString(s)
			jb := "err"
			if bs, err := json.Marshal(pm); err == nil {
				var pm2 api.PinMode
				if json.Unmarshal(bs, &pm2) == nil {
					jb = strconv.Itoa(int(pm2))
				}
			}
			res = wire.StrTok(s) + " " + strconv.Itoa(int(back)) + " " + jb
		case "pt":
			n, _ := strconv.ParseUint(arg, 10, 64)
			pt := api.PinType(n)
			s := pt.String()
			res = wire.StrTok(s) + " " + strconv.FormatUint(uint64(api.PinTypeFromString(s)), 10) + " -"
		case "tsparse":
			s, _ := wire.ParseStrTok(arg)
			res = strconv.Itoa(int(api.TrackerStatusFromString(s)))
		case "pmparse":
			s, _ := wire.ParseStrTok(arg)
			res = strconv.Itoa(int(api.PinModeFromString(s)))
		case "ptparse":
			s, _ := wire.ParseStrTok(arg)
			res = strconv.FormatUint(uint64(api.PinTypeFromString(s)), 10)
		case "ips":
			s, _ := wire.ParseStrTok(arg)
			res = strconv.Itoa(int(api.IPFSPinStatusFromString(s)))
		case "p2s":
			res = runP2S(arg)
		case "s2p":
			res = runS2P(arg)
		default:
			res = "unknown-kind"
		}
		return nil
	})
	out.Line("C08 str %s %s => %s", kind, arg, res)
}

var statusWords = []string{"undefined", "cluster_error", "pin_error", "unpin_error", "error", "pinned", "pinning", "unpinning",
	"unpinned", "remote", "pin_queued", "unpin_queued", "queued", "sharded", "unexpectedly_unpinned", "", "bogus", "Pinned", "pin"}
var typeWords = []string{"pin", "meta-pin", "clusterdag-pin", "shard-pin", "all", "", "bad-type", "Pin", "shard"}
var modeWords = []string{"recursive", "direct", "", "Direct", "indirect"}
var ipsWords = []string{"direct", "recursive", "indirect", "indirect through QmXYZ", "recursive-ish", "", "Direct", "unpinned", "directx"}

func genStr(out *common.Out, r *common.Rng, k int) {
	switch x := r.Intn(23); {
	case x >= 20: // api/util.go: PeersToStrings / StringsToPeers
		genPeersCase(out, r)
	case x < 9:
		runStr(out, "ts", strconv.Itoa(int(wire.GenTrackerStatus(r))))
	case x < 10: // exhaustive-ish sweep over all filters of known statuses and a little beyond
		runStr(out, "ts", strconv.Itoa(r.Intn(8300)))
	case x < 12:
		runStr(out, "pm", strconv.Itoa([]int{0, 1, 0, 1, 2, -1, 7}[r.Intn(7)]))
	case x < 14:
		runStr(out, "pt", strconv.FormatUint([]uint64{1, 2, 4, 8, 16, 30, 0, 3, 6, 32, 1 << 63}[r.Intn(11)], 10))
	case x < 17:
		n := r.Intn(4)
		s := ""
		for i := 0; i <= n; i++ {
			if i > 0 {
				s += []string{",", ", ", " ,", ",,"}[r.Intn(4)]
			}
			s += statusWords[r.Intn(len(statusWords))]
		}
		runStr(out, "tsparse", wire.StrTok(s))
	case x < 18:
		runStr(out, "ptparse", wire.StrTok(typeWords[r.Intn(len(typeWords))]))
	case x < 19:
		runStr(out, "pmparse", wire.StrTok(modeWords[r.Intn(len(modeWords))]))
	default:
		runStr(out, "ips", wire.StrTok(ipsWords[r.Intn(len(ipsWords))]))
	}
}

func replayStr(out *common.Out, ws []string, line string) {
	if len(ws) != 2 {
		out.Line("# bad corpus line (str needs kind and argument): %s", line)
		return
	}
	runStr(out, ws[0], ws[1])
}
