// C08 harness: drives the real encoders and decoders of /repo.
//
//   C08 rt <Record> <format> <field=token>... => ok <field=token>... | encerr | decerr | encpanic | decpanic
//   C08 eq ...   C08 str ...   C08 fuzz ...      (see the suite files)
//
// Values are dumped field by field by wire.Flatten (the harness's own
// comparator input; the repository's Equals is only called in suite eq, where
// it is the code under test).
package main

import (
	"bufio"
	"fmt"
	"os"
	"reflect"
	"sort"
	"strings"

	"github.com/ipfs/ipfs-cluster/api"

	"verifharness/c08/wire"
	"verifharness/common"
)

type rtCase struct {
	rec    *wire.Record
	format string
	val    reflect.Value
}

func genRT(r *common.Rng, k int) rtCase {
	// Pin and PinOptions get half of the cases; the rest is spread over the other records.
	var rec *wire.Record
	if r.Chance(1, 25) {
		return genSnapshot(r)
	}
	switch x := r.Intn(10); {
	case x < 4:
		rec = wire.RecordByName("Pin")
	case x < 5:
		rec = wire.RecordByName("PinOptions")
	case x < 6:
		// the add endpoint's query form (field-level model Model/C08Add.lean): every bool/int/string parameter
		rec = wire.RecordByName("AddParams")
		return rtCase{rec, wire.FQuery, wire.Gen(r, rec)}
	default:
		rec = &wire.Records[r.Intn(len(wire.Records))]
	}
	format := rec.Formats[r.Intn(len(rec.Formats))]
	return rtCase{rec, format, wire.Gen(r, rec)}
}

// genSnapshot: 0-5 pins with distinct defined CIDs, sorted by CID token (the order both sides are listed in).
func genSnapshot(r *common.Rng) rtCase {
	n := r.Intn(6)
	perm := make([]int, wire.NCids)
	for i := range perm {
		perm[i] = i
	}
	for i := len(perm) - 1; i > 0; i-- {
		j := r.Intn(i + 1)
		perm[i], perm[j] = perm[j], perm[i]
	}
	snap := wire.Snapshot{}
	pinRec := wire.RecordByName("Pin")
	wire.Clean = r.Chance(4, 5)
	defer func() { wire.Clean = false }()
	for i := 0; i < n; i++ {
		p := wire.Gen(r, pinRec).Interface().(api.Pin)
		p.Cid = common.CidN(perm[i])
		snap.Pins = append(snap.Pins, p)
	}
	sort.Slice(snap.Pins, func(i, j int) bool { return wire.CidTok(snap.Pins[i].Cid) < wire.CidTok(snap.Pins[j].Cid) })
	v := reflect.New(wire.SnapshotRecord.Type).Elem()
	v.Set(reflect.ValueOf(snap))
	return rtCase{&wire.SnapshotRecord, wire.FSnapshot, v}
}

func runRT(out *common.Out, c rtCase) {
	in := wire.FormatKVs(wire.Flatten(c.val))
	out.Line("C08 rt %s %s %s => %s", c.rec.Name, c.format, in, roundtrip(c.rec, c.format, c.val))
}

func parseRT(ws []string) (rtCase, error) {
	if len(ws) < 2 {
		return rtCase{}, fmt.Errorf("short rt case")
	}
	rec := wire.RecordByName(ws[0])
	if rec == nil {
		return rtCase{}, fmt.Errorf("unknown record %s", ws[0])
	}
	kvs, err := wire.ParseKVs(ws[2:])
	if err != nil {
		return rtCase{}, err
	}
	v, err := wire.Unflatten(rec.Type, kvs)
	if err != nil {
		return rtCase{}, err
	}
	// make it addressable
	nv := reflect.New(rec.Type).Elem()
	nv.Set(v)
	return rtCase{rec, ws[1], nv}, nil
}

func main() {
	args := common.ParseArgs()
	suite := args.Extra["suite"]
	if suite == "" {
		suite = "rt"
	}
	out := common.NewOut()
	defer out.Flush()

	if args.Extra["stdin"] == "1" {
		sc := bufio.NewScanner(os.Stdin)
		sc.Buffer(make([]byte, 1<<20), 1<<26)
		for sc.Scan() {
			line := strings.TrimSpace(sc.Text())
			if line == "" || strings.HasPrefix(line, "#") {
				continue
			}
			if i := strings.Index(line, " => "); i >= 0 {
				line = line[:i]
			}
			ws := strings.Fields(line)
			if len(ws) > 0 && ws[0] == "C08" {
				ws = ws[1:]
			}
			if len(ws) == 0 {
				continue
			}
			if suite == "wire" {
				replayWire(out, ws, line)
				continue
			}
			if ws[0] != suite && !((ws[0] == "q" || ws[0] == "aq") && suite == "rt") {
				continue // a corpus file may be shared; each suite replays its own kind
			}
			switch ws[0] {
			case "rt":
				c, err := parseRT(ws[1:])
				if err != nil {
					out.Line("# bad corpus line (%v): %s", err, line)
					continue
				}
				runRT(out, c)
			case "q":
				if c, ok := parseQ(ws[1:]); ok {
					runQ(out, c)
				} else {
					out.Line("# bad corpus line (q needs all twelve parameters): %s", line)
				}
			case "aq":
				if c, ok := parseAQ(ws[1:]); ok {
					runAQ(out, c)
				} else {
					out.Line("# bad corpus line (aq: twelve q parameters ; key=~value ...): %s", line)
				}
			case "eq":
				replayEq(out, ws[1:], line)
			case "str":
				replayStr(out, ws[1:], line)
			case "fuzz":
				replayFuzz(out, ws[1:], line)
			}
		}
		return
	}

	n := args.N
	if n < 0 {
		n = 1000
	}
	base := common.NewRng(common.Seed())
	for k := 0; k < n; k++ {
		if args.Only >= 0 && k != args.Only {
			continue
		}
		r := base.Fork(uint64(k))
		switch suite {
		case "rt":
			if r.Chance(1, 16) {
				runQ(out, genQ(r))
			} else if r.Chance(1, 8) {
				// the real AddParamsFromQuery on typed parameter sets (Model/C08Add.lean fromParams)
				runAQ(out, genAQ(r))
			} else {
				runRT(out, genRT(r, k))
			}
		case "eq":
			genEq(out, r, k)
		case "str":
			genStr(out, r, k)
		case "fuzz":
			genFuzz(out, r, k)
		case "wire":
			genWire(out, r, k)
		default:
			fmt.Fprintln(os.Stderr, "unknown suite", suite)
			os.Exit(2)
		}
	}
}
