package main

// Suite wire, kinds mpenc / mpdec: the msgpack envelope of dsstate (serialEntry stream), byte level.
//
//   C08 mpenc <key>=x<hex>|<key>=nil ...        => x<hex of State.Marshal> | err | panic
//   C08 mpdec old=<key>=x<hex>,...|- x<hex stream> => <ok|err|panic> <key>=x<hex> ... (store afterwards, sorted)
//
// mpenc puts raw key/values under the state's namespace of a map datastore and runs the real Marshal;
// mpdec runs the real Unmarshal on a stream over a store that already holds `old` and dumps the store.
// mpdec streams are written by the harness's own msgpack writer in every form the format allows for the
// same entry (map header widths, str8/str16/str32/bin8 heads, v before k, unknown fields with nested junk
// values, repeated fields, missing fields, nil fields, nil entries) and may be cut at any byte.

import (
	"bytes"
	"encoding/hex"
	"sort"
	"strings"

	ds "github.com/ipfs/go-datastore"
	"github.com/ipfs/go-datastore/query"
	dssync "github.com/ipfs/go-datastore/sync"
	"github.com/ipfs/ipfs-cluster/state/dsstate"

	"verifharness/common"
)

type mpEnt struct {
	key string
	val []byte // nil = nil slice
}

func mpStore(ents []mpEnt) (*dsstate.State, ds.Datastore, error) {
	d := dssync.MutexWrap(ds.NewMapDatastore())
	st, err := dsstate.New(d, "", dsstate.DefaultHandle())
	if err != nil {
		return nil, nil, err
	}
	for _, e := range ents {
		if err := d.Put(ds.NewKey("/"+e.key), e.val); err != nil {
			return nil, nil, err
		}
	}
	return st, d, nil
}

func mpEntsTok(ents []mpEnt) string {
	var ws []string
	for _, e := range ents {
		if e.val == nil {
			ws = append(ws, e.key+"=nil")
		} else {
			ws = append(ws, e.key+"="+hx(e.val))
		}
	}
	return strings.Join(ws, " ")
}

func runMpEnc(out *common.Out, ents []mpEnt) {
	res := "err"
	_, pan := guarded("mpenc", func() error {
		st, _, err := mpStore(ents)
		if err != nil {
			return err
		}
		var buf bytes.Buffer
		if err := st.Marshal(&buf); err != nil {
			return err
		}
		res = hx(buf.Bytes())
		return nil
	})
	if pan {
		res = "panic"
	}
	out.Line("C08 mpenc %s => %s", mpEntsTok(ents), res)
}

func dumpStore(d ds.Datastore) string {
	rs, err := d.Query(query.Query{})
	if err != nil {
		return "queryerr"
	}
	all, _ := rs.Rest()
	var ws []string
	for _, e := range all {
		ws = append(ws, strings.TrimPrefix(e.Key, "/")+"="+hx(e.Value))
	}
	sort.Strings(ws)
	return strings.Join(ws, " ")
}

func runMpDec(out *common.Out, old []mpEnt, bs []byte) {
	status, dump := "err", ""
	_, pan := guarded("mpdec", func() error {
		st, d, err := mpStore(old)
		if err != nil {
			status = "seterr"
			return err
		}
		if err := st.Unmarshal(bytes.NewReader(bs)); err == nil {
			status = "ok"
		}
		dump = dumpStore(d)
		return nil
	})
	if pan {
		status = "panic"
	}
	o := "-"
	if len(old) > 0 {
		o = strings.ReplaceAll(mpEntsTok(old), " ", ",")
	}
	out.Line("C08 mpdec old=%s %s => %s %s", o, hx(bs), status, dump)
}

const mpKeyChars = "ABCDEFGHIJKLMNOPQRSTUVWXYZ234567abcxyz019"

func genMpKey(r *common.Rng) string {
	n := 1 + r.Intn(8)
	switch r.Intn(12) {
	case 0:
		n = 31
	case 1:
		n = 32
	case 2:
		n = 59 // the length of a real pin key (base32 of a CIDv1)
	case 3:
		n = 300
	}
	b := make([]byte, n)
	for i := range b {
		b[i] = mpKeyChars[r.Intn(len(mpKeyChars))]
	}
	return string(b)
}

func genMpVal(r *common.Rng) []byte {
	n := r.Intn(12)
	switch r.Intn(16) {
	case 0:
		return nil
	case 1:
		n = 0
	case 2:
		n = 31
	case 3:
		n = 32
	case 4:
		n = 255 + r.Intn(3)
	case 5:
		if r.Chance(1, 6) {
			n = 65535 + r.Intn(3)
		}
	}
	b := make([]byte, n)
	for i := range b {
		b[i] = byte(r.Next())
	}
	return b
}

func genMpEnts(r *common.Rng, max int) []mpEnt {
	n := r.Intn(max + 1)
	seen := map[string]bool{}
	var ents []mpEnt
	for i := 0; i < n; i++ {
		k := genMpKey(r)
		if seen[k] {
			continue
		}
		seen[k] = true
		ents = append(ents, mpEnt{k, genMpVal(r)})
	}
	return ents
}

// --- the harness's own msgpack writer (all head forms) ---

func mpLen(w *bytes.Buffer, n int, k int) {
	for i := k - 1; i >= 0; i-- {
		w.WriteByte(byte(n >> (8 * uint(i))))
	}
}

// form: 0 shortest legacy raw (what ugorji writes), 1 str8, 2 str16, 3 str32, 4 bin8, 5 bin16, 6 bin32
func mpRaw(w *bytes.Buffer, b []byte, form int) {
	n := len(b)
	switch {
	case form == 1 && n < 256:
		w.WriteByte(0xd9)
		mpLen(w, n, 1)
	case form == 4 && n < 256:
		w.WriteByte(0xc4)
		mpLen(w, n, 1)
	case form == 5 && n < 65536:
		w.WriteByte(0xc5)
		mpLen(w, n, 2)
	case form == 6:
		w.WriteByte(0xc6)
		mpLen(w, n, 4)
	case form == 3:
		w.WriteByte(0xdb)
		mpLen(w, n, 4)
	case form == 2 && n < 65536:
		w.WriteByte(0xda)
		mpLen(w, n, 2)
	case n < 32:
		w.WriteByte(0xa0 + byte(n))
	case n < 65536:
		w.WriteByte(0xda)
		mpLen(w, n, 2)
	default:
		w.WriteByte(0xdb)
		mpLen(w, n, 4)
	}
	w.Write(b)
}

func mpMapHdr(w *bytes.Buffer, n int, form int) {
	switch {
	case form == 1:
		w.WriteByte(0xde)
		mpLen(w, n, 2)
	case form == 2:
		w.WriteByte(0xdf)
		mpLen(w, n, 4)
	default:
		w.WriteByte(0x80 + byte(n))
	}
}

// a whole value of any type, for unknown fields
func mpJunk(w *bytes.Buffer, r *common.Rng, depth int) {
	x := r.Intn(16)
	if depth <= 0 && x >= 12 {
		x = r.Intn(12)
	}
	switch x {
	case 0:
		w.WriteByte(0xc0)
	case 1:
		w.WriteByte(0xc2 + byte(r.Intn(2)))
	case 2:
		w.WriteByte(byte(r.Intn(128)))
	case 3:
		w.WriteByte(0xe0 + byte(r.Intn(32)))
	case 4:
		k := []int{1, 2, 4, 8}[r.Intn(4)]
		w.WriteByte(map[int]byte{1: 0xcc, 2: 0xcd, 4: 0xce, 8: 0xcf}[k] + byte(4*r.Intn(2)))
		for i := 0; i < k; i++ {
			w.WriteByte(byte(r.Next()))
		}
	case 5:
		if r.Bool() {
			w.WriteByte(0xca)
			w.Write([]byte{0x3f, 0x80, 0, 0})
		} else {
			w.WriteByte(0xcb)
			w.Write([]byte{0x7f, 0xf8, 0, 0, 0, 0, 0, 1})
		}
	case 6, 7, 8:
		b := make([]byte, r.Intn(40))
		for i := range b {
			b[i] = byte(r.Next())
		}
		mpRaw(w, b, r.Intn(7))
	case 9:
		k := []int{1, 2, 4, 8, 16}[r.Intn(5)]
		w.WriteByte(map[int]byte{1: 0xd4, 2: 0xd5, 4: 0xd6, 8: 0xd7, 16: 0xd8}[k])
		w.WriteByte(byte(r.Next()))
		for i := 0; i < k; i++ {
			w.WriteByte(byte(r.Next()))
		}
	case 10:
		n := r.Intn(5)
		w.WriteByte(0xc7)
		w.WriteByte(byte(n))
		w.WriteByte(byte(r.Next()))
		for i := 0; i < n; i++ {
			w.WriteByte(byte(r.Next()))
		}
	case 11:
		mpRaw(w, []byte("k"), 0) // a value that looks like a field name
	case 12, 13:
		n := r.Intn(4)
		if r.Chance(1, 4) {
			w.WriteByte(0xdc)
			mpLen(w, n, 2)
		} else {
			w.WriteByte(0x90 + byte(n))
		}
		for i := 0; i < n; i++ {
			mpJunk(w, r, depth-1)
		}
	default:
		n := r.Intn(3)
		mpMapHdr(w, n, r.Intn(3))
		for i := 0; i < n; i++ {
			mpJunk(w, r, depth-1)
			mpJunk(w, r, depth-1)
		}
	}
}

func mpEntryVariant(w *bytes.Buffer, r *common.Rng, e mpEnt) {
	if r.Chance(1, 25) {
		w.WriteByte(0xc0) // a nil entry
		return
	}
	type fld struct {
		name string
		kind int // 0 key, 1 value, 2 junk
	}
	fs := []fld{{"k", 0}, {"v", 1}}
	if r.Chance(1, 3) {
		fs[0], fs[1] = fs[1], fs[0]
	}
	if r.Chance(1, 12) { // missing field
		fs = fs[:1]
	}
	if r.Chance(1, 8) { // repeated field: the later one wins
		fs = append(fs, fs[r.Intn(len(fs))])
	}
	for r.Chance(1, 3) { // unknown fields
		name := []string{"x", "K", "kk", "", "key", "V", "value"}[r.Intn(7)]
		at := r.Intn(len(fs) + 1)
		fs = append(fs[:at], append([]fld{{name, 2}}, fs[at:]...)...)
	}
	mpMapHdr(w, len(fs), r.Intn(5))
	first := map[int]bool{}
	for _, f := range fs {
		form := 0
		if r.Chance(1, 4) {
			form = r.Intn(7)
		}
		mpRaw(w, []byte(f.name), form)
		vform := 0
		if r.Chance(1, 4) {
			vform = r.Intn(7)
		}
		switch f.kind {
		case 0:
			k := e.key
			if first[0] && r.Bool() {
				k += "2"
			}
			first[0] = true
			if r.Chance(1, 20) {
				w.WriteByte(0xc0)
			} else if r.Chance(1, 30) {
				// a key of another type (outside the model unless nil); never a raw one: keys stay printable ASCII
				var jw bytes.Buffer
				mpJunk(&jw, r, 1)
				if h := jw.Bytes()[0]; (h >= 0xa0 && h <= 0xbf) || (h >= 0xc4 && h <= 0xc6) || (h >= 0xd9 && h <= 0xdb) {
					w.WriteByte(0x01)
				} else {
					w.Write(jw.Bytes())
				}
			} else if r.Chance(1, 20) {
				mpRaw(w, nil, vform)
			} else {
				mpRaw(w, []byte(k), vform)
			}
		case 1:
			if e.val == nil || r.Chance(1, 20) {
				w.WriteByte(0xc0)
			} else {
				mpRaw(w, e.val, vform)
			}
		default:
			mpJunk(w, r, 3)
		}
	}
}

func genMp(out *common.Out, r *common.Rng) {
	if r.Chance(1, 3) {
		runMpEnc(out, genMpEnts(r, 5))
		return
	}
	old := genMpEnts(r, 2)
	ents := genMpEnts(r, 4)
	var w bytes.Buffer
	if r.Chance(1, 4) {
		// the real stream
		guarded("seed", func() error {
			st, _, err := mpStore(ents)
			if err != nil {
				return err
			}
			return st.Marshal(&w)
		})
	} else {
		for _, e := range ents {
			mpEntryVariant(&w, r, e)
		}
	}
	bs := w.Bytes()
	if r.Chance(1, 4) && len(bs) > 0 {
		bs = bs[:r.Intn(len(bs))]
	}
	runMpDec(out, old, bs)
}

func parseMpEnts(ws []string) ([]mpEnt, bool) {
	var ents []mpEnt
	for _, w := range ws {
		i := strings.Index(w, "=")
		if i <= 0 {
			return nil, false
		}
		if w[i+1:] == "nil" {
			ents = append(ents, mpEnt{w[:i], nil})
			continue
		}
		if !strings.HasPrefix(w[i+1:], "x") {
			return nil, false
		}
		b, err := hex.DecodeString(w[i+2:])
		if err != nil {
			return nil, false
		}
		if b == nil {
			b = []byte{}
		}
		ents = append(ents, mpEnt{w[:i], b})
	}
	return ents, true
}

// replayMp re-executes an mpenc / mpdec case line; false = not one / malformed
func replayMp(out *common.Out, ws []string) bool {
	switch ws[0] {
	case "mpenc":
		if ents, ok := parseMpEnts(ws[1:]); ok {
			runMpEnc(out, ents)
			return true
		}
	case "mpdec":
		if len(ws) != 3 || !strings.HasPrefix(ws[1], "old=") || !strings.HasPrefix(ws[2], "x") {
			return false
		}
		var old []mpEnt
		if o := ws[1][4:]; o != "-" {
			var ok bool
			if old, ok = parseMpEnts(strings.Split(o, ",")); !ok {
				return false
			}
		}
		b, err := hex.DecodeString(ws[2][1:])
		if err != nil {
			return false
		}
		runMpDec(out, old, b)
		return true
	}
	return false
}
