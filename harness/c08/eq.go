package main

import (
	"reflect"
	"strings"
	"time"

	cid "github.com/ipfs/go-cid"
	"github.com/ipfs/ipfs-cluster/api"
	peer "github.com/libp2p/go-libp2p-core/peer"
	multiaddr "github.com/multiformats/go-multiaddr"

	"verifharness/c08/wire"
	"verifharness/common"
)

// Suite eq: the repository's own Pin.Equals / PinOptions.Equals on three pins
// a, b (a variant of a), c (a variant of b) and a deep copy a2 of a:
//
//   C08 eq <dump a> | <dump b> | <dump c> => <ab ba aa2 bc ac as 5 bits for Pin.Equals> <same for PinOptions.Equals> <a.Equals(a) for both, same pointer>

func copyPin(p *api.Pin) *api.Pin {
	q := *p
	q.Allocations = append([]peer.ID(nil), p.Allocations...)
	q.UserAllocations = append([]peer.ID(nil), p.UserAllocations...)
	q.Origins = append([]multiaddr.Multiaddr(nil), p.Origins...)
	if p.Metadata != nil {
		q.Metadata = make(map[string]string, len(p.Metadata))
		for k, v := range p.Metadata {
			q.Metadata[k] = v
		}
	}
	if p.Reference != nil {
		c := *p.Reference
		q.Reference = &c
	}
	return &q
}

func shufflePeers(r *common.Rng, l []peer.ID) {
	for i := len(l) - 1; i > 0; i-- {
		j := r.Intn(i + 1)
		l[i], l[j] = l[j], l[i]
	}
}

func variant(r *common.Rng, p *api.Pin) *api.Pin {
	q := copyPin(p)
	n := []int{0, 0, 1, 1, 1, 2, 3}[r.Intn(7)]
	for i := 0; i < n; i++ {
		switch r.Intn(22) {
		case 0:
			shufflePeers(r, q.Allocations)
		case 1:
			shufflePeers(r, q.UserAllocations)
		case 2:
			for i := len(q.Origins) - 1; i > 0; i-- {
				j := r.Intn(i + 1)
				q.Origins[i], q.Origins[j] = q.Origins[j], q.Origins[i]
			}
		case 3: // replace an origin by a copy of another one (repeats)
			if len(q.Origins) > 1 {
				q.Origins[r.Intn(len(q.Origins))] = q.Origins[r.Intn(len(q.Origins))]
			}
		case 4:
			q.Origins = append(q.Origins, wire.AddrN(r.Intn(wire.NAddrs)))
		case 5:
			if len(q.Origins) > 0 {
				q.Origins = q.Origins[:len(q.Origins)-1]
			}
		case 6:
			if q.Metadata == nil {
				q.Metadata = map[string]string{}
			}
			q.Metadata[[]string{"", "k", "new", "K"}[r.Intn(4)]] = wire.GenString(r, true)
		case 7:
			for k := range sortedMeta(q.Metadata) {
				_ = k
			}
			keys := sortedMeta(q.Metadata)
			if len(keys) > 0 {
				delete(q.Metadata, keys[r.Intn(len(keys))])
			}
		case 8:
			q.PinUpdate = wire.GenCid(r, 30)
		case 9:
			q.Name = wire.GenString(r, true)
		case 10:
			q.Mode = api.PinMode(r.Intn(2))
		case 11:
			q.ReplicationFactorMin = r.Range(-1, 3)
		case 12:
			q.ReplicationFactorMax = r.Range(-1, 3)
		case 13:
			q.ShardSize = uint64(r.Intn(3))
		case 14:
			if r.Bool() {
				q.ExpireAt = q.ExpireAt.Add(time.Duration(1+r.Intn(3)) * time.Nanosecond)
			} else {
				q.ExpireAt = q.ExpireAt.In(time.FixedZone("z", 7200)) // same instant
			}
		case 15:
			q.Cid = wire.GenCid(r, 5)
		case 16:
			q.Type = []api.PinType{api.DataType, api.MetaType, api.ShardType}[r.Intn(3)]
		case 17:
			q.MaxDepth = api.PinDepth(r.Range(-1, 2))
		case 18:
			if q.Reference == nil || r.Bool() {
				c := common.CidN(r.Intn(wire.NCids))
				q.Reference = &c
			} else {
				q.Reference = nil
			}
		case 19:
			q.Allocations = append(q.Allocations, common.PeerN(r.Intn(wire.NPeers)))
		case 20:
			if len(q.UserAllocations) > 0 {
				q.UserAllocations[r.Intn(len(q.UserAllocations))] = common.PeerN(r.Intn(wire.NPeers))
			}
		default:
			if len(q.Allocations) > 0 {
				q.Allocations[r.Intn(len(q.Allocations))] = common.PeerN(r.Intn(wire.NPeers))
			}
		}
	}
	return q
}

func sortedMeta(m map[string]string) []string {
	v := reflect.ValueOf(m)
	if m == nil {
		return nil
	}
	keys := make([]string, 0, len(m))
	for _, k := range v.MapKeys() {
		keys = append(keys, k.String())
	}
	// insertion sort: tiny
	for i := 1; i < len(keys); i++ {
		for j := i; j > 0 && keys[j] < keys[j-1]; j-- {
			keys[j], keys[j-1] = keys[j-1], keys[j]
		}
	}
	return keys
}

func bit(b bool) string {
	if b {
		return "1"
	}
	return "0"
}

func runEq(out *common.Out, a, b, c *api.Pin) {
	dump := func(p *api.Pin) string { return wire.FormatKVs(wire.Flatten(reflect.ValueOf(p).Elem())) }
	in := dump(a) + " | " + dump(b) + " | " + dump(c)
	var res string
	_, pan := guarded("Equals", func() error {
		a2 := copyPin(a)
		pinBits := bit(a.Equals(b)) + bit(b.Equals(a)) + bit(a.Equals(a2)) + bit(b.Equals(c)) + bit(a.Equals(c))
		ao, bo, co, a2o := &a.PinOptions, &b.PinOptions, &c.PinOptions, &a2.PinOptions
		optBits := bit(ao.Equals(bo)) + bit(bo.Equals(ao)) + bit(ao.Equals(a2o)) + bit(bo.Equals(co)) + bit(ao.Equals(co))
		same := bit(a.Equals(a)) + bit(ao.Equals(ao))
		res = pinBits + " " + optBits + " " + same
		return nil
	})
	if pan {
		res = "panic"
	}
	out.Line("C08 eq %s => %s", in, res)
}

func genEq(out *common.Out, r *common.Rng, k int) {
	rec := wire.RecordByName("Pin")
	av := wire.Gen(r, rec)
	a := av.Addr().Interface().(*api.Pin)
	if a.PinUpdate == cid.Undef && r.Chance(1, 3) {
		a.PinUpdate = wire.GenCid(r, 0)
	}
	b := variant(r, a)
	c := variant(r, b)
	runEq(out, a, b, c)
}

func replayEq(out *common.Out, ws []string, line string) {
	parts := strings.Split(strings.Join(ws, " "), " | ")
	if len(parts) != 3 {
		out.Line("# bad corpus line (eq needs three pins): %s", line)
		return
	}
	var pins []*api.Pin
	for _, p := range parts {
		kvs, err := wire.ParseKVs(strings.Fields(p))
		if err != nil {
			out.Line("# bad corpus line (%v): %s", err, line)
			return
		}
		v, err := wire.Unflatten(reflect.TypeOf(api.Pin{}), kvs)
		if err != nil {
			out.Line("# bad corpus line (%v): %s", err, line)
			return
		}
		pin := v.Interface().(api.Pin)
		pins = append(pins, &pin)
	}
	runEq(out, pins[0], pins[1], pins[2])
}
