package main

import (
	"net/url"
	"reflect"
	"strings"

	"github.com/ipfs/ipfs-cluster/api"

	"verifharness/c08/wire"
	"verifharness/common"
)

// Cases aq (part of suite rt): the real api.AddParamsFromQuery on a typed parameter set — the decoder side of
// the add endpoint's query form on its own, including parameter sets ToQueryString never writes: absent
// parameters, the alternative spellings strconv.ParseBool accepts, `+1`, `1_0`, overflowing integers, unknown
// layouts/formats, repeated keys (Values.Get reads the first value), unknown keys.
//
//   C08 aq <the twelve q parameters of the pin options> ; <key>=<string token> ...
//       => err | ok:<same|diff|reerr|repanic> <dump of the AddParams>
//
// After a successful decode the value is written again with ToQueryString and decoded a second time; the token
// after `ok:` says whether the second value has the same dump (clause decoded_reencodes).

type aqCase struct {
	q  qCase
	kv [][2]string // in order; a key may repeat
}

func (c aqCase) String() string {
	parts := []string{c.q.String(), ";"}
	for _, kv := range c.kv {
		parts = append(parts, kv[0]+"="+wire.StrTok(kv[1]))
	}
	return strings.Join(parts, " ")
}

var aqBoolKeys = []string{"local", "recursive", "hidden", "wrap-with-directory", "shard", "progress", "raw-leaves", "stream-channels", "nocopy"}

func runAQ(out *common.Out, c aqCase) {
	res := "panic"
	guarded("aq AddParamsFromQuery", func() error {
		q := buildQuery(c.q)
		for _, kv := range c.kv {
			q.Add(kv[0], kv[1])
		}
		ap, err := api.AddParamsFromQuery(q)
		if err != nil {
			res = "err"
			return nil
		}
		dump := wire.FormatKVs(wire.Flatten(reflect.ValueOf(ap).Elem()))
		re := "repanic"
		guarded("aq re-encode", func() error {
			qs, err := ap.ToQueryString()
			if err != nil {
				re = "reerr"
				return nil
			}
			q2, err := url.ParseQuery(qs)
			if err != nil {
				re = "reerr"
				return nil
			}
			ap2, err := api.AddParamsFromQuery(q2)
			if err != nil {
				re = "reerr"
				return nil
			}
			if wire.FormatKVs(wire.Flatten(reflect.ValueOf(ap2).Elem())) == dump {
				re = "same"
			} else {
				re = "diff"
			}
			return nil
		})
		res = "ok:" + re + " " + dump
		return nil
	})
	out.Line("C08 aq %s => %s", c, res)
}

var (
	aqTrue     = []string{"true", "1", "t", "T", "TRUE", "True"}
	aqFalse    = []string{"false", "0", "f", "F", "FALSE", "False"}
	aqBadBool  = []string{"yes", "tRUE", "2", "-1", " true", "true ", "01", "on", "TrUe", "fALSE", "no", "null"}
	aqInts     = []string{"0", "1", "1", "2", "-1", "+1", "+0", "-0", "01", "007", "+2", "9223372036854775807", "-9223372036854775808", "3", "00"}
	aqBadInts  = []string{"1_0", "1_000", "_1", "0x1", "1e3", "9223372036854775808", "-9223372036854775809", "99999999999999999999", "+", "-", "+-1", "-+1", "--1", " 1", "1 ", "1.0", "one", "0b1", "0_0"}
	aqLayouts  = []string{"", "trickle", "balanced", "trickle", "balanced"}
	aqBadLay   = []string{"Trickle", "flat", " balanced", "BALANCED"}
	aqFormats  = []string{"", "car", "unixfs", "car", "unixfs"}
	aqBadFmt   = []string{"CAR", "tar", "unixfs ", "Unixfs"}
	aqChunkers = []string{"", "size-262144", "size-1", "rabin-16-32-64", "rabin", "a b&c=d", "size-262144 "}
	aqHashes   = []string{"", "sha2-256", "SHA2-256", "Sha2-256", "sha2-512", "sha3-512", "blake2b-256", "sha2-256 ", "sha2_256", "identity", "x"}
)

func pick(r *common.Rng, l []string) string { return l[r.Intn(len(l))] }

// genAQ: pin-option parameters as in the q cases (made acceptable in 3 of 4 cases so that the add parameters
// are reached), then each add parameter absent / a value ToQueryString writes / an alternative accepted spelling /
// (in "dirty" cases) an unacceptable one.
func genAQ(r *common.Rng) aqCase {
	c := aqCase{q: genQ(r)}
	if r.Chance(3, 4) {
		if m := c.q.kv["mode"]; m != "~recursive" && m != "~direct" && m != "~" && m != "-" {
			c.q.kv["mode"] = "-"
		}
		for _, k := range []string{"repl", "rmin", "rmax", "shard"} {
			if c.q.kv[k] == "bad" {
				c.q.kv[k] = "-"
			}
		}
		if strings.Contains(c.q.kv["ua"], "p-") || strings.Contains(c.q.kv["ua"], "p!") {
			c.q.kv["ua"] = "-"
		}
		if c.q.kv["expin"] == "bad" {
			c.q.kv["expin"] = "-"
		}
		if strings.Contains(c.q.kv["orig"], "mn") {
			c.q.kv["orig"] = "-"
		}
	}
	dirty := r.Chance(1, 3)
	bad := func(n int) bool { return dirty && r.Intn(n) == 0 }
	add := func(k, v string) { c.kv = append(c.kv, [2]string{k, v}) }
	if r.Chance(1, 12) {
		return c // nothing but the pin options: every default
	}
	keys := []string{"layout", "chunker", "hash", "format", "cid-version"}
	keys = append(keys, aqBoolKeys...)
	// the order of the parameters in the query must not matter: shuffle
	for i := len(keys) - 1; i > 0; i-- {
		j := r.Intn(i + 1)
		keys[i], keys[j] = keys[j], keys[i]
	}
	for _, k := range keys {
		if r.Chance(2, 5) {
			continue // absent
		}
		switch k {
		case "layout":
			if bad(6) {
				add(k, pick(r, aqBadLay))
			} else {
				add(k, pick(r, aqLayouts))
			}
		case "format":
			if bad(6) {
				add(k, pick(r, aqBadFmt))
			} else {
				add(k, pick(r, aqFormats))
			}
		case "chunker":
			add(k, pick(r, aqChunkers))
		case "hash":
			add(k, pick(r, aqHashes))
		case "cid-version":
			if bad(5) {
				add(k, pick(r, aqBadInts))
			} else if r.Chance(1, 6) {
				add(k, "")
			} else {
				add(k, pick(r, aqInts))
			}
		default:
			switch {
			case bad(12):
				add(k, pick(r, aqBadBool))
			case r.Chance(1, 10):
				add(k, "")
			case r.Chance(1, 2):
				add(k, pick(r, aqTrue))
			default:
				add(k, pick(r, aqFalse))
			}
		}
	}
	// a repeated key: Values.Get reads the first value only (the second may be unacceptable)
	if len(c.kv) > 0 && r.Chance(1, 6) {
		k := c.kv[r.Intn(len(c.kv))][0]
		add(k, pick(r, []string{"true", "false", "x", "1", "0", "", "car", "trickle", "sha2-256", "-7"}))
	}
	if r.Chance(1, 10) {
		add(pick(r, []string{"foo", "Shard", "cid_version", "rawleaves", "raw-leaves2"}), pick(r, []string{"true", "x", "1"}))
	}
	return c
}

func parseAQ(ws []string) (aqCase, bool) {
	sep := -1
	for i, w := range ws {
		if w == ";" {
			sep = i
			break
		}
	}
	if sep < 0 {
		return aqCase{}, false
	}
	q, ok := parseQ(ws[:sep])
	if !ok {
		return aqCase{}, false
	}
	c := aqCase{q: q}
	for _, w := range ws[sep+1:] {
		i := strings.IndexByte(w, '=')
		if i <= 0 {
			return c, false
		}
		v, err := wire.ParseStrTok(w[i+1:])
		if err != nil {
			return c, false
		}
		c.kv = append(c.kv, [2]string{w[:i], v})
	}
	return c, true
}
