package wire

import (
	"reflect"

	"github.com/ipfs/ipfs-cluster/api"
	"github.com/ipfs/ipfs-cluster/consensus/raft"
)

// Formats. msgpack = ugorji MsgpackHandle{} as go-libp2p-gorpc and dsstate use it;
// msgpackraft = go-libp2p-raft's op codec (decoder with ErrorIfNoField);
// proto = Pin.ProtoMarshal/ProtoUnmarshal; query = ToQuery/FromQuery (PinOptions),
// ToQueryString/AddParamsFromQuery (AddParams).
const (
	FProto       = "proto"
	FMsgpack     = "msgpack"
	FMsgpackRaft = "msgpackraft"
	FJSON        = "json"
	FQuery       = "query"
	FSnapshot    = "snapshot" // dsstate.State.Marshal -> Unmarshal -> List (serialEntry in msgpack, pins in protobuf)
)

// Snapshot is the harness's own record for a state dump: the pins of a state, sorted by CID.
type Snapshot struct{ Pins []api.Pin }

// SnapshotRecord is not part of Records (it is no struct of the repository, the schema table does not list it).
var SnapshotRecord = Record{"Snapshot", reflect.TypeOf(Snapshot{}), []string{FSnapshot}}

// Record is one wire record: a struct type and the formats the system uses for it.
// The format lists are hand-written from reading the callers (RPC argument and
// reply types in rpc_api.go, REST responses in api/rest, state export in
// cmdutils/state.go, the Raft log in consensus/raft); they are part of the
// trusted base of the schema theorems.
type Record struct {
	Name    string
	Type    reflect.Type
	Formats []string
}

// Records lists every wire record.
var Records = []Record{
	{"Pin", reflect.TypeOf(api.Pin{}), []string{FProto, FMsgpack, FMsgpackRaft, FJSON}},
	{"PinOptions", reflect.TypeOf(api.PinOptions{}), []string{FQuery, FMsgpack, FJSON}},
	{"PinPath", reflect.TypeOf(api.PinPath{}), []string{FMsgpack, FJSON}},
	{"PinInfoShort", reflect.TypeOf(api.PinInfoShort{}), []string{FMsgpack, FJSON}},
	{"PinInfo", reflect.TypeOf(api.PinInfo{}), []string{FMsgpack, FJSON}},
	{"GlobalPinInfo", reflect.TypeOf(api.GlobalPinInfo{}), []string{FMsgpack, FJSON}},
	{"IPFSID", reflect.TypeOf(api.IPFSID{}), []string{FMsgpack, FJSON}},
	{"ID", reflect.TypeOf(api.ID{}), []string{FMsgpack, FJSON}},
	{"Metric", reflect.TypeOf(api.Metric{}), []string{FMsgpack, FJSON}},
	{"Alert", reflect.TypeOf(api.Alert{}), []string{FMsgpack, FJSON}},
	{"AddedOutput", reflect.TypeOf(api.AddedOutput{}), []string{FMsgpack, FJSON}},
	{"IPFSAddParams", reflect.TypeOf(api.IPFSAddParams{}), []string{FMsgpack}},
	{"AddParams", reflect.TypeOf(api.AddParams{}), []string{FMsgpack, FQuery}},
	{"IPFSRepoGC", reflect.TypeOf(api.IPFSRepoGC{}), []string{FMsgpack, FJSON}},
	{"RepoGC", reflect.TypeOf(api.RepoGC{}), []string{FMsgpack, FJSON}},
	{"GlobalRepoGC", reflect.TypeOf(api.GlobalRepoGC{}), []string{FMsgpack, FJSON}},
	{"IPFSRepoStat", reflect.TypeOf(api.IPFSRepoStat{}), []string{FMsgpack}},
	{"NodeWithMeta", reflect.TypeOf(api.NodeWithMeta{}), []string{FMsgpack}},
	{"ConnectGraph", reflect.TypeOf(api.ConnectGraph{}), []string{FMsgpack, FJSON}},
	{"Error", reflect.TypeOf(api.Error{}), []string{FMsgpack, FJSON}},
	{"Version", reflect.TypeOf(api.Version{}), []string{FMsgpack, FJSON}},
	{"LogOp", reflect.TypeOf(raft.LogOp{}), []string{FMsgpackRaft}},
}

// RecordByName finds a record.
func RecordByName(n string) *Record {
	if n == SnapshotRecord.Name {
		return &SnapshotRecord
	}
	for i := range Records {
		if Records[i].Name == n {
			return &Records[i]
		}
	}
	return nil
}

// RecordOfType finds the record of a struct type (nil for types outside the table).
func RecordOfType(t reflect.Type) *Record {
	for i := range Records {
		if Records[i].Type == t {
			return &Records[i]
		}
	}
	return nil
}
