// Package wire is shared by the C08 harness and the C08 schema extractor: the
// registry of wire records, the naming tables, the structured-random value
// generator, and the harness's OWN field-by-field dumper (Flatten) and its
// inverse (Unflatten). Nothing here calls the repository's Equals methods.
package wire

import (
	"encoding/hex"
	"fmt"
	"strconv"
	"strings"
	"time"

	cid "github.com/ipfs/go-cid"
	peer "github.com/libp2p/go-libp2p-core/peer"
	multiaddr "github.com/multiformats/go-multiaddr"

	"verifharness/common"
)

// NPeers, NCids, NAddrs bound the naming tables.
const (
	NPeers = 12
	NCids  = 12
	NAddrs = 8
)

var addrTable []multiaddr.Multiaddr

func init() {
	p := func(i int) string { return peer.Encode(common.PeerN(i)) }
	strs := []string{
		"/ip4/127.0.0.1/tcp/9096/p2p/" + p(0),
		"/ip4/1.2.3.4/tcp/4001",
		"/ip6/::1/tcp/4001/p2p/" + p(1),
		"/dns4/example.com/tcp/443/ws/p2p/" + p(2),
		"/dnsaddr/bootstrap.libp2p.io/p2p/" + p(3),
		"/ip4/10.0.0.1/udp/4001",
		"/p2p/" + p(4),
		"/ip4/192.168.1.1/tcp/1234/p2p/" + p(5) + "/p2p-circuit/p2p/" + p(6),
	}
	for _, s := range strs {
		m, err := multiaddr.NewMultiaddr(s)
		if err != nil {
			panic(err)
		}
		addrTable = append(addrTable, m)
	}
}

// AddrN is the n-th multiaddress of the naming table.
func AddrN(n int) multiaddr.Multiaddr { return addrTable[n%NAddrs] }

// HasP2P is the harness's own test for a /p2p/ component.
func HasP2P(m multiaddr.Multiaddr) bool {
	if m == nil {
		return false
	}
	for _, pr := range m.Protocols() {
		if pr.Code == multiaddr.P_P2P {
			return true
		}
	}
	return false
}

// Pct percent-encodes every byte outside [A-Za-z0-9_].
func Pct(s string) string {
	var b strings.Builder
	for i := 0; i < len(s); i++ {
		c := s[i]
		if c >= 'a' && c <= 'z' || c >= 'A' && c <= 'Z' || c >= '0' && c <= '9' || c == '_' {
			b.WriteByte(c)
		} else {
			fmt.Fprintf(&b, "%%%02X", c)
		}
	}
	return b.String()
}

// Unpct inverts Pct.
func Unpct(s string) (string, error) {
	var b strings.Builder
	for i := 0; i < len(s); i++ {
		if s[i] == '%' {
			if i+2 >= len(s) {
				return "", fmt.Errorf("bad escape")
			}
			v, err := strconv.ParseUint(s[i+1:i+3], 16, 8)
			if err != nil {
				return "", err
			}
			b.WriteByte(byte(v))
			i += 2
		} else {
			b.WriteByte(s[i])
		}
	}
	return b.String(), nil
}

// StrTok is the token of a Go string.
func StrTok(s string) string { return "~" + Pct(s) }

// ParseStrTok inverts StrTok.
func ParseStrTok(t string) (string, error) {
	if !strings.HasPrefix(t, "~") {
		return "", fmt.Errorf("not a string token: %q", t)
	}
	return Unpct(t[1:])
}

// CidTok names a CID by its table index.
func CidTok(c cid.Cid) string {
	if !c.Defined() {
		return "c-"
	}
	if i := common.CidIndex(c, NCids); i >= 0 {
		return "c" + strconv.Itoa(i)
	}
	return "c?" + Pct(c.String())
}

// ParseCidTok inverts CidTok.
func ParseCidTok(t string) (cid.Cid, error) {
	switch {
	case t == "c-":
		return cid.Undef, nil
	case strings.HasPrefix(t, "c?"):
		s, err := Unpct(t[2:])
		if err != nil {
			return cid.Undef, err
		}
		return cid.Decode(s)
	case strings.HasPrefix(t, "c"):
		i, err := strconv.Atoi(t[1:])
		if err != nil || i < 0 {
			return cid.Undef, fmt.Errorf("bad cid token %q", t)
		}
		return common.CidN(i), nil
	}
	return cid.Undef, fmt.Errorf("bad cid token %q", t)
}

// PeerTok names a peer ID by its table index.
func PeerTok(p peer.ID) string {
	if p == "" {
		return "p-"
	}
	if i := common.PeerIndex(p, NPeers); i >= 0 {
		return "p" + strconv.Itoa(i)
	}
	return "p?" + hex.EncodeToString([]byte(p))
}

// ParsePeerTok inverts PeerTok.
func ParsePeerTok(t string) (peer.ID, error) {
	switch {
	case t == "p-":
		return "", nil
	case strings.HasPrefix(t, "p?"):
		b, err := hex.DecodeString(t[2:])
		return peer.ID(b), err
	case strings.HasPrefix(t, "p"):
		i, err := strconv.Atoi(t[1:])
		if err != nil || i < 0 {
			return "", fmt.Errorf("bad peer token %q", t)
		}
		return common.PeerN(i), nil
	}
	return "", fmt.Errorf("bad peer token %q", t)
}

// AddrTok names a multiaddress: mp<i> (has /p2p/), mn<i> (has none), m- nil.
func AddrTok(m multiaddr.Multiaddr) string {
	if m == nil {
		return "m-"
	}
	k := "mn"
	if HasP2P(m) {
		k = "mp"
	}
	for i, a := range addrTable {
		if a.Equal(m) {
			return k + strconv.Itoa(i)
		}
	}
	return k + "?" + Pct(m.String())
}

// ParseAddrTok inverts AddrTok.
func ParseAddrTok(t string) (multiaddr.Multiaddr, error) {
	if t == "m-" {
		return nil, nil
	}
	if len(t) < 3 || t[0] != 'm' {
		return nil, fmt.Errorf("bad addr token %q", t)
	}
	if t[2] == '?' {
		s, err := Unpct(t[3:])
		if err != nil {
			return nil, err
		}
		return multiaddr.NewMultiaddr(s)
	}
	i, err := strconv.Atoi(t[2:])
	if err != nil || i < 0 {
		return nil, fmt.Errorf("bad addr token %q", t)
	}
	return AddrN(i), nil
}

// TimeTok is t<unix seconds>.<nanoseconds>: the instant only, no location.
func TimeTok(t time.Time) string {
	return "t" + strconv.FormatInt(t.Unix(), 10) + "." + strconv.Itoa(t.Nanosecond())
}

// ParseTimeTok inverts TimeTok (UTC location).
func ParseTimeTok(s string) (time.Time, error) {
	if !strings.HasPrefix(s, "t") {
		return time.Time{}, fmt.Errorf("bad time token %q", s)
	}
	parts := strings.SplitN(s[1:], ".", 2)
	if len(parts) != 2 {
		return time.Time{}, fmt.Errorf("bad time token %q", s)
	}
	sec, err := strconv.ParseInt(parts[0], 10, 64)
	if err != nil {
		return time.Time{}, err
	}
	ns, err := strconv.Atoi(parts[1])
	if err != nil || ns < 0 || ns > 999999999 {
		return time.Time{}, fmt.Errorf("bad time token %q", s)
	}
	if sec == -62135596800 && ns == 0 {
		return time.Time{}, nil
	}
	return time.Unix(sec, int64(ns)).UTC(), nil
}
