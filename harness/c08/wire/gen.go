package wire

import (
	"reflect"
	"strings"
	"time"

	cid "github.com/ipfs/go-cid"
	"github.com/ipfs/ipfs-cluster/api"
	peer "github.com/libp2p/go-libp2p-core/peer"
	multiaddr "github.com/multiformats/go-multiaddr"

	"verifharness/common"
)

// OddStrings: names and metadata with characters that need escaping somewhere
// (query string, JSON, the case-line protocol). All valid UTF-8.
var OddStrings = []string{
	"", "a", "pin-1", "name with spaces", "a&b=c", "100%", "x+y", "é日本語", "tab\there", "nl\nx",
	"q?#/;", "\"quoted\"", "back\\slash", "null", "-", "~", "meta-", "k:v,w", "\x00nul", "<&>",
	"%41", "a=b&name=evil", " lead", "trail ", strings.Repeat("long", 70),
}

var plainStrings = []string{"", "a", "peer-one", "v1.2.3", "go-ipfs", "some error: boom", "freespace", "ping", "1234567"}

func pick(r *common.Rng, l []string) string { return l[r.Intn(len(l))] }

// GenString draws a string; odd=true from the escaping pool.
func GenString(r *common.Rng, odd bool) string {
	if odd || r.Chance(1, 4) {
		return pick(r, OddStrings)
	}
	return pick(r, plainStrings)
}

// GenTime draws an expiry/timestamp: zero, unix-zero, future or past, with and without a sub-second part.
func GenTime(r *common.Rng) time.Time {
	var t time.Time
	switch r.Intn(10) {
	case 0, 1:
		return time.Time{}
	case 2:
		return time.Unix(0, 0)
	case 3:
		t = time.Unix(1900000000+int64(r.Intn(1000000)), 0)
	case 4, 5:
		t = time.Unix(1900000000+int64(r.Intn(1000000)), int64(1+r.Intn(999999999)))
	case 6:
		t = time.Unix(1500000000+int64(r.Intn(1000000)), int64(r.Intn(2))*123456789) // past
	case 7:
		t = time.Unix(-int64(1+r.Intn(100000)), int64(r.Intn(2))*500) // before the epoch
	case 8:
		t = time.Unix(0, int64(1+r.Intn(999999999))) // inside the first second
	default:
		t = time.Unix(4102444800+int64(r.Intn(100)), int64(r.Intn(2))*999999999) // year 2100
	}
	switch r.Intn(4) {
	case 0:
		return t.UTC()
	case 1:
		return t.In(time.FixedZone("x", 3600*(r.Intn(25)-12)))
	default:
		return t
	}
}

var (
	trackerSingles = []api.TrackerStatus{
		api.TrackerStatusClusterError, api.TrackerStatusPinError, api.TrackerStatusUnpinError, api.TrackerStatusPinned,
		api.TrackerStatusPinning, api.TrackerStatusUnpinning, api.TrackerStatusUnpinned, api.TrackerStatusRemote,
		api.TrackerStatusPinQueued, api.TrackerStatusUnpinQueued, api.TrackerStatusSharded, api.TrackerStatusUnexpectedlyUnpinned,
	}
)

// GenTrackerStatus: mostly single statuses; undefined, named composites, filters; rarely the unused bit 0.
func GenTrackerStatus(r *common.Rng) api.TrackerStatus {
	if NamedStatusOnly {
		return append(trackerSingles, api.TrackerStatusUndefined, api.TrackerStatusError, api.TrackerStatusQueued)[r.Intn(len(trackerSingles)+3)]
	}
	switch x := r.Intn(20); {
	case x < 12:
		return trackerSingles[r.Intn(len(trackerSingles))]
	case x == 12:
		return api.TrackerStatusUndefined
	case x == 13:
		return api.TrackerStatusError
	case x == 14:
		return api.TrackerStatusQueued
	case x < 19:
		var st api.TrackerStatus
		for _, s := range trackerSingles {
			if r.Chance(1, 3) {
				st |= s
			}
		}
		return st
	default:
		return api.TrackerStatus(1) | trackerSingles[r.Intn(len(trackerSingles))]*api.TrackerStatus(r.Intn(2))
	}
}

// NamedStatusOnly restricts tracker statuses to the named ones, whose String() is one fixed word
// (a filter's String() lists names in random map order; the fuzz suite needs byte-identical seeds).
var NamedStatusOnly bool

// Clean makes the generator stay inside the well-formed value space (used where one case holds many pins).
var Clean bool

func genInt(r *common.Rng, name string) int64 {
	switch name {
	case "MaxDepth":
		if !Clean && r.Chance(1, 25) {
			return []int64{5, -2, 1 << 31, -(1 << 31) - 1}[r.Intn(4)]
		}
		return []int64{-1, -1, 0, 1, 2}[r.Intn(5)]
	case "ReplicationFactorMin", "ReplicationFactorMax":
		if !Clean && r.Chance(1, 25) {
			return []int64{1 << 31, -(1 << 31) - 1, 1 << 40}[r.Intn(3)]
		}
		return []int64{-1, 0, 0, 1, 2, 3, 5, 1<<31 - 1, -(1 << 31)}[r.Intn(9)]
	case "Mode":
		if !Clean && r.Chance(1, 30) {
			return []int64{2, -1}[r.Intn(2)]
		}
		return int64(r.Intn(2))
	case "Type": // raft LogOpType
		return []int64{1, 2, 1, 2, 0, 3}[r.Intn(6)]
	case "Status":
		return int64(GenTrackerStatus(r))
	case "CidVersion":
		return int64(r.Intn(2))
	}
	return []int64{0, 1, -1, 2, 7, 404, 1<<31 - 1, -(1 << 31), 1<<63 - 1, -(1 << 63), int64(r.Next() >> 20)}[r.Intn(11)]
}

func genUint(r *common.Rng, name string, bits int) uint64 {
	if name == "Type" { // api.PinType
		if !Clean && r.Chance(1, 20) {
			return []uint64{0, uint64(api.AllType), 6, 32, 1 << 40}[r.Intn(5)]
		}
		return []uint64{uint64(api.DataType), uint64(api.DataType), uint64(api.MetaType), uint64(api.ClusterDAGType), uint64(api.ShardType), uint64(api.BadType)}[r.Intn(6)]
	}
	v := []uint64{0, 0, 1, 2, 255, 100 * 1024 * 1024, 1 << 31, 1<<32 - 1, 1 << 63, 1<<64 - 1, r.Next()}[r.Intn(11)]
	if bits < 64 {
		v &= 1<<uint(bits) - 1
	}
	return v
}

// GenCid draws a table CID (both CID versions) or, with probability undefPct/100, cid.Undef.
func GenCid(r *common.Rng, undefPct int) cid.Cid {
	if r.Chance(undefPct, 100) {
		return cid.Undef
	}
	return common.CidN(r.Intn(NCids))
}

// Gen draws a value of the record's type.
func Gen(r *common.Rng, rec *Record) reflect.Value {
	v := reflect.New(rec.Type).Elem()
	genInto(r, v, "", 0)
	fixup(r, v)
	return v
}

// fixup restores the invariants real constructors establish, for most cases.
func fixup(r *common.Rng, v reflect.Value) {
	switch p := v.Addr().Interface().(type) {
	case *api.Pin:
		fixPin(r, p)
	case *api.AddParams:
		if r.Chance(9, 10) {
			p.Layout = []string{"", "trickle", "balanced"}[r.Intn(3)]
			p.Format = []string{"", "car", "unixfs"}[r.Intn(3)]
			p.PinUpdate = cid.Undef
		}
		if r.Chance(9, 10) {
			p.Chunker = []string{"size-262144", "rabin-1-2-3", "size-1"}[r.Intn(3)]
			p.HashFun = []string{"sha2-256", "blake2b-256"}[r.Intn(2)]
		}
		if r.Chance(9, 10) && p.CidVersion > 0 && r.Chance(1, 2) {
			p.RawLeaves = true
		}
		if r.Chance(9, 10) && p.HashFun != "sha2-256" {
			p.CidVersion = []int{1, 1, 1, 2, -1}[r.Intn(5)] // a CIDv0 only carries sha2-256; the server refuses the combination (any other version is taken as given)
		}
	}
	if v.Type().Kind() == reflect.Struct {
		if f := v.FieldByName("Cid"); f.IsValid() && f.Type() == reflect.TypeOf(&api.Pin{}) && !f.IsNil() {
			fixPin(r, f.Interface().(*api.Pin))
		}
	}
}

func fixPin(r *common.Rng, p *api.Pin) {
	// Mode and MaxDepth linked as PinWithOpts does, for most pins; the sharding adder's
	// shapes (mode recursive, depth 0 for cluster-DAG and meta pins) for some.
	switch x := r.Intn(20); {
	case x < 15:
		if p.MaxDepth == 0 {
			p.Mode = api.PinModeDirect
		} else if p.Mode == api.PinModeDirect {
			p.Mode = api.PinModeRecursive
		}
	case x < 17:
		p.Mode = api.PinModeRecursive
		p.MaxDepth = 0
		p.Type = []api.PinType{api.ClusterDAGType, api.MetaType}[r.Intn(2)]
		if p.Reference == nil {
			c := common.CidN(r.Intn(NCids))
			p.Reference = &c
		}
	}
}

func genInto(r *common.Rng, v reflect.Value, name string, depth int) {
	t := v.Type()
	switch t {
	case TCid:
		undef := 50
		if name == "Cid" {
			undef = 4
		}
		v.Set(reflect.ValueOf(GenCid(r, undef)))
		return
	case TPeer:
		if !Clean && r.Chance(1, 20) {
			return // empty peer ID
		}
		v.Set(reflect.ValueOf(common.PeerN(r.Intn(NPeers))))
		return
	case TTime:
		v.Set(reflect.ValueOf(GenTime(r)))
		return
	case TAPIAddr:
		v.Set(reflect.ValueOf(api.Multiaddr{Multiaddr: AddrN(r.Intn(NAddrs))}))
		return
	case TAddr:
		var m multiaddr.Multiaddr
		if r.Chance(4, 5) {
			m = AddrN([]int{0, 2, 3, 4, 6, 7}[r.Intn(6)]) // with /p2p/
		} else {
			m = AddrN(r.Intn(NAddrs))
		}
		v.Set(reflect.ValueOf(m))
		return
	}
	switch t.Kind() {
	case reflect.Bool:
		v.SetBool(r.Bool())
	case reflect.Int, reflect.Int8, reflect.Int16, reflect.Int32, reflect.Int64:
		x := genInt(r, name)
		if t.Bits() < 64 {
			x = x << uint(64-t.Bits()) >> uint(64-t.Bits())
		}
		v.SetInt(x)
	case reflect.Uint, reflect.Uint8, reflect.Uint16, reflect.Uint32, reflect.Uint64:
		v.SetUint(genUint(r, name, t.Bits()))
	case reflect.String:
		v.SetString(GenString(r, name == "Name" || name == "Path"))
	case reflect.Float32, reflect.Float64:
		v.SetFloat(float64(r.Intn(1000)) / 8)
	case reflect.Array:
		for i := 0; i < v.Len(); i++ {
			genInto(r, v.Index(i), name, depth+1)
		}
	case reflect.Slice:
		n := 0
		switch name {
		case "Allocations", "UserAllocations":
			n = r.Intn(5) // 0-4
		case "Origins":
			n = []int{0, 0, 0, 1, 2, 3}[r.Intn(6)]
		default:
			n = []int{0, 0, 1, 2, 3}[r.Intn(5)]
		}
		if t.Elem().Kind() == reflect.Uint8 {
			n = []int{0, 0, 1, 5, 40}[r.Intn(5)]
		}
		if n == 0 {
			if r.Bool() {
				v.Set(reflect.MakeSlice(t, 0, 0)) // empty, not nil
			}
			return
		}
		s := reflect.MakeSlice(t, n, n)
		for i := 0; i < n; i++ {
			if t.Elem() == TPeer { // the empty peer ID inside a list: a boundary value, kept rare
				if !Clean && r.Chance(1, 25) {
					continue
				}
				s.Index(i).Set(reflect.ValueOf(common.PeerN(r.Intn(NPeers))))
			} else {
				genInto(r, s.Index(i), name, depth+1)
			}
		}
		v.Set(s)
	case reflect.Map:
		n := []int{0, 0, 1, 2, 3}[r.Intn(5)]
		if n == 0 {
			if r.Bool() {
				v.Set(reflect.MakeMap(t))
			}
			return
		}
		m := reflect.MakeMap(t)
		for i := 0; i < n; i++ {
			var k string
			switch {
			case name == "Metadata":
				k = []string{"", "k", "key two", "a&b", "é", "K", "meta-x", "=", "k%20"}[r.Intn(9)]
			case r.Chance(3, 4):
				k = peer.Encode(common.PeerN(r.Intn(NPeers)))
			default:
				k = pick(r, OddStrings)
			}
			ev := reflect.New(t.Elem()).Elem()
			if t.Elem().Kind() == reflect.Ptr {
				if !Clean && r.Chance(1, 20) { // a nil pointer as map value
					m.SetMapIndex(reflect.ValueOf(k).Convert(t.Key()), ev)
					continue
				}
				ev.Set(reflect.New(t.Elem().Elem()))
				genInto(r, ev.Elem(), name, depth+1)
			} else if t.Elem() == reflect.TypeOf("") {
				ev.SetString(pick(r, OddStrings))
			} else {
				genInto(r, ev, name, depth+1)
			}
			m.SetMapIndex(reflect.ValueOf(k).Convert(t.Key()), ev)
		}
		v.Set(m)
	case reflect.Ptr:
		if t.Elem() == TTracestate {
			return
		}
		nilPct := 40
		if t.Elem() == reflect.TypeOf(api.Pin{}) {
			nilPct = 5
		}
		if r.Chance(nilPct, 100) {
			return
		}
		p := reflect.New(t.Elem())
		if t.Elem() == TCid {
			// a non-nil pointer to cid.Undef (what the first shard pin of a sharded add carried) for some
			if Clean || !r.Chance(1, 10) {
				p.Elem().Set(reflect.ValueOf(common.CidN(r.Intn(NCids))))
			}
		} else {
			genInto(r, p.Elem(), name, depth+1)
		}
		v.Set(p)
	case reflect.Struct:
		for i := 0; i < t.NumField(); i++ {
			f := t.Field(i)
			if f.PkgPath != "" {
				continue
			}
			genInto(r, v.Field(i), f.Name, depth+1)
		}
	default:
		panic("gen: unsupported kind " + t.String())
	}
}

// TrimMaps keeps only the smallest key of every map inside v: the encoders write
// maps in Go's random iteration order, and the fuzz suite needs byte-identical seed encodings.
func TrimMaps(v reflect.Value) {
	switch v.Kind() {
	case reflect.Ptr:
		if !v.IsNil() {
			TrimMaps(v.Elem())
		}
	case reflect.Struct:
		if IsLeaf(v.Type()) {
			return
		}
		for i := 0; i < v.NumField(); i++ {
			if v.Type().Field(i).PkgPath == "" {
				TrimMaps(v.Field(i))
			}
		}
	case reflect.Slice:
		if IsLeaf(v.Type()) {
			return
		}
		if v.Type().Elem() == reflect.TypeOf(api.Pin{}) && v.Len() > 1 { // a state dump lists its pins in datastore order
			v.Set(v.Slice(0, 1))
		}
		for i := 0; i < v.Len(); i++ {
			TrimMaps(v.Index(i))
		}
	case reflect.Map:
		keys := sortedKeys(v)
		for _, k := range keys[minInt(1, len(keys)):] {
			v.SetMapIndex(reflect.ValueOf(k).Convert(v.Type().Key()), reflect.Value{})
		}
		for _, k := range v.MapKeys() {
			e := v.MapIndex(k)
			if e.Kind() == reflect.Ptr {
				TrimMaps(e)
			}
		}
	}
}

func minInt(a, b int) int {
	if a < b {
		return a
	}
	return b
}
