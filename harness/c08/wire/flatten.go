package wire

import (
	"encoding/hex"
	"fmt"
	"reflect"
	"sort"
	"strconv"
	"strings"
	"time"

	cid "github.com/ipfs/go-cid"
	"github.com/ipfs/ipfs-cluster/api"
	peer "github.com/libp2p/go-libp2p-core/peer"
	multiaddr "github.com/multiformats/go-multiaddr"
	"go.opencensus.io/trace/tracestate"
)

// Types treated as leaves by the dumper and the generator.
var (
	TCid        = reflect.TypeOf(cid.Cid{})
	TPeer       = reflect.TypeOf(peer.ID(""))
	TTime       = reflect.TypeOf(time.Time{})
	TAPIAddr    = reflect.TypeOf(api.Multiaddr{})
	TAddr       = reflect.TypeOf((*multiaddr.Multiaddr)(nil)).Elem()
	TTracestate = reflect.TypeOf(tracestate.Tracestate{})
)

// KV is one dumped field.
type KV struct{ K, V string }

// IsLeaf says whether the dumper prints values of this type as one token.
func IsLeaf(t reflect.Type) bool {
	switch t {
	case TCid, TPeer, TTime, TAPIAddr, TAddr:
		return true
	}
	switch t.Kind() {
	case reflect.Bool, reflect.Int, reflect.Int8, reflect.Int16, reflect.Int32, reflect.Int64,
		reflect.Uint, reflect.Uint8, reflect.Uint16, reflect.Uint32, reflect.Uint64, reflect.String,
		reflect.Float32, reflect.Float64:
		return true
	case reflect.Slice, reflect.Array:
		return t.Elem().Kind() == reflect.Uint8
	}
	return false
}

// LeafTok prints a leaf value.
func LeafTok(v reflect.Value) string {
	t := v.Type()
	switch t {
	case TCid:
		return CidTok(v.Interface().(cid.Cid))
	case TPeer:
		return PeerTok(v.Interface().(peer.ID))
	case TTime:
		return TimeTok(v.Interface().(time.Time))
	case TAPIAddr:
		return AddrTok(v.Interface().(api.Multiaddr).Multiaddr)
	case TAddr:
		if v.IsNil() {
			return "m-"
		}
		return AddrTok(v.Interface().(multiaddr.Multiaddr))
	}
	switch t.Kind() {
	case reflect.Bool:
		if v.Bool() {
			return "1"
		}
		return "0"
	case reflect.Int, reflect.Int8, reflect.Int16, reflect.Int32, reflect.Int64:
		return strconv.FormatInt(v.Int(), 10)
	case reflect.Uint, reflect.Uint8, reflect.Uint16, reflect.Uint32, reflect.Uint64:
		return strconv.FormatUint(v.Uint(), 10)
	case reflect.String:
		return StrTok(v.String())
	case reflect.Float32, reflect.Float64:
		return "f" + strconv.FormatFloat(v.Float(), 'g', -1, 64)
	case reflect.Slice:
		return "x" + hex.EncodeToString(v.Bytes())
	case reflect.Array:
		b := make([]byte, v.Len())
		for i := range b {
			b[i] = byte(v.Index(i).Uint())
		}
		return "x" + hex.EncodeToString(b)
	}
	panic("LeafTok: not a leaf: " + t.String())
}

// ParseLeaf inverts LeafTok for type t.
func ParseLeaf(t reflect.Type, tok string) (reflect.Value, error) {
	out := reflect.New(t).Elem()
	switch t {
	case TCid:
		c, err := ParseCidTok(tok)
		out.Set(reflect.ValueOf(c))
		return out, err
	case TPeer:
		p, err := ParsePeerTok(tok)
		out.Set(reflect.ValueOf(p))
		return out, err
	case TTime:
		tm, err := ParseTimeTok(tok)
		out.Set(reflect.ValueOf(tm))
		return out, err
	case TAPIAddr:
		m, err := ParseAddrTok(tok)
		out.Set(reflect.ValueOf(api.Multiaddr{Multiaddr: m}))
		return out, err
	case TAddr:
		m, err := ParseAddrTok(tok)
		if m != nil {
			out.Set(reflect.ValueOf(m))
		}
		return out, err
	}
	switch t.Kind() {
	case reflect.Bool:
		if tok != "0" && tok != "1" {
			return out, fmt.Errorf("bad bool %q", tok)
		}
		out.SetBool(tok == "1")
	case reflect.Int, reflect.Int8, reflect.Int16, reflect.Int32, reflect.Int64:
		i, err := strconv.ParseInt(tok, 10, 64)
		if err != nil {
			return out, err
		}
		out.SetInt(i)
	case reflect.Uint, reflect.Uint8, reflect.Uint16, reflect.Uint32, reflect.Uint64:
		u, err := strconv.ParseUint(tok, 10, 64)
		if err != nil {
			return out, err
		}
		out.SetUint(u)
	case reflect.String:
		s, err := ParseStrTok(tok)
		if err != nil {
			return out, err
		}
		out.SetString(s)
	case reflect.Float32, reflect.Float64:
		f, err := strconv.ParseFloat(strings.TrimPrefix(tok, "f"), 64)
		if err != nil {
			return out, err
		}
		out.SetFloat(f)
	case reflect.Slice:
		b, err := hex.DecodeString(strings.TrimPrefix(tok, "x"))
		if err != nil {
			return out, err
		}
		if len(b) > 0 {
			out.SetBytes(b)
		}
	case reflect.Array:
		b, err := hex.DecodeString(strings.TrimPrefix(tok, "x"))
		if err != nil || len(b) != t.Len() {
			return out, fmt.Errorf("bad array token %q", tok)
		}
		for i := range b {
			out.Index(i).SetUint(uint64(b[i]))
		}
	default:
		return out, fmt.Errorf("not a leaf type %s", t)
	}
	return out, nil
}

func sortedKeys(v reflect.Value) []string {
	keys := make([]string, 0, v.Len())
	for _, k := range v.MapKeys() {
		keys = append(keys, k.String())
	}
	sort.Strings(keys)
	return keys
}

func listTok(toks []string) string {
	if len(toks) == 0 {
		return "-"
	}
	return strings.Join(toks, ",")
}

// Flatten is the harness's own field-by-field dump of a value. nil and empty
// slices/maps are printed alike ("-" or "#=-"/"#=0"): the comparison is up to nil-vs-empty.
func Flatten(v reflect.Value) []KV {
	var out []KV
	flatten("", v, &out)
	return out
}

func join(prefix, name string) string {
	if prefix == "" {
		return name
	}
	return prefix + "." + name
}

func flatten(prefix string, v reflect.Value, out *[]KV) {
	t := v.Type()
	if IsLeaf(t) {
		*out = append(*out, KV{prefix, LeafTok(v)})
		return
	}
	switch t.Kind() {
	case reflect.Ptr:
		et := t.Elem()
		if IsLeaf(et) {
			if v.IsNil() {
				*out = append(*out, KV{prefix, "nil"})
			} else {
				*out = append(*out, KV{prefix, LeafTok(v.Elem())})
			}
			return
		}
		if v.IsNil() {
			*out = append(*out, KV{prefix + "?", "0"})
			return
		}
		*out = append(*out, KV{prefix + "?", "1"})
		if et == TTracestate {
			return // opaque (unexported fields only)
		}
		flatten(prefix, v.Elem(), out)
	case reflect.Struct:
		for i := 0; i < t.NumField(); i++ {
			f := t.Field(i)
			if f.PkgPath != "" { // unexported
				continue
			}
			flatten(join(prefix, f.Name), v.Field(i), out)
		}
	case reflect.Slice:
		et := t.Elem()
		if IsLeaf(et) {
			toks := make([]string, v.Len())
			for i := range toks {
				toks[i] = LeafTok(v.Index(i))
			}
			*out = append(*out, KV{prefix, listTok(toks)})
			return
		}
		*out = append(*out, KV{prefix + "#", strconv.Itoa(v.Len())})
		for i := 0; i < v.Len(); i++ {
			flatten(prefix+"["+strconv.Itoa(i)+"]", v.Index(i), out)
		}
	case reflect.Map:
		if t.Key().Kind() != reflect.String {
			panic("Flatten: map key kind " + t.Key().String())
		}
		et := t.Elem()
		keys := sortedKeys(v)
		if IsLeaf(et) {
			toks := make([]string, len(keys))
			for i, k := range keys {
				toks[i] = StrTok(k) + ":" + LeafTok(v.MapIndex(reflect.ValueOf(k).Convert(t.Key())))
			}
			*out = append(*out, KV{prefix, listTok(toks)})
			return
		}
		ktoks := make([]string, len(keys))
		for i, k := range keys {
			ktoks[i] = StrTok(k)
		}
		*out = append(*out, KV{prefix + "#", listTok(ktoks)})
		for _, k := range keys {
			flatten(prefix+"{"+StrTok(k)+"}", v.MapIndex(reflect.ValueOf(k).Convert(t.Key())), out)
		}
	default:
		panic("Flatten: unsupported kind " + t.String())
	}
}

// Unflatten rebuilds a value of type t from a dump (inverse of Flatten up to nil-vs-empty).
func Unflatten(t reflect.Type, kvs []KV) (reflect.Value, error) {
	m := make(map[string]string, len(kvs))
	for _, kv := range kvs {
		m[kv.K] = kv.V
	}
	v := reflect.New(t).Elem()
	err := unflatten("", v, m)
	return v, err
}

func unflatten(prefix string, v reflect.Value, m map[string]string) error {
	t := v.Type()
	if IsLeaf(t) {
		tok, ok := m[prefix]
		if !ok {
			return fmt.Errorf("missing field %s", prefix)
		}
		lv, err := ParseLeaf(t, tok)
		if err != nil {
			return fmt.Errorf("%s: %v", prefix, err)
		}
		v.Set(lv)
		return nil
	}
	switch t.Kind() {
	case reflect.Ptr:
		et := t.Elem()
		if IsLeaf(et) {
			tok, ok := m[prefix]
			if !ok {
				return fmt.Errorf("missing field %s", prefix)
			}
			if tok == "nil" {
				return nil
			}
			lv, err := ParseLeaf(et, tok)
			if err != nil {
				return fmt.Errorf("%s: %v", prefix, err)
			}
			p := reflect.New(et)
			p.Elem().Set(lv)
			v.Set(p)
			return nil
		}
		tok, ok := m[prefix+"?"]
		if !ok {
			return fmt.Errorf("missing field %s?", prefix)
		}
		if tok == "0" {
			return nil
		}
		p := reflect.New(et)
		v.Set(p)
		if et == TTracestate {
			return nil
		}
		return unflatten(prefix, p.Elem(), m)
	case reflect.Struct:
		for i := 0; i < t.NumField(); i++ {
			f := t.Field(i)
			if f.PkgPath != "" {
				continue
			}
			if err := unflatten(join(prefix, f.Name), v.Field(i), m); err != nil {
				return err
			}
		}
		return nil
	case reflect.Slice:
		et := t.Elem()
		if IsLeaf(et) {
			tok, ok := m[prefix]
			if !ok {
				return fmt.Errorf("missing field %s", prefix)
			}
			if tok == "-" {
				return nil
			}
			parts := strings.Split(tok, ",")
			s := reflect.MakeSlice(t, len(parts), len(parts))
			for i, p := range parts {
				lv, err := ParseLeaf(et, p)
				if err != nil {
					return fmt.Errorf("%s: %v", prefix, err)
				}
				s.Index(i).Set(lv)
			}
			v.Set(s)
			return nil
		}
		n, err := strconv.Atoi(m[prefix+"#"])
		if err != nil || n < 0 || n > 1000 {
			return fmt.Errorf("bad length %s#", prefix)
		}
		if n == 0 {
			return nil
		}
		s := reflect.MakeSlice(t, n, n)
		for i := 0; i < n; i++ {
			if err := unflatten(prefix+"["+strconv.Itoa(i)+"]", s.Index(i), m); err != nil {
				return err
			}
		}
		v.Set(s)
		return nil
	case reflect.Map:
		et := t.Elem()
		if IsLeaf(et) {
			tok, ok := m[prefix]
			if !ok {
				return fmt.Errorf("missing field %s", prefix)
			}
			if tok == "-" {
				return nil
			}
			mv := reflect.MakeMap(t)
			for _, p := range strings.Split(tok, ",") {
				kv := strings.SplitN(p, ":", 2)
				if len(kv) != 2 {
					return fmt.Errorf("%s: bad map entry %q", prefix, p)
				}
				k, err := ParseStrTok(kv[0])
				if err != nil {
					return err
				}
				lv, err := ParseLeaf(et, kv[1])
				if err != nil {
					return err
				}
				mv.SetMapIndex(reflect.ValueOf(k).Convert(t.Key()), lv)
			}
			v.Set(mv)
			return nil
		}
		tok, ok := m[prefix+"#"]
		if !ok {
			return fmt.Errorf("missing field %s#", prefix)
		}
		if tok == "-" {
			return nil
		}
		mv := reflect.MakeMap(t)
		for _, kt := range strings.Split(tok, ",") {
			k, err := ParseStrTok(kt)
			if err != nil {
				return err
			}
			ev := reflect.New(et).Elem()
			if err := unflatten(prefix+"{"+kt+"}", ev, m); err != nil {
				return err
			}
			mv.SetMapIndex(reflect.ValueOf(k).Convert(t.Key()), ev)
		}
		v.Set(mv)
		return nil
	}
	return fmt.Errorf("Unflatten: unsupported kind %s", t)
}

// FormatKVs prints a dump as space separated tokens.
func FormatKVs(kvs []KV) string {
	parts := make([]string, len(kvs))
	for i, kv := range kvs {
		parts[i] = kv.K + "=" + kv.V
	}
	return strings.Join(parts, " ")
}

// ParseKVs inverts FormatKVs.
func ParseKVs(toks []string) ([]KV, error) {
	out := make([]KV, 0, len(toks))
	for _, t := range toks {
		i := strings.IndexByte(t, '=')
		if i < 0 {
			return nil, fmt.Errorf("bad field token %q", t)
		}
		out = append(out, KV{t[:i], t[i+1:]})
	}
	return out, nil
}
