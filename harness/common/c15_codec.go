// C15: recognisers for the "parse on load / print on save" statement shapes
// (multiaddresses, peer IDs, keys, the cluster secret, enumerations, the TLS
// path pair, cors_max_age).  They work on the normalised source text of a
// window of consecutive statements: a window either matches one shape as a
// whole (then every JSON-field reference inside it is consumed) or it is left
// to the per-statement matcher of c15_schema.go, whose fallback is "custom".
package common

import (
	"go/ast"
	"go/parser"
	"path/filepath"
	"regexp"
	"strconv"
	"strings"
)

const (
	c15sel    = `[A-Za-z_]\w*(?:\.\w+)+`
	c15id     = `[A-Za-z_]\w*`
	c15errblk = `if err != nil \{ (?:err = fmt\.Errorf\([^{}]*\) )?return (?:err|fmt\.Errorf\([^{}]*\)|errors\.New\([^{}]*\)) \}`
	c15parser = `ma\.NewMultiaddr|peer\.Decode|DecodeClusterSecret`
)

var c15codecOf = map[string]string{"ma.NewMultiaddr": "maddr", "peer.Decode": "peerID", "DecodeClusterSecret": "hexSecret"}

func c15re(s string) *regexp.Regexp { return regexp.MustCompile("^" + s + "$") }

var (
	// x, err := parse(J) ;; if err != nil {…return err} ;; dst = x
	reOne = c15re(`(?P<x>` + c15id + `), err :?= (?P<p>` + c15parser + `)\((?P<j>` + c15sel + `)\) ;; ` + c15errblk + ` ;; (?P<d>` + c15sel + `) = (?P<x2>` + c15id + `)`)
	// if J != "" { x, err := parse(J); if err…; dst = x }
	reOneNE = c15re(`if (?P<j>` + c15sel + `) != "" \{ (?P<x>` + c15id + `), err :?= (?P<p>` + c15parser + `)\((?P<j2>` + c15sel + `)\) ` + c15errblk + ` (?P<d>` + c15sel + `) = (?P<x2>` + c15id + `) \}`)
	// b, err := base64…DecodeString(J) ;; errblk ;; k, err := crypto.UnmarshalPrivateKey(b) ;; errblk ;; dst = k
	reKey   = c15re(`(?P<b>` + c15id + `), err :?= base64\.StdEncoding\.DecodeString\((?P<j>` + c15sel + `)\) ;; ` + c15errblk + ` ;; (?P<x>` + c15id + `), err :?= crypto\.UnmarshalPrivateKey\((?P<b2>` + c15id + `)\) ;; ` + c15errblk + ` ;; (?P<d>` + c15sel + `) = (?P<x2>` + c15id + `)`)
	reKeyNE = c15re(`if (?P<j>` + c15sel + `) != "" \{ (?P<b>` + c15id + `), err :?= base64\.StdEncoding\.DecodeString\((?P<j2>` + c15sel + `)\) ` + c15errblk + ` (?P<x>` + c15id + `), err :?= crypto\.UnmarshalPrivateKey\((?P<b2>` + c15id + `)\) ` + c15errblk + ` (?P<d>` + c15sel + `) = (?P<x2>` + c15id + `) \}`)
	// var l []ma.Multiaddr ;; for _, a := range J { x, err := ma.NewMultiaddr(a); errblk; l = append(l, x) } ;; dst = l
	reList = c15re(`(?:var (?P<l>` + c15id + `) \[\]ma\.Multiaddr|(?P<lb>` + c15id + `) := \[\]ma\.Multiaddr\{\}) ;; for _, (?P<a>` + c15id + `) := range (?P<j>` + c15sel + `) \{ (?P<x>` + c15id + `), err := ma\.NewMultiaddr\((?P<a2>` + c15id + `)\) ` + c15errblk + ` (?P<l2>` + c15id + `) = append\((?P<l3>` + c15id + `), (?P<x2>` + c15id + `)\) \} ;; (?P<d>` + c15sel + `) = (?P<l4>` + c15id + `)`)
	// if as := J; len(as) > 0 { dst = make([]ma.Multiaddr, 0, len(as)); for _, a := range as { x, err := …; errblk; dst = append(dst, x) } }
	reListNE = c15re(`if (?P<as>` + c15id + `) := (?P<j>` + c15sel + `); len\((?P<as2>` + c15id + `)\) > 0 \{ (?P<d>` + c15sel + `) = make\(\[\]ma\.Multiaddr, 0, len\((?P<as3>` + c15id + `)\)\) for _, (?P<a>` + c15id + `) := range (?P<as4>` + c15id + `) \{ (?P<x>` + c15id + `), err := ma\.NewMultiaddr\((?P<a2>` + c15id + `)\) ` + c15errblk + ` (?P<d2>` + c15sel + `) = append\((?P<d3>` + c15sel + `), (?P<x2>` + c15id + `)\) \} \}`)
	reLenient = c15re(`(?P<d>` + c15sel + `) = api\.StringsToPeers\((?P<j>` + c15sel + `)\)`)
	// crdt trusted peers
	reStar = c15re(`(?P<t>` + c15sel + `) = false ;; (?P<d>` + c15sel + `) = \[\]peer\.ID\{\} ;; for _, (?P<a>` + c15id + `) := range (?P<j>` + c15sel + `) \{ if (?P<a2>` + c15id + `) == "\*" \{ (?P<t2>` + c15sel + `) = true (?P<d2>` + c15sel + `) = \[\]peer\.ID\{\} break \} (?P<x>` + c15id + `), err := peer\.Decode\((?P<a3>` + c15id + `)\) ` + c15errblk + ` (?P<d3>` + c15sel + `) = append\((?P<d4>` + c15sel + `), (?P<x2>` + c15id + `)\) \}`)
	reSwitch  = c15re(`switch (?P<j>` + c15sel + `) \{ (?P<cases>(?:case "[^"]*": ` + c15sel + ` = ` + c15id + ` )+)default: return (?:errors\.New|fmt\.Errorf)\([^{}]*\) \}`)
	reCase    = regexp.MustCompile(`case ("[^"]*"): (` + c15sel + `) = (` + c15id + `) `)
	reEmpty0s = c15re(`if (?P<j>` + c15sel + `) == "" \{ (?P<j2>` + c15sel + `) = "0s" \}`)
	reCopyNE  = c15re(`if (?P<x>` + c15id + `) := (?P<j>` + c15sel + `); len\((?P<x2>` + c15id + `)\) > 0 \{ (?P<d>` + c15sel + `) = (?P<x3>` + c15id + `) \}`)
	reTLS     = c15re(`(?P<c>` + c15id + `) := (?P<jc>` + c15sel + `) ;; (?P<k>` + c15id + `) := (?P<jk>` + c15sel + `) ;; if (?P<c2>` + c15id + `)\+(?P<k2>` + c15id + `) == "" \{ return nil \} ;; (?P<dc>` + c15sel + `) = (?P<c3>` + c15id + `) ;; (?P<dk>` + c15sel + `) = (?P<k3>` + c15id + `) ;; if !filepath\.IsAbs\((?P<c4>` + c15id + `)\) \{ (?P<c5>` + c15id + `) = filepath\.Join\(cfg\.BaseDir, (?P<c6>` + c15id + `)\) \} ;; if !filepath\.IsAbs\((?P<k4>` + c15id + `)\) \{ (?P<k5>` + c15id + `) = filepath\.Join\(cfg\.BaseDir, (?P<k6>` + c15id + `)\) \} ;; (?:logger\.Debug\([^;]*\) ;; )*(?P<t>` + c15id + `), err := newTLSConfig\((?P<c7>` + c15id + `), (?P<k7>` + c15id + `)\) ;; ` + c15errblk + ` ;; cfg\.TLS = (?P<t2>` + c15id + `) ;; return nil`)

	// save side
	reSvBuild    = c15re(`(?:var (?P<l>` + c15id + `) ipfsconfig\.Strings|(?P<lb>` + c15id + `) := make\(\[\]string, 0, len\((?P<s0>` + c15sel + `)\)\)) ;; for _, (?P<a>` + c15id + `) := range (?P<s>` + c15sel + `) \{ (?P<l2>` + c15id + `) = append\((?P<l3>` + c15id + `), (?P<a2>` + c15id + `)\.String\(\)\) \}`)
	reSvDirect   = c15re(`(?P<f>` + c15sel + `) = \[\]string\{\} ;; for _, (?P<a>` + c15id + `) := range (?P<s>` + c15sel + `) \{ (?P<f2>` + c15sel + `) = append\((?P<f3>` + c15sel + `), (?P<a2>` + c15id + `)\.String\(\)\) \}`)
	reSvNZEnc    = c15re(`if (?P<s>` + c15sel + `) != "" \{ (?P<f>` + c15sel + `) = peer\.Encode\((?P<s2>` + c15sel + `)\) \}`)
	reSvNZKey    = c15re(`if (?P<s>` + c15sel + `) != nil \{ (?P<b>` + c15id + `), err := (?P<s2>` + c15sel + `)\.Bytes\(\) if err == nil \{ (?P<k>` + c15id + `) := base64\.StdEncoding\.EncodeToString\((?P<b2>` + c15id + `)\) (?P<f>` + c15sel + `) = (?P<k2>` + c15id + `) \} \}`)
	reSvKey      = c15re(`(?P<b>` + c15id + `), err := (?P<s>` + c15sel + `)\.Bytes\(\) ;; if err != nil \{ return \} ;; (?P<k>` + c15id + `) := base64\.StdEncoding\.EncodeToString\((?P<b2>` + c15id + `)\)`)
	reSvListNE   = c15re(`if len\((?P<l>` + c15id + `)\) > 0 \{ (?P<f>` + c15sel + `) = (?P<l2>` + c15id + `) \}`)
	reSvStar     = c15re(`if (?P<t>` + c15sel + `) \{ (?P<f>` + c15sel + `) = \[\]string\{"\*"\} \} else \{ (?P<f2>` + c15sel + `) = api\.PeersToStrings\((?P<s>` + c15sel + `)\) \}`)
	reStringFunc = regexp.MustCompile(`^\{ switch ` + c15id + ` \{ ((?:case ` + c15id + `: return "[^"]*" )+)\} return "" \}$`)
	reStringCase = regexp.MustCompile(`case (` + c15id + `): return ("[^"]*") `)
)

func c15groups(re *regexp.Regexp, s string) map[string]string {
	m := re.FindStringSubmatch(s)
	if m == nil {
		return nil
	}
	g := map[string]string{}
	for i, n := range re.SubexpNames() {
		if n != "" {
			g[n] = m[i]
		}
	}
	return g
}

// same: every group named base, base2, base3 … carries the same text.
func c15same(g map[string]string, bases ...string) bool {
	for _, b := range bases {
		v := g[b]
		for i := 2; i < 9; i++ {
			if w, ok := g[b+strconv.Itoa(i)]; ok && w != v {
				return false
			}
		}
	}
	return true
}

func (a *c15an) leafOfText(t string) (string, bool) {
	e, err := parser.ParseExpr(t)
	if err != nil {
		return "", false
	}
	return a.isLeaf(e)
}

func c15destText(t string) string {
	if i := strings.Index(t, "."); i >= 0 {
		return t[i+1:]
	}
	return t
}

func (a *c15an) window(sts []ast.Stmt, n int) string {
	var l []string
	for _, st := range sts[:n] {
		l = append(l, a.cf.src(st))
	}
	return strings.Join(l, " ;; ")
}

func (a *c15an) consumeAll(sts []ast.Stmt, n int) {
	for _, st := range sts[:n] {
		a.consume(st)
	}
}

// lenientOK: api.StringsToPeers skips undecodable entries and keeps the others in order.
func c15lenientOK(repo string) bool {
	cf, err := c15parse(filepath.Join(repo, "api/util.go"))
	if err != nil || cf.funcs["StringsToPeers"] == nil {
		return false
	}
	return cf.src(cf.funcs["StringsToPeers"].Body) == `{ peers := []peer.ID{} for _, p := range strs { pid, err := peer.Decode(p) if err != nil { logger.Debugf("'%s': %s", p, err) continue } peers = append(peers, pid) } return peers }`
}

// c15SecretLens reads the accepted byte lengths from DecodeClusterSecret (hex decode, then a switch over the length).
func C15SecretLens(repo string) []int {
	cf, err := c15parse(filepath.Join(repo, "cluster_config.go"))
	if err != nil || cf.funcs["DecodeClusterSecret"] == nil {
		return nil
	}
	re := regexp.MustCompile(`^\{ secret, err := hex\.DecodeString\(hexSecret\) if err != nil \{ return nil, err \} switch secretLen := len\(secret\); secretLen \{ case (\d+): (?:logger\.Warn\([^{}]*\) )?return nil, nil case (\d+): return secret, nil default: return nil, fmt\.Errorf\([^{}]*\) \} \}$`)
	m := re.FindStringSubmatch(cf.src(cf.funcs["DecodeClusterSecret"].Body))
	if m == nil {
		return nil
	}
	x, _ := strconv.Atoi(m[1])
	y, _ := strconv.Atoi(m[2])
	return []int{x, y}
}

// loadCodecPattern tries the multi-statement shapes at the head of sts; returns the number of statements matched.
func (a *c15an) loadCodecPattern(sts []ast.Stmt) int {
	use := func(j string, u c15use, n int) int {
		p, ok := a.leafOfText(j)
		if !ok {
			return 0
		}
		a.add(p, u)
		a.consumeAll(sts, n)
		return n
	}
	if len(sts) >= 8 {
		if g := c15groups(reTLS, a.window(sts, len(sts))); g != nil && c15same(g, "c", "k", "t") {
			pc, ok1 := a.leafOfText(g["jc"])
			pk, ok2 := a.leafOfText(g["jk"])
			if ok1 && ok2 {
				a.add(pc, c15use{kind: "tlsPath", dest: c15destText(g["dc"])})
				a.add(pk, c15use{kind: "tlsPath", dest: c15destText(g["dk"])})
				a.consumeAll(sts, len(sts))
				return len(sts)
			}
		}
	}
	if len(sts) >= 5 {
		if g := c15groups(reKey, a.window(sts, 5)); g != nil && c15same(g, "b", "x") {
			return use(g["j"], c15use{kind: "codecAlways", dest: c15destText(g["d"]), codec: "base64Key"}, 5)
		}
	}
	if len(sts) >= 3 {
		w := a.window(sts, 3)
		if g := c15groups(reOne, w); g != nil && c15same(g, "x") {
			return use(g["j"], c15use{kind: "codecAlways", dest: c15destText(g["d"]), codec: c15codecOf[g["p"]]}, 3)
		}
		if g := c15groups(reList, w); g != nil && c15same(g, "a", "x") {
			l := g["l"] + g["lb"]
			if g["l2"] == l && g["l3"] == l && g["l4"] == l {
				return use(g["j"], c15use{kind: "codecListAlways", dest: c15destText(g["d"]), codec: "maddr"}, 3)
			}
		}
		if g := c15groups(reStar, w); g != nil && c15same(g, "t", "d", "a", "x") {
			return use(g["j"], c15use{kind: "peerListStar", dest: c15destText(g["d"]), codec: "peerID"}, 3)
		}
	}
	w := a.window(sts, 1)
	if g := c15groups(reOneNE, w); g != nil && c15same(g, "j", "x") {
		return use(g["j"], c15use{kind: "codecNonEmpty", dest: c15destText(g["d"]), codec: c15codecOf[g["p"]]}, 1)
	}
	if g := c15groups(reKeyNE, w); g != nil && c15same(g, "j", "b", "x") {
		return use(g["j"], c15use{kind: "codecNonEmpty", dest: c15destText(g["d"]), codec: "base64Key"}, 1)
	}
	if g := c15groups(reListNE, w); g != nil && c15same(g, "as", "a", "x", "d") {
		return use(g["j"], c15use{kind: "codecListNonEmpty", dest: c15destText(g["d"]), codec: "maddr"}, 1)
	}
	if g := c15groups(reLenient, w); g != nil && c15lenientOK(C15Repo()) {
		return use(g["j"], c15use{kind: "codecListLenient", dest: c15destText(g["d"]), codec: "peerID"}, 1)
	}
	if g := c15groups(reCopyNE, w); g != nil && c15same(g, "x") {
		return use(g["j"], c15use{kind: "copyNonEmpty", dest: c15destText(g["d"])}, 1)
	}
	if g := c15groups(reEmpty0s, w); g != nil && c15same(g, "j") {
		if p, ok := a.leafOfText(g["j"]); ok {
			a.emptyZero[p] = true
			a.consumeAll(sts, 1)
			return 1
		}
	}
	if g := c15groups(reSwitch, w); g != nil {
		var pairs [][2]string
		dst := ""
		okc := true
		for _, m := range reCase.FindAllStringSubmatch(g["cases"], -1) {
			s, _ := strconv.Unquote(m[1])
			if dst != "" && dst != m[2] {
				okc = false
			}
			dst = m[2]
			pairs = append(pairs, [2]string{s, m[3]})
		}
		if okc && dst != "" {
			if n := use(g["j"], c15use{kind: "codecAlways", dest: c15destText(dst), codec: "enum"}, 1); n > 0 {
				a.enumLoad = pairs
				return n
			}
		}
	}
	return 0
}

// saveCodecPattern: the save-side windows.
func (a *c15an) saveCodecPattern(sts []ast.Stmt) int {
	if len(sts) >= 3 {
		if g := c15groups(reSvKey, a.window(sts, 3)); g != nil && c15same(g, "b") {
			a.locals[g["k"]] = c15use{kind: "keyalias", dest: c15destText(g["s"])}
			a.consumeAll(sts, 3)
			return 3
		}
	}
	if len(sts) >= 2 {
		w := a.window(sts, 2)
		if g := c15groups(reSvBuild, w); g != nil && c15same(g, "a") {
			l := g["l"] + g["lb"]
			if g["l2"] == l && g["l3"] == l && (g["s0"] == "" || g["s0"] == g["s"]) {
				a.locals[l] = c15use{kind: "listalias", dest: c15destText(g["s"])}
				a.consumeAll(sts, 2)
				return 2
			}
		}
		if g := c15groups(reSvDirect, w); g != nil && c15same(g, "f", "a") {
			if p, ok := a.leafOfText(g["f"]); ok {
				a.add(p, c15use{kind: "codecListPrint", dest: c15destText(g["s"])})
				a.consumeAll(sts, 2)
				return 2
			}
		}
	}
	w := a.window(sts, 1)
	if g := c15groups(reSvNZEnc, w); g != nil && c15same(g, "s") {
		if p, ok := a.leafOfText(g["f"]); ok {
			a.add(p, c15use{kind: "codecPrintNonZero", dest: c15destText(g["s"])})
			a.consumeAll(sts, 1)
			return 1
		}
	}
	if g := c15groups(reSvNZKey, w); g != nil && c15same(g, "s", "b", "k") {
		if p, ok := a.leafOfText(g["f"]); ok {
			a.add(p, c15use{kind: "codecPrintNonZero", dest: c15destText(g["s"])})
			a.consumeAll(sts, 1)
			return 1
		}
	}
	if g := c15groups(reSvListNE, w); g != nil && c15same(g, "l") {
		if l, ok := a.locals[g["l"]]; ok && l.kind == "listalias" {
			if p, ok := a.leafOfText(g["f"]); ok {
				a.add(p, c15use{kind: "codecListPrintNonEmpty", dest: l.dest})
				a.consumeAll(sts, 1)
				return 1
			}
		}
	}
	if g := c15groups(reSvStar, w); g != nil && c15same(g, "f") {
		if p, ok := a.leafOfText(g["f"]); ok {
			a.add(p, c15use{kind: "peerListStarPrint", dest: c15destText(g["s"])})
			a.consumeAll(sts, 1)
			return 1
		}
	}
	return 0
}

// enumSaveTable reads the String() method of the type of an enum Config field: constant -> text.
func (cf *c15file) enumSaveTable() map[string][][2]string {
	out := map[string][][2]string{}
	for name, fd := range cf.funcs {
		if !strings.HasSuffix(name, ".String") || fd.Body == nil {
			continue
		}
		m := reStringFunc.FindStringSubmatch(cf.src(fd.Body))
		if m == nil {
			continue
		}
		var pairs [][2]string
		for _, c := range reStringCase.FindAllStringSubmatch(m[1], -1) {
			s, _ := strconv.Unquote(c[2])
			pairs = append(pairs, [2]string{c[1], s})
		}
		out[strings.TrimSuffix(name, ".String")] = pairs
	}
	return out
}
