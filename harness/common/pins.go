package common

// Pin <-> token naming shared by the pinset harnesses (C04, C10, ...).
//
// pin token  = cid/type/rmin:rmax/name/mode/depth/shard/allocs/expire/meta/update/origins/ref/ualloc
// opts token = rmin:rmax/name/mode/shard/expire/meta/update/origins/ualloc
//
// type d|m|c|s|b ; mode r|d ; lists comma separated, "-" empty ; expire z|u|p|f<k> ;
// meta k:v pairs (0 = empty string) ; cids, peers, names, origins are small integers.

import (
	"fmt"
	"sort"
	"strconv"
	"strings"
	"time"

	"github.com/ipfs/ipfs-cluster/api"

	cid "github.com/ipfs/go-cid"
	peer "github.com/libp2p/go-libp2p-core/peer"
	ma "github.com/multiformats/go-multiaddr"
)

const (
	// PinUniverse bounds the integer names of cids, peers and origins.
	PinUniverse = 64
	futureBase  = 4102444800 // 2100-01-01
	pastUnix    = 946684800  // 2000-01-01
)

func NameN(n int) string {
	if n == 0 {
		return ""
	}
	return fmt.Sprintf("name-%d", n)
}
func nameIndex(s string) int {
	if s == "" {
		return 0
	}
	v, err := strconv.Atoi(strings.TrimPrefix(s, "name-"))
	if err != nil {
		return 999
	}
	return v
}
func metaKey(n int) string {
	if n == 0 {
		return ""
	}
	return fmt.Sprintf("key-%d", n)
}
func metaVal(n int) string {
	if n == 0 {
		return ""
	}
	return fmt.Sprintf("val-%d", n)
}
func metaIndex(s, prefix string) int {
	if s == "" {
		return 0
	}
	v, err := strconv.Atoi(strings.TrimPrefix(s, prefix))
	if err != nil {
		return 999
	}
	return v
}

// OriginN is the n-th origin multiaddress.
func OriginN(n int) ma.Multiaddr {
	m, err := ma.NewMultiaddr(fmt.Sprintf("/ip4/10.0.0.%d/tcp/4001/p2p/%s", n%250, peer.Encode(PeerN(n))))
	if err != nil {
		panic(err)
	}
	return m
}
func originIndex(m ma.Multiaddr) int {
	for i := 0; i < PinUniverse; i++ {
		if OriginN(i).Equal(m) {
			return i
		}
	}
	return 999
}

// ExpireOf maps an expiry token to a time.
func ExpireOf(tok string) time.Time {
	switch {
	case tok == "z" || tok == "":
		return time.Time{}
	case tok == "u":
		return time.Unix(0, 0)
	case tok == "p":
		return time.Unix(pastUnix, 0)
	case strings.HasPrefix(tok, "f"):
		k, _ := strconv.Atoi(tok[1:])
		return time.Unix(futureBase+int64(k)*3600, 0)
	}
	return time.Time{}
}

// ExpireTok inverts ExpireOf.
func ExpireTok(t time.Time) string {
	switch {
	case t.IsZero():
		return "z"
	case t.Unix() == 0 && t.Nanosecond() == 0:
		return "u"
	case t.Unix() == pastUnix:
		return "p"
	case t.Unix() >= futureBase && (t.Unix()-futureBase)%3600 == 0:
		return "f" + strconv.FormatInt((t.Unix()-futureBase)/3600, 10)
	}
	return "x" + strconv.FormatInt(t.Unix(), 10)
}

func peersTok(l []peer.ID) string {
	idx := make([]int, len(l))
	for i, p := range l {
		idx[i] = PeerIndex(p, PinUniverse)
	}
	return Ints(idx)
}

func cidTok(c cid.Cid) string {
	if !c.Defined() {
		return "-"
	}
	return strconv.Itoa(CidIndex(c, PinUniverse))
}

func metaTok(m map[string]string) string {
	if len(m) == 0 {
		return "-"
	}
	var parts []string
	for k, v := range m {
		parts = append(parts, fmt.Sprintf("%d:%d", metaIndex(k, "key-"), metaIndex(v, "val-")))
	}
	sort.Strings(parts)
	return strings.Join(parts, ",")
}

func originsTok(l []ma.Multiaddr) string {
	idx := make([]int, len(l))
	for i, o := range l {
		idx[i] = originIndex(o)
	}
	return Ints(idx)
}

func typeTok(t api.PinType) string {
	switch t {
	case api.DataType:
		return "d"
	case api.MetaType:
		return "m"
	case api.ClusterDAGType:
		return "c"
	case api.ShardType:
		return "s"
	}
	return "b"
}

func modeTok(m api.PinMode) string {
	if m == api.PinModeDirect {
		return "d"
	}
	return "r"
}

// PinTok renders a pin.
func PinTok(p *api.Pin) string {
	if p == nil {
		return "nil"
	}
	ref := "-"
	if p.Reference != nil {
		ref = cidTok(*p.Reference)
	}
	return strings.Join([]string{
		cidTok(p.Cid), typeTok(p.Type),
		fmt.Sprintf("%d:%d", p.ReplicationFactorMin, p.ReplicationFactorMax),
		strconv.Itoa(nameIndex(p.Name)), modeTok(p.Mode), strconv.Itoa(int(p.MaxDepth)),
		strconv.FormatUint(p.ShardSize, 10), peersTok(p.Allocations), ExpireTok(p.ExpireAt),
		metaTok(p.Metadata), cidTok(p.PinUpdate), originsTok(p.Origins), ref, peersTok(p.UserAllocations),
	}, "/")
}

// PinsetTok renders a pinset sorted by cid index.
func PinsetTok(l []*api.Pin) string {
	if len(l) == 0 {
		return "-"
	}
	cp := append([]*api.Pin{}, l...)
	sort.Slice(cp, func(i, j int) bool { return CidIndex(cp[i].Cid, PinUniverse) < CidIndex(cp[j].Cid, PinUniverse) })
	s := make([]string, len(cp))
	for i, p := range cp {
		s[i] = PinTok(p)
	}
	return strings.Join(s, "|")
}

func parseInts(s string) []int {
	if s == "-" || s == "" {
		return nil
	}
	var l []int
	for _, x := range strings.Split(s, ",") {
		v, _ := strconv.Atoi(x)
		l = append(l, v)
	}
	return l
}

func peersOf(s string) []peer.ID {
	l := parseInts(s)
	if l == nil {
		return nil
	}
	out := make([]peer.ID, len(l))
	for i, v := range l {
		out[i] = PeerN(v)
	}
	return out
}

func metaOf(s string) map[string]string {
	if s == "-" || s == "" {
		return nil
	}
	m := map[string]string{}
	for _, kv := range strings.Split(s, ",") {
		p := strings.SplitN(kv, ":", 2)
		k, _ := strconv.Atoi(p[0])
		v := 0
		if len(p) > 1 {
			v, _ = strconv.Atoi(p[1])
		}
		m[metaKey(k)] = metaVal(v)
	}
	return m
}

// MetaCanon re-renders a metadata token as the map it denotes (later duplicates win).
func MetaCanon(s string) string { return metaTok(metaOf(s)) }

func cidOf(s string) cid.Cid {
	if s == "-" || s == "" {
		return cid.Undef
	}
	v, _ := strconv.Atoi(s)
	return CidN(v)
}

func originsOf(s string) []ma.Multiaddr {
	l := parseInts(s)
	if l == nil {
		return nil
	}
	out := make([]ma.Multiaddr, len(l))
	for i, v := range l {
		out[i] = OriginN(v)
	}
	return out
}

func factors(s string) (int, int) {
	p := strings.SplitN(s, ":", 2)
	a, _ := strconv.Atoi(p[0])
	b := 0
	if len(p) > 1 {
		b, _ = strconv.Atoi(p[1])
	}
	return a, b
}

// OptsOf parses an opts token.
func OptsOf(tok string) api.PinOptions {
	f := strings.Split(tok, "/")
	for len(f) < 9 {
		f = append(f, "-")
	}
	var o api.PinOptions
	o.ReplicationFactorMin, o.ReplicationFactorMax = factors(f[0])
	n, _ := strconv.Atoi(f[1])
	o.Name = NameN(n)
	if f[2] == "d" {
		o.Mode = api.PinModeDirect
	} else {
		o.Mode = api.PinModeRecursive
	}
	o.ShardSize, _ = strconv.ParseUint(f[3], 10, 64)
	o.ExpireAt = ExpireOf(f[4])
	o.Metadata = metaOf(f[5])
	o.PinUpdate = cidOf(f[6])
	o.Origins = originsOf(f[7])
	o.UserAllocations = peersOf(f[8])
	return o
}

// PinOf parses a pin token.
func PinOf(tok string) *api.Pin {
	f := strings.Split(tok, "/")
	for len(f) < 14 {
		f = append(f, "-")
	}
	p := &api.Pin{Cid: cidOf(f[0])}
	switch f[1] {
	case "d":
		p.Type = api.DataType
	case "m":
		p.Type = api.MetaType
	case "c":
		p.Type = api.ClusterDAGType
	case "s":
		p.Type = api.ShardType
	default:
		p.Type = api.BadType
	}
	p.PinOptions = OptsOf(strings.Join([]string{f[2], f[3], f[4], f[6], f[8], f[9], f[10], f[11], f[13]}, "/"))
	d, _ := strconv.Atoi(f[5])
	p.MaxDepth = api.PinDepth(d)
	p.Allocations = peersOf(f[7])
	if f[12] != "-" {
		r := cidOf(f[12])
		p.Reference = &r
	}
	return p
}

// PinsetOf parses a pinset token.
func PinsetOf(tok string) []*api.Pin {
	if tok == "-" || tok == "" {
		return nil
	}
	var l []*api.Pin
	for _, t := range strings.Split(tok, "|") {
		l = append(l, PinOf(t))
	}
	return l
}
