package common

import (
	"context"
	"errors"
	"sync"

	"github.com/ipfs/ipfs-cluster/api"
)

// FaultConsensus is a FakeConsensus whose k-th LogPin/LogUnpin call (0-based, counted from the last Arm) fails
// without being applied, and whose calls can be held at a gate (to interleave two API calls between their read of
// the pinset and their consensus call). Cluster.Pin/Unpin replace the caller's context, so calls are told apart
// by SetCaller, not by context values.
type FaultConsensus struct {
	*FakeConsensus
	fmu    sync.Mutex
	failAt int // -1: never
	calls  int
	hold   bool
	caller int // the API call running now (set by the harness before it starts one)
	// Arrived receives one token per held call ("<id>") when it reaches the gate.
	Arrived chan int
	release map[int]chan struct{}
}

// NewFaultConsensus makes an empty one (no fault, no gate).
func NewFaultConsensus() *FaultConsensus {
	return &FaultConsensus{FakeConsensus: NewFakeConsensus(), failAt: -1, Arrived: make(chan int, 16), release: map[int]chan struct{}{}}
}

// Arm makes the k-th following consensus call fail (k < 0: none) and restarts the count.
func (c *FaultConsensus) Arm(k int) {
	c.fmu.Lock()
	c.failAt, c.calls = k, 0
	c.fmu.Unlock()
}

// Hold switches the gate on or off.
func (c *FaultConsensus) Hold(on bool) {
	c.fmu.Lock()
	c.hold = on
	c.fmu.Unlock()
}

// Release lets the held call of API call id proceed (and every later consensus call of that API call).
func (c *FaultConsensus) Release(id int) {
	c.fmu.Lock()
	ch, ok := c.release[id]
	if !ok {
		ch = make(chan struct{})
		c.release[id] = ch
	}
	c.fmu.Unlock()
	select {
	case <-ch:
	default:
		close(ch)
	}
}

// SetCaller names the API call whose consensus calls arrive next.
func (c *FaultConsensus) SetCaller(id int) {
	c.fmu.Lock()
	c.caller = id
	c.fmu.Unlock()
}

// gate holds a consensus call while the gate is on. Protocol of the harness: start call x, wait until it arrives
// here or returns; start call y, the same; switch the gate off; release x, wait for it; release y.
func (c *FaultConsensus) gate(ctx context.Context) {
	c.fmu.Lock()
	if !c.hold {
		c.fmu.Unlock()
		return
	}
	id := c.caller
	ch, ok := c.release[id]
	if !ok {
		ch = make(chan struct{})
		c.release[id] = ch
	}
	c.fmu.Unlock()
	c.Arrived <- id
	<-ch
}

func (c *FaultConsensus) fails() bool {
	c.fmu.Lock()
	defer c.fmu.Unlock()
	k := c.calls
	c.calls++
	return c.failAt >= 0 && k == c.failAt
}

func (c *FaultConsensus) LogPin(ctx context.Context, p *api.Pin) error {
	c.gate(ctx)
	if c.fails() {
		return errors.New("consensus: log pin failed")
	}
	return c.FakeConsensus.LogPin(ctx, p)
}

func (c *FaultConsensus) LogUnpin(ctx context.Context, p *api.Pin) error {
	c.gate(ctx)
	if c.fails() {
		return errors.New("consensus: log unpin failed")
	}
	return c.FakeConsensus.LogUnpin(ctx, p)
}
