package common

// Round 8c (C07): how the daemons assemble the REST API and the consensus component.
//
// A tiny go/ast reader, shared by the translator (harness/extract_c07 -> Gen.daemonShape) and by the harness
// (harness/c07 suite `dmn`, which builds the real rest.API the way the source read here says the daemon does).
// It reads every non-test file under cmd/ and
//   * every call of the REST constructors (`rest.NewAPI`, `rest.NewAPIWithHost`): directory, function, constructor, what the
//     host argument is (`nil`, the host also handed to NewCluster = "clusterhost", anything else = "other:<expr>") and the
//     consensus guard it sits under;
//   * every call of the consensus constructors (`raft.NewConsensus`, `crdt.New`) with its guard;
//   * for every `NewCluster(…)` call: where its consensus argument (6th) comes from.
// Guards: an `if` whose condition is `<x>.GetConsensus() ==|!= <y>.Raft|Crdt.ConfigKey()` and a `switch <x>.GetConsensus()`
// with `case <y>.Raft|Crdt.ConfigKey()` / `default`. Any other condition leaves the guard as it is (it can only narrow).
// Fail-closed: a shape that is not recognised is reported as guard "always" / host "other:…" / source "?", which the
// theorems over Gen.daemonShape reject.

import (
	"fmt"
	"go/ast"
	"go/parser"
	"go/printer"
	"go/token"
	"os"
	"path/filepath"
	"sort"
	"strconv"
	"strings"
)

// C07RestSite is one call of a REST constructor outside api/rest.
type C07RestSite struct{ Dir, Fn, Ctor, Host, Guard string }

// C07ConsSite is one call of a consensus constructor.
type C07ConsSite struct{ Dir, Fn, Ctor, Guard string }

// C07ClusterSite says where the consensus argument of one NewCluster call comes from.
type C07ClusterSite struct{ Dir, Fn, Source string }

// C07RestPkg is what api/rest/restapi.go does with the host.
type C07RestPkg struct {
	NewAPINilHost    bool // NewAPI = NewAPIWithHost(ctx, cfg, nil)
	StoresHostParam  bool // NewAPIWithHost puts its host parameter in API.host
	OwnHostWhenAddr  bool // setupLibp2p: `if len(api.config.Libp2pListenAddr) > 0 { … api.host = <libp2p.New> }`
	NoHostNoListener bool // setupLibp2p: `if api.host == nil { return nil }` before the listener
	ListensOn        string
	HostWriters      []string // every other assignment to a field named host in the package (function names)
	AuthWrapsHandler bool     // the http.Server's handler is built from basicAuthHandler(cfg.BasicAuthCredentials, …)
	Libp2pServer     string   // what serves the libp2p listener (`api.server`)
}

// C07Daemon is everything read.
type C07Daemon struct {
	Rest    []C07RestSite
	Cons    []C07ConsSite
	Cluster []C07ClusterSite
	Pkg     C07RestPkg
}

func c07str(fset *token.FileSet, n ast.Node) string {
	var b strings.Builder
	printer.Fprint(&b, fset, n)
	return strings.Join(strings.Fields(b.String()), " ")
}

func c07importName(f *ast.File, suffix, dflt string) string {
	for _, im := range f.Imports {
		p, _ := strconv.Unquote(im.Path.Value)
		if strings.HasSuffix(p, suffix) {
			if im.Name != nil {
				return im.Name.Name
			}
			return dflt
		}
	}
	return ""
}

// consensusKey recognises `<y>.Raft.ConfigKey()` / `<y>.Crdt.ConfigKey()`.
func c07consKey(e ast.Expr) string {
	c, ok := e.(*ast.CallExpr)
	if !ok || len(c.Args) != 0 {
		return ""
	}
	s, ok := c.Fun.(*ast.SelectorExpr)
	if !ok || s.Sel.Name != "ConfigKey" {
		return ""
	}
	s2, ok := s.X.(*ast.SelectorExpr)
	if !ok {
		return ""
	}
	switch s2.Sel.Name {
	case "Raft":
		return "raft"
	case "Crdt":
		return "crdt"
	}
	return ""
}

func c07isGetConsensus(e ast.Expr) bool {
	c, ok := e.(*ast.CallExpr)
	if !ok || len(c.Args) != 0 {
		return false
	}
	s, ok := c.Fun.(*ast.SelectorExpr)
	return ok && s.Sel.Name == "GetConsensus"
}

// guardOfCond: ("raft","not-raft") for `GetConsensus() == Raft.ConfigKey()`, swapped for `!=`, ("","") otherwise.
func c07guardOfCond(e ast.Expr) (string, string) {
	b, ok := e.(*ast.BinaryExpr)
	if !ok || (b.Op != token.EQL && b.Op != token.NEQ) {
		return "", ""
	}
	var k string
	switch {
	case c07isGetConsensus(b.X):
		k = c07consKey(b.Y)
	case c07isGetConsensus(b.Y):
		k = c07consKey(b.X)
	}
	if k == "" {
		return "", ""
	}
	if b.Op == token.EQL {
		return k, "not-" + k
	}
	return "not-" + k, k
}

type c07walker struct {
	fset  *token.FileSet
	visit func(call *ast.CallExpr, guard string)
}

func (w *c07walker) node(n ast.Node, guard string) {
	if n == nil {
		return
	}
	ast.Inspect(n, func(x ast.Node) bool {
		switch s := x.(type) {
		case *ast.IfStmt:
			if s.Init != nil {
				w.node(s.Init, guard)
			}
			w.node(s.Cond, guard)
			g1, g2 := c07guardOfCond(s.Cond)
			if g1 == "" {
				g1, g2 = guard, guard
			}
			w.node(s.Body, g1)
			if s.Else != nil {
				w.node(s.Else, g2)
			}
			return false
		case *ast.SwitchStmt:
			if s.Tag != nil && c07isGetConsensus(s.Tag) {
				if s.Init != nil {
					w.node(s.Init, guard)
				}
				for _, cc := range s.Body.List {
					c := cc.(*ast.CaseClause)
					g := "other"
					if len(c.List) == 1 {
						if k := c07consKey(c.List[0]); k != "" {
							g = k
						} else {
							g = "always"
						}
					} else if len(c.List) > 1 {
						g = "always"
					}
					for _, st := range c.Body {
						w.node(st, g)
					}
				}
				return false
			}
		case *ast.CallExpr:
			w.visit(s, guard)
		}
		return true
	})
}

func c07goFiles(dir string) []string {
	var out []string
	filepath.Walk(dir, func(p string, info os.FileInfo, err error) error {
		if err != nil {
			return nil
		}
		if !info.IsDir() && strings.HasSuffix(p, ".go") && !strings.HasSuffix(p, "_test.go") && !strings.HasPrefix(info.Name(), "verif_export") {
			out = append(out, p)
		}
		return nil
	})
	sort.Strings(out)
	return out
}

func c07sel(e ast.Expr, pkg string) string {
	s, ok := e.(*ast.SelectorExpr)
	if !ok {
		return ""
	}
	id, ok := s.X.(*ast.Ident)
	if !ok || id.Name != pkg || pkg == "" {
		return ""
	}
	return s.Sel.Name
}

// C07DaemonFacts reads the repository.
func C07DaemonFacts(repo string) (*C07Daemon, error) {
	d := &C07Daemon{}
	fset := token.NewFileSet()
	for _, path := range c07goFiles(filepath.Join(repo, "cmd")) {
		f, err := parser.ParseFile(fset, path, nil, 0)
		if err != nil {
			return nil, err
		}
		rel, _ := filepath.Rel(repo, filepath.Dir(path))
		restPkg := c07importName(f, "ipfs-cluster/api/rest", "rest")
		raftPkg := c07importName(f, "ipfs-cluster/consensus/raft", "raft")
		crdtPkg := c07importName(f, "ipfs-cluster/consensus/crdt", "crdt")
		rootPkg := c07importName(f, "github.com/ipfs/ipfs-cluster", "ipfscluster")
		for _, decl := range f.Decls {
			fd, ok := decl.(*ast.FuncDecl)
			if !ok || fd.Body == nil {
				continue
			}
			// the host / consensus handed to NewCluster in this function
			clusterHost := ""
			var newClusterCalls []*ast.CallExpr
			ast.Inspect(fd.Body, func(x ast.Node) bool {
				if c, ok := x.(*ast.CallExpr); ok && c07sel(c.Fun, rootPkg) == "NewCluster" && len(c.Args) >= 6 {
					newClusterCalls = append(newClusterCalls, c)
					if id, ok := c.Args[1].(*ast.Ident); ok {
						clusterHost = id.Name
					}
				}
				return true
			})
			w := &c07walker{fset: fset}
			w.visit = func(c *ast.CallExpr, guard string) {
				switch name := c07sel(c.Fun, restPkg); name {
				case "NewAPI", "NewAPIWithHost":
					host := "nil"
					if name == "NewAPIWithHost" {
						host = "other:?"
						if len(c.Args) == 3 {
							a := c.Args[2]
							if id, ok := a.(*ast.Ident); ok && id.Name == "nil" {
								host = "nil"
							} else if ok && clusterHost != "" && id.Name == clusterHost {
								host = "clusterhost"
							} else {
								host = "other:" + c07str(fset, a)
							}
						}
					}
					d.Rest = append(d.Rest, C07RestSite{rel, fd.Name.Name, name, host, guard})
				}
				if c07sel(c.Fun, raftPkg) == "NewConsensus" {
					d.Cons = append(d.Cons, C07ConsSite{rel, fd.Name.Name, "raft", guard})
				}
				if c07sel(c.Fun, crdtPkg) == "New" {
					d.Cons = append(d.Cons, C07ConsSite{rel, fd.Name.Name, "crdt", guard})
				}
			}
			w.node(fd.Body, "always")
			for _, nc := range newClusterCalls {
				src := "?"
				if id, ok := nc.Args[5].(*ast.Ident); ok {
					n := 0
					ast.Inspect(fd.Body, func(x ast.Node) bool {
						as, ok := x.(*ast.AssignStmt)
						if !ok || len(as.Rhs) != 1 {
							return true
						}
						for _, l := range as.Lhs {
							if li, ok := l.(*ast.Ident); ok && li.Name == id.Name {
								n++
								if c, ok := as.Rhs[0].(*ast.CallExpr); ok {
									switch {
									case c07sel(c.Fun, raftPkg) == "NewConsensus":
										src = "raft"
									case c07sel(c.Fun, crdtPkg) == "New":
										src = "crdt"
									default:
										if fi, ok := c.Fun.(*ast.Ident); ok {
											src = "via:" + fi.Name
										}
									}
								}
							}
						}
						return true
					})
					if n != 1 {
						src = "?"
					}
				}
				d.Cluster = append(d.Cluster, C07ClusterSite{rel, fd.Name.Name, src})
			}
		}
	}
	if err := c07restPkg(repo, fset, &d.Pkg); err != nil {
		return nil, err
	}
	return d, nil
}

func c07restPkg(repo string, fset *token.FileSet, p *C07RestPkg) error {
	files, _ := filepath.Glob(filepath.Join(repo, "api", "rest", "*.go"))
	sort.Strings(files)
	p.ListensOn = "?"
	p.Libp2pServer = "?"
	for _, path := range files {
		if strings.HasSuffix(path, "_test.go") || strings.HasPrefix(filepath.Base(path), "verif_export") {
			continue
		}
		f, err := parser.ParseFile(fset, path, nil, 0)
		if err != nil {
			return err
		}
		for _, decl := range f.Decls {
			fd, ok := decl.(*ast.FuncDecl)
			if !ok || fd.Body == nil {
				continue
			}
			name := fd.Name.Name
			switch {
			case fd.Recv == nil && name == "NewAPI":
				if len(fd.Body.List) == 1 {
					if r, ok := fd.Body.List[0].(*ast.ReturnStmt); ok && len(r.Results) == 1 {
						if c, ok := r.Results[0].(*ast.CallExpr); ok && len(c.Args) == 3 {
							if id, ok := c.Fun.(*ast.Ident); ok && id.Name == "NewAPIWithHost" && c07str(fset, c.Args[2]) == "nil" {
								p.NewAPINilHost = true
							}
						}
					}
				}
			case fd.Recv == nil && name == "NewAPIWithHost":
				hostParam := ""
				if n := len(fd.Type.Params.List); n > 0 && len(fd.Type.Params.List[n-1].Names) == 1 {
					hostParam = fd.Type.Params.List[n-1].Names[0].Name
				}
				handlerVar := ""
				ast.Inspect(fd.Body, func(x ast.Node) bool {
					switch s := x.(type) {
					case *ast.KeyValueExpr:
						if k, ok := s.Key.(*ast.Ident); ok && k.Name == "host" {
							if v, ok := s.Value.(*ast.Ident); ok && v.Name == hostParam && hostParam != "" {
								p.StoresHostParam = true
							} else {
								p.HostWriters = append(p.HostWriters, name+":"+c07str(fset, s.Value))
							}
						}
					case *ast.AssignStmt:
						if len(s.Lhs) == 1 && len(s.Rhs) == 1 && s.Tok == token.DEFINE {
							if c, ok := s.Rhs[0].(*ast.CallExpr); ok && len(c.Args) == 2 {
								if id, ok := c.Fun.(*ast.Ident); ok && id.Name == "basicAuthHandler" && strings.HasSuffix(c07str(fset, c.Args[0]), ".BasicAuthCredentials") {
									handlerVar = c07str(fset, s.Lhs[0])
								}
							}
						}
					}
					return true
				})
				// the server's Handler mentions that variable
				ast.Inspect(fd.Body, func(x ast.Node) bool {
					if kv, ok := x.(*ast.KeyValueExpr); ok {
						if k, ok := kv.Key.(*ast.Ident); ok && k.Name == "Handler" && handlerVar != "" {
							ast.Inspect(kv.Value, func(y ast.Node) bool {
								if id, ok := y.(*ast.Ident); ok && id.Name == handlerVar {
									p.AuthWrapsHandler = true
								}
								return true
							})
						}
					}
					return true
				})
			case name == "setupLibp2p":
				sawNilCheck := false
				for i, st := range fd.Body.List {
					if is, ok := st.(*ast.IfStmt); ok {
						cond := c07str(fset, is.Cond)
						if i == 0 && cond == "len(api.config.Libp2pListenAddr) > 0" && is.Else == nil {
							ast.Inspect(is.Body, func(x ast.Node) bool {
								if as, ok := x.(*ast.AssignStmt); ok && len(as.Lhs) == 1 && c07str(fset, as.Lhs[0]) == "api.host" {
									p.OwnHostWhenAddr = true
								}
								return true
							})
							continue
						}
						if cond == "api.host == nil" && is.Else == nil && len(is.Body.List) == 1 && c07str(fset, is.Body.List[0]) == "return nil" && p.ListensOn == "?" {
							sawNilCheck = true
							continue
						}
					}
					ast.Inspect(st, func(x ast.Node) bool {
						if c, ok := x.(*ast.CallExpr); ok && c07str(fset, c.Fun) == "gostream.Listen" && len(c.Args) >= 1 {
							p.ListensOn = c07str(fset, c.Args[0])
							p.NoHostNoListener = sawNilCheck
						}
						if as, ok := x.(*ast.AssignStmt); ok && i > 0 {
							for _, l := range as.Lhs {
								if c07str(fset, l) == "api.host" {
									p.HostWriters = append(p.HostWriters, name)
								}
							}
						}
						return true
					})
				}
			default:
				ast.Inspect(fd.Body, func(x ast.Node) bool {
					switch s := x.(type) {
					case *ast.AssignStmt:
						for _, l := range s.Lhs {
							if se, ok := l.(*ast.SelectorExpr); ok && se.Sel.Name == "host" {
								p.HostWriters = append(p.HostWriters, name)
							}
						}
					case *ast.CallExpr:
						if se, ok := s.Fun.(*ast.SelectorExpr); ok && se.Sel.Name == "Serve" && len(s.Args) == 1 && strings.HasSuffix(c07str(fset, s.Args[0]), ".libp2pListener") {
							p.Libp2pServer = c07str(fset, se.X)
						}
					}
					return true
				})
			}
		}
	}
	return nil
}

// RestCtorFor: which REST constructor the service daemon (function createCluster) calls when the configured
// consensus is `mode`, and with which host: ("NewAPIWithHost","clusterhost"), ("NewAPI","nil"), … ; error when the
// source does not decide it uniquely.
func (d *C07Daemon) RestCtorFor(dir, mode string) (string, string, error) {
	var hit []C07RestSite
	for _, s := range d.Rest {
		if s.Dir != dir {
			continue
		}
		if s.Guard == "always" || s.Guard == mode || (strings.HasPrefix(s.Guard, "not-") && s.Guard != "not-"+mode) {
			hit = append(hit, s)
		}
	}
	if len(hit) != 1 {
		return "", "", fmt.Errorf("%d REST constructor sites for %s in %s", len(hit), mode, dir)
	}
	return hit[0].Ctor, hit[0].Host, nil
}
