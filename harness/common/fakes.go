package common

import (
	"context"
	"time"

	"github.com/ipfs/ipfs-cluster/api"
	"github.com/ipfs/ipfs-cluster/monitor/metrics"

	peer "github.com/libp2p/go-libp2p-core/peer"
	rpc "github.com/libp2p/go-libp2p-gorpc"
)

// StoreMonitor is a PeerMonitor whose LatestMetrics is the real
// metrics.Store.LatestValid (optionally peerset-filtered as pubsubmon does);
// nothing is published anywhere.
type StoreMonitor struct {
	Store     *metrics.Store
	Peers     func() []peer.ID // nil: no peerset filter
	AlertsCh  chan *api.Alert
	Published []*api.Metric
	PubTimes  []time.Time
	PubErr    func(n int) error
}

// NewStoreMonitor makes an empty monitor.
func NewStoreMonitor() *StoreMonitor {
	return &StoreMonitor{Store: metrics.NewStore(), AlertsCh: make(chan *api.Alert)}
}

func (m *StoreMonitor) SetClient(*rpc.Client)          {}
func (m *StoreMonitor) Shutdown(context.Context) error { return nil }
func (m *StoreMonitor) LogMetric(ctx context.Context, mt *api.Metric) error {
	m.Store.Add(mt)
	return nil
}
func (m *StoreMonitor) PublishMetric(ctx context.Context, mt *api.Metric) error {
	cp := *mt
	m.Published = append(m.Published, &cp)
	m.PubTimes = append(m.PubTimes, time.Now())
	if m.PubErr != nil {
		return m.PubErr(len(m.Published))
	}
	return nil
}
func (m *StoreMonitor) LatestMetrics(ctx context.Context, name string) []*api.Metric {
	l := m.Store.LatestValid(name)
	if m.Peers != nil {
		return metrics.PeersetFilter(l, m.Peers())
	}
	return l
}
func (m *StoreMonitor) MetricNames(ctx context.Context) []string { return m.Store.MetricNames() }
func (m *StoreMonitor) Alerts() <-chan *api.Alert                { return m.AlertsCh }

// NamedInformer is an Informer with a fixed name and metric.
type NamedInformer struct {
	N string
	M func() *api.Metric
}

func (i *NamedInformer) SetClient(*rpc.Client)          {}
func (i *NamedInformer) Shutdown(context.Context) error { return nil }
func (i *NamedInformer) Name() string                   { return i.N }
func (i *NamedInformer) GetMetric(context.Context) *api.Metric {
	if i.M != nil {
		return i.M()
	}
	return &api.Metric{Name: i.N, Valid: true}
}
