// C15: configuration schema read from the sources with go/ast. Shared by the
// translator (harness/extract_c15 -> lean/ClusterVerif/Gen/C15.lean) and by the
// correspondence harness (harness/c15), so that the table the theorems are
// decided over and the rows the driver sees on case lines are the same facts.
//
// Deliberately simple and fail-closed: a reference to a JSON field that matches
// none of the recognised patterns makes the field's kind "custom"; a field that
// is never referenced on the load (save) side gets load (save) kind "none".
package common

import (
	"bytes"
	"fmt"
	"go/ast"
	"go/parser"
	"go/printer"
	"go/token"
	"net/url"
	"os"
	"path/filepath"
	"reflect"
	"sort"
	"strconv"
	"strings"
)

// C15Const is a default value as far as it is syntactically evident.
type C15Const struct {
	Kind string // int | float | str | bool | dur | nil | empty | unknown
	I    int64  // int, dur (ns), bool (0/1)
	S    string // str, float (source text), unknown (source text)
}

func (c C15Const) Known() bool { return c.Kind != "unknown" && c.Kind != "" }

// Token renders the constant as one case-line / Lean friendly token.
func (c C15Const) Token() string {
	switch c.Kind {
	case "int", "dur":
		return c.Kind + ":" + strconv.FormatInt(c.I, 10)
	case "bool":
		return "bool:" + strconv.FormatInt(c.I, 10)
	case "str":
		return "str:" + url.QueryEscape(c.S)
	case "float":
		if f, err := strconv.ParseFloat(c.S, 64); err == nil {
			return "float:" + strconv.FormatFloat(f, 'g', -1, 64)
		}
		return "float:" + c.S
	case "nil", "empty":
		return c.Kind
	}
	return "unknown"
}

// C15Conj is one conjunct of a Validate(): the configuration is REJECTED when
// (Guard holds and) `Field Op Const`. Opaque conjuncts carry only Text.
type C15Conj struct {
	Guard  string // Config field that must be true for the conjunct to apply ("" = always)
	Field  string // Config field path ("ConnMgr.LowWater"); "len:"+field for len(x)
	Op     string // lt le gt ge eq ne
	Const  C15Const
	Opaque bool
	Text   string
}

// C15Field is one leaf field of a section's JSON form.
type C15Field struct {
	Section   string
	Path      []string // json names
	GoPath    []string // Go field names inside the JSON struct (environment variable name)
	JType     string   // Go type of the JSON struct field
	Ty        string   // abstract type: int uint float bool str dur list map ptrfloat ptrint other
	OmitEmpty bool
	Hidden    bool
	Load      string // direct setIfNotDefault parseDurations parseDurationsUnchecked parseOrZeroSIND parseOrZeroDirect zeroMeansDefault pointerOptional mergo custom none
	Save      string // direct durString omitIfDefault omitIfDefaultDur custom none
	Dest      string // Config field path the value is loaded into ("" if not evident)
	Src       string // Config field path the value is saved from
	OmitConst C15Const
	Default   C15Const
	Rej       []C15Conj // simple unguarded conjuncts over Dest
	Codec     string    // maddr peerID hexSecret base64Key enum ("" = none)
	HiddenNested bool   // a hidden:"true" tag below the top level (not honoured by DisplayJSON)
}

func (f C15Field) JSONPath() string { return strings.Join(f.Path, ".") }
func (f C15Field) EnvName(prefix string) string {
	return strings.ToUpper(prefix + "_" + strings.Join(f.GoPath, "_"))
}

// C15Section is one component configuration.
type C15Section struct {
	Name      string
	File      string
	EnvPrefix string
	Fields    []C15Field
	Validate  []C15Conj
	VConj     []C15VConj  // Validate() as (guard, condition) pairs, see c15_validate.go
	EnumLoad  [][2]string // switch of the enum load: JSON text -> constant name
	EnumSave  [][2]string // String() method of the enum type: constant name -> JSON text
}

type c15spec struct {
	name, file, jsonType, cfgType string
	load, save, def               []string // "Recv.Func"
	mergoFuncs                    []string // load functions whose result is merged with mergo.WithOverride
	optsDefault                   string   // package var holding the option-struct defaults (mergo sections)
	envKey                        string   // identifier of the env prefix constant, or a "literal"
}

var c15specs = []c15spec{
	{"cluster", "cluster_config.go", "configJSON", "Config", []string{"Config.applyConfigJSON"}, []string{"Config.toConfigJSON"}, []string{"Config.setDefaults", "Config.Default"}, nil, "", "configKey"},
	{"raft", "consensus/raft/config.go", "jsonConfig", "Config", []string{"Config.applyJSONConfig"}, []string{"Config.toJSONConfig"}, []string{"Config.Default"}, nil, "", "envConfigKey"},
	{"crdt", "consensus/crdt/config.go", "jsonConfig", "Config", []string{"Config.applyJSONConfig"}, []string{"Config.toJSONConfig"}, []string{"Config.Default"}, nil, "", "envConfigKey"},
	{"restapi", "api/rest/config.go", "jsonConfig", "Config", []string{"Config.applyJSONConfig", "Config.loadHTTPOptions", "Config.tlsOptions", "Config.loadLibp2pOptions"}, []string{"Config.toJSONConfig"}, []string{"Config.Default"}, nil, "", "envConfigKey"},
	{"ipfsproxy", "api/ipfsproxy/config.go", "jsonConfig", "Config", []string{"Config.applyJSONConfig"}, []string{"Config.toJSONConfig"}, []string{"Config.Default"}, nil, "", "envConfigKey"},
	{"ipfshttp", "ipfsconn/ipfshttp/config.go", "jsonConfig", "Config", []string{"Config.applyJSONConfig"}, []string{"Config.toJSONConfig"}, []string{"Config.Default"}, nil, "", "envConfigKey"},
	{"stateless", "pintracker/stateless/config.go", "jsonConfig", "Config", []string{"Config.applyJSONConfig"}, []string{"Config.toJSONConfig"}, []string{"Config.Default"}, nil, "", "envConfigKey"},
	{"pubsubmon", "monitor/pubsubmon/config.go", "jsonConfig", "Config", []string{"Config.applyJSONConfig"}, []string{"Config.toJSONConfig"}, []string{"Config.Default"}, nil, "", "envConfigKey"},
	{"disk", "informer/disk/config.go", "jsonConfig", "Config", []string{"Config.applyJSONConfig"}, []string{"Config.toJSONConfig"}, []string{"Config.Default"}, nil, "", "envConfigKey"},
	{"numpin", "informer/numpin/config.go", "jsonConfig", "Config", []string{"Config.applyJSONConfig"}, []string{"Config.toJSONConfig"}, []string{"Config.Default"}, nil, "", "envConfigKey"},
	{"metrics", "observations/config.go", "jsonMetricsConfig", "MetricsConfig", []string{"MetricsConfig.applyJSONConfig", "MetricsConfig.loadMetricsOptions"}, []string{"MetricsConfig.toJSONConfig"}, []string{"MetricsConfig.Default"}, nil, "", "metricsEnvConfigKey"},
	{"tracing", "observations/config.go", "jsonTracingConfig", "TracingConfig", []string{"TracingConfig.applyJSONConfig", "TracingConfig.loadTracingOptions"}, []string{"TracingConfig.toJSONConfig"}, []string{"TracingConfig.Default"}, nil, "", "tracingEnvConfigKey"},
	{"badger", "datastore/badger/config.go", "jsonConfig", "Config", []string{"Config.applyJSONConfig", "badgerOptions.Unmarshal"}, []string{"Config.toJSONConfig", "badgerOptions.Marshal"}, []string{"Config.Default"}, []string{"badgerOptions.Unmarshal"}, "DefaultBadgerOptions", "envConfigKey"},
	{"leveldb", "datastore/leveldb/config.go", "jsonConfig", "Config", []string{"Config.applyJSONConfig", "levelDBOptions.Unmarshal"}, []string{"Config.toJSONConfig", "levelDBOptions.Marshal"}, []string{"Config.Default"}, []string{"levelDBOptions.Unmarshal"}, "DefaultLevelDBOptions", "envConfigKey"},
	{"identity", "config/identity.go", "identityJSON", "Identity", []string{"Identity.applyIdentityJSON"}, []string{"Identity.toIdentityJSON"}, nil, nil, "", "configKey"},
}

// C15SectionNames lists the sections in table order.
func C15SectionNames() []string {
	var l []string
	for _, s := range c15specs {
		l = append(l, s.name)
	}
	return l
}

// C15Repo is the repository whose sources are read.
func C15Repo() string {
	if r := os.Getenv("VERIF_REPO"); r != "" {
		return r
	}
	return "/repo"
}

// ---------------------------------------------------------------------------

type c15file struct {
	fset    *token.FileSet
	f       *ast.File
	structs map[string]*ast.StructType
	funcs   map[string]*ast.FuncDecl // "Recv.Name" or "Name"
	consts  map[string]ast.Expr      // package-level const/var name -> value expr (nil if declared without value)
	ctypes  map[string]ast.Expr      // package-level const/var declared type
	initAsg map[string]ast.Expr      // "Var.Field" -> expr assigned in init()
	initSet map[string]bool          // package vars assigned as a whole in init()
}

func c15parse(path string) (*c15file, error) {
	fset := token.NewFileSet()
	f, err := parser.ParseFile(fset, path, nil, 0)
	if err != nil {
		return nil, err
	}
	cf := &c15file{fset: fset, f: f, structs: map[string]*ast.StructType{}, funcs: map[string]*ast.FuncDecl{},
		consts: map[string]ast.Expr{}, ctypes: map[string]ast.Expr{}, initAsg: map[string]ast.Expr{}, initSet: map[string]bool{}}
	for _, d := range f.Decls {
		switch d := d.(type) {
		case *ast.GenDecl:
			for _, s := range d.Specs {
				switch s := s.(type) {
				case *ast.TypeSpec:
					if st, ok := s.Type.(*ast.StructType); ok {
						cf.structs[s.Name.Name] = st
					}
				case *ast.ValueSpec:
					for i, n := range s.Names {
						if i < len(s.Values) {
							cf.consts[n.Name] = s.Values[i]
						} else {
							cf.consts[n.Name] = nil
						}
						cf.ctypes[n.Name] = s.Type
					}
				}
			}
		case *ast.FuncDecl:
			name := d.Name.Name
			if d.Recv != nil && len(d.Recv.List) == 1 {
				name = c15typeName(d.Recv.List[0].Type) + "." + name
			}
			cf.funcs[name] = d
			if name == "init" && d.Body != nil {
				for _, st := range d.Body.List {
					if as, ok := st.(*ast.AssignStmt); ok && len(as.Lhs) == 1 && len(as.Rhs) == 1 {
						switch l := as.Lhs[0].(type) {
						case *ast.SelectorExpr:
							cf.initAsg[cf.src(l)] = as.Rhs[0]
						case *ast.Ident:
							cf.initSet[l.Name] = true
						}
					}
				}
			}
		}
	}
	return cf, nil
}

// casts between an unsigned JSON field and the identically represented option type
var c15castOK = map[string]bool{"goleveldb.Compression": true, "goleveldb.Strict": true, "uint": true}

func c15typeName(e ast.Expr) string {
	switch t := e.(type) {
	case *ast.StarExpr:
		return c15typeName(t.X)
	case *ast.Ident:
		return t.Name
	}
	return ""
}

func (cf *c15file) src(n ast.Node) string {
	var b bytes.Buffer
	printer.Fprint(&b, cf.fset, n)
	return strings.Join(strings.Fields(b.String()), " ")
}

var c15units = map[string]int64{"Nanosecond": 1, "Microsecond": 1e3, "Millisecond": 1e6, "Second": 1e9, "Minute": 60e9, "Hour": 3600e9}

// eval evaluates the small constant expressions that appear as defaults.
func (cf *c15file) eval(e ast.Expr, depth int) C15Const {
	unk := C15Const{Kind: "unknown"}
	if e != nil {
		unk.S = cf.src(e)
	}
	if e == nil || depth > 8 {
		return unk
	}
	switch x := e.(type) {
	case *ast.ParenExpr:
		return cf.eval(x.X, depth+1)
	case *ast.BasicLit:
		switch x.Kind {
		case token.INT:
			if v, err := strconv.ParseInt(x.Value, 0, 64); err == nil {
				return C15Const{Kind: "int", I: v}
			}
		case token.FLOAT:
			return C15Const{Kind: "float", S: x.Value}
		case token.STRING:
			if s, err := strconv.Unquote(x.Value); err == nil {
				return C15Const{Kind: "str", S: s}
			}
		}
	case *ast.Ident:
		switch x.Name {
		case "true":
			return C15Const{Kind: "bool", I: 1}
		case "false":
			return C15Const{Kind: "bool", I: 0}
		case "nil":
			return C15Const{Kind: "nil"}
		}
		if v, ok := cf.consts[x.Name]; ok {
			if v == nil {
				// declared without a value: the zero value of its type, if that is evident
				if cf.initSet[x.Name] {
					return unk
				}
				switch cf.src(cf.ctypes[x.Name]) {
				case "time.Duration":
					return C15Const{Kind: "dur"}
				case "int", "int64", "uint64", "uint":
					return C15Const{Kind: "int"}
				case "string":
					return C15Const{Kind: "str"}
				case "bool":
					return C15Const{Kind: "bool"}
				}
				return unk
			}
			c := cf.eval(v, depth+1)
			if t := cf.ctypes[x.Name]; t != nil && cf.src(t) == "time.Duration" && c.Kind == "int" {
				c.Kind = "dur"
			}
			if t := cf.ctypes[x.Name]; t != nil && cf.src(t) == "float64" && c.Kind == "int" {
				c = C15Const{Kind: "float", S: strconv.FormatInt(c.I, 10)}
			}
			return c
		}
	case *ast.SelectorExpr:
		if id, ok := x.X.(*ast.Ident); ok && id.Name == "time" {
			if u, ok := c15units[x.Sel.Name]; ok {
				return C15Const{Kind: "dur", I: u}
			}
		}
	case *ast.UnaryExpr:
		c := cf.eval(x.X, depth+1)
		if x.Op == token.SUB && (c.Kind == "int" || c.Kind == "dur") {
			c.I = -c.I
			return c
		}
		if x.Op == token.SUB && c.Kind == "float" {
			c.S = "-" + c.S
			return c
		}
	case *ast.BinaryExpr:
		a, b := cf.eval(x.X, depth+1), cf.eval(x.Y, depth+1)
		num := func(c C15Const) bool { return c.Kind == "int" || c.Kind == "dur" }
		if num(a) && num(b) {
			k := "int"
			if a.Kind == "dur" || b.Kind == "dur" {
				k = "dur"
			}
			switch x.Op {
			case token.MUL:
				return C15Const{Kind: k, I: a.I * b.I}
			case token.ADD:
				return C15Const{Kind: k, I: a.I + b.I}
			case token.SUB:
				return C15Const{Kind: k, I: a.I - b.I}
			case token.SHL:
				return C15Const{Kind: k, I: a.I << uint(b.I)}
			}
		}
	case *ast.CompositeLit:
		if len(x.Elts) == 0 {
			return C15Const{Kind: "empty"}
		}
	}
	return unk
}

// ---------------------------------------------------------------------------

type c15node struct { // a field of the JSON struct tree
	goName, jsonName, jtype string
	omitEmpty, hidden       bool
	child                   string // nested struct type name ("" for leaves)
}

func (cf *c15file) structFields(tn string) []c15node {
	var out []c15node
	st := cf.structs[tn]
	if st == nil {
		return nil
	}
	for _, fl := range st.Fields.List {
		tag := ""
		if fl.Tag != nil {
			tag, _ = strconv.Unquote(fl.Tag.Value)
		}
		st := reflect.StructTag(tag)
		js := strings.Split(st.Get("json"), ",")
		for _, n := range fl.Names {
			nd := c15node{goName: n.Name, jsonName: js[0], jtype: cf.src(fl.Type), hidden: st.Get("hidden") == "true"}
			if nd.jsonName == "" {
				nd.jsonName = n.Name
			}
			for _, o := range js[1:] {
				if o == "omitempty" {
					nd.omitEmpty = true
				}
			}
			if c := c15typeName(fl.Type); c != "" && cf.structs[c] != nil {
				nd.child = c
			}
			out = append(out, nd)
		}
	}
	return out
}

type c15use struct {
	kind    string
	dest    string
	mergo   bool
	omit    string // save side: name/expression of the default the value is compared with
	literal bool
	codec   string
}

type c15an struct {
	cf       *c15file
	sp       c15spec
	groups   map[string][]string // nested struct type -> Go path of the group field
	leaves   map[string]bool     // Go path (dotted) -> is leaf
	uses     map[string][]c15use // dotted Go path -> uses
	consumed map[ast.Node]bool
	vars     map[string]string // identifier -> dotted Go path prefix ("" = the JSON struct root) within the current function
	locals   map[string]c15use // local bound to a JSON field: kind alias|parseOrZero, dest = dotted path
	mergo    bool
	mergoDst string
	inMergo  bool
	emptyZero map[string]bool // JSON leaf rewritten from "" to "0s" before ParseDurations
	enumLoad  [][2]string
}

func (a *c15an) jsonTypes() map[string][]string {
	m := map[string][]string{a.sp.jsonType: {}}
	for t, p := range a.groups {
		m[t] = p
	}
	return m
}

// bindVars finds the identifiers of a function that denote the JSON struct or one of its nested structs.
func (a *c15an) bindVars(fd *ast.FuncDecl) {
	a.vars = map[string]string{}
	a.locals = map[string]c15use{}
	jt := a.jsonTypes()
	bind := func(names []*ast.Ident, t ast.Expr) {
		if p, ok := jt[c15typeName(t)]; ok {
			for _, n := range names {
				a.vars[n.Name] = strings.Join(p, ".")
			}
		}
	}
	if fd.Recv != nil {
		for _, f := range fd.Recv.List {
			bind(f.Names, f.Type)
		}
	}
	for _, f := range fd.Type.Params.List {
		bind(f.Names, f.Type)
	}
	if fd.Type.Results != nil {
		for _, f := range fd.Type.Results.List {
			bind(f.Names, f.Type)
		}
	}
	ast.Inspect(fd.Body, func(n ast.Node) bool {
		as, ok := n.(*ast.AssignStmt)
		if !ok || len(as.Lhs) != 1 || len(as.Rhs) != 1 {
			return true
		}
		id, ok := as.Lhs[0].(*ast.Ident)
		if !ok {
			return true
		}
		rhs := as.Rhs[0]
		if u, ok := rhs.(*ast.UnaryExpr); ok && u.Op == token.AND {
			rhs = u.X
		}
		if cl, ok := rhs.(*ast.CompositeLit); ok {
			bind([]*ast.Ident{id}, cl.Type)
		}
		return true
	})
}

// resolve maps an expression to the dotted Go path of a JSON field, if it is one.
func (a *c15an) resolve(e ast.Expr) (string, bool) {
	switch x := e.(type) {
	case *ast.ParenExpr:
		return a.resolve(x.X)
	case *ast.Ident:
		if p, ok := a.vars[x.Name]; ok {
			return p, true
		}
	case *ast.SelectorExpr:
		if p, ok := a.resolve(x.X); ok {
			q := x.Sel.Name
			if p != "" {
				q = p + "." + q
			}
			if _, known := a.leaves[q]; known {
				return q, true
			}
		}
	}
	return "", false
}

func (a *c15an) isLeaf(e ast.Expr) (string, bool) {
	p, ok := a.resolve(e)
	if ok && p != "" && a.leaves[p] {
		return p, true
	}
	return "", false
}

// leafOrLocal resolves a JSON leaf, or a local variable bound to one.
func (a *c15an) leafOrLocal(e ast.Expr) (path string, via string, ok bool) {
	if p, ok := a.isLeaf(e); ok {
		return p, "", true
	}
	if id, ok := e.(*ast.Ident); ok {
		if l, ok := a.locals[id.Name]; ok {
			return l.dest, l.kind, true
		}
	}
	return "", "", false
}

func (a *c15an) add(path string, u c15use, nodes ...ast.Node) {
	u.mergo = a.inMergo
	a.uses[path] = append(a.uses[path], u)
	for _, n := range nodes {
		a.consume(n)
	}
}

func (a *c15an) consume(n ast.Node) {
	ast.Inspect(n, func(m ast.Node) bool {
		if m != nil {
			a.consumed[m] = true
		}
		return true
	})
}

func (a *c15an) destOf(e ast.Expr) string {
	if u, ok := e.(*ast.UnaryExpr); ok && u.Op == token.AND {
		e = u.X
	}
	s := a.cf.src(e)
	if i := strings.Index(s, "."); i >= 0 {
		return s[i+1:]
	}
	return s
}

func isCall(e ast.Expr, pkg, fn string) (*ast.CallExpr, bool) {
	c, ok := e.(*ast.CallExpr)
	if !ok {
		return nil, false
	}
	switch f := c.Fun.(type) {
	case *ast.SelectorExpr:
		if id, ok := f.X.(*ast.Ident); ok && id.Name == pkg && f.Sel.Name == fn {
			return c, true
		}
	case *ast.Ident:
		if pkg == "" && f.Name == fn {
			return c, true
		}
	}
	return nil, false
}

// ---- load side ----

func (a *c15an) loadStmts(list []ast.Stmt) {
	for i := 0; i < len(list); {
		if n := a.loadCodecPattern(list[i:]); n > 0 {
			i += n
			continue
		}
		a.loadStmt(list[i])
		i++
	}
}

func (a *c15an) loadCall(c *ast.CallExpr, checked bool) bool {
	if call, ok := isCall(c, "config", "SetIfNotDefault"); ok && len(call.Args) == 2 {
		if p, via, ok := a.leafOrLocal(call.Args[0]); ok {
			k := "setIfNotDefault"
			if via == "parseOrZero" {
				k = "parseOrZeroSIND"
			}
			a.add(p, c15use{kind: k, dest: a.destOf(call.Args[1])}, call)
			return true
		}
	}
	if call, ok := isCall(c, "config", "ParseDurations"); ok {
		for _, arg := range call.Args[1:] {
			u, ok := arg.(*ast.UnaryExpr)
			if !ok {
				continue
			}
			cl, ok := u.X.(*ast.CompositeLit)
			if !ok {
				continue
			}
			var p, dst string
			for _, el := range cl.Elts {
				kv, ok := el.(*ast.KeyValueExpr)
				if !ok {
					continue
				}
				switch a.cf.src(kv.Key) {
				case "Duration":
					if q, via, ok := a.leafOrLocal(kv.Value); ok && via == "" {
						p = q
					}
				case "Dst":
					dst = a.destOf(kv.Value)
				}
			}
			if p != "" {
				k := "parseDurations"
				if !checked {
					k = "parseDurationsUnchecked"
				} else if a.emptyZero[p] {
					k = "emptyZeroParseDurations"
				}
				a.add(p, c15use{kind: k, dest: dst}, cl)
			}
		}
		return true
	}
	return false
}

func (a *c15an) loadStmt(st ast.Stmt) {
	switch s := st.(type) {
	case *ast.ExprStmt:
		if c, ok := s.X.(*ast.CallExpr); ok {
			a.loadCall(c, false)
		}
	case *ast.ReturnStmt:
		for _, r := range s.Results {
			if c, ok := r.(*ast.CallExpr); ok {
				a.loadCall(c, true)
			}
		}
	case *ast.AssignStmt:
		// err = config.ParseDurations(...)
		if len(s.Rhs) == 1 {
			if c, ok := s.Rhs[0].(*ast.CallExpr); ok {
				if _, isPD := isCall(c, "config", "ParseDurations"); isPD {
					a.loadCall(c, true)
					return
				}
				// mergo
				if call, ok := isCall(c, "mergo", "Merge"); ok && len(call.Args) == 3 && a.cf.src(call.Args[2]) == "mergo.WithOverride" {
					a.mergo = true
					a.mergoDst = a.destOf(call.Args[0])
				}
				// x := parseDuration(jcfg.F)  /  x, _ := time.ParseDuration(jcfg.F)
				if len(c.Args) == 1 {
					if p, ok := a.isLeaf(c.Args[0]); ok {
						_, pd1 := isCall(c, "", "parseDuration")
						_, pd2 := isCall(c, "time", "ParseDuration")
						ignoresErr := pd1 || (pd2 && len(s.Lhs) == 2 && a.cf.src(s.Lhs[1]) == "_")
						if id, isId := s.Lhs[0].(*ast.Ident); isId && ignoresErr {
							a.locals[id.Name] = c15use{kind: "parseOrZero", dest: p}
							a.consume(c)
							a.consume(id)
							return
						}
					}
				}
			}
		}
		if len(s.Lhs) == 1 && len(s.Rhs) == 1 {
			lhs, rhs := s.Lhs[0], s.Rhs[0]
			// x := jcfg.F   (alias)
			if id, ok := lhs.(*ast.Ident); ok && s.Tok == token.DEFINE {
				if p, ok := a.isLeaf(rhs); ok {
					a.locals[id.Name] = c15use{kind: "alias", dest: p}
					a.consume(rhs)
					a.consume(id)
					return
				}
			}
			// dst = jcfg.F | local
			if _, isSel := lhs.(*ast.SelectorExpr); isSel {
				if p, via, ok := a.leafOrLocal(rhs); ok {
					k := "direct"
					if via == "parseOrZero" {
						k = "parseOrZeroDirect"
					}
					a.add(p, c15use{kind: k, dest: a.destOf(lhs)}, rhs)
					return
				}
				// dst = T(jcfg.F) for the value-preserving integer casts of the option structs
				if c, ok := rhs.(*ast.CallExpr); ok && len(c.Args) == 1 && c15castOK[a.cf.src(c.Fun)] {
					if p, via, ok := a.leafOrLocal(c.Args[0]); ok && via == "" {
						a.add(p, c15use{kind: "direct", dest: a.destOf(lhs)}, c.Args[0])
						return
					}
				}
				// dst = T{K: jcfg.F, ...}
				if cl, ok := rhs.(*ast.CompositeLit); ok {
					for _, el := range cl.Elts {
						if kv, ok := el.(*ast.KeyValueExpr); ok {
							if p, via, ok := a.leafOrLocal(kv.Value); ok && via == "" {
								a.add(p, c15use{kind: "direct", dest: a.destOf(lhs) + "." + a.cf.src(kv.Key)}, kv.Value)
							}
						}
					}
					return
				}
			}
		}
		// mergo inside an if-init is handled by IfStmt
	case *ast.IfStmt:
		if s.Init != nil {
			// if err := mergo.Merge(...); err != nil
			if as, ok := s.Init.(*ast.AssignStmt); ok && len(as.Rhs) == 1 {
				if call, ok := isCall(as.Rhs[0], "mergo", "Merge"); ok && len(call.Args) == 3 && a.cf.src(call.Args[2]) == "mergo.WithOverride" {
					a.mergo = true
					a.mergoDst = a.destOf(call.Args[0])
				}
			}
			a.loadStmt(s.Init)
		}
		// pointerOptional: if P != nil { dst = *P }
		if be, ok := s.Cond.(*ast.BinaryExpr); ok && s.Else == nil && len(s.Body.List) == 1 {
			if p, via, ok := a.leafOrLocal(be.X); ok && via != "parseOrZero" && be.Op == token.NEQ && a.cf.src(be.Y) == "nil" {
				if as, ok := s.Body.List[0].(*ast.AssignStmt); ok && len(as.Lhs) == 1 && len(as.Rhs) == 1 {
					if st, ok := as.Rhs[0].(*ast.StarExpr); ok {
						if q, _, ok := a.leafOrLocal(st.X); ok && q == p {
							a.add(p, c15use{kind: "pointerOptional", dest: a.destOf(as.Lhs[0])}, be.X, st)
							return
						}
					}
				}
			}
			// zeroMeansDefault: if P == 0 { dst = Default } else { dst = P }
		}
		if be, ok := s.Cond.(*ast.BinaryExpr); ok && s.Else != nil && len(s.Body.List) == 1 {
			if p, ok := a.isLeaf(be.X); ok && be.Op == token.EQL && a.cf.src(be.Y) == "0" {
				if eb, ok := s.Else.(*ast.BlockStmt); ok && len(eb.List) == 1 {
					a1, ok1 := s.Body.List[0].(*ast.AssignStmt)
					a2, ok2 := eb.List[0].(*ast.AssignStmt)
					if ok1 && ok2 && len(a1.Lhs) == 1 && len(a2.Lhs) == 1 && a.cf.src(a1.Lhs[0]) == a.cf.src(a2.Lhs[0]) {
						if q, ok := a.isLeaf(a2.Rhs[0]); ok && q == p {
							if _, isJ := a.isLeaf(a1.Rhs[0]); !isJ {
								a.add(p, c15use{kind: "zeroMeansDefault", dest: a.destOf(a1.Lhs[0])}, be.X, a2.Rhs[0])
								return
							}
						}
					}
				}
			}
		}
		a.loadStmts(s.Body.List)
		if s.Else != nil {
			a.loadStmt(s.Else)
		}
	case *ast.BlockStmt:
		a.loadStmts(s.List)
	case *ast.ForStmt:
		a.loadStmts(s.Body.List)
	case *ast.RangeStmt:
		a.loadStmts(s.Body.List)
	case *ast.SwitchStmt:
		for _, c := range s.Body.List {
			if cc, ok := c.(*ast.CaseClause); ok {
				a.loadStmts(cc.Body)
			}
		}
	}
}

// ---- save side ----

func (a *c15an) saveValue(v ast.Expr) (kind, src string) {
	e := v
	if u, ok := e.(*ast.UnaryExpr); ok && u.Op == token.AND {
		e = u.X
	}
	isChain := func(x ast.Expr) bool {
		for {
			switch y := x.(type) {
			case *ast.SelectorExpr:
				x = y.X
			case *ast.Ident:
				_, isJSON := a.vars[y.Name]
				return !isJSON
			default:
				return false
			}
		}
	}
	if _, ok := e.(*ast.SelectorExpr); ok && isChain(e) {
		return "direct", a.destOf(e)
	}
	if id, ok := e.(*ast.Ident); ok {
		if l, ok := a.locals[id.Name]; ok && l.kind == "cfgalias" {
			return "direct", l.dest
		}
	}
	if c, ok := e.(*ast.CallExpr); ok && len(c.Args) == 0 {
		if sel, ok := c.Fun.(*ast.SelectorExpr); ok && sel.Sel.Name == "String" {
			if isChain(sel.X) {
				if _, isSel := sel.X.(*ast.SelectorExpr); isSel {
					return "durString", a.destOf(sel.X)
				}
			}
			if id, ok := sel.X.(*ast.Ident); ok {
				if l, ok := a.locals[id.Name]; ok && l.kind == "cfgalias" {
					return "durString", l.dest
				}
			}
		}
	}
	if bl, ok := e.(*ast.BasicLit); ok && (bl.Value == `""` || bl.Value == "0") {
		return "literal", ""
	}
	if id, ok := e.(*ast.Ident); ok {
		if l, ok := a.locals[id.Name]; ok && l.kind == "listalias" {
			return "codecListPrint", l.dest
		}
		if l, ok := a.locals[id.Name]; ok && l.kind == "keyalias" {
			return "codecPrint", l.dest
		}
	}
	if c, ok := e.(*ast.CallExpr); ok && len(c.Args) == 1 {
		fn := a.cf.src(c.Fun)
		arg := c.Args[0]
		_, argSel := arg.(*ast.SelectorExpr)
		switch {
		case fn == "ipfsconfig.Strings":
			if id, ok := arg.(*ast.Ident); ok {
				if l, ok := a.locals[id.Name]; ok && l.kind == "listalias" {
					return "codecListPrint", l.dest
				}
			}
		case fn == "api.PeersToStrings" && argSel && isChain(arg):
			return "codecListPrint", a.destOf(arg)
		case (fn == "EncodeProtectorKey" || fn == "peer.Encode") && argSel && isChain(arg):
			return "codecPrint", a.destOf(arg)
		case c15castOK[fn] && argSel && isChain(arg):
			return "direct", a.destOf(arg)
		case fn == "int" || fn == "int64":
			// int(cfg.G / time.Second): integer seconds, lossy
			if be, ok := arg.(*ast.BinaryExpr); ok && be.Op == token.QUO && a.cf.src(be.Y) == "time.Second" {
				if _, isSel := be.X.(*ast.SelectorExpr); isSel && isChain(be.X) {
					return "durSeconds", a.destOf(be.X)
				}
			}
		}
	}
	if c, ok := e.(*ast.CallExpr); ok && len(c.Args) == 0 {
		if sel, ok := c.Fun.(*ast.SelectorExpr); ok && sel.Sel.Name == "Pretty" {
			if _, isSel := sel.X.(*ast.SelectorExpr); isSel && isChain(sel.X) {
				return "codecPrint", a.destOf(sel.X)
			}
		}
	}
	return "custom", ""
}

func (a *c15an) saveStmts(list []ast.Stmt, omit string, omitSrc string, condOther bool) {
	for i := 0; i < len(list); {
		if omit == "" && !condOther {
			if n := a.saveCodecPattern(list[i:]); n > 0 {
				i += n
				continue
			}
		}
		a.saveStmt(list[i], omit, omitSrc, condOther)
		i++
	}
}

func (a *c15an) saveAssign(path string, v ast.Expr, omit, omitSrc string, condOther bool, nodes ...ast.Node) {
	k, src := a.saveValue(v)
	u := c15use{kind: k, dest: src}
	if k == "literal" {
		u.literal = true
	}
	if condOther {
		u.kind = "custom"
	} else if omit != "" && !u.literal {
		if src != omitSrc {
			u.kind = "custom"
		} else {
			u.omit = omit
		}
	}
	a.add(path, u, nodes...)
}

func (a *c15an) saveComposite(cl *ast.CompositeLit, omit, omitSrc string, condOther bool) bool {
	base, ok := a.jsonTypes()[c15typeName(cl.Type)]
	if !ok {
		return false
	}
	for _, el := range cl.Elts {
		kv, ok := el.(*ast.KeyValueExpr)
		if !ok {
			continue
		}
		p := strings.Join(append(append([]string{}, base...), a.cf.src(kv.Key)), ".")
		if a.leaves[p] {
			a.saveAssign(p, kv.Value, omit, omitSrc, condOther, kv.Key)
		}
	}
	return true
}

func (a *c15an) saveStmt(st ast.Stmt, omit, omitSrc string, condOther bool) {
	switch s := st.(type) {
	case *ast.AssignStmt:
		if len(s.Lhs) == 1 && len(s.Rhs) == 1 {
			lhs, rhs := s.Lhs[0], s.Rhs[0]
			if p, ok := a.isLeaf(lhs); ok {
				a.saveAssign(p, rhs, omit, omitSrc, condOther, lhs)
				return
			}
		}
		for _, rhs := range s.Rhs {
			e := rhs
			if u, ok := e.(*ast.UnaryExpr); ok && u.Op == token.AND {
				e = u.X
			}
			if cl, ok := e.(*ast.CompositeLit); ok {
				a.saveComposite(cl, omit, omitSrc, condOther)
			}
		}
	case *ast.ReturnStmt:
		for _, rhs := range s.Results {
			e := rhs
			if u, ok := e.(*ast.UnaryExpr); ok && u.Op == token.AND {
				e = u.X
			}
			if cl, ok := e.(*ast.CompositeLit); ok {
				a.saveComposite(cl, omit, omitSrc, condOther)
			}
		}
	case *ast.IfStmt:
		// if cfg.G != DefaultX { jcfg.F = ... }   |   if ttl := cfg.G; ttl != DefaultX { ... }
		o, osrc, other := omit, omitSrc, condOther
		if s.Init != nil {
			if as, ok := s.Init.(*ast.AssignStmt); ok && len(as.Lhs) == 1 && len(as.Rhs) == 1 && as.Tok == token.DEFINE {
				if id, ok := as.Lhs[0].(*ast.Ident); ok {
					if k, src := a.saveValue(as.Rhs[0]); k == "direct" {
						a.locals[id.Name] = c15use{kind: "cfgalias", dest: src}
					}
				}
			}
		}
		matched := false
		if be, ok := s.Cond.(*ast.BinaryExpr); ok && be.Op == token.NEQ && omit == "" && s.Else == nil {
			if k, src := a.saveValue(be.X); k == "direct" {
				if c := a.cf.eval(be.Y, 0); c.Known() && c.Kind != "nil" {
					if _, isLit := be.Y.(*ast.BasicLit); !isLit {
						o, osrc, matched = a.cf.src(be.Y), src, true
					}
				}
			}
		}
		if !matched {
			other = true
		}
		a.saveStmts(s.Body.List, o, osrc, other)
		if s.Else != nil {
			a.saveStmt(s.Else, "", "", true)
		}
	case *ast.BlockStmt:
		a.saveStmts(s.List, omit, omitSrc, condOther)
	case *ast.ForStmt:
		a.saveStmts(s.Body.List, "", "", true)
	case *ast.RangeStmt:
		a.saveStmts(s.Body.List, "", "", true)
	case *ast.DeclStmt, *ast.DeferStmt, *ast.ExprStmt:
	}
}

// unconsumed marks every remaining reference to a JSON leaf as a custom use.
func (a *c15an) unconsumed(body ast.Node) {
	ast.Inspect(body, func(n ast.Node) bool {
		if n == nil || a.consumed[n] {
			return !a.consumed[n]
		}
		if e, ok := n.(ast.Expr); ok {
			if p, ok := a.isLeaf(e); ok {
				a.add(p, c15use{kind: "custom"})
				return false
			}
		}
		if id, ok := n.(*ast.Ident); ok {
			if l, ok := a.locals[id.Name]; ok && l.kind != "cfgalias" && l.kind != "listalias" && l.kind != "keyalias" {
				a.add(l.dest, c15use{kind: "custom"})
			}
		}
		return true
	})
}

// ---------------------------------------------------------------------------

func c15ty(jtype string, load, save string) string {
	switch jtype {
	case "int", "int64":
		return "int"
	case "uint", "uint32", "uint64":
		return "uint"
	case "float64":
		return "float"
	case "bool":
		return "bool"
	case "*float64":
		return "ptrfloat"
	case "*options.FileLoadingMode":
		return "ptrint"
	case "string":
		if strings.HasPrefix(load, "parse") || load == "emptyZeroParseDurations" || save == "durString" || save == "omitIfDefaultDur" || save == "durSeconds" {
			return "dur"
		}
		return "str"
	case "[]string", "ipfsconfig.Strings", "[]float64":
		return "list"
	}
	if strings.HasPrefix(jtype, "map[") {
		return "map"
	}
	return "other"
}

func (a *c15an) condConj(e ast.Expr, guard string) []C15Conj {
	cf := a.cf
	opq := []C15Conj{{Guard: guard, Opaque: true, Text: cf.src(e)}}
	switch x := e.(type) {
	case *ast.ParenExpr:
		return a.condConj(x.X, guard)
	case *ast.BinaryExpr:
		if x.Op == token.LOR {
			l, r := a.condConj(x.X, guard), a.condConj(x.Y, guard)
			return append(l, r...)
		}
		ops := map[token.Token]string{token.LSS: "lt", token.LEQ: "le", token.GTR: "gt", token.GEQ: "ge", token.EQL: "eq", token.NEQ: "ne"}
		op, ok := ops[x.Op]
		if !ok {
			return opq
		}
		field := ""
		switch l := x.X.(type) {
		case *ast.SelectorExpr:
			if id, ok := rootIdent(l); ok && id == "cfg" {
				field = a.destOf(l)
			}
		case *ast.CallExpr:
			if c, ok := isCall(l, "", "len"); ok && len(c.Args) == 1 {
				if sel, ok := c.Args[0].(*ast.SelectorExpr); ok {
					if id, ok := rootIdent(sel); ok && id == "cfg" {
						field = "len:" + a.destOf(sel)
					}
				}
			}
		}
		c := cf.eval(x.Y, 0)
		if field == "" || !c.Known() {
			return opq
		}
		return []C15Conj{{Guard: guard, Field: field, Op: op, Const: c, Text: cf.src(e)}}
	}
	return opq
}

func rootIdent(e ast.Expr) (string, bool) {
	for {
		switch y := e.(type) {
		case *ast.SelectorExpr:
			e = y.X
		case *ast.Ident:
			return y.Name, true
		default:
			return "", false
		}
	}
}

func (a *c15an) validate(list []ast.Stmt, guard string) []C15Conj {
	var out []C15Conj
	rejects := func(body []ast.Stmt) bool {
		if len(body) != 1 {
			return false
		}
		switch b := body[0].(type) {
		case *ast.ReturnStmt:
			return true
		case *ast.AssignStmt:
			return len(b.Lhs) == 1 && a.cf.src(b.Lhs[0]) == "err"
		}
		return false
	}
	for _, st := range list {
		switch s := st.(type) {
		case *ast.IfStmt:
			if s.Init == nil && s.Else == nil && rejects(s.Body.List) {
				out = append(out, a.condConj(s.Cond, guard)...)
				continue
			}
			if s.Init == nil && s.Else == nil && guard == "" {
				if sel, ok := s.Cond.(*ast.SelectorExpr); ok {
					if id, ok := rootIdent(sel); ok && id == "cfg" {
						out = append(out, a.validate(s.Body.List, a.destOf(sel))...)
						continue
					}
				}
			}
			out = append(out, C15Conj{Guard: guard, Opaque: true, Text: a.cf.src(s.Cond)})
		case *ast.SwitchStmt:
			if s.Tag == nil && s.Init == nil {
				for _, c := range s.Body.List {
					cc := c.(*ast.CaseClause)
					for _, e := range cc.List {
						out = append(out, a.condConj(e, guard)...)
					}
				}
				continue
			}
			out = append(out, C15Conj{Guard: guard, Opaque: true, Text: "switch"})
		case *ast.ReturnStmt:
			if len(s.Results) == 1 {
				t := a.cf.src(s.Results[0])
				if t != "nil" && t != "err" {
					out = append(out, C15Conj{Guard: guard, Opaque: true, Text: t})
				}
			}
		case *ast.AssignStmt, *ast.DeclStmt:
			// local helper variables: later references are opaque anyway
		default:
			out = append(out, C15Conj{Guard: guard, Opaque: true, Text: a.cf.src(st)})
		}
	}
	return out
}

func c15one(repo string, sp c15spec) (C15Section, error) {
	sec := C15Section{Name: sp.name, File: sp.file}
	cf, err := c15parse(filepath.Join(repo, sp.file))
	if err != nil {
		return sec, err
	}
	if cf.structs[sp.jsonType] == nil {
		return sec, fmt.Errorf("%s: struct %s not found", sp.file, sp.jsonType)
	}
	// env prefix
	if v, ok := cf.consts[sp.envKey]; ok {
		if c := cf.eval(v, 0); c.Kind == "str" {
			sec.EnvPrefix = c.S
		}
	}
	if sec.EnvPrefix == "" {
		return sec, fmt.Errorf("%s: env prefix %s not evident", sp.file, sp.envKey)
	}
	a := &c15an{cf: cf, sp: sp, groups: map[string][]string{}, leaves: map[string]bool{}, emptyZero: map[string]bool{}}
	type leaf struct {
		goPath, jsPath []string
		nd             c15node
		hidden         bool
	}
	var leaves []leaf
	nestedHidden := map[string]bool{} // Go path prefix carrying a hidden tag below the top level
	var walk func(tn string, goP, jsP []string, hidden bool) error
	walk = func(tn string, goP, jsP []string, hidden bool) error {
		for _, nd := range cf.structFields(tn) {
			g := append(append([]string{}, goP...), nd.goName)
			j := append(append([]string{}, jsP...), nd.jsonName)
			if nd.child != "" {
				if _, dup := a.groups[nd.child]; dup {
					return fmt.Errorf("%s: nested type %s used twice", sp.file, nd.child)
				}
				a.groups[nd.child] = g
				a.leaves[strings.Join(g, ".")] = false
				if nd.hidden && len(goP) > 0 {
					nestedHidden[strings.Join(g, ".")] = true
				}
				if err := walk(nd.child, g, j, hidden || (nd.hidden && len(goP) == 0)); err != nil {
					return err
				}
				continue
			}
			a.leaves[strings.Join(g, ".")] = true
			leaves = append(leaves, leaf{g, j, nd, hidden || (nd.hidden && len(goP) == 0)})
			if nd.hidden && len(goP) > 0 {
				nestedHidden[strings.Join(g, ".")] = true
			}
		}
		return nil
	}
	if err := walk(sp.jsonType, nil, nil, false); err != nil {
		return sec, err
	}
	run := func(names []string, save bool) (map[string][]c15use, error) {
		a.uses = map[string][]c15use{}
		a.mergo = false
		for _, fn := range names {
			fd := cf.funcs[fn]
			if fd == nil || fd.Body == nil {
				return nil, fmt.Errorf("%s: function %s not found", sp.file, fn)
			}
			a.consumed = map[ast.Node]bool{}
			a.bindVars(fd)
			a.inMergo = false
			for _, m := range sp.mergoFuncs {
				if m == fn && !save {
					a.inMergo = true
				}
			}
			if save {
				a.saveStmts(fd.Body.List, "", "", false)
			} else {
				a.loadStmts(fd.Body.List)
			}
			a.unconsumed(fd.Body)
		}
		return a.uses, nil
	}
	loadUses, err := run(sp.load, false)
	if err != nil {
		return sec, err
	}
	mergoSeen, mergoDst := a.mergo, a.mergoDst
	saveUses, err := run(sp.save, true)
	if err != nil {
		return sec, err
	}
	// defaults: Config field path -> const
	defaults := map[string]C15Const{}
	for _, fn := range sp.def {
		fd := cf.funcs[fn]
		if fd == nil {
			return sec, fmt.Errorf("%s: function %s not found", sp.file, fn)
		}
		ast.Inspect(fd.Body, func(n ast.Node) bool {
			as, ok := n.(*ast.AssignStmt)
			if !ok || len(as.Lhs) != 1 || len(as.Rhs) != 1 {
				return true
			}
			sel, ok := as.Lhs[0].(*ast.SelectorExpr)
			if !ok {
				return true
			}
			if id, ok := rootIdent(sel); !ok || id != "cfg" {
				return true
			}
			d := a.destOf(sel)
			if cl, ok := as.Rhs[0].(*ast.CompositeLit); ok && len(cl.Elts) > 0 {
				for _, el := range cl.Elts {
					if kv, ok := el.(*ast.KeyValueExpr); ok {
						defaults[d+"."+cf.src(kv.Key)] = cf.eval(kv.Value, 0)
					}
				}
				return true
			}
			defaults[d] = cf.eval(as.Rhs[0], 0)
			return true
		})
	}
	// Validate
	vname := sp.cfgType + ".Validate"
	if fd := cf.funcs[vname]; fd != nil && fd.Body != nil {
		a.vars = map[string]string{}
		sec.Validate = a.validate(fd.Body.List, "")
		sec.VConj = a.validateConjs(fd)
	} else {
		return sec, fmt.Errorf("%s: %s not found", sp.file, vname)
	}

	sec.EnumLoad = a.enumLoad
	if len(a.enumLoad) > 0 {
		// the String() method whose constants are exactly the ones the switch assigns
		for _, pairs := range cf.enumSaveTable() {
			names := map[string]bool{}
			for _, p := range pairs {
				names[p[0]] = true
			}
			all := true
			for _, p := range a.enumLoad {
				if !names[p[1]] {
					all = false
				}
			}
			if all {
				sec.EnumSave = pairs
			}
		}
	}
	for _, lf := range leaves {
		key := strings.Join(lf.goPath, ".")
		f := C15Field{Section: sp.name, Path: lf.jsPath, GoPath: lf.goPath, JType: lf.nd.jtype,
			OmitEmpty: lf.nd.omitEmpty, Hidden: lf.hidden, Default: C15Const{Kind: "unknown"}, OmitConst: C15Const{Kind: "unknown"}}
		// load kind
		lu := loadUses[key]
		f.Load = "none"
		if len(lu) > 0 {
			var plain, viaMergo []c15use
			for _, u := range lu {
				if u.mergo {
					viaMergo = append(viaMergo, u)
				} else {
					plain = append(plain, u)
				}
			}
			pick := plain
			if len(plain) == 0 {
				pick = viaMergo
			}
			f.Load, f.Dest, f.Codec = pick[0].kind, pick[0].dest, pick[0].codec
			for _, u := range pick[1:] {
				if u.kind != f.Load {
					f.Load = "custom"
				}
			}
			if len(plain) == 0 {
				// reached only through the merged option struct
				if mergoDst != "" && f.Dest != "" {
					f.Dest = mergoDst + "." + f.Dest
				}
				switch {
				case !mergoSeen:
					f.Load = "custom"
				case f.Load == "direct":
					f.Load = "mergo"
				case f.Load == "pointerOptional":
					f.Load = "custom" // a nil-guarded pointer merged without an explicit override
				default:
					f.Load = "custom"
				}
			} else if len(viaMergo) > 0 {
				for _, u := range viaMergo {
					if u.kind != f.Load && u.kind != "direct" {
						f.Load = "custom"
					}
				}
			}
		}
		// save kind
		su := saveUses[key]
		f.Save = "none"
		var real []c15use
		for _, u := range su {
			if !u.literal {
				real = append(real, u)
			}
		}
		if len(real) == 1 {
			u := real[0]
			f.Save, f.Src = u.kind, u.dest
			if u.omit != "" && u.kind != "custom" {
				if ex, err := parser.ParseExpr(u.omit); err == nil {
					f.OmitConst = cf.eval(ex, 0)
				}
				if u.kind == "durString" {
					f.Save = "omitIfDefaultDur"
				} else {
					f.Save = "omitIfDefault"
				}
			}
		} else if len(real) > 1 {
			f.Save = "custom"
		} else if len(su) > 0 {
			f.Save = "custom" // only a literal is ever stored
		}
		isDurLoad := strings.HasPrefix(f.Load, "parse") || f.Load == "emptyZeroParseDurations"
		if f.Save == "durString" && (f.Load == "codecAlways" || f.Load == "codecNonEmpty") && (f.Codec == "maddr" || f.Codec == "enum") {
			f.Save = "codecPrint" // String() of a multiaddress / of an enumeration constant
		} else if (f.Save == "durString" || f.Save == "omitIfDefaultDur") && !isDurLoad {
			f.Save = "custom" // String() of something that is not loaded as a duration
		}
		if f.Codec == "" && strings.HasPrefix(f.Save, "codec") {
			f.Save = "custom" // printed but not parsed
		}
		for pre := range nestedHidden {
			if key == pre || strings.HasPrefix(key, pre+".") {
				f.HiddenNested = true
			}
		}
		f.Ty = c15ty(f.JType, f.Load, f.Save)
		// default
		dkey := f.Dest
		if dkey == "" {
			dkey = f.Src
		}
		if sp.optsDefault != "" && mergoDst != "" && strings.HasPrefix(dkey, mergoDst+".") {
			// option structs: the package variable, as far as init() shows it
			gofield := lf.goPath[len(lf.goPath)-1]
			if i := strings.LastIndex(f.Dest, "."); i >= 0 {
				gofield = f.Dest[i+1:]
			}
			if e, ok := cf.initAsg[sp.optsDefault+"."+gofield]; ok {
				f.Default = cf.eval(e, 0)
			} else if v, declared := cf.consts[sp.optsDefault]; declared && v == nil && !cf.initSet[sp.optsDefault] {
				f.Default = c15zero(f.Ty)
			}
		} else if c, ok := defaults[dkey]; ok {
			f.Default = c
		}
		if f.Ty == "str" && f.Default.Kind == "dur" {
			f.Ty = "dur" // a string field whose Config field is a time.Duration (custom load/save)
		}
		if f.Ty == "dur" && f.Default.Kind == "int" {
			f.Default.Kind = "dur"
		}
		if f.Ty == "dur" && f.OmitConst.Kind == "int" {
			f.OmitConst.Kind = "dur"
		}
		if (f.Ty == "float" || f.Ty == "ptrfloat") && f.Default.Kind == "int" {
			f.Default = C15Const{Kind: "float", S: strconv.FormatInt(f.Default.I, 10)}
		}
		for _, c := range sec.Validate {
			if !c.Opaque && c.Guard == "" && c.Field == dkey && dkey != "" {
				f.Rej = append(f.Rej, c)
			}
		}
		sec.Fields = append(sec.Fields, f)
	}
	C15ConstOpaque(&sec)
	return sec, nil
}

func c15zero(ty string) C15Const {
	switch ty {
	case "int", "uint", "ptrint":
		return C15Const{Kind: "int"}
	case "float", "ptrfloat":
		return C15Const{Kind: "float", S: "0"}
	case "bool":
		return C15Const{Kind: "bool"}
	case "str":
		return C15Const{Kind: "str"}
	case "dur":
		return C15Const{Kind: "dur"}
	case "list", "map":
		return C15Const{Kind: "nil"}
	}
	return C15Const{Kind: "unknown"}
}

// C15Schema reads the schema of every section from the repository sources.
func C15Schema(repo string) ([]C15Section, error) {
	var out []C15Section
	for _, sp := range c15specs {
		s, err := c15one(repo, sp)
		if err != nil {
			return nil, err
		}
		out = append(out, s)
	}
	return out, nil
}

// C15HiddenByDisplay lists, from config/util.go, whether DisplayJSON still
// replaces fields tagged hidden:"true" (the tag name and value it looks for).
func C15HiddenByDisplay(repo string) (bool, error) {
	cf, err := c15parse(filepath.Join(repo, "config/util.go"))
	if err != nil {
		return false, err
	}
	fd := cf.funcs["DisplayJSON"]
	if fd == nil {
		return false, fmt.Errorf("config/util.go: DisplayJSON not found")
	}
	src := cf.src(fd.Body)
	ok := strings.Contains(src, `f.Tag.Get("hidden") == "true"`) && strings.Contains(src, "f.Type = hiddenFieldT")
	return ok, nil
}

// C15SortedRej renders conjuncts canonically.
func C15SortedRej(cs []C15Conj) string {
	var l []string
	for _, c := range cs {
		l = append(l, c.Op+"/"+c.Const.Token())
	}
	sort.Strings(l)
	if len(l) == 0 {
		return "-"
	}
	return strings.Join(l, ",")
}
