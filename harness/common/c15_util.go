// C15, round 8: semantic translators (go/ast → small tables the Lean model interprets) for
// config.SetIfNotDefault (type-switch arms), Identity.applyIdentityJSON (event sequence),
// Manager.LoadJSONFileAndEnv / Manager.ApplyEnvVars (call order, sections reached).
// Fail-closed: a shape that is not recognised becomes the token "?" (an event / guard the model cannot interpret,
// so the `decide` theorem over the table fails).
package common

import (
	"fmt"
	"go/ast"
	"go/token"
	"path/filepath"
	"strings"
)

// C15SindArm is one `case T:` of the type switch in config.SetIfNotDefault.
type C15SindArm struct {
	Type  string // Go type of the case
	Guard string // ne0 (x != 0) | neEmpty (x != "") | isTrue (x) | always | ?
}

// C15SindArms reads the arms of SetIfNotDefault: `case T: x := src.(T); if <guard on x> { *dest.(*T) = x }`.
func C15SindArms(repo string) ([]C15SindArm, error) {
	cf, err := c15parse(filepath.Join(repo, "config/util.go"))
	if err != nil {
		return nil, err
	}
	fd := cf.funcs["SetIfNotDefault"]
	if fd == nil || fd.Body == nil {
		return nil, fmt.Errorf("config/util.go: SetIfNotDefault not found")
	}
	var sw *ast.TypeSwitchStmt
	for _, st := range fd.Body.List {
		if s, ok := st.(*ast.TypeSwitchStmt); ok {
			sw = s
		}
	}
	if sw == nil || len(fd.Body.List) != 1 {
		return []C15SindArm{{"?", "?"}}, nil
	}
	var arms []C15SindArm
	for _, c := range sw.Body.List {
		cc, ok := c.(*ast.CaseClause)
		if !ok || len(cc.List) != 1 {
			arms = append(arms, C15SindArm{"?", "?"})
			continue
		}
		ty := cf.src(cc.List[0])
		arm := C15SindArm{ty, "?"}
		// x := src.(T)
		if len(cc.Body) == 2 {
			as, ok1 := cc.Body[0].(*ast.AssignStmt)
			ifs, ok2 := cc.Body[1].(*ast.IfStmt)
			if ok1 && ok2 && len(as.Lhs) == 1 && len(as.Rhs) == 1 && ifs.Else == nil && ifs.Init == nil &&
				cf.src(as.Rhs[0]) == "src.("+ty+")" && len(ifs.Body.List) == 1 {
				x := cf.src(as.Lhs[0])
				if cf.src(ifs.Body.List[0]) == "*dest.(*"+ty+") = "+x {
					switch cond := cf.src(ifs.Cond); cond {
					case x + " != 0":
						arm.Guard = "ne0"
					case x + ` != ""`:
						arm.Guard = "neEmpty"
					case x:
						arm.Guard = "isTrue"
					}
				}
			}
		}
		arms = append(arms, arm)
	}
	return arms, nil
}

// C15IdentApplySeq reads Identity.applyIdentityJSON as a sequence of events:
//
//	decode-id | ret-err | set-id | b64 | unmarshal-key | set-key | ret-validate | ret-nil | ?
func C15IdentApplySeq(repo string) ([]string, error) {
	cf, err := c15parse(filepath.Join(repo, "config/identity.go"))
	if err != nil {
		return nil, err
	}
	fd := cf.funcs["Identity.applyIdentityJSON"]
	if fd == nil || fd.Body == nil {
		return nil, fmt.Errorf("config/identity.go: applyIdentityJSON not found")
	}
	var seq []string
	for _, st := range fd.Body.List {
		switch s := st.(type) {
		case *ast.AssignStmt:
			src := cf.src(s)
			switch {
			case strings.HasSuffix(src, "= peer.Decode(jID.ID)") && strings.HasPrefix(src, "pid, err"):
				seq = append(seq, "decode-id")
			case src == "ident.ID = pid":
				seq = append(seq, "set-id")
			case strings.HasSuffix(src, "= base64.StdEncoding.DecodeString(jID.PrivateKey)") && strings.HasPrefix(src, "pkb, err"):
				seq = append(seq, "b64")
			case strings.HasSuffix(src, "= crypto.UnmarshalPrivateKey(pkb)") && strings.HasPrefix(src, "pKey, err"):
				seq = append(seq, "unmarshal-key")
			case src == "ident.PrivateKey = pKey":
				seq = append(seq, "set-key")
			default:
				seq = append(seq, "?")
			}
		case *ast.IfStmt:
			// if err != nil { err = fmt.Errorf(..); return err }
			ok := s.Init == nil && s.Else == nil && cf.src(s.Cond) == "err != nil" && len(s.Body.List) >= 1
			if ok {
				last, isRet := s.Body.List[len(s.Body.List)-1].(*ast.ReturnStmt)
				ok = isRet && len(last.Results) == 1 && cf.src(last.Results[0]) == "err"
				for _, b := range s.Body.List[:len(s.Body.List)-1] {
					if as, isAs := b.(*ast.AssignStmt); !isAs || len(as.Lhs) != 1 || cf.src(as.Lhs[0]) != "err" || as.Tok != token.ASSIGN {
						ok = false
					}
				}
			}
			if ok {
				seq = append(seq, "ret-err")
			} else {
				seq = append(seq, "?")
			}
		case *ast.ReturnStmt:
			switch {
			case len(s.Results) == 1 && cf.src(s.Results[0]) == "ident.Validate()":
				seq = append(seq, "ret-validate")
			case len(s.Results) == 1 && cf.src(s.Results[0]) == "nil":
				seq = append(seq, "ret-nil")
			default:
				seq = append(seq, "?")
			}
		default:
			seq = append(seq, "?")
		}
	}
	return seq, nil
}

// C15ManagerEnvOrder reads Manager.LoadJSONFileAndEnv as the order of its calls (file | env | ?) and
// Manager.ApplyEnvVars as the set of things it reaches (sections | cluster).
func C15ManagerEnvOrder(repo string) (order []string, reach []string, err error) {
	cf, err := c15parse(filepath.Join(repo, "config/config.go"))
	if err != nil {
		return nil, nil, err
	}
	fd := cf.funcs["Manager.LoadJSONFileAndEnv"]
	if fd == nil || fd.Body == nil {
		return nil, nil, fmt.Errorf("config/config.go: LoadJSONFileAndEnv not found")
	}
	call := func(e ast.Expr) string {
		switch cf.src(e) {
		case "cfg.LoadJSONFromFile(path)":
			return "file"
		case "cfg.ApplyEnvVars()":
			return "env"
		}
		return "?"
	}
	for _, st := range fd.Body.List {
		switch s := st.(type) {
		case *ast.IfStmt:
			// if err := <call>; err != nil { return err }
			as, ok := s.Init.(*ast.AssignStmt)
			if ok && len(as.Rhs) == 1 && cf.src(s.Cond) == "err != nil" && len(s.Body.List) == 1 && cf.src(s.Body.List[0]) == "return err" && s.Else == nil {
				order = append(order, call(as.Rhs[0]))
			} else {
				order = append(order, "?")
			}
		case *ast.ReturnStmt:
			if len(s.Results) == 1 {
				order = append(order, call(s.Results[0]))
			} else {
				order = append(order, "?")
			}
		default:
			order = append(order, "?")
		}
	}
	fe := cf.funcs["Manager.ApplyEnvVars"]
	if fe == nil || fe.Body == nil {
		return nil, nil, fmt.Errorf("config/config.go: Manager.ApplyEnvVars not found")
	}
	for _, st := range fe.Body.List {
		src := cf.src(st)
		switch s := st.(type) {
		case *ast.RangeStmt:
			if cf.src(s.X) == "cfg.sections" && strings.Contains(src, "range section") && strings.Contains(src, "compcfg.ApplyEnvVars()") &&
				strings.Contains(src, "return err") && !strings.Contains(src, "continue") && !strings.Contains(src, "break") {
				reach = append(reach, "sections")
			} else {
				reach = append(reach, "?")
			}
		case *ast.IfStmt:
			if cf.src(s.Cond) == "cfg.clusterConfig != nil" && strings.Contains(src, "cfg.clusterConfig.ApplyEnvVars()") && strings.Contains(src, "return err") {
				reach = append(reach, "cluster")
			} else {
				reach = append(reach, "?")
			}
		case *ast.ReturnStmt:
			if src != "return nil" {
				reach = append(reach, "?")
			}
		default:
			reach = append(reach, "?")
		}
	}
	return order, reach, nil
}
