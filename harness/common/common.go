// Package common holds what every property harness shares: the PRNG, the
// integer<->real-value naming tables and small formatting helpers.
package common

import (
	"bufio"
	"fmt"
	"os"
	"strconv"
	"strings"

	cid "github.com/ipfs/go-cid"
	peer "github.com/libp2p/go-libp2p-core/peer"
	mh "github.com/multiformats/go-multihash"
)

// Rng is splitmix64: every random choice of a harness comes from one of these.
type Rng struct{ s uint64 }

// NewRng seeds a generator.
func NewRng(seed uint64) *Rng { return &Rng{s: seed*0x9E3779B97F4A7C15 + 0x1234567} }

// Next returns the next 64 random bits.
func (r *Rng) Next() uint64 {
	r.s += 0x9E3779B97F4A7C15
	z := r.s
	z = (z ^ (z >> 30)) * 0xBF58476D1CE4E5B9
	z = (z ^ (z >> 27)) * 0x94D049BB133111EB
	return z ^ (z >> 31)
}

// Intn returns a value in [0,n).
func (r *Rng) Intn(n int) int {
	if n <= 0 {
		return 0
	}
	return int(r.Next() % uint64(n))
}

// Range returns a value in [lo,hi].
func (r *Rng) Range(lo, hi int) int { return lo + r.Intn(hi-lo+1) }

// Bool returns a fair coin.
func (r *Rng) Bool() bool { return r.Next()&1 == 1 }

// Chance is true with probability num/den.
func (r *Rng) Chance(num, den int) bool { return r.Intn(den) < num }

// Fork derives an independent generator (used to give each case its own stream
// so that case k can be regenerated alone).
func (r *Rng) Fork(k uint64) *Rng { return NewRng(r.s ^ (k+1)*0xD6E8FEB86659FD93) }

// Seed reads VERIF_SEED (default 1).
func Seed() uint64 {
	s := os.Getenv("VERIF_SEED")
	if s == "" {
		return 1
	}
	v, err := strconv.ParseUint(s, 10, 64)
	if err != nil {
		return 1
	}
	return v
}

// PeerN returns the n-th peer ID of the naming table (a sha2-256 multihash).
func PeerN(n int) peer.ID {
	h, err := mh.Sum([]byte(fmt.Sprintf("verif-peer-%d", n)), mh.SHA2_256, -1)
	if err != nil {
		panic(err)
	}
	return peer.ID(h)
}

// PeerIndex inverts PeerN over [0,limit).
func PeerIndex(p peer.ID, limit int) int {
	for i := 0; i < limit; i++ {
		if PeerN(i) == p {
			return i
		}
	}
	return -1
}

// CidN returns the n-th CID of the naming table. Even n are CIDv1 (raw or
// dag-pb), odd n are CIDv0.
func CidN(n int) cid.Cid {
	h, err := mh.Sum([]byte(fmt.Sprintf("verif-cid-%d", n)), mh.SHA2_256, -1)
	if err != nil {
		panic(err)
	}
	switch n % 4 {
	case 1, 3:
		return cid.NewCidV0(h)
	case 0:
		return cid.NewCidV1(cid.DagProtobuf, h)
	default:
		return cid.NewCidV1(cid.Raw, h)
	}
}

// CidIndex inverts CidN over [0,limit).
func CidIndex(c cid.Cid, limit int) int {
	for i := 0; i < limit; i++ {
		if CidN(i).Equals(c) {
			return i
		}
	}
	return -1
}

// Ints formats a list of ints as comma separated, "-" when empty.
func Ints(l []int) string {
	if len(l) == 0 {
		return "-"
	}
	s := make([]string, len(l))
	for i, v := range l {
		s[i] = strconv.Itoa(v)
	}
	return strings.Join(s, ",")
}

// Out is the buffered case stream.
type Out struct {
	w *bufio.Writer
	N int
}

// NewOut writes cases to stdout.
func NewOut() *Out { return &Out{w: bufio.NewWriterSize(os.Stdout, 1<<20)} }

// Line emits one case line.
func (o *Out) Line(format string, a ...interface{}) {
	fmt.Fprintf(o.w, format, a...)
	o.w.WriteByte('\n')
	o.N++
}

// Flush flushes the stream.
func (o *Out) Flush() { o.w.Flush() }

// Args parses the uniform harness flags: -n <cases> -only <index> -tier quick|thorough.
type Args struct {
	N     int
	Only  int
	Tier  string
	Extra map[string]string
}

// ParseArgs reads os.Args.
func ParseArgs() Args {
	a := Args{N: -1, Only: -1, Tier: "quick", Extra: map[string]string{}}
	for i := 1; i < len(os.Args); i++ {
		k := os.Args[i]
		v := ""
		if i+1 < len(os.Args) {
			v = os.Args[i+1]
		}
		switch k {
		case "-n":
			a.N, _ = strconv.Atoi(v)
			i++
		case "-only":
			a.Only, _ = strconv.Atoi(v)
			i++
		case "-tier":
			a.Tier = v
			i++
		default:
			if strings.HasPrefix(k, "-") {
				a.Extra[k[1:]] = v
				i++
			}
		}
	}
	if t := os.Getenv("VERIF_TIER"); t != "" && a.Tier == "" {
		a.Tier = t
	}
	return a
}
