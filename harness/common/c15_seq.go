// C15, round 8b: the call sequence of every section's LoadJSON / ApplyEnvVars / apply function as events the Lean
// model interprets (CV.C15.Seq). Fail-closed: a statement that is not recognised becomes `unknown` (the interpreter is
// stuck on it, `Seq.SecSeq.ok` is false and the `decide` theorem over the table fails).
package common

import (
	"fmt"
	"go/ast"
	"path/filepath"
	"strings"
)

// C15SecSeq holds the event lists of one section.
type C15SecSeq struct {
	Name             string
	Load, Env, Apply []string
}

func c15hasReturn(n ast.Node) (any, nilRet, other bool) {
	ast.Inspect(n, func(m ast.Node) bool {
		if _, ok := m.(*ast.FuncLit); ok {
			return false
		}
		if r, ok := m.(*ast.ReturnStmt); ok {
			any = true
			if len(r.Results) != 1 {
				other = true
				return true
			}
			if id, ok := r.Results[0].(*ast.Ident); ok && id.Name == "nil" {
				nilRet = true
			}
		}
		return true
	})
	return
}

func c15assignsErr(st ast.Stmt) (ast.Expr, bool) {
	as, ok := st.(*ast.AssignStmt)
	if !ok || len(as.Rhs) != 1 {
		return nil, false
	}
	for _, l := range as.Lhs {
		if id, ok := l.(*ast.Ident); ok && id.Name == "err" {
			return as.Rhs[0], true
		}
	}
	return nil, false
}

func (cf *c15file) c15isErrCheck(st ast.Stmt) bool {
	ifs, ok := st.(*ast.IfStmt)
	if !ok || ifs.Init != nil || ifs.Else != nil || cf.src(ifs.Cond) != "err != nil" {
		return false
	}
	any, nilRet, other := c15hasReturn(ifs.Body)
	return any && !nilRet && !other
}

func c15callName(e ast.Expr) (recv, name string) {
	c, ok := e.(*ast.CallExpr)
	if !ok {
		return "", ""
	}
	switch f := c.Fun.(type) {
	case *ast.SelectorExpr:
		if id, ok := f.X.(*ast.Ident); ok {
			return id.Name, f.Sel.Name
		}
		return "?", f.Sel.Name
	case *ast.Ident:
		return "", f.Name
	}
	return "", ""
}

// c15bodySeq translates the statements of an apply function; helpers (methods of the same receiver named in `helpers`) are inlined.
func (cf *c15file) c15bodySeq(recvType, fn string, helpers map[string]bool, depth int) []string {
	fd := cf.funcs[recvType+"."+fn]
	if fd == nil || fd.Body == nil || depth > 3 {
		return []string{"unknown"}
	}
	recvName := ""
	if fd.Recv != nil && len(fd.Recv.List) == 1 && len(fd.Recv.List[0].Names) == 1 {
		recvName = fd.Recv.List[0].Names[0].Name
	}
	isHelper := func(e ast.Expr) (string, bool) {
		r, n := c15callName(e)
		if r == recvName && r != "" && helpers[n] && n != fn {
			return n, true
		}
		return "", false
	}
	var out []string
	list := fd.Body.List
	for i := 0; i < len(list); i++ {
		st := list[i]
		switch s := st.(type) {
		case *ast.ReturnStmt:
			if len(s.Results) != 1 {
				out = append(out, "unknown")
				continue
			}
			if id, ok := s.Results[0].(*ast.Ident); ok && id.Name == "nil" {
				out = append(out, "retNil")
				continue
			}
			if h, ok := isHelper(s.Results[0]); ok {
				out = append(out, cf.c15bodySeq(recvType, h, helpers, depth+1)...)
				continue
			}
			r, n := c15callName(s.Results[0])
			if r == recvName && n == "Validate" {
				out = append(out, "retValidate")
			} else if n != "" {
				out = append(out, "retTry")
			} else {
				out = append(out, "unknown")
			}
			continue
		}
		if rhs, ok := c15assignsErr(st); ok {
			checked := i+1 < len(list) && cf.c15isErrCheck(list[i+1])
			if h, isH := isHelper(rhs); isH {
				sub := cf.c15bodySeq(recvType, h, helpers, depth+1)
				// the helper's final return becomes a step of the caller
				if n := len(sub); n > 0 {
					switch sub[n-1] {
					case "retNil":
						sub = sub[:n-1]
					case "retTry":
						sub[n-1] = "try"
					default:
						sub = append(sub, "unknown")
					}
				}
				// an early `return nil` of the helper leaves the helper only: a jump over the rest of its events
				for k, e := range sub {
					if e == "earlyNil" {
						sub[k] = fmt.Sprintf("skip %d", len(sub)-k-1)
					}
				}
				if !checked {
					sub = append(sub, "droppedErr")
				}
				out = append(out, sub...)
			} else if checked {
				out = append(out, "try")
			} else {
				out = append(out, "droppedErr")
			}
			if checked {
				i++
			}
			continue
		}
		any, nilRet, other := c15hasReturn(st)
		switch {
		case !any:
			out = append(out, "assign")
		case other:
			out = append(out, "unknown")
		case nilRet:
			out = append(out, "earlyNil")
		default:
			out = append(out, "try")
		}
	}
	return out
}

func c15isNewStruct(e ast.Expr) bool {
	u, ok := e.(*ast.UnaryExpr)
	if !ok {
		return false
	}
	c, ok := u.X.(*ast.CompositeLit)
	return ok && len(c.Elts) == 0
}

// c15outerSeq translates LoadJSON / ApplyEnvVars.
func (cf *c15file) c15outerSeq(recvType, fn, applyFn string, saveFns, defFns map[string]bool) []string {
	fd := cf.funcs[recvType+"."+fn]
	if fd == nil || fd.Body == nil {
		return []string{"unknown"}
	}
	var out []string
	list := fd.Body.List
	for i := 0; i < len(list); i++ {
		st := list[i]
		checked := i+1 < len(list) && cf.c15isErrCheck(list[i+1])
		switch s := st.(type) {
		case *ast.ReturnStmt:
			if len(s.Results) == 1 {
				if _, n := c15callName(s.Results[0]); n == applyFn {
					out = append(out, "apply")
					continue
				}
			}
			out = append(out, "unknown")
		case *ast.AssignStmt:
			if len(s.Rhs) != 1 {
				out = append(out, "unknown")
				continue
			}
			r, n := c15callName(s.Rhs[0])
			_, hasErr := c15assignsErr(st)
			ev := "unknown"
			switch {
			case r == "json" && n == "Unmarshal":
				ev = "unmarshal"
			case r == "envconfig" && n == "Process":
				ev = "process"
			case saveFns[n]:
				ev = "toJSON"
			case defFns[n]:
				ev = "dflt"
			case n == "" && c15isNewStruct(s.Rhs[0]):
				continue // declaration of the JSON struct
			}
			if hasErr && !checked {
				ev = "droppedErr"
			}
			if hasErr && checked {
				i++
			}
			out = append(out, ev)
		case *ast.ExprStmt:
			if _, n := c15callName(s.X); defFns[n] {
				out = append(out, "dflt")
			} else {
				out = append(out, "unknown")
			}
		default:
			out = append(out, "unknown")
		}
	}
	return out
}

// C15SectionSeqs reads the three sequences of every section.
func C15SectionSeqs(repo string) ([]C15SecSeq, error) {
	var res []C15SecSeq
	for _, sp := range c15specs {
		cf, err := c15parse(filepath.Join(repo, sp.file))
		if err != nil {
			return nil, err
		}
		helpers := map[string]bool{}
		applyFn := ""
		for i, l := range sp.load {
			parts := strings.SplitN(l, ".", 2)
			if len(parts) == 2 && parts[0] == sp.cfgType {
				helpers[parts[1]] = true
				if i == 0 {
					applyFn = parts[1]
				}
			}
		}
		saveFns, defFns := map[string]bool{}, map[string]bool{}
		for _, l := range sp.save {
			if parts := strings.SplitN(l, ".", 2); len(parts) == 2 && parts[0] == sp.cfgType {
				saveFns[parts[1]] = true
			}
		}
		for _, l := range sp.def {
			if parts := strings.SplitN(l, ".", 2); len(parts) == 2 {
				defFns[parts[1]] = true
			}
		}
		res = append(res, C15SecSeq{
			Name:  sp.name,
			Load:  cf.c15outerSeq(sp.cfgType, "LoadJSON", applyFn, saveFns, defFns),
			Env:   cf.c15outerSeq(sp.cfgType, "ApplyEnvVars", applyFn, saveFns, defFns),
			Apply: cf.c15bodySeq(sp.cfgType, applyFn, helpers, 0),
		})
	}
	return res, nil
}
