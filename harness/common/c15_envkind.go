package common

// C15EnvKind: how envconfig v1.4.0 processField decodes the text of a variable into a JSON-struct field of Go type jt
// (none of the field types has Decode / Set / UnmarshalText; a pointer is dereferenced first). Unknown type = "other" (fail-closed).
func C15EnvKind(jt string) string {
	for len(jt) > 0 && jt[0] == '*' {
		jt = jt[1:]
	}
	switch jt {
	case "string":
		return "str"
	case "bool":
		return "bool"
	case "int", "int64", "options.FileLoadingMode":
		return "int64"
	case "int32":
		return "int32"
	case "uint", "uint64":
		return "uint64"
	case "uint32":
		return "uint32"
	case "float64":
		return "float"
	case "[]string", "ipfsconfig.Strings":
		return "strList"
	case "[]float64":
		return "floatList"
	case "map[string]string":
		return "strMap"
	case "map[string][]string":
		return "strListMap"
	}
	return "other"
}
