// C15: Validate() of every section as a conjunction of (guard, condition) pairs in a small expression language
// (comparisons between Config fields, len(), String(), constants; && || !; guards `if cond { … }`; helper
// functions whose body is itself such a list are inlined).  A configuration is REJECTED when, for some
// conjunct, the guard holds and the condition holds.  Whatever does not fit is one opaque conjunct.
//
// Expressions are printed in reverse Polish notation, tokens separated by ",":
//   f:<Config field path>   l:<path> (len)   s:<path> (String())   c:<constant token>
//   lt le gt ge eq ne   and or not   tru (bool field is true)   opq (not expressible)
//   opqc (not expressible, but reads nothing a JSON key can change)
package common

import (
	"go/ast"
	"go/token"
	"math"
	"net/url"
	"os"
	"os/exec"
	"path/filepath"
	"strconv"
	"strings"
)

// C15ParseToken is the inverse of C15Const.Token.
func C15ParseToken(t string) C15Const {
	switch {
	case t == "nil" || t == "empty":
		return C15Const{Kind: t}
	case strings.HasPrefix(t, "int:"), strings.HasPrefix(t, "dur:"), strings.HasPrefix(t, "bool:"):
		i := strings.Index(t, ":")
		n, err := strconv.ParseInt(t[i+1:], 10, 64)
		if err == nil {
			return C15Const{Kind: t[:i], I: n}
		}
	case strings.HasPrefix(t, "str:"):
		if s, err := url.QueryUnescape(t[4:]); err == nil {
			return C15Const{Kind: "str", S: s}
		}
	case strings.HasPrefix(t, "float:"):
		return C15Const{Kind: "float", S: t[6:]}
	}
	return C15Const{Kind: "unknown"}
}

// C15Frac renders a float64 as (floor(x*1e6), ceil(x*1e6)), clipped to +-1e15.
func C15Frac(s string) (int64, int64, bool) {
	f, err := strconv.ParseFloat(s, 64)
	if err != nil || math.IsNaN(f) {
		return 0, 0, false
	}
	return C15FracOf(f)
}

func C15FracOf(f float64) (int64, int64, bool) {
	x := f * 1e6
	if x > 1e15 {
		x = 1e15
	}
	if x < -1e15 {
		x = -1e15
	}
	return int64(math.Floor(x)), int64(math.Ceil(x)), true
}

// C15VConj is one conjunct: rejected when Guard (may be empty = always) and Cond hold.
type C15VConj struct {
	Guard []string
	Cond  []string
	Text  string
}

func (c C15VConj) Opaque() bool {
	for _, t := range append(append([]string{}, c.Guard...), c.Cond...) {
		if t == "opq" {
			return true
		}
	}
	return false
}

// Terms lists the f:/l:/s: terms the conjunct reads.
func (c C15VConj) Terms() []string {
	var l []string
	for _, t := range append(append([]string{}, c.Guard...), c.Cond...) {
		if strings.HasPrefix(t, "f:") || strings.HasPrefix(t, "l:") || strings.HasPrefix(t, "s:") {
			l = append(l, t)
		}
	}
	return l
}

func (c C15VConj) Encode() string {
	s := strings.Join(c.Cond, ",")
	if len(c.Guard) > 0 {
		s = strings.Join(c.Guard, ",") + "?" + s
	}
	return s
}

type c15venv struct {
	a      *c15an
	recv   string            // receiver identifier (cfg, ident)
	locals map[string]string // local identifier -> term
	bad    bool              // a statement that is not part of the conjunct-list shape was met
	prefix string            // field-path prefix of an inlined library helper (its parameter stands for cfg.<prefix>)
}

func (v *c15venv) term(e ast.Expr) (string, bool) {
	cf := v.a.cf
	switch x := e.(type) {
	case *ast.ParenExpr:
		return v.term(x.X)
	case *ast.Ident:
		if t, ok := v.locals[x.Name]; ok {
			return t, true
		}
	case *ast.SelectorExpr:
		if id, ok := rootIdent(x); ok && id == v.recv {
			return "f:" + v.prefix + v.a.destOf(x), true
		}
	case *ast.CallExpr:
		if c, ok := isCall(x, "", "len"); ok && len(c.Args) == 1 {
			if t, ok := v.term(c.Args[0]); ok && strings.HasPrefix(t, "f:") {
				return "l:" + t[2:], true
			}
		}
		if sel, ok := x.Fun.(*ast.SelectorExpr); ok && sel.Sel.Name == "String" && len(x.Args) == 0 {
			if t, ok := v.term(sel.X); ok && strings.HasPrefix(t, "f:") {
				return "s:" + t[2:], true
			}
		}
	}
	if c := cf.eval(e, 0); c.Known() {
		return "c:" + c.Token(), true
	}
	return "", false
}

var c15cmpOps = map[token.Token]string{token.LSS: "lt", token.LEQ: "le", token.GTR: "gt", token.GEQ: "ge", token.EQL: "eq", token.NEQ: "ne"}

func (v *c15venv) cond(e ast.Expr) []string {
	switch x := e.(type) {
	case *ast.ParenExpr:
		return v.cond(x.X)
	case *ast.UnaryExpr:
		if x.Op == token.NOT {
			return append(v.cond(x.X), "not")
		}
	case *ast.BinaryExpr:
		if x.Op == token.LOR || x.Op == token.LAND {
			op := "or"
			if x.Op == token.LAND {
				op = "and"
			}
			return append(append(v.cond(x.X), v.cond(x.Y)...), op)
		}
		if op, ok := c15cmpOps[x.Op]; ok {
			l, ok1 := v.term(x.X)
			r, ok2 := v.term(x.Y)
			if ok1 && ok2 && !strings.HasPrefix(l, "c:") {
				return []string{l, r, op}
			}
		}
	case *ast.SelectorExpr, *ast.Ident:
		if t, ok := v.term(e); ok && strings.HasPrefix(t, "f:") {
			return []string{t, "tru"}
		}
	}
	return []string{"opq"}
}

func c15and(g, h []string) []string {
	if len(g) == 0 {
		return h
	}
	if len(h) == 0 {
		return g
	}
	return append(append(append([]string{}, g...), h...), "and")
}

func (v *c15venv) rejects(body []ast.Stmt) bool {
	if len(body) != 1 {
		return false
	}
	switch b := body[0].(type) {
	case *ast.ReturnStmt:
		if len(b.Results) == 1 {
			t := v.a.cf.src(b.Results[0])
			return strings.HasPrefix(t, "errors.New(") || strings.HasPrefix(t, "fmt.Errorf(")
		}
	case *ast.AssignStmt:
		if len(b.Lhs) == 1 && len(b.Rhs) == 1 && v.a.cf.src(b.Lhs[0]) == "err" {
			t := v.a.cf.src(b.Rhs[0])
			return strings.HasPrefix(t, "errors.New(") || strings.HasPrefix(t, "fmt.Errorf(")
		}
	}
	return false
}

// helper inlines a call f(args…) / recv.m() whose body is a conjunct list.
func (v *c15venv) helper(call *ast.CallExpr, guard []string, depth int) ([]C15VConj, bool) {
	if depth > 2 {
		return nil, false
	}
	cf := v.a.cf
	var fd *ast.FuncDecl
	sub := &c15venv{a: v.a, recv: v.recv, locals: map[string]string{}}
	switch f := call.Fun.(type) {
	case *ast.Ident:
		fd = cf.funcs[f.Name]
		if fd == nil || fd.Recv != nil {
			return nil, false
		}
		var params []string
		for _, p := range fd.Type.Params.List {
			for _, n := range p.Names {
				params = append(params, n.Name)
			}
		}
		if len(params) != len(call.Args) {
			return nil, false
		}
		sub.recv = "\x00none"
		for i, p := range params {
			t, ok := v.term(call.Args[i])
			if !ok {
				return nil, false
			}
			sub.locals[p] = t
		}
	case *ast.SelectorExpr:
		id, ok := f.X.(*ast.Ident)
		if ok && id.Name != v.recv && len(call.Args) == 1 && v.prefix == "" {
			// pkg.F(cfg.X): a validation function of an imported library (hraft.ValidateConfig(cfg.RaftConfig)),
			// read from the module the repository's go.mod names; its parameter stands for cfg.X
			return v.external(id.Name, f.Sel.Name, call.Args[0], guard, depth)
		}
		if !ok || id.Name != v.recv || len(call.Args) != 0 {
			return nil, false
		}
		fd = cf.funcs[v.a.sp.cfgType+"."+f.Sel.Name]
		if fd == nil || fd.Recv == nil || len(fd.Recv.List) != 1 || len(fd.Recv.List[0].Names) != 1 {
			return nil, false
		}
		sub.recv = fd.Recv.List[0].Names[0].Name
	default:
		return nil, false
	}
	if fd.Body == nil {
		return nil, false
	}
	out := sub.list(fd.Body.List, guard, depth+1)
	if sub.bad {
		return nil, false // loops, calls …: the whole helper is one opaque conjunct
	}
	return out, true
}

func (v *c15venv) list(list []ast.Stmt, guard []string, depth int) []C15VConj {
	cf := v.a.cf
	var out []C15VConj
	opq := func(n ast.Node) {
		out = append(out, C15VConj{Guard: guard, Cond: []string{"opq"}, Text: cf.src(n)})
	}
	for _, st := range list {
		switch s := st.(type) {
		case *ast.IfStmt:
			if s.Else != nil {
				opq(s.Cond)
				continue
			}
			if s.Init != nil {
				// if err := helper(…); err != nil { return err }
				if as, ok := s.Init.(*ast.AssignStmt); ok && len(as.Rhs) == 1 && cf.src(s.Cond) == "err != nil" {
					if call, ok := as.Rhs[0].(*ast.CallExpr); ok {
						if sub, ok := v.helper(call, guard, depth); ok {
							out = append(out, sub...)
							continue
						}
					}
				}
				opq(s.Init)
				continue
			}
			if v.rejects(s.Body.List) {
				out = append(out, C15VConj{Guard: guard, Cond: v.cond(s.Cond), Text: cf.src(s.Cond)})
				continue
			}
			if v.foldLocal(s) {
				continue
			}
			// a guard: if cond { …conjuncts… }
			out = append(out, v.list(s.Body.List, c15and(guard, v.cond(s.Cond)), depth)...)
		case *ast.SwitchStmt:
			if s.Tag == nil && s.Init == nil {
				// switch { case c1: return err; case c2: … } — the first true case decides; every case rejects
				ok := true
				for _, c := range s.Body.List {
					cc := c.(*ast.CaseClause)
					if cc.List == nil || !v.rejects(cc.Body) {
						ok = false
					}
				}
				if ok {
					for _, c := range s.Body.List {
						for _, e := range c.(*ast.CaseClause).List {
							out = append(out, C15VConj{Guard: guard, Cond: v.cond(e), Text: cf.src(e)})
						}
					}
					continue
				}
			}
			opq(s)
		case *ast.ReturnStmt:
			if len(s.Results) == 1 {
				t := cf.src(s.Results[0])
				if t == "nil" || t == "err" {
					continue
				}
				if call, ok := s.Results[0].(*ast.CallExpr); ok {
					if sub, ok := v.helper(call, guard, depth); ok {
						out = append(out, sub...)
						continue
					}
				}
				opq(s.Results[0])
			}
		case *ast.AssignStmt:
			// x := cfg.F  (alias used by later conjuncts)
			if s.Tok == token.DEFINE && len(s.Lhs) == 1 && len(s.Rhs) == 1 {
				if id, ok := s.Lhs[0].(*ast.Ident); ok {
					if t, ok := v.term(s.Rhs[0]); ok {
						v.locals[id.Name] = t
						continue
					}
				}
			}
			v.bad = true
			opq(s)
		case *ast.DeclStmt:
			// var err error
		default:
			v.bad = true
			opq(st)
		}
	}
	return out
}

// validateConjs reads <cfgType>.Validate as a conjunct list.
func (a *c15an) validateConjs(fd *ast.FuncDecl) []C15VConj {
	recv := "cfg"
	if fd.Recv != nil && len(fd.Recv.List) == 1 && len(fd.Recv.List[0].Names) == 1 {
		recv = fd.Recv.List[0].Names[0].Name
	}
	v := &c15venv{a: a, recv: recv, locals: map[string]string{}}
	return v.list(fd.Body.List, nil, 0)
}

// C15ConstOpaque rewrites `opq` to `opqc` in the conjuncts whose text reads no Config field that a JSON key
// is loaded into (cluster: isRPCPolicyValid(cfg.RPCPolicy)): such a conjunct has the same value for every
// configuration file; the `default <section>` case of every run observes that it does not fire.
func C15ConstOpaque(sec *C15Section) {
	roots := map[string]bool{}
	for _, f := range sec.Fields {
		d := f.Dest
		if d == "" {
			d = f.Src
		}
		if d != "" {
			roots[strings.Split(d, ".")[0]] = true
		}
	}
	for i := range sec.VConj {
		c := &sec.VConj[i]
		if len(c.Cond) != 1 || c.Cond[0] != "opq" || len(c.Guard) != 0 {
			continue
		}
		reads := false
		for r := range roots {
			if strings.Contains(c.Text, "."+r) {
				reads = true
			}
		}
		if !reads && strings.Contains(c.Text, "(") {
			c.Cond = []string{"opqc"}
		}
	}
}

// foldLocal: `if L == c { L = c2 }` for a local L bound to a constant — decided statically
// (hraft: protocolMin := ProtocolVersionMin; if protocolMin == 0 { protocolMin = 1 }).
func (v *c15venv) foldLocal(s *ast.IfStmt) bool {
	be, ok := s.Cond.(*ast.BinaryExpr)
	if !ok || be.Op != token.EQL || len(s.Body.List) != 1 {
		return false
	}
	as, ok := s.Body.List[0].(*ast.AssignStmt)
	if !ok || as.Tok != token.ASSIGN || len(as.Lhs) != 1 || len(as.Rhs) != 1 {
		return false
	}
	l, ok1 := be.X.(*ast.Ident)
	t, ok2 := as.Lhs[0].(*ast.Ident)
	if !ok1 || !ok2 || l.Name != t.Name {
		return false
	}
	cur, ok := v.locals[l.Name]
	if !ok || !strings.HasPrefix(cur, "c:") {
		return false
	}
	c, okc := v.term(be.Y)
	n, okn := v.term(as.Rhs[0])
	if !okc || !okn || !strings.HasPrefix(c, "c:") || !strings.HasPrefix(n, "c:") {
		return false
	}
	if c == cur {
		v.locals[l.Name] = n
	}
	return true
}

// c15modDir: the directory of an imported package inside the module cache, by the version go.mod requires.
func c15modDir(repo, imp string) string {
	raw, err := os.ReadFile(filepath.Join(repo, "go.mod"))
	if err != nil {
		return ""
	}
	best, ver := "", ""
	for _, ln := range strings.Split(string(raw), "\n") {
		w := strings.Fields(strings.TrimSpace(strings.TrimPrefix(strings.TrimSpace(ln), "require")))
		if len(w) >= 2 && (imp == w[0] || strings.HasPrefix(imp, w[0]+"/")) && len(w[0]) > len(best) && strings.HasPrefix(w[1], "v") {
			best, ver = w[0], w[1]
		}
	}
	if best == "" {
		return ""
	}
	cache := os.Getenv("GOMODCACHE")
	if cache == "" {
		if o, err := exec.Command("go", "env", "GOMODCACHE").Output(); err == nil {
			cache = strings.TrimSpace(string(o))
		}
	}
	if cache == "" {
		return ""
	}
	esc := ""
	for _, r := range best {
		if r >= 'A' && r <= 'Z' {
			esc += "!" + string(r+32)
		} else {
			esc += string(r)
		}
	}
	return filepath.Join(cache, esc+"@"+ver, strings.TrimPrefix(strings.TrimPrefix(imp, best), "/"))
}

func (v *c15venv) external(pkg, fn string, arg ast.Expr, guard []string, depth int) ([]C15VConj, bool) {
	at, ok := v.term(arg)
	if !ok || !strings.HasPrefix(at, "f:") {
		return nil, false
	}
	imp := ""
	for _, is := range v.a.cf.f.Imports {
		p, _ := strconv.Unquote(is.Path.Value)
		name := p[strings.LastIndex(p, "/")+1:]
		if is.Name != nil {
			name = is.Name.Name
		}
		if name == pkg {
			imp = p
		}
	}
	dir := c15modDir(C15Repo(), imp)
	if imp == "" || dir == "" {
		return nil, false
	}
	files, _ := filepath.Glob(filepath.Join(dir, "*.go"))
	for _, fp := range files {
		if strings.HasSuffix(fp, "_test.go") {
			continue
		}
		hcf, err := c15parse(fp)
		if err != nil {
			continue
		}
		fd := hcf.funcs[fn]
		if fd == nil || fd.Recv != nil || fd.Body == nil || len(fd.Type.Params.List) != 1 || len(fd.Type.Params.List[0].Names) != 1 {
			continue
		}
		a2 := *v.a
		a2.cf = hcf
		sub := &c15venv{a: &a2, recv: fd.Type.Params.List[0].Names[0].Name, locals: map[string]string{}, prefix: at[2:] + "."}
		out := sub.list(fd.Body.List, guard, depth+1)
		if sub.bad {
			return nil, false
		}
		return out, true
	}
	return nil, false
}
