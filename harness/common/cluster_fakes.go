package common

import (
	"context"
	"errors"
	"fmt"
	"sync"

	"github.com/ipfs/ipfs-cluster/api"
	"github.com/ipfs/ipfs-cluster/datastore/inmem"
	"github.com/ipfs/ipfs-cluster/state"
	"github.com/ipfs/ipfs-cluster/state/dsstate"

	cid "github.com/ipfs/go-cid"
	cbor "github.com/ipfs/go-ipld-cbor"
	peer "github.com/libp2p/go-libp2p-core/peer"
	rpc "github.com/libp2p/go-libp2p-gorpc"
	mh "github.com/multiformats/go-multihash"
)

// FakeConsensus is a Consensus whose state is a real dsstate over an in-memory
// datastore; LogPin/LogUnpin apply directly (as the Raft FSM / CRDT hooks do)
// and are recorded.
type FakeConsensus struct {
	mu      sync.Mutex
	St      state.State
	Log     []string // "pin <tok>" / "unpin <cid>"
	Members []peer.ID
	Trusted func(peer.ID) bool
	FailLog bool
	// FailState / FailPeers make the next n State() / Peers() calls fail.
	FailState int
	FailPeers int
}

// NewFakeConsensus makes an empty one.
func NewFakeConsensus() *FakeConsensus {
	st, err := dsstate.New(inmem.New(), "", dsstate.DefaultHandle())
	if err != nil {
		panic(err)
	}
	return &FakeConsensus{St: st}
}

func (c *FakeConsensus) SetClient(*rpc.Client)          {}
func (c *FakeConsensus) Shutdown(context.Context) error { return nil }
func (c *FakeConsensus) Ready(context.Context) <-chan struct{} {
	ch := make(chan struct{})
	close(ch)
	return ch
}
func (c *FakeConsensus) LogPin(ctx context.Context, p *api.Pin) error {
	c.mu.Lock()
	defer c.mu.Unlock()
	if c.FailLog {
		return errors.New("log failed")
	}
	c.Log = append(c.Log, "pin "+PinTok(p))
	return c.St.Add(ctx, p)
}
func (c *FakeConsensus) LogUnpin(ctx context.Context, p *api.Pin) error {
	c.mu.Lock()
	defer c.mu.Unlock()
	if c.FailLog {
		return errors.New("log failed")
	}
	c.Log = append(c.Log, "unpin "+cidTok(p.Cid))
	return c.St.Rm(ctx, p.Cid)
}
func (c *FakeConsensus) AddPeer(context.Context, peer.ID) error { return nil }
func (c *FakeConsensus) RmPeer(context.Context, peer.ID) error  { return nil }
func (c *FakeConsensus) State(context.Context) (state.ReadOnly, error) {
	c.mu.Lock()
	defer c.mu.Unlock()
	if c.FailState > 0 {
		c.FailState--
		return nil, errors.New("state not available")
	}
	return c.St, nil
}
func (c *FakeConsensus) Leader(context.Context) (peer.ID, error) {
	if len(c.Members) > 0 {
		return c.Members[0], nil
	}
	return "", errors.New("no leader")
}
func (c *FakeConsensus) WaitForSync(context.Context) error { return nil }
func (c *FakeConsensus) Clean(context.Context) error       { return nil }
func (c *FakeConsensus) Peers(context.Context) ([]peer.ID, error) {
	c.mu.Lock()
	defer c.mu.Unlock()
	if c.FailPeers > 0 {
		c.FailPeers--
		return nil, errors.New("peers not available")
	}
	return append([]peer.ID{}, c.Members...), nil
}
func (c *FakeConsensus) IsTrustedPeer(ctx context.Context, p peer.ID) bool {
	if c.Trusted == nil {
		return true
	}
	return c.Trusted(p)
}
func (c *FakeConsensus) Trust(context.Context, peer.ID) error    { return nil }
func (c *FakeConsensus) Distrust(context.Context, peer.ID) error { return nil }

// Pins lists the state.
func (c *FakeConsensus) Pins() []*api.Pin {
	l, err := c.St.List(context.Background())
	if err != nil {
		panic(err)
	}
	return l
}

// TakeLog returns and clears the recorded calls.
func (c *FakeConsensus) TakeLog() []string {
	c.mu.Lock()
	defer c.mu.Unlock()
	l := c.Log
	c.Log = nil
	return l
}

// FakeIPFS is an IPFSConnector answering Resolve and BlockGet from tables.
type FakeIPFS struct {
	Paths  map[string]cid.Cid // path -> cid ; missing = error
	Blocks map[string][]byte  // cid string -> raw block ; missing = error
}

// NewFakeIPFS makes an empty one.
func NewFakeIPFS() *FakeIPFS {
	return &FakeIPFS{Paths: map[string]cid.Cid{}, Blocks: map[string][]byte{}}
}

// SetLinksBlock stores under c a CBOR cluster-DAG node whose links are the given cids.
func (f *FakeIPFS) SetLinksBlock(c cid.Cid, links []cid.Cid) {
	obj := map[string]cid.Cid{}
	for i, l := range links {
		obj[fmt.Sprintf("%d", i)] = l
	}
	n, err := cbor.WrapObject(obj, mh.SHA2_256, -1)
	if err != nil {
		panic(err)
	}
	f.Blocks[c.String()] = n.RawData()
}

func (f *FakeIPFS) SetClient(*rpc.Client)                      {}
func (f *FakeIPFS) Shutdown(context.Context) error             { return nil }
func (f *FakeIPFS) ID(context.Context) (*api.IPFSID, error)    { return &api.IPFSID{}, nil }
func (f *FakeIPFS) Pin(context.Context, *api.Pin) error        { return nil }
func (f *FakeIPFS) Unpin(context.Context, cid.Cid) error       { return nil }
func (f *FakeIPFS) ConnectSwarms(context.Context) error        { return nil }
func (f *FakeIPFS) ConfigKey(string) (interface{}, error)      { return nil, errors.New("no") }
func (f *FakeIPFS) RepoGC(context.Context) (*api.RepoGC, error) { return &api.RepoGC{}, nil }
func (f *FakeIPFS) PinLsCid(context.Context, *api.Pin) (api.IPFSPinStatus, error) {
	return api.IPFSPinStatusUnpinned, nil
}
func (f *FakeIPFS) PinLs(context.Context, string) (map[string]api.IPFSPinStatus, error) {
	return map[string]api.IPFSPinStatus{}, nil
}
func (f *FakeIPFS) SwarmPeers(context.Context) ([]peer.ID, error) { return nil, nil }
func (f *FakeIPFS) RepoStat(context.Context) (*api.IPFSRepoStat, error) {
	return &api.IPFSRepoStat{}, nil
}
func (f *FakeIPFS) Resolve(ctx context.Context, path string) (cid.Cid, error) {
	c, ok := f.Paths[path]
	if !ok {
		return cid.Undef, errors.New("cannot resolve")
	}
	return c, nil
}
func (f *FakeIPFS) BlockPut(context.Context, *api.NodeWithMeta) error { return nil }
func (f *FakeIPFS) BlockGet(ctx context.Context, c cid.Cid) ([]byte, error) {
	b, ok := f.Blocks[c.String()]
	if !ok {
		return nil, errors.New("block not found")
	}
	return b, nil
}
