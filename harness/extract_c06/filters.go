// Round 8: the status-name table, the composite filters and the code shape of
// TrackerStatus.Match / String / TrackerStatusFromString and of the filter
// guards of the REST handler, the REST client and ipfs-cluster-ctl, read from
// the source with go/ast. Expressions are printed in prefix (Polish) notation
// over the tokens  || && ! == != > >= < <= & |  v0 (receiver / first variable)
// v1 (second variable)  <number>;  anything else becomes "?" which the Lean
// interpreter refuses (the `gen_*` theorem then fails).
package main

import (
	"bytes"
	"fmt"
	"go/ast"
	"go/parser"
	"go/printer"
	"go/token"
	"path/filepath"
	"strconv"
	"strings"
)

func identValue(n string) (int, bool) {
	for _, e := range names {
		if "TrackerStatus"+e.n == n {
			return int(e.v), true
		}
	}
	return 0, false
}

func polish(e ast.Expr, vars map[string]string) []string {
	switch x := e.(type) {
	case *ast.ParenExpr:
		return polish(x.X, vars)
	case *ast.Ident:
		if v, ok := vars[x.Name]; ok {
			return []string{v}
		}
		if v, ok := identValue(x.Name); ok {
			return []string{strconv.Itoa(v)}
		}
	case *ast.SelectorExpr: // types.TrackerStatusUndefined, api.TrackerStatusUndefined
		if v, ok := identValue(x.Sel.Name); ok {
			return []string{strconv.Itoa(v)}
		}
	case *ast.BasicLit:
		if x.Kind == token.INT {
			if v, err := strconv.Atoi(x.Value); err == nil && v >= 0 {
				return []string{strconv.Itoa(v)}
			}
		}
		if x.Kind == token.STRING && x.Value == `""` {
			return []string{"empty"}
		}
	case *ast.UnaryExpr:
		if x.Op == token.NOT {
			return append([]string{"!"}, polish(x.X, vars)...)
		}
	case *ast.BinaryExpr:
		ops := map[token.Token]string{token.LOR: "||", token.LAND: "&&", token.EQL: "==", token.NEQ: "!=", token.GTR: ">",
			token.GEQ: ">=", token.LSS: "<", token.LEQ: "<=", token.AND: "&", token.OR: "|"}
		if op, ok := ops[x.Op]; ok {
			r := append([]string{op}, polish(x.X, vars)...)
			return append(r, polish(x.Y, vars)...)
		}
	}
	return []string{"?"}
}

func leanStrs(l []string) string {
	q := make([]string, len(l))
	for i, s := range l {
		q[i] = fmt.Sprintf("%q", s)
	}
	return "[" + strings.Join(q, ", ") + "]"
}

// leanToks encodes a prefix expression as (kind, value) pairs: (0, n) the number n, (1, i) the variable v<i>,
// (2, op) with op 1 || 2 && 3 == 4 != 5 > 6 >= 7 < 8 <= 9 & 10 | 11 !, (9, 0) anything else (refused by the interpreter).
func leanToks(l []string) string {
	ops := map[string]int{"||": 1, "&&": 2, "==": 3, "!=": 4, ">": 5, ">=": 6, "<": 7, "<=": 8, "&": 9, "|": 10, "!": 11}
	q := make([]string, len(l))
	for i, s := range l {
		if n, err := strconv.Atoi(s); err == nil {
			q[i] = fmt.Sprintf("(0, %d)", n)
		} else if s == "v0" || s == "v1" {
			q[i] = fmt.Sprintf("(1, %s)", s[1:])
		} else if o, ok := ops[s]; ok {
			q[i] = fmt.Sprintf("(2, %d)", o)
		} else {
			q[i] = "(9, 0)"
		}
	}
	return "[" + strings.Join(q, ", ") + "]"
}

func findFunc(f *ast.File, recv, name string) *ast.FuncDecl {
	for _, d := range f.Decls {
		fd, ok := d.(*ast.FuncDecl)
		if !ok || fd.Name.Name != name {
			continue
		}
		if recv == "" && fd.Recv == nil {
			return fd
		}
		if recv != "" && fd.Recv != nil && len(fd.Recv.List) == 1 {
			var b bytes.Buffer
			printer.Fprint(&b, token.NewFileSet(), fd.Recv.List[0].Type)
			if b.String() == recv {
				return fd
			}
		}
	}
	return nil
}

func recvName(fd *ast.FuncDecl) string {
	if fd.Recv != nil && len(fd.Recv.List) == 1 && len(fd.Recv.List[0].Names) == 1 {
		return fd.Recv.List[0].Names[0].Name
	}
	return ""
}

func src(n ast.Node) string {
	var b bytes.Buffer
	printer.Fprint(&b, token.NewFileSet(), n)
	return strings.Join(strings.Fields(b.String()), " ")
}

// guardAfter finds, inside fn, the first `if` whose condition mentions both given identifiers and returns it in
// Polish notation with v0 = the parsed filter value, v1 = "the filter string is non-empty" (x != "" -> v1, x == "" -> ! v1).
func guardOf(body ast.Node, filterVar, strVar string) []string {
	var out []string
	ast.Inspect(body, func(n ast.Node) bool {
		if out != nil {
			return false
		}
		ifs, ok := n.(*ast.IfStmt)
		if !ok {
			return true
		}
		s := src(ifs.Cond)
		if !strings.Contains(s, filterVar) || !strings.Contains(s, strVar) {
			return true
		}
		out = polishGuard(ifs.Cond, filterVar, strVar)
		return false
	})
	if out == nil {
		return []string{"?"}
	}
	return out
}

func polishGuard(e ast.Expr, filterVar, strVar string) []string {
	if b, ok := e.(*ast.BinaryExpr); ok {
		if id, ok := b.X.(*ast.Ident); ok && id.Name == strVar {
			if l, ok := b.Y.(*ast.BasicLit); ok && l.Value == `""` {
				if b.Op == token.NEQ {
					return []string{"v1"}
				}
				if b.Op == token.EQL {
					return []string{"!", "v1"}
				}
			}
			return []string{"?"}
		}
		if b.Op == token.LAND || b.Op == token.LOR {
			op := "&&"
			if b.Op == token.LOR {
				op = "||"
			}
			r := append([]string{op}, polishGuard(b.X, filterVar, strVar)...)
			return append(r, polishGuard(b.Y, filterVar, strVar)...)
		}
	}
	if p, ok := e.(*ast.ParenExpr); ok {
		return polishGuard(p.X, filterVar, strVar)
	}
	return polish(e, map[string]string{filterVar: "v0"})
}

func emitFilters(repo string) {
	fset := token.NewFileSet()
	var tbl, comps []string
	matchE, loopE := []string{"?"}, []string{"?"}
	exactFirst, joinSep := false, "?"
	strip, sep, combine := "?", "?", "?"
	if f, err := parser.ParseFile(fset, filepath.Join(repo, "api/types.go"), nil, 0); err == nil {
		// the name table and the composite definitions
		ok := true
		for _, d := range f.Decls {
			gd, isGen := d.(*ast.GenDecl)
			if !isGen {
				continue
			}
			for _, sp := range gd.Specs {
				vs, isV := sp.(*ast.ValueSpec)
				if !isV || len(vs.Names) != 1 || len(vs.Values) != 1 {
					continue
				}
				if gd.Tok == token.VAR && vs.Names[0].Name == "trackerStatusString" {
					cl, isCl := vs.Values[0].(*ast.CompositeLit)
					if !isCl {
						ok = false
						continue
					}
					for _, el := range cl.Elts {
						kv, isKV := el.(*ast.KeyValueExpr)
						if !isKV {
							ok = false
							continue
						}
						id, isId := kv.Key.(*ast.Ident)
						lit, isLit := kv.Value.(*ast.BasicLit)
						if !isId || !isLit || lit.Kind != token.STRING {
							ok = false
							continue
						}
						v, known := identValue(id.Name)
						name, err := strconv.Unquote(lit.Value)
						if !known || err != nil {
							ok = false
							continue
						}
						tbl = append(tbl, fmt.Sprintf("(%q, %d)", name, v))
					}
				}
				if gd.Tok == token.CONST && strings.HasPrefix(vs.Names[0].Name, "TrackerStatus") {
					if be, isB := vs.Values[0].(*ast.BinaryExpr); isB && be.Op == token.OR {
						v, known := identValue(vs.Names[0].Name)
						parts := orParts(be)
						if !known || parts == nil {
							ok = false
							continue
						}
						comps = append(comps, fmt.Sprintf("(%d, [%s])", v, strings.Join(parts, ", ")))
					}
				}
			}
		}
		if !ok {
			tbl, comps = nil, nil
		}
		// Match: a single return statement
		if fd := findFunc(f, "TrackerStatus", "Match"); fd != nil && len(fd.Body.List) == 1 && len(fd.Type.Params.List) == 1 &&
			len(fd.Type.Params.List[0].Names) == 1 {
			if rs, isR := fd.Body.List[0].(*ast.ReturnStmt); isR && len(rs.Results) == 1 {
				matchE = polish(rs.Results[0], map[string]string{recvName(fd): "v0", fd.Type.Params.List[0].Names[0].Name: "v1"})
			}
		}
		// String: `if v, ok := trackerStatusString[st]; ok { return v }` first, then one range loop over the table with
		// one `if <cond> { values = append(values, v) }`, then `return strings.Join(values, <sep>)`
		if fd := findFunc(f, "TrackerStatus", "String"); fd != nil {
			rn := recvName(fd)
			var stmts []ast.Stmt
			for _, s := range fd.Body.List {
				if _, isDecl := s.(*ast.DeclStmt); !isDecl {
					stmts = append(stmts, s)
				}
			}
			if len(stmts) == 3 {
				if ifs, isIf := stmts[0].(*ast.IfStmt); isIf && ifs.Init != nil && ifs.Else == nil &&
					src(ifs.Init) == "v, ok := trackerStatusString["+rn+"]" && src(ifs.Cond) == "ok" && src(ifs.Body) == "{ return v }" {
					exactFirst = true
				}
				if rg, isRg := stmts[1].(*ast.RangeStmt); isRg && src(rg.X) == "trackerStatusString" && len(rg.Body.List) == 1 {
					if k, isK := rg.Key.(*ast.Ident); isK {
						if ifs, isIf := rg.Body.List[0].(*ast.IfStmt); isIf && ifs.Init == nil && ifs.Else == nil &&
							src(ifs.Body) == "{ values = append(values, "+src(rg.Value)+") }" {
							loopE = polish(ifs.Cond, map[string]string{rn: "v0", k.Name: "v1"})
						}
					}
				}
				if rs, isR := stmts[2].(*ast.ReturnStmt); isR && len(rs.Results) == 1 {
					s := src(rs.Results[0])
					if strings.HasPrefix(s, "strings.Join(values, ") && strings.HasSuffix(s, ")") {
						if v, err := strconv.Unquote(strings.TrimSuffix(strings.TrimPrefix(s, "strings.Join(values, "), ")")); err == nil {
							joinSep = v
						}
					}
				}
			}
		}
		// TrackerStatusFromString: values := strings.Split(strings.Replace(str, <strip>, "", -1), <sep>); for range values { st, ok := stringTrackerStatus[v]; if ok { status |= st } }
		if fd := findFunc(f, "", "TrackerStatusFromString"); fd != nil && len(fd.Body.List) == 4 {
			p := fd.Type.Params.List[0].Names[0].Name
			s0 := src(fd.Body.List[0])
			pre := "values := strings.Split(strings.Replace(" + p + ", "
			if strings.HasPrefix(s0, pre) {
				rest := strings.TrimPrefix(s0, pre) // "<strip>", "", -1), "<sep>")
				parts := strings.SplitN(rest, `, "", -1), `, 2)
				if len(parts) == 2 && strings.HasSuffix(parts[1], ")") {
					a, e1 := strconv.Unquote(parts[0])
					b, e2 := strconv.Unquote(strings.TrimSuffix(parts[1], ")"))
					if e1 == nil && e2 == nil {
						strip, sep = a, b
					}
				}
			}
			if src(fd.Body.List[1]) == "var status TrackerStatus" && src(fd.Body.List[3]) == "return status" {
				if rg, isRg := fd.Body.List[2].(*ast.RangeStmt); isRg && src(rg.X) == "values" && len(rg.Body.List) == 2 &&
					src(rg.Body.List[0]) == "st, ok := stringTrackerStatus["+src(rg.Value)+"]" {
					switch src(rg.Body.List[1]) {
					case "if ok { status |= st }":
						combine = "|"
					case "if ok { status &= st }":
						combine = "&"
					case "if ok { status = st }":
						combine = "last"
					}
				}
			}
		}
	}
	fmt.Println("/-- `trackerStatusString` (api/types.go), in source order: (name, value of the key) -/")
	fmt.Printf("def statusNames : List (String × Nat) := [%s]\n\n", strings.Join(tbl, ", "))
	fmt.Println("/-- the composite TrackerStatus constants: (value, values of the constants or-ed in the definition) -/")
	fmt.Printf("def composites : List (Nat × List Nat) := [%s]\n\n", strings.Join(comps, ", "))
	fmt.Println("/-- the expression `TrackerStatus.Match` returns, prefix notation, v0 = st, v1 = filter -/")
	fmt.Printf("def matchExpr : List (Nat × Nat) := %s  -- %s\n\n", leanToks(matchE), strings.Join(matchE, " "))
	fmt.Println("/-- `TrackerStatus.String`: the exact table lookup comes first -/")
	fmt.Printf("def stringExactFirst : Bool := %v\n", exactFirst)
	fmt.Println("/-- `TrackerStatus.String`: which table entries are named for a filter, v0 = st, v1 = the entry's key -/")
	fmt.Printf("def stringLoopCond : List (Nat × Nat) := %s  -- %s\n", leanToks(loopE), strings.Join(loopE, " "))
	fmt.Printf("def stringJoin : String := %q\n\n", joinSep)
	fmt.Println("/-- `TrackerStatusFromString`: the characters removed, the separator, how named values are combined -/")
	fmt.Printf("def fromStrip : String := %q\ndef fromSep : String := %q\ndef fromCombine : String := %q\n\n", strip, sep, combine)

	// the guards around the parsed filter: REST handler, ctl, REST client
	restG, ctlG, clientG := []string{"?"}, []string{"?"}, []string{"?"}
	restCalls := []string{}
	if f, err := parser.ParseFile(fset, filepath.Join(repo, "api/rest/restapi.go"), nil, 0); err == nil {
		if fd := findFunc(f, "*API", "statusAllHandler"); fd != nil {
			restG = guardOf(fd.Body, "filter", "filterStr")
			// which RPC gets the filter: (condition on local, method, argument)
			ast.Inspect(fd.Body, func(n ast.Node) bool {
				ce, ok := n.(*ast.CallExpr)
				if !ok || !strings.HasSuffix(src(ce.Fun), "rpcClient.CallContext") || len(ce.Args) != 6 {
					return true
				}
				restCalls = append(restCalls, strings.Trim(src(ce.Args[2]), `"`)+"."+strings.Trim(src(ce.Args[3]), `"`)+"("+src(ce.Args[4])+")")
				return true
			})
		}
	}
	if f, err := parser.ParseFile(fset, filepath.Join(repo, "cmd/ipfs-cluster-ctl/main.go"), nil, 0); err == nil {
		ctlG = guardOf(f, "filter", "filterFlag")
	}
	if f, err := parser.ParseFile(fset, filepath.Join(repo, "api/rest/client/methods.go"), nil, 0); err == nil {
		if fd := findFunc(f, "*defaultClient", "StatusAll"); fd != nil {
			// if filter != Undefined { filterStr = filter.String(); if filterStr == "" { return error } }
			ast.Inspect(fd.Body, func(n ast.Node) bool {
				ifs, ok := n.(*ast.IfStmt)
				if !ok || !strings.Contains(src(ifs.Cond), "filter ") || len(ifs.Body.List) != 2 {
					return true
				}
				inner, ok2 := ifs.Body.List[1].(*ast.IfStmt)
				if ok2 && src(ifs.Body.List[0]) == "filterStr = filter.String()" && strings.HasPrefix(src(inner.Body), "{ return nil, errors.New(") {
					outer := polish(ifs.Cond, map[string]string{"filter": "v0"})
					in := polishGuard(inner.Cond, "filter", "filterStr")
					clientG = append(append([]string{"&&"}, outer...), in...)
				}
				return false
			})
		}
	}
	fmt.Println("/-- the request is refused when this holds: v0 = parsed filter, v1 = the filter string is non-empty -/")
	fmt.Printf("def restGuard : List (Nat × Nat) := %s  -- %s\n", leanToks(restG), strings.Join(restG, " "))
	fmt.Printf("def ctlGuard : List (Nat × Nat) := %s  -- %s\n", leanToks(ctlG), strings.Join(ctlG, " "))
	fmt.Println("/-- REST client: refuses when this holds: v0 = the filter, v1 = filter.String() is non-empty -/")
	fmt.Printf("def clientGuard : List (Nat × Nat) := %s  -- %s\n", leanToks(clientG), strings.Join(clientG, " "))
	fmt.Println("/-- the RPCs statusAllHandler hands the filter to, in source order (local=true first) -/")
	fmt.Printf("def restCalls : List String := %s\n\n", leanStrs(restCalls))
}

func orParts(e ast.Expr) []string {
	switch x := e.(type) {
	case *ast.BinaryExpr:
		if x.Op != token.OR {
			return nil
		}
		a, b := orParts(x.X), orParts(x.Y)
		if a == nil || b == nil {
			return nil
		}
		return append(a, b...)
	case *ast.Ident:
		if v, ok := identValue(x.Name); ok {
			return []string{strconv.Itoa(v)}
		}
	}
	return nil
}

// emitRoutes prints, for every entry point between the REST layer and the tracker, the callee that receives the
// filter / cid and the arguments it is given (first call on rpcapi.c / rpcapi.tracker / c.tracker / c.globalPinInfo*).
func emitRoutes(repo string) {
	fset := token.NewFileSet()
	var rows []string
	want := []struct{ file, recv, name string }{
		{"rpc_api.go", "*ClusterRPCAPI", "StatusAll"}, {"rpc_api.go", "*ClusterRPCAPI", "StatusAllLocal"},
		{"rpc_api.go", "*ClusterRPCAPI", "Status"}, {"rpc_api.go", "*ClusterRPCAPI", "StatusLocal"},
		{"rpc_api.go", "*PinTrackerRPCAPI", "StatusAll"}, {"rpc_api.go", "*PinTrackerRPCAPI", "Status"},
		{"cluster.go", "*Cluster", "StatusAll"}, {"cluster.go", "*Cluster", "StatusAllLocal"},
		{"cluster.go", "*Cluster", "Status"}, {"cluster.go", "*Cluster", "StatusLocal"},
	}
	files := map[string]*ast.File{}
	for _, w := range want {
		f := files[w.file]
		if f == nil {
			var err error
			if f, err = parser.ParseFile(fset, filepath.Join(repo, w.file), nil, 0); err != nil {
				rows = append(rows, fmt.Sprintf("(%q, %q)", w.recv+"."+w.name, "?"))
				continue
			}
			files[w.file] = f
		}
		callee := "?"
		if fd := findFunc(f, w.recv, w.name); fd != nil {
			n := 0
			ast.Inspect(fd.Body, func(nd ast.Node) bool {
				ce, ok := nd.(*ast.CallExpr)
				if !ok {
					return true
				}
				s := src(ce.Fun)
				if strings.HasPrefix(s, "rpcapi.c.") || strings.HasPrefix(s, "rpcapi.tracker.") || strings.HasPrefix(s, "c.tracker.") || strings.HasPrefix(s, "c.globalPinInfo") {
					n++
					callee = src(ce)
				}
				return true
			})
			if n != 1 {
				callee = "?"
			}
		}
		rows = append(rows, fmt.Sprintf("(%q, %q)", w.recv+"."+w.name, callee))
	}
	fmt.Println("/-- entry point -> the one call that carries the filter / cid on (rpc_api.go, cluster.go) -/")
	fmt.Printf("def routes : List (String × String) := [%s]\n\n", strings.Join(rows, ", "))
}
