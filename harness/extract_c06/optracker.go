package main

// Round 8c: pintracker/optracker read with go/ast — the nested switch of trackerStatus, the type switch of
// `filter`, the shape of filterOpsMap and the "keep the ongoing operation" guard of TrackNewOperation — plus
// Operation.ToTrackerStatus evaluated on types 0..5 x phases 0..4 (incl. unknown / out-of-range values).
// Fail-closed: an unknown shape prints 99 / an empty table and `gen_optracker` in Props/C06 fails.

import (
	"context"
	"fmt"
	"go/ast"
	"go/parser"
	"go/token"
	"path/filepath"
	"strings"

	cid "github.com/ipfs/go-cid"
	"github.com/ipfs/ipfs-cluster/api"
	"github.com/ipfs/ipfs-cluster/pintracker/optracker"
)

var optConsts = map[string]int{
	"OperationUnknown": int(optracker.OperationUnknown), "OperationPin": int(optracker.OperationPin),
	"OperationUnpin": int(optracker.OperationUnpin), "OperationRemote": int(optracker.OperationRemote),
	"OperationShard": int(optracker.OperationShard),
	"PhaseError":     int(optracker.PhaseError), "PhaseQueued": int(optracker.PhaseQueued),
	"PhaseInProgress": int(optracker.PhaseInProgress), "PhaseDone": int(optracker.PhaseDone),
}

func optVal(e ast.Expr) int {
	switch x := e.(type) {
	case *ast.Ident:
		if v, ok := optConsts[x.Name]; ok {
			return v
		}
		if v, ok := identValue(x.Name); ok {
			return v
		}
	case *ast.SelectorExpr:
		if v, ok := identValue(x.Sel.Name); ok {
			return v
		}
	}
	return 99
}

// retVal: the value of a clause body that is exactly `return <const>`
func retVal(body []ast.Stmt) int {
	if len(body) == 1 {
		if r, ok := body[0].(*ast.ReturnStmt); ok && len(r.Results) == 1 {
			return optVal(r.Results[0])
		}
	}
	return 99
}

func emitOptracker(repo string) {
	fmt.Println("/-! ## round 8c: pintracker/optracker (go/ast) -/")
	fmt.Println()
	var rows []string
	for t := 0; t <= 5; t++ {
		var row []string
		for ph := 0; ph <= 4; ph++ {
			op := optracker.NewOperation(context.Background(), api.PinCid(cid.Undef), optracker.OperationType(t), optracker.Phase(ph))
			row = append(row, fmt.Sprint(int(op.ToTrackerStatus())))
			op.Cancel()
		}
		rows = append(rows, "["+strings.Join(row, ", ")+"]")
	}
	fmt.Println("/-- Operation.ToTrackerStatus evaluated for type 0..5 x phase 0..4 (5 / 4 are not constants of the package) -/")
	fmt.Printf("def opStatusFull : List (List Nat) := [%s]\n\n", strings.Join(rows, ", "))

	fset := token.NewFileSet()
	var outer []string
	outerDefault := 99
	if f, err := parser.ParseFile(fset, filepath.Join(repo, "pintracker/optracker/operation.go"), nil, 0); err == nil {
		if fd := findFunc(f, "", "trackerStatus"); fd != nil && fd.Body != nil && len(fd.Body.List) == 1 {
			if sw, ok := fd.Body.List[0].(*ast.SwitchStmt); ok && src(sw.Tag) == "typ" && sw.Init == nil {
				for _, c := range sw.Body.List {
					cc := c.(*ast.CaseClause)
					if cc.List == nil {
						outerDefault = retVal(cc.Body)
						continue
					}
					var inner []string
					dflt := 99
					if len(cc.Body) == 1 {
						if isw, ok := cc.Body[0].(*ast.SwitchStmt); ok && src(isw.Tag) == "ph" && isw.Init == nil {
							dflt = 98 // a switch without default falls out of the function: not a shape we know
							for _, ic := range isw.Body.List {
								icc := ic.(*ast.CaseClause)
								if icc.List == nil {
									dflt = retVal(icc.Body)
									continue
								}
								for _, k := range icc.List {
									inner = append(inner, fmt.Sprintf("(%d, %d)", optVal(k), retVal(icc.Body)))
								}
							}
						} else {
							dflt = retVal(cc.Body)
						}
					}
					for _, k := range cc.List {
						outer = append(outer, fmt.Sprintf("(%d, [%s], %d)", optVal(k), strings.Join(inner, ", "), dflt))
					}
				}
			}
		}
	}
	fmt.Println("/-- trackerStatus(typ, ph): per `case` of the outer switch (type value, [(phase value, returned status)] of the inner switch, its default / the direct return) -/")
	fmt.Printf("def trackerSwitch : List (Nat × List (Nat × Nat) × Nat) := [%s]\n", strings.Join(outer, ", "))
	fmt.Printf("def trackerSwitchDefault : Nat := %d\n\n", outerDefault)

	var arms []string
	shape := []string{"99", "99"}
	var keep []string
	if f, err := parser.ParseFile(fset, filepath.Join(repo, "pintracker/optracker/operationtracker.go"), nil, 0); err == nil {
		if fd := findFunc(f, "", "filter"); fd != nil && len(fd.Body.List) == 1 {
			if rg, ok := fd.Body.List[0].(*ast.RangeStmt); ok && src(rg.X) == "in" && src(rg.Value) == "op" && len(rg.Body.List) == 1 {
				if ts, ok := rg.Body.List[0].(*ast.TypeSwitchStmt); ok && src(ts.Assign) == "filter.(type)" {
					for _, c := range ts.Body.List {
						cc := c.(*ast.CaseClause)
						kind, acc, good := 99, 99, 0
						if len(cc.List) == 1 {
							switch src(cc.List[0]) {
							case "OperationType":
								kind = 0
							case "Phase":
								kind = 1
							}
						}
						if len(cc.Body) == 1 {
							if is, ok := cc.Body[0].(*ast.IfStmt); ok && is.Init == nil && is.Else == nil {
								switch src(is.Cond) {
								case "op.Type() == filter":
									acc = 0
								case "op.Phase() == filter":
									acc = 1
								}
								if len(is.Body.List) == 1 && src(is.Body.List[0]) == "out[op.Cid()] = op" {
									good = 1
								}
							}
						}
						arms = append(arms, fmt.Sprintf("(%d, %d, %d)", kind, acc, good))
					}
				}
			}
		}
		if fd := findFunc(f, "", "filterOpsMap"); fd != nil {
			b := src(fd.Body)
			if strings.Contains(b, "if len(filters) < 1 { return nil }") {
				shape[0] = "1"
			}
			if strings.Contains(b, "if len(filters) == 1 { filter(ctx, ops, fltops, filters[0]) return fltops }") &&
				strings.Contains(b, "mainFilter, filters := filters[0], filters[1:] filter(ctx, ops, fltops, mainFilter) return filterOpsMap(ctx, fltops, filters)") {
				shape[1] = "1"
			}
		}
		if fd := findFunc(f, "*OperationTracker", "TrackNewOperation"); fd != nil {
			ast.Inspect(fd.Body, func(n ast.Node) bool {
				is, ok := n.(*ast.IfStmt)
				if !ok || len(is.Body.List) != 1 || src(is.Body.List[0]) != "return nil" {
					return true
				}
				var walk func(e ast.Expr)
				walk = func(e ast.Expr) {
					if b, ok := e.(*ast.BinaryExpr); ok && b.Op == token.LAND {
						walk(b.X)
						walk(b.Y)
						return
					}
					acc, op, rk, rv := 99, 99, 99, 99
					if b, ok := e.(*ast.BinaryExpr); ok {
						switch src(b.X) {
						case "op.Type()":
							acc = 0
						case "op.Phase()":
							acc = 1
						}
						switch b.Op {
						case token.EQL:
							op = 3
						case token.NEQ:
							op = 4
						}
						if src(b.Y) == "typ" {
							rk, rv = 1, 0
						} else if v := optVal(b.Y); v != 99 {
							rk, rv = 0, v
						}
					}
					keep = append(keep, fmt.Sprintf("(%d, %d, %d, %d)", acc, op, rk, rv))
				}
				walk(is.Cond)
				return false
			})
		}
	}
	fmt.Println("/-- the type switch of optracker `filter`: per case (0 OperationType / 1 Phase, compared accessor 0 op.Type() / 1 op.Phase() with `==`, 1 = the body is `out[op.Cid()] = op`) -/")
	fmt.Printf("def optFilterArms : List (Nat × Nat × Nat) := [%s]\n\n", strings.Join(arms, ", "))
	fmt.Println("/-- filterOpsMap: [number of filters below which nil is returned, 1 = each further filter is applied to the result of the previous one] -/")
	fmt.Printf("def optFilterShape : List Nat := [%s]\n\n", strings.Join(shape, ", "))
	fmt.Println("/-- TrackNewOperation keeps the existing operation (returns nil) when all of these hold: (accessor 0 type / 1 phase of the existing op, 3 == / 4 !=, 1 = the new type `typ` / 0 = constant, value) -/")
	fmt.Printf("def trackKeep : List (Nat × Nat × Nat × Nat) := [%s]\n\n", strings.Join(keep, ", "))
}
