// Semantic translation of the relay set-up of ipfsproxy.New (round 8):
//
//   - which round tripper the catch-all reverse proxy gets (`reverseProxy.Transport = E`), with E resolved through
//     one local variable / one package-level constructor function / `http.DefaultTransport.(*http.Transport).Clone()`
//     down to `http.DefaultTransport` or a `&http.Transport{…}` literal, and the fields set on that transport
//     (literal fields and later `tr.F = v` assignments) with their value as a duration source
//     (`cfg.<X>Timeout` | constant milliseconds | other expression)
//   - the round tripper handed to the header-extraction helper (`ipfsRoundTripper:` of the Server literal)
//   - the fields of the `http.Server` literal (client-facing timeouts and from which config field they come), later
//     assignments to / calls on it, and the chain of handlers wrapped around the router.
//
// Anything of another shape becomes `.unknown …` / `.other …`, which the theorems over the generated values refuse
// (fail-closed).  The model INTERPRETS relayTransport/relayTransportFields (Model/C12.lean `ttfbBound`).
package main

import (
	"bytes"
	"fmt"
	"go/ast"
	"go/printer"
	"go/token"
	"strconv"
	"strings"
)

type durField struct{ name, val string }

func pr(fset *token.FileSet, n ast.Node) string {
	var b bytes.Buffer
	printer.Fprint(&b, fset, n)
	return strings.Join(strings.Fields(b.String()), " ")
}

var cfgDur = map[string]string{"ReadTimeout": ".readTimeout", "ReadHeaderTimeout": ".readHeaderTimeout",
	"WriteTimeout": ".writeTimeout", "IdleTimeout": ".idleTimeout"}

var unitMs = map[string]float64{"Nanosecond": 1e-6, "Microsecond": 1e-3, "Millisecond": 1, "Second": 1000, "Minute": 60000, "Hour": 3600000}

func timeUnit(e ast.Expr) (float64, bool) {
	se, ok := e.(*ast.SelectorExpr)
	if !ok {
		return 0, false
	}
	x, ok := se.X.(*ast.Ident)
	if !ok || x.Name != "time" {
		return 0, false
	}
	u, ok := unitMs[se.Sel.Name]
	return u, ok
}

func intLit(e ast.Expr) (int64, bool) {
	bl, ok := e.(*ast.BasicLit)
	if !ok || bl.Kind != token.INT {
		return 0, false
	}
	v, err := strconv.ParseInt(bl.Value, 0, 64)
	return v, err == nil
}

// durOf: a Lean term of type Dur. cfgName = the identifier that denotes New's *Config in this scope ("" = none)
func durOf(fset *token.FileSet, e ast.Expr, cfgName string) string {
	other := func() string { return ".other " + lstr(pr(fset, e)) }
	switch x := e.(type) {
	case *ast.ParenExpr:
		return durOf(fset, x.X, cfgName)
	case *ast.SelectorExpr:
		if id, ok := x.X.(*ast.Ident); ok && cfgName != "" && id.Name == cfgName {
			if c, ok := cfgDur[x.Sel.Name]; ok {
				return ".cfg " + c
			}
		}
		if u, ok := timeUnit(x); ok && u >= 1 {
			return fmt.Sprintf(".ms %d", int64(u))
		}
	case *ast.BasicLit:
		if v, ok := intLit(x); ok && v == 0 {
			return ".ms 0"
		}
	case *ast.BinaryExpr:
		if x.Op == token.MUL {
			for _, p := range [][2]ast.Expr{{x.X, x.Y}, {x.Y, x.X}} {
				if n, ok := intLit(p[0]); ok {
					if u, ok := timeUnit(p[1]); ok {
						ms := float64(n) * u
						if ms == float64(int64(ms)) {
							return fmt.Sprintf(".ms %d", int64(ms))
						}
					}
				}
			}
		}
	}
	return other()
}

func isHTTPSel(e ast.Expr, name string) bool {
	se, ok := e.(*ast.SelectorExpr)
	if !ok || se.Sel.Name != name {
		return false
	}
	x, ok := se.X.(*ast.Ident)
	return ok && x.Name == "http"
}

// transportLit: &http.Transport{…} / http.Transport{…}
func transportLit(e ast.Expr) *ast.CompositeLit {
	if u, ok := e.(*ast.UnaryExpr); ok && u.Op == token.AND {
		e = u.X
	}
	cl, ok := e.(*ast.CompositeLit)
	if !ok || !isHTTPSel(cl.Type, "Transport") {
		return nil
	}
	return cl
}

func litFields(fset *token.FileSet, cl *ast.CompositeLit, cfgName string) ([]durField, bool) {
	var l []durField
	for _, el := range cl.Elts {
		kv, ok := el.(*ast.KeyValueExpr)
		if !ok {
			return nil, false
		}
		k, ok := kv.Key.(*ast.Ident)
		if !ok {
			return nil, false
		}
		l = append(l, durField{k.Name, durOf(fset, kv.Value, cfgName)})
	}
	return l, true
}

// isDefaultClone: http.DefaultTransport.(*http.Transport).Clone()
func isDefaultClone(e ast.Expr) bool {
	ce, ok := e.(*ast.CallExpr)
	if !ok || len(ce.Args) != 0 {
		return false
	}
	se, ok := ce.Fun.(*ast.SelectorExpr)
	if !ok || se.Sel.Name != "Clone" {
		return false
	}
	ta, ok := se.X.(*ast.TypeAssertExpr)
	return ok && isHTTPSel(ta.X, "DefaultTransport")
}

type relayInfo struct {
	kind     string // Lean term of type TransportKind
	fields   []durField
	headerRT string
	srv      []durField
	srvCalls []string
	chain    []string
	problems []string
}

func fieldsLean(l []durField) string {
	q := make([]string, len(l))
	for i, f := range l {
		q[i] = "(" + lstr(f.name) + ", " + f.val + ")"
	}
	return "[" + strings.Join(q, ",\n    ") + "]"
}

func relaySetup(fset *token.FileSet, f *ast.File) string {
	ri := relayInfo{kind: `.unknown "no assignment to reverseProxy.Transport"`, headerRT: "?"}
	var newFn *ast.FuncDecl
	funcs := map[string]*ast.FuncDecl{}
	for _, d := range f.Decls {
		if fd, ok := d.(*ast.FuncDecl); ok && fd.Body != nil && fd.Recv == nil {
			funcs[fd.Name.Name] = fd
			if fd.Name.Name == "New" {
				newFn = fd
			}
		}
	}
	if newFn == nil {
		ri.problems = append(ri.problems, "func New not found")
	} else {
		cfgName := ""
		if ps := newFn.Type.Params.List; len(ps) == 1 && len(ps[0].Names) == 1 {
			cfgName = ps[0].Names[0].Name
		}
		// local definitions `x := E` and field assignments `x.F = V`, in source order
		defs := map[string][]ast.Expr{}
		type fa struct {
			obj, field string
			val        ast.Expr
		}
		var fas []fa
		var transportRHS []ast.Expr
		ast.Inspect(newFn.Body, func(n ast.Node) bool {
			switch s := n.(type) {
			case *ast.AssignStmt:
				if len(s.Lhs) != len(s.Rhs) {
					return true
				}
				for i := range s.Lhs {
					switch l := s.Lhs[i].(type) {
					case *ast.Ident:
						defs[l.Name] = append(defs[l.Name], s.Rhs[i])
						if l.Name == "handler" {
							ri.chain = append(ri.chain, handlerExpr(fset, s.Rhs[i]))
						}
					case *ast.SelectorExpr:
						if x, ok := l.X.(*ast.Ident); ok {
							if x.Name == "reverseProxy" && l.Sel.Name == "Transport" {
								transportRHS = append(transportRHS, s.Rhs[i])
							} else {
								fas = append(fas, fa{x.Name, l.Sel.Name, s.Rhs[i]})
							}
						}
					}
				}
			case *ast.ExprStmt:
				if ce, ok := s.X.(*ast.CallExpr); ok {
					if se, ok := ce.Fun.(*ast.SelectorExpr); ok {
						if x, ok := se.X.(*ast.Ident); ok && x.Name == "s" {
							ri.srvCalls = append(ri.srvCalls, strings.TrimPrefix(pr(fset, ce), "s."))
						}
					}
				}
			case *ast.KeyValueExpr:
				if k, ok := s.Key.(*ast.Ident); ok && k.Name == "ipfsRoundTripper" {
					ri.headerRT = pr(fset, s.Value)
				}
			}
			return true
		})

		// the relay transport
		var resolve func(e ast.Expr, cfg string, depth int) (string, []durField)
		resolve = func(e ast.Expr, cfg string, depth int) (string, []durField) {
			unknown := func() (string, []durField) { return ".unknown " + lstr(pr(fset, e)), nil }
			if depth > 3 {
				return unknown()
			}
			if p, ok := e.(*ast.ParenExpr); ok {
				return resolve(p.X, cfg, depth)
			}
			if isHTTPSel(e, "DefaultTransport") {
				return ".defaultTransport", nil
			}
			if cl := transportLit(e); cl != nil {
				if l, ok := litFields(fset, cl, cfg); ok {
					return ".transportLit", l
				}
				return unknown()
			}
			if isDefaultClone(e) {
				return ".transportLit", nil // a copy of the default transport: none of the timeouts below is set
			}
			switch x := e.(type) {
			case *ast.Ident:
				// a local of New, defined once, possibly with later field assignments
				if cfg != cfgName || len(defs[x.Name]) != 1 {
					return unknown()
				}
				k, l := resolve(defs[x.Name][0], cfg, depth+1)
				if k != ".transportLit" {
					for _, a := range fas {
						if a.obj == x.Name {
							return unknown() // fields set on something that is not a transport we understand
						}
					}
					return k, l
				}
				for _, a := range fas {
					if a.obj == x.Name {
						l = append(l, durField{a.field, durOf(fset, a.val, cfg)})
					}
				}
				return k, l
			case *ast.CallExpr:
				// a package-level constructor whose body is `return E`, called with plain identifiers
				id, ok := x.Fun.(*ast.Ident)
				if !ok {
					return unknown()
				}
				fd := funcs[id.Name]
				if fd == nil || len(fd.Body.List) != 1 {
					return unknown()
				}
				rs, ok := fd.Body.List[0].(*ast.ReturnStmt)
				if !ok || len(rs.Results) != 1 {
					return unknown()
				}
				inner := ""
				pi := 0
				for _, p := range fd.Type.Params.List {
					for _, nm := range p.Names {
						if pi >= len(x.Args) {
							return unknown()
						}
						if a, ok := x.Args[pi].(*ast.Ident); ok && a.Name == cfg && cfg != "" {
							inner = nm.Name
						}
						pi++
					}
				}
				// inside the callee only a returned literal / DefaultTransport is understood (no locals there)
				k, l := resolve(rs.Results[0], inner, depth+1)
				if _, isIdent := rs.Results[0].(*ast.Ident); isIdent {
					return unknown()
				}
				return k, l
			}
			return unknown()
		}
		switch len(transportRHS) {
		case 0:
			// httputil.ReverseProxy with a nil Transport uses http.DefaultTransport
			ri.kind = ".defaultTransport"
		case 1:
			ri.kind, ri.fields = resolve(transportRHS[0], cfgName, 0)
		default:
			ri.kind = `.unknown "reverseProxy.Transport assigned more than once"`
		}

		// the http.Server literal `s := &http.Server{…}` and later `s.F = v`
		if ds := defs["s"]; len(ds) == 1 {
			e := ds[0]
			if u, ok := e.(*ast.UnaryExpr); ok && u.Op == token.AND {
				e = u.X
			}
			if cl, ok := e.(*ast.CompositeLit); ok && isHTTPSel(cl.Type, "Server") {
				if l, ok := litFields(fset, cl, cfgName); ok {
					ri.srv = l
				} else {
					ri.problems = append(ri.problems, "http.Server literal without field names")
				}
			} else {
				ri.problems = append(ri.problems, "s is not an &http.Server{…} literal")
			}
		} else {
			ri.problems = append(ri.problems, "no single definition of s")
		}
		for _, a := range fas {
			if a.obj == "s" {
				ri.srv = append(ri.srv, durField{a.field, durOf(fset, a.val, cfgName)})
			}
		}
	}

	var b strings.Builder
	b.WriteString("/-! ## relay set-up of `New` (round 8): transport of the catch-all reverse proxy, client-facing server -/\n\n")
	b.WriteString("inductive CfgDur | readTimeout | readHeaderTimeout | writeTimeout | idleTimeout\nderiving DecidableEq, Repr\n\n")
	b.WriteString("/-- the source of a value: a duration field of the proxy Config, a constant (milliseconds), or another expression -/\n")
	b.WriteString("inductive Dur | cfg (f : CfgDur) | ms (n : Nat) | other (e : String)\nderiving DecidableEq, Repr\n\n")
	b.WriteString("inductive TransportKind | defaultTransport | transportLit | unknown (e : String)\nderiving DecidableEq, Repr\n\n")
	b.WriteString("/-- what `reverseProxy.Transport` is, resolved to `http.DefaultTransport` or an `http.Transport` literal/clone -/\n")
	b.WriteString("def relayTransport : TransportKind := " + ri.kind + "\n\n")
	b.WriteString("/-- fields set on that transport (literal fields, then later assignments), in source order -/\n")
	b.WriteString("def relayTransportFields : List (String × Dur) := " + fieldsLean(ri.fields) + "\n\n")
	b.WriteString("/-- the round tripper used by the header-extraction helper requests (`ipfsRoundTripper:`) -/\n")
	b.WriteString("def headerRoundTripper : String := " + lstr(ri.headerRT) + "\n\n")
	b.WriteString("/-- fields of the client-facing `http.Server` -/\n")
	b.WriteString("def serverFields : List (String × Dur) := " + fieldsLean(ri.srv) + "\n\n")
	b.WriteString("def serverCalls : List String := " + llist(ri.srvCalls) + "\n\n")
	b.WriteString("/-- every value assigned to `handler` (what the server serves, innermost first) -/\n")
	b.WriteString("def handlerChain : List String := " + llist(ri.chain) + "\n\n")
	b.WriteString("def relaySetupProblems : List String := " + llist(ri.problems) + "\n\n")
	return b.String()
}

// handlerExpr: `router`, or for a wrapper literal its type and what it wraps
func handlerExpr(fset *token.FileSet, e ast.Expr) string {
	x := e
	amp := ""
	if u, ok := x.(*ast.UnaryExpr); ok && u.Op == token.AND {
		x, amp = u.X, "&"
	}
	if cl, ok := x.(*ast.CompositeLit); ok {
		inner := "?"
		for _, el := range cl.Elts {
			if kv, ok := el.(*ast.KeyValueExpr); ok {
				if k, ok := kv.Key.(*ast.Ident); ok && k.Name == "Handler" {
					inner = pr(fset, kv.Value)
				}
			}
		}
		return amp + pr(fset, cl.Type) + "{Handler: " + inner + "}"
	}
	return pr(fset, e)
}
