// flow.go — semantic translator of the hijack HANDLERS (round 8b).
//
// For pinOpHandler, pinLsHandler, pinUpdateHandler, addHandler, repoStatHandler and repoGCHandler the body is
// translated into a flat decision structure that the Lean model INTERPRETS (Model/C12Flow.lean):
//
//	Step = (guard, kind, arm)
//	guard : the conjunction of the enclosing `if`/`else`/`range` conditions, each an (atom, polarity) pair
//	kind  : setHeaders | check fn arg (ParsePath, cid.Decode, MultipartReader, AddParamsFromQuery) |
//	        rpc svc method arg (rpcClient.Call / CallContext) | multi svc method (MultiCall) | adder
//	        (AddMultipartHTTPHandler) | assign lhs rhs (x.F = e, x.F += e, m[k] = v) | respondErr code
//	        (ipfsErrorResponder outside an error arm) | respond code (w.WriteHeader) | write (w.Write) | emit
//	        (json encoder on w) | serr (X-Stream-Error header) | trailer | ret | cont | unknown
//	arm   : the `if err != nil { … }` that directly follows a step that assigns err: status code of its
//	        ipfsErrorResponder call(s), how many of them, whether it sets X-Stream-Error, whether it returns.
//
// Expressions (guards, arguments, assigned values) are printed with single-assignment locals substituted
// (`arg := q.Get("arg")`, `q := r.URL.Query()`, `from := args[0]`, `unpin := !(q.Get("unpin") == "false")`,
// `pinPath := &api.PinPath{…}`), so introducing or removing a temporary changes nothing, while a changed argument
// index, a swapped RPC, a dropped `return`, an arm answering another status or a handler that ignores an error do.
// Every string is interned in a symbol table (`flowSyms`); the structure itself only carries numbers, so that Lean
// can evaluate it in the kernel. Fail-closed: a statement that touches `w` or the RPC client in a shape not listed
// above becomes `unknown` and is listed in `flowProblems`.
package main

import (
	"fmt"
	"go/ast"
	"go/token"
	"strconv"
	"strings"
)

type farm struct {
	code, writes  int
	returns, serr bool
}

type fatom struct {
	sym int
	pol bool
}

type fstep struct {
	guard   []fatom
	kind    string
	a, b, c int
	code    int
	arm     *farm
}

type flowCtx struct {
	fset     *token.FileSet
	defs     map[string]ast.Expr
	steps    []fstep
	problems *[]string
	fn       string
	syms     *[]string
}

var flowHandlers = []string{"pinOpHandler", "pinLsHandler", "pinUpdateHandler", "addHandler", "repoStatHandler", "repoGCHandler"}

var statusConst = map[string]int{"StatusOK": 200, "StatusBadRequest": 400, "StatusInternalServerError": 500,
	"StatusNotFound": 404, "StatusAccepted": 202, "StatusNoContent": 204, "StatusCreated": 201, "StatusForbidden": 403,
	"StatusUnauthorized": 401, "StatusBadGateway": 502, "StatusServiceUnavailable": 503, "StatusMethodNotAllowed": 405}

func (c *flowCtx) sym(s string) int {
	for i, t := range *c.syms {
		if t == s {
			return i
		}
	}
	*c.syms = append(*c.syms, s)
	return len(*c.syms) - 1
}

func (c *flowCtx) problem(format string, a ...interface{}) {
	*c.problems = append(*c.problems, c.fn+": "+fmt.Sprintf(format, a...))
}

// show prints an expression with single-assignment locals substituted
func (c *flowCtx) show(e ast.Expr, depth int) string {
	if depth > 8 {
		return pr(c.fset, e)
	}
	switch x := e.(type) {
	case *ast.Ident:
		if d, ok := c.defs[x.Name]; ok {
			s := c.show(d, depth+1)
			switch d.(type) {
			case *ast.BinaryExpr:
				return "(" + s + ")"
			}
			return s
		}
		return x.Name
	case *ast.SelectorExpr:
		return c.show(x.X, depth) + "." + x.Sel.Name
	case *ast.CallExpr:
		args := make([]string, len(x.Args))
		for i, a := range x.Args {
			args[i] = c.show(a, depth)
		}
		return c.show(x.Fun, depth) + "(" + strings.Join(args, ", ") + ")"
	case *ast.IndexExpr:
		return c.show(x.X, depth) + "[" + c.show(x.Index, depth) + "]"
	case *ast.UnaryExpr:
		return x.Op.String() + c.show(x.X, depth)
	case *ast.BinaryExpr:
		return c.show(x.X, depth) + " " + x.Op.String() + " " + c.show(x.Y, depth)
	case *ast.ParenExpr:
		return "(" + c.show(x.X, depth) + ")"
	case *ast.BasicLit:
		return x.Value
	case *ast.CompositeLit:
		parts := make([]string, len(x.Elts))
		for i, el := range x.Elts {
			if kv, ok := el.(*ast.KeyValueExpr); ok {
				parts[i] = pr(c.fset, kv.Key) + ": " + c.show(kv.Value, depth)
			} else {
				parts[i] = c.show(el, depth)
			}
		}
		t := ""
		if x.Type != nil {
			t = pr(c.fset, x.Type)
		}
		return t + "{" + strings.Join(parts, ", ") + "}"
	}
	return pr(c.fset, e)
}

// collectDefs: locals assigned exactly once, by `x := e` with e free of calls that have effects
func (c *flowCtx) collectDefs(body *ast.BlockStmt) {
	count := map[string]int{}
	cand := map[string]ast.Expr{}
	bump := func(e ast.Expr) {
		if id, ok := e.(*ast.Ident); ok {
			count[id.Name]++
		}
	}
	ast.Inspect(body, func(n ast.Node) bool {
		switch s := n.(type) {
		case *ast.FuncLit:
			return false
		case *ast.AssignStmt:
			for _, l := range s.Lhs {
				bump(l)
			}
			if s.Tok == token.DEFINE && len(s.Lhs) == 1 && len(s.Rhs) == 1 {
				if id, ok := s.Lhs[0].(*ast.Ident); ok {
					if _, isFn := s.Rhs[0].(*ast.FuncLit); !isFn {
						cand[id.Name] = s.Rhs[0]
					}
				}
			}
		case *ast.IncDecStmt:
			bump(s.X)
		case *ast.RangeStmt:
			if s.Key != nil {
				bump(s.Key)
				bump(s.Key)
			}
			if s.Value != nil {
				bump(s.Value)
				bump(s.Value)
			}
		case *ast.ValueSpec:
			for _, id := range s.Names {
				count[id.Name]++
			}
		}
		return true
	})
	for name, e := range cand {
		if count[name] != 1 || name == "err" || name == "errs" {
			continue
		}
		if c.effectful(e) {
			continue
		}
		c.defs[name] = e
	}
}

// effectful: the expression calls the RPC client, a parser that yields err, the adder, or writes the response
func (c *flowCtx) effectful(e ast.Expr) bool {
	bad := false
	ast.Inspect(e, func(n ast.Node) bool {
		if call, ok := n.(*ast.CallExpr); ok {
			f := pr(c.fset, call.Fun)
			if strings.Contains(f, "rpcClient") || strings.HasPrefix(f, "w.") || strings.HasPrefix(f, "adderutils.") ||
				f == "path.ParsePath" || f == "cid.Decode" || f == "ipfsErrorResponder" || f == "make" {
				bad = true
			}
		}
		return !bad
	})
	return bad
}

func isErrNotNil(e ast.Expr) bool {
	b, ok := e.(*ast.BinaryExpr)
	if !ok || b.Op != token.NEQ {
		return false
	}
	x, ok1 := b.X.(*ast.Ident)
	y, ok2 := b.Y.(*ast.Ident)
	return ok1 && ok2 && x.Name == "err" && y.Name == "nil"
}

func (c *flowCtx) statusOf(e ast.Expr) int {
	if u, ok := e.(*ast.UnaryExpr); ok && u.Op == token.SUB {
		return 500 // ipfsErrorResponder: code <= 0 means 500
	}
	if n, ok := intLit(e); ok {
		if n <= 0 {
			return 500
		}
		return int(n)
	}
	if s, ok := e.(*ast.SelectorExpr); ok {
		if v, ok := statusConst[s.Sel.Name]; ok && pr(c.fset, s.X) == "http" {
			return v
		}
	}
	c.problem("status code not understood: %s", pr(c.fset, e))
	return 0
}

func (c *flowCtx) emit(g []fatom, kind string, a, b, cc, code int) int {
	gg := make([]fatom, len(g))
	copy(gg, g)
	c.steps = append(c.steps, fstep{guard: gg, kind: kind, a: a, b: b, c: cc, code: code})
	return len(c.steps) - 1
}

func assignsErr(s *ast.AssignStmt) bool {
	for _, l := range s.Lhs {
		if id, ok := l.(*ast.Ident); ok && id.Name == "err" {
			return true
		}
	}
	return false
}

// touches: the node calls a method of the response writer or the RPC client
func (c *flowCtx) touches(n ast.Node) bool {
	found := false
	ast.Inspect(n, func(m ast.Node) bool {
		if call, ok := m.(*ast.CallExpr); ok {
			f := pr(c.fset, call.Fun)
			if strings.HasPrefix(f, "w.") || strings.Contains(f, "rpcClient") || f == "ipfsErrorResponder" {
				found = true
			}
		}
		return !found
	})
	return found
}

// callStep translates one call (statement or right-hand side); returns the step index, or -1 when the call is irrelevant,
// and whether the step can set err
func (c *flowCtx) callStep(g []fatom, call *ast.CallExpr, hasErr bool) (int, bool) {
	raw := pr(c.fset, call.Fun)
	res := c.show(call.Fun, 0)
	argS := func(i int) string {
		if i < len(call.Args) {
			return c.show(call.Args[i], 0)
		}
		return "?"
	}
	rpcName := func(e ast.Expr) string {
		if s, ok := strArg(e); ok {
			return s
		}
		return "$" + pr(c.fset, e)
	}
	switch {
	case raw == "proxy.setHeaders":
		return c.emit(g, "setHeaders", 0, 0, 0, 0), false
	case raw == "ipfsErrorResponder":
		code := 0
		if len(call.Args) == 3 {
			code = c.statusOf(call.Args[2])
		} else {
			c.problem("ipfsErrorResponder with %d arguments", len(call.Args))
		}
		return c.emit(g, "respondErr", 0, 0, 0, code), false
	case raw == "w.WriteHeader":
		code := 0
		if len(call.Args) == 1 {
			code = c.statusOf(call.Args[0])
		}
		return c.emit(g, "respond", 0, 0, 0, code), false
	case raw == "w.Write":
		return c.emit(g, "write", 0, 0, 0, 0), false
	case raw == "w.Header().Set":
		if s, ok := strArg(call.Args[0]); ok && s == "X-Stream-Error" {
			return c.emit(g, "serr", 0, 0, 0, 0), false
		} else if ok && s == "Trailer" {
			return c.emit(g, "trailer", 0, 0, 0, 0), false
		}
		return c.emit(g, "unknown", c.sym(pr(c.fset, call)), 0, 0, 0), false
	case res == "json.NewEncoder(w).Encode":
		return c.emit(g, "emit", 0, 0, 0, 0), true
	case raw == "path.ParsePath" || raw == "cid.Decode" || raw == "api.AddParamsFromQuery":
		return c.emit(g, "check", c.sym(raw), c.sym(argS(0)), 0, 0), true
	case raw == "r.MultipartReader":
		return c.emit(g, "check", c.sym(raw), c.sym(""), 0, 0), true
	case raw == "proxy.rpcClient.Call" && len(call.Args) == 5:
		return c.emit(g, "rpc", c.sym(rpcName(call.Args[1])), c.sym(rpcName(call.Args[2])), c.sym(argS(3)), 0), true
	case raw == "proxy.rpcClient.CallContext" && len(call.Args) == 6:
		return c.emit(g, "rpc", c.sym(rpcName(call.Args[2])), c.sym(rpcName(call.Args[3])), c.sym(argS(4)), 0), true
	case raw == "proxy.rpcClient.MultiCall" && len(call.Args) == 6:
		return c.emit(g, "multi", c.sym(rpcName(call.Args[2])), c.sym(rpcName(call.Args[3])), 0, 0), false
	case raw == "adderutils.AddMultipartHTTPHandler":
		return c.emit(g, "adder", 0, 0, 0, 0), true
	}
	if c.touches(call) {
		c.problem("call not understood: %s", pr(c.fset, call))
		return c.emit(g, "unknown", c.sym(pr(c.fset, call)), 0, 0, 0), false
	}
	return -1, false
}

// armOf translates the body of an `if err != nil` that follows a step
func (c *flowCtx) armOf(body *ast.BlockStmt) *farm {
	a := &farm{}
	for i, s := range body.List {
		switch st := s.(type) {
		case *ast.ReturnStmt:
			a.returns = true
			if i != len(body.List)-1 {
				c.problem("statements after return in an error arm")
			}
		case *ast.ExprStmt:
			call, ok := st.X.(*ast.CallExpr)
			if !ok {
				c.problem("error arm statement not understood: %s", pr(c.fset, s))
				continue
			}
			f := pr(c.fset, call.Fun)
			switch {
			case f == "ipfsErrorResponder":
				a.writes++
				if len(call.Args) == 3 {
					a.code = c.statusOf(call.Args[2])
				}
			case f == "w.Header().Set":
				if s0, ok := strArg(call.Args[0]); ok && s0 == "X-Stream-Error" {
					a.serr = true
				} else {
					c.problem("error arm sets a header: %s", pr(c.fset, call))
				}
			case strings.HasPrefix(f, "logger."):
			default:
				c.problem("error arm statement not understood: %s", pr(c.fset, s))
				a.writes += 100
			}
		case *ast.AssignStmt, *ast.DeclStmt:
			// a local computed inside the arm (message text …) is harmless unless it touches the response or the RPC client
			if c.touches(s) {
				c.problem("error arm statement not understood: %s", pr(c.fset, s))
				a.writes += 100
			}
		default:
			c.problem("error arm statement not understood: %s", pr(c.fset, s))
			a.writes += 100
		}
	}
	return a
}

func (c *flowCtx) walk(stmts []ast.Stmt, g []fatom) bool {
	last := -1 // index of the step of the directly preceding statement, when it can set err
	for _, s := range stmts {
		prev := last
		last = -1
		switch st := s.(type) {
		case *ast.ExprStmt:
			if call, ok := st.X.(*ast.CallExpr); ok {
				f := pr(c.fset, call.Fun)
				if strings.HasPrefix(f, "logger.") || strings.HasPrefix(f, "time.") || strings.HasPrefix(f, "span.") {
					continue
				}
				if k, canErr := c.callStep(g, call, false); k >= 0 && canErr && c.steps[k].kind != "emit" {
					c.problem("error of %s ignored", f)
				}
			} else if c.touches(s) {
				c.problem("statement not understood: %s", pr(c.fset, s))
			}
		case *ast.AssignStmt:
			if len(st.Rhs) == 1 {
				if call, ok := st.Rhs[0].(*ast.CallExpr); ok {
					if k, canErr := c.callStep(g, call, assignsErr(st)); k >= 0 {
						if canErr && assignsErr(st) {
							last = k
						} else if canErr && c.steps[k].kind != "emit" {
							c.problem("error of %s discarded", pr(c.fset, call.Fun))
						}
						continue
					}
				}
			}
			switch st.Lhs[0].(type) {
			case *ast.SelectorExpr, *ast.IndexExpr:
				rhs := make([]string, len(st.Rhs))
				for i, r := range st.Rhs {
					rhs[i] = c.show(r, 0)
				}
				c.emit(g, "assign", c.sym(pr(c.fset, st.Lhs[0])+" "+st.Tok.String()), c.sym(strings.Join(rhs, ", ")), 0, 0)
			default:
				if c.touches(s) {
					c.problem("assignment not understood: %s", pr(c.fset, s))
					c.emit(g, "unknown", c.sym(pr(c.fset, s)), 0, 0, 0)
				}
			}
		case *ast.IfStmt:
			if st.Init != nil {
				c.walk([]ast.Stmt{st.Init}, g)
				if as, ok := st.Init.(*ast.AssignStmt); ok && assignsErr(as) && len(c.steps) > 0 {
					prev = len(c.steps) - 1
				}
			}
			if isErrNotNil(st.Cond) && prev >= 0 && c.steps[prev].arm == nil && st.Else == nil {
				c.steps[prev].arm = c.armOf(st.Body)
				continue
			}
			atom := c.sym(c.show(st.Cond, 0))
			d1 := c.walk(st.Body.List, append(append([]fatom{}, g...), fatom{atom, true}))
			d2 := false
			switch el := st.Else.(type) {
			case nil:
			case *ast.BlockStmt:
				d2 = c.walk(el.List, append(append([]fatom{}, g...), fatom{atom, false}))
			default:
				d2 = c.walk([]ast.Stmt{el}, append(append([]fatom{}, g...), fatom{atom, false}))
			}
			// `if c { …; continue }; rest` is read as `if c { … } else { rest }` (the guards carry the control flow)
			if d1 && d2 {
				return true
			} else if d1 {
				g = append(append([]fatom{}, g...), fatom{atom, false})
			} else if d2 {
				g = append(append([]fatom{}, g...), fatom{atom, true})
			}
		case *ast.RangeStmt:
			atom := c.sym("range " + c.show(st.X, 0))
			c.walk(st.Body.List, append(append([]fatom{}, g...), fatom{atom, true}))
		case *ast.ReturnStmt:
			c.emit(g, "ret", 0, 0, 0, 0)
		case *ast.BranchStmt:
			if st.Tok == token.CONTINUE {
				c.emit(g, "cont", 0, 0, 0, 0)
				return true
			} else {
				c.problem("branch statement: %s", pr(c.fset, s))
				c.emit(g, "unknown", c.sym(pr(c.fset, s)), 0, 0, 0)
			}
		case *ast.DeclStmt, *ast.IncDecStmt, *ast.EmptyStmt:
		case *ast.DeferStmt:
			if c.touches(st.Call) {
				c.problem("defer touches the response or the RPC client: %s", pr(c.fset, s))
				c.emit(g, "unknown", c.sym(pr(c.fset, s)), 0, 0, 0)
			}
		default:
			c.problem("statement not understood: %s", pr(c.fset, s))
			c.emit(g, "unknown", c.sym(pr(c.fset, s)), 0, 0, 0)
		}
	}
	return false
}

func kindLean(s fstep) string {
	switch s.kind {
	case "check":
		return fmt.Sprintf(".check %d %d", s.a, s.b)
	case "rpc":
		return fmt.Sprintf(".rpc %d %d %d", s.a, s.b, s.c)
	case "multi":
		return fmt.Sprintf(".multi %d %d", s.a, s.b)
	case "assign":
		return fmt.Sprintf(".assign %d %d", s.a, s.b)
	case "respondErr":
		return fmt.Sprintf(".respondErr %d", s.code)
	case "respond":
		return fmt.Sprintf(".respond %d", s.code)
	case "unknown":
		return fmt.Sprintf(".unknown %d", s.a)
	}
	return "." + s.kind
}

func flowSection(fset *token.FileSet, f *ast.File) string {
	var b strings.Builder
	var syms, problems []string
	b.WriteString("\n/-! ## handlers as decision structures (round 8b): see harness/extract_c12/flow.go -/\n\n")
	b.WriteString("inductive StepKind\n  | setHeaders\n  | check (fn arg : Nat)\n  | rpc (svc method arg : Nat)\n  | multi (svc method : Nat)\n  | adder\n" +
		"  | assign (lhs rhs : Nat)\n  | respondErr (code : Nat)\n  | respond (code : Nat)\n  | write | emit | serr | trailer | ret | cont\n  | unknown (s : Nat)\nderiving DecidableEq, Repr\n\n")
	b.WriteString("/-- the `if err != nil { … }` directly after a step that assigns err -/\nstructure Arm where\n  code : Nat\n  writes : Nat\n  returns : Bool\n  serr : Bool\nderiving DecidableEq, Repr\n\n")
	b.WriteString("structure Step where\n  guard : List (Nat × Bool)\n  kind : StepKind\n  arm : Option Arm\nderiving DecidableEq, Repr\n\n")
	type named struct {
		name  string
		steps []fstep
	}
	var all []named
	for _, h := range flowHandlers {
		var fd *ast.FuncDecl
		for _, d := range f.Decls {
			if x, ok := d.(*ast.FuncDecl); ok && x.Name.Name == h && x.Body != nil {
				fd = x
			}
		}
		c := &flowCtx{fset: fset, defs: map[string]ast.Expr{}, problems: &problems, fn: h, syms: &syms}
		if fd == nil {
			c.problem("function not found")
			all = append(all, named{h, nil})
			continue
		}
		c.collectDefs(fd.Body)
		c.walk(fd.Body.List, nil)
		all = append(all, named{h, c.steps})
	}
	for _, n := range all {
		fmt.Fprintf(&b, "def %sFlow : List Step := [", n.name)
		for i, s := range n.steps {
			if i > 0 {
				b.WriteString(",")
			}
			gs := make([]string, len(s.guard))
			for j, a := range s.guard {
				gs[j] = fmt.Sprintf("(%d, %v)", a.sym, a.pol)
			}
			arm := "none"
			if s.arm != nil {
				arm = fmt.Sprintf("some { code := %d, writes := %d, returns := %v, serr := %v }", s.arm.code, s.arm.writes, s.arm.returns, s.arm.serr)
			}
			fmt.Fprintf(&b, "\n  { guard := [%s], kind := %s, arm := %s }", strings.Join(gs, ", "), kindLean(s), arm)
		}
		b.WriteString("]\n\n")
	}
	b.WriteString("/-- symbol table of the flows: guard atoms, function / service / method names, argument and assigned expressions\n    (single-assignment locals substituted) -/\n")
	b.WriteString("def flowSyms : List String := [")
	for i, s := range syms {
		if i > 0 {
			b.WriteString(",")
		}
		b.WriteString("\n  " + strconv.Quote(s))
	}
	b.WriteString("]\n\n")
	b.WriteString("def flowProblems : List String := " + llist(problems) + "\n\n")
	return b.String()
}
