// extract_c12: translator for property C12.
//
// Reads $VERIF_REPO/api/ipfsproxy/ipfsproxy.go with go/ast and prints (stdout
// IS the generated file lean/ClusterVerif/Gen/C12.lean):
//
//   - the hijack sub-router of New(): its Methods(...) and PathPrefix(...)
//   - every `hijackSubrouter.Path(tpl).HandlerFunc(h).Name(n)` registration, in
//     source order (template, template split in segments after the prefix was
//     prepended, handler method, wrapped-in-slashHandler flag, route name)
//   - every registration made directly on the top router (the catch-all
//     `router.PathPrefix("/").Handler(reverseProxy)`), and whether all of them
//     come after the hijack registrations
//   - router options called anywhere in New (StrictSlash, SkipClean,
//     UseEncodedPath, ...) and any other statement that touches `router` or
//     `hijackSubrouter` in a shape this translator does not understand
//   - the fields of `reverseProxy` that New assigns (Director, ModifyResponse ...)
//   - the RPC method each thin handler passes to pinOpHandler.
//
// Lean then checks by `decide` that this table is exactly the frozen
// expectation of Spec/C12.lean (Props/C12.lean, hijack_exact) and the model's
// router runs on this table.
package main

import (
	"fmt"
	"go/ast"
	"go/parser"
	"go/printer"
	"go/token"
	"os"
	"path/filepath"
	"sort"
	"strconv"
	"strings"
)

type route struct {
	tpl, handler, name string
	slash              bool
	pos                token.Pos
}

type topReg struct {
	kind, arg, handler string
	pos                token.Pos
}

var methodConst = map[string]string{
	"MethodGet": "GET", "MethodHead": "HEAD", "MethodPost": "POST", "MethodPut": "PUT",
	"MethodPatch": "PATCH", "MethodDelete": "DELETE", "MethodConnect": "CONNECT",
	"MethodOptions": "OPTIONS", "MethodTrace": "TRACE",
}

func lstr(s string) string { return strconv.Quote(s) }

func llist(l []string) string {
	q := make([]string, len(l))
	for i, s := range l {
		q[i] = lstr(s)
	}
	return "[" + strings.Join(q, ", ") + "]"
}

// chain flattens a.b(x).c(y) into receiver identifier + [(method,args)...]
type call struct {
	name string
	args []ast.Expr
}

func chain(e ast.Expr) (string, []call) {
	var calls []call
	for {
		ce, ok := e.(*ast.CallExpr)
		if !ok {
			break
		}
		se, ok := ce.Fun.(*ast.SelectorExpr)
		if !ok {
			return "", nil
		}
		calls = append([]call{{se.Sel.Name, ce.Args}}, calls...)
		e = se.X
	}
	id, ok := e.(*ast.Ident)
	if !ok {
		return "", nil
	}
	return id.Name, calls
}

func strArg(e ast.Expr) (string, bool) {
	bl, ok := e.(*ast.BasicLit)
	if !ok || bl.Kind != token.STRING {
		return "", false
	}
	s, err := strconv.Unquote(bl.Value)
	return s, err == nil
}

func methodArg(e ast.Expr) string {
	if se, ok := e.(*ast.SelectorExpr); ok {
		if v, ok := methodConst[se.Sel.Name]; ok {
			return v
		}
		return "?" + se.Sel.Name
	}
	if s, ok := strArg(e); ok {
		return s
	}
	return "?"
}

// handlerArg: proxy.h -> (h,false); slashHandler(proxy.h) -> (h,true)
func handlerArg(e ast.Expr) (string, bool, bool) {
	if se, ok := e.(*ast.SelectorExpr); ok {
		return se.Sel.Name, false, true
	}
	if ce, ok := e.(*ast.CallExpr); ok {
		if id, ok := ce.Fun.(*ast.Ident); ok && id.Name == "slashHandler" && len(ce.Args) == 1 {
			if se, ok := ce.Args[0].(*ast.SelectorExpr); ok {
				return se.Sel.Name, true, true
			}
		}
	}
	if id, ok := e.(*ast.Ident); ok {
		return id.Name, false, true
	}
	return "", false, false
}

func mentions(n ast.Node, names ...string) bool {
	found := false
	ast.Inspect(n, func(x ast.Node) bool {
		if id, ok := x.(*ast.Ident); ok {
			for _, nm := range names {
				if id.Name == nm {
					found = true
				}
			}
		}
		return !found
	})
	return found
}

func main() {
	repo := os.Getenv("VERIF_REPO")
	if repo == "" {
		repo = "/repo"
	}
	src := filepath.Join(repo, "api/ipfsproxy/ipfsproxy.go")
	fset := token.NewFileSet()
	f, err := parser.ParseFile(fset, src, nil, 0)
	if err != nil {
		fmt.Fprintln(os.Stderr, err)
		os.Exit(1)
	}

	var (
		methods     []string
		prefix      string
		subFound    bool
		routes      []route
		tops        []topReg
		routerOpts  []string
		other       []string
		rpFields    []string
		rpCtor      string
		pinOps      [][2]string
		slashSetArg bool
		addUnpinArg = "?"
	)
	optNames := map[string]bool{"StrictSlash": true, "SkipClean": true, "UseEncodedPath": true, "Use": true,
		"NotFoundHandler": true, "MethodNotAllowedHandler": true}

	for _, d := range f.Decls {
		fd, ok := d.(*ast.FuncDecl)
		if !ok || fd.Body == nil {
			continue
		}
		// thin handlers: body is a single proxy.pinOpHandler("X", w, r)
		if fd.Recv != nil && len(fd.Body.List) == 1 {
			if es, ok := fd.Body.List[0].(*ast.ExprStmt); ok {
				if ce, ok := es.X.(*ast.CallExpr); ok {
					if se, ok := ce.Fun.(*ast.SelectorExpr); ok && se.Sel.Name == "pinOpHandler" && len(ce.Args) == 3 {
						if s, ok := strArg(ce.Args[0]); ok {
							pinOps = append(pinOps, [2]string{fd.Name.Name, s})
						}
					}
				}
			}
		}
		if fd.Name.Name == "addHandler" {
			// the argument handed to the Cluster.Unpin RPC after adding with pin=false
			ast.Inspect(fd.Body, func(x ast.Node) bool {
				ce, ok := x.(*ast.CallExpr)
				if !ok || len(ce.Args) != 6 {
					return true
				}
				if se, ok := ce.Fun.(*ast.SelectorExpr); !ok || se.Sel.Name != "CallContext" {
					return true
				}
				if m, ok := strArg(ce.Args[3]); ok && m == "Unpin" {
					var sb strings.Builder
					printer.Fprint(&sb, fset, ce.Args[4])
					addUnpinArg = sb.String()
				}
				return true
			})
		}
		if fd.Name.Name == "slashHandler" {
			// the rewriting statement q.Set("arg", arg) must be there
			ast.Inspect(fd.Body, func(x ast.Node) bool {
				if ce, ok := x.(*ast.CallExpr); ok {
					if se, ok := ce.Fun.(*ast.SelectorExpr); ok && se.Sel.Name == "Set" && len(ce.Args) == 2 {
						if s, ok := strArg(ce.Args[0]); ok && s == "arg" {
							if id, ok := ce.Args[1].(*ast.Ident); ok && id.Name == "arg" {
								slashSetArg = true
							}
						}
					}
				}
				return true
			})
		}
		if fd.Name.Name != "New" || fd.Recv != nil {
			continue
		}
		for _, st := range fd.Body.List {
			switch s := st.(type) {
			case *ast.AssignStmt:
				if len(s.Lhs) == 1 && len(s.Rhs) == 1 {
					if id, ok := s.Lhs[0].(*ast.Ident); ok && id.Name == "hijackSubrouter" {
						recv, calls := chain(s.Rhs[0])
						if recv != "router" || len(calls) == 0 || calls[len(calls)-1].name != "Subrouter" {
							other = append(other, "hijackSubrouter assigned in an unknown shape")
							continue
						}
						subFound = true
						for _, c := range calls[:len(calls)-1] {
							switch c.name {
							case "Methods":
								for _, a := range c.args {
									methods = append(methods, methodArg(a))
								}
							case "PathPrefix":
								if len(c.args) == 1 {
									prefix, _ = strArg(c.args[0])
								}
							default:
								other = append(other, "hijackSubrouter matcher "+c.name)
							}
						}
						continue
					}
					if id, ok := s.Lhs[0].(*ast.Ident); ok && id.Name == "reverseProxy" {
						if ce, ok := s.Rhs[0].(*ast.CallExpr); ok {
							if se, ok := ce.Fun.(*ast.SelectorExpr); ok {
								if x, ok := se.X.(*ast.Ident); ok {
									rpCtor = x.Name + "." + se.Sel.Name
								}
							}
						}
						continue
					}
					if se, ok := s.Lhs[0].(*ast.SelectorExpr); ok {
						if x, ok := se.X.(*ast.Ident); ok && x.Name == "reverseProxy" {
							rpFields = append(rpFields, se.Sel.Name)
							continue
						}
						if x, ok := se.X.(*ast.Ident); ok && (x.Name == "router" || x.Name == "hijackSubrouter") {
							routerOpts = append(routerOpts, x.Name+"."+se.Sel.Name+"=")
							continue
						}
					}
				}
				// `handler = router` and the tracing wrapper are fine; anything else touching the sub-router is not
				if mentions(s, "hijackSubrouter") {
					other = append(other, "assignment mentions hijackSubrouter at "+fset.Position(s.Pos()).String())
				}
			case *ast.ExprStmt:
				recv, calls := chain(s.X)
				if recv == "hijackSubrouter" {
					if len(calls) == 3 && calls[0].name == "Path" && calls[1].name == "HandlerFunc" && calls[2].name == "Name" &&
						len(calls[0].args) == 1 && len(calls[1].args) == 1 && len(calls[2].args) == 1 {
						tpl, ok1 := strArg(calls[0].args[0])
						h, slash, ok2 := handlerArg(calls[1].args[0])
						nm, ok3 := strArg(calls[2].args[0])
						if ok1 && ok2 && ok3 {
							routes = append(routes, route{tpl, h, nm, slash, s.Pos()})
							continue
						}
					}
					var ns []string
					for _, c := range calls {
						ns = append(ns, c.name)
					}
					other = append(other, "hijackSubrouter."+strings.Join(ns, "."))
					continue
				}
				if recv == "router" {
					if len(calls) == 2 && (calls[0].name == "PathPrefix" || calls[0].name == "Path") &&
						(calls[1].name == "Handler" || calls[1].name == "HandlerFunc") && len(calls[0].args) == 1 && len(calls[1].args) == 1 {
						a, ok1 := strArg(calls[0].args[0])
						h, _, ok2 := handlerArg(calls[1].args[0])
						if ok1 && ok2 {
							tops = append(tops, topReg{calls[0].name, a, h, s.Pos()})
							continue
						}
					}
					if len(calls) >= 1 && optNames[calls[0].name] {
						routerOpts = append(routerOpts, "router."+calls[0].name)
						continue
					}
					var ns []string
					for _, c := range calls {
						ns = append(ns, c.name)
					}
					other = append(other, "router."+strings.Join(ns, "."))
					continue
				}
				if mentions(s, "hijackSubrouter") {
					other = append(other, "statement mentions hijackSubrouter at "+fset.Position(s.Pos()).String())
				}
			default:
				if mentions(st, "hijackSubrouter") {
					other = append(other, "statement mentions hijackSubrouter at "+fset.Position(st.Pos()).String())
				}
			}
		}
	}
	if !subFound {
		other = append(other, "no hijackSubrouter found in New")
	}
	after := len(tops) > 0
	for _, t := range tops {
		for _, r := range routes {
			if t.pos < r.pos {
				after = false
			}
		}
	}
	sort.Strings(rpFields)

	var b strings.Builder
	b.WriteString("/- GENERATED by harness/extract_c12 from api/ipfsproxy/ipfsproxy.go — do not edit.\n")
	b.WriteString("   The hijack table of ipfsproxy.New as registered on the gorilla/mux router. -/\n")
	b.WriteString("namespace CV.Gen.C12\n\n")
	b.WriteString("structure Route where\n  tpl : String\n  segs : List String\n  pats : List (Option (List Nat))\n  handler : String\n  slash : Bool\n  name : String\nderiving DecidableEq, Repr\n\n")
	b.WriteString("/-- `router.Methods(...)` of the hijack sub-router -/\n")
	b.WriteString("def methods : List String := " + llist(methods) + "\n\n")
	b.WriteString("/-- `.PathPrefix(...)` of the hijack sub-router -/\n")
	b.WriteString("def pathPrefix : String := " + lstr(prefix) + "\n\n")
	b.WriteString("/-- `hijackSubrouter.Path(tpl).HandlerFunc(h).Name(n)` in source order; `segs` = (prefix ++ tpl) split on '/', `pats` = the same as ASCII bytes, `none` for `{arg}` -/\n")
	b.WriteString("def routes : List Route := [\n")
	for i, r := range routes {
		segs := strings.Split(prefix+r.tpl, "/")
		sep := ","
		if i == len(routes)-1 {
			sep = ""
		}
		pats := make([]string, len(segs))
		for j, sg := range segs {
			if sg == "{arg}" {
				pats[j] = "none"
				continue
			}
			nums := make([]string, len(sg))
			for k := 0; k < len(sg); k++ {
				nums[k] = strconv.Itoa(int(sg[k]))
			}
			pats[j] = "some [" + strings.Join(nums, ", ") + "]"
		}
		fmt.Fprintf(&b, "  { tpl := %s, segs := %s,\n    pats := [%s],\n    handler := %s, slash := %v, name := %s }%s\n",
			lstr(r.tpl), llist(segs), strings.Join(pats, ", "), lstr(r.handler), r.slash, lstr(r.name), sep)
	}
	b.WriteString("]\n\n")
	b.WriteString("/-- registrations made directly on the top router: (matcher, argument, handler) -/\n")
	b.WriteString("def topRoutes : List (String × String × String) := [")
	for i, t := range tops {
		if i > 0 {
			b.WriteString(", ")
		}
		fmt.Fprintf(&b, "(%s, %s, %s)", lstr(t.kind), lstr(t.arg), lstr(t.handler))
	}
	b.WriteString("]\n\n")
	fmt.Fprintf(&b, "/-- every top-router registration comes after every hijack registration (mux matches in order) -/\ndef topAfterHijack : Bool := %v\n\n", after)
	b.WriteString("/-- router options set in New (StrictSlash, SkipClean, UseEncodedPath, middleware ...) -/\n")
	b.WriteString("def routerOptions : List String := " + llist(routerOpts) + "\n\n")
	b.WriteString("/-- statements touching the routers in a shape the translator does not understand -/\n")
	b.WriteString("def unknownRegistrations : List String := " + llist(other) + "\n\n")
	b.WriteString("/-- constructor and assigned fields of the catch-all reverse proxy -/\n")
	b.WriteString("def reverseProxyCtor : String := " + lstr(rpCtor) + "\n")
	b.WriteString("def reverseProxyFields : List String := " + llist(rpFields) + "\n\n")
	b.WriteString("/-- thin handlers: method ↦ RPC method handed to pinOpHandler -/\n")
	b.WriteString("def pinOps : List (String × String) := [")
	for i, p := range pinOps {
		if i > 0 {
			b.WriteString(", ")
		}
		fmt.Fprintf(&b, "(%s, %s)", lstr(p[0]), lstr(p[1]))
	}
	b.WriteString("]\n\n")
	fmt.Fprintf(&b, "/-- slashHandler contains `q.Set(\"arg\", arg)` -/\ndef slashSetsArg : Bool := %v\n\n", slashSetArg)
	b.WriteString("/-- addHandler: the expression passed as argument of the Cluster.Unpin RPC (which takes a *api.Pin) -/\n")
	b.WriteString("def addUnpinArg : String := " + lstr(addUnpinArg) + "\n\n")
	b.WriteString(relaySetup(fset, f))
	b.WriteString(flowSection(fset, f))
	b.WriteString("end CV.Gen.C12\n")
	fmt.Print(b.String())
}
